#!/usr/bin/env python3
"""cmpobs.py cases impl model: compare projected observables line by line."""
import sys
def proj(x): return x.split(' #')[0].strip()
def main():
    c=open(sys.argv[1],errors='replace').read().split('\n'); a=open(sys.argv[2],errors='replace').read().split('\n'); b=open(sys.argv[3],errors='replace').read().split('\n')
    bad=0; drift=0
    n=min(len(a),len(b))
    for i in range(n):
        if proj(b[i])=='-': continue
        if proj(a[i])!=proj(b[i]):
            bad+=1
            if bad<=10: print('MISMATCH case:',c[i][:200],'| impl:',a[i][:100],'| model:',b[i][:100])
        elif a[i].strip()!=b[i].strip() and 'abn' not in a[i]:
            drift+=1
            if drift<=3: print('drift case:',c[i][:120],'| impl:',a[i][:100],'| model:',b[i][:100])
    print('cases',len(c)-1,'impl',len(a)-1,'model',len(b)-1,'mismatches',bad,'drift',drift)
main()
