#!/usr/bin/env python3
"""Writes /verif/MANIFEST.json from bin/props.py (so that the two cannot drift)."""
import json, sys, os
sys.path.insert(0, '/verif/bin')
from props import PROPS, COMMON_TRUSTED, TEXT, PENDING

props = [json.loads(l) for l in open('/verif/properties.jsonl')]
checks = []
na = []
for p in props:
    pid = p['id']
    if pid not in PROPS:
        na.append({'property_id': pid, 'reason': PENDING.get(pid, 'check not built yet (work in progress); see DESIGN.md section 6')})
        continue
    t = TEXT[pid]
    checks.append({
        'property_id': pid,
        'quick_cmd': 'bin/check %s quick' % pid,
        'thorough_cmd': 'bin/check %s thorough' % pid,
        'evidence_file': 'evidence/%s.json' % pid,
        'replay_cmd_template': 'bin/check %s quick --replay {path}' % pid,
        'engine': 'coq-rjson',
        'level_claimed': {'category': 'proof', 'text': t['level'], 'design_ref': 'DESIGN.md section 6, ' + pid},
        'level_note': t['note'],
        'technique': t['technique'],
    })
m = {
    'version': 1,
    'setup_cmd': 'bin/setup',
    'hooks': {
        'guard': 'verif',
        'enable': 'go build -tags verif (harness/go.mod replaces github.com/willabides/rjson => /repo)',
        'baseline_off_cmd': 'cd /repo && GOFLAGS=-mod=mod GOPROXY=off GOSUMDB=off go test -vet=off -count=1 ./...',
        'source_commits': [l.split()[0] for l in os.popen("git -C /repo log --format='%h %s' | grep -i 'verif hooks'").read().strip().split('\n') if l],
        'add_only': True,
    },
    'engines': [{'name': 'coq-rjson', 'path': 'bin/check', 'serves_properties': [c['property_id'] for c in checks],
                 'kind_free_text': 'Coq 8.16.1 development (coq/): tables regenerated from /repo by tools/rl2v on every run, certified checkers run by vm_compute, hand models tied by a Go-harness vs extracted-OCaml-model correspondence check with stdlib oracles'}],
    'checks': checks,
    'not_applicable': na,
    'notes': 'All checks share one content-hash-keyed build (work/build-<hash>) of the translator output, the per-run Coq files, the extracted model and the harness; VERIF_SEED seeds every generator. known_findings.json lists recorded findings/fixes.',
}
json.dump(m, open('/verif/MANIFEST.json', 'w'), indent=1)
print('MANIFEST: %d checks, %d not_applicable' % (len(checks), len(na)))
