#!/usr/bin/env python3
"""mkseeded.py <src dir> <seeded name> <property> <confirm line> <caught_by ;-separated> : file a confirmed seeded change under /verif/seeded/<name>/"""
import sys, os, re, json, shutil
src, name, prop, confirm, caught = sys.argv[1:6]
dst = '/verif/seeded/' + name
os.makedirs(dst, exist_ok=True)
for f in ('patch.diff', 'demo_test.go', 'note.txt'):
    shutil.copy(os.path.join(src, f), os.path.join(dst, f))
note = open(os.path.join(src, 'note.txt')).read()
m = re.search(r'(?is)trigger[^:]*:\s*(.+?)(?:\n\s*\n|\n[A-Z][a-z]+[^:\n]{0,40}:|\Z)', note)
needs = ' '.join((m.group(1) if m else note[:400]).split())[:600]
meta = {
    'property': prop,
    'needs_to_manifest': needs,
    'author': 'independent sub-agent given only the property text and a scratch worktree of /repo',
    'confirmed_in_scratch_worktree': confirm,
    'what_i_ran': [
        'bin/confirm_mutant %s  (go build, unedited suite with the patch, demo with and without the patch)' % src,
        'bin/try_mutant %s <checks>  (bin/check against a scratch worktree with the patch applied via VERIF_REPO)' % src,
    ],
    'caught_by': [c.strip() for c in caught.split(';') if c.strip()],
}
json.dump(meta, open(os.path.join(dst, 'meta.json'), 'w'), indent=1)
print(name, '<-', src)
