"""Per-property configuration of bin/check."""

COMMON_TRUSTED = [
    'Coq 8.16.1 kernel + vm_compute (no native_compute); no axioms declared by the development',
    'translator tools/rl2v (go/parser): byte-dispatch evaluator, 24-entry action-unit dictionary, skeleton/frame checks',
    'rendering of the Ragel -G2 goto skeleton as Machine.prun (DESIGN.md Appendix C)',
    'hand models of hand-written Go functions (coq/Api.v, Helpers.v, ...) - validated by the correspondence check, not verified',
    'extraction: Require Extraction + ExtrOcamlBasic only (no Extract Constant of our own); OCaml 4.13.1 ocamlfind ocamlopt',
    'Go harness (harness/*.go), OCaml driver glue (driver/*.ml), comparison in bin/check',
    'Go toolchain semantics (bounds checks panic, string(b) copies, IEEE-754 float64 ops, strconv.IntSize = 64)',
]

PROPS = {}


def P(pid, **kw):
    PROPS[pid] = kw


BASE_STATIC = ['BaseFacts.v']

P('C01', suites=['c01'], run_files=['Tie.v'], static_files=BASE_STATIC, oracle=True,
  trusted=['encoding/json.Valid as oracle'])
P('C02', suites=['c02'], run_files=['Tie.v'], static_files=BASE_STATIC, oracle=True,
  trusted=['encoding/json.Decoder (Token/Decode + InputOffset) as oracle'])
P('C05', suites=['c05'], run_files=['Tie.v'], static_files=BASE_STATIC, oracle=True,
  trusted=['math/big reference reader written from the property text as oracle'])
P('C07', suites=['c07'], run_files=['Tie.v'], static_files=BASE_STATIC, oracle=True,
  trusted=['member list computed with encoding/json.Decoder as oracle'])
P('C09', suites=['c09'], run_files=['Tie.v'], static_files=BASE_STATIC, oracle=False)
P('C10', suites=['c10'], run_files=['Tie.v'], static_files=BASE_STATIC, oracle=True)
P('C11', suites=['c11'], run_files=['Tie.v'], static_files=BASE_STATIC, oracle=True)
P('C12', suites=['c12'], run_files=['Tie.v'], static_files=BASE_STATIC, oracle=False)
P('C13', suites=['c13'], run_files=['Tie.v'], static_files=BASE_STATIC, oracle=True)

# ---------------------------------------------------------------- manifest texts
PENDING = {}
TEXT = {}


def T(pid, level, note, technique):
    TEXT[pid] = {'level': level, 'note': note, 'technique': technique}


_TIE = ('Tie: the machine/data tables are regenerated from /repo by the translator on every run and the Tie lemmas are '
        're-proved by vm_compute; hand-written Go functions are hand-modelled and compared with the implementation on '
        'generated inputs (impl vs extracted model vs library oracle). ')
T('C01', 'Coq proof about the regenerated skipValue machine + Valid wrapper model, tied by translator and correspondence; oracle encoding/json.Valid', _TIE, 'Coq proof (regenerated tables + certified checks) with model/impl/oracle correspondence')
T('C02', 'Coq proof about the regenerated skipValue machine; correspondence incl. every value x next byte and truncations; oracle json.Decoder offsets', _TIE, 'Coq proof with model/impl/oracle correspondence')
T('C05', 'Coq model of the integer readers with explicit mod 2^64 arithmetic, proved equal to the exact-integer specification; boundary-window correspondence', _TIE, 'Coq proof (lia over Z) with correspondence')
T('C07', 'Coq proof about the regenerated handler machines; exhaustive per-call strategy vectors in the correspondence; oracle = member list via json.Decoder', _TIE, 'Coq proof with model/impl/oracle correspondence')
T('C09', 'generic Coq theorem over every well-formed table (handler error unit returns immediately), instantiated by vm_compute on the regenerated tables', _TIE, 'Coq proof (generic in the table) with correspondence')
T('C10', 'generic Coq safety theorem (no panic, fuel-bounded termination, offsets in range) for every table passing the computed wf check; hostile-handler correspondence', _TIE, 'Coq proof (invariant over all runs) with correspondence')
T('C11', 'Coq proof relating the strict and the fast skip machines on well-formed values; correspondence on valid documents x following byte', _TIE, 'Coq proof with correspondence')
T('C12', 'Coq theorem on the Decode models (store only on success, null fallback); correspondence with three non-zero initial targets per function', _TIE, 'Coq proof with correspondence')
T('C13', '256-way table lemmas on the regenerated tokenTypes/whitespace tables, literal machines, reader exclusivity theorem', _TIE, 'Coq proof (finite sweeps + machine lemmas) with correspondence')

P('C06', suites=['c06'], run_files=['Tie.v'], static_files=BASE_STATIC, oracle=True,
  trusted=['reference string decoder written from the property text (harness/run2.go refString) as oracle'])
P('C14', suites=['c14'], run_files=['Tie.v'], static_files=BASE_STATIC, oracle=True,
  trusted=['oracle = the same call sequence with no Buffer'])
P('C16', suites=['c16'], run_files=['Tie.v'], static_files=BASE_STATIC, oracle=True)
P('C17', suites=['c17'], run_files=['Tie.v'], static_files=BASE_STATIC + ['Compat.v'], oracle=True,
  trusted=['unicode/utf8.DecodeRune-based sanitiser as oracle'])
T('C06', 'Coq model of the string readers over the regenerated escape machines and the \\\\u helpers, tied by correspondence incl. all 65,536 code units and surrogate grids; reference decoder oracle', _TIE, 'Coq proof with model/impl/oracle correspondence')
T('C14', 'generic Coq theorem: outcomes do not depend on the initial stack contents nor on handler scribbling (zipper stack; handlers only at depth 0); buffer-history correspondence incl. re-entrant handlers', _TIE, 'Coq proof (invariant over histories) with correspondence')
T('C16', 'Coq theorems on the pure models (append semantics, scratch independence); run-time frame checks of input, destination prefix and result aliasing', _TIE + 'Go string(b) copy semantics is trusted; aliasing is observed at run time.', 'Coq proof with correspondence and run-time frame checks')
T('C17', 'Coq proof that the model of StdLibCompatibleString equals the Table 3-7 sanitiser, idempotent, identity on valid UTF-8; exhaustive 1-2 byte and class-wise 3-4 byte correspondence', _TIE, 'Coq proof with correspondence')

PROPS['C05']['static_files'] = BASE_STATIC + ['IntSpec.v', 'IntFacts.v']
PROPS['C17']['static_files'] = BASE_STATIC + ['Compat.v', 'CompatFacts.v']
