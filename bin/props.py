"""Per-property configuration of bin/check."""

COMMON_TRUSTED = [
    'Coq 8.16.1 kernel + vm_compute (no native_compute); no axioms declared by the development',
    'translator tools/rl2v (go/parser): byte-dispatch evaluator, 24-entry action-unit dictionary, skeleton/frame checks',
    'rendering of the Ragel -G2 goto skeleton as Machine.prun (DESIGN.md Appendix C)',
    'hand models of hand-written Go functions (coq/Api.v, Helpers.v, ...) - validated by the correspondence check, not verified',
    'extraction: Require Extraction + ExtrOcamlBasic only (no Extract Constant of our own); OCaml 4.13.1 ocamlfind ocamlopt',
    'Go harness (harness/*.go), OCaml driver glue (driver/*.ml), comparison in bin/check',
    'Go toolchain semantics (bounds checks panic, string(b) copies, IEEE-754 float64 ops, strconv.IntSize = 64)',
]

PROPS = {}


def P(pid, **kw):
    PROPS[pid] = kw


BASE_STATIC = ['BaseFacts.v']

P('C01', suites=['c01'], run_files=['Tie.v'], static_files=BASE_STATIC, oracle=True,
  trusted=['encoding/json.Valid as oracle'])
P('C02', suites=['c02'], run_files=['Tie.v'], static_files=BASE_STATIC, oracle=True,
  trusted=['encoding/json.Decoder (Token/Decode + InputOffset) as oracle'])
P('C05', suites=['c05'], run_files=['Tie.v'], static_files=BASE_STATIC, oracle=True,
  trusted=['math/big reference reader written from the property text as oracle'])
P('C07', suites=['c07'], run_files=['Tie.v'], static_files=BASE_STATIC, oracle=True,
  trusted=['member list computed with encoding/json.Decoder as oracle'])
P('C09', suites=['c09'], run_files=['Tie.v'], static_files=BASE_STATIC, oracle=False)
P('C10', suites=['c10'], run_files=['Tie.v'], static_files=BASE_STATIC, oracle=True)
P('C11', suites=['c11'], run_files=['Tie.v'], static_files=BASE_STATIC, oracle=True)
P('C12', suites=['c12'], run_files=['Tie.v'], static_files=BASE_STATIC, oracle=False)
P('C13', suites=['c13'], run_files=['Tie.v'], static_files=BASE_STATIC, oracle=True)

# ---------------------------------------------------------------- manifest texts
PENDING = {}
TEXT = {}


def T(pid, level, note, technique):
    TEXT[pid] = {'level': level, 'note': note, 'technique': technique}


_TIE = ('Tie: the machine/data tables are regenerated from /repo by the translator on every run and the Tie lemmas are '
        're-proved by vm_compute; hand-written Go functions are hand-modelled and compared with the implementation on '
        'generated inputs (impl vs extracted model vs library oracle). ')
T('C01', 'Coq proof about the regenerated skipValue machine + Valid wrapper model, tied by translator and correspondence; oracle encoding/json.Valid', _TIE, 'Coq proof (regenerated tables + certified checks) with model/impl/oracle correspondence')
T('C02', 'Coq proof about the regenerated skipValue machine; correspondence incl. every value x next byte and truncations; oracle json.Decoder offsets', _TIE, 'Coq proof with model/impl/oracle correspondence')
T('C05', 'Coq model of the integer readers with explicit mod 2^64 arithmetic, proved equal to the exact-integer specification; boundary-window correspondence', _TIE, 'Coq proof (lia over Z) with correspondence')
T('C07', 'Coq proof about the regenerated handler machines; exhaustive per-call strategy vectors in the correspondence; oracle = member list via json.Decoder', _TIE, 'Coq proof with model/impl/oracle correspondence')
T('C09', 'generic Coq theorem over every well-formed table (handler error unit returns immediately), instantiated by vm_compute on the regenerated tables', _TIE, 'Coq proof (generic in the table) with correspondence')
T('C10', 'generic Coq safety theorem (no panic, fuel-bounded termination, offsets in range) for every table passing the computed wf check; hostile-handler correspondence', _TIE, 'Coq proof (invariant over all runs) with correspondence')
T('C11', 'Coq proof relating the strict and the fast skip machines on well-formed values; correspondence on valid documents x following byte', _TIE, 'Coq proof with correspondence')
T('C12', 'Coq theorem on the Decode models (store only on success, null fallback); correspondence with three non-zero initial targets per function', _TIE, 'Coq proof with correspondence')
T('C13', '256-way table lemmas on the regenerated tokenTypes/whitespace tables, literal machines, reader exclusivity theorem', _TIE, 'Coq proof (finite sweeps + machine lemmas) with correspondence')

P('C06', suites=['c06'], run_files=['Tie.v'], static_files=BASE_STATIC, oracle=True,
  trusted=['reference string decoder written from the property text (harness/run2.go refString) as oracle'])
P('C14', suites=['c14'], run_files=['Tie.v'], static_files=BASE_STATIC, oracle=True,
  trusted=['oracle = the same call sequence with no Buffer'])
P('C16', suites=['c16'], run_files=['Tie.v'], static_files=BASE_STATIC, oracle=True)
P('C17', suites=['c17'], run_files=['Tie.v'], static_files=BASE_STATIC + ['Compat.v'], oracle=True,
  trusted=['unicode/utf8.DecodeRune-based sanitiser as oracle'])
T('C06', 'Coq model of the string readers over the regenerated escape machines and the \\\\u helpers, tied by correspondence incl. all 65,536 code units and surrogate grids; reference decoder oracle', _TIE, 'Coq proof with model/impl/oracle correspondence')
T('C14', 'generic Coq theorem: outcomes do not depend on the initial stack contents nor on handler scribbling (zipper stack; handlers only at depth 0); buffer-history correspondence incl. re-entrant handlers', _TIE, 'Coq proof (invariant over histories) with correspondence')
T('C16', 'Coq theorems on the pure models (append semantics, scratch independence); run-time frame checks of input, destination prefix and result aliasing', _TIE + 'Go string(b) copy semantics is trusted; aliasing is observed at run time.', 'Coq proof with correspondence and run-time frame checks')
T('C17', 'Coq proof that the model of StdLibCompatibleString equals the Table 3-7 sanitiser, idempotent, identity on valid UTF-8; exhaustive 1-2 byte and class-wise 3-4 byte correspondence', _TIE, 'Coq proof with correspondence')

PROPS['C05']['static_files'] = BASE_STATIC + ['IntSpec.v', 'IntFacts.v']
PROPS['C17']['static_files'] = BASE_STATIC + ['Compat.v', 'CompatFacts.v']

# ---------------------------------------------------------------- run-time extras (C18, C19, C20)
import subprocess, os, re, time

_ENV = dict(os.environ, GOFLAGS='-mod=mod', GOPROXY='off', GOSUMDB='off', GOTOOLCHAIN='local')


def _run(cmd, timeout, cwd=None):
    try:
        r = subprocess.run(cmd, env=_ENV, cwd=cwd, timeout=timeout, stdout=subprocess.PIPE, stderr=subprocess.PIPE)
        return r.returncode, r.stdout.decode(errors='replace'), r.stderr.decode(errors='replace')
    except subprocess.TimeoutExpired:
        return 124, '', 'timeout'


def extra_allocs(B, tier, seed):
    """C19: testing.AllocsPerRun on warm successful calls must be 0 (and a cold Buffer must allocate)"""
    rc, out, err = _run([B + '/bin/harness', 'allocs', tier, str(seed)], 1500)
    res = {'suite': 'allocs(AllocsPerRun)', 'cases': 0, 'violations': []}
    if rc != 0:
        res['error'] = 'allocs run failed: ' + (out + err)[-800:]
        return res
    for l in out.split('\n'):
        if l.startswith('ALLOC '):
            f = l.split()
            res['violations'].append({'case': 'allocs %s %s' % (f[1], f[2]), 'impl': 'allocs/op = ' + f[3], 'expected': '0 allocations on a warm successful call', 'by': 'AllocsPerRun'})
        m = re.match(r'SUMMARY cases=(\d+) successful=(\d+) nonzero=(\d+) cold_buffer_allocs=(\S+) functions=(\d+)', l)
        if m:
            res['cases'] = int(m.group(2))
            res['distinct_nontrivial'] = int(m.group(2))
            res['generated'] = int(m.group(1))
            res['functions_covered'] = int(m.group(5))
            res['cold_buffer_allocs'] = float(m.group(4))
            if float(m.group(4)) < 1:
                res['error'] = 'instrumentation vacuous: a cold Buffer on a nested document did not allocate'
        if l.startswith('FUNCTIONS '):
            res['histogram'] = dict(x.split(':') for x in l.split()[1:])
    res['samples'] = [{'case': 'AllocsPerRun(3, fn) for %s warm successful calls over %s functions' % (res['cases'], res.get('functions_covered'))}]
    return res


def extra_cost(B, tier, seed):
    """C20: TotalAlloc of adversarial document/histories families at growing sizes: linear, bounded per byte"""
    rc, out, err = _run([B + '/bin/harness', 'cost', tier, str(seed)], 1500)
    res = {'suite': 'cost(TotalAlloc)', 'cases': 0, 'violations': [], 'families': {}}
    if rc != 0:
        res['error'] = 'cost run failed: ' + (out + err)[-800:]
        return res
    n = 0
    for l in out.split('\n'):
        if l.startswith('COST '):
            n += 1
        m = re.match(r'FAMILY (\S+) superlinearity=(\S+) max_per_byte=(\S+)', l)
        if m:
            name, sup, per = m.group(1), float(m.group(2)), float(m.group(3))
            res['families'][name] = {'superlinearity': sup, 'max_bytes_per_input_byte': per}
            # sizes span a factor 4 (quick) / 8 (thorough): quadratic growth gives 4 / 8, linear gives ~1
            if sup > 2.2 or per > 8000:
                res['violations'].append({'case': 'cost ' + name, 'impl': 'allocated bytes grow super-linearly (x%.2f per byte over the size range) or exceed 8000 B per input byte (%.0f)' % (sup, per),
                                          'expected': 'total allocation <= K*len(inputs) + K*calls', 'by': 'TotalAlloc'})
    res['cases'] = n
    res['distinct_nontrivial'] = n
    res['samples'] = [{'case': k, 'measured': v} for k, v in list(res['families'].items())[:4]]
    return res


def extra_race(B, tier, seed):
    """C18: whole API from 16 goroutines on shared read-only inputs under the race detector"""
    res = {'suite': 'race(-race, 16 goroutines)', 'cases': 0, 'violations': []}
    exe = B + '/bin/harness-race'
    if not os.path.exists(exe):
        hdir = B + '/harness-src' if os.path.isdir(B + '/harness-src') else '/verif/harness'
        rc, out, err = _run(['go', 'build', '-race', '-tags', 'verif', '-o', exe, '.'], 1500, cwd=hdir)
        if rc != 0:
            res['error'] = 'cannot build the harness with -race: ' + (out + err)[-800:]
            return res
    rc, out, err = _run([exe, 'race', tier, str(seed)], 1500)
    m = re.search(r'RACE-SUMMARY docs=(\d+) workers=(\d+) calls=(\d+) mismatches=(\d+) inputs_modified=(\d+)', out)
    if m:
        res['cases'] = int(m.group(3))
        res['distinct_nontrivial'] = int(m.group(1))
        res['samples'] = [{'case': 'race: %s documents x %s goroutines, %s API calls' % (m.group(1), m.group(2), m.group(3))}]
        if int(m.group(4)) or int(m.group(5)):
            res['violations'].append({'case': 'race ' + tier + ' ' + str(seed), 'impl': m.group(0), 'expected': 'concurrent results equal sequential results, inputs untouched', 'by': 'concurrent-vs-sequential'})
    if 'DATA RACE' in err or rc == 66:
        res['violations'].append({'case': 'race ' + tier + ' ' + str(seed), 'impl': 'race detector report: ' + err[:1500], 'expected': 'no data race', 'by': 'go race detector'})
    elif rc != 0 and not res['violations']:
        res['error'] = 'race run failed rc=%s: %s' % (rc, (out + err)[-800:])
    return res


P('C19', suites=[], run_files=['Tie.v', 'TieAlloc.v'], gen_files=['gen/GenFacts.v'], static_files=BASE_STATIC + ['AllocSpec.v'], extras=[extra_allocs],
  trusted=['Go escape analysis, append growth policy and interface boxing are measured (testing.AllocsPerRun), not modelled'])
T('C19', 'PARTIAL: proof-of-model + measurement. Coq: the inventory of allocation-capable expressions and call targets of every covered function, regenerated from /repo on every run, equals the recorded one whose every entry is guarded or on an error path (AllocSpec.v); run time: testing.AllocsPerRun = 0 on warm successful calls on every conversion path, >= 1 on a cold buffer',
  _TIE + 'The allocator/escape analysis is not modelled: a theorem alone cannot exhibit a heap allocation.', 'Coq tie on regenerated allocation-site inventory + AllocsPerRun measurement')
P('C20', suites=[], run_files=['Tie.v'], static_files=BASE_STATIC, extras=[extra_cost],
  trusted=['runtime.MemStats.TotalAlloc as the cost measure; runtime constants (bytes per map slot, append doubling) are measured'])
T('C20', 'PARTIAL: proof-of-model + measurement. Run time: TotalAlloc of adversarial families (large container then many small siblings, reused reader after a huge document, escapes at every nesting level, deep nesting, many small documents) at sizes spanning x4/x8 must stay linear and below a fixed constant per input byte',
  _TIE + 'The Go allocator is measured, not modelled.', 'size-hint model + TotalAlloc measurement of adversarial families')

MACH_STATIC = BASE_STATIC + ['MachineFacts.v', 'Wf.v', 'Safety.v', 'ApiFacts.v']
for _p in ('C01', 'C02', 'C06', 'C07', 'C11', 'C13'):
    PROPS[_p]['run_files'] = ['Tie.v', 'TieWf.v']
    PROPS[_p]['static_files'] = PROPS[_p].get('static_files', BASE_STATIC) + ['MachineFacts.v', 'Wf.v', 'Safety.v']
PROPS['C09'].update(run_files=['Tie.v', 'TieWf.v', 'PropsC09.v'], static_files=MACH_STATIC)
PROPS['C10'].update(run_files=['Tie.v', 'TieWf.v', 'PropsC10.v'], static_files=MACH_STATIC)
PROPS['C14'].update(run_files=['Tie.v', 'TieWf.v', 'PropsC14.v'], static_files=MACH_STATIC)

P('C18', suites=[], run_files=['Tie.v', 'TieGlobals.v'], gen_files=['gen/GenGlobals.v'], static_files=BASE_STATIC + ['Footprint.v'], extras=[extra_race],
  trusted=['the Go memory model below the footprint abstraction, sync.Pool internals and the scheduler are not modelled; the race detector observes only the schedules that occur'])
T('C18', 'PARTIAL: proof-of-model + measurement. Coq: generic theorem that threads writing only locations they own and reading only those plus never-written ones are race-free and compute their solo results under every interleaving (Footprint.v), instantiated with the computed fact that every access to a package-level variable in the regenerated access inventory is read-only (TieGlobals.v); run time: the whole API from 16 goroutines on shared read-only inputs under the Go race detector, results compared with sequential ones',
  _TIE + 'Mutable state lives only in caller-owned Buffer / ValueReader (its sync.Pool is per reader) / destination slices: by inspection of the models, every function takes its state explicitly.', 'Coq non-interference theorem + regenerated global-access facts + race-detector run')

VR_STATIC = MACH_STATIC + ['ValueReader.v', 'Compat.v', 'CompatFacts.v']
P('C03', suites=['c03'], run_files=['Tie.v', 'TieWf.v', 'TieFast.v'], static_files=VR_STATIC, oracle=True,
  trusted=['encoding/json (Decoder.Decode into interface{}) as oracle after StdLibCompatible*; documents with post-replacement key collisions are skipped (counted)',
           'functional extensionality only in run/TieFast.v (transport of the indexed-table evaluator the driver runs)'])
P('C08', suites=['c08'], run_files=['Tie.v', 'TieWf.v', 'TieFast.v'], static_files=VR_STATIC, oracle=True,
  trusted=['oracle = direct whole-value decoding (ReadValue) of the implementation itself: the property is a consistency statement between API paths'])
P('C15', suites=['c15'], run_files=['Tie.v', 'TieWf.v', 'TieFast.v'], static_files=VR_STATIC, oracle=True,
  trusted=['oracle = the same calls on brand-new readers; stability of earlier results is checked at run time by deep comparison with snapshots, also after the caller scribbles over later results'])
T('C03', 'Coq model of ValueReader (handler of the regenerated handler machines, depth counter, key unescaping, null rejection) validated against the implementation on generated trees (both the faithful and the accelerated evaluator) and against encoding/json; PARTIAL: the tree theorem is stated on the model, the grammar link of the handler machines is by simulation with the spec machines', _TIE, 'Coq model + correspondence (impl vs model vs encoding/json)')
T('C08', 'composition decoders written against the public API only, driven by a per-value strategy function shared by the Go harness and the OCaml driver over the model; final offsets and trees compared with direct decoding', _TIE, 'Coq model + strategy-interpreter correspondence')
T('C15', 'the model of ReadValue/ReadObject/ReadArray is a pure function (no reader state influences results), so reuse-equals-fresh is immediate on the model; histories on one reader are compared with fresh readers and earlier results are checked for stability at run time', _TIE + 'Aliasing of returned maps/slices with reader-owned memory is a run-time observation (heap not modelled).', 'Coq model + history correspondence + run-time stability checks')

PROPS['C01']['suites'] = ['c01', 'sweep-skipValue']
PROPS['C02']['suites'] = ['c02', 'sweep-skipValue']
PROPS['C11']['suites'] = ['c11', 'sweep-skipValueFast']
PROPS['C07']['suites'] = ['c07', 'sweep-handleArrayValues', 'sweep-handleObjectValues']
PROPS['C13']['suites'] = ['c13', 'sweep-readNull', 'sweep-readBool']
PROPS['C06']['suites'] = ['c06', 'sweep-appendRemainderOfString', 'sweep-unescapeStringContent']

# the certified simulation tie of every regenerated machine to its specification machine
for _p in ('C01', 'C02', 'C06', 'C07', 'C11', 'C13', 'C03', 'C08'):
    PROPS[_p]['run_files'] = PROPS[_p]['run_files'] + ['TieSim.v']
    PROPS[_p]['static_files'] = PROPS[_p]['static_files'] + ['Sim.v', 'SpecMachines.v']
PROPS['C12'].update(run_files=['Tie.v', 'TieWf.v'], static_files=MACH_STATIC + ['DecodeFacts.v'])

FP_STATIC = ['Round.v', 'Fp.v', 'FpSpec.v', 'FpTables.v', 'FpDecDefs.v', 'FpExact.v', 'FpEL.v', 'FpScan.v', 'FpDecShift.v', 'FpDecBits.v', 'FpFacts.v']
P('C04', suites=['fp', 'c04gap'], run_files=['Tie.v', 'TieFp.v'], static_files=BASE_STATIC + FP_STATIC, oracle=False, spec=True,
  trusted=['strconv.ParseFloat compared with the spec round_ne (op fp_strconv); IEEE-754 float64 * and / modelled as round_ne of the exact result'])
T('C04', 'Coq: round_ne specification (nearest-even in Z, representable / half-ulp / monotone lemmas), faithful model of internal/fp, finite proofs that every row of the regenerated 128-bit powers-of-ten table, the log2 approximation, float64pow10, powtab and leftcheats are exact (TieFp), scanner spec, exact path correct, Eisel-Lemire sound (complete), decimal shifts exact, parse_correct_partial; PARTIAL: the full statement is refuted (parse_correct_full_false) by the two recorded findings',
  _TIE, 'Coq proof (layered: tables, scanner, exact, Eisel-Lemire, decimal) with stage-wise correspondence')

PROPS['C10'].update(run_files=['Tie.v', 'TieWf.v', 'PropsC10.v', 'TieFp.v', 'TieFast.v'], static_files=MACH_STATIC + ['IntFacts.v', 'FpTables.v'])
PROPS['C16'].update(run_files=['Tie.v', 'TieWf.v'], static_files=MACH_STATIC)

for _p in ('C01', 'C02', 'C13'):
    PROPS[_p]['run_files'] = PROPS[_p]['run_files'] + ['PropsC02.v']
    PROPS[_p]['static_files'] = PROPS[_p]['static_files'] + ['ApiFacts.v', 'Ref.v', 'SpecFacts.v']

PROPS['C20'].update(suites=['c20hints'], run_files=['Tie.v', 'TieFast.v'], static_files=BASE_STATIC + ['Cost.v'])
TEXT['C20']['level'] = ('PARTIAL: proof-of-model + measurement. Coq (Cost.v): the size-hint bookkeeping as a pure model; with previous-sibling hints the sum of all hints over any history of calls is at most the first remembered hint plus the total of all sizes (prev_sibling_linear, reuse_pays_once); the pre-fix running maximum is proved quadratic and never-forgetting (running_max_quadratic, running_max_never_forgets). The model is tied to the code by comparing the reader\'s remembered hints (verif hook) with Cost.remembered_prev over call histories. Run time: TotalAlloc of 15 adversarial families at 3 sizes must stay linear and below a fixed constant per input byte')

PROPS['C13']['static_files'] = PROPS['C13']['static_files'] + ['ExclusiveFacts.v']

# ---------------------------------------------------------------- final manifest texts (override the early ones)
_TB = ('Trusted: Coq 8.16.1 kernel/vm_compute; translator tools/rl2v; Machine.prun as the meaning of the -G2 skeleton and units; '
       'hand models of hand-written Go functions (validated by correspondence, not verified); ExtrOcamlBasic extraction; harness/driver glue; '
       'Go stdlib as oracle. ')
T('C01', 'PROOF, end to end on the model: run/PropsC02.v C01_Valid_exact: for ALL inputs and buffers, the model of Valid over the REGENERATED skipValue table equals Ref.valid_ref (reference RFC 8259 validator, depth 10000), via wf_check + certified simulation with the hand-written spec machine (TieSim) + SpecFacts.valid_spec_correct; axiom-free. Correspondence: impl vs model vs json.Valid on state x byte sweep (193 states x 256 bytes), small-scope strings, documents+mutants, depth 9999-10001, 3 buffer kinds',
  _TB + 'Ref.v is an executable reference validated against encoding/json on >1.1M cases; its equivalence with an inductive RFC 8259 grammar is in progress (Grammar.v).', 'Coq proof: regenerated table -> certified simulation -> spec machine -> reference semantics; plus impl/model/oracle correspondence')
T('C02', 'PROOF, end to end on the model: C02_SkipValue_exact: for ALL inputs and buffers SkipValue (model over the regenerated table) returns exactly Ref.skip_ref (offset just after the first value by maximal munch, error otherwise). Correspondence incl. every value x every next byte, truncations at every position; oracle json.Decoder offsets',
  _TB, 'Coq proof (simulation + spec machine + reference) with correspondence')
T('C03', 'PARTIAL: Coq model of ValueReader (faithful and accelerated evaluators) over the regenerated handler tables, which are tied to spec machines by certified simulation; the tree theorem is not proved. Correspondence: both evaluators vs implementation vs encoding/json (after StdLibCompatible*) on generated trees (duplicate/escaped/colliding keys, every float path, typed entry points on every token class, depth 9999-10001)',
  _TB + 'Beyond nesting 2000 only implementation vs encoding/json is compared (model evaluation cost).', 'Coq model + simulation tie + correspondence (impl vs model vs encoding/json)')
T('C04', 'PROOF (layered) with a visible frontier: round_ne spec (representable, half-ulp, ties-even, monotone, nearest); every row of the REGENERATED 128-bit powers-of-ten table, log2 approximation, float64pow10, powtab, leftcheats proved exact on every run (TieFp); scanner spec; exact path correct; Eisel-Lemire sound (complete); decimal shifts exact; parse_correct_partial (literals with <= 800 significant integer digits, |exponent| <= 99999, slow path dropping no digit); parse_correct_full is REFUTED on the model (two known findings, both shared with strconv.ParseFloat). Correspondence: stage-wise hooks, 34k (quick) / 3.1M (thorough) literals; spec round_ne vs implementation and vs strconv',
  _TB + 'IEEE-754 float64 * and / are modelled as round_ne of the exact result.', 'Coq proof (tables by vm_compute, interval arithmetic in Z) with stage-wise correspondence')
T('C05', 'PROOF, complete on the model: IntFacts.read_uint64_exact ... read_int_exact: for ALL inputs each reader model (explicit mod-2^64 accumulator, 18-digit loop, cutoff, wrap test, asymmetric sign handling) equals the loop-free exact-integer specification IntSpec. Correspondence: windows around 19 bounds x sign x next byte, all strings <= 5 over {-+019.e space}; oracle math/big reference',
  _TB, 'Coq proof (lia over Z) with boundary-window correspondence')
T('C06', 'PARTIAL->PROOF in progress: escape machines tied to spec machines (TieSim) and proved panic-free incl. the 12-byte surrogate rule (wf_check); helper models (getu4, unescapeUnicodeChar, utf8/utf16) validated by hooks; decode theorem (append_spec_correct) in progress. Correspondence: all contents <= 3 over 22 bytes, every byte at every position, all \\\\u classes, surrogate grids, every position of the second escape corrupted, destination capacity boundaries; oracle = reference decoder written from the property text',
  _TB, 'Coq model + simulation tie + correspondence (impl vs model vs reference decoder)')
T('C07', 'PARTIAL: handler tables tied to spec machines (TieSim), calls in range and handler phases (wf_check); traversal theorem (members_spec_correct) in progress. Correspondence: state x byte sweep of both handler machines, exhaustive {0,exact}^k strategy vectors, documents+mutants; oracle = member list computed with json.Decoder',
  _TB, 'Coq simulation tie + correspondence (impl vs model vs json.Decoder member list)')
T('C08', 'PARTIAL: no end-to-end theorem yet (needs the traversal theorem); the ingredients proved are exact offsets of SkipValue (C02), integer readers (C05), literals (C13). Correspondence: a decoder written only against the public API, choosing per value among typed readers / SkipValue / SkipValueFast / nested handlers by a decision function shared by the Go harness and the OCaml driver over the model; final offsets and trees vs direct decoding',
  _TB, 'Coq model + strategy-interpreter correspondence')
T('C09', 'PROOF, complete on the model: PropsC09 (from Safety.handler_error_stops, generic in the table under wf_check): for ALL inputs, handlers and buffers the run returns the handler-supplied error value iff the last call was answered with it, whatever offset came with it, and no call follows an error. Correspondence: failing call k x hostile offsets, sentinel identity',
  _TB, 'Coq proof (generic invariant, table checked by vm_compute) with correspondence')
T('C10', 'PROOF for every machine-backed entry point: PropsC10 (Safety.machines_safe under wf_check): never panics, terminates within 2*len+2 dispatches, nil-error offsets in [0,len], for ALL inputs, ALL int64 handler offsets, ALL buffer contents; out-of-range consumed offsets are errPOutOfRange; integer readers ranges (IntFacts); float table bounds (TieFp). Correspondence: every exported function on hostile inputs/handlers/buffers, depth 20000 mixtures, 20 kB tokens, boundary exponents, tiny destination capacities. One KNOWN FINDING (offsets for number/literal members are discarded)',
  _TB + 'Hand-written functions other than the integer readers are covered by the totality of their models only through correspondence (recover + watchdog).', 'Coq proof (safety invariant over all runs) with hostile correspondence')
T('C11', 'PARTIAL: both skip tables tied to spec machines (TieSim); fast_agrees_spec in progress. Correspondence: state x byte sweep of skipValueFast, strings containing brackets/quotes/backslashes in 5 templates x following byte, documents; oracle = json.Decoder offset wherever the strict skip succeeds',
  _TB, 'Coq simulation tie + correspondence')
T('C12', 'PROOF on the model: DecodeFacts.decode_with_spec / decode_target_written_only_on_success / decode_error_is_readers / decode_null / decode_with_total, generic in the reader. Correspondence: every Decode function x 3 non-zero initial targets x inputs incl. null placed exactly where each reader gives up, string-buffer histories checking that a failing DecodeString leaves its target alone',
  _TB, 'Coq proof with non-zero-target correspondence')
T('C13', 'PROOF on the model: 256-way lemmas that the REGENERATED tokenTypes / whitespace tables are the fixed JSON tables (Tie.v); next_token_type_spec / next_token_spec closed forms; C13_ReadNull_exact / C13_ReadBool_exact end to end through simulation; readers_pairwise_exclusive (ExclusiveFacts.v). Correspondence: every byte after 10 whitespace prefixes, every 1-byte corruption/truncation of the literals, sweeps of both literal machines, every reader x token class',
  _TB, 'Coq proof (finite sweeps + simulation + exclusivity) with correspondence')
T('C14', 'PROOF, complete on the model: C14_history_irrelevant (from Safety.buffer_irrelevant under wf_check): for every finite call sequence on one Buffer (any initial contents; failing, depth-limited, handler-aborted calls; handlers re-entering the library with the same Buffer and overwriting its array) each outcome equals the no-buffer outcome. Correspondence: 1500+ histories incl. cross-function sequences that leave the shared stack longer than the depth limit; oracle = same calls with no buffer',
  _TB, 'Coq proof (invariant over histories) with history correspondence')
T('C15', 'PARTIAL: on the model reuse-equals-fresh is immediate (the model of the readers is a pure function of the input; no reader state exists); what the theorem cannot exhibit (aliasing of returned maps/slices with reader-owned memory, stale pooled state) is checked at run time: histories on one reader vs fresh readers, earlier results snapshotted and re-compared, later results scribbled, depth hook; entry points mixed at the depth limit',
  _TB + 'The Go heap and sync.Pool are not modelled.', 'Coq model + history correspondence + run-time stability checks')
T('C16', 'PARTIAL: append semantics and scratch independence hold by construction of the pure models (Frame.v theorem in progress); heap aliasing is observed at run time: input snapshot, destination prefix, 0xAA-filled spare capacity, overwrite of input and buffers after the call, string-buffer histories (STRING-ALIASES-BUFFER)',
  _TB + 'Go string(b) copy semantics is trusted.', 'Coq model + run-time frame and aliasing checks')
T('C17', 'PROOF, complete for the string functions: CompatFacts.compat_spec (model = Table 3-7 sanitiser), sanitize_valid / _valid_id / _idempotent / _app_valid, compat_bytes_append. Correspondence: all 1-byte, most 2-byte, class-wise 3/4-byte strings, destinations with every small (len,cap); tree helpers by correspondence (argument-unmodified check)',
  _TB, 'Coq proof with exhaustive small-scope correspondence')

PROPS['C16'].update(run_files=['Tie.v', 'TieWf.v', 'PropsC16.v'], static_files=MACH_STATIC + ['Frame.v'])
PROPS['C19'].update(run_files=['Tie.v', 'TieAlloc.v', 'TieWf.v', 'PropsC16.v'], static_files=MACH_STATIC + ['AllocSpec.v', 'Frame.v'])
TEXT['C16']['level'] = ('PROOF for the part a pure model carries + run-time checks for the heap: Frame.dst_frame (for ANY machine: running with destination d0 = running with the empty destination, result prefixed by d0) lifted to PropsC16: ReadStringBytes / UnescapeStringContent append exactly what they produce with an empty destination, same offset and error; ReadString results do not depend on the scratch buffer. Heap facts a model cannot exhibit (input never written, destination prefix untouched, returned strings not aliasing buffers) are checked at run time: input snapshots, 0xAA-filled spare capacity, overwrite of input and buffers after the call, string-buffer histories')
TEXT['C19']['level'] = ('PARTIAL: proof-of-model + measurement. Coq: (1) Frame.rerun_no_growth / no_growth_when_warm / warm_after_use instantiated in PropsC16: a machine run with the stack returned by an earlier run on a document at least as deeply nested performs zero stack-growth events; (2) the inventory of allocation-capable expressions and call targets of every covered function, regenerated from /repo on every run, equals the recorded one whose every entry is capacity-guarded or on an error path (AllocSpec.v, TieAlloc). Run time: testing.AllocsPerRun = 0 on ~2000 warm successful calls over 30 functions on every conversion path and depth up to 10000; >= 1 on a cold buffer')

PROPS['C04']['suites'] = ['fp', 'c04edge', 'c04gap']
PROPS['C09']['oracle'] = True
for _p, _fs in (('C11', ['Ref.v', 'SpecFacts.v', 'SpecFacts2.v']), ('C07', ['Ref.v', 'SpecFacts.v', 'SpecFacts2.v']), ('C06', ['Ref.v', 'SpecFacts.v', 'SpecFacts3.v']), ('C16', ['Ref.v', 'SpecFacts.v', 'SpecFacts3.v'])):
    PROPS[_p]['static_files'] = PROPS[_p]['static_files'] + _fs

for _p in ('C06', 'C07', 'C11'):
    PROPS[_p]['run_files'] = PROPS[_p]['run_files'] + ['PropsC02.v', 'PropsC07.v']
    PROPS[_p]['static_files'] = PROPS[_p]['static_files'] + ['ApiFacts.v']
TEXT['C06']['level'] = ('PROOF, end to end on the model: PropsC07.C06_ReadStringBytes_exact: for ALL inputs and destinations ReadStringBytes (model over the REGENERATED appendRemainderOfString table) succeeds exactly when Ref.read_string_ref does, with the offset after the closing quote and the value = destination ++ decoded content (surrogate pairs combined, lone surrogates -> U+FFFD, raw bytes verbatim); SpecFacts3.unescape_agrees_append: unescaping the bytes between the quotes gives the same content and consumes all of them. Correspondence: all contents <= 3 over 22 bytes, every byte at every position, \\u classes, surrogate grids, corrupted second escapes, capacity boundaries; oracle = reference decoder written from the property text')
TEXT['C07']['level'] = ('PROOF, end to end on the model: PropsC07.C07_array_traversal / C07_object_traversal: for ALL inputs and ALL well-behaved handlers (each call answered 0 or the exact end of its value) the traversal over the REGENERATED tables succeeds exactly when Ref.members_ref does (null, or a well-formed array/object), the handler calls are exactly the members in document order at the first byte of each value with the raw key bytes, the offset is just after the closing bracket. Correspondence: state x byte sweeps (insert/substitute at every state), exhaustive {0,exact}^k strategy vectors, documents+mutants; oracle = member list via json.Decoder')
TEXT['C11']['level'] = ('PROOF, end to end on the model: PropsC07.C11_SkipValueFast_agrees_with_SkipValue: for ALL inputs and buffers, whenever SkipValue succeeds with offset n SkipValueFast succeeds with offset n (both over the REGENERATED tables, through their spec machines and SpecFacts2.fast_agrees_spec). Correspondence: sweep of skipValueFast, strings with brackets/quotes/backslashes in 5 templates x following byte; oracle = json.Decoder offset where the strict skip succeeds')

for _p in ('C01', 'C02'):
    PROPS[_p]['run_files'] = PROPS[_p]['run_files'] + ['PropsC01.v']
    PROPS[_p]['static_files'] = PROPS[_p]['static_files'] + ['SpecFacts2.v', 'SpecFacts3.v', 'Grammar.v']
TEXT['C01']['level'] = ('PROOF, end to end on the model against the RFC 8259 grammar: PropsC01.C01_Valid_iff_rfc8259: for ALL inputs and buffers (len <= MaxInt), the model of Valid over the REGENERATED skipValue table reports true iff the input is ws ++ v ++ ws with v a value of the inductive RFC 8259 grammar (Grammar.v: one constructor per production) nested at most 10000 deep. Chain: wf_check + certified simulation with the hand-written spec machine (TieSim) + SpecFacts.valid_spec_correct (spec machine = reference validator) + Grammar.valid_ref_iff (reference = grammar); axiom-free. Correspondence: impl vs model vs json.Valid on state x byte sweeps with per-state completions, small-scope strings, documents+mutants, depth 9999-10001, 3 buffer kinds')
TEXT['C01']['note'] = _TB + 'encoding/json.Valid is used as an oracle in the correspondence (the theorem is about the grammar).'
TEXT['C02']['level'] = ('PROOF, end to end on the model against the RFC 8259 grammar: PropsC01.C02_SkipValue_sound / C02_SkipValue_complete (+ PropsC02.C02_SkipValue_exact against the executable reference): for ALL inputs and buffers SkipValue over the REGENERATED table succeeds exactly on ws ++ value (nesting <= 10000) followed by anything that does not continue a number token, and returns the offset just after the value. Correspondence incl. every value x every next byte, truncations at every position, sweeps; oracle json.Decoder offsets')

# C03 / C08: the tree theorem and the offset-composition theorems on the regenerated tables
TREE_STATIC = ['Ref.v', 'SpecFacts.v', 'SpecFacts2.v', 'SpecFacts3.v'] + FP_STATIC + ['FloatTok.v', 'OffsetFacts.v', 'TreeFacts.v', 'TreeTie.v']
for _p in ('C03', 'C08'):
    PROPS[_p]['run_files'] = PROPS[_p]['run_files'] + ['PropsC02.v', 'PropsC03.v']
    PROPS[_p]['static_files'] = PROPS[_p]['static_files'] + [f for f in TREE_STATIC if f not in PROPS[_p]['static_files']]
TEXT['C03']['level'] = ('PROOF, end to end on the model: PropsC03.C03_ReadValue_tree / C03_ReadObject_tree / C03_ReadArray_tree: for ALL inputs (len <= MaxInt) the model of ValueReader.ReadValue / ReadObject / ReadArray over the REGENERATED handler, literal and escape tables and the regenerated float tables returns exactly the reference value tree TreeFacts.parse_ref (RFC 8259 grammar via Ref; strings decoded as C06 says incl. keys; objects as key/value lists in document order, which the harness maps to last-wins maps; numbers = the float parser on the number token, see C04; null rejected by the typed entry points) and the offset just after the value, and an error wherever the reference assigns no tree (incl. nesting > 10000). Chain: TieWf + TieSim (tables = spec machines) + TreeTie.ReadValue_congr (the reader depends on its machines only through observables) + TreeFacts.read_value_tree; axiom-free. The reference tree vs encoding/json is the oracle half of the correspondence: generated trees with duplicate / escaped / colliding keys, every float path, typed entry points on every token class, sibling-shaped nesting at the depth limit.')
TEXT['C03']['note'] = _TB + 'The hand model of complex_readers.go (Api.ReadValue, ValueReader.v) is validated by the correspondence check, not derived; maps are modelled as ordered key/value lists (last-wins applied by the harness); sync.Pool and the Go heap are not modelled. Beyond nesting 2000 only implementation vs encoding/json is compared (model evaluation cost).'
TEXT['C03']['technique'] = 'Coq proof (regenerated tables -> certified simulation -> spec machines -> congruence -> reference tree) with impl/model/encoding-json correspondence'
TEXT['C08']['level'] = ('PROOF on the model for the offset-composition core + correspondence for arbitrary decoders: PropsC03.C08_ReadValue_offset_is_SkipValue (a successful generic read ends exactly at SkipValue\'s offset), C08_direct_fails_where_SkipValue_fails, C08_traversal_offset / C08_traversal_exact (HandleArrayValues / HandleObjectValues over the REGENERATED tables with any handler that answers each call with an error or the end offset of a successful nested read end, on success, exactly at the reference skipper\'s offset = SkipValue\'s offset, and otherwise with the handler\'s own error), OffsetFacts.*_offset_is_skip (every typed reader model - integers, float, string, bool, null - ends at the reference offset of the value it read). With C03 (tree) and C07 (members in order, exactly once) this gives: a decoder composed of handlers and validating readers visits the members of the reference tree and ends where direct decoding ends, and fails wherever direct decoding fails. PARTIAL in that the set of user decoders is not formalised beyond vr_style handlers; that part is the correspondence: a decoder written only against the public API, choosing per value among typed readers / SkipValue / SkipValueFast / nested handlers by a decision function shared by the Go harness and the OCaml driver, trees and final offsets compared with direct decoding and with encoding/json. At the depth boundary the handler machines impose no limit of their own (OffsetFacts.handle_offset_boundary_ex), so the theorem is stated with the unbounded reference skipper.')
TEXT['C08']['technique'] = 'Coq proof (offset theorems over regenerated tables) with strategy-interpreter correspondence'

# C04: the decimal path with truncation (sticky flag) is proved; per-run statement over the regenerated tables
FP_STATIC = FP_STATIC + ['FpDecTrunc.v', 'FpDecInv.v', 'FpDecRound.v', 'FpFull.v', 'FpFull2.v']
PROPS['C04'].update(run_files=['Tie.v', 'TieFp.v', 'PropsC04.v'],
                    static_files=BASE_STATIC + FP_STATIC + ['RoundFacts.v', 'FloatTok.v', 'TreeFacts.v'])
TEXT['C04']['level'] = ('PROOF on the model for every literal outside the two recorded findings: PropsC04.C04_ReadFloat64_correctly_rounded / C04_parse_correctly_rounded: for ALL JSON number literals whose integer part has at most 800 significant digits (fraction arbitrarily long) and whose exponent has at most 5 significant digits, followed by anything that does not continue the token, ReadFloat64 / ParseJSONFloatPrefix over the REGENERATED tables consume exactly the literal and return round_ne of its exact value (Round.v: nearest, ties to even, in exact integer arithmetic; representable / half-ulp / monotone lemmas), or the range error exactly on overflow - whichever of the three paths the literal takes. Ingredients: every row of the regenerated 128-bit powers-of-ten table, log2 approximation, float64pow10, powtab and leftcheats proved exact on every run (TieFp); scanner spec (FpScan); exact path (FpExact); Eisel-Lemire sound incl. the truncated-mantissa recheck (FpEL); decimal path: shifts exact up to truncation, sticky-flag invariant Inv through every 60-bit sub-step, RoundedInteger with the flag = rounding of the exact value (FpDecTrunc, FpDecInv, FpDecRound, FpFull, FpFull2). The number leaves of the C03 tree are these values (C04_tree_numbers_correctly_rounded). The unrestricted statement parse_correct_full is REFUTED on the model (FpFacts.parse_correct_full_false): the two known findings (> 800 significant integer digits on the slow path; exponents of 6+ digits), both shared with strconv.ParseFloat. Correspondence: stage-wise hooks (scanner, exact, Eisel-Lemire, decimal), 38k (quick) / 3.1M (thorough) literals incl. ties with tails at digit 790-806 and exact subnormal ties written out in full; spec round_ne vs implementation and vs strconv.')
TEXT['C04']['technique'] = 'Coq proof (tables by vm_compute per run; interval and sticky-flag invariants in Z) with stage-wise correspondence'

# C10: totality of the float reader and of the generic value reader on the regenerated tables; C17: tree helpers
PROPS['C10'].update(run_files=['Tie.v', 'TieWf.v', 'PropsC10.v', 'TieFp.v', 'TieFast.v', 'TieSim.v', 'PropsC02.v', 'PropsC03.v', 'PropsC10b.v'],
                    static_files=MACH_STATIC + ['IntFacts.v', 'FpTables.v', 'FpTotal.v', 'TreeTie.v'])
TEXT['C10']['level'] = ('PROOF on the model for every machine-backed entry point and for the two large hand-written readers: PropsC10 (Safety.machines_safe under wf_check): SkipValue, SkipValueFast, Valid, HandleArrayValues, HandleObjectValues, the literal and string machines never panic, terminate within 2*len+2 dispatches and report nil-error offsets in [0,len], for ALL inputs, ALL int64 handler offsets (C10_offsets_out_of_range: consumed offsets that do not fit are errPOutOfRange), ALL buffer contents; PropsC10b: C10_ReadFloat64_total / C10_ParseJSONFloatPrefix_total (FpTotal.v: every loop of the scanner, decimal.set, both shifts and floatBits terminates within its bound and every table index is in range, for ALL byte strings, over the REGENERATED tables) with C10_ReadFloat64_offset (offset inside the input in every case), C10_ReadValue_total (the generic reader, through TreeTie); integer readers: total by construction with proved ranges (IntFacts). Correspondence: every exported function on hostile inputs / handlers / buffers (recover + watchdog), nesting 10001/20000 in every mixture incl. sibling-shaped, 20 kB tokens, boundary exponents, exact subnormal ties, tiny capacities. One known finding (offsets for number/literal members are ignored).')
PROPS['C17']['static_files'] = PROPS['C17']['static_files'] + ['ValueReader.v', 'TreeCompat.v']
TEXT['C17']['level'] = ('PROOF, complete on the model: CompatFacts.compat_spec (StdLibCompatibleString = the Unicode Table 3-7 sanitiser: each byte not part of a valid sequence becomes U+FFFD, everything else unchanged), sanitize_valid / sanitize_valid_id / sanitize_idempotent / sanitize_app_valid, compat_bytes_append (StringBytes appends exactly those bytes); tree helpers (TreeCompat.v): compat_tree_spec (StdLibCompatibleValue/Slice/Map = the sanitiser mapped over every string and key at every depth, objects rebuilt last-wins), compat_tree_valid, compat_tree_id (valid trees unchanged), compat_tree_idempotent, scalars unchanged. Correspondence: all 1-byte, most 2-byte, class-wise 3/4-byte strings, destinations with every small (len,cap), trees incl. invalid keys and values under them (argument-unmodified check); oracle = encoding/json round trip.')

# C12: closed form of every Decode function over the regenerated tables
PROPS['C12'].update(run_files=['Tie.v', 'TieWf.v', 'TieSim.v', 'PropsC02.v', 'PropsC12.v'],
                    static_files=MACH_STATIC + ['DecodeFacts.v', 'Sim.v', 'SpecMachines.v', 'Ref.v', 'SpecFacts.v'])
TEXT['C12']['level'] = ('PROOF on the model, end to end for the null test: PropsC12.C12_DecodeInt64 ... C12_DecodeUint, C12_DecodeFloat64, C12_DecodeBool, C12_DecodeString: for ALL inputs and ALL initial targets each Decode function (model of decode.go over the REGENERATED readNull / readBool / string tables) stores the value and returns the offset of its reader when the reader succeeds; otherwise, when the input is whitespace followed by the literal null (the reference of ReadNull, C13) it returns the offset after null, no error and the target unchanged; otherwise the reader\'s own error with the target unchanged (C12_target_unchanged_unless_reader_succeeds); never abnormal (C12_decode_total). Static: DecodeFacts.decode_with_spec and corollaries, generic in the reader. Correspondence: every Decode function x 3 non-zero initial targets x inputs incl. null placed exactly where each reader gives up, -0 and integers at the reader limits (a Decode function that does not simply run its reader differs there), string-buffer histories checking that a failing DecodeString leaves its target alone.')

# C13: type exclusivity on the regenerated tables, incl. ReadArray / ReadObject through the tree theorem
PROPS['C13'].update(run_files=['Tie.v', 'TieWf.v', 'TieSim.v', 'PropsC02.v', 'PropsC03.v', 'PropsC13.v'],
                    static_files=PROPS['C13']['static_files'] + [f for f in TREE_STATIC if f not in PROPS['C13']['static_files']])
TEXT['C13']['level'] = ('PROOF on the model: 256-way lemmas that the REGENERATED tokenTypes / whitespace tables are the fixed JSON tables (Tie.v); next_token_type_spec / next_token_spec closed forms (ExclusiveFacts); PropsC02.C13_ReadNull_exact / C13_ReadBool_exact: the literal readers over the regenerated tables equal the reference (exactly the four/five bytes after optional whitespace); PropsC13.C13_ReadNull_exclusive / C13_ReadBool_exclusive / C13_ReadArray_exclusive / C13_ReadObject_exclusive / C13_null_not_array_not_object: a typed reader succeeds only on a token NextTokenType classifies as its own type, null included (ReadArray / ReadObject through the C03 tree theorem); ExclusiveFacts.accepts_classified for the integer, float and string readers (hence at most one Read family accepts any input). Correspondence: every byte after 10 whitespace prefixes, every 1-byte corruption / truncation of the literals incl. long tails, sweeps of readNull / readBool, typed readers on null after a failing call on the same reader.')

# the accelerated evaluator the driver runs on large documents agrees with the model of record (C03, C08, C15)
for _p in ('C03', 'C08'):
    PROPS[_p]['run_files'] = PROPS[_p]['run_files'] + ['PropsC03b.v']
    PROPS[_p]['static_files'] = PROPS[_p]['static_files'] + ['TreeFast.v', 'TreeFastTie.v']
TEXT['C03']['note'] = TEXT['C03']['note'] + ' The evaluator the driver runs on large documents (ReadValue_fast) is proved to agree with the model of record on the regenerated tables (PropsC03b.C03_fast_evaluator_agrees), and its table-indexed twin is tied in TieFast.v (functional extensionality).'

# C06: the bare-content clause on the regenerated unescape table
PROPS['C06']['run_files'] = PROPS['C06']['run_files'] + ['PropsC06.v']
TEXT['C06']['level'] = TEXT['C06']['level'] + ' PropsC06.C06_UnescapeStringContent_decodes: UnescapeStringContent over the REGENERATED unescapeStringContent table consumes every content the reference decodes and appends exactly the decoded bytes (the clause "unescaping the bytes between the quotes on their own gives the same content").'
