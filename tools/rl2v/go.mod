module rl2v

go 1.21
