// rl2v: translator from the Ragel -G2 generated Go files of WillAbides/rjson
// (and the data tables of its hand-written files) to Coq definitions.
//
// It never looks at the .rl sources: the generated .rl.go files are the
// implementation.  For every st_case_N block the dispatch code is *evaluated*
// for each of the 256 byte values (no reliance on Ragel's layout), every
// action block is split into statement-level units that are matched against a
// fixed dictionary, and the goto-skeleton around the states is verified
// structurally (identity maps cs<->label, p++ per state, eof labels).
//
// Usage: rl2v -repo /repo -out <dir> [-basis file] [-write-basis]
package main

import (
	"bytes"
	"crypto/sha256"
	"encoding/hex"
	"encoding/json"
	"flag"
	"fmt"
	"go/ast"
	"go/parser"
	"go/printer"
	"go/token"
	"os"
	"path/filepath"
	"regexp"
	"sort"
	"strconv"
	"strings"
)

var fset = token.NewFileSet()

type block struct {
	label string
	stmts []ast.Stmt
}

// Unit is one statement-level action unit.
type Unit struct {
	Kind string `json:"kind"`
	A    []int  `json:"a,omitempty"` // integer arguments
	E    string `json:"e,omitempty"` // error constructor
	Text string `json:"text,omitempty"`
}

type Row [4]int // lo, hi, block, dest

type Machine struct {
	Name       string         `json:"name"`
	File       string         `json:"file"`
	Start      int            `json:"start"`
	FirstFinal int            `json:"first_final"`
	Error      int            `json:"error"`
	Entries    map[string]int `json:"entries"`
	States     []int          `json:"states"`
	Rows       map[int][]Row  `json:"rows"`
	Blocks     [][]Unit       `json:"blocks"` // id 0 = none
	BlockDest  []int          `json:"block_dest"`
	Eof        map[int][]Unit `json:"eof"`
	HasStack   bool           `json:"has_stack"`
	SkelIssues []string       `json:"skel_issues"`
	Frame      string         `json:"frame"`
	FrameOK    bool           `json:"frame_ok"`
}

func text(n interface{}) string {
	var buf bytes.Buffer
	printer.Fprint(&buf, fset, n)
	return buf.String()
}

var wsRe = regexp.MustCompile(`\s+`)

func ctext(n interface{}) string { return strings.TrimSpace(wsRe.ReplaceAllString(text(n), " ")) }

func hasLabel(n ast.Node) bool {
	has := false
	ast.Inspect(n, func(x ast.Node) bool {
		if _, ok := x.(*ast.LabeledStmt); ok {
			has = true
		}
		return !has
	})
	return has
}

// flatten the exec block into a list of labelled blocks; prelude gets label "".
func flatten(list []ast.Stmt, out *[]block) {
	for _, s := range list {
		switch t := s.(type) {
		case *ast.LabeledStmt:
			*out = append(*out, block{label: t.Label.Name})
			inner := t.Stmt
			for {
				if l2, ok := inner.(*ast.LabeledStmt); ok {
					*out = append(*out, block{label: l2.Label.Name})
					inner = l2.Stmt
					continue
				}
				break
			}
			if _, isEmpty := inner.(*ast.EmptyStmt); !isEmpty {
				(*out)[len(*out)-1].stmts = append((*out)[len(*out)-1].stmts, inner)
			}
		default:
			if len(*out) == 0 {
				*out = append(*out, block{label: ""})
			}
			(*out)[len(*out)-1].stmts = append((*out)[len(*out)-1].stmts, s)
		}
	}
}

type evalErr string

func evalInt(e ast.Expr, b int) int {
	switch t := e.(type) {
	case *ast.BasicLit:
		if t.Kind == token.INT {
			v, err := strconv.ParseInt(t.Value, 0, 64)
			if err != nil {
				panic(evalErr("int literal " + t.Value))
			}
			return int(v)
		}
		if t.Kind == token.CHAR {
			r, _, _, err := strconv.UnquoteChar(t.Value[1:len(t.Value)-1], '\'')
			if err != nil {
				panic(evalErr("char literal " + t.Value))
			}
			return int(r)
		}
	case *ast.IndexExpr:
		if ctext(t) == "data[p]" {
			return b
		}
	case *ast.ParenExpr:
		return evalInt(t.X, b)
	}
	panic(evalErr("evalInt " + ctext(e)))
}

func evalBool(e ast.Expr, b int) bool {
	switch t := e.(type) {
	case *ast.ParenExpr:
		return evalBool(t.X, b)
	case *ast.UnaryExpr:
		if t.Op == token.NOT {
			return !evalBool(t.X, b)
		}
	case *ast.BinaryExpr:
		switch t.Op {
		case token.LAND:
			return evalBool(t.X, b) && evalBool(t.Y, b)
		case token.LOR:
			return evalBool(t.X, b) || evalBool(t.Y, b)
		case token.EQL:
			return evalInt(t.X, b) == evalInt(t.Y, b)
		case token.NEQ:
			return evalInt(t.X, b) != evalInt(t.Y, b)
		case token.LSS:
			return evalInt(t.X, b) < evalInt(t.Y, b)
		case token.LEQ:
			return evalInt(t.X, b) <= evalInt(t.Y, b)
		case token.GTR:
			return evalInt(t.X, b) > evalInt(t.Y, b)
		case token.GEQ:
			return evalInt(t.X, b) >= evalInt(t.Y, b)
		}
	}
	panic(evalErr("evalBool " + ctext(e)))
}

// evalStmts evaluates dispatch code for byte b; returns the goto target or "".
func evalStmts(list []ast.Stmt, b int) string {
	for _, s := range list {
		switch t := s.(type) {
		case *ast.BranchStmt:
			if t.Tok == token.GOTO {
				return t.Label.Name
			}
			panic(evalErr("branch " + ctext(s)))
		case *ast.IfStmt:
			if t.Init != nil {
				panic(evalErr("if-init in dispatch " + ctext(s)))
			}
			if evalBool(t.Cond, b) {
				if r := evalStmts(t.Body.List, b); r != "" {
					return r
				}
			} else if t.Else != nil {
				if r := evalStmts([]ast.Stmt{t.Else}, b); r != "" {
					return r
				}
			}
		case *ast.SwitchStmt:
			if t.Init != nil {
				panic(evalErr("switch-init"))
			}
			matched := false
			var def *ast.CaseClause
			for _, c := range t.Body.List {
				cc := c.(*ast.CaseClause)
				if cc.List == nil {
					def = cc
					continue
				}
				for _, e := range cc.List {
					var ok bool
					if t.Tag != nil {
						ok = evalInt(t.Tag, b) == evalInt(e, b)
					} else {
						ok = evalBool(e, b)
					}
					if ok {
						matched = true
						for _, bs := range cc.Body {
							if br, isBr := bs.(*ast.BranchStmt); isBr && br.Tok == token.FALLTHROUGH {
								panic(evalErr("fallthrough"))
							}
						}
						if r := evalStmts(cc.Body, b); r != "" {
							return r
						}
						break
					}
				}
				if matched {
					break
				}
			}
			if !matched && def != nil {
				if r := evalStmts(def.Body, b); r != "" {
					return r
				}
			}
		case *ast.BlockStmt:
			if r := evalStmts(t.List, b); r != "" {
				return r
			}
		default:
			panic(evalErr("dispatch stmt " + ctext(s)))
		}
	}
	return ""
}

var errNames = map[string]bool{
	"errMaxDepth": true, "errUnexpectedEOF": true, "errInvalidString": true, "errInvalidArray": true,
	"errInvalidObject": true, "errInvalidUInt": true, "errInvalidInt": true, "errInvalidNumber": true,
	"errNoValidToken": true, "errNotNull": true, "errNotBool": true, "errPOutOfRange": true,
}

type pat struct {
	re   *regexp.Regexp
	kind string
	mk   func(m []string) Unit
}

func atoi(s string) int { v, _ := strconv.Atoi(s); return v }

const brk = `\{ p\+\+ cs = (\d+) goto _out \}`

var pats = []pat{
	{regexp.MustCompile(`^return (?:false, |nil, )?p, (?:stack, )?(err\w+)$`), "UReturnErr", func(m []string) Unit {
		if !errNames[m[1]] {
			return Unit{Kind: "UUnknown"}
		}
		return Unit{Kind: "UReturnErr", E: m[1]}
	}},
	{regexp.MustCompile(`^goto st(\d+)$`), "UGoto", func(m []string) Unit { return Unit{Kind: "UGoto", A: []int{atoi(m[1])}} }},
	{regexp.MustCompile(`^err = (err\w+)$`), "USetErr", func(m []string) Unit {
		if !errNames[m[1]] {
			return Unit{Kind: "UUnknown"}
		}
		return Unit{Kind: "USetErr", E: m[1]}
	}},
	{regexp.MustCompile(`^` + brk + `$`), "UBreak", func(m []string) Unit { return Unit{Kind: "UBreak", A: []int{atoi(m[1])}} }},
	{regexp.MustCompile(`^if err != nil \{ ` + brk + ` \}$`), "UBreakIfErr", func(m []string) Unit { return Unit{Kind: "UBreakIfErr", A: []int{atoi(m[1])}} }},
	{regexp.MustCompile(`^p, err = skipFloatDec\(data, p\+1, pe\)$`), "UScanDec", func(m []string) Unit { return Unit{Kind: "UScanDec"} }},
	{regexp.MustCompile(`^p, err = skipFloatExp\(data, p\+1, pe\)$`), "UScanExp", func(m []string) Unit { return Unit{Kind: "UScanExp"} }},
	{regexp.MustCompile(`^\{ (if top == skipMaxDepth \{ err = errMaxDepth ` + brk + ` \} )?if top\+1 >= len\(stack\) \{ stack = append\(stack, make\(\[\]int, 1\+top-len\(stack\)\)\.\.\.\) \} \{ stack\[top\] = (\d+) top\+\+ goto st(\d+) \} \}$`), "UCall", func(m []string) Unit {
		chk := 0
		if m[1] != "" {
			chk = 1
		}
		return Unit{Kind: "UCall", A: []int{chk, atoi(m[2]), atoi(m[3]), atoi(m[4])}}
	}},
	{regexp.MustCompile(`^\{ top-- cs = stack\[top\] goto _again \}$`), "URet", func(m []string) Unit { return Unit{Kind: "URet"} }},
	{regexp.MustCompile(`^(pp|_), err = handler\.HandleArrayValue\(data\[p:\]\)$`), "UHandle", func(m []string) Unit {
		k := 0
		if m[1] == "pp" {
			k = 1
		}
		return Unit{Kind: "UHandle", A: []int{0, k}}
	}},
	{regexp.MustCompile(`^(pp|_), err = handler\.HandleObjectValue\(data\[currentFieldStart\+1:currentFieldEnd-1\], data\[p:\]\)$`), "UHandle", func(m []string) Unit {
		k := 0
		if m[1] == "pp" {
			k = 1
		}
		return Unit{Kind: "UHandle", A: []int{1, k}}
	}},
	{regexp.MustCompile(`^if err != nil \{ return p \+ pp, stack, err \}$`), "UHandlerErrRet", func(m []string) Unit { return Unit{Kind: "UHandlerErrRet", A: []int{1}} }},
	{regexp.MustCompile(`^if err != nil \{ return p, stack, err \}$`), "UHandlerErrRet", func(m []string) Unit { return Unit{Kind: "UHandlerErrRet", A: []int{0}} }},
	{regexp.MustCompile(`^if pp < 0 \{ err = errPOutOfRange ` + brk + ` \}$`), "UPPNeg", func(m []string) Unit { return Unit{Kind: "UPPNeg", A: []int{atoi(m[1])}} }},
	{regexp.MustCompile(`^if pp != 0 \{ if (pp-1 >= pe-p|p\+pp-1 >= pe) \{ err = errPOutOfRange ` + brk + ` \} p = \(p \+ pp - 1\) - 1 \}$`), "UPPJump", func(m []string) Unit {
		safe := 0
		if m[1] == "pp-1 >= pe-p" {
			safe = 1
		}
		return Unit{Kind: "UPPJump", A: []int{safe, atoi(m[2])}}
	}},
	{regexp.MustCompile(`^currentFieldStart = p$`), "UFieldStart", func(m []string) Unit { return Unit{Kind: "UFieldStart"} }},
	{regexp.MustCompile(`^currentFieldEnd = p$`), "UFieldEnd", func(m []string) Unit { return Unit{Kind: "UFieldEnd"} }},
	{regexp.MustCompile(`^segStart = p$`), "USegStart", func(m []string) Unit { return Unit{Kind: "USegStart"} }},
	{regexp.MustCompile(`^dst = append\(dst, data\[segStart:p\]\.\.\.\)$`), "UAppendSeg", func(m []string) Unit { return Unit{Kind: "UAppendSeg"} }},
	{regexp.MustCompile(`^dst = append\(dst, ('(?:\\.|[^\\'])')\)$`), "UAppendByte", func(m []string) Unit {
		r, _, _, err := strconv.UnquoteChar(m[1][1:len(m[1])-1], '\'')
		if err != nil || r > 255 {
			return Unit{Kind: "UUnknown"}
		}
		return Unit{Kind: "UAppendByte", A: []int{int(r)}}
	}},
	{regexp.MustCompile(`^dst, unescapeUnicodeCharBytes, ok = unescapeUnicodeChar\(data\[segStart:\], dst\)$`), "UUnescapeU", func(m []string) Unit { return Unit{Kind: "UUnescapeU"} }},
	{regexp.MustCompile(`^if !ok \{ return nil, p, errUnexpectedByteInString\(data\[p\]\) \}$`), "UNotOkRet", func(m []string) Unit { return Unit{Kind: "UNotOkRet"} }},
	{regexp.MustCompile(`^if unescapeUnicodeCharBytes > 6 \{ p \+= unescapeUnicodeCharBytes - 6 \}$`), "UAdvanceU", func(m []string) Unit { return Unit{Kind: "UAdvanceU"} }},
	{regexp.MustCompile(`^val = (true|false)$`), "USetVal", func(m []string) Unit {
		v := 0
		if m[1] == "true" {
			v = 1
		}
		return Unit{Kind: "USetVal", A: []int{v}}
	}},
}

func parseUnit(s ast.Stmt) Unit {
	t := ctext(s)
	for _, p := range pats {
		if m := p.re.FindStringSubmatch(t); m != nil {
			u := p.mk(m)
			if u.Kind == "UUnknown" {
				u.Text = t
			}
			return u
		}
	}
	return Unit{Kind: "UUnknown", Text: t}
}

func parseUnits(stmts []ast.Stmt) []Unit {
	var us []Unit
	for _, s := range stmts {
		us = append(us, parseUnit(s))
	}
	return us
}

var constRe = regexp.MustCompile(`^const (\w+?)_(start|first_final|error|en_\w+) int = (\d+)$`)

func translateFunc(file string, fd *ast.FuncDecl) *Machine {
	m := &Machine{Name: fd.Name.Name, File: filepath.Base(file), Rows: map[int][]Row{}, Eof: map[int][]Unit{}, Entries: map[string]int{}}
	issue := func(f string, a ...interface{}) { m.SkelIssues = append(m.SkelIssues, fmt.Sprintf(f, a...)) }
	var frame []string
	var exec *ast.BlockStmt
	frame = append(frame, "func "+m.Name+ctext(fd.Type)[4:])
	haveStart, haveFF, haveErr := false, false, false
	for _, s := range fd.Body.List {
		if b, ok := s.(*ast.BlockStmt); ok && hasLabel(b) {
			if exec != nil {
				issue("two exec blocks")
			}
			exec = b
			frame = append(frame, "<exec>")
			continue
		}
		t := ctext(s)
		if mm := constRe.FindStringSubmatch(t); mm != nil && mm[1] == m.Name {
			v := atoi(mm[3])
			switch {
			case mm[2] == "start":
				m.Start, haveStart = v, true
			case mm[2] == "first_final":
				m.FirstFinal, haveFF = v, true
			case mm[2] == "error":
				m.Error, haveErr = v, true
			default:
				m.Entries[mm[2][3:]] = v
			}
			continue
		}
		frame = append(frame, t)
	}
	m.Frame = strings.Join(frame, "\n")
	if exec == nil {
		return nil // not a machine function
	}
	if !haveStart || !haveFF || !haveErr {
		issue("missing start/first_final/error constants")
	}
	if m.Error != 0 {
		issue("error state is not 0")
	}
	var blocks []block
	flatten(exec.List, &blocks)
	byLabel := map[string]*block{}
	order := map[string]int{}
	for i := range blocks {
		if _, dup := byLabel[blocks[i].label]; dup {
			issue("duplicate label %s", blocks[i].label)
		}
		byLabel[blocks[i].label] = &blocks[i]
		order[blocks[i].label] = i
	}
	for l := range byLabel {
		if strings.HasPrefix(l, "st_case_") {
			m.States = append(m.States, atoi(l[8:]))
		}
	}
	sort.Ints(m.States)
	_, m.HasStack = byLabel["_again"]
	stateSet := map[int]bool{}
	for _, q := range m.States {
		stateSet[q] = true
	}
	stxt := func(b *block) []string {
		var r []string
		if b == nil {
			return []string{"<missing>"}
		}
		for _, s := range b.stmts {
			r = append(r, ctext(s))
		}
		return r
	}
	eq := func(a []string, b ...string) bool {
		if len(a) != len(b) {
			return false
		}
		for i := range a {
			if a[i] != b[i] {
				return false
			}
		}
		return true
	}
	// identity switch checker
	checkSwitch := func(s ast.Stmt, prefix string, what string) {
		sw, ok := s.(*ast.SwitchStmt)
		if !ok || sw.Tag == nil || ctext(sw.Tag) != "cs" || sw.Init != nil {
			issue("%s: not a switch on cs", what)
			return
		}
		seen := map[int]bool{}
		for _, c := range sw.Body.List {
			cc := c.(*ast.CaseClause)
			if len(cc.List) != 1 || len(cc.Body) != 1 {
				issue("%s: odd case %s", what, ctext(cc))
				continue
			}
			n, err := strconv.Atoi(ctext(cc.List[0]))
			if err != nil || ctext(cc.Body[0]) != fmt.Sprintf("goto %s%d", prefix, n) {
				issue("%s: case %s is not the identity", what, ctext(cc))
				continue
			}
			if seen[n] {
				issue("%s: duplicate case %d", what, n)
			}
			seen[n] = true
		}
		for _, q := range m.States {
			if !seen[q] {
				issue("%s: state %d missing", what, q)
			}
		}
		for n := range seen {
			if !stateSet[n] {
				issue("%s: extra state %d", what, n)
			}
		}
	}
	// prelude
	pre := byLabel[""]
	if pre == nil || len(pre.stmts) < 2 || ctext(pre.stmts[0]) != "if p == pe { goto _test_eof }" {
		issue("prelude: %v", stxt(pre))
	} else if m.HasStack {
		if !eq(stxt(pre)[1:], "goto _resume") {
			issue("prelude(stack): %v", stxt(pre))
		}
		ag := byLabel["_again"]
		if len(ag.stmts) != 2 || ctext(ag.stmts[1]) != "if p++; p == pe { goto _test_eof }" {
			issue("_again shape")
		} else {
			checkSwitch(ag.stmts[0], "st", "_again")
		}
		rs := byLabel["_resume"]
		if rs == nil || len(rs.stmts) != 2 || ctext(rs.stmts[1]) != "goto st_out" {
			issue("_resume shape")
		} else {
			checkSwitch(rs.stmts[0], "st_case_", "_resume")
		}
		if order["_resume"] != order["_again"]+1 {
			issue("_again not followed by _resume")
		}
	} else {
		if len(pre.stmts) != 3 || ctext(pre.stmts[2]) != "goto st_out" {
			issue("prelude(nostack): %v", stxt(pre))
		} else {
			checkSwitch(pre.stmts[1], "st_case_", "resume")
		}
	}
	// per-state labels
	for _, q := range m.States {
		if q == 0 {
			if b := byLabel["st_case_0"]; len(b.stmts) != 0 || order["st0"] != order["st_case_0"]+1 {
				issue("st_case_0 shape")
			}
			if !eq(stxt(byLabel["st0"]), "cs = 0", "goto _out") {
				issue("st0 shape %v", stxt(byLabel["st0"]))
			}
			continue
		}
		sl := fmt.Sprintf("st%d", q)
		if byLabel[sl] == nil && byLabel[fmt.Sprintf("_test_eof%d", q)] == nil {
			// Ragel omits both labels for a state no transition enters (the Go compiler
			// rejects a goto to a missing label, so nothing can jump there).
			continue
		}
		if !eq(stxt(byLabel[sl]), fmt.Sprintf("if p++; p == pe { goto _test_eof%d }", q)) {
			issue("%s shape %v", sl, stxt(byLabel[sl]))
		}
		if order[fmt.Sprintf("st_case_%d", q)] != order[sl]+1 {
			issue("%s not followed by st_case_%d", sl, q)
		}
		if !eq(stxt(byLabel[fmt.Sprintf("_test_eof%d", q)]), fmt.Sprintf("cs = %d", q), "goto _test_eof") {
			issue("_test_eof%d shape", q)
		}
	}
	if !stateSet[0] {
		issue("no state 0")
	}
	if b := byLabel["st_out"]; b == nil || len(b.stmts) != 0 {
		issue("st_out shape")
	}
	if !eq(stxt(byLabel["_out"]), "{ }") {
		issue("_out shape %v", stxt(byLabel["_out"]))
	}
	// every label must be of a known family
	known := regexp.MustCompile(`^(|st\d+|st_case_\d+|tr\d+|_test_eof\d*|_out|st_out|_again|_resume)$`)
	for l := range byLabel {
		if !known.MatchString(l) {
			issue("unknown label %s", l)
		}
	}
	// transitions
	blockID := map[string]int{}
	m.Blocks = append(m.Blocks, nil)
	m.BlockDest = append(m.BlockDest, -1)
	for _, q := range m.States {
		if q == 0 {
			continue
		}
		blk := byLabel[fmt.Sprintf("st_case_%d", q)]
		var rows []Row
		for b := 0; b < 256; b++ {
			bid, dest := 0, -1
			func() {
				defer func() {
					if r := recover(); r != nil {
						if e, ok := r.(evalErr); ok {
							issue("state %d byte %d: %s", q, b, string(e))
							bid, dest = -1, -1
							return
						}
						panic(r)
					}
				}()
				tgt := evalStmts(blk.stmts, b)
				switch {
				case regexp.MustCompile(`^st\d+$`).MatchString(tgt):
					dest = atoi(tgt[2:])
				case regexp.MustCompile(`^tr\d+$`).MatchString(tgt):
					tb := byLabel[tgt]
					if tb == nil {
						issue("state %d byte %d: missing %s", q, b, tgt)
						bid = -1
						return
					}
					id, ok := blockID[tgt]
					if !ok {
						id = len(m.Blocks)
						blockID[tgt] = id
						us := parseUnits(tb.stmts)
						d := -1
						if n := len(us); n > 0 && us[n-1].Kind == "UGoto" {
							d = us[n-1].A[0]
							us = us[:n-1]
						} else {
							issue("block %s does not end in goto stN", tgt)
						}
						for _, u := range us {
							if u.Kind == "UGoto" {
								issue("block %s has an inner goto", tgt)
							}
						}
						m.Blocks = append(m.Blocks, us)
						m.BlockDest = append(m.BlockDest, d)
					}
					bid = id
					dest = m.BlockDest[id]
				default:
					issue("state %d byte %d: target %q", q, b, tgt)
					bid = -1
				}
			}()
			if dest >= 0 && !stateSet[dest] {
				issue("state %d byte %d: destination %d is not a state", q, b, dest)
			}
			if n := len(rows); n > 0 && rows[n-1][2] == bid && rows[n-1][3] == dest && rows[n-1][1] == b-1 {
				rows[n-1][1] = b
			} else {
				rows = append(rows, Row{b, b, bid, dest})
			}
		}
		m.Rows[q] = rows
	}
	// eof
	te := byLabel["_test_eof"]
	if te == nil || len(te.stmts) != 2 || ctext(te.stmts[0]) != "{ }" {
		issue("_test_eof shape %v", stxt(te))
	} else if ifs, ok := te.stmts[1].(*ast.IfStmt); !ok || ifs.Init != nil || ifs.Else != nil || ctext(ifs.Cond) != "p == eof" || len(ifs.Body.List) != 1 {
		issue("_test_eof if shape")
	} else if sw, ok := ifs.Body.List[0].(*ast.SwitchStmt); !ok || sw.Tag == nil || ctext(sw.Tag) != "cs" || sw.Init != nil {
		issue("_test_eof switch shape")
	} else {
		for _, c := range sw.Body.List {
			cc := c.(*ast.CaseClause)
			if cc.List == nil {
				issue("_test_eof default clause")
				continue
			}
			us := parseUnits(cc.Body)
			for _, e := range cc.List {
				n, err := strconv.Atoi(ctext(e))
				if err != nil || !stateSet[n] {
					issue("_test_eof case %s", ctext(e))
					continue
				}
				if _, dup := m.Eof[n]; dup {
					issue("_test_eof duplicate %d", n)
				}
				m.Eof[n] = us
			}
		}
	}
	return m
}

// ---------------------------------------------------------------- data tables

type tables struct {
	Bool256  map[string][]int  `json:"bool256"` // name -> indices that are true
	TokTypes []int             `json:"token_types"`
	Consts   map[string]string `json:"consts"`
	Pow10    [][2]string       `json:"pow10"`
	F64Pow10 []string          `json:"float64pow10"`
	Powtab   []int             `json:"powtab"`
	Cheats   []struct {
		D int
		C string
	} `json:"leftcheats"`
}

func keyIndex(e ast.Expr) (int, bool) {
	if bl, ok := e.(*ast.BasicLit); ok {
		switch bl.Kind {
		case token.CHAR:
			r, _, _, err := strconv.UnquoteChar(bl.Value[1:len(bl.Value)-1], '\'')
			return int(r), err == nil
		case token.INT:
			v, err := strconv.ParseInt(bl.Value, 0, 64)
			return int(v), err == nil
		}
	}
	return 0, false
}

func collectTables(files map[string]*ast.File, issues *[]string) *tables {
	t := &tables{Bool256: map[string][]int{}, Consts: map[string]string{}}
	issue := func(f string, a ...interface{}) { *issues = append(*issues, fmt.Sprintf(f, a...)) }
	tokConst := map[string]int{}
	for fname, f := range files {
		for _, d := range f.Decls {
			gd, ok := d.(*ast.GenDecl)
			if !ok {
				continue
			}
			if gd.Tok == token.CONST {
				// iota block for TokenType
				isTok := false
				for i, sp := range gd.Specs {
					vs := sp.(*ast.ValueSpec)
					if i == 0 && vs.Type != nil && ctext(vs.Type) == "TokenType" && len(vs.Values) == 1 && ctext(vs.Values[0]) == "iota" {
						isTok = true
					}
					if isTok {
						if i > 0 && (vs.Type != nil || len(vs.Values) != 0) {
							issue("TokenType const block: %s is not an implicit iota repetition", vs.Names[0].Name)
						}
						tokConst[vs.Names[0].Name] = i
						t.Consts["tok_"+vs.Names[0].Name] = strconv.Itoa(i)
						continue
					}
					for j, n := range vs.Names {
						if j < len(vs.Values) {
							switch n.Name {
							case "skipMaxDepth", "valueReaderMaxDepth", "detailedPowersOfTenMinExp10", "detailedPowersOfTenMaxExp10", "mantbits", "expbits", "bias", "uintSize", "maxShift":
								t.Consts[n.Name] = strings.ReplaceAll(ctext(vs.Values[j]), "_", "")
							}
						}
					}
				}
			}
			if gd.Tok != token.VAR {
				continue
			}
			for _, sp := range gd.Specs {
				vs := sp.(*ast.ValueSpec)
				if len(vs.Names) != 1 || len(vs.Values) != 1 {
					continue
				}
				name := vs.Names[0].Name
				cl, ok := vs.Values[0].(*ast.CompositeLit)
				if !ok {
					continue
				}
				ty := ctext(cl.Type)
				pkg := ""
				if strings.Contains(fname, "internal/fp") {
					pkg = "fp_"
				}
				switch {
				case ty == "[256]bool":
					var idx []int
					for _, e := range cl.Elts {
						kv, ok := e.(*ast.KeyValueExpr)
						if !ok {
							issue("%s: positional element", name)
							continue
						}
						k, ok := keyIndex(kv.Key)
						if !ok || k < 0 || k > 255 {
							issue("%s: bad key %s", name, ctext(kv.Key))
							continue
						}
						switch ctext(kv.Value) {
						case "true":
							idx = append(idx, k)
						case "false":
						default:
							issue("%s: bad value %s", name, ctext(kv.Value))
						}
					}
					sort.Ints(idx)
					t.Bool256[pkg+name] = idx
				case ty == "[256]TokenType" && name == "tokenTypes":
					t.TokTypes = make([]int, 256)
					for _, e := range cl.Elts {
						kv, ok := e.(*ast.KeyValueExpr)
						if !ok {
							issue("tokenTypes: positional element")
							continue
						}
						k, ok := keyIndex(kv.Key)
						v, ok2 := tokConst[ctext(kv.Value)]
						if !ok || !ok2 || k < 0 || k > 255 {
							issue("tokenTypes: bad element %s", ctext(kv))
							continue
						}
						t.TokTypes[k] = v
					}
				case name == "detailedPowersOfTen":
					for _, e := range cl.Elts {
						r, ok := e.(*ast.CompositeLit)
						if !ok || len(r.Elts) != 2 {
							issue("detailedPowersOfTen: bad row")
							continue
						}
						t.Pow10 = append(t.Pow10, [2]string{strings.ReplaceAll(ctext(r.Elts[0]), "_", ""), strings.ReplaceAll(ctext(r.Elts[1]), "_", "")})
					}
				case name == "float64pow10":
					for _, e := range cl.Elts {
						t.F64Pow10 = append(t.F64Pow10, ctext(e))
					}
				case name == "powtab":
					for _, e := range cl.Elts {
						t.Powtab = append(t.Powtab, atoi(ctext(e)))
					}
				case name == "leftcheats":
					for _, e := range cl.Elts {
						r, ok := e.(*ast.CompositeLit)
						if !ok || len(r.Elts) != 2 {
							issue("leftcheats: bad row")
							continue
						}
						s, err := strconv.Unquote(ctext(r.Elts[1]))
						if err != nil {
							issue("leftcheats: bad cutoff")
						}
						t.Cheats = append(t.Cheats, struct {
							D int
							C string
						}{atoi(ctext(r.Elts[0])), s})
					}
				}
			}
		}
	}
	return t
}

// ---------------------------------------------------------------- facts: globals, alloc sites, fingerprints

type access struct {
	Var  string `json:"var"`
	Func string `json:"func"`
	Kind string `json:"kind"`
	Pos  string `json:"pos"`
}

type facts struct {
	Globals      []string            `json:"globals"`
	Accesses     []access            `json:"accesses"`
	AllocSites   map[string][]string `json:"alloc_sites"`
	Fingerprints map[string]string   `json:"fingerprints"`
}

func collectFacts(files map[string]*ast.File) *facts {
	fc := &facts{AllocSites: map[string][]string{}, Fingerprints: map[string]string{}}
	type key struct{ pkg, name string }
	globals := map[key]bool{}
	refTyped := map[key]bool{} // slices, maps, pointers, channels, funcs: a copy of the value aliases the data
	for _, f := range files {
		for _, d := range f.Decls {
			if gd, ok := d.(*ast.GenDecl); ok && gd.Tok == token.VAR {
				for _, sp := range gd.Specs {
					vs := sp.(*ast.ValueSpec)
					for i, n := range vs.Names {
						if n.Name != "_" {
							globals[key{f.Name.Name, n.Name}] = true
							fc.Globals = append(fc.Globals, f.Name.Name+"."+n.Name)
							var ty ast.Expr = vs.Type
							if ty == nil && i < len(vs.Values) {
								switch v := vs.Values[i].(type) {
								case *ast.CompositeLit:
									ty = v.Type
								case *ast.UnaryExpr:
									if v.Op == token.AND {
										refTyped[key{f.Name.Name, n.Name}] = true
									}
								case *ast.CallExpr:
									if fn := ctext(v.Fun); fn == "make" || fn == "new" {
										refTyped[key{f.Name.Name, n.Name}] = true
									}
								}
							}
							switch t := ty.(type) {
							case *ast.ArrayType:
								if t.Len == nil {
									refTyped[key{f.Name.Name, n.Name}] = true
								}
							case *ast.MapType, *ast.StarExpr, *ast.ChanType, *ast.FuncType:
								refTyped[key{f.Name.Name, n.Name}] = true
							}
						}
					}
				}
			}
		}
	}
	sort.Strings(fc.Globals)
	for fname, f := range files {
		pkg := f.Name.Name
		for _, d := range f.Decls {
			fd, ok := d.(*ast.FuncDecl)
			if !ok || fd.Body == nil {
				continue
			}
			fn := fd.Name.Name
			if fd.Recv != nil && len(fd.Recv.List) == 1 {
				fn = strings.TrimPrefix(ctext(fd.Recv.List[0].Type), "*") + "." + fn
			}
			full := pkg + "." + fn
			// fingerprint (comments are not printed by ctext of the decl without comment map)
			h := sha256.Sum256([]byte(ctext(fd)))
			fc.Fingerprints[full] = hex.EncodeToString(h[:8])
			// locals shadowing: collect declared local names conservatively
			locals := map[string]bool{}
			if fd.Type.Params != nil {
				for _, p := range fd.Type.Params.List {
					for _, n := range p.Names {
						locals[n.Name] = true
					}
				}
			}
			if fd.Type.Results != nil {
				for _, p := range fd.Type.Results.List {
					for _, n := range p.Names {
						locals[n.Name] = true
					}
				}
			}
			ast.Inspect(fd.Body, func(n ast.Node) bool {
				switch t := n.(type) {
				case *ast.AssignStmt:
					if t.Tok == token.DEFINE {
						for _, l := range t.Lhs {
							if id, ok := l.(*ast.Ident); ok {
								locals[id.Name] = true
							}
						}
					}
				case *ast.ValueSpec:
					for _, id := range t.Names {
						locals[id.Name] = true
					}
				case *ast.RangeStmt:
					if t.Tok == token.DEFINE {
						if id, ok := t.Key.(*ast.Ident); ok {
							locals[id.Name] = true
						}
						if id, ok := t.Value.(*ast.Ident); ok {
							locals[id.Name] = true
						}
					}
				}
				return true
			})
			isGlobal := func(e ast.Expr) (string, bool) {
				id, ok := e.(*ast.Ident)
				if !ok || locals[id.Name] || !globals[key{pkg, id.Name}] {
					return "", false
				}
				return pkg + "." + id.Name, true
			}
			rootGlobal := func(e ast.Expr) (string, bool) {
				for {
					switch t := e.(type) {
					case *ast.IndexExpr:
						e = t.X
						continue
					case *ast.SelectorExpr:
						e = t.X
						continue
					case *ast.ParenExpr:
						e = t.X
						continue
					case *ast.StarExpr:
						e = t.X
						continue
					}
					break
				}
				return isGlobal(e)
			}
			pos := func(n ast.Node) string {
				p := fset.Position(n.Pos())
				return fmt.Sprintf("%s:%d", filepath.Base(fname), p.Line)
			}
			written := map[ast.Node]bool{}
			// contexts in which the bare name of a reference-typed global does not create an alias
			safeUse := map[*ast.Ident]bool{}
			ast.Inspect(fd.Body, func(n ast.Node) bool {
				mark := func(e ast.Expr) {
					if id, ok := e.(*ast.Ident); ok {
						safeUse[id] = true
					}
				}
				switch t := n.(type) {
				case *ast.IndexExpr:
					mark(t.X)
				case *ast.RangeStmt:
					mark(t.X)
				case *ast.CallExpr:
					if fn := ctext(t.Fun); fn == "len" || fn == "cap" {
						for _, a := range t.Args {
							mark(a)
						}
					}
				}
				return true
			})
			add := func(v, kind string, n ast.Node) {
				fc.Accesses = append(fc.Accesses, access{Var: v, Func: full, Kind: kind, Pos: pos(n)})
			}
			var allocs []string
			ast.Inspect(fd.Body, func(n ast.Node) bool {
				switch t := n.(type) {
				case *ast.AssignStmt:
					for _, l := range t.Lhs {
						if g, ok := rootGlobal(l); ok {
							add(g, "assigned", l)
							written[l] = true
						}
					}
				case *ast.IncDecStmt:
					if g, ok := rootGlobal(t.X); ok {
						add(g, "incdec", t)
					}
				case *ast.UnaryExpr:
					if t.Op == token.AND {
						if g, ok := rootGlobal(t.X); ok {
							add(g, "addr-taken", t)
						}
						if _, ok := t.X.(*ast.CompositeLit); ok {
							allocs = append(allocs, "&composite "+ctext(t.X.(*ast.CompositeLit).Type))
						}
					}
				case *ast.SliceExpr:
					if g, ok := rootGlobal(t.X); ok {
						add(g, "sliced", t)
					}
				case *ast.CallExpr:
					fnTxt := ctext(t.Fun)
					for _, a := range t.Args {
						if g, ok := isGlobal(a); ok {
							add(g, "passed:"+fnTxt, a)
						}
					}
					if sel, ok := t.Fun.(*ast.SelectorExpr); ok {
						if g, ok := isGlobal(sel.X); ok {
							add(g, "method:"+sel.Sel.Name, t)
						}
					}
					switch {
					case fnTxt == "make":
						allocs = append(allocs, "make "+ctext(t.Args[0]))
					case fnTxt == "new":
						allocs = append(allocs, "new "+ctext(t.Args[0]))
					case fnTxt == "append":
						allocs = append(allocs, "append "+ctext(t.Args[0]))
					case fnTxt == "string" || fnTxt == "[]byte" || fnTxt == "[]rune":
						allocs = append(allocs, "conv "+fnTxt)
					default:
						if !noAllocBuiltin[fnTxt] {
							allocs = append(allocs, "call "+fnTxt)
						}
					}
				case *ast.FuncLit:
					allocs = append(allocs, "closure")
				case *ast.GoStmt:
					allocs = append(allocs, "go")
				case *ast.DeferStmt:
					allocs = append(allocs, "defer")
				case *ast.CompositeLit:
					ty := ctext(t.Type)
					if strings.HasPrefix(ty, "[]") || strings.HasPrefix(ty, "map[") {
						allocs = append(allocs, "composite "+ty)
					}
				case *ast.Ident:
					if g, ok := isGlobal(t); ok {
						if refTyped[key{pkg, t.Name}] && !safeUse[t] {
							add(g, "addr-taken", t) // the value is copied: an alias of the shared data escapes
						} else {
							add(g, "read", t)
						}
					}
				}
				return true
			})
			sort.Strings(allocs)
			fc.AllocSites[full] = allocs
		}
	}
	sort.Slice(fc.Accesses, func(i, j int) bool {
		a, b := fc.Accesses[i], fc.Accesses[j]
		if a.Pos != b.Pos {
			return a.Pos < b.Pos
		}
		if a.Var != b.Var {
			return a.Var < b.Var
		}
		return a.Kind < b.Kind
	})
	return fc
}

// builtins and conversions between basic types: never allocate
var noAllocBuiltin = map[string]bool{"len": true, "cap": true, "copy": true, "panic": true, "recover": true, "delete": true, "min": true, "max": true,
	"int": true, "int8": true, "int16": true, "int32": true, "int64": true, "uint": true, "uint8": true, "uint16": true, "uint32": true, "uint64": true,
	"byte": true, "rune": true, "float64": true, "float32": true, "bool": true, "uintptr": true, "TokenType": true}

// ---------------------------------------------------------------- emit

var errCtor = map[string]string{
	"errMaxDepth": "EMaxDepth", "errUnexpectedEOF": "EUnexpectedEOF", "errInvalidString": "EInvalidString",
	"errInvalidArray": "EInvalidArray", "errInvalidObject": "EInvalidObject", "errInvalidUInt": "EInvalidUInt",
	"errInvalidInt": "EInvalidInt", "errInvalidNumber": "EInvalidNumber", "errNoValidToken": "ENoValidToken",
	"errNotNull": "ENotNull", "errNotBool": "ENotBool", "errPOutOfRange": "EPOutOfRange",
}

func coqBool(b bool) string {
	if b {
		return "true"
	}
	return "false"
}

func coqUnit(u Unit) string {
	a := u.A
	switch u.Kind {
	case "UReturnErr", "USetErr":
		return fmt.Sprintf("%s %s", u.Kind, errCtor[u.E])
	case "UBreak", "UBreakIfErr", "UPPNeg":
		return fmt.Sprintf("%s %d", u.Kind, a[0])
	case "UCall":
		return fmt.Sprintf("UCall %s %d %d %d", coqBool(a[0] == 1), a[1], a[2], a[3])
	case "UHandle":
		return fmt.Sprintf("UHandle %s %s", coqBool(a[0] == 1), coqBool(a[1] == 1))
	case "UHandlerErrRet":
		return fmt.Sprintf("UHandlerErrRet %s", coqBool(a[0] == 1))
	case "UPPJump":
		return fmt.Sprintf("UPPJump %s %d", coqBool(a[0] == 1), a[1])
	case "UAppendByte":
		return fmt.Sprintf("UAppendByte %d", a[0])
	case "USetVal":
		return fmt.Sprintf("USetVal %s", coqBool(a[0] == 1))
	case "UScanDec", "UScanExp", "URet", "UFieldStart", "UFieldEnd", "USegStart", "UAppendSeg", "UUnescapeU", "UNotOkRet", "UAdvanceU":
		return u.Kind
	}
	return "UUnknown"
}

func coqUnits(us []Unit) string {
	var p []string
	for _, u := range us {
		p = append(p, coqUnit(u))
	}
	return "[" + strings.Join(p, "; ") + "]"
}

func emitMachine(w *bytes.Buffer, m *Machine) {
	n := m.Name
	fmt.Fprintf(w, "(* %s (%s): %d states, %d action blocks; skeleton issues: %d *)\n", n, m.File, len(m.States), len(m.Blocks)-1, len(m.SkelIssues))
	for _, s := range m.SkelIssues {
		fmt.Fprintf(w, "(*   issue: %s *)\n", strings.ReplaceAll(s, "*)", "* )"))
	}
	fmt.Fprintf(w, "Definition %s_rows : list (Z * list (Z * Z * Z * Z)) := [\n", n)
	first := true
	for _, q := range m.States {
		if q == 0 {
			continue
		}
		var parts []string
		for _, r := range m.Rows[q] {
			parts = append(parts, fmt.Sprintf("(%d,%d,%d,%d)", r[0], r[1], r[2], r[3]))
		}
		if !first {
			w.WriteString(";\n")
		}
		first = false
		fmt.Fprintf(w, " (%d, [%s])", q, strings.Join(parts, ";"))
	}
	w.WriteString("].\n")
	fmt.Fprintf(w, "Definition %s_blocks : list (Z * list unit_) := [\n", n)
	for i := 1; i < len(m.Blocks); i++ {
		if i > 1 {
			w.WriteString(";\n")
		}
		fmt.Fprintf(w, " (%d, %s)", i, coqUnits(m.Blocks[i]))
	}
	w.WriteString("].\n")
	fmt.Fprintf(w, "Definition %s_eof : list (Z * list unit_) := [\n", n)
	var qs []int
	for q := range m.Eof {
		qs = append(qs, q)
	}
	sort.Ints(qs)
	for i, q := range qs {
		if i > 0 {
			w.WriteString(";\n")
		}
		fmt.Fprintf(w, " (%d, %s)", q, coqUnits(m.Eof[q]))
	}
	w.WriteString("].\n")
	var ents []string
	var enames []string
	for k := range m.Entries {
		enames = append(enames, k)
	}
	sort.Strings(enames)
	for _, k := range enames {
		ents = append(ents, fmt.Sprintf("%d", m.Entries[k]))
	}
	fmt.Fprintf(w, "Definition %s_raw : rawmachine := {| rm_start := %d; rm_first_final := %d; rm_rows := %s_rows; rm_blocks := %s_blocks; rm_eof := %s_eof; rm_has_stack := %s; rm_skel_ok := %s; rm_frame_ok := %s; rm_entries := [%s] |}.\n\n",
		n, m.Start, m.FirstFinal, n, n, n, coqBool(m.HasStack), coqBool(len(m.SkelIssues) == 0), coqBool(m.FrameOK), strings.Join(ents, "; "))
}

func main() {
	repo := flag.String("repo", "/repo", "repository root")
	out := flag.String("out", "", "output directory")
	basis := flag.String("basis", "", "frame/fingerprint basis json")
	writeBasis := flag.Bool("write-basis", false, "write the basis file instead of comparing")
	flag.Parse()
	if *out == "" {
		fmt.Fprintln(os.Stderr, "need -out")
		os.Exit(2)
	}
	os.MkdirAll(*out, 0o755)
	var goFiles []string
	for _, pat := range []string{"*.go", "internal/fp/*.go"} {
		l, _ := filepath.Glob(filepath.Join(*repo, pat))
		goFiles = append(goFiles, l...)
	}
	sort.Strings(goFiles)
	files := map[string]*ast.File{}
	var issues []string
	for _, fn := range goFiles {
		if strings.HasSuffix(fn, "_test.go") {
			continue
		}
		src, err := os.ReadFile(fn)
		if err != nil {
			panic(err)
		}
		// files guarded by build tags other than the default build are skipped (fuzz, verif hooks)
		if regexp.MustCompile(`(?m)^//go:build (gofuzz|verif)`).Match(src) || regexp.MustCompile(`(?m)^// \+build gofuzz`).Match(src) {
			continue
		}
		f, err := parser.ParseFile(fset, fn, src, 0)
		if err != nil {
			issues = append(issues, "parse "+fn+": "+err.Error())
			continue
		}
		rel, _ := filepath.Rel(*repo, fn)
		files[rel] = f
	}
	var machines []*Machine
	var names []string
	for n := range files {
		names = append(names, n)
	}
	sort.Strings(names)
	for _, fn := range names {
		if !strings.HasSuffix(fn, ".rl.go") {
			continue
		}
		for _, d := range files[fn].Decls {
			if fd, ok := d.(*ast.FuncDecl); ok && fd.Body != nil {
				if m := translateFunc(fn, fd); m != nil {
					machines = append(machines, m)
				} else {
					issues = append(issues, "function "+fd.Name.Name+" in "+fn+" has no exec block")
				}
			}
		}
	}
	tb := collectTables(files, &issues)
	fc := collectFacts(files)

	// basis: frames
	type basisT struct {
		Frames       map[string]string   `json:"frames"`
		Fingerprints map[string]string   `json:"fingerprints"`
		AllocSites   map[string][]string `json:"alloc_sites"`
		Globals      []string            `json:"globals"`
	}
	var bs basisT
	if *basis != "" && !*writeBasis {
		if raw, err := os.ReadFile(*basis); err == nil {
			json.Unmarshal(raw, &bs)
		}
	}
	for _, m := range machines {
		if *writeBasis {
			m.FrameOK = true
		} else {
			m.FrameOK = bs.Frames != nil && bs.Frames[m.Name] == m.Frame
		}
	}
	if *writeBasis && *basis != "" {
		bs.Frames = map[string]string{}
		for _, m := range machines {
			bs.Frames[m.Name] = m.Frame
		}
		bs.Fingerprints = fc.Fingerprints
		bs.AllocSites = fc.AllocSites
		bs.Globals = fc.Globals
		raw, _ := json.MarshalIndent(bs, "", " ")
		os.WriteFile(*basis, raw, 0o644)
	}

	// ---- GenTables.v
	var w bytes.Buffer
	w.WriteString("(* GENERATED by tools/rl2v from /repo on every run -- do not edit, do not commit *)\n")
	w.WriteString("From Coq Require Import List ZArith.\nImport ListNotations.\nFrom Rjson Require Import Base Helpers Machine.\nLocal Open Scope Z_scope.\n\n")
	var mnames []string
	for _, m := range machines {
		emitMachine(&w, m)
		mnames = append(mnames, m.Name)
	}
	fmt.Fprintf(&w, "Definition gen_machine_names : list (list Z) := []. (* placeholder *)\n")
	// byte tables
	var bnames []string
	for n := range tb.Bool256 {
		bnames = append(bnames, n)
	}
	sort.Strings(bnames)
	for _, n := range bnames {
		var p []string
		for _, i := range tb.Bool256[n] {
			p = append(p, strconv.Itoa(i))
		}
		fmt.Fprintf(&w, "Definition tab_%s : list Z := [%s].\n", n, strings.Join(p, "; "))
	}
	{
		var p []string
		for _, v := range tb.TokTypes {
			p = append(p, strconv.Itoa(v))
		}
		fmt.Fprintf(&w, "Definition tab_tokenTypes : list Z := [%s].\n", strings.Join(p, "; "))
	}
	var cn []string
	for n := range tb.Consts {
		cn = append(cn, n)
	}
	sort.Strings(cn)
	intRe := regexp.MustCompile(`^[+-]?\d+$`)
	for _, n := range cn {
		v := tb.Consts[n]
		if intRe.MatchString(v) {
			fmt.Fprintf(&w, "Definition const_%s : Z := (%s).\n", n, strings.TrimPrefix(v, "+"))
		} else {
			fmt.Fprintf(&w, "(* const %s = %s (not a literal) *)\n", n, v)
		}
	}
	fmt.Fprintf(&w, "Definition gen_issues : Z := %d.\n", len(issues))
	for _, s := range issues {
		fmt.Fprintf(&w, "(* issue: %s *)\n", strings.ReplaceAll(s, "*)", "* )"))
	}
	os.WriteFile(filepath.Join(*out, "GenTables.v"), w.Bytes(), 0o644)

	// ---- GenFp.v
	var f bytes.Buffer
	f.WriteString("(* GENERATED by tools/rl2v from /repo on every run -- do not edit, do not commit *)\n")
	f.WriteString("From Coq Require Import List ZArith String.\nImport ListNotations.\nLocal Open Scope Z_scope.\n\n")
	f.WriteString("Definition gen_pow10 : list (Z * Z) := [\n")
	for i, r := range tb.Pow10 {
		if i > 0 {
			f.WriteString(";\n")
		}
		lo, _ := strconv.ParseUint(strings.TrimPrefix(strings.ToLower(r[0]), "0x"), 16, 64)
		hi, _ := strconv.ParseUint(strings.TrimPrefix(strings.ToLower(r[1]), "0x"), 16, 64)
		fmt.Fprintf(&f, " (%d, %d)", lo, hi)
	}
	f.WriteString("].\n")
	// float64pow10: literals of the form 1eK -> K ; anything else -> -1
	{
		var p []string
		for _, s := range tb.F64Pow10 {
			if mm := regexp.MustCompile(`^1e(\d+)$`).FindStringSubmatch(s); mm != nil {
				p = append(p, mm[1])
			} else {
				p = append(p, "(-1)")
			}
		}
		fmt.Fprintf(&f, "Definition gen_float64pow10_exps : list Z := [%s].\n", strings.Join(p, "; "))
	}
	{
		var p []string
		for _, v := range tb.Powtab {
			p = append(p, strconv.Itoa(v))
		}
		fmt.Fprintf(&f, "Definition gen_powtab : list Z := [%s].\n", strings.Join(p, "; "))
	}
	f.WriteString("Definition gen_leftcheats : list (Z * Z * Z) := [ (* delta, cutoff as a number, number of cutoff digits *)\n")
	for i, c := range tb.Cheats {
		if i > 0 {
			f.WriteString(";\n")
		}
		num := c.C
		if num == "" || !regexp.MustCompile(`^\d*$`).MatchString(num) {
			if num != "" {
				num = "-1"
			} else {
				num = "0"
			}
		}
		fmt.Fprintf(&f, " (%d, %s, %d)", c.D, num, len(c.C))
	}
	f.WriteString("].\n")
	os.WriteFile(filepath.Join(*out, "GenFp.v"), f.Bytes(), 0o644)

	// ---- GenFacts.v
	var g bytes.Buffer
	g.WriteString("(* GENERATED by tools/rl2v from /repo on every run -- do not edit, do not commit *)\n")
	g.WriteString("From Coq Require Import List String.\nImport ListNotations.\nFrom Rjson Require Import Footprint.\nLocal Open Scope string_scope.\n\n")
	g.WriteString("Definition gen_globals : list string := [\n")
	for i, n := range fc.Globals {
		if i > 0 {
			g.WriteString(";\n")
		}
		fmt.Fprintf(&g, " %q", n)
	}
	g.WriteString("].\n")
	coqKind := func(k string) string {
		switch {
		case k == "read":
			return "AKRead"
		case k == "assigned":
			return "AKAssigned"
		case k == "incdec":
			return "AKIncDec"
		case k == "addr-taken":
			return "AKAddrTaken"
		case k == "sliced":
			return "AKSliced"
		case strings.HasPrefix(k, "passed:"):
			return fmt.Sprintf("(AKPassed %q)", k[7:])
		case strings.HasPrefix(k, "method:"):
			return fmt.Sprintf("(AKMethod %q)", k[7:])
		}
		return "AKAssigned"
	}
	g.WriteString("Definition gen_accesses : list (string * string * akind) := [\n")
	for i, a := range fc.Accesses {
		if i > 0 {
			g.WriteString(";\n")
		}
		fmt.Fprintf(&g, " (%q, %q, %s)", a.Var, a.Func+"@"+a.Pos, coqKind(a.Kind))
	}
	g.WriteString("].\n")
	os.WriteFile(filepath.Join(*out, "GenGlobals.v"), g.Bytes(), 0o644)
	g.Reset()
	g.WriteString("(* GENERATED by tools/rl2v from /repo on every run -- do not edit, do not commit *)\n")
	g.WriteString("From Coq Require Import List String.\nImport ListNotations.\nLocal Open Scope string_scope.\n\n")
	g.WriteString("Definition gen_alloc_sites : list (string * list string) := [\n")
	var fns []string
	for k := range fc.AllocSites {
		fns = append(fns, k)
	}
	sort.Strings(fns)
	for i, k := range fns {
		if i > 0 {
			g.WriteString(";\n")
		}
		var p []string
		for _, s := range fc.AllocSites[k] {
			p = append(p, "\""+strings.ReplaceAll(s, "\"", "\"\"")+"\"")
		}
		fmt.Fprintf(&g, " (%q, [%s])", k, strings.Join(p, "; "))
	}
	g.WriteString("].\n")
	os.WriteFile(filepath.Join(*out, "GenFacts.v"), g.Bytes(), 0o644)

	// ---- JSON for the orchestrator
	all := map[string]interface{}{"machines": machines, "tables": tb, "facts": fc, "issues": issues}
	raw, _ := json.Marshal(all)
	os.WriteFile(filepath.Join(*out, "gen.json"), raw, 0o644)
	fmt.Printf("rl2v: %d machines, %d issues\n", len(machines), len(issues))
	for _, m := range machines {
		fmt.Printf("  %-26s states=%-4d blocks=%-3d skel_issues=%d frame_ok=%v\n", m.Name, len(m.States), len(m.Blocks)-1, len(m.SkelIssues), m.FrameOK)
		for i, s := range m.SkelIssues {
			if i < 5 {
				fmt.Printf("     issue: %s\n", s)
			}
		}
	}
}
