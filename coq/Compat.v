(** Hand model of rjson.go: StdLibCompatibleString / StdLibCompatibleStringBytes
    (utf8.DecodeRune + string(rune) re-encoding) and the specification [sanitize]
    (Unicode Table 3-7 well-formed sequences; every byte outside one becomes U+FFFD).
    Definitions only; proofs in CompatFacts.v. *)
From Coq Require Import List ZArith Bool.
From Coq Require Import Strings.Byte.
From Rjson Require Import Base Helpers.
Import ListNotations.
Local Open Scope Z_scope.

Definition in_rng (lo hi : Z) (b : byte) : bool := (lo <=? bz b) && (bz b <=? hi).
Definition is_cont (b : byte) : bool := in_rng 128 191 b.

(** utf8.DecodeRune: (rune, width); RuneError = 65533 with width 1 for invalid input,
    width 0 for empty input *)
Definition decode_rune (s : list byte) : Z * nat :=
  match s with
  | [] => (65533, 0%nat)
  | b0 :: r =>
    let c0 := bz b0 in
    if c0 <? 128 then (c0, 1%nat)
    else if (c0 <? 194) || (244 <? c0) then (65533, 1%nat)     (* first[] = xx *)
    else if c0 <? 224 then                                      (* C2..DF: 2 bytes *)
      match r with
      | b1 :: _ => if is_cont b1 then ((c0 mod 32) * 64 + (bz b1) mod 64, 2%nat) else (65533, 1%nat)
      | _ => (65533, 1%nat)
      end
    else if c0 <? 240 then                                      (* E0..EF: 3 bytes *)
      match r with
      | b1 :: b2 :: _ =>
        let lo := if c0 =? 224 then 160 else 128 in
        let hi := if c0 =? 237 then 159 else 191 in
        if negb (in_rng lo hi b1) then (65533, 1%nat)
        else if negb (is_cont b2) then (65533, 1%nat)
        else (((c0 mod 16) * 64 + (bz b1) mod 64) * 64 + (bz b2) mod 64, 3%nat)
      | _ => (65533, 1%nat)
      end
    else                                                        (* F0..F4: 4 bytes *)
      match r with
      | b1 :: b2 :: b3 :: _ =>
        let lo := if c0 =? 240 then 144 else 128 in
        let hi := if c0 =? 244 then 143 else 191 in
        if negb (in_rng lo hi b1) then (65533, 1%nat)
        else if negb (is_cont b2) then (65533, 1%nat)
        else if negb (is_cont b3) then (65533, 1%nat)
        else ((((c0 mod 8) * 64 + (bz b1) mod 64) * 64 + (bz b2) mod 64) * 64 + (bz b3) mod 64, 4%nat)
      | _ => (65533, 1%nat)
      end
  end.

(** the rune loop of StdLibCompatibleString; fuel = length of the input *)
Fixpoint compat_loop (fuel : nat) (s : list byte) : list byte :=
  match fuel with
  | O => []
  | S f =>
    match s with
    | [] => []
    | _ => let '(r, w) := decode_rune s in utf8_encode r ++ compat_loop f (skipn w s)
    end
  end.

Definition StdLibCompatibleString (s : list byte) : list byte := compat_loop (length s) s.
Definition StdLibCompatibleStringBytes (s buf : list byte) : list byte := buf ++ StdLibCompatibleString s.

(** ** Specification: well-formed UTF-8 (Unicode 15, Table 3-7) *)
(** length of the well-formed sequence at the head of [s], or 0 *)
Definition wf_len (s : list byte) : nat :=
  match s with
  | [] => 0%nat
  | b0 :: r =>
    let c0 := bz b0 in
    if c0 <? 128 then 1%nat
    else if (194 <=? c0) && (c0 <=? 223) then
      match r with b1 :: _ => if is_cont b1 then 2%nat else 0%nat | _ => 0%nat end
    else if (224 <=? c0) && (c0 <=? 239) then
      match r with
      | b1 :: b2 :: _ =>
        let ok1 := if c0 =? 224 then in_rng 160 191 b1
                   else if c0 =? 237 then in_rng 128 159 b1
                   else is_cont b1 in
        if ok1 && is_cont b2 then 3%nat else 0%nat
      | _ => 0%nat
      end
    else if (240 <=? c0) && (c0 <=? 244) then
      match r with
      | b1 :: b2 :: b3 :: _ =>
        let ok1 := if c0 =? 240 then in_rng 144 191 b1
                   else if c0 =? 244 then in_rng 128 143 b1
                   else is_cont b1 in
        if ok1 && is_cont b2 && is_cont b3 then 4%nat else 0%nat
      | _ => 0%nat
      end
    else 0%nat
  end.

Definition fffd : list byte := [zb 239; zb 191; zb 189].

Fixpoint sanitize_loop (fuel : nat) (s : list byte) : list byte :=
  match fuel with
  | O => []
  | S f =>
    match s with
    | [] => []
    | b :: r =>
      match wf_len s with
      | O => fffd ++ sanitize_loop f r
      | k => firstn k s ++ sanitize_loop f (skipn k s)
      end
    end
  end.

(** each byte that is not part of a well-formed UTF-8 sequence becomes U+FFFD *)
Definition sanitize (s : list byte) : list byte := sanitize_loop (length s) s.

(** valid UTF-8: a concatenation of well-formed sequences *)
Fixpoint valid_utf8_loop (fuel : nat) (s : list byte) : bool :=
  match fuel with
  | O => match s with [] => true | _ => false end
  | S f =>
    match s with
    | [] => true
    | _ => match wf_len s with O => false | k => valid_utf8_loop f (skipn k s) end
    end
  end.
Definition valid_utf8 (s : list byte) : bool := valid_utf8_loop (length s) s.
