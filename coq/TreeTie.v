(** The value reader depends on its six machines only through what can be observed of their runs
    ([Safety.obs]: offset, error, handler calls, destination, boolean value): [ReadValue_congr],
    [ReadObject_congr], [ReadArray_congr].  Hence the tree theorems of TreeFacts.v (stated over the
    specification machines) hold verbatim for any implementation machines that are observationally equal
    to the specification machines on inputs of at most [maxint] bytes - which is what the per-run
    certified simulation (run/TieSim.v) establishes for the regenerated tables. *)
From Coq Require Import List ZArith Bool Lia.
From Coq Require Import Strings.Byte.
From Rjson Require Import Base BaseFacts Helpers Machine MachineFacts Safety Api ValueReader
  SpecMachines Ref OffsetFacts TreeFacts.
Import ListNotations.
Local Open Scope Z_scope.

Definition same_obs_m (m1 m2 : machine) : Prop :=
  forall md data h stack dst, len data <= maxint ->
    obs (prun md m1 data h stack dst) = obs (prun md m2 data h stack dst).

Lemma same_obs_m_refl : forall m, same_obs_m m m.
Proof. intros m md data h stack dst _. reflexivity. Qed.
Lemma same_obs_m_sym : forall m1 m2, same_obs_m m1 m2 -> same_obs_m m2 m1.
Proof. intros m1 m2 H md data h stack dst L. symmetry. apply H. exact L. Qed.
Lemma same_obs_m_trans : forall m1 m2 m3, same_obs_m m1 m2 -> same_obs_m m2 m3 -> same_obs_m m1 m3.
Proof. intros m1 m2 m3 H1 H2 md data h stack dst L. rewrite H1, H2; auto. Qed.

Lemma len_skipn : forall {A} k (l : list A), len (skipn k l) <= len l.
Proof. intros A k l. unfold len. rewrite skipn_length. lia. Qed.
Lemma len_firstn : forall {A} k (l : list A), len (firstn k l) <= len l.
Proof. intros A k l. unfold len. rewrite firstn_length. lia. Qed.

(** * 1. extensionality of a run in the handler, on the calls a run can make
    (the key of a call is a slice of the input, hence not longer than the input) *)
Section ExtOn.
  Variable md : Z.
  Variable m : machine.
  Variable data : list byte.
  Variables h1 h2 : handler.
  Notation pe := (len data).

  Definition okc (c : call) : Prop := len (c_key c) <= len data.
  Hypothesis HE : forall L, Forall okc L -> h1 L = h2 L.

  Definition ures_ok (r : ures) : Prop :=
    match ures_st r with Some s' => Forall okc (s_calls s') | None => True end.

  Lemma slice_len : forall a b k, slice data a b = Some k -> len k <= len data.
  Proof.
    intros a b k H. unfold slice in H. destruct ((0 <=? a) && (a <=? b) && (b <=? len data)); [|discriminate].
    inversion H. eapply Z.le_trans; [apply len_firstn|apply len_skipn].
  Qed.

  Lemma unit_on : forall u s, Forall okc (s_calls s) ->
    exec_unit md data h1 pe u s = exec_unit md data h2 pe u s /\ ures_ok (exec_unit md data h2 pe u s).
  Proof.
    intros u s F. destruct (is_handle u) eqn:IH.
    - destruct u; try discriminate. cbn [exec_unit].
      destruct (if is_obj then slice data (s_fs s + 1) (s_fe s - 1) else Some []) as [k|] eqn:K; [|split; [reflexivity|exact I]].
      destruct ((0 <=? s_p s) && (s_p s <=? pe)); [|split; [reflexivity|exact I]].
      set (c := {| c_p := s_p s; c_key := k; c_obj := is_obj |}).
      assert (FC : Forall okc (c :: s_calls s)).
      { constructor; [|exact F]. unfold okc, c. cbn [c_key]. destruct is_obj.
        - eapply slice_len; eauto.
        - inversion K. unfold len. cbn. lia. }
      rewrite (HE _ FC). split; [reflexivity|]. unfold ures_ok.
      destruct (h_havoc (h2 (c :: s_calls s))); cbn [ures_st]; destruct keep_pp; exact FC.
    - split.
      + destruct u; try discriminate; reflexivity.
      + unfold ures_ok. destruct (ures_st (exec_unit md data h2 pe u s)) as [s'|] eqn:E; [|exact I].
        rewrite (unit_calls_nh md data pe h2 u s s' IH E). exact F.
  Qed.

  Lemma units_on : forall us s, Forall okc (s_calls s) ->
    exec_units md data h1 pe us s = exec_units md data h2 pe us s /\ ures_ok (exec_units md data h2 pe us s).
  Proof.
    induction us as [|u r IH]; intros s F.
    - split; [reflexivity|exact F].
    - cbn [exec_units]. destruct (unit_on u s F) as [E O]. rewrite E.
      destruct (exec_unit md data h2 pe u s) as [s1|s1 d|s1|p1 e1 s1|k]; try (split; [reflexivity|exact O]).
      apply IH. exact O.
  Qed.

  Definition out_ok (o : outcome) : Prop :=
    match o with ODone _ _ sf => Forall okc (s_calls sf) | _ => True end.

  Lemma eof_on : forall z s, Forall okc (s_calls s) ->
    eof_phase md m data h1 pe z s = eof_phase md m data h2 pe z s /\ out_ok (eof_phase md m data h2 pe z s).
  Proof.
    intros z s F. unfold eof_phase. destruct (units_on (m_eof m z) s F) as [E O]. rewrite E.
    destruct (exec_units md data h2 pe (m_eof m z) s); split; try reflexivity; try exact O; exact I.
  Qed.

  Lemma run_on : forall f z s, Forall okc (s_calls s) ->
    run md m data h1 pe f z s = run md m data h2 pe f z s /\ out_ok (run md m data h2 pe f z s).
  Proof.
    induction f as [|f IH]; intros z s F; [split; [reflexivity|exact I]|].
    cbn [run]. destruct (get data (s_p s)); [|split; [reflexivity|exact I]].
    destruct (m_trans m z b) as [us d].
    destruct (units_on us s F) as [E O]. rewrite E.
    assert (GO : forall s1 d1, Forall okc (s_calls s1) ->
              (if d1 =? 0 then ODone (s_p s1) (s_err s1) s1
               else if negb (m_is_state m d1) then OPanic PBadState
               else if s_p (set_p s1 (s_p s1 + 1)) =? pe then eof_phase md m data h1 pe d1 (set_p s1 (s_p s1 + 1))
               else run md m data h1 pe f d1 (set_p s1 (s_p s1 + 1))) =
              (if d1 =? 0 then ODone (s_p s1) (s_err s1) s1
               else if negb (m_is_state m d1) then OPanic PBadState
               else if s_p (set_p s1 (s_p s1 + 1)) =? pe then eof_phase md m data h2 pe d1 (set_p s1 (s_p s1 + 1))
               else run md m data h2 pe f d1 (set_p s1 (s_p s1 + 1))) /\
              out_ok (if d1 =? 0 then ODone (s_p s1) (s_err s1) s1
               else if negb (m_is_state m d1) then OPanic PBadState
               else if s_p (set_p s1 (s_p s1 + 1)) =? pe then eof_phase md m data h2 pe d1 (set_p s1 (s_p s1 + 1))
               else run md m data h2 pe f d1 (set_p s1 (s_p s1 + 1)))).
    { intros s1 d1 F1. destruct (d1 =? 0); [split; [reflexivity|exact F1]|].
      destruct (negb (m_is_state m d1)); [split; [reflexivity|exact I]|].
      destruct (s_p (set_p s1 (s_p s1 + 1)) =? pe); [apply eof_on; exact F1|apply IH; exact F1]. }
    destruct (exec_units md data h2 pe us s) as [s1|s1 d1|s1|p1 e1 s1|k]; unfold ures_ok in O; cbn [ures_st] in O.
    - apply GO; exact O.
    - apply GO; exact O.
    - split; [reflexivity|exact O].
    - split; [reflexivity|exact O].
    - split; [reflexivity|exact I].
  Qed.

  (** two handlers that agree on every list of calls whose keys are not longer than the input give the
      same run; and the calls of a finished run have such keys *)
  Theorem prun_ext_on : forall stack dst,
    prun md m data h1 stack dst = prun md m data h2 stack dst /\ out_ok (prun md m data h2 stack dst).
  Proof.
    intros stack dst. unfold prun. destruct (0 =? pe); [apply eof_on|apply run_on]; constructor.
  Qed.
End ExtOn.

(** * 2. the wrappers depend on the observation only *)
Lemma obs_done_inv : forall o1 o2, obs o1 = obs o2 ->
  match o1, o2 with
  | ODone p e s, ODone p' e' s' => p = p' /\ e = e' /\ s_calls s = s_calls s' /\ s_dst s = s_dst s' /\ s_val s = s_val s'
  | OPanic _, OPanic _ => True
  | OOutOfFuel, OOutOfFuel => True
  | _, _ => False
  end.
Proof.
  intros [p e s|k|] [p' e' s'|k'|] H; cbn in H; try discriminate; try exact I.
  inversion H. auto.
Qed.

Section Congr.
  Variables md vr : Z.
  Variables mArr mObj mNull mBool mAppend mUnescape : machine.
  Variables mArr' mObj' mNull' mBool' mAppend' mUnescape' : machine.
  Variable rf : list byte -> Z * Z * option errk.
  Hypothesis SA : same_obs_m mArr mArr'.
  Hypothesis SO : same_obs_m mObj mObj'.
  Hypothesis SN : same_obs_m mNull mNull'.
  Hypothesis SB : same_obs_m mBool mBool'.
  Hypothesis SP : same_obs_m mAppend mAppend'.
  Hypothesis SU : same_obs_m mUnescape mUnescape'.

  Lemma ReadNull_congr : forall data, len data <= maxint -> ReadNull md mNull data = ReadNull md mNull' data.
  Proof.
    intros data L. unfold ReadNull. rewrite !prun_c_eq.
    pose proof (obs_done_inv _ _ (SN md data no_handler [] [] L)) as H.
    destruct (prun md mNull data no_handler [] []), (prun md mNull' data no_handler [] []); try contradiction; try reflexivity.
    destruct H as (-> & -> & _). reflexivity.
  Qed.

  Lemma ReadBool_congr : forall data, len data <= maxint -> ReadBool md mBool data = ReadBool md mBool' data.
  Proof.
    intros data L. unfold ReadBool. rewrite !prun_c_eq.
    pose proof (obs_done_inv _ _ (SB md data no_handler [] [] L)) as H.
    destruct (prun md mBool data no_handler [] []), (prun md mBool' data no_handler [] []); try contradiction; try reflexivity.
    destruct H as (-> & -> & _ & _ & ->). reflexivity.
  Qed.

  Lemma str_machine_congr : forall m m', same_obs_m m m' -> forall data dst, len data <= maxint ->
    str_machine md m data dst = str_machine md m' data dst.
  Proof.
    intros m m' S data dst L. unfold str_machine. rewrite !prun_c_eq.
    pose proof (obs_done_inv _ _ (S md data no_handler [] dst L)) as H.
    destruct (prun md m data no_handler [] dst), (prun md m' data no_handler [] dst); try contradiction; try reflexivity.
    destruct H as (-> & -> & _ & -> & _). reflexivity.
  Qed.

  Lemma ReadStringBytes_congr : forall data buf, len data <= maxint ->
    ReadStringBytes md mAppend data buf = ReadStringBytes md mAppend' data buf.
  Proof.
    intros data buf L. unfold ReadStringBytes.
    pose proof (len_skipn (Z.to_nat (countWhitespace data)) data) as L1.
    destruct (skipn (Z.to_nat (countWhitespace data)) data) as [|q body]; [reflexivity|].
    destruct (negb (bz q =? 34)); [reflexivity|].
    set (n := count_while (fun b => negb (str_stop b)) body).
    pose proof (len_skipn n body) as L2.
    destruct (skipn n body) as [|c rest] eqn:K; [reflexivity|].
    destruct (bz c =? 34); [reflexivity|].
    unfold appendRemainderOfString. rewrite (str_machine_congr mAppend mAppend' SP); [reflexivity|].
    rewrite len_cons in L1. pose proof (len_nonneg body). lia.
  Qed.

  Lemma key_of_congr : forall raw, len raw <= maxint -> key_of md mUnescape raw = key_of md mUnescape' raw.
  Proof.
    intros raw L. unfold key_of. destruct (has_backslash raw); [|reflexivity].
    unfold UnescapeStringContent. rewrite (str_machine_congr mUnescape mUnescape' SU); [reflexivity|].
    eapply Z.le_trans; [apply len_skipn|exact L].
  Qed.

  Lemma readSimpleValue_congr : forall d tp, len d <= maxint ->
    readSimpleValue md mNull mBool mAppend rf d tp = readSimpleValue md mNull' mBool' mAppend' rf d tp.
  Proof.
    intros d tp L. unfold readSimpleValue.
    rewrite (ReadNull_congr d L), (ReadStringBytes_congr d [] L), (ReadBool_congr d L). reflexivity.
  Qed.

  Lemma member_congr : forall (ro ro' ra ra' : list byte -> rres) depth lv, len lv <= maxint ->
    (forall d, len d <= maxint -> ro d = ro' d) -> (forall d, len d <= maxint -> ra d = ra' d) ->
    ValueReader.member md vr mNull mBool mAppend rf ro ra depth lv =
    ValueReader.member md vr mNull' mBool' mAppend' rf ro' ra' depth lv.
  Proof.
    intros ro ro' ra ra' depth lv L HO HA. unfold ValueReader.member.
    destruct (NextTokenType lv) as [[tp p] [e|]]; [reflexivity|].
    assert (LD : len (skipn (Z.to_nat (p - 1)) lv) <= maxint) by (eapply Z.le_trans; [apply len_skipn|exact L]).
    rewrite (HO _ LD), (HA _ LD), (readSimpleValue_congr _ tp LD). reflexivity.
  Qed.

  Lemma collect_arr_congr : forall (r1 r1' : call -> rres) calls acc,
    (forall c, In c calls -> r1 c = r1' c) -> collect_arr r1 calls acc = collect_arr r1' calls acc.
  Proof.
    intros r1 r1'. induction calls as [|c r IH]; intros acc H; [reflexivity|].
    cbn [collect_arr]. rewrite <- (H c (or_introl eq_refl)).
    destruct (r1 c) as [[[v p] [e|]]|]; try reflexivity. apply IH. intros c' IN. apply H. right. exact IN.
  Qed.

  Lemma collect_obj_congr : forall (r1 r1' : call -> rres) calls acc,
    (forall c, In c calls -> r1 c = r1' c /\ key_of md mUnescape (c_key c) = key_of md mUnescape' (c_key c)) ->
    collect_obj md mUnescape r1 calls acc = collect_obj md mUnescape' r1' calls acc.
  Proof.
    intros r1 r1'. induction calls as [|c r IH]; intros acc H; [reflexivity|].
    cbn [collect_obj]. destruct (H c (or_introl eq_refl)) as [<- <-].
    destruct (key_of md mUnescape (c_key c)) as [[k|]|]; try reflexivity.
    destruct (r1 c) as [[[v p] [e|]]|]; try reflexivity. apply IH. intros c' IN. apply H. right. exact IN.
  Qed.

  Notation rdo := (read_obj md vr mArr mObj mNull mBool mAppend mUnescape rf).
  Notation rda := (read_arr md vr mArr mObj mNull mBool mAppend mUnescape rf).
  Notation rdo' := (read_obj md vr mArr' mObj' mNull' mBool' mAppend' mUnescape' rf).
  Notation rda' := (read_arr md vr mArr' mObj' mNull' mBool' mAppend' mUnescape' rf).

  (** the handler machines: same observation for handlers that agree on the calls a run can make *)
  Lemma handle_congr : forall m m', same_obs_m m m' -> forall data (h h' : handler), len data <= maxint ->
    (forall L, Forall (okc data) L -> h L = h' L) ->
    match prun md m data h [] [], prun md m' data h' [] [] with
    | ODone p e s, ODone p' e' s' => p = p' /\ e = e' /\ s_calls s = s_calls s' /\ Forall (okc data) (s_calls s)
    | OPanic _, OPanic _ => True
    | OOutOfFuel, OOutOfFuel => True
    | _, _ => False
    end.
  Proof.
    intros m m' S data h h' L HE.
    destruct (prun_ext_on md m data h h' HE [] []) as [E O].
    pose proof (obs_done_inv _ _ (S md data h' [] [] L)) as H. rewrite E.
    destruct (prun md m data h' [] []), (prun md m' data h' [] []); try contradiction; try exact I.
    destruct H as (-> & -> & C & _). repeat split; auto.
  Qed.

  (** one level of ReadObject / ReadArray, for abstract member readers *)
  Lemma obj_level_congr : forall data (r1 r1' : call -> rres), len data <= maxint ->
    (forall c, okc data c -> r1 c = r1' c /\ key_of md mUnescape (c_key c) = key_of md mUnescape' (c_key c)) ->
    match handleObjectValues_m md mObj data (fun calls => match calls with c :: _ => answer (r1 c) | [] => answer None end) [] with
    | MDone p (Some e) _ => Some (JNull, p, Some e)
    | MDone p None s =>
      match collect_obj md mUnescape r1 (rev (s_calls s)) [] with
      | Some m => match m with
                  | [] => if first_is_null data then Some (JNull, p, Some EInvalidObject) else Some (JObj m, p, None)
                  | _ :: _ => Some (JObj m, p, None)
                  end
      | None => None
      end
    | _ => None
    end =
    match handleObjectValues_m md mObj' data (fun calls => match calls with c :: _ => answer (r1' c) | [] => answer None end) [] with
    | MDone p (Some e) _ => Some (JNull, p, Some e)
    | MDone p None s =>
      match collect_obj md mUnescape' r1' (rev (s_calls s)) [] with
      | Some m => match m with
                  | [] => if first_is_null data then Some (JNull, p, Some EInvalidObject) else Some (JObj m, p, None)
                  | _ :: _ => Some (JObj m, p, None)
                  end
      | None => None
      end
    | _ => None
    end.
  Proof.
    intros data r1 r1' L R1. unfold handleObjectValues_m. rewrite !prun_c_eq.
    set (h := fun calls : list call => match calls with c :: _ => answer (r1 c) | [] => answer None end).
    set (h' := fun calls : list call => match calls with c :: _ => answer (r1' c) | [] => answer None end).
    assert (HE : forall L0, Forall (okc data) L0 -> h L0 = h' L0).
    { intros [|c L0] F; [reflexivity|]. inversion F; subst. unfold h, h'. rewrite (proj1 (R1 c H1)). reflexivity. }
    pose proof (handle_congr mObj mObj' SO data h h' L HE) as HC.
    destruct (prun md mObj data h [] []) as [p e s|k|], (prun md mObj' data h' [] []) as [p' e' s'|k'|];
      try contradiction; try reflexivity.
    destruct HC as (-> & -> & C & F). cbn [of_outcome]. destruct e'; [reflexivity|]. rewrite <- C.
    rewrite (collect_obj_congr r1 r1' (rev (s_calls s)) []); [reflexivity|].
    intros c IN. apply R1. rewrite Forall_forall in F. apply F. apply in_rev. exact IN.
  Qed.

  Lemma arr_level_congr : forall data (r1 r1' : call -> rres), len data <= maxint ->
    (forall c, r1 c = r1' c) ->
    match handleArrayValues_m md mArr data (fun calls => match calls with c :: _ => answer (r1 c) | [] => answer None end) [] with
    | MDone p (Some e) _ => Some (JNull, p, Some e)
    | MDone p None s =>
      match collect_arr r1 (rev (s_calls s)) [] with
      | Some l => match l with
                  | [] => if first_is_null data then Some (JNull, p, Some EInvalidArray) else Some (JArr l, p, None)
                  | _ :: _ => Some (JArr l, p, None)
                  end
      | None => None
      end
    | _ => None
    end =
    match handleArrayValues_m md mArr' data (fun calls => match calls with c :: _ => answer (r1' c) | [] => answer None end) [] with
    | MDone p (Some e) _ => Some (JNull, p, Some e)
    | MDone p None s =>
      match collect_arr r1' (rev (s_calls s)) [] with
      | Some l => match l with
                  | [] => if first_is_null data then Some (JNull, p, Some EInvalidArray) else Some (JArr l, p, None)
                  | _ :: _ => Some (JArr l, p, None)
                  end
      | None => None
      end
    | _ => None
    end.
  Proof.
    intros data r1 r1' L R1. unfold handleArrayValues_m. rewrite !prun_c_eq.
    set (h := fun calls : list call => match calls with c :: _ => answer (r1 c) | [] => answer None end).
    set (h' := fun calls : list call => match calls with c :: _ => answer (r1' c) | [] => answer None end).
    assert (HE : forall L0, Forall (okc data) L0 -> h L0 = h' L0).
    { intros [|c L0] F; [reflexivity|]. unfold h, h'. rewrite R1. reflexivity. }
    pose proof (handle_congr mArr mArr' SA data h h' L HE) as HC.
    destruct (prun md mArr data h [] []) as [p e s|k|], (prun md mArr' data h' [] []) as [p' e' s'|k'|];
      try contradiction; try reflexivity.
    destruct HC as (-> & -> & C & F). cbn [of_outcome]. destruct e'; [reflexivity|]. rewrite <- C.
    rewrite (collect_arr_congr r1 r1' (rev (s_calls s)) []); [reflexivity|].
    intros c IN. apply R1.
  Qed.

  Theorem read_congr : forall f depth data, len data <= maxint ->
    rdo f depth data = rdo' f depth data /\ rda f depth data = rda' f depth data.
  Proof.
    induction f as [|f IH]; intros depth data L; [split; reflexivity|].
    assert (MEM : forall c, ValueReader.member md vr mNull mBool mAppend rf (rdo f (depth + 1)) (rda f (depth + 1)) depth
                               (skipn (Z.to_nat (c_p c)) data) =
                            ValueReader.member md vr mNull' mBool' mAppend' rf (rdo' f (depth + 1)) (rda' f (depth + 1)) depth
                               (skipn (Z.to_nat (c_p c)) data)).
    { intros c. apply member_congr.
      - eapply Z.le_trans; [apply len_skipn|exact L].
      - intros d LD. apply IH. exact LD.
      - intros d LD. apply IH. exact LD. }
    split.
    - (* objects *)
      cbn [read_obj].
      apply (obj_level_congr data
               (fun c : call => match key_of md mUnescape (c_key c) with
                                | inl (Some _) => ValueReader.member md vr mNull mBool mAppend rf (rdo f (depth + 1)) (rda f (depth + 1)) depth (skipn (Z.to_nat (c_p c)) data)
                                | inl None => Some (JNull, 0, Some EInvalidString)
                                | inr _ => None
                                end)
               (fun c : call => match key_of md mUnescape' (c_key c) with
                                | inl (Some _) => ValueReader.member md vr mNull' mBool' mAppend' rf (rdo' f (depth + 1)) (rda' f (depth + 1)) depth (skipn (Z.to_nat (c_p c)) data)
                                | inl None => Some (JNull, 0, Some EInvalidString)
                                | inr _ => None
                                end) L).
      intros c OK. assert (KE : key_of md mUnescape (c_key c) = key_of md mUnescape' (c_key c))
        by (apply key_of_congr; unfold okc in OK; lia).
      split; [|exact KE]. rewrite <- KE, MEM. reflexivity.
    - (* arrays *)
      cbn [read_arr].
      apply (arr_level_congr data
               (fun c : call => ValueReader.member md vr mNull mBool mAppend rf (rdo f (depth + 1)) (rda f (depth + 1)) depth (skipn (Z.to_nat (c_p c)) data))
               (fun c : call => ValueReader.member md vr mNull' mBool' mAppend' rf (rdo' f (depth + 1)) (rda' f (depth + 1)) depth (skipn (Z.to_nat (c_p c)) data)) L).
      exact MEM.
  Qed.

  (** ReadValue / ReadObject / ReadArray depend on the six machines only through the observations of
      their runs *)
  Theorem ReadValue_congr : forall data, len data <= maxint ->
    ReadValue md vr mArr mObj mNull mBool mAppend mUnescape rf data =
    ReadValue md vr mArr' mObj' mNull' mBool' mAppend' mUnescape' rf data.
  Proof.
    intros data L. unfold ReadValue. destruct (NextTokenType data) as [[tp p] [e|]]; [reflexivity|].
    assert (LD : len (skipn (Z.to_nat (p - 1)) data) <= maxint) by (eapply Z.le_trans; [apply len_skipn|exact L]).
    destruct (read_congr (vr_fuel data) 1 _ LD) as [-> ->]. rewrite (readSimpleValue_congr _ tp LD). reflexivity.
  Qed.

  Theorem ReadObject_congr : forall data, len data <= maxint ->
    ReadObject md vr mArr mObj mNull mBool mAppend mUnescape rf data =
    ReadObject md vr mArr' mObj' mNull' mBool' mAppend' mUnescape' rf data.
  Proof. intros data L. unfold ReadObject. apply read_congr. exact L. Qed.

  Theorem ReadArray_congr : forall data, len data <= maxint ->
    ReadArray md vr mArr mObj mNull mBool mAppend mUnescape rf data =
    ReadArray md vr mArr' mObj' mNull' mBool' mAppend' mUnescape' rf data.
  Proof. intros data L. unfold ReadArray. apply read_congr. exact L. Qed.
End Congr.

(** * 3. the tree theorems over implementation machines *)
Section Impl.
  Variables mArr mObj mNull mBool mAppend mUnescape : machine.
  Hypothesis TA : same_obs_m mArr harr_spec.
  Hypothesis TO : same_obs_m mObj hobj_spec.
  Hypothesis TN : same_obs_m mNull null_spec.
  Hypothesis TB : same_obs_m mBool bool_spec.
  Hypothesis TP : same_obs_m mAppend append_spec.
  Hypothesis TU : same_obs_m mUnescape unescape_spec.
  Variable readFloat64 : list byte -> Z * Z * option errk.
  Variable num : list byte -> option Z.
  Hypothesis FO : float_ok readFloat64 num.

  (** C03 over the implementation machines: ReadValue returns the reference tree and the offset just
      after the value, or an error when the reference assigns no tree *)
  Theorem read_value_tree_impl : forall data, len data <= maxint ->
    match parse_ref num data with
    | Some (t, p) => ReadValue 10000 10000 mArr mObj mNull mBool mAppend mUnescape readFloat64 data = Some (t, p, None)
    | None => exists v p e, ReadValue 10000 10000 mArr mObj mNull mBool mAppend mUnescape readFloat64 data = Some (v, p, Some e)
    end.
  Proof.
    intros data L. rewrite (ReadValue_congr 10000 10000 _ _ _ _ _ _ _ _ _ _ _ _ readFloat64 TA TO TN TB TP TU data L).
    apply read_value_tree; assumption.
  Qed.

  Theorem read_object_tree_impl : forall data, len data <= maxint ->
    match parse_typed_ref num true data with
    | Some (t, p) => ReadObject 10000 10000 mArr mObj mNull mBool mAppend mUnescape readFloat64 data = Some (t, p, None)
    | None => exists v p e, ReadObject 10000 10000 mArr mObj mNull mBool mAppend mUnescape readFloat64 data = Some (v, p, Some e)
    end.
  Proof.
    intros data L. rewrite (ReadObject_congr 10000 10000 _ _ _ _ _ _ _ _ _ _ _ _ readFloat64 TA TO TN TB TP TU data L).
    apply read_object_tree; assumption.
  Qed.

  Theorem read_array_tree_impl : forall data, len data <= maxint ->
    match parse_typed_ref num false data with
    | Some (t, p) => ReadArray 10000 10000 mArr mObj mNull mBool mAppend mUnescape readFloat64 data = Some (t, p, None)
    | None => exists v p e, ReadArray 10000 10000 mArr mObj mNull mBool mAppend mUnescape readFloat64 data = Some (v, p, Some e)
    end.
  Proof.
    intros data L. rewrite (ReadArray_congr 10000 10000 _ _ _ _ _ _ _ _ _ _ _ _ readFloat64 TA TO TN TB TP TU data L).
    apply read_array_tree; assumption.
  Qed.

  (** C08 for ReadValue over the implementation machines *)
  Theorem read_value_offset_is_skip_impl : forall data t p, len data <= maxint ->
    ReadValue 10000 10000 mArr mObj mNull mBool mAppend mUnescape readFloat64 data = Some (t, p, None) ->
    skip_ref data = Some p.
  Proof.
    intros data t p L H. rewrite (ReadValue_congr 10000 10000 _ _ _ _ _ _ _ _ _ _ _ _ readFloat64 TA TO TN TB TP TU data L) in H.
    eapply read_value_offset_is_skip; eauto.
  Qed.

  Theorem read_value_total_impl : forall data, len data <= maxint ->
    ReadValue 10000 10000 mArr mObj mNull mBool mAppend mUnescape readFloat64 data <> None.
  Proof.
    intros data L. rewrite (ReadValue_congr 10000 10000 _ _ _ _ _ _ _ _ _ _ _ _ readFloat64 TA TO TN TB TP TU data L).
    eapply read_value_total; eauto.
  Qed.
End Impl.

(** sanity: the specification machines themselves are an instance; doc1 of TreeFacts.v *)
Example read_value_tree_impl_ex :
  RV toy_readFloat64 doc1 = Some (JObj [([x61], JArr [JBool true; JNull]); ([x62; x0a], JStr [x78; x41])], 39, None).
Proof.
  pose proof (read_value_tree_impl harr_spec hobj_spec null_spec bool_spec append_spec unescape_spec
                (same_obs_m_refl _) (same_obs_m_refl _) (same_obs_m_refl _) (same_obs_m_refl _) (same_obs_m_refl _) (same_obs_m_refl _)
                toy_readFloat64 toy_num toy_float_ok doc1 ltac:(vm_compute; discriminate)) as T.
  rewrite parse_ref_ex1 in T. exact T.
Qed.

Print Assumptions prun_ext_on.
Print Assumptions ReadValue_congr.
Print Assumptions ReadObject_congr.
Print Assumptions ReadArray_congr.
Print Assumptions read_value_tree_impl.
Print Assumptions read_object_tree_impl.
Print Assumptions read_array_tree_impl.
Print Assumptions read_value_offset_is_skip_impl.
Print Assumptions read_value_total_impl.
