(** Second part of the language-level theorems (continues SpecFacts.v):
    the plain-automaton number tail, SkipValueFast against SkipValue (C11), the handler
    machines with well-behaved handlers (C07), the string machines (C06). *)
From Coq Require Import List ZArith Bool Lia.
From Coq Require Import Strings.Byte.
From Rjson Require Import Base BaseFacts Helpers Machine MachineFacts Safety Api SpecMachines Ref SpecFacts.
Import ListNotations.
Local Open Scope Z_scope.

(** * The number tail in the contexts that use the plain automaton (CFTop, CHArr, CHObj) *)
Section Auto.
  Variable md : Z.
  Variable chk : bool.
  Variable start : sstate.
  Variable data : list byte.
  Variable h : handler.

  Notation ReachS := (Reach md chk start data h).
  Notation EndsS := (Ends md chk start data h).
  Notation AtS := (At data).

  Ltac chainO R := eapply Reach_Ends_fr; [exact R|reflexivity|].

  (** value tokens in a context without scanners and without end-of-token units *)
  Definition plainctx (c : ctx) : Prop := scans c = false /\ forall t, end_units c t = [].

  Lemma ns_step : forall c t b, plainctx c ->
    match tok_step t b with
    | TGo t' => strans chk (c, PTok t) b = ([], Some (c, PTok t'))
    | TEnd => strans chk (c, PTok t) b = ([], Some (c, after c))
    | TErr => strans chk (c, PTok t) b = fail c
    | TStop => strans chk (c, PTok t) b = strans chk (c, after c) b
    end.
  Proof.
    intros c t b [NS EU].
    destruct (tok_step t b) eqn:TS; unfold strans at 1; rewrite NS; cbn [andb]; rewrite TS; try reflexivity.
    - rewrite EU. reflexivity.
    - destruct c; reflexivity.
  Qed.

  Lemma ns_go : forall c t t' s b r, plainctx c -> AtS s (b :: r) -> tok_step t b = TGo t' ->
    ReachS (c, PTok t) s (c, PTok t') (adv s 1).
  Proof. intros c t t' s b r P H T. pose proof (ns_step c t b P) as G. rewrite T in G. eapply Reach_silent; eauto. Qed.
  Lemma ns_err : forall c t s b r, plainctx c -> AtS s (b :: r) -> tok_step t b = TErr ->
    EndsS (c, PTok t) s (ErrOf c s).
  Proof. intros c t s b r P H T. pose proof (ns_step c t b P) as G. rewrite T in G. eapply fail_step; eauto. Qed.
  Lemma ns_eof : forall c t s, tok_complete t = false -> AtS s [] -> EndsS (c, PTok t) s (ErrOf c s).
  Proof. intros c t s T H. apply fail_eof; auto. apply ptok_eof; auto. Qed.

  (** a complete number token hands the next byte (or the end of input) to the after-value position *)
  Lemma ns_stop : forall c t s l, plainctx c -> tok_complete t = true -> AtS s l ->
    match l with [] => True | b :: _ => tok_step t b = TStop end ->
    ReachS (c, PTok t) s (c, after c) s.
  Proof.
    intros c t s l P TC H C f F. exists f. split; auto.
    destruct l as [|b r].
    - rewrite !(cont_eof md chk start data h f _ s H). f_equal. cbn [seof]. rewrite TC. destruct c; reflexivity.
    - destruct f as [|f]; [rewrite (rem_cons data _ _ _ H) in F; lia|].
      rewrite !(cont_S md chk start data h f _ s b r H).
      pose proof (ns_step c t b P) as G. rewrite C in G. rewrite G. reflexivity.
  Qed.

  (** one or more digits: from [t0] (which wants a digit) into the digit loop of [tl] *)
  Lemma digits1 : forall c t0 tl s r, plainctx c -> tok_complete t0 = false -> AtS s r ->
    (forall b r', r = b :: r' -> tok_step t0 b = if is_digit b then TGo tl else TErr) ->
    (forall b, is_digit b = true -> tok_step tl b = TGo tl) ->
    if Nat.eqb (digits r) 0 then EndsS (c, PTok t0) s (ErrOf c s)
    else ReachS (c, PTok t0) s (c, PTok tl) (adv s (digits r)).
  Proof.
    intros c t0 tl s r P TC H S0 SL. destruct r as [|d r'].
    - cbn. apply ns_eof; auto.
    - unfold digits. cbn [count_while]. destruct (is_digit d) eqn:D; cbn [Nat.eqb].
      + assert (R1 : ReachS (c, PTok t0) s (c, PTok tl) (adv s 1)).
        { eapply ns_go; eauto. rewrite (S0 d r' eq_refl), D. reflexivity. }
        pose proof (At_adv1 data _ _ _ H) as H1.
        assert (L : ReachS (c, PTok tl) (adv s 1) (c, PTok tl) (adv (adv s 1) (count_while is_digit r'))).
        { apply (while_loop md chk start data h is_digit); [|exact H1].
          intros b Db. pose proof (ns_step c tl b P) as G. rewrite (SL b Db) in G. exact G. }
        rewrite adv_adv in L. eapply Reach_trans; eauto.
      + eapply ns_err; eauto. rewrite (S0 d r' eq_refl), D. reflexivity.
  Qed.

  (** the exponent part, from a complete state [t] that takes 'e' / 'E' to TExp0 and stops otherwise *)
  Lemma exp_auto : forall c t s l, plainctx c -> tok_complete t = true -> AtS s l ->
    (forall b r, l = b :: r -> tok_step t b = if is_exp b then TGo TExp0 else TStop) ->
    match exp_part l with
    | Some k => ReachS (c, PTok t) s (c, after c) (adv s k) /\ (k <= length l)%nat
    | None => EndsS (c, PTok t) s (ErrOf c s)
    end.
  Proof.
    intros c t s l P TC H TE. destruct l as [|b r].
    - cbn. rewrite adv_0. split; [|lia]. eapply ns_stop; eauto. exact I.
    - specialize (TE b r eq_refl). unfold exp_part. destruct (is_exp b) eqn:X.
      2:{ rewrite adv_0. split; [|lia]. eapply ns_stop; eauto. }
      pose proof (ns_go c t TExp0 s b r P H TE) as R1.
      pose proof (At_adv1 data _ _ _ H) as H1.
      assert (STOP : forall s' l', AtS s' l' -> match l' with b' :: _ => is_digit b' = false | [] => True end ->
                     ReachS (c, PTok TExp) s' (c, after c) s').
      { intros s' l' H' ND. eapply ns_stop; eauto. destruct l' as [|b' r']; [exact I|]. cbn. rewrite ND. reflexivity. }
      destruct r as [|s0 r1]; [chainO R1; apply ns_eof; auto|].
      destruct (is_sign s0) eqn:SG.
      + assert (R2 : ReachS (c, PTok TExp0) (adv s 1) (c, PTok TExpS) (adv s 2)).
        { replace (adv s 2) with (adv (adv s 1) 1) by (rewrite adv_adv; reflexivity). eapply ns_go; eauto. cbn. rewrite SG. reflexivity. }
        pose proof (At_adv1 data _ _ _ H1) as H2. rewrite adv_adv in H2.
        pose proof (digits1 c TExpS TExp _ r1 P eq_refl H2 (fun b r' _ => eq_refl)
                      ltac:(intros b0 Db; cbn; rewrite Db; reflexivity)) as DG.
        destruct (Nat.eqb (digits r1) 0) eqn:Z.
        * chainO R1. chainO R2. exact DG.
        * rewrite adv_adv in DG. pose proof (digits_le r1) as DL.
          pose proof (At_adv data _ r1 (digits r1) H2 DL) as H3. rewrite adv_adv in H3.
          split; [|cbn; lia].
          eapply Reach_trans; [exact R1|]. eapply Reach_trans; [exact R2|]. eapply Reach_trans; [exact DG|].
          replace (2 + digits r1)%nat with (1 + 1 + digits r1)%nat by lia.
          apply (STOP _ _ H3). destruct (skipn (digits r1) r1) eqn:K; [exact I|]. eapply while_next; exact K.
      + pose proof (digits1 c TExp0 TExp _ (s0 :: r1) P eq_refl H1
                      ltac:(intros b0 r' E; inversion E; subst; cbn [tok_step]; rewrite SG; reflexivity)
                      ltac:(intros b0 Db; cbn; rewrite Db; reflexivity)) as DG.
        destruct (Nat.eqb (digits (s0 :: r1)) 0) eqn:Z.
        * chainO R1. exact DG.
        * rewrite adv_adv in DG. pose proof (digits_le (s0 :: r1)) as DL.
          pose proof (At_adv data _ _ (digits (s0 :: r1)) H1 DL) as H3. rewrite adv_adv in H3.
          split; [|cbn [length] in *; lia].
          eapply Reach_trans; [exact R1|]. eapply Reach_trans; [exact DG|].
          apply (STOP _ _ H3). destruct (skipn (digits (s0 :: r1)) (s0 :: r1)) eqn:K; [exact I|]. eapply while_next; exact K.
  Qed.

  Lemma dot_not_digit : forall b, (bz b =? 46) = true -> is_digit b = false.
  Proof. intros b H. apply Z.eqb_eq in H. unfold is_digit. rewrite H. reflexivity. Qed.

  (** the tail of a number after its integer part, by the automaton *)
  Lemma auto_tail : forall c t s l, plainctx c -> in_intpart t = true -> AtS s l ->
    (t = TInt -> match l with b :: _ => is_digit b = false | [] => True end) ->
    match tail_ref l with
    | Some k => ReachS (c, PTok t) s (c, after c) (adv s k) /\ (k <= length l)%nat
    | None => EndsS (c, PTok t) s (ErrOf c s)
    end.
  Proof.
    intros c t s l P IT H ND.
    assert (TC : tok_complete t = true) by (destruct t; try discriminate; reflexivity).
    destruct l as [|b r].
    - cbn. rewrite adv_0. split; [|lia]. eapply ns_stop; eauto. exact I.
    - destruct (bz b =? 46) eqn:D.
      + (* fraction *)
        assert (TS : tok_step t b = TGo TFrac0).
        { destruct t; try discriminate; cbn; unfold is, ch_dot; rewrite D; [reflexivity|].
          rewrite (dot_not_digit b D). reflexivity. }
        pose proof (ns_go c t TFrac0 s b r P H TS) as R1.
        pose proof (At_adv1 data _ _ _ H) as H1.
        pose proof (digits1 c TFrac0 TFrac _ r P eq_refl H1 (fun b0 r' _ => eq_refl)
                      ltac:(intros b0 Db; cbn; rewrite Db; reflexivity)) as DG.
        unfold tail_ref, frac_part. change (isb 46 b) with (bz b =? 46). rewrite D.
        destruct (Nat.eqb (digits r) 0) eqn:Z.
        * chainO R1. exact DG.
        * rewrite adv_adv in DG. pose proof (digits_le r) as DL.
          pose proof (At_adv data _ r (digits r) H1 DL) as H2. rewrite adv_adv in H2.
          change (skipn (S (digits r)) (b :: r)) with (skipn (digits r) r).
          pose proof (exp_auto c TFrac _ (skipn (digits r) r) P eq_refl H2) as EA.
          assert (TE : forall b0 r0, skipn (digits r) r = b0 :: r0 -> tok_step TFrac b0 = if is_exp b0 then TGo TExp0 else TStop).
          { intros b0 r0 K. cbn. rewrite (while_next is_digit r b0 r0 K). reflexivity. }
          specialize (EA TE).
          destruct (exp_part (skipn (digits r) r)) as [e|].
          -- destruct EA as [EA K]. rewrite adv_adv in EA. rewrite skipn_length in K. split; [|cbn [length]; lia].
             replace (S (digits r) + e)%nat with (1 + digits r + e)%nat by lia.
             eapply Reach_trans; [exact R1|]. eapply Reach_trans; [exact DG|exact EA].
          -- chainO R1. chainO DG. exact EA.
      + assert (TR : tail_ref (b :: r) = exp_part (b :: r)).
        { unfold tail_ref, frac_part. change (isb 46 b) with (bz b =? 46). rewrite D. cbn [skipn].
          destruct (exp_part (b :: r)); reflexivity. }
        rewrite TR. apply exp_auto; auto.
        intros b0 r0 E. inversion E; subst b0 r0.
        destruct t; try discriminate; cbn; unfold is, ch_dot; rewrite D; [reflexivity|].
        rewrite (ND eq_refl). reflexivity.
  Qed.

  (** ** scalar tokens after their first byte, for any context whose number tail is known *)
  Definition NumTail (c : ctx) : Prop :=
    forall t s l, in_intpart t = true -> AtS s l -> s_err s = None ->
      (t = TInt -> match l with b :: _ => is_digit b = false | [] => True end) ->
      match tail_ref l with
      | Some k => ReachS (c, PTok t) s (c, after c) (adv s k) /\ (k <= length l)%nat
      | None => EndsS (c, PTok t) s (ErrAny s)
      end.

  Lemma NumTail_strict : forall c, strict c -> NumTail c.
  Proof. intros c SC t s l IT H E ND. apply int_tail; auto. Qed.
  Lemma NumTail_plain : forall c, plainctx c -> NumTail c.
  Proof.
    intros c P t s l IT H E ND. pose proof (auto_tail c t s l P IT H ND) as A.
    destruct (tail_ref l); [exact A|]. eapply Ends_Of_Any; eauto.
  Qed.

  Ltac chainA R := eapply Reach_Ends_any; [exact R|reflexivity|].

  Section Scalar.
    Variable c : ctx.
    Hypothesis EU : forall t, end_units c t = [].
    Hypothesis NT : NumTail c.

    Lemma sc_go : forall t b, pdom t = true ->
      match tok_step t b with
      | TGo t' => strans chk (c, PTok t) b = ([], Some (c, PTok t'))
      | TEnd => strans chk (c, PTok t) b = ([], Some (c, after c))
      | TErr => strans chk (c, PTok t) b = fail c
      | TStop => True
      end.
    Proof. intros t b D. apply ptok_go; [apply negb_true_iff; exact D|apply EU]. Qed.

    Lemma sc_int_loop : forall s r, AtS s r -> ReachS (c, PTok TInt) s (c, PTok TInt) (adv s (digits r)).
    Proof.
      intros s r H. apply (while_loop md chk start data h is_digit); [|exact H].
      intros b D. destruct (digit_not_dot_exp b D) as [N1 N2].
      unfold strans. unfold is, ch_dot. rewrite N1, N2, !andb_false_r. cbn [andb]. cbn [tok_step]. rewrite D. reflexivity.
    Qed.

    (** after the first digit [d]: the state is TZero for '0' and TInt otherwise *)
    Lemma unsigned_rest : forall d r s, is_digit d = true -> AtS s r -> s_err s = None ->
      match unsigned_tok (d :: r) with
      | Some n => exists m, n = S m /\ (m <= length r)%nat /\
                  ReachS (c, PTok (if bz d =? 48 then TZero else TInt)) s (c, after c) (adv s m)
      | None => EndsS (c, PTok (if bz d =? 48 then TZero else TInt)) s (ErrAny s)
      end.
    Proof.
      intros d r s D H E. rewrite unsigned_tail. unfold int_part. rewrite digit_split in D.
      change (isb 48 d) with (bz d =? 48). destruct (bz d =? 48) eqn:Z0.
      - cbn [skipn]. pose proof (NT TZero s r eq_refl H E ltac:(discriminate)) as T.
        destruct (tail_ref r) as [k|]; cbn [option_map]; [|exact T].
        destruct T as [T K]. exists k. auto.
      - cbn [orb] in D. rewrite D. cbn [skipn].
        pose proof (sc_int_loop s r H) as L.
        pose proof (At_adv data s r (digits r) H (digits_le r)) as H1.
        assert (ND : TInt = TInt -> match skipn (digits r) r with b :: _ => is_digit b = false | [] => True end).
        { intros _. destruct (skipn (digits r) r) as [|b r'] eqn:K; [exact I|]. eapply while_next. exact K. }
        pose proof (NT TInt _ _ eq_refl H1 E ND) as T.
        destruct (tail_ref (skipn (digits r) r)) as [k|]; cbn [option_map].
        + destruct T as [T K]. rewrite adv_adv in T. rewrite skipn_length in K. pose proof (digits_le r).
          exists (digits r + k)%nat. split; [reflexivity|]. split; [lia|]. eapply Reach_trans; eauto.
        + chainA L. exact T.
    Qed.

    Lemma scalar_rest : forall b r t s, tok_first b = Some t -> AtS s r -> s_err s = None ->
      match scalar_tok (b :: r) with
      | Some n => exists m, n = S m /\ (m <= length r)%nat /\ ReachS (c, PTok t) s (c, after c) (adv s m)
      | None => EndsS (c, PTok t) s (ErrAny s)
      end.
    Proof.
      intros b r t s TF H E. unfold scalar_tok.
      assert (TFQ : isb 34 b = true -> tok_first b = Some TStr).
      { intros Q. unfold tok_first. change (is ch_quote b) with (isb 34 b). rewrite Q. reflexivity. }
      destruct (isb 34 b) eqn:Q.
      { rewrite (TFQ eq_refl) in TF. inversion TF; subst t. unfold string_tok. rewrite Q.
        pose proof (string_run md chk start data h c (fun t => (c, PTok t)) (c, after c) pdom sc_go
                      (pdom_eof c) ltac:(repeat split; reflexivity) (length r) r s (le_n _) H) as T.
        destruct (string_body r) as [k|]; cbn [option_map].
        - destruct T as [T K]. exists k. auto.
        - eapply Ends_Of_Any; eauto. }
      assert (TFM : isb 45 b = true -> tok_first b = Some TNeg).
      { intros M. unfold tok_first. change (is ch_quote b) with (isb 34 b). change (is ch_minus b) with (isb 45 b).
        rewrite Q, M. reflexivity. }
      destruct (isb 45 b) eqn:M; cbn [orb].
      { rewrite (TFM eq_refl) in TF. inversion TF; subst t. unfold number_tok. rewrite M.
        destruct r as [|d r'].
        - cbn. apply (Ends_Of_Any md chk start data h c). apply fail_eof; [exact H|reflexivity].
        - assert (TN : tok_step TNeg d = if bz d =? 48 then TGo TZero else if r_is_digit19 d then TGo TInt else TErr) by reflexivity.
          pose proof (sc_go TNeg d eq_refl) as G. rewrite TN in G.
          pose proof (At_adv1 data _ _ _ H) as H1.
          destruct (is_digit d) eqn:D.
          + pose proof (unsigned_rest d r' (adv s 1) D H1 E) as U.
            assert (R1 : ReachS (c, PTok TNeg) s (c, PTok (if bz d =? 48 then TZero else TInt)) (adv s 1)).
            { eapply Reach_silent; [exact H|]. rewrite digit_split in D. destruct (bz d =? 48); [exact G|].
              cbn [orb] in D. rewrite D in G. exact G. }
            destruct (unsigned_tok (d :: r')) as [n|]; cbn [option_map].
            * destruct U as (m & -> & K & U). rewrite adv_adv in U. exists (S m). split; [reflexivity|].
              split; [cbn [length]; lia|]. eapply Reach_trans; eauto.
            * chainA R1. exact U.
          + assert (UN : unsigned_tok (d :: r') = None).
            { unfold unsigned_tok, int_part. rewrite digit_split in D. apply orb_false_iff in D. destruct D as [D1 D2].
              change (isb 48 d) with (bz d =? 48). rewrite D1, D2. reflexivity. }
            rewrite UN. cbn. apply (Ends_Of_Any md chk start data h c). eapply fail_step; [exact H|].
            rewrite digit_split in D. apply orb_false_iff in D. destruct D as [D1 D2]. rewrite D1, D2 in G. exact G. }
      destruct (is_digit b) eqn:D.
      { unfold number_tok. rewrite M.
        assert (TT : t = if bz b =? 48 then TZero else TInt).
        { unfold tok_first in TF. change (is ch_quote b) with (isb 34 b) in TF. change (is ch_minus b) with (isb 45 b) in TF.
          rewrite Q, M in TF. unfold is, ch_zero in TF. change (is_digit19 b) with (r_is_digit19 b) in TF.
          rewrite digit_split in D. destruct (bz b =? 48); [inversion TF; reflexivity|].
          cbn [orb] in D. rewrite D in TF. inversion TF; reflexivity. }
        subst t. apply unsigned_rest; auto. }
      assert (TFL : tok_first b = if isb 116 b then Some T_t else if isb 102 b then Some T_f else if isb 110 b then Some T_n else None).
      { unfold tok_first. change (is ch_quote b) with (isb 34 b). change (is ch_minus b) with (isb 45 b). rewrite Q, M.
        rewrite digit_split in D. apply orb_false_iff in D. destruct D as [D1 D2].
        unfold is, ch_zero. change (is_digit19 b) with (r_is_digit19 b). rewrite D1, D2. reflexivity. }
      assert (LIT : forall t0 w x, is_lit t0 = true -> t = t0 -> bz b = x -> map bz w = x :: lit_rest t0 ->
                match lit_ref w (b :: r) with
                | Some n => exists m, n = S m /\ (m <= length r)%nat /\ ReachS (c, PTok t) s (c, after c) (adv s m)
                | None => EndsS (c, PTok t) s (ErrAny s)
                end).
      { intros t0 w x IL TE BX MW. subst t0.
        unfold lit_ref. rewrite is_prefix_z, MW. cbn [zprefix]. rewrite BX, Z.eqb_refl. cbn [andb].
        pose proof (lit_ok md chk start data h c (fun t => (c, PTok t)) (c, after c) pdom sc_go (pdom_eof c)
                      lit_not_complete t IL s r H) as T.
        assert (LW : length w = S (length (lit_rest t))) by (rewrite <- (map_length bz w), MW; reflexivity).
        destruct (zprefix (lit_rest t) r) eqn:ZP.
        - exists (length (lit_rest t)). split; [exact LW|]. split; [apply zprefix_len; exact ZP|exact T].
        - eapply Ends_Of_Any; eauto. }
      rewrite TFL in TF.
      destruct (isb 116 b) eqn:L1.
      { inversion TF; subst t. apply (LIT T_t lit_true 116); auto. apply Z.eqb_eq. exact L1. }
      destruct (isb 102 b) eqn:L2.
      { inversion TF; subst t. apply (LIT T_f lit_false 102); auto. apply Z.eqb_eq. exact L2. }
      destruct (isb 110 b) eqn:L3.
      { inversion TF; subst t. apply (LIT T_n lit_null 110); auto. apply Z.eqb_eq. exact L3. }
      discriminate.
    Qed.
  End Scalar.
End Auto.

(** * SkipValueFast agrees with SkipValue on well-formed values (C11) *)

(** ** which bytes number and literal tokens are made of *)
Definition plainb (b : byte) : bool :=
  negb (isb 34 b) && negb (isb 91 b) && negb (isb 93 b) && negb (isb 123 b) && negb (isb 125 b).
Definition numchar (b : byte) : bool := is_digit b || is_sign b || isb 46 b || is_exp b.

Lemma numchar_plain : forall b, numchar b = true -> plainb b = true.
Proof.
  intro b. pose proof (forall_bytes (fun b => negb (numchar b) || plainb b) ltac:(vm_compute; reflexivity) b) as H.
  intros N. cbn beta in H. rewrite N in H. exact H.
Qed.
Lemma ws_plain : forall b, is_ws b = true -> plainb b = true.
Proof.
  intro b. pose proof (forall_bytes (fun b => negb (is_ws b) || plainb b) ltac:(vm_compute; reflexivity) b) as H.
  intros N. cbn beta in H. rewrite N in H. exact H.
Qed.
Lemma comma_plain : forall b, isb 44 b = true -> plainb b = true.
Proof. intros b H. apply Z.eqb_eq in H. unfold plainb, isb. rewrite H. reflexivity. Qed.
Lemma colon_plain : forall b, isb 58 b = true -> plainb b = true.
Proof. intros b H. apply Z.eqb_eq in H. unfold plainb, isb. rewrite H. reflexivity. Qed.

Lemma firstn_add : forall {A} a b (l : list A), firstn (a + b) l = firstn a l ++ firstn b (skipn a l).
Proof. intros A a. induction a as [|a IH]; intros b [|x l]; cbn; auto; [destruct b; reflexivity|]. rewrite IH. reflexivity. Qed.

Lemma cw_forall : forall f l, forallb f (firstn (count_while f l) l) = true.
Proof. intros f. induction l as [|x l IH]; cbn; auto. destruct (f x) eqn:E; cbn; auto. rewrite E. exact IH. Qed.

Lemma forallb_impl : forall (f g : byte -> bool) l, (forall b, f b = true -> g b = true) ->
  forallb f l = true -> forallb g l = true.
Proof. intros f g l I H. rewrite forallb_forall in *. auto. Qed.

Lemma digits_numchar : forall l, forallb numchar (firstn (digits l) l) = true.
Proof.
  intros l. eapply forallb_impl; [|apply cw_forall]. intros b D. unfold numchar. rewrite D. reflexivity.
Qed.

(** a piece of a number: its length fits and its bytes are number bytes *)
Definition piece (l : list byte) (n : nat) : Prop := (n <= length l)%nat /\ forallb numchar (firstn n l) = true.

Lemma piece_0 : forall l, piece l 0.
Proof. intros l. split; [lia|reflexivity]. Qed.
Lemma piece_cons : forall b r n, numchar b = true -> piece r n -> piece (b :: r) (S n).
Proof. intros b r n B [L F]. split; [cbn; lia|]. cbn. rewrite B. exact F. Qed.
Lemma piece_add : forall l a b, piece l a -> piece (skipn a l) b -> piece l (a + b).
Proof.
  intros l a b [LA FA] [LB FB]. rewrite skipn_length in LB. split; [lia|].
  rewrite firstn_add, forallb_app, FA, FB. reflexivity.
Qed.
Lemma piece_digits : forall l, piece l (digits l).
Proof. intros l. split; [apply digits_le|apply digits_numchar]. Qed.

Lemma int_part_piece : forall l i, int_part l = Some i -> piece l i.
Proof.
  intros [|d r] i H; [discriminate|]. unfold int_part in H.
  assert (ND : forall x : unit, isb 48 d = true \/ r_is_digit19 d = true -> numchar d = true).
  { intros _ X. unfold numchar. rewrite digit_split. change (isb 48 d) with (bz d =? 48) in X.
    destruct X as [-> | ->]; [reflexivity|]. rewrite orb_true_r. reflexivity. }
  destruct (isb 48 d) eqn:Z.
  - inversion H. apply piece_cons; [apply (ND tt); auto|apply piece_0].
  - destruct (r_is_digit19 d) eqn:D; [|discriminate]. inversion H. apply piece_cons; [apply (ND tt); auto|apply piece_digits].
Qed.
Lemma frac_part_piece : forall l f, frac_part l = Some f -> piece l f.
Proof.
  intros [|c r] f H; [inversion H; apply piece_0|]. unfold frac_part in H.
  destruct (isb 46 c) eqn:D; [|inversion H; apply piece_0].
  destruct (Nat.eqb (digits r) 0); [discriminate|]. inversion H.
  apply piece_cons; [unfold numchar; rewrite D, !orb_true_r; reflexivity|apply piece_digits].
Qed.
Lemma exp_part_piece : forall l e, exp_part l = Some e -> piece l e.
Proof.
  intros [|c r] e H; [inversion H; apply piece_0|]. unfold exp_part in H.
  destruct (is_exp c) eqn:X; [|inversion H; apply piece_0].
  assert (NC : numchar c = true) by (unfold numchar; rewrite X, !orb_true_r; reflexivity).
  destruct r as [|s r1]; [discriminate|].
  destruct (is_sign s) eqn:S.
  - destruct (Nat.eqb (digits r1) 0); [discriminate|]. inversion H.
    apply piece_cons; [exact NC|]. apply piece_cons; [unfold numchar; rewrite S, orb_true_r; reflexivity|apply piece_digits].
  - destruct (Nat.eqb (digits (s :: r1)) 0); [discriminate|]. inversion H.
    apply piece_cons; [exact NC|apply piece_digits].
Qed.
Lemma unsigned_tok_piece : forall l n, unsigned_tok l = Some n -> piece l n.
Proof.
  intros l n H. unfold unsigned_tok in H.
  destruct (int_part l) as [i|] eqn:I; [|discriminate].
  destruct (frac_part (skipn i l)) as [f|] eqn:F; [|discriminate].
  destruct (exp_part (skipn (i + f) l)) as [e|] eqn:E; [|discriminate]. inversion H.
  apply piece_add; [apply piece_add; [apply int_part_piece; auto|apply frac_part_piece; auto]|apply exp_part_piece; auto].
Qed.
Lemma number_tok_piece : forall l n, number_tok l = Some n -> piece l n.
Proof.
  intros [|c r] n H; [discriminate|]. unfold number_tok in H.
  destruct (isb 45 c) eqn:M; [|apply unsigned_tok_piece; exact H].
  destruct (unsigned_tok r) as [m|] eqn:U; [|discriminate]. inversion H.
  apply piece_cons; [|apply unsigned_tok_piece; exact U].
  unfold numchar, is_sign. change (isb 45 c) with (bz c =? 45) in M. rewrite M, !orb_true_r. reflexivity.
Qed.

Lemma is_prefix_firstn : forall w l, is_prefix w l = true -> firstn (length w) l = w /\ (length w <= length l)%nat.
Proof.
  induction w as [|x w IH]; intros [|y l] H; cbn in *; try discriminate; auto; [split; [reflexivity|lia]|].
  apply andb_true_iff in H. destruct H as [E H]. apply Z.eqb_eq in E.
  assert (y = x) by (rewrite <- (zb_bz y), <- (zb_bz x), E; reflexivity). subst y.
  destruct (IH l H) as [F L]. rewrite F. split; [reflexivity|lia].
Qed.

(** a scalar token that is not a string consists of plain bytes *)
Lemma scalar_plain : forall b r n, scalar_tok (b :: r) = Some n -> isb 34 b = false ->
  (n <= length (b :: r))%nat /\ forallb plainb (firstn n (b :: r)) = true.
Proof.
  intros b r n H Q. unfold scalar_tok in H. rewrite Q in H.
  assert (LIT : forall w, forallb plainb w = true -> lit_ref w (b :: r) = Some n ->
                (n <= length (b :: r))%nat /\ forallb plainb (firstn n (b :: r)) = true).
  { intros w PW L. unfold lit_ref in L. destruct (is_prefix w (b :: r)) eqn:P; [|discriminate]. inversion L.
    destruct (is_prefix_firstn _ _ P) as [F LL]. rewrite F. auto. }
  destruct (isb 45 b || is_digit b).
  - destruct (number_tok_piece _ _ H) as [L F]. split; [exact L|]. eapply forallb_impl; [apply numchar_plain|exact F].
  - destruct (isb 116 b); [apply (LIT lit_true); auto|].
    destruct (isb 102 b); [apply (LIT lit_false); auto|].
    destruct (isb 110 b); [apply (LIT lit_null); auto|discriminate].
Qed.

Lemma string_body_le : forall l k, string_body l = Some k -> (k <= length l)%nat.
Proof.
  assert (B : forall n l, (length l <= n)%nat -> forall k, string_body l = Some k -> (k <= length l)%nat).
  { induction n as [|n IH]; intros l L k E.
    - destruct l; [discriminate|cbn in L; lia].
    - destruct l as [|b r]; [discriminate|]. cbn [string_body] in E. cbn [length] in *.
      destruct (isb 34 b); [inversion E; lia|].
      destruct (isb 92 b).
      + destruct r as [|e r1]; [discriminate|].
        destruct (simple_escape e).
        * destruct (string_body r1) as [k1|] eqn:E1; [|discriminate]. inversion E. apply IH in E1; cbn [length] in *; lia.
        * destruct (isb 117 e); [|discriminate].
          destruct r1 as [|h1 [|h2 [|h3 [|h4 r2]]]]; try discriminate.
          destruct (r_is_hex h1 && r_is_hex h2 && r_is_hex h3 && r_is_hex h4); [|discriminate].
          destruct (string_body r2) as [k1|] eqn:E1; [|discriminate]. inversion E. apply IH in E1; cbn [length] in *; lia.
      + destruct (r_is_ctl b); [discriminate|].
        destruct (string_body r) as [k1|] eqn:E1; [|discriminate]. inversion E. apply IH in E1; lia. }
  intros l k E. exact (B (length l) l (le_n _) k E).
Qed.

Section Fast.
  Variable md : Z.
  Variable start : sstate.
  Variable data : list byte.
  Variable h : handler.

  Notation ReachS := (Reach md true start data h).
  Notation EndsS := (Ends md true start data h).
  Notation AtS := (At data).
  Notation InvS := (Inv md true).

  Definition fastb (fc : ctx) : Prop := fc = CFArr \/ fc = CFObj.
  Definition opener (fc : ctx) : Z := match fc with CFArr => 91 | _ => 123 end.

  Lemma body_step : forall fc b, fastb fc ->
    strans true (fc, PBody) b =
    if isb 34 b then ([], Some (fc, PTok TStr))
    else if isb (closer fc) b then ([URet], Some (fc, PDone))
    else if isb (opener fc) b then ([UCall true 0 (enc (fc, PBody)) (enc (fc, PBody))], Some (fc, PBody))
    else ([], Some (fc, PBody)).
  Proof. intros fc b [->| ->]; reflexivity. Qed.

  Lemma body_plain : forall fc b, fastb fc -> plainb b = true -> strans true (fc, PBody) b = ([], Some (fc, PBody)).
  Proof.
    intros fc b F P. rewrite (body_step fc b F). unfold plainb in P.
    repeat (apply andb_true_iff in P; destruct P as [P ?]).
    apply negb_true_iff in P. repeat match goal with H : negb _ = true |- _ => apply negb_true_iff in H end.
    rewrite P. destruct F as [->| ->]; unfold closer, opener, ch_rbrack, ch_rbrace;
      repeat match goal with H : isb _ b = false |- _ => rewrite H; clear H end; reflexivity.
  Qed.

  Definition plainf (fc : ctx) (b : byte) : bool :=
    negb (isb 34 b) && negb (isb (closer fc) b) && negb (isb (opener fc) b).
  Lemma body_plainf : forall fc b, fastb fc -> plainf fc b = true -> strans true (fc, PBody) b = ([], Some (fc, PBody)).
  Proof.
    intros fc b F P. rewrite (body_step fc b F). unfold plainf in P.
    apply andb_true_iff in P. destruct P as [P P3]. apply andb_true_iff in P. destruct P as [P1 P2].
    apply negb_true_iff in P1, P2, P3. rewrite P1, P2, P3. reflexivity.
  Qed.

  (** [Scans fc dd l n]: the fast body reads the first [n] bytes of [l] and is back between
      strings with the call stack it had, whatever stack of depth at most [dd] that was *)
  Definition Scans (fc : ctx) (dd : Z) (l : list byte) (n : nat) : Prop :=
    (n <= length l)%nat /\
    forall s sg, AtS s l -> InvS s sg -> len sg <= dd ->
      exists s', ReachS (fc, PBody) s (fc, PBody) s' /\ s_p s' = s_p s + Z.of_nat n /\ InvS s' sg /\ frame s' = frame s.

  Lemma Scans_0 : forall fc dd l, Scans fc dd l 0.
  Proof.
    intros fc dd l. split; [lia|]. intros s sg H I L. exists s. split; [apply Reach_refl|]. split; [lia|]. auto.
  Qed.

  Lemma Scans_add : forall fc dd l a b, Scans fc dd l a -> Scans fc dd (skipn a l) b -> Scans fc dd l (a + b).
  Proof.
    intros fc dd l a b [LA SA] [LB SB]. rewrite skipn_length in LB. split; [lia|].
    intros s sg H I L. destruct (SA s sg H I L) as (s1 & R1 & P1 & I1 & F1).
    pose proof (At_move data s s1 l a H P1 LA) as H1.
    destruct (SB s1 sg H1 I1 L) as (s2 & R2 & P2 & I2 & F2).
    exists s2. split; [eapply Reach_trans; eauto|]. split; [lia|]. split; [auto|congruence].
  Qed.

  Lemma Scans_mono : forall fc dd dd' l n, dd <= dd' -> Scans fc dd' l n -> Scans fc dd l n.
  Proof. intros fc dd dd' l n L [LN S]. split; [exact LN|]. intros s sg H I LS. apply S; auto. lia. Qed.

  Lemma Scans_plain : forall fc dd n l, fastb fc -> (n <= length l)%nat -> forallb plainb (firstn n l) = true ->
    Scans fc dd l n.
  Proof.
    intros fc dd n. induction n as [|n IH]; intros l F L P; [apply Scans_0|].
    destruct l as [|b r]; [cbn in L; lia|]. cbn in P. apply andb_true_iff in P. destruct P as [PB PR].
    change (S n) with (1 + n)%nat. apply Scans_add; [|cbn [skipn]; apply IH; [exact F|cbn [length] in L; lia|exact PR]].
    split; [cbn; lia|]. intros s sg H I LS. exists (adv s 1). split; [|split; [reflexivity|split; [apply Inv_adv; exact I|reflexivity]]].
    eapply Reach_silent; [exact H|apply body_plain; auto].
  Qed.

  Lemma Scans_ws : forall fc dd l, fastb fc -> Scans fc dd l (ws l).
  Proof.
    intros fc dd l F. apply Scans_plain; [exact F|apply ws_le|].
    eapply forallb_impl; [apply ws_plain|apply cw_forall].
  Qed.

  Lemma Scans_1 : forall fc dd b r, fastb fc -> plainb b = true -> Scans fc dd (b :: r) 1.
  Proof. intros fc dd b r F P. apply Scans_plain; [exact F|cbn; lia|cbn; rewrite P; reflexivity]. Qed.
  Lemma Scans_1f : forall fc dd b r, fastb fc -> plainf fc b = true -> Scans fc dd (b :: r) 1.
  Proof.
    intros fc dd b r F P. split; [cbn; lia|]. intros s sg H I LS. exists (adv s 1).
    split; [|split; [reflexivity|split; [apply Inv_adv; exact I|reflexivity]]].
    eapply Reach_silent; [exact H|apply body_plainf; auto].
  Qed.

  (** a string token *)
  Lemma string_scans : forall fc dd l n, fastb fc -> string_tok l = Some n -> Scans fc dd l n.
  Proof.
    intros fc dd l n F ST. unfold string_tok in ST. destruct l as [|b r]; [discriminate|].
    destruct (isb 34 b) eqn:Q; [|discriminate].
    destruct (string_body r) as [k|] eqn:SB; [|discriminate]. inversion ST; subst n.
    assert (G : forall s, AtS s r ->
              ReachS (fc, PTok TStr) s (fc, PBody) (adv s k) /\ (k <= length r)%nat).
    { intros s H.
      pose proof (string_run md true start data h fc (fun t => (fc, PTok t)) (fc, PBody) pdom) as SR.
      assert (AF : after fc = PBody) by (destruct F as [->| ->]; reflexivity).
      specialize (SR ltac:(intros t b0 D; rewrite <- AF; apply ptok_go; [apply negb_true_iff; exact D|destruct F as [->| ->]; reflexivity])
                     (pdom_eof fc) ltac:(repeat split; reflexivity) (length r) r s (le_n _) H).
      rewrite SB in SR. exact SR. }
    split.
    - cbn [length]. pose proof (string_body_le r k SB). lia.
    - intros s sg H I LS. pose proof (At_adv1 data _ _ _ H) as H1. destruct (G _ H1) as [R2 K].
      exists (adv s (S k)). split; [|split; [reflexivity|split; [apply Inv_adv; exact I|reflexivity]]].
      replace (adv s (S k)) with (adv (adv s 1) k) by (rewrite adv_adv; reflexivity).
      eapply Reach_trans; [|exact R2]. eapply Reach_silent; [exact H|]. rewrite (body_step fc b F), Q. reflexivity.
  Qed.

  Lemma scalar_scans : forall fc dd l n, fastb fc -> scalar_tok l = Some n -> Scans fc dd l n.
  Proof.
    intros fc dd l n F ST. destruct l as [|b r]; [discriminate|].
    destruct (isb 34 b) eqn:Q.
    - apply string_scans; auto. unfold scalar_tok in ST. rewrite Q in ST. exact ST.
    - destruct (scalar_plain b r n ST Q) as [L P]. apply Scans_plain; auto.
  Qed.

  Definition BodyOK (fc : ctx) (item : list byte -> option nat) (dd : Z) : Prop :=
    forall l n, item l = Some n -> Scans fc dd l n.

  (** items: everything up to the closing byte is scanned; the closing byte is found there *)
  Lemma items_scans : forall fc dd item close, fastb fc -> BodyOK fc item dd ->
    forall k l n, items k item close l = Some n ->
    exists m cb rest, n = S m /\ Scans fc dd l m /\ skipn m l = cb :: rest /\ isb close cb = true.
  Proof.
    intros fc dd item close F IO. induction k as [|k IH]; intros l n E; [discriminate|].
    cbn [items] in E. destruct (item l) as [n1|] eqn:I1; [|discriminate].
    pose proof (IO l n1 I1) as S1.
    set (l1 := skipn n1 l) in *. set (w := ws l1) in *.
    assert (S2 : Scans fc dd l (n1 + w)) by (apply Scans_add; [exact S1|apply Scans_ws; exact F]).
    destruct (skipn w l1) as [|c0 r1] eqn:K; [discriminate|].
    assert (K' : skipn (n1 + w) l = c0 :: r1).
    { rewrite Nat.add_comm, <- skipn_skipn. exact K. }
    destruct (isb 44 c0) eqn:CM.
    - set (w1 := ws r1) in *.
      destruct (items k item close (skipn w1 r1)) as [n2|] eqn:I2; [|discriminate].
      cbn [option_map] in E. inversion E; subst n.
      destruct (IH _ _ I2) as (m2 & cb & rest & -> & S4 & K4 & CB).
      assert (SK : skipn (n1 + w + 1 + w1) l = skipn w1 r1).
      { replace (n1 + w + 1 + w1)%nat with (w1 + (1 + (n1 + w)))%nat by lia.
        rewrite <- (skipn_skipn w1 (1 + (n1 + w))), <- (skipn_skipn 1 (n1 + w)), K'. reflexivity. }
      exists (n1 + w + 1 + w1 + m2)%nat, cb, rest. split; [lia|]. split; [|split; [|exact CB]].
      + apply Scans_add; [|rewrite SK; exact S4].
        apply Scans_add; [|replace (skipn (n1 + w + 1) l) with r1; [apply Scans_ws; exact F|]].
        * apply Scans_add; [exact S2|]. rewrite K'. apply Scans_1; [exact F|apply comma_plain; exact CM].
        * replace (n1 + w + 1)%nat with (1 + (n1 + w))%nat by lia. rewrite <- skipn_skipn, K'. reflexivity.
      + replace (n1 + w + 1 + w1 + m2)%nat with (m2 + (n1 + w + 1 + w1))%nat by lia.
        rewrite <- skipn_skipn, SK. exact K4.
    - destruct (isb close c0) eqn:CL; [|discriminate]. inversion E; subst n.
      exists (n1 + w)%nat, c0, r1. split; [lia|]. auto.
  Qed.

  Lemma container_scans : forall fc dd item close f, fastb fc -> BodyOK fc item dd ->
    forall r n, container f item close r = Some n ->
    exists m cb rest, n = S m /\ Scans fc dd r m /\ skipn m r = cb :: rest /\ isb close cb = true.
  Proof.
    intros fc dd item close f F IO r n E. unfold container in E. set (w := ws r) in *.
    destruct (skipn w r) as [|c0 r1] eqn:K; [discriminate|].
    destruct (isb close c0) eqn:CL.
    - inversion E; subst n. exists w, c0, r1. split; [lia|]. split; [apply Scans_ws; exact F|]. auto.
    - destruct (items f item close (c0 :: r1)) as [n2|] eqn:I2; [|discriminate]. inversion E; subst n.
      destruct (items_scans fc dd item close F IO _ _ _ I2) as (m2 & cb & rest & -> & S2 & K2 & CB).
      exists (w + m2)%nat, cb, rest. split; [lia|]. split; [|split; [|exact CB]].
      + apply Scans_add; [apply Scans_ws; exact F|rewrite K; exact S2].
      + rewrite Nat.add_comm, <- skipn_skipn, K. exact K2.
  Qed.

  Lemma member_scans : forall fc dd val, fastb fc -> BodyOK fc val dd -> BodyOK fc (member val) dd.
  Proof.
    intros fc dd val F VO l n E. unfold member in E.
    destruct (string_tok l) as [k|] eqn:ST; [|discriminate].
    pose proof (string_scans fc dd l k F ST) as S1.
    set (l1 := skipn k l) in *. set (w := ws l1) in *.
    destruct (skipn w l1) as [|c0 r1] eqn:K; [discriminate|].
    destruct (isb 58 c0) eqn:CO; [|discriminate].
    set (w1 := ws r1) in *.
    destruct (val (skipn w1 r1)) as [n2|] eqn:V; [|discriminate]. inversion E; subst n.
    assert (K' : skipn (k + w) l = c0 :: r1) by (rewrite Nat.add_comm, <- skipn_skipn; exact K).
    assert (SK : skipn (k + w + 1 + w1) l = skipn w1 r1).
    { replace (k + w + 1 + w1)%nat with (w1 + (1 + (k + w)))%nat by lia.
      rewrite <- (skipn_skipn w1 (1 + (k + w))), <- (skipn_skipn 1 (k + w)), K'. reflexivity. }
    apply Scans_add; [|rewrite SK; apply VO; exact V].
    apply Scans_add; [|replace (skipn (k + w + 1) l) with r1; [apply Scans_ws; exact F|]].
    - apply Scans_add; [apply Scans_add; [exact S1|apply Scans_ws; exact F]|].
      rewrite K'. apply Scans_1; [exact F|apply colon_plain; exact CO].
    - replace (k + w + 1)%nat with (1 + (k + w))%nat by lia. rewrite <- skipn_skipn, K'. reflexivity.
  Qed.

  (** a bracketed value inside a fast body: its own kind of bracket is a call and a return,
      the other kind is two plain bytes *)
  Lemma nested_scans : forall fc d b r m cb rest ob close, fastb fc ->
    ((ob = 91 /\ close = 93) \/ (ob = 123 /\ close = 125)) ->
    isb ob b = true -> (md <=? d) = false ->
    Scans fc (d + 1) r m -> skipn m r = cb :: rest -> isb close cb = true ->
    Scans fc d (b :: r) (S (S m)).
  Proof.
    intros fc d b r m cb rest ob close F OC OB LIM [LM SM] K CB.
    assert (LR : (m < length r)%nat).
    { assert (LK : length (skipn m r) = length (cb :: rest)) by (rewrite K; reflexivity).
      rewrite skipn_length in LK. cbn in LK. lia. }
    assert (OWN : (ob = opener fc /\ close = closer fc) \/ (plainf fc b = true /\ plainf fc cb = true)).
    { apply Z.eqb_eq in OB, CB. unfold plainf, isb.
      destruct F as [->| ->]; destruct OC as [[-> ->]|[-> ->]]; cbn [opener closer ch_rbrack ch_rbrace];
        try (left; split; reflexivity); right; rewrite OB, CB; split; reflexivity. }
    destruct OWN as [[-> ->]|[PB PC]].
    - (* own bracket: call, body, return *)
      split; [cbn [length]; lia|]. intros s sg H I LS.
      assert (NQ : isb 34 b = false /\ isb (closer fc) b = false).
      { apply Z.eqb_eq in OB. unfold isb. rewrite OB. destruct F as [->| ->]; split; reflexivity. }
      destruct NQ as [NQ NC].
      assert (T : strans true (fc, PBody) b = ([UCall true 0 (enc (fc, PBody)) (enc (fc, PBody))], Some (fc, PBody))).
      { rewrite (body_step fc b F), NQ, NC, OB. reflexivity. }
      pose proof (call_step md true start data h _ _ (fc, PBody) (fc, PBody) s sg b r H T I) as CS.
      assert (LE : (md <=? len sg) = false) by (apply Z.leb_gt; apply Z.leb_gt in LIM; lia).
      rewrite LE in CS. cbn [andb] in CS. destruct CS as (s1 & R1 & P1 & I1 & F1).
      assert (H1 : AtS s1 r) by (apply (At_move data s s1 (b :: r) 1 H P1); cbn; lia).
      destruct (SM s1 _ H1 I1 ltac:(rewrite len_cons; lia)) as (s2 & R2 & P2 & I2 & F2).
      pose proof (At_move data s1 s2 r m H1 P2 LM) as H2. rewrite K in H2.
      assert (T2 : strans true (fc, PBody) cb = ([URet], Some (fc, PDone))).
      { rewrite (body_step fc cb F), CB.
        assert (Q2 : isb 34 cb = false) by (apply Z.eqb_eq in CB; unfold isb; rewrite CB; destruct F as [->| ->]; reflexivity).
        rewrite Q2. reflexivity. }
      destruct (ret_step md true start data h _ _ (fc, PBody) s2 sg cb rest H2 T2 I2) as (s3 & R3 & P3 & I3 & F3).
      exists s3. split; [eapply Reach_trans; [exact R1|]; eapply Reach_trans; [exact R2|exact R3]|].
      split; [lia|]. split; [exact I3|congruence].
    - (* the other kind: plain bytes *)
      replace (S (S m)) with (1 + (m + 1))%nat by lia.
      apply Scans_add; [apply Scans_1f; auto|]. cbn [skipn].
      apply Scans_add; [apply (Scans_mono fc d (d + 1)); [lia|split; auto]|].
      rewrite K. apply Scans_1f; auto.
  Qed.

  Theorem value_scans : forall fc, fastb fc -> forall k d l n, value_len md k d l = Some n -> Scans fc d l n.
  Proof.
    intros fc F. induction k as [|k IH]; intros d l n E; [discriminate|].
    cbn [value_len] in E. destruct l as [|b r]; [discriminate|].
    destruct (isb 91 b) eqn:A.
    - destruct (md <=? d) eqn:LIM; [discriminate|].
      destruct (container k (value_len md k (d + 1)) 93 r) as [m|] eqn:C; [|discriminate]. inversion E; subst n.
      destruct (container_scans fc (d + 1) _ 93 k F (fun l n => IH (d + 1) l n) r m C) as (m' & cb & rest & -> & S1 & K & CB).
      eapply (nested_scans fc d b r m' cb rest 91 93); eauto.
    - destruct (isb 123 b) eqn:O.
      + destruct (md <=? d) eqn:LIM; [discriminate|].
        destruct (container k (member (value_len md k (d + 1))) 125 r) as [m|] eqn:C; [|discriminate]. inversion E; subst n.
        destruct (container_scans fc (d + 1) _ 125 k F (member_scans fc (d + 1) _ F (fun l n => IH (d + 1) l n)) r m C)
          as (m' & cb & rest & -> & S1 & K & CB).
        eapply (nested_scans fc d b r m' cb rest 123 125); eauto.
      + apply scalar_scans; auto.
  Qed.
End Fast.

Lemma tok_first_none : forall b r, tok_first b = None -> scalar_tok (b :: r) = None.
Proof.
  intros b r H. unfold tok_first in H. unfold scalar_tok.
  change (is ch_quote b) with (isb 34 b) in H. change (is ch_minus b) with (isb 45 b) in H.
  unfold is, ch_zero in H. change (is_digit19 b) with (r_is_digit19 b) in H.
  change (bz b =? 116) with (isb 116 b) in H. change (bz b =? 102) with (isb 102 b) in H. change (bz b =? 110) with (isb 110 b) in H.
  rewrite digit_split.
  destruct (isb 34 b); [discriminate|]. destruct (isb 45 b); [discriminate|].
  destruct (bz b =? 48); [discriminate|]. destruct (r_is_digit19 b); [discriminate|]. cbn [orb].
  destruct (isb 116 b); [discriminate|]. destruct (isb 102 b); [discriminate|]. destruct (isb 110 b); [discriminate|reflexivity].
Qed.

(** SkipValueFast's specification machine: wherever the reference (hence SkipValue) finds a value,
    it succeeds with the same offset (C11), for any depth limit, handler, stack and destination *)
Theorem fast_agrees_md : forall md data h stack dst n, 0 <= md -> skip_ref_md md data = Some n ->
  exists s, prun md skipfast_spec data h stack dst = ODone n None s.
Proof.
  intros md data h stack dst n MD SR. set (q0 := (CFTop, PStart)). set (s0 := init_st stack dst).
  pose proof (At_init data stack dst) as H0. fold s0 in H0.
  assert (R0 : Reach md true q0 data h q0 s0 q0 (adv s0 (ws data))).
  { apply ws_loop; auto. intros b W. cbn. rewrite W. reflexivity. }
  pose proof (At_adv data s0 data (ws data) H0 (ws_le data)) as H1.
  assert (I1 : Inv md true (adv s0 (ws data)) []).
  { unfold Inv. cbn. unfold len. cbn. repeat split; auto; lia. }
  unfold skip_ref_md in SR. set (w := ws data) in *.
  destruct (value_len md (length data + 2) 0 (skipn w data)) as [n'|] eqn:VL; [|discriminate].
  cbn [option_map] in SR. inversion SR; subst n. clear SR.
  assert (FIN : forall s' l', At data s' l' -> s_err s' = None -> s_p s' = Z.of_nat (w + n') ->
                Reach md true q0 data h q0 (adv s0 w) (CFTop, PDone) s' ->
                exists s, prun md skipfast_spec data h stack dst = ODone (Z.of_nat (w + n')) None s).
  { intros s' l' H' E' P' R'.
    assert (E : Ends md true q0 data h q0 s0 (fun o => o = ODone (s_p s') (s_err s') s')).
    { eapply Reach_Ends; [exact R0|]. eapply Reach_Ends; [exact R'|]. eapply done_ends. exact H'. }
    apply (Ends_prun md true q0 data h stack dst) in E. exists s'. rewrite <- P', <- E'. exact E. }
  replace (length data + 2)%nat with (S (length data + 1)) in VL by lia. cbn [value_len] in VL.
  destruct (skipn w data) as [|b r] eqn:L; [discriminate|].
  pose proof (ws_next _ _ _ L) as NW.
  assert (VS : strans true q0 b = value_start true CFTop b) by (cbn; rewrite NW; reflexivity).
  (* containers *)
  assert (NEST : forall fc item ob close m, fastb fc -> ((ob = 91 /\ close = 93) \/ (ob = 123 /\ close = 125)) ->
             ob = opener fc -> close = closer fc ->
             strans true q0 b = ([UCall true 0 (enc (CFTop, PDone)) (enc (fc, PBody))], Some (CFTop, PDone)) ->
             BodyOK md q0 data h fc item 1 ->
             (md <=? 0) = false -> container (length data + 1) item close r = Some m -> n' = S m ->
             exists s, prun md skipfast_spec data h stack dst = ODone (Z.of_nat (w + n')) None s).
  { intros fc item ob close m F OC OO CC T IO LIM C EN.
    destruct (container_scans md q0 data h fc 1 item close _ F IO r m C) as (m' & cb & rest & -> & [LM SM] & K & CB).
    pose proof (call_step md true q0 data h q0 _ (CFTop, PDone) (fc, PBody) (adv s0 w) [] b r H1 T I1) as CS.
    change (len (@nil Z)) with 0 in CS. rewrite LIM in CS. cbn [andb] in CS.
    destruct CS as (s1 & R1 & P1 & IV1 & F1).
    assert (HH1 : At data s1 r) by (apply (At_move data _ s1 (b :: r) 1 H1 P1); cbn; lia).
    destruct (SM s1 _ HH1 IV1 ltac:(rewrite len_cons; change (len (@nil Z)) with 0; lia)) as (s2 & R2 & P2 & IV2 & F2).
    pose proof (At_move data s1 s2 r m' HH1 P2 LM) as HH2. rewrite K in HH2.
    assert (T2 : strans true (fc, PBody) cb = ([URet], Some (fc, PDone))).
    { rewrite (body_step fc cb F). subst close. rewrite CB.
      assert (Q2 : isb 34 cb = false) by (apply Z.eqb_eq in CB; unfold isb; rewrite CB; destruct F as [->| ->]; reflexivity).
      rewrite Q2. reflexivity. }
    destruct (ret_step md true q0 data h _ _ (CFTop, PDone) s2 [] cb rest HH2 T2 IV2) as (s3 & R3 & P3 & IV3 & F3).
    apply (FIN s3 rest).
    - apply (At_move data s2 s3 (cb :: rest) 1 HH2 P3). cbn. lia.
    - eapply Inv_err; eauto.
    - rewrite P3, P2, P1, s_p_adv. cbn [s_p s0 init_st]. subst n'. lia.
    - eapply Reach_trans; [exact R1|]. eapply Reach_trans; [exact R2|exact R3]. }
  destruct (isb 91 b) eqn:A.
  { destruct (md <=? 0) eqn:LIM; [discriminate|].
    destruct (container (length data + 1) (value_len md (length data + 1) (0 + 1)) 93 r) as [m|] eqn:C; [|discriminate].
    assert (EN : n' = S m) by (inversion VL; reflexivity). eapply (NEST CFArr _ 91 93 m); eauto; try (left; reflexivity).
    - rewrite VS. unfold value_start. change (is ch_lbrack b) with (isb 91 b). rewrite A. reflexivity.
    - intros l0 n0 E0. eapply value_scans; eauto. left; reflexivity. }
  destruct (isb 123 b) eqn:O.
  { destruct (md <=? 0) eqn:LIM; [discriminate|].
    destruct (container (length data + 1) (member (value_len md (length data + 1) (0 + 1))) 125 r) as [m|] eqn:C; [|discriminate].
    assert (EN : n' = S m) by (inversion VL; reflexivity). eapply (NEST CFObj _ 123 125 m); eauto; try (right; reflexivity).
    - rewrite VS. unfold value_start. change (is ch_lbrack b) with (isb 91 b). change (is ch_lbrace b) with (isb 123 b).
      rewrite A, O. reflexivity.
    - apply member_scans; [right; reflexivity|]. intros l0 n0 E0. eapply value_scans; eauto. right; reflexivity. }
  (* scalars *)
  destruct (tok_first b) as [t|] eqn:TF; [|rewrite (tok_first_none b r TF) in VL; discriminate].
  assert (R1 : Reach md true q0 data h q0 (adv s0 w) (CFTop, PTok t) (adv (adv s0 w) 1)).
  { eapply Reach_silent; [exact H1|]. rewrite VS. unfold value_start.
    change (is ch_lbrack b) with (isb 91 b). change (is ch_lbrace b) with (isb 123 b). rewrite A, O, TF. reflexivity. }
  pose proof (At_adv1 data _ _ _ H1) as H2.
  assert (PC : plainctx CFTop) by (split; [reflexivity|intros t0; reflexivity]).
  pose proof (scalar_rest md true q0 data h CFTop (fun t0 => eq_refl) (NumTail_plain md true q0 data h CFTop PC)
                b r t _ TF H2 eq_refl) as SRr.
  rewrite VL in SRr. destruct SRr as (m & -> & LM & R2).
  apply (FIN (adv (adv (adv s0 w) 1) m) (skipn m r)).
  - apply At_adv; auto.
  - reflexivity.
  - rewrite !s_p_adv. cbn [s_p s0 init_st]. lia.
  - eapply Reach_trans; [exact R1|exact R2].
Qed.

Theorem fast_agrees_spec : forall data stack n, skip_ref data = Some n ->
  exists s, prun 10000 skipfast_spec data no_handler stack [] = ODone n None s.
Proof. intros data stack n H. apply fast_agrees_md; [lia|exact H]. Qed.

(** the public wrappers: SkipValueFast returns what SkipValue returns whenever that succeeds *)
Theorem SkipValueFast_agrees : forall data b b' n,
  fst (SkipValue 10000 skip_spec data b) = inl (n, None) ->
  fst (SkipValueFast 10000 skipfast_spec data b') = inl (n, None).
Proof.
  intros data b b' n H. pose proof (SkipValue_spec_correct data b) as S.
  destruct (skip_ref data) as [m|] eqn:R.
  - rewrite S in H. inversion H; subst m.
    destruct (fast_agrees_spec data (buf_stack b') n R) as (s & E).
    unfold SkipValueFast, skipValueFast_m. cbn [fst]. rewrite prun_c_eq, E. reflexivity.
  - destruct S as (p & e & S). rewrite S in H. discriminate.
Qed.

(** ["]"]  inside an array inside an object: brackets in strings do not count *)
Definition ex_fast : list byte := [x7b; x22; x61; x22; x3a; x5b; x22; x5d; x22; x2c; x7b; x7d; x5d; x7d; x2c].
Example fast_agrees_ex :
  skip_ref ex_fast = Some 14 /\ exists s, prun 10000 skipfast_spec ex_fast no_handler [] [] = ODone 14 None s.
Proof. split; [vm_compute; reflexivity|eexists; vm_compute; reflexivity]. Qed.
Print Assumptions fast_agrees_spec.
Print Assumptions SkipValueFast_agrees.

(** * The handler machines with well-behaved handlers (C07) *)

(** ** pure facts about the reference functions *)

(** the last byte of a string body is the closing quote *)
Lemma string_body_last : forall l k, string_body l = Some k ->
  exists k' q rest, k = S k' /\ skipn k' l = q :: rest /\ isb 34 q = true.
Proof.
  assert (B : forall n l, (length l <= n)%nat -> forall k, string_body l = Some k ->
              exists k' q rest, k = S k' /\ skipn k' l = q :: rest /\ isb 34 q = true).
  { induction n as [|n IH]; intros l L k E.
    - destruct l; [discriminate|cbn in L; lia].
    - destruct l as [|b r]; [discriminate|]. cbn [string_body] in E. cbn [length] in *.
      destruct (isb 34 b) eqn:Q; [inversion E; exists 0%nat, b, r; auto|].
      destruct (isb 92 b).
      + destruct r as [|e r1]; [discriminate|].
        destruct (simple_escape e).
        * destruct (string_body r1) as [k1|] eqn:E1; [|discriminate]. inversion E.
          destruct (IH r1 ltac:(cbn [length] in *; lia) _ E1) as (k' & q & rest & -> & K & QQ).
          exists (2 + k')%nat, q, rest. auto.
        * destruct (isb 117 e); [|discriminate].
          destruct r1 as [|h1 [|h2 [|h3 [|h4 r2]]]]; try discriminate.
          destruct (r_is_hex h1 && r_is_hex h2 && r_is_hex h3 && r_is_hex h4); [|discriminate].
          destruct (string_body r2) as [k1|] eqn:E1; [|discriminate]. inversion E.
          destruct (IH r2 ltac:(cbn [length] in *; lia) _ E1) as (k' & q & rest & -> & K & QQ).
          exists (6 + k')%nat, q, rest. auto.
      + destruct (r_is_ctl b); [discriminate|].
        destruct (string_body r) as [k1|] eqn:E1; [|discriminate]. inversion E.
        destruct (IH r ltac:(lia) _ E1) as (k' & q & rest & -> & K & QQ).
        exists (1 + k')%nat, q, rest. auto. }
  intros l k E. exact (B (length l) l (le_n _) k E).
Qed.

(** the last byte of a container is its closing bracket *)
Lemma items_last : forall item close k l n, items k item close l = Some n ->
  exists m cb rest, n = S m /\ skipn m l = cb :: rest /\ isb close cb = true.
Proof.
  intros item close. induction k as [|k IH]; intros l n E; [discriminate|].
  cbn [items] in E. destruct (item l) as [n1|]; [|discriminate].
  set (l1 := skipn n1 l) in *. set (w := ws l1) in *.
  destruct (skipn w l1) as [|c0 r1] eqn:K; [discriminate|].
  assert (K' : skipn (n1 + w) l = c0 :: r1) by (rewrite Nat.add_comm, <- skipn_skipn; exact K).
  destruct (isb 44 c0).
  - set (w1 := ws r1) in *. destruct (items k item close (skipn w1 r1)) as [n2|] eqn:I2; [|discriminate].
    inversion E. destruct (IH _ _ I2) as (m2 & cb & rest & -> & K4 & CB).
    exists (n1 + w + 1 + w1 + m2)%nat, cb, rest. split; [lia|]. split; [|exact CB].
    replace (n1 + w + 1 + w1 + m2)%nat with (m2 + (w1 + (1 + (n1 + w))))%nat by lia.
    rewrite <- (skipn_skipn m2), <- (skipn_skipn w1), <- (skipn_skipn 1 (n1 + w)), K'. exact K4.
  - destruct (isb close c0) eqn:CL; [|discriminate]. inversion E. exists (n1 + w)%nat, c0, r1. split; [lia|]. auto.
Qed.

Lemma container_last : forall f item close r n, container f item close r = Some n ->
  exists m cb rest, n = S m /\ skipn m r = cb :: rest /\ isb close cb = true.
Proof.
  intros f item close r n E. unfold container in E. set (w := ws r) in *.
  destruct (skipn w r) as [|c0 r1] eqn:K; [discriminate|].
  destruct (isb close c0) eqn:CL.
  - inversion E. exists w, c0, r1. split; [lia|]. auto.
  - destruct (items f item close (c0 :: r1)) as [n2|] eqn:I2; [|discriminate]. inversion E.
    destruct (items_last _ _ _ _ _ I2) as (m2 & cb & rest & -> & K2 & CB).
    exists (w + m2)%nat, cb, rest. split; [lia|]. split; [|exact CB].
    rewrite Nat.add_comm, <- skipn_skipn, K. exact K2.
Qed.

(** a value found under some depth limit is found, with the same length, under any limit that
    cannot be reached, and with any sufficient fuel *)
Lemma items_ext : forall (item item' : list byte -> option nat) close k l n, items k item close l = Some n ->
  (forall l' n', (length l' <= length l)%nat -> item l' = Some n' -> item' l' = Some n') ->
  forall k', (length l < k')%nat -> items k' item' close l = Some n.
Proof.
  intros item item' close. induction k as [|k IH]; intros l n E X k' LK; [discriminate|].
  destruct k' as [|k']; [lia|]. cbn [items] in *.
  destruct (item l) as [n1|] eqn:I1; [|discriminate]. rewrite (X l n1 (le_n _) I1).
  set (l1 := skipn n1 l) in *. set (w := ws l1) in *.
  assert (LL : (length (skipn w l1) <= length l)%nat) by (unfold l1; rewrite !skipn_length; lia).
  destruct (skipn w l1) as [|c0 r1] eqn:K; [discriminate|]. cbn [length] in LL.
  destruct (isb 44 c0); [|exact E].
  set (w1 := ws r1) in *.
  assert (L2 : (length (skipn w1 r1) <= length r1)%nat) by (rewrite skipn_length; lia).
  destruct (items k item close (skipn w1 r1)) as [n2|] eqn:I2; [|discriminate].
  rewrite (IH _ _ I2 ltac:(intros l' n' L' E'; apply X; [lia|exact E']) k' ltac:(lia)). exact E.
Qed.

Lemma container_ext : forall (item item' : list byte -> option nat) close k r n, container k item close r = Some n ->
  (forall l' n', (length l' <= length r)%nat -> item l' = Some n' -> item' l' = Some n') ->
  forall k', (length r < k')%nat -> container k' item' close r = Some n.
Proof.
  intros item item' close k r n E X k' LK. unfold container in *. set (w := ws r) in *.
  assert (LL : (length (skipn w r) <= length r)%nat) by (rewrite skipn_length; lia).
  destruct (skipn w r) as [|c0 r1] eqn:K; [discriminate|].
  destruct (isb close c0); [exact E|].
  destruct (items k item close (c0 :: r1)) as [n2|] eqn:I2; [|discriminate].
  rewrite (items_ext item item' close k _ _ I2 ltac:(intros l' n' L' E'; apply X; [lia|exact E']) k' ltac:(lia)). exact E.
Qed.

Lemma member_ext : forall (val val' : list byte -> option nat) l n, member val l = Some n ->
  (forall l' n', (length l' <= length l)%nat -> val l' = Some n' -> val' l' = Some n') ->
  member val' l = Some n.
Proof.
  intros val val' l n E X. unfold member in *. destruct (string_tok l) as [k|]; [|discriminate].
  set (l1 := skipn k l) in *. set (w := ws l1) in *.
  assert (LL : (length (skipn w l1) <= length l)%nat) by (unfold l1; rewrite !skipn_length; lia).
  destruct (skipn w l1) as [|c0 r1] eqn:K; [discriminate|]. cbn [length] in LL.
  destruct (isb 58 c0); [|discriminate].
  set (w1 := ws r1) in *.
  destruct (val (skipn w1 r1)) as [n2|] eqn:V; [|discriminate].
  rewrite (X (skipn w1 r1) n2 ltac:(rewrite skipn_length; lia) V). exact E.
Qed.

Lemma value_len_unb : forall k md d l n, value_len md k d l = Some n ->
  forall k' md' d', (length l < k')%nat -> d' + len l <= md' -> value_len md' k' d' l = Some n.
Proof.
  induction k as [|k IH]; intros md d l n E k' md' d' LK LM; [discriminate|].
  destruct k' as [|k']; [lia|]. cbn [value_len] in *. destruct l as [|b r]; [discriminate|].
  rewrite len_cons in LM. pose proof (len_nonneg r) as RN. cbn [length] in LK.
  assert (NL : (md' <=? d') = false) by (apply Z.leb_gt; lia).
  assert (SUB : forall l' n', (length l' <= length r)%nat -> value_len md k (d + 1) l' = Some n' ->
                value_len md' k' (d' + 1) l' = Some n').
  { intros l' n' L' E'. eapply IH; [exact E'|lia|unfold len in *; lia]. }
  destruct (isb 91 b).
  - destruct (md <=? d); [discriminate|]. rewrite NL.
    destruct (container k (value_len md k (d + 1)) 93 r) as [m|] eqn:C; [|discriminate].
    rewrite (container_ext _ _ 93 k r m C SUB k' ltac:(lia)). exact E.
  - destruct (isb 123 b); [|exact E].
    destruct (md <=? d); [discriminate|]. rewrite NL.
    destruct (container k (member (value_len md k (d + 1))) 125 r) as [m|] eqn:C; [|discriminate].
    rewrite (container_ext (member (value_len md k (d + 1))) (member (value_len md' k' (d' + 1))) 125 k r m C
               ltac:(intros l' n' L' E'; eapply member_ext; [exact E'|]; intros l2 n2 L2 E2; apply SUB; [lia|exact E2])
               k' ltac:(lia)). exact E.
Qed.

(** ** without depth-checked calls the depth limit does not matter *)
Definition unchecked (u : unit_) : bool := match u with UCall true _ _ _ => false | _ => true end.
Definition uc (us : list unit_) : bool := forallb unchecked us.

Lemma exec_unit_md : forall md md' data h pe u s, unchecked u = true ->
  exec_unit md data h pe u s = exec_unit md' data h pe u s.
Proof. intros md md' data h pe u s U. destruct u; try reflexivity. destruct depth_check; [discriminate|reflexivity]. Qed.

Lemma exec_units_md : forall md md' data h pe us s, uc us = true ->
  exec_units md data h pe us s = exec_units md' data h pe us s.
Proof.
  intros md md' data h pe. induction us as [|u r IH]; intros s U; [reflexivity|].
  cbn in U. apply andb_true_iff in U. destruct U as [U1 U2]. cbn [exec_units].
  rewrite (exec_unit_md md md' data h pe u s U1). destruct (exec_unit md' data h pe u s); auto.
Qed.

Lemma uc_handler_units : forall c f, uc (handler_units c f) = true.
Proof. intros c f. destruct c, f; reflexivity. Qed.
Lemma uc_err_units : forall c, uc (err_units c) = true.
Proof. destruct c; reflexivity. Qed.
Lemma uc_eof_units : forall c, uc (eof_units c) = true.
Proof. destruct c; reflexivity. Qed.
Lemma uc_app : forall a b, uc a = true -> uc b = true -> uc (a ++ b) = true.
Proof. intros a b A B. unfold uc. rewrite forallb_app. unfold uc in A, B. rewrite A, B. reflexivity. Qed.

Lemma uc_value_start : forall c b, uc (fst (value_start false c b)) = true.
Proof.
  intros c b. unfold value_start.
  destruct (is ch_lbrack b); [cbn [fst]; apply uc_app; [apply uc_handler_units|reflexivity]|].
  destruct (is ch_lbrace b); [cbn [fst]; apply uc_app; [apply uc_handler_units|reflexivity]|].
  destruct (tok_first b); cbn [fst fail]; [apply uc_handler_units|apply uc_err_units].
Qed.

Lemma uc_struct_step : forall c p b, uc (fst (struct_step false c p b)) = true.
Proof.
  intros c p b.
  destruct p; destruct c; cbn -[value_start];
    repeat match goal with |- context [if ?x then _ else _] => destruct x end;
    try reflexivity; apply uc_value_start.
Qed.

Lemma uc_strans : forall q b, uc (fst (strans false q b)) = true.
Proof.
  intros [c p] b. unfold strans.
  destruct p; try apply uc_struct_step.
  - destruct (scans c && in_intpart t && is ch_dot b); [reflexivity|].
    destruct (scans c && in_intpart t && is_exp b); [reflexivity|].
    destruct (tok_step t b); cbn [fst fail]; try reflexivity; try apply uc_err_units; try apply uc_struct_step.
    destruct c, t; reflexivity.
  - destruct (tok_step t b); cbn [fst fail]; try reflexivity; apply uc_err_units.
Qed.

Lemma uc_seof : forall q, uc (seof q) = true.
Proof.
  intros [c p]. destruct p; cbn; try apply uc_eof_units; try reflexivity.
  destruct (tok_complete t); [destruct (after c); try reflexivity; apply uc_eof_units|apply uc_eof_units].
Qed.

Lemma run_md_irrelevant : forall md md' start data h f z s,
  run md (spec_machine false start) data h (len data) f z s =
  run md' (spec_machine false start) data h (len data) f z s.
Proof.
  intros md md' start data h.
  assert (TR : forall z b, uc (fst (m_trans (spec_machine false start) z b)) = true).
  { intros z b. cbn. destruct (dec z) as [q|]; [|reflexivity].
    pose proof (uc_strans q b) as U. destruct (strans false q b). exact U. }
  assert (EO : forall z s, eof_phase md (spec_machine false start) data h (len data) z s =
                           eof_phase md' (spec_machine false start) data h (len data) z s).
  { intros z s. unfold eof_phase. rewrite (exec_units_md md md'); [reflexivity|].
    cbn. destruct (dec z) as [q|]; [apply uc_seof|reflexivity]. }
  induction f as [|f IH]; intros z s; [reflexivity|].
  cbn [run]. destruct (get data (s_p s)) as [b|]; [|reflexivity].
  specialize (TR z b). destruct (m_trans (spec_machine false start) z b) as [us d]. cbn [fst] in TR.
  rewrite (exec_units_md md md' data h (len data) us s TR).
  destruct (exec_units md' data h (len data) us s); try reflexivity.
  - destruct (d =? 0); [reflexivity|]. destruct (negb _); [reflexivity|]. destruct (_ =? len data); [apply EO|apply IH].
  - destruct (d0 =? 0); [reflexivity|]. destruct (negb _); [reflexivity|]. destruct (_ =? len data); [apply EO|apply IH].
Qed.

Theorem prun_md_irrelevant : forall md md' start data h stack dst,
  prun md (spec_machine false start) data h stack dst = prun md' (spec_machine false start) data h stack dst.
Proof.
  intros. unfold prun. destruct (0 =? len data).
  - unfold eof_phase. rewrite (exec_units_md md md'); [reflexivity|].
    cbn. destruct (dec (enc start)) as [q|]; [apply uc_seof|reflexivity].
  - apply run_md_irrelevant.
Qed.

(** ** the handler call at the first byte of a member value *)
Definition well_behaved (data : list byte) (h : handler) : Prop :=
  forall c calls,
    h_err (h (c :: calls)) = None /\ h_havoc (h (c :: calls)) = [] /\
    (h_pp (h (c :: calls)) = 0 \/
     skip_ref (skipn (Z.to_nat (c_p c)) data) = Some (h_pp (h (c :: calls)))).

Definition ErrSome (o : outcome) : Prop := exists p e s', o = ODone p (Some e) s'.

Lemma exec_units_app : forall md data h pe a b s,
  exec_units md data h pe (a ++ b) s =
  match exec_units md data h pe a s with RCont s' => exec_units md data h pe b s' | x => x end.
Proof.
  intros md data h pe. induction a as [|u a IH]; intros b s; [reflexivity|].
  cbn [app exec_units]. destruct (exec_unit md data h pe u s); auto.
Qed.

Section Handler.
  Variable data : list byte.
  Variable h : handler.
  Variable start : sstate.
  Hypothesis LEN : len data <= maxint.
  Hypothesis WB : well_behaved data h.

  Let md := len data.
  Let F := (length data + 2)%nat.

  Notation ReachS := (Reach md false start data h).
  Notation EndsS := (Ends md false start data h).
  Notation AtS := (At data).
  Notation InvS := (Inv md false).
  Notation refval := (value_len md F 0).

  Lemma Ends_Any_Some : forall q s, EndsS q s (ErrAny s) -> EndsS q s ErrSome.
  Proof. intros q s E. eapply Ends_weaken; [|exact E]. intros o (p & e & s' & -> & _). exists p, e, s'. reflexivity. Qed.
  Lemma Reach_Ends_some : forall q s q' s', ReachS q s q' s' -> EndsS q' s' ErrSome -> EndsS q s ErrSome.
  Proof. intros. eapply Reach_Ends; eauto. Qed.

  (** the unchecked call: pushes the return state *)
  Lemma call_exec : forall s sg x ret tgt, InvS s sg ->
    exists s', exec_unit md data h md (UCall false x ret tgt) s = RGoto s' tgt /\
               s_p s' = s_p s /\ InvS s' (ret :: sg) /\ frame s' = frame s.
  Proof.
    intros s sg x ret tgt (L & TP & CP & E & MD). cbn [exec_unit andb].
    pose proof (len_nonneg (s_junk s)) as JN.
    assert (MD' : false = true -> len (ret :: sg) <= md) by discriminate.
    destruct (s_top s + 1 >=? s_cap s) eqn:G.
    - assert (G' : s_top s + 1 >= s_cap s) by (apply Z.geb_le in G; lia).
      assert (N0 : (1 + s_top s - s_cap s <? 0) = false) by (apply Z.ltb_ge; lia). rewrite N0.
      assert (J1 : exists y, s_junk s ++ zrepeat (Z.to_nat (1 + s_top s - s_cap s)) = [y]).
      { destruct (s_junk s) as [|y [|y2 j]] eqn:J.
        - change (len (@nil Z)) with 0 in CP. replace (1 + s_top s - s_cap s) with 1 by lia. exists 0. reflexivity.
        - change (len [y]) with 1 in CP. replace (1 + s_top s - s_cap s) with 0 by lia. exists y. reflexivity.
        - rewrite !len_cons in CP. pose proof (len_nonneg j). lia. }
      destruct J1 as [y J1]. rewrite J1. eexists. split; [reflexivity|]. split; [reflexivity|]. split; [|reflexivity].
      unfold Inv. cbn [s_live s_top s_cap s_junk s_err set_stk]. rewrite !len_cons. rewrite L.
      change (len (@nil Z)) with 0. repeat split; try lia; try exact E; try (intro; discriminate).
    - assert (G' : s_top s + 1 < s_cap s) by (rewrite Z.geb_leb in G; apply Z.leb_gt in G; lia).
      destruct (s_junk s) as [|y j] eqn:J; [change (len (@nil Z)) with 0 in CP; lia|].
      eexists. split; [reflexivity|]. split; [reflexivity|]. split; [|reflexivity].
      unfold Inv. cbn [s_live s_top s_cap s_junk s_err set_stk]. rewrite !len_cons in *. rewrite L.
      repeat split; try lia; try exact E; try (intro; discriminate).
  Qed.

  (** the state after a handler call that answered [pp] *)
  Definition called (s : st) (c : call) : st := set_err (set_calls s (c :: s_calls s)) None.

  Lemma slice_key : forall (s : st) (o : bool) (kb : list byte), (if o then slice data (s_fs s + 1) (s_fe s - 1) = Some kb else kb = []) ->
    (if o then slice data (s_fs s + 1) (s_fe s - 1) else Some []) = Some kb.
  Proof. intros s o kb K. destruct o; [exact K|subst; reflexivity]. Qed.

  Lemma exec_simple : forall (s : st) l (o : bool) (kb : list byte), AtS s l -> s_err s = None ->
    (if o then slice data (s_fs s + 1) (s_fe s - 1) = Some kb else kb = []) ->
    exec_units md data h md [UHandle o false; UHandlerErrRet false] s =
    RCont (called s {| c_p := s_p s; c_key := kb; c_obj := o |}).
  Proof.
    intros s l o kb [[P0 P1] _] E K. cbn [exec_units exec_unit]. rewrite (slice_key s o kb K).
    assert (R : (0 <=? s_p s) && (s_p s <=? md) = true) by (apply andb_true_iff; split; apply Z.leb_le; lia).
    rewrite R. destruct (WB {| c_p := s_p s; c_key := kb; c_obj := o |} (s_calls s)) as (HE & HV & _).
    rewrite HE, HV. cbn. reflexivity.
  Qed.

  Lemma exec_full : forall (s : st) l (o : bool) (kb : list byte), AtS s l -> s_err s = None ->
    (if o then slice data (s_fs s + 1) (s_fe s - 1) = Some kb else kb = []) ->
    let c := {| c_p := s_p s; c_key := kb; c_obj := o |} in
    let pp := h_pp (h (c :: s_calls s)) in
    (pp = 0 -> exec_units md data h md [UHandle o true; UHandlerErrRet true; UPPNeg 0; UPPJump true 0] s
               = RCont (set_pp (called s c) 0)) /\
    (0 < pp <= md - s_p s -> exec_units md data h md [UHandle o true; UHandlerErrRet true; UPPNeg 0; UPPJump true 0] s
               = RCont (set_p (set_pp (called s c) pp) (s_p s + pp - 2))).
  Proof.
    intros s l o kb [[P0 P1] _] E K c pp. fold md in P1.
    assert (R : (0 <=? s_p s) && (s_p s <=? md) = true) by (apply andb_true_iff; split; apply Z.leb_le; lia).
    destruct (WB c (s_calls s)) as (HE & HV & _). fold pp in HE, HV.
    assert (MX : md <= maxint) by exact LEN. unfold maxint in MX.
    split; intros PP; cbn [exec_units exec_unit]; rewrite (slice_key s o kb K), R; fold c; rewrite HE, HV;
      cbn [option_map set_err set_calls set_pp s_err s_pp s_p].
    - fold pp. rewrite PP. cbn. reflexivity.
    - fold pp. rewrite (wrap64_id pp) by (unfold two63 in *; lia).
      assert (N : (pp <? 0) = false) by (apply Z.ltb_ge; lia). rewrite N.
      cbn [s_pp s_p set_pp set_err set_calls].
      assert (Z0 : (pp =? 0) = false) by (apply Z.eqb_neq; lia). rewrite Z0.
      rewrite (wrap64_id (pp - 1)) by (unfold two63 in *; lia).
      rewrite (wrap64_id (md - s_p s)) by (unfold two63 in *; lia).
      assert (OOB : (pp - 1 >=? md - s_p s) = false) by (rewrite Z.geb_leb; apply Z.leb_gt; lia). rewrite OOB.
      rewrite (wrap64_id (s_p s + pp)) by (unfold two63 in *; lia).
      rewrite (wrap64_id (s_p s + pp - 1)) by (unfold two63 in *; lia).
      rewrite (wrap64_id (s_p s + pp - 1 - 1)) by (unfold two63 in *; lia).
      cbn. f_equal. f_equal. lia.
  Qed.

  Definition hctx (hc : ctx) : Prop := hc = CHArr \/ hc = CHObj.
  Lemma hctx_plain : forall hc, hctx hc -> plainctx hc.
  Proof. intros hc [->| ->]; split; try reflexivity; intros t; reflexivity. Qed.

  Lemma value_len_le : forall md0 k d l n, value_len md0 k d l = Some n -> (n <= length l)%nat.
  Proof.
    intros md0 k d l n E.
    exact (proj1 (value_scans md0 start data h CFArr (or_introl eq_refl) k d l n E)).
  Qed.

  (** what a well-behaved handler answers: 0, or the length of the value according to the reference *)
  Lemma pp_cases : forall s b r (c : call), AtS s (b :: r) -> is_ws b = false -> c_p c = s_p s ->
    h_pp (h (c :: s_calls s)) = 0 \/
    exists n0, refval (b :: r) = Some n0 /\ h_pp (h (c :: s_calls s)) = Z.of_nat n0.
  Proof.
    intros s b r c H W CP. destruct (WB c (s_calls s)) as (_ & _ & [Z0|SR]); [left; exact Z0|right].
    pose proof (AtP_len data _ _ H) as LL. destruct H as [[P0 P1] SK]. rewrite CP, SK in SR.
    unfold skip_ref, skip_ref_md in SR. rewrite (ws_cons_false b r W) in SR. cbn [skipn] in SR.
    destruct (value_len max_depth_ref (length (b :: r) + 2) 0 (b :: r)) as [n0|] eqn:V; [|discriminate].
    cbn in SR. inversion SR. exists n0. split; [|reflexivity].
    eapply value_len_unb; [exact V| |].
    - unfold F. unfold len in LL. lia.
    - unfold md. lia.
  Qed.

  Lemma closer_not_ws : forall cl cb, (cl = 93 \/ cl = 125) -> isb cl cb = true -> is_ws cb = false.
  Proof. intros cl cb C H. apply Z.eqb_eq in H. unfold is_ws. rewrite H. destruct C as [->| ->]; reflexivity. Qed.

  Lemma Inv_called : forall s c sg, InvS s sg -> InvS (called s c) sg.
  Proof. intros s c sg (L & TP & CP & E & MD). unfold Inv. cbn. auto. Qed.

  (** a member value: the handler is called once, at its first byte; afterwards the run stands
      after the value *)
  Lemma hvalue : forall hc q s b r kb, hctx hc -> AtS s (b :: r) -> is_ws b = false ->
    strans false q b = value_start false hc b -> InvS s [] ->
    (if is_objctx hc then slice data (s_fs s + 1) (s_fe s - 1) = Some kb else kb = []) ->
    match refval (b :: r) with
    | Some n => (n <= length (b :: r))%nat /\
                exists s', ReachS q s (hc, PAfter) s' /\ s_p s' = s_p s + Z.of_nat n /\ InvS s' [] /\
                           s_calls s' = {| c_p := s_p s; c_key := kb; c_obj := is_objctx hc |} :: s_calls s
    | None => EndsS q s ErrSome
    end.
  Proof.
    intros hc q s b r kb HC H W VS I K.
    set (o := is_objctx hc) in *. set (c := {| c_p := s_p s; c_key := kb; c_obj := o |}).
    pose proof (Inv_err _ _ _ _ I) as E.
    pose proof (exec_simple s _ o kb H E K) as XS. fold c in XS.
    destruct (exec_full s _ o kb H E K) as [XF0 XFn]. fold c in XF0, XFn.
    pose proof (pp_cases s b r c H W eq_refl) as PPC.
    set (pp := h_pp (h (c :: s_calls s))) in *.
    pose proof (AtP_len data _ _ H) as LL. fold md in LL.
    assert (LB : (S (length r) <= length data)%nat /\ 0 <= s_p s /\ Z.of_nat (S (length r)) = md - s_p s).
    { pose proof H as [[P0 P1] _]. rewrite len_cons in LL. unfold md, len in *. lia. }
    destruct LB as (LB & P0 & LZ).
    assert (AF : after hc = PAfter) by (destruct HC as [->| ->]; reflexivity).
    assert (HU1 : handler_units hc true = [UHandle o true; UHandlerErrRet true; UPPNeg 0; UPPJump true 0])
      by (destruct HC as [->| ->]; reflexivity).
    assert (HU0 : handler_units hc false = [UHandle o false; UHandlerErrRet false])
      by (destruct HC as [->| ->]; reflexivity).
    pose proof (At_adv1 data _ _ _ H) as H1.
    assert (MDP : (md <=? 0) = false).
    { apply Z.leb_gt. unfold md, len in *. lia. }
    (* nested containers *)
    assert (NEST : forall sub item close, body sub -> close = closer sub ->
               strans false q b = (handler_units hc true ++ [UCall false 0 (enc (hc, PAfter)) (enc (sub, PStart))], Some (hc, PAfter)) ->
               ItemOK md false start data h sub item [enc (hc, PAfter)] (length data + 1) ->
               refval (b :: r) = option_map S (container (length data + 1) item close r) ->
               match refval (b :: r) with
               | Some n => (n <= length (b :: r))%nat /\
                           exists s', ReachS q s (hc, PAfter) s' /\ s_p s' = s_p s + Z.of_nat n /\ InvS s' [] /\
                                      s_calls s' = c :: s_calls s
               | None => EndsS q s ErrSome
               end).
    { intros sub item close BS CL T IO RV. rewrite HU1 in T.
      assert (CLV : close = 93 \/ close = 125) by (destruct BS as [->| ->]; subst close; [left|right]; reflexivity).
      assert (LR : (length r < length data + 1)%nat).
      { lia. }
      assert (LIMR : Lim md false [enc (hc, PAfter)] r).
      { intros _. rewrite len_cons. change (len (@nil Z)) with 0. unfold md, len in *. lia. }
      destruct PPC as [PP0|(n0 & RV0 & PPn)].
      - (* the handler answered 0: the machine walks through the container *)
        destruct (call_exec (set_pp (called s c) 0) [] 0 (enc (hc, PAfter)) (enc (sub, PStart))
                    ltac:(apply Inv_called; exact I)) as (s4 & X4 & P4 & I4 & F4).
        assert (R1 : ReachS q s (sub, PStart) (adv s4 1)).
        { eapply Reach_goto; [exact H|exact T| |rewrite P4; cbn; lia].
          fold md. rewrite exec_units_app, (XF0 PP0). cbn [exec_units]. rewrite X4. reflexivity. }
        assert (H4 : AtS (adv s4 1) r) by (apply (At_move data s _ (b :: r) 1 H); [rewrite s_p_adv, P4; reflexivity|cbn; lia]).
        pose proof (container_ok md false start data h sub item [] (hc, PAfter) (length data + 1) BS IO r (adv s4 1) LR H4
                      ltac:(apply Inv_adv; exact I4) LIMR) as G.
        rewrite <- CL in G. rewrite RV.
        destruct (container (length data + 1) item close r) as [m|]; cbn [option_map].
        + destruct G as (N & s' & R' & P' & I' & F'). split; [cbn [length]; lia|].
          exists s'. split; [eapply Reach_trans; eauto|]. split; [rewrite P', s_p_adv, P4; cbn; lia|]. split; [exact I'|].
          unfold frame in F', F4. inversion F' as [[A1 A2 A3]]. inversion F4 as [[B1 B2 B3]]. rewrite A1. cbn in B1 |- *. rewrite B1. reflexivity.
        + eapply Reach_Ends_some; [exact R1|]. apply Ends_Any_Some. exact G.
      - (* the handler answered the exact length: the machine jumps to the closing bracket *)
        rewrite RV0. rewrite RV0 in RV.
        destruct (container (length data + 1) item close r) as [m|] eqn:C; [|discriminate]. cbn in RV. inversion RV; subst n0.
        destruct (container_last _ _ _ _ _ C) as (m' & cb & rest & -> & K2 & CB).
        pose proof (value_len_le _ _ _ _ _ RV0) as NL. cbn [length] in NL.
        assert (PPR : 0 < pp <= md - s_p s) by (rewrite PPn; lia).
        destruct (call_exec (set_p (set_pp (called s c) pp) (s_p s + pp - 2)) [] 0 (enc (hc, PAfter)) (enc (sub, PStart))
                    ltac:(apply Inv_called; exact I)) as (s4 & X4 & P4 & I4 & F4).
        cbn [s_p set_p] in P4.
        assert (R1 : ReachS q s (sub, PStart) (adv s4 1)).
        { eapply Reach_goto; [exact H|exact T| |rewrite P4; lia].
          fold md. rewrite exec_units_app, (XFn PPR). cbn [exec_units]. rewrite X4. reflexivity. }
        assert (H4 : AtS (adv s4 1) (cb :: rest)).
        { rewrite <- K2. change (skipn m' r) with (skipn (1 + m') (b :: r)).
          apply (At_move data s _ (b :: r) (1 + m') H); [rewrite s_p_adv, P4; lia|cbn [length]; lia]. }
        pose proof (start_close false sub cb BS (closer_not_ws close cb CLV CB) ltac:(rewrite <- CL; exact CB)) as T2.
        destruct (ret_step md false start data h _ _ (hc, PAfter) (adv s4 1) [] cb rest H4 T2 ltac:(apply Inv_adv; exact I4))
          as (s5 & R5 & P5 & I5 & F5).
        split; [cbn [length]; lia|]. exists s5. split; [eapply Reach_trans; eauto|].
        split; [rewrite P5, s_p_adv, P4; lia|]. split; [exact I5|].
        unfold frame in F5, F4. inversion F5 as [[A1 A2 A3]]. inversion F4 as [[B1 B2 B3]]. rewrite A1. cbn in B1 |- *. rewrite B1. reflexivity. }
    unfold F. replace (length data + 2)%nat with (S (length data + 1)) by lia. cbn [value_len].
    destruct (isb 91 b) eqn:A.
    { rewrite MDP.
      assert (G := NEST CArr (value_len md (length data + 1) (0 + 1)) 93 ltac:(left; reflexivity) eq_refl).
      unfold F in G. replace (length data + 2)%nat with (S (length data + 1)) in G by lia. cbn [value_len] in G.
      rewrite A, MDP in G. apply G; [| |reflexivity].
      - rewrite VS. unfold value_start. change (is ch_lbrack b) with (isb 91 b). rewrite A. destruct HC as [->| ->]; reflexivity.
      - apply (array_items md false start data h (length data + 1) [] (hc, PAfter)). apply value_ok. }
    destruct (isb 123 b) eqn:O.
    { rewrite MDP.
      assert (G := NEST CObj (member (value_len md (length data + 1) (0 + 1))) 125 ltac:(right; reflexivity) eq_refl).
      unfold F in G. replace (length data + 2)%nat with (S (length data + 1)) in G by lia. cbn [value_len] in G.
      rewrite A, O, MDP in G. apply G; [| |reflexivity].
      - rewrite VS. unfold value_start. change (is ch_lbrack b) with (isb 91 b). change (is ch_lbrace b) with (isb 123 b).
        rewrite A, O. destruct HC as [->| ->]; reflexivity.
      - apply (object_items md false start data h (length data + 1) [] (hc, PAfter)). apply value_ok. }
    (* scalars *)
    assert (RVS : refval (b :: r) = scalar_tok (b :: r)).
    { unfold F. replace (length data + 2)%nat with (S (length data + 1)) by lia. cbn [value_len]. rewrite A, O. reflexivity. }
    destruct (tok_first b) as [t|] eqn:TF.
    2:{ rewrite (tok_first_none b r TF). eapply Ends_weaken; [|eapply (fail_step md false start data h hc); [exact H|]].
        - intros o0 (p0 & e0 & s0 & -> & _). exists p0, e0, s0. reflexivity.
        - rewrite VS. unfold value_start. change (is ch_lbrack b) with (isb 91 b). change (is ch_lbrace b) with (isb 123 b).
          rewrite A, O, TF. reflexivity. }
    assert (T : strans false q b = (handler_units hc (is ch_quote b), Some (hc, PTok t))).
    { rewrite VS. unfold value_start. change (is ch_lbrack b) with (isb 91 b). change (is ch_lbrace b) with (isb 123 b).
      rewrite A, O, TF. reflexivity. }
    pose proof (hctx_plain hc HC) as PL.
    assert (SRS : forall s1, AtS s1 r -> s_err s1 = None ->
               match scalar_tok (b :: r) with
               | Some n => exists m, n = S m /\ (m <= length r)%nat /\ ReachS (hc, PTok t) s1 (hc, PAfter) (adv s1 m)
               | None => EndsS (hc, PTok t) s1 (ErrAny s1)
               end).
    { intros s1 HH EE. rewrite <- AF.
      apply (scalar_rest md false start data h hc (proj2 PL) (NumTail_plain md false start data h hc PL) b r t s1 TF HH EE). }
    change (is ch_quote b) with (isb 34 b) in T.
    destruct (isb 34 b) eqn:Q.
    - (* string: the handler may have consumed it *)
      rewrite HU1 in T.
      destruct PPC as [PP0|(n0 & RV0 & PPn)].
      + assert (R1 : ReachS q s (hc, PTok t) (adv (set_pp (called s c) 0) 1))
          by (eapply Reach_units; [exact H|exact T|exact (XF0 PP0)|cbn; lia]).
        specialize (SRS (adv (set_pp (called s c) 0) 1) H1 eq_refl).
        destruct (scalar_tok (b :: r)) as [n|].
        * destruct SRS as (m & -> & LM & R2). split; [cbn [length]; lia|].
          eexists. split; [eapply Reach_trans; [exact R1|exact R2]|]. split; [cbn; lia|]. split; [|reflexivity].
          apply Inv_adv. apply Inv_adv. apply Inv_called. exact I.
        * eapply Reach_Ends_some; [exact R1|]. apply Ends_Any_Some. exact SRS.
      + rewrite RVS in RV0. rewrite RV0.
        pose proof RV0 as ST. unfold scalar_tok in ST. rewrite Q in ST. unfold string_tok in ST. rewrite Q in ST.
        destruct (string_body r) as [k|] eqn:SB; [|discriminate]. cbn in ST. inversion ST; subst n0.
        destruct (string_body_last r k SB) as (k' & qq & rest & -> & K2 & QQ).
        pose proof (string_body_le r _ SB) as KL.
        assert (PPR : 0 < pp <= md - s_p s) by (rewrite PPn; lia).
        assert (TT : t = TStr).
        { unfold tok_first in TF. change (is ch_quote b) with (isb 34 b) in TF. rewrite Q in TF. inversion TF; reflexivity. }
        subst t.
        set (sj := set_p (set_pp (called s c) pp) (s_p s + pp - 2)).
        assert (R1 : ReachS q s (hc, PTok TStr) (adv sj 1))
          by (eapply Reach_units; [exact H|exact T|exact (XFn PPR)|unfold sj; cbn; lia]).
        assert (HJ : AtS (adv sj 1) (qq :: rest)).
        { rewrite <- K2. change (skipn k' r) with (skipn (1 + k') (b :: r)).
          apply (At_move data s _ (b :: r) (1 + k') H); [unfold sj; cbn; lia|cbn [length]; lia]. }
        assert (R2 : ReachS (hc, PTok TStr) (adv sj 1) (hc, PAfter) (adv (adv sj 1) 1)).
        { eapply Reach_silent; [exact HJ|]. rewrite <- AF.
          pose proof (ptok_go false hc TStr qq eq_refl (proj2 PL TStr)) as G.
          assert (TS : tok_step TStr qq = TEnd) by (cbn; change (is ch_quote qq) with (isb 34 qq); rewrite QQ; reflexivity).
          rewrite TS in G. exact G. }
        split; [cbn [length]; lia|]. eexists. split; [eapply Reach_trans; [exact R1|exact R2]|].
        split; [unfold sj; cbn; lia|]. split; [|reflexivity].
        unfold sj. destruct I as (L & TP & CP & EE & MD0). unfold Inv. cbn. auto.
    - (* other scalars: the handler is only told *)
      rewrite HU0 in T.
      assert (R1 : ReachS q s (hc, PTok t) (adv (called s c) 1))
        by (eapply Reach_units; [exact H|exact T|exact XS|cbn; lia]).
      specialize (SRS (adv (called s c) 1) H1 eq_refl).
      destruct (scalar_tok (b :: r)) as [n|].
      + destruct SRS as (m & -> & LM & R2). split; [cbn [length]; lia|].
        eexists. split; [eapply Reach_trans; [exact R1|exact R2]|]. split; [cbn; lia|]. split; [|reflexivity].
        apply Inv_adv. apply Inv_adv. apply Inv_called. exact I.
      + eapply Reach_Ends_some; [exact R1|]. apply Ends_Any_Some. exact SRS.
  Qed.

  (** ** the key part of an object member (nothing for arrays) *)
  Definition keypart (obj : bool) (l : list byte) : option (list byte * nat) :=
    if obj then
      match string_tok l with
      | None => None
      | Some n =>
        let r := skipn n l in
        let w := ws r in
        match skipn w r with
        | c :: r1 => if isb 58 c then Some (firstn (n - 2) (skipn 1 l), (n + w + 1 + ws r1)%nat) else None
        | [] => None
        end
      end
    else Some ([], 0%nat).

  (** [q] behaves like the position after a comma on the first byte of [l], which is not white space *)
  Definition IStartH (hc : ctx) (q : sstate) (l : list byte) : Prop :=
    seof q = eof_units hc /\
    forall b r, l = b :: r -> is_ws b = false /\ strans false q b = strans false (hc, PNext) b.

  Lemma Ends_Of_Some : forall c q s, EndsS q s (ErrOf c s) -> EndsS q s ErrSome.
  Proof. intros c q s E. eapply Ends_weaken; [|exact E]. intros o (p & e & s' & -> & _). exists p, e, s'. reflexivity. Qed.

  Lemma hws_stay : forall hc p, hctx hc -> (p = PStart \/ p = PAfter \/ p = PNext \/ p = PColon \/ p = PVal) ->
    forall b, is_ws b = true -> strans false (hc, p) b = ([], Some (hc, p)).
  Proof. intros hc p [->| ->] [->|[->|[->|[->| ->]]]] b W; cbn; rewrite W; reflexivity. Qed.

  Lemma hkey_go : forall t b, match t with TStr | TEsc | TU4 | TU3 | TU2 | TU1 => true | _ => false end = true ->
    match tok_step t b with
    | TGo t' => strans false (CHObj, PKey t) b = ([], Some (CHObj, PKey t'))
    | TEnd => strans false (CHObj, PKey t) b = ([], Some (CHObj, PKeyEnd))
    | TErr => strans false (CHObj, PKey t) b = fail CHObj
    | TStop => True
    end.
  Proof. intros t b D. unfold strans. destruct (tok_step t b); auto. Qed.

  Lemma hkeypart : forall hc q s l, hctx hc -> AtS s l -> InvS s [] -> IStartH hc q l ->
    match keypart (is_objctx hc) l with
    | Some (kb, kl) =>
      (kl <= length l)%nat /\
      exists s' qv, ReachS q s qv s' /\ s_p s' = s_p s + Z.of_nat kl /\ InvS s' [] /\ s_calls s' = s_calls s /\
                    (if is_objctx hc then slice data (s_fs s' + 1) (s_fe s' - 1) = Some kb else kb = []) /\
                    seof qv = eof_units hc /\
                    (forall b r, skipn kl l = b :: r -> is_ws b = false /\ strans false qv b = value_start false hc b)
    | None => EndsS q s ErrSome
    end.
  Proof.
    intros hc q s l [->| ->] H I (SE & ST).
    - (* arrays: no key *)
      cbn. split; [lia|]. exists s, q. split; [apply Reach_refl|]. split; [lia|].
      split; [exact I|]. split; [reflexivity|]. split; [reflexivity|]. split; [exact SE|].
      intros b r E0. destruct (ST b r E0) as [W T]. split; [exact W|]. rewrite T. cbn. rewrite W. reflexivity.
    - (* objects: "key" : *)
      cbn [is_objctx keypart]. unfold string_tok.
      destruct l as [|b r0]; [apply (Ends_Of_Some CHObj); apply fail_eof; [exact H|exact SE]|].
      destruct (ST b r0 eq_refl) as [W T].
      assert (T' : strans false q b = if isb 34 b then ([UFieldStart], Some (CHObj, PKey TStr)) else fail CHObj).
      { rewrite T. cbn. rewrite W. reflexivity. }
      destruct (isb 34 b) eqn:Q.
      2:{ apply (Ends_Of_Some CHObj). eapply fail_step; [exact H|exact T']. }
      set (s1 := set_fs s (s_p s)).
      assert (R1 : ReachS q s (CHObj, PKey TStr) (adv s1 1))
        by (eapply Reach_units; [exact H|exact T'|reflexivity|cbn; lia]).
      assert (H1 : AtS (adv s1 1) r0) by (apply (At_adv1 data s1 b r0); exact H).
      pose proof (string_run md false start data h CHObj (fun t => (CHObj, PKey t)) (CHObj, PKeyEnd)
                    (fun t => match t with TStr | TEsc | TU4 | TU3 | TU2 | TU1 => true | _ => false end)
                    hkey_go (fun t _ => eq_refl) ltac:(repeat split; reflexivity) (length r0) r0 (adv s1 1) (le_n _) H1) as SR.
      destruct (string_body r0) as [k|] eqn:SB; cbn [option_map].
      2:{ eapply Reach_Ends_some; [exact R1|]. apply (Ends_Of_Some CHObj). exact SR. }
      destruct SR as [R2 KL]. rewrite adv_adv in R2.
      destruct (string_body_last r0 k SB) as (k' & qq & rest & -> & _ & _).
      change (skipn (S (S k')) (b :: r0)) with (skipn (S k') r0).
      pose proof (At_adv data _ r0 (S k') H1 KL) as H2. rewrite adv_adv in H2.
      set (l2 := skipn (S k') r0) in *. set (w := ws l2).
      assert (RK : ReachS q s (CHObj, PKeyEnd) (adv s1 (1 + S k'))) by (eapply Reach_trans; eauto).
      assert (LL2 : (length l2 + S k' = length r0)%nat) by (unfold l2; rewrite skipn_length; lia).
      (* from just after the key to the colon: the first byte records the end of the key *)
      set (s2 := adv s1 (1 + S k')) in *. set (s3 := set_fe s2 (s_p s2)).
      assert (KE : forall c0 rr, l2 = c0 :: rr ->
                 strans false (CHObj, PKeyEnd) c0 =
                 if is_ws c0 then ([UFieldEnd], Some (CHObj, PColon))
                 else if isb 58 c0 then ([UFieldEnd], Some (CHObj, PVal)) else fail CHObj)
        by (intros c0 rr _; reflexivity).
      assert (FIN : forall s4 r1 n4, ReachS q s (CHObj, PVal) s4 -> AtS s4 r1 -> s_p s4 = s_p s + Z.of_nat n4 ->
                 s_fs s4 = s_p s -> s_fe s4 = s_p s + Z.of_nat (S (S k')) -> InvS s4 [] -> s_calls s4 = s_calls s ->
                 skipn n4 (b :: r0) = r1 -> (n4 <= length (b :: r0))%nat ->
                 (n4 + ws r1 <= length (b :: r0))%nat /\
                 exists s' qv, ReachS q s qv s' /\ s_p s' = s_p s + Z.of_nat (n4 + ws r1) /\ InvS s' [] /\ s_calls s' = s_calls s /\
                   slice data (s_fs s' + 1) (s_fe s' - 1) = Some (firstn (S (S k') - 2) (skipn 1 (b :: r0))) /\
                   seof qv = eof_units CHObj /\
                   (forall b0 r, skipn (n4 + ws r1) (b :: r0) = b0 :: r -> is_ws b0 = false /\ strans false qv b0 = value_start false CHObj b0)).
      { intros s4 r1 n4 R4 H4 P4 FS FE I4 C4 SK N4.
        pose proof (ws_loop md false start data h (CHObj, PVal) (hws_stay CHObj PVal ltac:(right; reflexivity) ltac:(auto 6)) r1 s4 H4) as R5.
        pose proof (ws_le r1) as WL. assert (LR1 : length r1 = (length (b :: r0) - n4)%nat) by (rewrite <- SK, skipn_length; reflexivity).
        split; [lia|]. exists (adv s4 (ws r1)), (CHObj, PVal).
        split; [eapply Reach_trans; eauto|]. split; [rewrite s_p_adv, P4; lia|]. split; [apply Inv_adv; exact I4|].
        split; [exact C4|]. split; [|split; [reflexivity|]].
        - cbn [s_fs s_fe adv set_p]. rewrite FS, FE. unfold slice.
          pose proof H as [[P0 P1] SKD]. pose proof (AtP_len data _ _ H) as LEN0. rewrite len_cons in LEN0.
          assert (KLZ : Z.of_nat (S k') <= len r0) by (unfold len; lia).
          assert (C1 : (0 <=? s_p s + 1) && (s_p s + 1 <=? s_p s + Z.of_nat (S (S k')) - 1) &&
                       (s_p s + Z.of_nat (S (S k')) - 1 <=? len data) = true).
          { repeat (apply andb_true_iff; split); apply Z.leb_le; lia. }
          rewrite C1. f_equal. f_equal; [lia|].
          replace (Z.to_nat (s_p s + 1)) with (1 + Z.to_nat (s_p s))%nat by lia.
          rewrite <- skipn_skipn, SKD. reflexivity.
        - intros b0 r E0. rewrite Nat.add_comm, <- skipn_skipn, SK in E0.
          pose proof (ws_next _ _ _ E0) as W0. split; [exact W0|]. cbn. rewrite W0. reflexivity. }
      destruct l2 as [|c0 rr] eqn:L2.
      { cbn. eapply Reach_Ends_some; [exact RK|]. apply (Ends_Of_Some CHObj). apply fail_eof; [exact H2|reflexivity]. }
      specialize (KE c0 rr eq_refl).
      assert (SK2 : skipn (S (S k')) (b :: r0) = c0 :: rr) by (cbn [skipn]; fold l2; exact L2).
      destruct (is_ws c0) eqn:W0.
      + (* white space before the colon *)
        assert (R3 : ReachS (CHObj, PKeyEnd) s2 (CHObj, PColon) (adv s3 1))
          by (eapply Reach_units; [exact H2|exact KE|reflexivity|cbn; lia]).
        assert (H3 : AtS (adv s3 1) rr) by (apply (At_adv1 data s3 c0 rr); exact H2).
        pose proof (ws_loop md false start data h (CHObj, PColon) (hws_stay CHObj PColon ltac:(right; reflexivity) ltac:(auto 6)) rr _ H3) as R4.
        rewrite adv_adv in R4.
        unfold w. rewrite (ws_cons_true c0 rr W0). cbn [skipn].
        pose proof (At_adv data _ rr (ws rr) H3 (ws_le rr)) as H4. rewrite adv_adv in H4.
        assert (RC : ReachS q s (CHObj, PColon) (adv s3 (1 + ws rr))).
        { eapply Reach_trans; [exact RK|]. eapply Reach_trans; [exact R3|exact R4]. }
        destruct (skipn (ws rr) rr) as [|c1 r1] eqn:K1.
        { eapply Reach_Ends_some; [exact RC|]. apply (Ends_Of_Some CHObj). apply fail_eof; [exact H4|reflexivity]. }
        pose proof (ws_next _ _ _ K1) as W1.
        assert (TC : strans false (CHObj, PColon) c1 = if isb 58 c1 then ([], Some (CHObj, PVal)) else fail CHObj)
          by (cbn; rewrite W1; reflexivity).
        destruct (isb 58 c1) eqn:CO.
        2:{ eapply Reach_Ends_some; [exact RC|]. apply (Ends_Of_Some CHObj). eapply fail_step; [exact H4|exact TC]. }
        assert (R5 : ReachS (CHObj, PColon) (adv s3 (1 + ws rr)) (CHObj, PVal) (adv (adv s3 (1 + ws rr)) 1))
          by (eapply Reach_silent; [exact H4|exact TC]).
        pose proof (At_adv1 data _ _ _ H4) as H5.
        pose proof (ws_le rr) as WLR. cbn [length] in LL2.
        assert (LK1 : (length (c1 :: r1) + ws rr = length rr)%nat) by (rewrite <- K1, skipn_length; lia). cbn [length] in LK1.
        replace (S (S k') + S (ws rr) + 1 + ws r1)%nat with ((S (S k') + S (ws rr) + 1) + ws r1)%nat by lia.
        apply (FIN (adv (adv s3 (1 + ws rr)) 1) r1 (S (S k') + S (ws rr) + 1)%nat).
        * eapply Reach_trans; [exact RC|exact R5].
        * exact H5.
        * unfold s3, s2, s1. cbn. lia.
        * reflexivity.
        * unfold s3, s2, s1. cbn. lia.
        * unfold s3, s2, s1. destruct I as (L & TP & CP & EE & MD0). unfold Inv. cbn. auto.
        * reflexivity.
        * replace (S (S k') + S (ws rr) + 1)%nat with (1 + (ws rr + (1 + S (S k'))))%nat by lia.
          rewrite <- (skipn_skipn 1), <- (skipn_skipn (ws rr)), <- (skipn_skipn 1 (S (S k'))), SK2. cbn [skipn]. rewrite K1. reflexivity.
        * cbn [length]. lia.
      + (* the colon follows the key directly *)
        unfold w. rewrite (ws_cons_false c0 rr W0). cbn [skipn].
        destruct (isb 58 c0) eqn:CO.
        2:{ eapply Reach_Ends_some; [exact RK|]. apply (Ends_Of_Some CHObj). eapply fail_step; [exact H2|exact KE]. }
        assert (R3 : ReachS (CHObj, PKeyEnd) s2 (CHObj, PVal) (adv s3 1))
          by (eapply Reach_units; [exact H2|exact KE|reflexivity|cbn; lia]).
        assert (H3 : AtS (adv s3 1) rr) by (apply (At_adv1 data s3 c0 rr); exact H2).
        cbn [length] in LL2.
        replace (S (S k') + 0 + 1 + ws rr)%nat with ((S (S k') + 0 + 1) + ws rr)%nat by lia.
        apply (FIN (adv s3 1) rr (S (S k') + 0 + 1)%nat).
        * eapply Reach_trans; [exact RK|exact R3].
        * exact H3.
        * unfold s3, s2, s1. cbn. lia.
        * reflexivity.
        * unfold s3, s2, s1. cbn. lia.
        * unfold s3, s2, s1. destruct I as (L & TP & CP & EE & MD0). unfold Inv. cbn. auto.
        * reflexivity.
        * replace (S (S k') + 0 + 1)%nat with (1 + S (S k'))%nat by lia.
          rewrite <- (skipn_skipn 1 (S (S k'))), SK2. reflexivity.
        * cbn [length]. lia.
  Qed.

  (** ** the members, one after the other *)
  Definition callpair (c : call) : Z * list byte := (c_p c, c_key c).

  Lemma members_from_S : forall k obj off l,
    members_from refval (S k) obj off l =
    match keypart obj l with
    | None => None
    | Some (kbytes, kl) =>
      let lv := skipn kl l in
      match refval lv with
      | None => None
      | Some n =>
        let here := (Z.of_nat (off + kl), kbytes) in
        let r := skipn n lv in
        let w := ws r in
        match skipn w r with
        | c :: r1 =>
          if isb 44 c then
            let w1 := ws r1 in
            match members_from refval k obj (off + kl + n + w + 1 + w1) (skipn w1 r1) with
            | Some (ms, e) => Some (here :: ms, e)
            | None => None
            end
          else if isb (if obj then 125 else 93) c then Some ([here], Z.of_nat (off + kl + n + w + 1))
          else None
        | [] => None
        end
      end
    end.
  Proof. intros k obj off l. destruct obj; reflexivity. Qed.

  Lemma hafter_step : forall hc b, hctx hc -> is_ws b = false ->
    strans false (hc, PAfter) b =
    if isb 44 b then ([], Some (hc, PNext))
    else if isb (if is_objctx hc then 125 else 93) b then ([], Some (hc, PDone)) else fail hc.
  Proof. intros hc b [->| ->] W; cbn; rewrite W; reflexivity. Qed.

  Lemma hmembers : forall hc, hctx hc -> forall k l s off q,
    (length l < k)%nat -> AtS s l -> s_p s = Z.of_nat off -> InvS s [] -> IStartH hc q l ->
    match members_from refval k (is_objctx hc) off l with
    | Some (ms, e) => exists s', ReachS q s (hc, PDone) s' /\ s_p s' = e /\ s_err s' = None /\
                                 map callpair (rev (s_calls s')) = map callpair (rev (s_calls s)) ++ ms /\
                                 exists l', AtS s' l'
    | None => EndsS q s ErrSome
    end.
  Proof.
    intros hc HC. induction k as [|k IH]; intros l s off q LK H PO I IS; [lia|].
    rewrite members_from_S.
      pose proof (hkeypart hc q s l HC H I IS) as KP.
      destruct (keypart (is_objctx hc) l) as [[kb kl]|]; [|exact KP].
      destruct KP as (KL & s1 & qv & R1 & P1 & I1 & C1 & SL & SE1 & VS1).
      pose proof (At_move data s s1 l kl H P1 KL) as H1. cbn zeta.
      destruct (skipn kl l) as [|b r] eqn:LV.
      { unfold F. cbn [value_len Nat.add]. replace (length data + 2)%nat with (S (length data + 1)) by lia. cbn [value_len].
        eapply Reach_Ends_some; [exact R1|]. apply (Ends_Of_Some hc). apply fail_eof; [exact H1|exact SE1]. }
      destruct (VS1 b r eq_refl) as [W VS].
      pose proof (hvalue hc qv s1 b r kb HC H1 W VS I1 SL) as HV.
      destruct (refval (b :: r)) as [n|]; [|eapply Reach_Ends_some; [exact R1|exact HV]].
      destruct HV as (N & s2 & R2 & P2 & I2 & C2).
      pose proof (At_move data s1 s2 (b :: r) n H1 P2 N) as H2.
      set (l2 := skipn n (b :: r)) in *. set (w := ws l2).
      pose proof (ws_loop md false start data h (hc, PAfter) (hws_stay hc PAfter HC ltac:(auto)) l2 s2 H2) as R3. fold w in R3.
      pose proof (At_adv data s2 l2 w H2 (ws_le l2)) as H3.
      assert (RA : ReachS q s (hc, PAfter) (adv s2 w)).
      { eapply Reach_trans; [exact R1|]. eapply Reach_trans; [exact R2|exact R3]. }
      assert (CALLS : map callpair (rev (s_calls s2)) = map callpair (rev (s_calls s)) ++ [(Z.of_nat (off + kl), kb)]).
      { rewrite C2, C1. cbn [rev]. rewrite map_app. unfold callpair at 3. cbn [map c_p c_key]. rewrite P1, PO, Nat2Z.inj_add. reflexivity. }
      destruct (skipn w l2) as [|c0 r1] eqn:K.
      { eapply Reach_Ends_some; [exact RA|]. apply (Ends_Of_Some hc). apply fail_eof; [exact H3|destruct HC as [->| ->]; reflexivity]. }
      pose proof (ws_next _ _ _ K) as NW. pose proof (hafter_step hc c0 HC NW) as AS.
      destruct (isb 44 c0) eqn:CM.
      + assert (R4 : ReachS (hc, PAfter) (adv s2 w) (hc, PNext) (adv (adv s2 w) 1)) by (eapply Reach_silent; [exact H3|exact AS]).
        pose proof (At_adv1 data _ _ _ H3) as H4.
        set (w1 := ws r1).
        pose proof (ws_loop md false start data h (hc, PNext) (hws_stay hc PNext HC ltac:(auto)) r1 _ H4) as R5. fold w1 in R5.
        pose proof (At_adv data _ r1 w1 H4 (ws_le r1)) as H5.
        assert (IS5 : IStartH hc (hc, PNext) (skipn w1 r1)).
        { split; [destruct HC as [->| ->]; reflexivity|]. intros b0 r0 E0. split; [|reflexivity]. eapply ws_next. exact E0. }
        assert (LK5 : (length (skipn w1 r1) < k)%nat).
        { assert (A1 : length (skipn kl l) = length (b :: r)) by (rewrite LV; reflexivity).
          assert (A2 : length (skipn w l2) = length (c0 :: r1)) by (rewrite K; reflexivity).
          unfold l2 in A2. rewrite !skipn_length in *. cbn [length] in *. lia. }
        specialize (IH (skipn w1 r1) (adv (adv (adv s2 w) 1) w1) (off + kl + n + w + 1 + w1)%nat (hc, PNext) LK5 H5
                       ltac:(rewrite !s_p_adv, P2, P1, PO; lia) ltac:(repeat apply Inv_adv; exact I2) IS5).
        destruct (members_from refval k (is_objctx hc) (off + kl + n + w + 1 + w1) (skipn w1 r1)) as [[ms e]|].
        * destruct IH as (s' & R' & P' & E' & C' & AT').
          exists s'. split; [|split; [exact P'|split; [exact E'|split; [|exact AT']]]].
          -- eapply Reach_trans; [exact RA|]. eapply Reach_trans; [exact R4|]. eapply Reach_trans; [exact R5|exact R'].
          -- rewrite C'. cbn [s_calls adv set_p]. rewrite CALLS, <- app_assoc. reflexivity.
        * eapply Reach_Ends_some; [exact RA|]. eapply Reach_Ends_some; [exact R4|]. eapply Reach_Ends_some; [exact R5|exact IH].
      + destruct (isb (if is_objctx hc then 125 else 93) c0) eqn:CL.
        * assert (R4 : ReachS (hc, PAfter) (adv s2 w) (hc, PDone) (adv (adv s2 w) 1)) by (eapply Reach_silent; [exact H3|exact AS]).
          exists (adv (adv s2 w) 1). split; [eapply Reach_trans; eauto|].
          split; [rewrite !s_p_adv, P2, P1, PO; lia|]. split; [eapply Inv_err; exact I2|].
          split; [cbn [s_calls adv set_p]; exact CALLS|]. exists r1. apply (At_adv1 data _ _ _ H3).
        * eapply Reach_Ends_some; [exact RA|]. apply (Ends_Of_Some hc). eapply fail_step; [exact H3|exact AS].
  Qed.
End Handler.

(** HandleArrayValues / HandleObjectValues over their specification machines, for every handler that
    answers each call with 0 or with the exact length of the value it was given and reports no error:
    the run succeeds exactly when the reference finds an array / object (or null); the offset is the
    one after the closing bracket and the handler was called exactly for the members the reference
    lists, in order: at the first byte of each member value, with the raw key bytes (C07). *)
Theorem members_spec_correct : forall (obj : bool) data h stack dst,
  len data <= maxint -> well_behaved data h ->
  match members_ref obj data with
  | Some (ms, e) => exists s, prun 10000 (if obj then hobj_spec else harr_spec) data h stack dst = ODone e None s /\
                              map callpair (rev (s_calls s)) = ms
  | None => exists p e s, prun 10000 (if obj then hobj_spec else harr_spec) data h stack dst = ODone p (Some e) s
  end.
Proof.
  intros obj data h stack dst LEN WB.
  set (top := if obj then CHOTop else CHATop). set (hc := if obj then CHObj else CHArr).
  set (ob := if obj then 123 else 91). set (cl := if obj then 125 else 93).
  set (q0 := (top, PStart)). set (md := len data).
  assert (MEQ : (if obj then hobj_spec else harr_spec) = spec_machine false q0) by (destruct obj; reflexivity).
  rewrite MEQ. rewrite (prun_md_irrelevant 10000 md).
  assert (HC : hctx hc) by (destruct obj; [right|left]; reflexivity).
  assert (OBJ : is_objctx hc = obj) by (destruct obj; reflexivity).
  assert (T0 : forall b, is_ws b = true -> strans false q0 b = ([], Some q0)).
  { intros b W. destruct obj; cbn; rewrite W; reflexivity. }
  assert (T1 : forall b, is_ws b = false -> strans false q0 b =
               if isb ob b then ([], Some (hc, PStart)) else if isb 110 b then ([], Some (top, PTok T_n)) else fail top).
  { intros b W. destruct obj; cbn; rewrite W; reflexivity. }
  assert (T2 : forall b, is_ws b = false -> strans false (hc, PStart) b =
               if isb cl b then ([], Some (hc, PDone)) else strans false (hc, PNext) b).
  { intros b W. destruct obj; cbn; rewrite W; unfold is, isb; cbn;
      destruct (bz b =? _); try reflexivity. }
  set (s0 := init_st stack dst).
  pose proof (At_init data stack dst) as H0. fold s0 in H0.
  pose proof (ws_loop md false q0 data h q0 T0 data s0 H0) as R0.
  pose proof (At_adv data s0 data (ws data) H0 (ws_le data)) as H1.
  set (w := ws data) in *.
  assert (I1 : Inv md false (adv s0 w) []).
  { unfold Inv. cbn. unfold len. cbn. repeat split; auto; try lia; try (intro; discriminate). }
  assert (OK : forall (s' : st) l' ms e, At data s' l' -> s_err s' = None -> s_p s' = e ->
               map callpair (rev (s_calls s')) = ms -> forall cd,
               Reach md false q0 data h q0 (adv s0 w) (cd, PDone) s' ->
               exists s, prun md (spec_machine false q0) data h stack dst = ODone e None s /\ map callpair (rev (s_calls s)) = ms).
  { intros s' l' ms e H' E' P' C' cd R'.
    assert (E : Ends md false q0 data h q0 s0 (fun o => o = ODone (s_p s') (s_err s') s')).
    { eapply Reach_Ends; [exact R0|]. eapply Reach_Ends; [exact R'|]. eapply done_ends. exact H'. }
    apply (Ends_prun md false q0 data h stack dst) in E. exists s'. rewrite <- P', <- E'. auto. }
  assert (BAD : Ends md false q0 data h q0 (adv s0 w) ErrSome ->
                exists p e s, prun md (spec_machine false q0) data h stack dst = ODone p (Some e) s).
  { intros E. assert (E2 : Ends md false q0 data h q0 s0 ErrSome) by (eapply Reach_Ends; [exact R0|exact E]).
    apply (Ends_prun md false q0 data h stack dst) in E2. exact E2. }
  unfold members_ref. fold w.
  destruct (skipn w data) as [|b r] eqn:L.
  { cbn. apply BAD. apply (Ends_Of_Some data h q0 top). apply fail_eof; [exact H1|destruct obj; reflexivity]. }
  pose proof (ws_next _ _ _ L) as NW. pose proof (T1 b NW) as TB.
  pose proof (At_adv1 data _ _ _ H1) as H2.
  change (if obj then 123 else 91) with ob. change (if obj then 125 else 93) with cl.
  unfold lit_ref. rewrite is_prefix_z. change (map bz lit_null) with (110 :: lit_rest T_n). cbn [zprefix].
  change (bz b =? 110) with (isb 110 b).
  destruct (isb ob b) eqn:OB.
  - (* the opening bracket *)
    assert (N110 : isb 110 b = false).
    { apply Z.eqb_eq in OB. unfold isb. rewrite OB. destruct obj; reflexivity. }
    rewrite N110. cbn [andb].
    assert (R1 : Reach md false q0 data h q0 (adv s0 w) (hc, PStart) (adv (adv s0 w) 1)) by (eapply Reach_silent; [exact H1|exact TB]).
    set (w1 := ws r).
    pose proof (ws_loop md false q0 data h (hc, PStart) (hws_stay hc PStart HC ltac:(auto)) r _ H2) as R2. fold w1 in R2.
    pose proof (At_adv data _ r w1 H2 (ws_le r)) as H3.
    assert (RS : Reach md false q0 data h q0 (adv s0 w) (hc, PStart) (adv (adv (adv s0 w) 1) w1)) by (eapply Reach_trans; eauto).
    destruct (skipn w1 r) as [|c r1] eqn:K.
    { apply BAD. eapply Reach_Ends; [exact RS|]. apply (Ends_Of_Some data h q0 hc). apply fail_eof; [exact H3|destruct obj; reflexivity]. }
    pose proof (ws_next _ _ _ K) as NWc. pose proof (T2 c NWc) as TC.
    destruct (isb cl c) eqn:CL.
    + (* empty *)
      apply (OK (adv (adv (adv (adv s0 w) 1) w1) 1) r1 [] _ (At_adv1 data _ _ _ H3) eq_refl) with (cd := hc).
      * rewrite !s_p_adv. cbn [s_p s0 init_st]. lia.
      * reflexivity.
      * eapply Reach_trans; [exact RS|]. eapply Reach_silent; [exact H3|exact TC].
    + (* members *)
      assert (IS : IStartH hc (hc, PStart) (c :: r1)).
      { split; [destruct obj; reflexivity|]. intros b0 r0 E0. inversion E0; subst b0 r0. split; [exact NWc|exact TC]. }
      pose proof (hmembers data h q0 LEN WB hc HC (S (length data)) (c :: r1) (adv (adv (adv s0 w) 1) w1) (w + 1 + w1)%nat (hc, PStart)) as HM.
      assert (LK : (length (c :: r1) < S (length data))%nat).
      { rewrite <- K, skipn_length. assert (A : length (skipn w data) = length (b :: r)) by (rewrite L; reflexivity).
        rewrite skipn_length in A. cbn [length] in A. lia. }
      specialize (HM LK H3 ltac:(rewrite !s_p_adv; cbn [s_p s0 init_st]; lia) ltac:(repeat apply Inv_adv; exact I1) IS).
      rewrite OBJ in HM. fold md in HM.
      change (Z.of_nat (length data)) with md.
      destruct (members_from (value_len md (length data + 2) 0) (S (length data)) obj (w + 1 + w1) (c :: r1)) as [[ms e]|].
      * destruct HM as (s' & R' & P' & E' & C' & (l' & AT')).
        apply (OK s' l' ms e AT' E' P' C' hc).
        eapply Reach_trans; [exact RS|exact R'].
      * apply BAD. eapply Reach_Ends; [exact RS|exact HM].
  - destruct (isb 110 b) eqn:N1; cbn [andb].
    + (* "null" *)
      assert (R1 : Reach md false q0 data h q0 (adv s0 w) (top, PTok T_n) (adv (adv s0 w) 1)) by (eapply Reach_silent; [exact H1|exact TB]).
      assert (AFT : after top = PDone) by (destruct obj; reflexivity).
      pose proof (lit_ok md false q0 data h top (fun t => (top, PTok t)) (top, PDone) pdom) as LO.
      specialize (LO ltac:(intros t b0 D; rewrite <- AFT; apply ptok_go; [apply negb_true_iff; exact D|destruct obj; reflexivity])
                     (pdom_eof top) lit_not_complete T_n eq_refl _ r H2).
      destruct (zprefix (lit_rest T_n) r) eqn:ZP.
      * apply zprefix_len in ZP.
        apply (OK (adv (adv (adv s0 w) 1) (length (lit_rest T_n))) (skipn 3 r) [] _ (At_adv data _ r 3 H2 ZP) eq_refl) with (cd := top).
        -- rewrite !s_p_adv. cbn [s_p s0 init_st length lit_rest lit_null]. lia.
        -- reflexivity.
        -- eapply Reach_trans; [exact R1|exact LO].
      * apply BAD. eapply Reach_Ends; [exact R1|]. apply (Ends_Of_Some data h q0 top). exact LO.
    + apply BAD. apply (Ends_Of_Some data h q0 top). eapply fail_step; [exact H1|exact TB].
Qed.

(** on success the calls are exactly the members of the reference, once each, in document order *)
Corollary members_called_once : forall (obj : bool) data h stack dst ms e,
  len data <= maxint -> well_behaved data h -> members_ref obj data = Some (ms, e) ->
  exists s, prun 10000 (if obj then hobj_spec else harr_spec) data h stack dst = ODone e None s /\
            length (s_calls s) = length ms /\
            forall i m, nth_error ms i = Some m ->
              exists c, nth_error (rev (s_calls s)) i = Some c /\ c_p c = fst m /\ c_key c = snd m.
Proof.
  intros obj data h stack dst ms e LEN WB MR.
  pose proof (members_spec_correct obj data h stack dst LEN WB) as M. rewrite MR in M.
  destruct M as (s & E & C). exists s. split; [exact E|]. split.
  - rewrite <- C, map_length, rev_length. reflexivity.
  - intros i m NM. rewrite <- C in NM. rewrite nth_error_map in NM.
    destruct (nth_error (rev (s_calls s)) i) as [c|]; [|discriminate]. cbn in NM. inversion NM.
    exists c. auto.
Qed.

(** { "k" : [1], "b":"x" } with a handler that answers 0, and with one that answers the exact length *)
Definition ex_obj : list byte :=
  [x7b; x20; x22; x6b; x22; x20; x3a; x20; x5b; x31; x5d; x2c; x20; x22; x62; x22; x3a; x22; x78; x22; x20; x7d].
Definition h_zero : handler := fun _ => {| h_pp := 0; h_err := None; h_havoc := [] |}.
Definition h_exact (data : list byte) : handler := fun calls =>
  match calls with
  | c :: _ => {| h_pp := match skip_ref (skipn (Z.to_nat (c_p c)) data) with Some n => n | None => 0 end;
                 h_err := None; h_havoc := [] |}
  | [] => {| h_pp := 0; h_err := None; h_havoc := [] |}
  end.
Lemma h_zero_wb : forall data, well_behaved data h_zero.
Proof. intros data c calls. cbn. auto. Qed.
Lemma h_exact_wb : forall data, well_behaved data (h_exact data).
Proof. intros data c calls. cbn. split; [reflexivity|]. split; [reflexivity|]. destruct (skip_ref _); auto. Qed.

Example members_spec_ex :
  members_ref true ex_obj = Some ([(8, [x6b]); (17, [x62])], 22) /\
  (exists s, prun 10000 hobj_spec ex_obj h_zero [] [] = ODone 22 None s /\ map callpair (rev (s_calls s)) = [(8, [x6b]); (17, [x62])]) /\
  (exists s, prun 10000 hobj_spec ex_obj (h_exact ex_obj) [] [] = ODone 22 None s /\ map callpair (rev (s_calls s)) = [(8, [x6b]); (17, [x62])]).
Proof. split; [vm_compute; reflexivity|]. split; eexists; vm_compute; split; reflexivity. Qed.
Print Assumptions members_spec_correct.
Print Assumptions members_called_once.

(** what [members_ref] lists: every listed offset is the first byte of a value the reference accepts *)
Lemma members_from_values : forall value data k obj off l ms e, l = skipn off data ->
  members_from value k obj off l = Some (ms, e) ->
  Forall (fun m => exists n, value (skipn (Z.to_nat (fst m)) data) = Some n) ms.
Proof.
  intros value data. induction k as [|k IH]; intros obj off l ms e EL M; [discriminate|].
  cbn [members_from] in M.
  destruct (if obj then _ else Some ([], 0%nat)) as [[kb kl]|]; [|discriminate].
  destruct (value (skipn kl l)) as [n|] eqn:V; [|discriminate].
  assert (HERE : exists n0, value (skipn (Z.to_nat (fst (Z.of_nat (off + kl), kb))) data) = Some n0).
  { exists n. cbn [fst]. rewrite Nat2Z.id. rewrite <- V, EL, skipn_skipn. f_equal. f_equal. lia. }
  set (r := skipn n (skipn kl l)) in *. set (w := ws r) in *.
  destruct (skipn w r) as [|c r1] eqn:K; [discriminate|].
  destruct (isb 44 c).
  - set (w1 := ws r1) in *.
    destruct (members_from value k obj (off + kl + n + w + 1 + w1) (skipn w1 r1)) as [[ms' e']|] eqn:M'; [|discriminate].
    inversion M; subst ms e. constructor; [exact HERE|].
    apply (IH obj (off + kl + n + w + 1 + w1)%nat (skipn w1 r1) ms' e'); [|exact M'].
    assert (K1 : skipn 1 (skipn w r) = r1) by (rewrite K; reflexivity).
    rewrite <- K1. unfold r. rewrite EL, !skipn_skipn. f_equal. lia.
  - destruct (isb (if obj then 125%Z else 93%Z) c); [|discriminate]. inversion M. constructor; [exact HERE|constructor].
Qed.

Lemma members_ref_values : forall obj data ms e, members_ref obj data = Some (ms, e) ->
  Forall (fun m => exists n, value_len (len data) (length data + 2) 0 (skipn (Z.to_nat (fst m)) data) = Some n) ms.
Proof.
  intros obj data ms e M. unfold members_ref in M.
  destruct (lit_ref lit_null (skipn (ws data) data)); [inversion M; constructor|].
  destruct (skipn (ws data) data) as [|b r] eqn:L; [discriminate|].
  destruct (isb (if obj then 123%Z else 91%Z) b); [|discriminate].
  destruct (skipn (ws r) r) as [|c r1] eqn:K; [discriminate|].
  destruct (isb (if obj then 125%Z else 93%Z) c); [inversion M; constructor|].
  eapply members_from_values; [|exact M].
  rewrite <- K. assert (L1 : skipn 1 (skipn (ws data) data) = r) by (rewrite L; reflexivity).
  rewrite <- L1, !skipn_skipn. f_equal. lia.
Qed.
