(** Second part of the language-level theorems (continues SpecFacts.v):
    the plain-automaton number tail, SkipValueFast against SkipValue (C11), the handler
    machines with well-behaved handlers (C07), the string machines (C06). *)
From Coq Require Import List ZArith Bool Lia.
From Coq Require Import Strings.Byte.
From Rjson Require Import Base BaseFacts Helpers Machine MachineFacts Safety Api SpecMachines Ref SpecFacts.
Import ListNotations.
Local Open Scope Z_scope.

(** * The number tail in the contexts that use the plain automaton (CFTop, CHArr, CHObj) *)
Section Auto.
  Variable md : Z.
  Variable chk : bool.
  Variable start : sstate.
  Variable data : list byte.
  Variable h : handler.

  Notation ReachS := (Reach md chk start data h).
  Notation EndsS := (Ends md chk start data h).
  Notation AtS := (At data).

  Ltac chainO R := eapply Reach_Ends_fr; [exact R|reflexivity|].

  (** value tokens in a context without scanners and without end-of-token units *)
  Definition plainctx (c : ctx) : Prop := scans c = false /\ forall t, end_units c t = [].

  Lemma ns_step : forall c t b, plainctx c ->
    match tok_step t b with
    | TGo t' => strans chk (c, PTok t) b = ([], Some (c, PTok t'))
    | TEnd => strans chk (c, PTok t) b = ([], Some (c, after c))
    | TErr => strans chk (c, PTok t) b = fail c
    | TStop => strans chk (c, PTok t) b = strans chk (c, after c) b
    end.
  Proof.
    intros c t b [NS EU].
    destruct (tok_step t b) eqn:TS; unfold strans at 1; rewrite NS; cbn [andb]; rewrite TS; try reflexivity.
    - rewrite EU. reflexivity.
    - destruct c; reflexivity.
  Qed.

  Lemma ns_go : forall c t t' s b r, plainctx c -> AtS s (b :: r) -> tok_step t b = TGo t' ->
    ReachS (c, PTok t) s (c, PTok t') (adv s 1).
  Proof. intros c t t' s b r P H T. pose proof (ns_step c t b P) as G. rewrite T in G. eapply Reach_silent; eauto. Qed.
  Lemma ns_err : forall c t s b r, plainctx c -> AtS s (b :: r) -> tok_step t b = TErr ->
    EndsS (c, PTok t) s (ErrOf c s).
  Proof. intros c t s b r P H T. pose proof (ns_step c t b P) as G. rewrite T in G. eapply fail_step; eauto. Qed.
  Lemma ns_eof : forall c t s, tok_complete t = false -> AtS s [] -> EndsS (c, PTok t) s (ErrOf c s).
  Proof. intros c t s T H. apply fail_eof; auto. apply ptok_eof; auto. Qed.

  (** a complete number token hands the next byte (or the end of input) to the after-value position *)
  Lemma ns_stop : forall c t s l, plainctx c -> tok_complete t = true -> AtS s l ->
    match l with [] => True | b :: _ => tok_step t b = TStop end ->
    ReachS (c, PTok t) s (c, after c) s.
  Proof.
    intros c t s l P TC H C f F. exists f. split; auto.
    destruct l as [|b r].
    - rewrite !(cont_eof md chk start data h f _ s H). f_equal. cbn [seof]. rewrite TC. destruct c; reflexivity.
    - destruct f as [|f]; [rewrite (rem_cons data _ _ _ H) in F; lia|].
      rewrite !(cont_S md chk start data h f _ s b r H).
      pose proof (ns_step c t b P) as G. rewrite C in G. rewrite G. reflexivity.
  Qed.

  (** one or more digits: from [t0] (which wants a digit) into the digit loop of [tl] *)
  Lemma digits1 : forall c t0 tl s r, plainctx c -> tok_complete t0 = false -> AtS s r ->
    (forall b r', r = b :: r' -> tok_step t0 b = if is_digit b then TGo tl else TErr) ->
    (forall b, is_digit b = true -> tok_step tl b = TGo tl) ->
    if Nat.eqb (digits r) 0 then EndsS (c, PTok t0) s (ErrOf c s)
    else ReachS (c, PTok t0) s (c, PTok tl) (adv s (digits r)).
  Proof.
    intros c t0 tl s r P TC H S0 SL. destruct r as [|d r'].
    - cbn. apply ns_eof; auto.
    - unfold digits. cbn [count_while]. destruct (is_digit d) eqn:D; cbn [Nat.eqb].
      + assert (R1 : ReachS (c, PTok t0) s (c, PTok tl) (adv s 1)).
        { eapply ns_go; eauto. rewrite (S0 d r' eq_refl), D. reflexivity. }
        pose proof (At_adv1 data _ _ _ H) as H1.
        assert (L : ReachS (c, PTok tl) (adv s 1) (c, PTok tl) (adv (adv s 1) (count_while is_digit r'))).
        { apply (while_loop md chk start data h is_digit); [|exact H1].
          intros b Db. pose proof (ns_step c tl b P) as G. rewrite (SL b Db) in G. exact G. }
        rewrite adv_adv in L. eapply Reach_trans; eauto.
      + eapply ns_err; eauto. rewrite (S0 d r' eq_refl), D. reflexivity.
  Qed.

  (** the exponent part, from a complete state [t] that takes 'e' / 'E' to TExp0 and stops otherwise *)
  Lemma exp_auto : forall c t s l, plainctx c -> tok_complete t = true -> AtS s l ->
    (forall b r, l = b :: r -> tok_step t b = if is_exp b then TGo TExp0 else TStop) ->
    match exp_part l with
    | Some k => ReachS (c, PTok t) s (c, after c) (adv s k) /\ (k <= length l)%nat
    | None => EndsS (c, PTok t) s (ErrOf c s)
    end.
  Proof.
    intros c t s l P TC H TE. destruct l as [|b r].
    - cbn. rewrite adv_0. split; [|lia]. eapply ns_stop; eauto. exact I.
    - specialize (TE b r eq_refl). unfold exp_part. destruct (is_exp b) eqn:X.
      2:{ rewrite adv_0. split; [|lia]. eapply ns_stop; eauto. }
      pose proof (ns_go c t TExp0 s b r P H TE) as R1.
      pose proof (At_adv1 data _ _ _ H) as H1.
      assert (STOP : forall s' l', AtS s' l' -> match l' with b' :: _ => is_digit b' = false | [] => True end ->
                     ReachS (c, PTok TExp) s' (c, after c) s').
      { intros s' l' H' ND. eapply ns_stop; eauto. destruct l' as [|b' r']; [exact I|]. cbn. rewrite ND. reflexivity. }
      destruct r as [|s0 r1]; [chainO R1; apply ns_eof; auto|].
      destruct (is_sign s0) eqn:SG.
      + assert (R2 : ReachS (c, PTok TExp0) (adv s 1) (c, PTok TExpS) (adv s 2)).
        { replace (adv s 2) with (adv (adv s 1) 1) by (rewrite adv_adv; reflexivity). eapply ns_go; eauto. cbn. rewrite SG. reflexivity. }
        pose proof (At_adv1 data _ _ _ H1) as H2. rewrite adv_adv in H2.
        pose proof (digits1 c TExpS TExp _ r1 P eq_refl H2 (fun b r' _ => eq_refl)
                      ltac:(intros b0 Db; cbn; rewrite Db; reflexivity)) as DG.
        destruct (Nat.eqb (digits r1) 0) eqn:Z.
        * chainO R1. chainO R2. exact DG.
        * rewrite adv_adv in DG. pose proof (digits_le r1) as DL.
          pose proof (At_adv data _ r1 (digits r1) H2 DL) as H3. rewrite adv_adv in H3.
          split; [|cbn; lia].
          eapply Reach_trans; [exact R1|]. eapply Reach_trans; [exact R2|]. eapply Reach_trans; [exact DG|].
          replace (2 + digits r1)%nat with (1 + 1 + digits r1)%nat by lia.
          apply (STOP _ _ H3). destruct (skipn (digits r1) r1) eqn:K; [exact I|]. eapply while_next; exact K.
      + pose proof (digits1 c TExp0 TExp _ (s0 :: r1) P eq_refl H1
                      ltac:(intros b0 r' E; inversion E; subst; cbn [tok_step]; rewrite SG; reflexivity)
                      ltac:(intros b0 Db; cbn; rewrite Db; reflexivity)) as DG.
        destruct (Nat.eqb (digits (s0 :: r1)) 0) eqn:Z.
        * chainO R1. exact DG.
        * rewrite adv_adv in DG. pose proof (digits_le (s0 :: r1)) as DL.
          pose proof (At_adv data _ _ (digits (s0 :: r1)) H1 DL) as H3. rewrite adv_adv in H3.
          split; [|cbn [length] in *; lia].
          eapply Reach_trans; [exact R1|]. eapply Reach_trans; [exact DG|].
          apply (STOP _ _ H3). destruct (skipn (digits (s0 :: r1)) (s0 :: r1)) eqn:K; [exact I|]. eapply while_next; exact K.
  Qed.

  Lemma dot_not_digit : forall b, (bz b =? 46) = true -> is_digit b = false.
  Proof. intros b H. apply Z.eqb_eq in H. unfold is_digit. rewrite H. reflexivity. Qed.

  (** the tail of a number after its integer part, by the automaton *)
  Lemma auto_tail : forall c t s l, plainctx c -> in_intpart t = true -> AtS s l ->
    (t = TInt -> match l with b :: _ => is_digit b = false | [] => True end) ->
    match tail_ref l with
    | Some k => ReachS (c, PTok t) s (c, after c) (adv s k) /\ (k <= length l)%nat
    | None => EndsS (c, PTok t) s (ErrOf c s)
    end.
  Proof.
    intros c t s l P IT H ND.
    assert (TC : tok_complete t = true) by (destruct t; try discriminate; reflexivity).
    destruct l as [|b r].
    - cbn. rewrite adv_0. split; [|lia]. eapply ns_stop; eauto. exact I.
    - destruct (bz b =? 46) eqn:D.
      + (* fraction *)
        assert (TS : tok_step t b = TGo TFrac0).
        { destruct t; try discriminate; cbn; unfold is, ch_dot; rewrite D; [reflexivity|].
          rewrite (dot_not_digit b D). reflexivity. }
        pose proof (ns_go c t TFrac0 s b r P H TS) as R1.
        pose proof (At_adv1 data _ _ _ H) as H1.
        pose proof (digits1 c TFrac0 TFrac _ r P eq_refl H1 (fun b0 r' _ => eq_refl)
                      ltac:(intros b0 Db; cbn; rewrite Db; reflexivity)) as DG.
        unfold tail_ref, frac_part. change (isb 46 b) with (bz b =? 46). rewrite D.
        destruct (Nat.eqb (digits r) 0) eqn:Z.
        * chainO R1. exact DG.
        * rewrite adv_adv in DG. pose proof (digits_le r) as DL.
          pose proof (At_adv data _ r (digits r) H1 DL) as H2. rewrite adv_adv in H2.
          change (skipn (S (digits r)) (b :: r)) with (skipn (digits r) r).
          pose proof (exp_auto c TFrac _ (skipn (digits r) r) P eq_refl H2) as EA.
          assert (TE : forall b0 r0, skipn (digits r) r = b0 :: r0 -> tok_step TFrac b0 = if is_exp b0 then TGo TExp0 else TStop).
          { intros b0 r0 K. cbn. rewrite (while_next is_digit r b0 r0 K). reflexivity. }
          specialize (EA TE).
          destruct (exp_part (skipn (digits r) r)) as [e|].
          -- destruct EA as [EA K]. rewrite adv_adv in EA. rewrite skipn_length in K. split; [|cbn [length]; lia].
             replace (S (digits r) + e)%nat with (1 + digits r + e)%nat by lia.
             eapply Reach_trans; [exact R1|]. eapply Reach_trans; [exact DG|exact EA].
          -- chainO R1. chainO DG. exact EA.
      + assert (TR : tail_ref (b :: r) = exp_part (b :: r)).
        { unfold tail_ref, frac_part. change (isb 46 b) with (bz b =? 46). rewrite D. cbn [skipn].
          destruct (exp_part (b :: r)); reflexivity. }
        rewrite TR. apply exp_auto; auto.
        intros b0 r0 E. inversion E; subst b0 r0.
        destruct t; try discriminate; cbn; unfold is, ch_dot; rewrite D; [reflexivity|].
        rewrite (ND eq_refl). reflexivity.
  Qed.

  (** ** scalar tokens after their first byte, for any context whose number tail is known *)
  Definition NumTail (c : ctx) : Prop :=
    forall t s l, in_intpart t = true -> AtS s l -> s_err s = None ->
      (t = TInt -> match l with b :: _ => is_digit b = false | [] => True end) ->
      match tail_ref l with
      | Some k => ReachS (c, PTok t) s (c, after c) (adv s k) /\ (k <= length l)%nat
      | None => EndsS (c, PTok t) s (ErrAny s)
      end.

  Lemma NumTail_strict : forall c, strict c -> NumTail c.
  Proof. intros c SC t s l IT H E ND. apply int_tail; auto. Qed.
  Lemma NumTail_plain : forall c, plainctx c -> NumTail c.
  Proof.
    intros c P t s l IT H E ND. pose proof (auto_tail c t s l P IT H ND) as A.
    destruct (tail_ref l); [exact A|]. eapply Ends_Of_Any; eauto.
  Qed.

  Ltac chainA R := eapply Reach_Ends_any; [exact R|reflexivity|].

  Section Scalar.
    Variable c : ctx.
    Hypothesis EU : forall t, end_units c t = [].
    Hypothesis NT : NumTail c.

    Lemma sc_go : forall t b, pdom t = true ->
      match tok_step t b with
      | TGo t' => strans chk (c, PTok t) b = ([], Some (c, PTok t'))
      | TEnd => strans chk (c, PTok t) b = ([], Some (c, after c))
      | TErr => strans chk (c, PTok t) b = fail c
      | TStop => True
      end.
    Proof. intros t b D. apply ptok_go; [apply negb_true_iff; exact D|apply EU]. Qed.

    Lemma sc_int_loop : forall s r, AtS s r -> ReachS (c, PTok TInt) s (c, PTok TInt) (adv s (digits r)).
    Proof.
      intros s r H. apply (while_loop md chk start data h is_digit); [|exact H].
      intros b D. destruct (digit_not_dot_exp b D) as [N1 N2].
      unfold strans. unfold is, ch_dot. rewrite N1, N2, !andb_false_r. cbn [andb]. cbn [tok_step]. rewrite D. reflexivity.
    Qed.

    (** after the first digit [d]: the state is TZero for '0' and TInt otherwise *)
    Lemma unsigned_rest : forall d r s, is_digit d = true -> AtS s r -> s_err s = None ->
      match unsigned_tok (d :: r) with
      | Some n => exists m, n = S m /\ (m <= length r)%nat /\
                  ReachS (c, PTok (if bz d =? 48 then TZero else TInt)) s (c, after c) (adv s m)
      | None => EndsS (c, PTok (if bz d =? 48 then TZero else TInt)) s (ErrAny s)
      end.
    Proof.
      intros d r s D H E. rewrite unsigned_tail. unfold int_part. rewrite digit_split in D.
      change (isb 48 d) with (bz d =? 48). destruct (bz d =? 48) eqn:Z0.
      - cbn [skipn]. pose proof (NT TZero s r eq_refl H E ltac:(discriminate)) as T.
        destruct (tail_ref r) as [k|]; cbn [option_map]; [|exact T].
        destruct T as [T K]. exists k. auto.
      - cbn [orb] in D. rewrite D. cbn [skipn].
        pose proof (sc_int_loop s r H) as L.
        pose proof (At_adv data s r (digits r) H (digits_le r)) as H1.
        assert (ND : TInt = TInt -> match skipn (digits r) r with b :: _ => is_digit b = false | [] => True end).
        { intros _. destruct (skipn (digits r) r) as [|b r'] eqn:K; [exact I|]. eapply while_next. exact K. }
        pose proof (NT TInt _ _ eq_refl H1 E ND) as T.
        destruct (tail_ref (skipn (digits r) r)) as [k|]; cbn [option_map].
        + destruct T as [T K]. rewrite adv_adv in T. rewrite skipn_length in K. pose proof (digits_le r).
          exists (digits r + k)%nat. split; [reflexivity|]. split; [lia|]. eapply Reach_trans; eauto.
        + chainA L. exact T.
    Qed.

    Lemma scalar_rest : forall b r t s, tok_first b = Some t -> AtS s r -> s_err s = None ->
      match scalar_tok (b :: r) with
      | Some n => exists m, n = S m /\ (m <= length r)%nat /\ ReachS (c, PTok t) s (c, after c) (adv s m)
      | None => EndsS (c, PTok t) s (ErrAny s)
      end.
    Proof.
      intros b r t s TF H E. unfold scalar_tok.
      assert (TFQ : isb 34 b = true -> tok_first b = Some TStr).
      { intros Q. unfold tok_first. change (is ch_quote b) with (isb 34 b). rewrite Q. reflexivity. }
      destruct (isb 34 b) eqn:Q.
      { rewrite (TFQ eq_refl) in TF. inversion TF; subst t. unfold string_tok. rewrite Q.
        pose proof (string_run md chk start data h c (fun t => (c, PTok t)) (c, after c) pdom sc_go
                      (pdom_eof c) ltac:(repeat split; reflexivity) (length r) r s (le_n _) H) as T.
        destruct (string_body r) as [k|]; cbn [option_map].
        - destruct T as [T K]. exists k. auto.
        - eapply Ends_Of_Any; eauto. }
      assert (TFM : isb 45 b = true -> tok_first b = Some TNeg).
      { intros M. unfold tok_first. change (is ch_quote b) with (isb 34 b). change (is ch_minus b) with (isb 45 b).
        rewrite Q, M. reflexivity. }
      destruct (isb 45 b) eqn:M; cbn [orb].
      { rewrite (TFM eq_refl) in TF. inversion TF; subst t. unfold number_tok. rewrite M.
        destruct r as [|d r'].
        - cbn. apply (Ends_Of_Any md chk start data h c). apply fail_eof; [exact H|reflexivity].
        - assert (TN : tok_step TNeg d = if bz d =? 48 then TGo TZero else if r_is_digit19 d then TGo TInt else TErr) by reflexivity.
          pose proof (sc_go TNeg d eq_refl) as G. rewrite TN in G.
          pose proof (At_adv1 data _ _ _ H) as H1.
          destruct (is_digit d) eqn:D.
          + pose proof (unsigned_rest d r' (adv s 1) D H1 E) as U.
            assert (R1 : ReachS (c, PTok TNeg) s (c, PTok (if bz d =? 48 then TZero else TInt)) (adv s 1)).
            { eapply Reach_silent; [exact H|]. rewrite digit_split in D. destruct (bz d =? 48); [exact G|].
              cbn [orb] in D. rewrite D in G. exact G. }
            destruct (unsigned_tok (d :: r')) as [n|]; cbn [option_map].
            * destruct U as (m & -> & K & U). rewrite adv_adv in U. exists (S m). split; [reflexivity|].
              split; [cbn [length]; lia|]. eapply Reach_trans; eauto.
            * chainA R1. exact U.
          + assert (UN : unsigned_tok (d :: r') = None).
            { unfold unsigned_tok, int_part. rewrite digit_split in D. apply orb_false_iff in D. destruct D as [D1 D2].
              change (isb 48 d) with (bz d =? 48). rewrite D1, D2. reflexivity. }
            rewrite UN. cbn. apply (Ends_Of_Any md chk start data h c). eapply fail_step; [exact H|].
            rewrite digit_split in D. apply orb_false_iff in D. destruct D as [D1 D2]. rewrite D1, D2 in G. exact G. }
      destruct (is_digit b) eqn:D.
      { unfold number_tok. rewrite M.
        assert (TT : t = if bz b =? 48 then TZero else TInt).
        { unfold tok_first in TF. change (is ch_quote b) with (isb 34 b) in TF. change (is ch_minus b) with (isb 45 b) in TF.
          rewrite Q, M in TF. unfold is, ch_zero in TF. change (is_digit19 b) with (r_is_digit19 b) in TF.
          rewrite digit_split in D. destruct (bz b =? 48); [inversion TF; reflexivity|].
          cbn [orb] in D. rewrite D in TF. inversion TF; reflexivity. }
        subst t. apply unsigned_rest; auto. }
      assert (TFL : tok_first b = if isb 116 b then Some T_t else if isb 102 b then Some T_f else if isb 110 b then Some T_n else None).
      { unfold tok_first. change (is ch_quote b) with (isb 34 b). change (is ch_minus b) with (isb 45 b). rewrite Q, M.
        rewrite digit_split in D. apply orb_false_iff in D. destruct D as [D1 D2].
        unfold is, ch_zero. change (is_digit19 b) with (r_is_digit19 b). rewrite D1, D2. reflexivity. }
      assert (LIT : forall t0 w x, is_lit t0 = true -> t = t0 -> bz b = x -> map bz w = x :: lit_rest t0 ->
                match lit_ref w (b :: r) with
                | Some n => exists m, n = S m /\ (m <= length r)%nat /\ ReachS (c, PTok t) s (c, after c) (adv s m)
                | None => EndsS (c, PTok t) s (ErrAny s)
                end).
      { intros t0 w x IL TE BX MW. subst t0.
        unfold lit_ref. rewrite is_prefix_z, MW. cbn [zprefix]. rewrite BX, Z.eqb_refl. cbn [andb].
        pose proof (lit_ok md chk start data h c (fun t => (c, PTok t)) (c, after c) pdom sc_go (pdom_eof c)
                      lit_not_complete t IL s r H) as T.
        assert (LW : length w = S (length (lit_rest t))) by (rewrite <- (map_length bz w), MW; reflexivity).
        destruct (zprefix (lit_rest t) r) eqn:ZP.
        - exists (length (lit_rest t)). split; [exact LW|]. split; [apply zprefix_len; exact ZP|exact T].
        - eapply Ends_Of_Any; eauto. }
      rewrite TFL in TF.
      destruct (isb 116 b) eqn:L1.
      { inversion TF; subst t. apply (LIT T_t lit_true 116); auto. apply Z.eqb_eq. exact L1. }
      destruct (isb 102 b) eqn:L2.
      { inversion TF; subst t. apply (LIT T_f lit_false 102); auto. apply Z.eqb_eq. exact L2. }
      destruct (isb 110 b) eqn:L3.
      { inversion TF; subst t. apply (LIT T_n lit_null 110); auto. apply Z.eqb_eq. exact L3. }
      discriminate.
    Qed.
  End Scalar.
End Auto.

(** * SkipValueFast agrees with SkipValue on well-formed values (C11) *)

(** ** which bytes number and literal tokens are made of *)
Definition plainb (b : byte) : bool :=
  negb (isb 34 b) && negb (isb 91 b) && negb (isb 93 b) && negb (isb 123 b) && negb (isb 125 b).
Definition numchar (b : byte) : bool := is_digit b || is_sign b || isb 46 b || is_exp b.

Lemma numchar_plain : forall b, numchar b = true -> plainb b = true.
Proof.
  intro b. pose proof (forall_bytes (fun b => negb (numchar b) || plainb b) ltac:(vm_compute; reflexivity) b) as H.
  intros N. cbn beta in H. rewrite N in H. exact H.
Qed.
Lemma ws_plain : forall b, is_ws b = true -> plainb b = true.
Proof.
  intro b. pose proof (forall_bytes (fun b => negb (is_ws b) || plainb b) ltac:(vm_compute; reflexivity) b) as H.
  intros N. cbn beta in H. rewrite N in H. exact H.
Qed.
Lemma comma_plain : forall b, isb 44 b = true -> plainb b = true.
Proof. intros b H. apply Z.eqb_eq in H. unfold plainb, isb. rewrite H. reflexivity. Qed.
Lemma colon_plain : forall b, isb 58 b = true -> plainb b = true.
Proof. intros b H. apply Z.eqb_eq in H. unfold plainb, isb. rewrite H. reflexivity. Qed.

Lemma firstn_add : forall {A} a b (l : list A), firstn (a + b) l = firstn a l ++ firstn b (skipn a l).
Proof. intros A a. induction a as [|a IH]; intros b [|x l]; cbn; auto; [destruct b; reflexivity|]. rewrite IH. reflexivity. Qed.

Lemma cw_forall : forall f l, forallb f (firstn (count_while f l) l) = true.
Proof. intros f. induction l as [|x l IH]; cbn; auto. destruct (f x) eqn:E; cbn; auto. rewrite E. exact IH. Qed.

Lemma forallb_impl : forall (f g : byte -> bool) l, (forall b, f b = true -> g b = true) ->
  forallb f l = true -> forallb g l = true.
Proof. intros f g l I H. rewrite forallb_forall in *. auto. Qed.

Lemma digits_numchar : forall l, forallb numchar (firstn (digits l) l) = true.
Proof.
  intros l. eapply forallb_impl; [|apply cw_forall]. intros b D. unfold numchar. rewrite D. reflexivity.
Qed.

(** a piece of a number: its length fits and its bytes are number bytes *)
Definition piece (l : list byte) (n : nat) : Prop := (n <= length l)%nat /\ forallb numchar (firstn n l) = true.

Lemma piece_0 : forall l, piece l 0.
Proof. intros l. split; [lia|reflexivity]. Qed.
Lemma piece_cons : forall b r n, numchar b = true -> piece r n -> piece (b :: r) (S n).
Proof. intros b r n B [L F]. split; [cbn; lia|]. cbn. rewrite B. exact F. Qed.
Lemma piece_add : forall l a b, piece l a -> piece (skipn a l) b -> piece l (a + b).
Proof.
  intros l a b [LA FA] [LB FB]. rewrite skipn_length in LB. split; [lia|].
  rewrite firstn_add, forallb_app, FA, FB. reflexivity.
Qed.
Lemma piece_digits : forall l, piece l (digits l).
Proof. intros l. split; [apply digits_le|apply digits_numchar]. Qed.

Lemma int_part_piece : forall l i, int_part l = Some i -> piece l i.
Proof.
  intros [|d r] i H; [discriminate|]. unfold int_part in H.
  assert (ND : forall x : unit, isb 48 d = true \/ r_is_digit19 d = true -> numchar d = true).
  { intros _ X. unfold numchar. rewrite digit_split. change (isb 48 d) with (bz d =? 48) in X.
    destruct X as [-> | ->]; [reflexivity|]. rewrite orb_true_r. reflexivity. }
  destruct (isb 48 d) eqn:Z.
  - inversion H. apply piece_cons; [apply (ND tt); auto|apply piece_0].
  - destruct (r_is_digit19 d) eqn:D; [|discriminate]. inversion H. apply piece_cons; [apply (ND tt); auto|apply piece_digits].
Qed.
Lemma frac_part_piece : forall l f, frac_part l = Some f -> piece l f.
Proof.
  intros [|c r] f H; [inversion H; apply piece_0|]. unfold frac_part in H.
  destruct (isb 46 c) eqn:D; [|inversion H; apply piece_0].
  destruct (Nat.eqb (digits r) 0); [discriminate|]. inversion H.
  apply piece_cons; [unfold numchar; rewrite D, !orb_true_r; reflexivity|apply piece_digits].
Qed.
Lemma exp_part_piece : forall l e, exp_part l = Some e -> piece l e.
Proof.
  intros [|c r] e H; [inversion H; apply piece_0|]. unfold exp_part in H.
  destruct (is_exp c) eqn:X; [|inversion H; apply piece_0].
  assert (NC : numchar c = true) by (unfold numchar; rewrite X, !orb_true_r; reflexivity).
  destruct r as [|s r1]; [discriminate|].
  destruct (is_sign s) eqn:S.
  - destruct (Nat.eqb (digits r1) 0); [discriminate|]. inversion H.
    apply piece_cons; [exact NC|]. apply piece_cons; [unfold numchar; rewrite S, orb_true_r; reflexivity|apply piece_digits].
  - destruct (Nat.eqb (digits (s :: r1)) 0); [discriminate|]. inversion H.
    apply piece_cons; [exact NC|apply piece_digits].
Qed.
Lemma unsigned_tok_piece : forall l n, unsigned_tok l = Some n -> piece l n.
Proof.
  intros l n H. unfold unsigned_tok in H.
  destruct (int_part l) as [i|] eqn:I; [|discriminate].
  destruct (frac_part (skipn i l)) as [f|] eqn:F; [|discriminate].
  destruct (exp_part (skipn (i + f) l)) as [e|] eqn:E; [|discriminate]. inversion H.
  apply piece_add; [apply piece_add; [apply int_part_piece; auto|apply frac_part_piece; auto]|apply exp_part_piece; auto].
Qed.
Lemma number_tok_piece : forall l n, number_tok l = Some n -> piece l n.
Proof.
  intros [|c r] n H; [discriminate|]. unfold number_tok in H.
  destruct (isb 45 c) eqn:M; [|apply unsigned_tok_piece; exact H].
  destruct (unsigned_tok r) as [m|] eqn:U; [|discriminate]. inversion H.
  apply piece_cons; [|apply unsigned_tok_piece; exact U].
  unfold numchar, is_sign. change (isb 45 c) with (bz c =? 45) in M. rewrite M, !orb_true_r. reflexivity.
Qed.

Lemma is_prefix_firstn : forall w l, is_prefix w l = true -> firstn (length w) l = w /\ (length w <= length l)%nat.
Proof.
  induction w as [|x w IH]; intros [|y l] H; cbn in *; try discriminate; auto; [split; [reflexivity|lia]|].
  apply andb_true_iff in H. destruct H as [E H]. apply Z.eqb_eq in E.
  assert (y = x) by (rewrite <- (zb_bz y), <- (zb_bz x), E; reflexivity). subst y.
  destruct (IH l H) as [F L]. rewrite F. split; [reflexivity|lia].
Qed.

(** a scalar token that is not a string consists of plain bytes *)
Lemma scalar_plain : forall b r n, scalar_tok (b :: r) = Some n -> isb 34 b = false ->
  (n <= length (b :: r))%nat /\ forallb plainb (firstn n (b :: r)) = true.
Proof.
  intros b r n H Q. unfold scalar_tok in H. rewrite Q in H.
  assert (LIT : forall w, forallb plainb w = true -> lit_ref w (b :: r) = Some n ->
                (n <= length (b :: r))%nat /\ forallb plainb (firstn n (b :: r)) = true).
  { intros w PW L. unfold lit_ref in L. destruct (is_prefix w (b :: r)) eqn:P; [|discriminate]. inversion L.
    destruct (is_prefix_firstn _ _ P) as [F LL]. rewrite F. auto. }
  destruct (isb 45 b || is_digit b).
  - destruct (number_tok_piece _ _ H) as [L F]. split; [exact L|]. eapply forallb_impl; [apply numchar_plain|exact F].
  - destruct (isb 116 b); [apply (LIT lit_true); auto|].
    destruct (isb 102 b); [apply (LIT lit_false); auto|].
    destruct (isb 110 b); [apply (LIT lit_null); auto|discriminate].
Qed.
