(** FpDecDefs.v -- shared vocabulary for the proofs about the decimal slow path
    (decimal.go: set, leftShift, rightShift, Shift, RoundedInteger, floatBits). *)
From Coq Require Import List ZArith Lia Bool.
From Coq Require Import Strings.Byte.
From Rjson Require Import Base Helpers Round Fp FpSpec FpTables.
Import ListNotations.
Local Open Scope Z_scope.

(** value of a list of digit values, most significant first *)
Definition dval_z (l : list Z) : Z := fold_left (fun acc d => acc * 10 + d) l 0.

(** the value of a decimal, 0.d1 d2 ... dn * 10^dp = dval_z d * 10^(dp - n), as a fraction (num, den) *)
Definition dec_frac (a : decimal) : Z * Z :=
  let k := d_dp a - len (d_d a) in (dval_z (d_d a) * P10 k, P10 (- k)).

Definition digs_ok (l : list Z) : Prop := Forall (fun d => 0 <= d <= 9) l.

(** well-formed decimal: digit values, at most 800 of them, no leading zero digit *)
Definition dec_wf (a : decimal) : Prop :=
  digs_ok (d_d a) /\ len (d_d a) <= dec_cap /\ (match d_d a with d :: _ => d <> 0 | [] => True end).

(** trimmed: no trailing zero digit (true after every shift) *)
Definition dec_trimmed (a : decimal) : Prop :=
  match rev (d_d a) with d :: _ => d <> 0 | [] => True end.

(** value a' = value a * 2^k, k of either sign, cross-multiplied *)
Definition shift_val (a a' : decimal) (k : Z) : Prop :=
  fst (dec_frac a') * snd (dec_frac a) * P2 (- k) = fst (dec_frac a) * P2 k * snd (dec_frac a').

(** the interface between the shift proofs and the floatBits proof: a shift that ends with the
    trunc flag clear dropped nothing and multiplied the value by exactly 2^k *)
Definition Shift_exact_stmt (T : fp_tables) : Prop :=
  forall a k a',
    dec_wf a -> d_d a <> [] -> Shift_m T a k = Some a' -> d_trunc a' = false ->
    d_trunc a = false /\ dec_wf a' /\ dec_trimmed a' /\ d_d a' <> [] /\
    d_neg a' = d_neg a /\ shift_val a a' k.

(** [Shift_exact_stmt] is false for k = 0 (Shift returns its argument, which need not be
    trimmed: FpDecShift.Shift_exact_stmt_false); the provable and sufficient interface excludes
    k = 0 (floatBits never shifts by 0).  Proved in FpDecShift.v as [Shift_exact_nz]. *)
Definition Shift_exact_nz_stmt (T : fp_tables) : Prop :=
  forall a k a',
    k <> 0 ->
    dec_wf a -> d_d a <> [] -> Shift_m T a k = Some a' -> d_trunc a' = false ->
    d_trunc a = false /\ dec_wf a' /\ dec_trimmed a' /\ d_d a' <> [] /\
    d_neg a' = d_neg a /\ shift_val a a' k.

(** sanity: 0.625 * 2^3 = 5, 5 / 2^3 = 0.625 *)
Example shift_ex1 T :
  t_leftcheats T = [(0,0,0); (1,5,1); (1,25,2); (1,125,3)] ->
  Shift_m T {| d_d := [6;2;5]; d_dp := 0; d_neg := false; d_trunc := false |} 3
  = Some {| d_d := [5]; d_dp := 1; d_neg := false; d_trunc := false |}.
Proof. intros H. unfold Shift_m, shift_left_loop, leftShift_m. rewrite H. vm_compute. reflexivity. Qed.
Example shift_ex2 T :
  Shift_m T {| d_d := [5]; d_dp := 1; d_neg := false; d_trunc := false |} (-3)
  = Some {| d_d := [6;2;5]; d_dp := 0; d_neg := false; d_trunc := false |}.
Proof. vm_compute. reflexivity. Qed.
Example shift_val_ex :
  shift_val {| d_d := [6;2;5]; d_dp := 0; d_neg := false; d_trunc := false |}
            {| d_d := [5]; d_dp := 1; d_neg := false; d_trunc := false |} 3.
Proof. vm_compute. reflexivity. Qed.
