(** Facts about Base.v: lifting of 256-way byte sweeps, wrap64, get/len. *)
From Coq Require Import List ZArith Bool Lia.
From Coq Require Import Strings.Byte.
From Rjson Require Import Base.
Import ListNotations.
Local Open Scope Z_scope.

Lemma zb_bz : forall b, zb (bz b) = b.
Proof.
  intro b. unfold zb, bz. rewrite N2Z.id. rewrite Byte.of_to_N. reflexivity.
Qed.

Lemma bz_range : forall b, 0 <= bz b <= 255.
Proof.
  intro b. unfold bz. pose proof (Byte.to_N_bounded b). lia.
Qed.

Lemma all_bytes_complete : forall b, In b all_bytes.
Proof.
  intro b. unfold all_bytes.
  apply in_map_iff. exists (Z.to_nat (bz b)). split.
  - rewrite Z2Nat.id by (pose proof (bz_range b); lia). apply zb_bz.
  - apply in_seq. pose proof (bz_range b). lia.
Qed.

(** a boolean predicate checked on the 256 bytes holds for every byte *)
Lemma forall_bytes (P : byte -> bool) :
  forallb P all_bytes = true -> forall b, P b = true.
Proof.
  intros H b. rewrite forallb_forall in H. apply H. apply all_bytes_complete.
Qed.

Lemma wrap64_id : forall x, - two63 <= x < two63 -> wrap64 x = x.
Proof.
  intros x H. unfold wrap64, two63, two64 in *.
  rewrite Z.mod_small by lia. lia.
Qed.

Lemma wrap64_range : forall x, - two63 <= wrap64 x < two63.
Proof.
  intro x. unfold wrap64, two63, two64.
  pose proof (Z.mod_pos_bound (x + 9223372036854775808) 18446744073709551616 ltac:(lia)). lia.
Qed.

Lemma len_nonneg {A} (l : list A) : 0 <= len l.
Proof. unfold len. lia. Qed.

Lemma len_app {A} (l1 l2 : list A) : len (l1 ++ l2) = len l1 + len l2.
Proof. unfold len. rewrite app_length. lia. Qed.

Lemma get_Some_range : forall data p b, get data p = Some b -> 0 <= p < len data.
Proof.
  intros data p b H. unfold get in H. destruct (p <? 0) eqn:E; [discriminate|].
  apply Z.ltb_ge in E. assert (nth_error data (Z.to_nat p) <> None) as Hn by congruence.
  apply nth_error_Some in Hn. unfold len. lia.
Qed.

Lemma get_in_range : forall data p, 0 <= p < len data -> exists b, get data p = Some b.
Proof.
  intros data p H. unfold get. destruct (p <? 0) eqn:E; [apply Z.ltb_lt in E; lia|].
  destruct (nth_error data (Z.to_nat p)) eqn:Hn; [eauto|].
  apply nth_error_None in Hn. unfold len in H. lia.
Qed.
