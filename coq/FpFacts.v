(** FpFacts.v -- C04: composition of the layers into the end-to-end statement about
    [ParseJSONFloatPrefix_m] and [ReadFloat64_m].

    Layers (each in its own file, all closed under the global context):
      FpTables  tables_ok (finite table facts, discharged per run in run/TieFp.v)
      FpScan    readFloat_spec        (scanner)
      FpExact   atof64exact_correct   (exact float arithmetic path)
      FpEL      eisel_lemire_sound    (Eisel-Lemire, complete)
      FpDecShift, FpDecBits  Shift_exact_nz, set_spec, decimal_exact_partial (slow path, under the
                computable hypothesis that the run dropped no non-zero digit)
    This file: [parse_correct_partial], [ReadFloat64_correct_partial], the full statement
    [parse_correct_full] (kept visible; refuted for the model by [parse_correct_full_false]),
    and [jn_round_fast_ok] (the driver's evaluation shortcut for the specification). *)
From Coq Require Import List ZArith Lia Bool.
From Coq Require Import Strings.Byte.
From Rjson Require Import Base Helpers Round Fp FpSpec FpTables FpExact FpEL FpDecDefs.
From Rjson Require FpScan FpDecShift FpDecBits.
Import ListNotations.
Local Open Scope Z_scope.

(** * The structure of ParseJSONFloatPrefix_m *)

(** the two fast paths: exact float arithmetic, then Eisel-Lemire (with the upper-bound recheck
    when the mantissa was truncated) *)
Definition fast_path (T : fp_tables) (r : rf_res) : option Z :=
  match (if rf_trunc r then None else atof64exact_m T (rf_mant r) (rf_exp r) (rf_neg r)) with
  | Some f => Some f
  | None =>
    match eiselLemire64_m T (rf_mant r) (rf_exp r) (rf_neg r) with
    | Some f =>
      if negb (rf_trunc r) then Some f
      else match eiselLemire64_m T (u64 (rf_mant r + 1)) (rf_exp r) (rf_neg r) with
           | Some fUp => if f =? fUp then Some f else None
           | None => None
           end
    | None => None
    end
  end.

(** the slow path on the literal [lit] *)
Definition slow_path (T : fp_tables) (lit : list byte) (n : Z) : option (Z * Z * option fperr) :=
  match set_m lit with
  | None => Some (0, n, Some FpSyntax)
  | Some d => obind (floatBits_m T d) (fun '(b, ovf) =>
              if ovf then Some (0, n, Some FpRange) else Some (b, n, None))
  end.

(** ParseJSONFloatPrefix_m = scanner, the two syntax checks, fast paths, slow path *)
Lemma parse_unfold T data :
  ParseJSONFloatPrefix_m T data =
  let r := readFloat_m data in
  if negb (rf_ok r) then Some (0, 0, Some FpSyntax) else
  let n := rf_p r in
  if (0 <? n) && (match get data (n - 1) with Some b => bz b =? c_dot | None => false end)
  then Some (0, 0, Some FpSyntax) else
  match fast_path T r with
  | Some f => Some (f, n, None)
  | None => slow_path T (firstn (Z.to_nat n) data) n
  end.
Proof.
  unfold ParseJSONFloatPrefix_m, fast_path, slow_path. cbv zeta.
  destruct (negb (rf_ok (readFloat_m data))); [reflexivity|].
  destruct ((0 <? rf_p (readFloat_m data)) && _); [reflexivity|].
  destruct (if rf_trunc (readFloat_m data) then None else _); [reflexivity|].
  destruct (eiselLemire64_m T (rf_mant (readFloat_m data)) _ _); [|reflexivity].
  destruct (negb (rf_trunc (readFloat_m data))); [reflexivity|].
  destruct (eiselLemire64_m T (u64 _) _ _); [|reflexivity].
  destruct (_ =? _); reflexivity.
Qed.

(** * Rounding between two equal roundings *)

Lemma round_false_lt_inf n d c : round_ne false n d = (c, false) -> 0 <= n -> 0 < d -> 0 <= c < inf_bits.
Proof.
  unfold round_ne. intros H Hn Hd. destruct (Z.leb_spec n 0).
  - injection H as <-. split; [lia|reflexivity].
  - pose proof (round_pos_nonneg n d ltac:(lia) Hd).
    destruct (Z.leb_spec inf_bits (round_pos n d)); [discriminate|]. injection H as <-. lia.
Qed.

(** if the roundings of two fractions agree (no overflow), every fraction between them rounds the same *)
Lemma round_squeeze neg n1 d1 n d n2 d2 b :
  0 <= n1 -> 0 < d1 -> 0 <= n -> 0 < d -> 0 <= n2 -> 0 < d2 ->
  n1 * d <= n * d1 -> n * d2 <= n2 * d ->
  round_ne neg n1 d1 = (b, false) -> round_ne neg n2 d2 = (b, false) ->
  round_ne neg n d = (b, false).
Proof.
  intros Hn1 Hd1 Hn Hd Hn2 Hd2 Hle1 Hle2 R1 R2.
  rewrite (round_ne_sign neg n1 d1) in R1. rewrite (round_ne_sign neg n2 d2) in R2.
  rewrite (round_ne_sign neg n d).
  pose proof (round_ne_mono n1 d1 n d Hn1 Hd1 Hn Hd Hle1) as M1.
  pose proof (round_ne_mono n d n2 d2 Hn Hd Hn2 Hd2 Hle2) as M2.
  destruct (round_ne false n1 d1) as [c1 o1] eqn:E1. destruct (round_ne false n2 d2) as [c2 o2] eqn:E2.
  cbn [fst snd] in *. injection R1 as R1 ->. injection R2 as R2 ->.
  assert (c1 = c2) by lia. subst c2.
  pose proof (round_false_lt_inf n2 d2 c1 E2 Hn2 Hd2) as Hc.
  assert (Hfst : fst (round_ne false n d) = c1) by lia.
  assert (Hsnd : snd (round_ne false n d) = false).
  { destruct (round_ne_representable false n d Hn Hd) as (_ & Hr & Hiff & _).
    destruct (snd (round_ne false n d)) eqn:S; [|reflexivity]. exfalso.
    destruct Hiff as [Hiff _]. specialize (Hiff eq_refl).
    rewrite Hfst in Hiff. rewrite f_abs_small in Hiff by (pose proof inf_lt_sign; lia). lia. }
  rewrite Hfst, Hsnd. rewrite <- R1. reflexivity.
Qed.

(** 10^(k+t) = 10^k * 10^t in fraction form, t >= 0 *)
Lemma P10_shift k t : 0 <= t -> P10 (k + t) * P10 (- k) = P10 (- (k + t)) * P10 k * 10 ^ t.
Proof.
  intros Ht. unfold P10.
  destruct (Z_le_gt_dec 0 k) as [Hk|Hk].
  - rewrite (Z.max_l (k + t)), (Z.max_r (- k)), (Z.max_r (- (k + t))), (Z.max_l k) by lia.
    rewrite Z.pow_add_r by lia. change (10 ^ 0) with 1. ring.
  - destruct (Z_le_gt_dec 0 (k + t)) as [Hkt|Hkt].
    + rewrite (Z.max_l (k + t)), (Z.max_l (- k)), (Z.max_r (- (k + t))), (Z.max_r k) by lia.
      change (10 ^ 0) with 1. rewrite <- Z.pow_add_r by lia. replace (k + t + - k) with t by lia. ring.
    + rewrite (Z.max_r (k + t)), (Z.max_l (- k)), (Z.max_l (- (k + t))), (Z.max_r k) by lia.
      change (10 ^ 0) with 1. rewrite Z.mul_1_l, Z.mul_1_r, <- Z.pow_add_r by lia. f_equal. lia.
Qed.

(** * The fast paths are correct *)

Lemma round_ne_zero neg d : round_ne neg 0 d = (sgn neg, false).
Proof. reflexivity. Qed.

(** what the scanner reports about a literal of value D * 10^k (the conclusion of
    FpScan.readFloat_spec, as a predicate) *)
Definition scan_ok (r : rf_res) (D k : Z) : Prop :=
  0 <= rf_mant r < 10 ^ 19 /\
  exists t, 0 <= t /\ (rf_trunc r = false -> t = 0) /\
            rf_mant r * 10 ^ t <= D < (rf_mant r + 1) * 10 ^ t /\
            (rf_mant r <> 0 -> rf_exp r = k + t) /\
            (rf_mant r = 0 -> rf_exp r = 0).

(** if a fast path answers, the answer is the correct rounding of the literal's exact value:
    without truncation by the layer theorems; with truncation because the roundings of the two
    19-digit neighbours agree and rounding is monotone *)
Theorem fast_path_correct T r D k f :
  tables_ok T -> scan_ok r D k ->
  fast_path T r = Some f ->
  round_ne (rf_neg r) (D * P10 k) (P10 (- k)) = (f, false).
Proof.
  intros HT (Hm & t & Ht & Htr & HD & Hexp & Hexp0).
  assert (H64 : 10 ^ 19 < two64) by reflexivity.
  unfold fast_path. destruct (rf_trunc r) eqn:Htrunc.
  - (* truncated mantissa: Eisel-Lemire on m and m+1 *)
    destruct (eiselLemire64_m T (rf_mant r) (rf_exp r) (rf_neg r)) as [f1|] eqn:E1; [|discriminate].
    cbn [negb].
    rewrite (u64_small (rf_mant r + 1)) by lia.
    destruct (eiselLemire64_m T (rf_mant r + 1) (rf_exp r) (rf_neg r)) as [fUp|] eqn:E2; [|discriminate].
    destruct (Z.eqb_spec f1 fUp) as [Heq|]; [|discriminate].
    intros Hf. injection Hf as <-. subst fUp.
    pose proof (eisel_lemire_sound T (rf_mant r) (rf_exp r) (rf_neg r) f1 HT ltac:(lia) E1) as S1.
    pose proof (eisel_lemire_sound T (rf_mant r + 1) (rf_exp r) (rf_neg r) f1 HT ltac:(lia) E2) as S2.
    destruct (Z.eq_dec (rf_mant r) 0) as [Hz|Hnz].
    + (* 0 and 1 never round alike *)
      exfalso. rewrite Hz, (Hexp0 Hz) in S1, S2. destruct (rf_neg r); vm_compute in S1, S2; congruence.
    + rewrite (Hexp Hnz) in S1, S2.
      pose proof (P10_pos k). pose proof (P10_pos (- k)). pose proof (P10_pos (k + t)). pose proof (P10_pos (- (k + t))).
      assert (P10t : 0 < 10 ^ t) by (apply Z.pow_pos_nonneg; lia).
      pose proof (P10_shift k t Ht) as ES.
      assert (HD0 : 0 <= D) by nia.
      assert (A1 : rf_mant r * P10 (k + t) * P10 (- k) <= D * P10 k * P10 (- (k + t))).
      { replace (rf_mant r * P10 (k + t) * P10 (- k)) with (rf_mant r * (P10 (k + t) * P10 (- k))) by ring.
        rewrite ES.
        replace (rf_mant r * (P10 (- (k + t)) * P10 k * 10 ^ t)) with ((rf_mant r * 10 ^ t) * (P10 k * P10 (- (k + t)))) by ring.
        replace (D * P10 k * P10 (- (k + t))) with (D * (P10 k * P10 (- (k + t)))) by ring.
        apply Z.mul_le_mono_nonneg_r; nia. }
      assert (A2 : D * P10 k * P10 (- (k + t)) <= (rf_mant r + 1) * P10 (k + t) * P10 (- k)).
      { replace ((rf_mant r + 1) * P10 (k + t) * P10 (- k)) with ((rf_mant r + 1) * (P10 (k + t) * P10 (- k))) by ring.
        rewrite ES.
        replace ((rf_mant r + 1) * (P10 (- (k + t)) * P10 k * 10 ^ t)) with (((rf_mant r + 1) * 10 ^ t) * (P10 k * P10 (- (k + t)))) by ring.
        replace (D * P10 k * P10 (- (k + t))) with (D * (P10 k * P10 (- (k + t)))) by ring.
        apply Z.mul_le_mono_nonneg_r; nia. }
      exact (round_squeeze (rf_neg r) (rf_mant r * P10 (k + t)) (P10 (- (k + t)))
                           (D * P10 k) (P10 (- k))
                           ((rf_mant r + 1) * P10 (k + t)) (P10 (- (k + t))) f1
                           ltac:(nia) ltac:(lia) ltac:(nia) ltac:(lia) ltac:(nia) ltac:(lia) A1 A2 S1 S2).
  - (* the mantissa is the whole digit string *)
    specialize (Htr eq_refl). subst t. change (10 ^ 0) with 1 in HD.
    assert (HmD : rf_mant r = D) by lia.
    assert (Hgoal : forall f', round_ne (rf_neg r) (rf_mant r * P10 (rf_exp r)) (P10 (- rf_exp r)) = (f', false) ->
                               round_ne (rf_neg r) (D * P10 k) (P10 (- k)) = (f', false)).
    { intros f' S. destruct (Z.eq_dec (rf_mant r) 0) as [Hz|Hnz].
      - rewrite Hz in S. rewrite <- HmD, Hz. rewrite Z.mul_0_l in *. rewrite round_ne_zero in *. exact S.
      - rewrite (Hexp Hnz), Z.add_0_r, HmD in S. exact S. }
    destruct (atof64exact_m T (rf_mant r) (rf_exp r) (rf_neg r)) as [f0|] eqn:E0.
    + intros Hf. injection Hf as <-. apply Hgoal.
      apply (atof64exact_correct T (rf_mant r) (rf_exp r) (rf_neg r) f0 HT ltac:(lia) E0).
    + destruct (eiselLemire64_m T (rf_mant r) (rf_exp r) (rf_neg r)) as [f1|] eqn:E1; [|discriminate].
      cbn [negb]. intros Hf. injection Hf as <-. apply Hgoal.
      apply (eisel_lemire_sound T (rf_mant r) (rf_exp r) (rf_neg r) f1 HT ltac:(lia) E1).
Qed.

(** * End to end *)

(** the slow path, if taken on this literal, drops no non-zero digit (computable) *)
Definition slow_ok (T : fp_tables) (lit : list byte) : bool :=
  match set_m lit with Some d => FpDecBits.no_truncation T d | None => false end.

(** what ParseJSONFloatPrefix must return for the literal j: value and error as specified by round_ne *)
Definition parse_result_ok (j : jnum) (v : Z) (err : option fperr) : Prop :=
  if snd (jn_round j) then v = 0 /\ err = Some FpRange
  else v = fst (jn_round j) /\ err = None.

(** data[:len(lit)] of lit ++ rest is lit *)
Lemma firstn_len_app {A} (l1 l2 : list A) : firstn (Z.to_nat (len l1)) (l1 ++ l2) = l1.
Proof.
  unfold len. rewrite Nat2Z.id, firstn_app, Nat.sub_diag, firstn_all. cbn [firstn]. apply app_nil_r.
Qed.

(** C04, the part that is proved: on a JSON number literal followed by bytes that do not extend it
    (and do not hit one of the code's strict cases, see FpScan.rest_ok), with a written exponent of
    at most 5 significant digits, at most 800 significant mantissa digits, and a slow-path run (if
    any) that drops no non-zero digit, ParseJSONFloatPrefix returns the offset just after the
    literal and exactly the float64 (or the range error) that round_ne specifies. *)
Theorem parse_correct_partial T j rest v n err :
  tables_ok T -> jn_wf j = true -> FpScan.exp_small j -> FpScan.rest_ok j rest ->
  len (strip0 (j_int j ++ jn_frac_digits j)) <= 800 ->
  (fast_path T (readFloat_m (jn_bytes j ++ rest)) = None -> slow_ok T (jn_bytes j) = true) ->
  ParseJSONFloatPrefix_m T (jn_bytes j ++ rest) = Some (v, n, err) ->
  n = len (jn_bytes j) /\ parse_result_ok j v err.
Proof.
  intros HT Hwf Hes Hrest H800 Hslow.
  rewrite parse_unfold. cbv zeta.
  pose proof (FpScan.readFloat_spec j rest Hwf Hes Hrest) as Hscan. cbv zeta in Hscan.
  destruct Hscan as (Hok & Hp & Hneg & Hm & Hex).
  pose proof (FpScan.parse_second_check j rest Hwf Hes Hrest) as Hchk. cbv zeta in Hchk.
  rewrite Hok. cbn [negb]. rewrite Hchk, Hp.
  set (r := readFloat_m (jn_bytes j ++ rest)) in *.
  set (D := dval (j_int j ++ jn_frac_digits j)) in *.
  set (k := jn_exp10 j - len (jn_frac_digits j)) in *.
  assert (Hround : jn_round j = round_ne (j_neg j) (D * P10 k) (P10 (- k))) by reflexivity.
  destruct (fast_path T r) as [f|] eqn:Hfast.
  - intros Hres. injection Hres as <- <- <-. split; [reflexivity|].
    pose proof (fast_path_correct T r D k f HT (conj Hm Hex) Hfast) as Hc. rewrite Hneg in Hc.
    unfold parse_result_ok. rewrite Hround, Hc. cbn [fst snd]. split; reflexivity.
  - specialize (Hslow eq_refl). unfold slow_path. rewrite firstn_len_app.
    destruct (FpDecBits.set_spec j Hwf Hes) as (a & Hset & Haneg & Hawf & Hval).
    destruct (Hval H800) as (Hatr & Hveq).
    unfold slow_ok in Hslow. rewrite Hset in *.
    destruct (floatBits_m T a) as [[b ovf]|] eqn:Hfb; cbn [obind]; [|discriminate].
    pose proof (FpDecBits.decimal_exact_partial T HT a b ovf Hawf Hslow Hfb) as Hdec.
    assert (Hjn : jn_round j = (b, ovf)).
    { rewrite Hdec, Haneg. unfold jn_round.
      apply round_ne_frac_eq.
      - unfold jn_value. cbn [fst]. fold D. fold k.
        pose proof (FpDecBits.dval_nonneg _ (FpScan.jn_digits_all j Hwf)). pose proof (P10_pos k). fold D in H. nia.
      - unfold jn_value. cbn [snd]. apply P10_pos.
      - destruct (d_d a) eqn:Hd.
        + rewrite (FpDecBits.dec_num_nil a Hd). lia.
        + pose proof (FpDecBits.dec_num_pos a Hawf ltac:(rewrite Hd; discriminate)). lia.
      - apply FpDecBits.dec_den_pos.
      - lia. }
    intros Hres. unfold parse_result_ok. rewrite Hjn. cbn [fst snd].
    destruct ovf; injection Hres as <- <- <-; repeat split; reflexivity.
Qed.

(** * ReadFloat64 *)

Lemma is_digit_not_ws c : is_digit c = true -> is_ws c = false.
Proof.
  intros H. pose proof (FpScan.is_digit_range c H). unfold is_ws.
  repeat match goal with |- context [?a =? ?b] => destruct (Z.eqb_spec a b); [lia|] end. reflexivity.
Qed.

(** a literal starts with a byte that is not whitespace *)
Lemma jn_bytes_head j : jn_wf j = true -> exists c t, jn_bytes j = c :: t /\ is_ws c = false.
Proof.
  intros Hwf. unfold jn_wf in Hwf. apply andb_true_iff in Hwf as [Hwf _]. apply andb_true_iff in Hwf as [Hint _].
  unfold jn_bytes. destruct (j_neg j).
  - eexists _, _. split; [reflexivity|]. reflexivity.
  - destruct (j_int j) as [|c ip]; [discriminate|]. cbn [int_wf] in Hint.
    apply andb_true_iff in Hint as [Hd _]. cbn [all_digits forallb] in Hd. apply andb_true_iff in Hd as [Hd _].
    eexists _, _. split; [reflexivity|]. apply is_digit_not_ws. exact Hd.
Qed.

(** countWhitespace stops at the first non-whitespace byte *)
Lemma count_ws_app ws l : forallb is_ws ws = true ->
  (match l with c :: _ => is_ws c = false | [] => True end) ->
  count_while is_ws (ws ++ l) = length ws.
Proof.
  induction ws as [|w ws IH]; intros Hws Hl.
  - destruct l as [|c l]; [reflexivity|]. cbn [app count_while]. rewrite Hl. reflexivity.
  - cbn [forallb] in Hws. apply andb_true_iff in Hws as [Hw Hws]. cbn [app count_while length]. rewrite Hw.
    f_equal. apply IH; assumption.
Qed.

(** C04 at the API: ReadFloat64 skips the whitespace, and then behaves as parse_correct_partial says;
    the only errors are the range error exactly when round_ne overflows *)
Theorem ReadFloat64_correct_partial T ws j rest v p err :
  tables_ok T -> forallb is_ws ws = true ->
  jn_wf j = true -> FpScan.exp_small j -> FpScan.rest_ok j rest ->
  len (strip0 (j_int j ++ jn_frac_digits j)) <= 800 ->
  (fast_path T (readFloat_m (jn_bytes j ++ rest)) = None -> slow_ok T (jn_bytes j) = true) ->
  ReadFloat64_m T (ws ++ jn_bytes j ++ rest) = Some (v, p, err) ->
  p = len ws + len (jn_bytes j) /\
  exists e, err = option_map RfFp e /\ parse_result_ok j v e.
Proof.
  intros HT Hws Hwf Hes Hrest H800 Hslow.
  destruct (jn_bytes_head j Hwf) as (c & t & Hc & Hcws).
  unfold ReadFloat64_m.
  rewrite (count_ws_app ws (jn_bytes j ++ rest) Hws) by (rewrite Hc; exact Hcws).
  fold (len ws).
  assert (Hlen : len (ws ++ jn_bytes j ++ rest) = len ws + len (jn_bytes j) + len rest).
  { unfold len. rewrite !app_length. lia. }
  destruct (Z.eqb_spec (len ws) (len (ws ++ jn_bytes j ++ rest))) as [E|_].
  { exfalso. rewrite Hlen, Hc in E. unfold len in E. cbn [length] in E. lia. }
  unfold len at 1. rewrite Nat2Z.id, skipn_app, Nat.sub_diag, skipn_all. cbn [skipn app].
  destruct (ParseJSONFloatPrefix_m T (jn_bytes j ++ rest)) as [[[v' pp] e]|] eqn:HP; cbn [obind]; [|discriminate].
  intros Hres. inversion Hres as [[Hv Hp He]]. clear Hres.
  destruct (parse_correct_partial T j rest v' pp e HT Hwf Hes Hrest H800 Hslow HP) as (Hn & Hr).
  split; [lia|]. exists e. split; [destruct e; reflexivity|rewrite <- Hv; exact Hr].
Qed.

(** * The full statement, and why it is only partially provable *)

(** C04 as worded ("however many digits and whatever exponent"): for every JSON number literal and
    every continuation that does not extend it, the result is the one round_ne specifies. *)
Definition parse_correct_full : Prop :=
  forall T j rest, tables_ok T -> jn_wf j = true -> FpScan.rest_ok j rest ->
  exists v err, ParseJSONFloatPrefix_m T (jn_bytes j ++ rest) = Some (v, len (jn_bytes j), err)
                /\ parse_result_ok j v err.

(** The literal 1 0^799 1 e-800 (= 1.00..01, 806 bytes): the model (like the Go code and like
    strconv.ParseFloat, see the correspondence suite fp_gap) answers 0.1 because decimal.set drops
    the 801st digit of the integer part without moving the decimal point; round_ne says 1.0. *)
Definition gap_lit : jnum :=
  {| j_neg := false;
     j_int := B 49 :: repeat (B 48) 799 ++ [B 49];
     j_frac := None;
     j_exp := Some (false, EMinus, [B 56; B 48; B 48]) |}.

(** what the model returns on gap_lit (by computation) *)
Lemma gap_lit_model :
  ParseJSONFloatPrefix_m FpDecBits.exT (jn_bytes gap_lit ++ [])
  = Some (4591870180066957722, len (jn_bytes gap_lit), None)
  /\ len (jn_bytes gap_lit) = 806.
Proof. split; vm_compute; reflexivity. Qed.

(** what round_ne specifies for gap_lit (by computation) *)
Lemma gap_lit_spec : jn_round gap_lit = (4607182418800017408, false).
Proof. vm_compute. reflexivity. Qed.

(** gap_lit is a well-formed JSON number *)
Lemma gap_lit_wf : jn_wf gap_lit = true.
Proof. vm_compute. reflexivity. Qed.

(** one literal on which the model disagrees with round_ne refutes the full statement *)
Lemma full_refuted_by T j c b :
  tables_ok T -> jn_wf j = true -> FpScan.rest_ok j [] ->
  ParseJSONFloatPrefix_m T (jn_bytes j ++ []) = Some (c, len (jn_bytes j), None) ->
  jn_round j = (b, false) -> c <> b ->
  ~ parse_correct_full.
Proof.
  intros HT Hwf Hrest Hmodel Hspec Hne H.
  destruct (H T j [] HT Hwf Hrest) as (v & err & HP & Hr).
  rewrite Hmodel in HP. injection HP as Hv He.
  unfold parse_result_ok in Hr. rewrite Hspec in Hr. cbn [fst snd] in Hr. destruct Hr as [Hv' _]. congruence.
Qed.

(** the full statement is false for the model (hence, by the correspondence runs, for the Go code) *)
Theorem parse_correct_full_false : ~ parse_correct_full.
Proof.
  apply (full_refuted_by FpDecBits.exT gap_lit 4591870180066957722 4607182418800017408
           FpDecBits.exT_ok gap_lit_wf I (proj1 gap_lit_model) gap_lit_spec).
  discriminate.
Qed.

(** * The evaluation shortcut of the specification used by the correspondence driver *)

Lemma all_digits_strip0 l : all_digits l = true -> all_digits (strip0 l) = true.
Proof.
  induction l as [|c l IH]; [reflexivity|]. intros H. rewrite FpDecBits.strip0_cons.
  destruct (bz c =? 48); [|exact H]. apply IH. rewrite FpScan.all_digits_cons in H.
  apply andb_true_iff in H. tauto.
Qed.

(** leading zeros do not change the value of a digit string *)
Lemma dval_strip0 l : dval (strip0 l) = dval l.
Proof.
  induction l as [|c l IH]; [reflexivity|]. rewrite FpDecBits.strip0_cons.
  destruct (Z.eqb_spec (bz c) 48) as [E|]; [|reflexivity].
  rewrite IH, (FpDecBits.dval_cons c l), E. lia.
Qed.

(** after strip0 the first digit is not 0 *)
Lemma strip0_head l c r : strip0 l = c :: r -> bz c <> 48.
Proof.
  induction l as [|c' l IH]; [discriminate|]. rewrite FpDecBits.strip0_cons.
  destruct (Z.eqb_spec (bz c') 48); [exact IH|]. intros H. injection H as <- _. assumption.
Qed.

(** the shortcut agrees with the specification on every well-formed literal *)
Theorem jn_round_fast_ok j : jn_wf j = true -> jn_round_fast j = jn_round j.
Proof.
  intros Hwf. pose proof (FpScan.jn_digits_all j Hwf) as Hall.
  unfold jn_round_fast, jn_round, jn_value. cbn [fst snd].
  set (l := j_int j ++ jn_frac_digits j) in *. set (k := jn_exp10 j - len (jn_frac_digits j)).
  rewrite <- (dval_strip0 l).
  pose proof (all_digits_strip0 l Hall) as Hds.
  destruct (strip0 l) as [|c r] eqn:Es.
  - change (dval []) with 0. rewrite Z.mul_0_l. reflexivity.
  - pose proof (strip0_head l c r Es) as Hc.
    pose proof (FpScan.dval_bound (c :: r) Hds) as [_ Hub].
    rewrite (FpDecBits.dval_cons c r) in *.
    rewrite FpScan.all_digits_cons in Hds. apply andb_true_iff in Hds as [Hcd Hrd].
    pose proof (FpScan.is_digit_range c Hcd) as Hcr.
    pose proof (FpScan.dval_bound r Hrd) as [Hr0 _].
    rewrite FpScan.len_cons in *. pose proof (FpDecBits.len_ge0 r) as Hlr.
    set (n := len r) in *.
    assert (Pn : 0 < 10 ^ n) by (apply Z.pow_pos_nonneg; lia).
    set (Dv := (bz c - 48) * 10 ^ n + dval r) in *.
    assert (Hlb : 10 ^ n <= Dv) by (unfold Dv; nia).
    rewrite Z.pow_add_r in Hub by lia. change (10 ^ 1) with 10 in Hub.
    pose proof (P10_pos k) as Pk. pose proof (P10_pos (- k)) as Pk'.
    destruct (Z.leb_spec 310 (k + (1 + n) - 1)) as [Hbig|Hnb].
    + symmetry. apply FpDecBits.round_ne_big; [nia|lia|].
      destruct (Z_le_gt_dec 0 k) as [Hk|Hk].
      * rewrite (FpDecBits.P10_nonneg k), (FpDecBits.P10_nonpos (- k)) by lia.
        assert (10 ^ 310 <= 10 ^ (n + k)) by (apply Z.pow_le_mono_r; lia).
        rewrite Z.pow_add_r in H by lia. assert (0 < 10 ^ k) by (apply Z.pow_pos_nonneg; lia).
        remember (10 ^ 310) as Big. nia.
      * rewrite (FpDecBits.P10_nonpos k), (FpDecBits.P10_nonneg (- k)) by lia.
        assert (10 ^ (310 + - k) <= 10 ^ n) by (apply Z.pow_le_mono_r; lia).
        rewrite Z.pow_add_r in H by lia. remember (10 ^ 310) as Big. nia.
    + destruct (Z.leb_spec (k + (1 + n)) (-400)) as [Htiny|]; [|reflexivity].
      symmetry. apply FpDecBits.round_ne_tiny; [nia|lia|].
      rewrite (FpDecBits.P10_nonpos k), (FpDecBits.P10_nonneg (- k)) by lia. rewrite Z.mul_1_r.
      (* Dv < 10^(n+1), n + 1 + 330 <= -k *)
      assert (10 ^ (1 + n + 330) <= 10 ^ (- k)) by (apply Z.pow_le_mono_r; lia).
      rewrite Z.pow_add_r in H by lia. rewrite (Z.pow_add_r 10 1 n) in H by lia. change (10 ^ 1) with 10 in H.
      remember (10 ^ 330) as Tiny. assert (0 < Tiny) by (subst Tiny; apply Z.pow_pos_nonneg; lia). nia.
Qed.

(** the driver's spec evaluator equals the specification *)
Corollary parse_spec_fast_ok lit : parse_spec_fast lit = parse_spec lit.
Proof.
  unfold parse_spec_fast, parse_spec. destruct (jnum_lex lit) as [[j rest]|] eqn:E; [|reflexivity].
  destruct rest; [|reflexivity]. f_equal. apply jn_round_fast_ok.
  apply (FpScan.jnum_lex_sound lit j [] E).
Qed.

(** * The hypotheses are satisfiable *)

(** 12.5e3 followed by a comma: a fast path answers (so the slow-path premise is vacuous) *)
Example parse_correct_ex1 :
  let j := {| j_neg := false; j_int := [B 49; B 50]; j_frac := Some [B 53]; j_exp := Some (false, ENone, [B 51]) |} in
  let rest := [B 44] in
  tables_ok FpDecBits.exT /\ jn_wf j = true /\ FpScan.exp_small j /\ FpScan.rest_ok j rest /\
  len (strip0 (j_int j ++ jn_frac_digits j)) <= 800 /\
  fast_path FpDecBits.exT (readFloat_m (jn_bytes j ++ rest)) <> None /\
  ParseJSONFloatPrefix_m FpDecBits.exT (jn_bytes j ++ rest) = Some (4668097562002063360, 6, None) /\
  ReadFloat64_m FpDecBits.exT ([B 32; B 10] ++ jn_bytes j ++ rest) = Some (4668097562002063360, 8, None).
Proof.
  cbv zeta. split; [exact FpDecBits.exT_ok|]. split; [reflexivity|]. split; [vm_compute; discriminate|].
  split; [vm_compute; auto|]. split; [vm_compute; discriminate|].
  split; [vm_compute; discriminate|]. split; vm_compute; reflexivity.
Qed.

(** 9007199254740993 (= 2^53+1, a half-way case): both fast paths refuse, the slow path runs without
    dropping a digit and rounds to even *)
Example parse_correct_ex2 :
  let j := {| j_neg := true; j_int := map B [57;48;48;55;49;57;57;50;53;52;55;52;48;57;57;51]; j_frac := None; j_exp := None |} in
  fast_path FpDecBits.exT (readFloat_m (jn_bytes j)) = None /\
  slow_ok FpDecBits.exT (jn_bytes j) = true /\
  ParseJSONFloatPrefix_m FpDecBits.exT (jn_bytes j) = Some (sign_bit + 4845873199050653696, 17, None).
Proof. cbv zeta. split; [vm_compute; reflexivity|]. split; vm_compute; reflexivity. Qed.

(** 1e400: the range error *)
Example parse_correct_ex3 :
  let j := {| j_neg := false; j_int := [B 49]; j_frac := None; j_exp := Some (false, ENone, [B 52; B 48; B 48]) |} in
  ParseJSONFloatPrefix_m FpDecBits.exT (jn_bytes j) = Some (0, 5, Some FpRange) /\ jn_round j = (inf_bits, true).
Proof. cbv zeta. split; vm_compute; reflexivity. Qed.

Print Assumptions parse_correct_partial.
Print Assumptions ReadFloat64_correct_partial.
Print Assumptions parse_correct_full_false.
Print Assumptions fast_path_correct.
Print Assumptions jn_round_fast_ok.
