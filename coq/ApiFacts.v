(** Lifting of the generic machine theorems (Safety.v) to the models of the public API
    (Api.v): totality and offset range (C10), handler errors (C09), buffer and
    history irrelevance (C14).  Everything is generic in the tables: the hypotheses are the
    computable checks [wf_check] / [no_jumps], discharged on the regenerated tables on every
    run (run/TieWf.v). *)
From Coq Require Import List ZArith Bool Lia.
From Coq Require Import Strings.Byte.
From Rjson Require Import Base BaseFacts Helpers Machine MachineFacts Wf Safety Api.
Import ListNotations.
Local Open Scope Z_scope.

Section ApiFacts.
  Variable md : Z.
  Hypothesis md_nonneg : 0 <= md.
  Variables rmSkip rmFast rmArr rmObj : rawmachine.
  Hypothesis Wskip : wf_check rmSkip = true.
  Hypothesis Wfast : wf_check rmFast = true.
  Hypothesis Warr : wf_check rmArr = true.
  Hypothesis Wobj : wf_check rmObj = true.
  Hypothesis Jskip : no_jumps rmSkip = true.
  Hypothesis Jfast : no_jumps rmFast = true.

  (** what a caller can observe of a machine function: offset, error, handler calls *)
  Definition pubc (r : mres) : option (Z * option errk * list call) :=
    match r with MDone p e s => Some (p, e, s_calls s) | _ => None end.

  Lemma pubc_obs : forall o1 o2, obs o1 = obs o2 -> pubc (of_outcome o1) = pubc (of_outcome o2).
  Proof.
    intros [p1 e1 s1|k1|] [p2 e2 s2|k2|] H; cbn in *; try discriminate; try reflexivity.
    inversion H; subst. reflexivity.
  Qed.

  Lemma pub_pubc : forall r1 r2, pubc r1 = pubc r2 -> pub r1 = pub r2.
  Proof.
    intros [p1 e1 s1|k1|] [p2 e2 s2|k2|] H; cbn in *; try discriminate; try reflexivity.
    inversion H; subst. reflexivity.
  Qed.

  (** ** C10: totality, offsets in range *)
  Lemma fn_total : forall rm, wf_check rm = true ->
    forall data h stack dst, len_ok rm data ->
    exists p e s, of_outcome (prun_c md (of_raw rm) data h stack dst) = MDone p e s
                  /\ (e = None -> 0 <= p <= len data).
  Proof.
    intros rm W data h stack dst L. rewrite prun_c_eq.
    destruct (prun_good_wf rm md data h stack dst W L) as (p & e & s & E & R & _).
    exists p, e, s. rewrite E. cbn. auto.
  Qed.

  Theorem SkipValue_total : forall data b,
    exists p e b', SkipValue md (of_raw rmSkip) data b = (inl (p, e), b')
                   /\ (e = None -> 0 <= p <= len data).
  Proof.
    intros data b. unfold SkipValue, skipValue_m.
    destruct (fn_total rmSkip Wskip data no_handler (buf_stack b) [] (or_intror Jskip)) as (p & e & s & E & R).
    rewrite E. cbn. eauto.
  Qed.

  Theorem SkipValueFast_total : forall data b,
    exists p e b', SkipValueFast md (of_raw rmFast) data b = (inl (p, e), b')
                   /\ (e = None -> 0 <= p <= len data).
  Proof.
    intros data b. unfold SkipValueFast, skipValueFast_m.
    destruct (fn_total rmFast Wfast data no_handler (buf_stack b) [] (or_intror Jfast)) as (p & e & s & E & R).
    rewrite E. cbn. eauto.
  Qed.

  Theorem Valid_total : forall data b, exists v b', Valid md (of_raw rmSkip) data b = (Some v, b').
  Proof.
    intros data b. unfold Valid, skipValue_m.
    destruct (fn_total rmSkip Wskip data no_handler (buf_stack b) [] (or_intror Jskip)) as (p & e & s & E & R).
    rewrite E. destruct e; cbn; eauto. destruct (p >? len data); eauto.
  Qed.

  Theorem HandleArrayValues_total : forall data h b, len data <= maxint ->
    exists p e b', HandleArrayValues md (of_raw rmArr) data h b = (inl (p, e), b')
                   /\ (e = None -> 0 <= p <= len data).
  Proof.
    intros data h b L. unfold HandleArrayValues, handleArrayValues_m.
    destruct (fn_total rmArr Warr data h (buf_stack b) [] (or_introl L)) as (p & e & s & E & R).
    rewrite E. cbn. eauto.
  Qed.

  Theorem HandleObjectValues_total : forall data h b, len data <= maxint ->
    exists p e b', HandleObjectValues md (of_raw rmObj) data h b = (inl (p, e), b')
                   /\ (e = None -> 0 <= p <= len data).
  Proof.
    intros data h b L. unfold HandleObjectValues, handleObjectValues_m.
    destruct (fn_total rmObj Wobj data h (buf_stack b) [] (or_introl L)) as (p & e & s & E & R).
    rewrite E. cbn. eauto.
  Qed.

  (** ** C14: one call *)
  Lemma fn_buffer_irrelevant : forall rm, wf_check rm = true ->
    forall data h stack dst, len_ok rm data ->
    pubc (of_outcome (prun_c md (of_raw rm) data h stack dst))
    = pubc (of_outcome (prun_c md (of_raw rm) data (nohavoc h) [] dst)).
  Proof.
    intros rm W data h stack dst L. rewrite !prun_c_eq. apply pubc_obs.
    apply buffer_irrelevant_gen; auto.
  Qed.

  (** prun depends on the handler only through its values *)
  Lemma exec_unit_ext : forall data h1 h2 pe, (forall calls, h1 calls = h2 calls) ->
    forall u s, exec_unit md data h1 pe u s = exec_unit md data h2 pe u s.
  Proof.
    intros data h1 h2 pe H u s. destruct u; try reflexivity.
    unfold exec_unit.
    destruct (if is_obj then slice data (s_fs s + 1) (s_fe s - 1) else Some []) as [k|]; [|reflexivity].
    destruct ((0 <=? s_p s) && (s_p s <=? pe)); [|reflexivity].
    cbv zeta. rewrite H. reflexivity.
  Qed.

  Lemma exec_units_ext : forall data h1 h2 pe, (forall calls, h1 calls = h2 calls) ->
    forall us s, exec_units md data h1 pe us s = exec_units md data h2 pe us s.
  Proof.
    intros data h1 h2 pe H. induction us as [|u us IH]; intros s; [reflexivity|].
    cbn [exec_units]. rewrite (exec_unit_ext data h1 h2 pe H).
    destruct (exec_unit md data h2 pe u s); auto.
  Qed.

  Lemma prun_ext : forall m data h1 h2 stack dst, (forall calls, h1 calls = h2 calls) ->
    prun md m data h1 stack dst = prun md m data h2 stack dst.
  Proof.
    intros m data h1 h2 stack dst H.
    assert (EE : forall cs s, eof_phase md m data h1 (len data) cs s = eof_phase md m data h2 (len data) cs s).
    { intros cs s. unfold eof_phase. rewrite (exec_units_ext data h1 h2 (len data) H). reflexivity. }
    assert (ER : forall f cs s, run md m data h1 (len data) f cs s = run md m data h2 (len data) f cs s).
    { induction f as [|f IH]; intros cs s; [reflexivity|].
      cbn [run]. destruct (get data (s_p s)); [|reflexivity].
      destruct (m_trans m cs b) as [us d].
      rewrite (exec_units_ext data h1 h2 (len data) H).
      destruct (exec_units md data h2 (len data) us s); try reflexivity.
      - destruct (d =? 0); [reflexivity|]. destruct (negb (m_is_state m d)); [reflexivity|].
        destruct (s_p (set_p s0 (s_p s0 + 1)) =? len data); [apply EE|apply IH].
      - destruct (d0 =? 0); [reflexivity|]. destruct (negb (m_is_state m d0)); [reflexivity|].
        destruct (s_p (set_p s0 (s_p s0 + 1)) =? len data); [apply EE|apply IH]. }
    unfold prun. destruct (0 =? len data); [apply EE|apply ER].
  Qed.

  Theorem SkipValue_buffer_irrelevant : forall data b,
    fst (SkipValue md (of_raw rmSkip) data b) = fst (SkipValue md (of_raw rmSkip) data None).
  Proof.
    intros data b. unfold SkipValue, skipValue_m. cbn [fst]. apply pub_pubc.
    rewrite (fn_buffer_irrelevant rmSkip Wskip data no_handler (buf_stack b) [] (or_intror Jskip)).
    rewrite (fn_buffer_irrelevant rmSkip Wskip data no_handler (buf_stack None) [] (or_intror Jskip)).
    reflexivity.
  Qed.

  Theorem SkipValueFast_buffer_irrelevant : forall data b,
    fst (SkipValueFast md (of_raw rmFast) data b) = fst (SkipValueFast md (of_raw rmFast) data None).
  Proof.
    intros data b. unfold SkipValueFast, skipValueFast_m. cbn [fst]. apply pub_pubc.
    rewrite (fn_buffer_irrelevant rmFast Wfast data no_handler (buf_stack b) [] (or_intror Jfast)).
    rewrite (fn_buffer_irrelevant rmFast Wfast data no_handler (buf_stack None) [] (or_intror Jfast)).
    reflexivity.
  Qed.

  Lemma Valid_of_pubc : forall data r1 r2, pubc r1 = pubc r2 ->
    match r1 with
    | MDone p (Some _) _ => Some false
    | MDone p None _ => if p >? len data then Some true
                        else Some (p + countWhitespace (skipn (Z.to_nat p) data) >=? len data)
    | _ => None end =
    match r2 with
    | MDone p (Some _) _ => Some false
    | MDone p None _ => if p >? len data then Some true
                        else Some (p + countWhitespace (skipn (Z.to_nat p) data) >=? len data)
    | _ => None end.
  Proof.
    intros data [p1 e1 s1|k1|] [p2 e2 s2|k2|] H; cbn in *; try discriminate; try reflexivity.
    inversion H; subst. reflexivity.
  Qed.

  Theorem Valid_buffer_irrelevant : forall data b,
    fst (Valid md (of_raw rmSkip) data b) = fst (Valid md (of_raw rmSkip) data None).
  Proof.
    intros data b. unfold Valid, skipValue_m. cbn [fst]. apply Valid_of_pubc.
    rewrite (fn_buffer_irrelevant rmSkip Wskip data no_handler (buf_stack b) [] (or_intror Jskip)).
    rewrite (fn_buffer_irrelevant rmSkip Wskip data no_handler (buf_stack None) [] (or_intror Jskip)).
    reflexivity.
  Qed.

  (** handler traversals: offset, error AND the handler calls are those of the run with no
      buffer and a handler that does not touch the shared stack array *)
  Theorem HandleArrayValues_buffer_irrelevant : forall data h b, len data <= maxint ->
    pubc (handleArrayValues_m md (of_raw rmArr) data h (buf_stack b))
    = pubc (handleArrayValues_m md (of_raw rmArr) data (nohavoc h) []).
  Proof.
    intros data h b L. unfold handleArrayValues_m. apply fn_buffer_irrelevant; auto. left; auto.
  Qed.

  Theorem HandleObjectValues_buffer_irrelevant : forall data h b, len data <= maxint ->
    pubc (handleObjectValues_m md (of_raw rmObj) data h (buf_stack b))
    = pubc (handleObjectValues_m md (of_raw rmObj) data (nohavoc h) []).
  Proof.
    intros data h b L. unfold handleObjectValues_m. apply fn_buffer_irrelevant; auto. left; auto.
  Qed.

  (** ** C14: histories.  A call on the shared Buffer: which function, which input, which
      handler (any function of the call history, including one that re-enters the library
      with the very same Buffer and scribbles over its array: [h_havoc]). *)
  Inductive bufcall :=
  | CSkip (d : list byte) | CSkipFast (d : list byte) | CValid (d : list byte)
  | CArr (d : list byte) (h : handler) | CObj (d : list byte) (h : handler).

  Inductive bufres :=
  | BRes (r : option (Z * option errk * list call))
  | BValid (v : option bool).

  Definition call_data (c : bufcall) : list byte :=
    match c with CSkip d | CSkipFast d | CValid d | CArr d _ | CObj d _ => d end.

  Definition run_call (c : bufcall) (b : buffer) : bufres * buffer :=
    match c with
    | CSkip d => let r := skipValue_m md (of_raw rmSkip) d (buf_stack b) in (BRes (pubc r), buf_after b r)
    | CSkipFast d => let r := skipValueFast_m md (of_raw rmFast) d (buf_stack b) in (BRes (pubc r), buf_after b r)
    | CValid d => let '(v, b') := Valid md (of_raw rmSkip) d b in (BValid v, b')
    | CArr d h => let r := handleArrayValues_m md (of_raw rmArr) d h (buf_stack b) in (BRes (pubc r), buf_after b r)
    | CObj d h => let r := handleObjectValues_m md (of_raw rmObj) d h (buf_stack b) in (BRes (pubc r), buf_after b r)
    end.

  Fixpoint run_calls (cs : list bufcall) (b : buffer) : list bufres :=
    match cs with
    | [] => []
    | c :: r => let '(o, b') := run_call c b in o :: run_calls r b'
    end.

  (** the same call with no Buffer and a handler that leaves the array alone *)
  Definition solo (c : bufcall) : bufres :=
    match c with
    | CArr d h => fst (run_call (CArr d (nohavoc h)) None)
    | CObj d h => fst (run_call (CObj d (nohavoc h)) None)
    | _ => fst (run_call c None)
    end.

  Lemma fst_run_call_skip : forall d b, fst (run_call (CSkip d) b) = BRes (pubc (skipValue_m md (of_raw rmSkip) d (buf_stack b))).
  Proof. reflexivity. Qed.
  Lemma fst_run_call_fast : forall d b, fst (run_call (CSkipFast d) b) = BRes (pubc (skipValueFast_m md (of_raw rmFast) d (buf_stack b))).
  Proof. reflexivity. Qed.
  Lemma fst_run_call_valid : forall d b, fst (run_call (CValid d) b) = BValid (fst (Valid md (of_raw rmSkip) d b)).
  Proof. intros d b. unfold run_call. destruct (Valid md (of_raw rmSkip) d b); reflexivity. Qed.
  Lemma fst_run_call_arr : forall d h b, fst (run_call (CArr d h) b) = BRes (pubc (handleArrayValues_m md (of_raw rmArr) d h (buf_stack b))).
  Proof. reflexivity. Qed.
  Lemma fst_run_call_obj : forall d h b, fst (run_call (CObj d h) b) = BRes (pubc (handleObjectValues_m md (of_raw rmObj) d h (buf_stack b))).
  Proof. reflexivity. Qed.

  Lemma nohavoc_idem : forall h calls, nohavoc (nohavoc h) calls = nohavoc h calls.
  Proof. reflexivity. Qed.

  Lemma run_call_irrelevant : forall c b, len (call_data c) <= maxint -> fst (run_call c b) = solo c.
  Proof.
    intros c b L. destruct c as [d|d|d|d h|d h]; cbn [call_data] in L; unfold solo.
    - rewrite !fst_run_call_skip. apply f_equal. unfold skipValue_m.
      rewrite (fn_buffer_irrelevant rmSkip Wskip d no_handler (buf_stack b) [] (or_intror Jskip)).
      rewrite (fn_buffer_irrelevant rmSkip Wskip d no_handler (buf_stack None) [] (or_intror Jskip)).
      reflexivity.
    - rewrite !fst_run_call_fast. apply f_equal. unfold skipValueFast_m.
      rewrite (fn_buffer_irrelevant rmFast Wfast d no_handler (buf_stack b) [] (or_intror Jfast)).
      rewrite (fn_buffer_irrelevant rmFast Wfast d no_handler (buf_stack None) [] (or_intror Jfast)).
      reflexivity.
    - rewrite !fst_run_call_valid. apply f_equal. apply Valid_buffer_irrelevant.
    - rewrite !fst_run_call_arr. apply f_equal.
      transitivity (pubc (handleArrayValues_m md (of_raw rmArr) d (nohavoc h) [])).
      + apply (HandleArrayValues_buffer_irrelevant d h b L).
      + symmetry.
        transitivity (pubc (handleArrayValues_m md (of_raw rmArr) d (nohavoc (nohavoc h)) [])).
        * apply (HandleArrayValues_buffer_irrelevant d (nohavoc h) None L).
        * unfold handleArrayValues_m. rewrite !prun_c_eq. apply pubc_obs. apply f_equal.
          apply prun_ext. intros; reflexivity.
    - rewrite !fst_run_call_obj. apply f_equal.
      transitivity (pubc (handleObjectValues_m md (of_raw rmObj) d (nohavoc h) [])).
      + apply (HandleObjectValues_buffer_irrelevant d h b L).
      + symmetry.
        transitivity (pubc (handleObjectValues_m md (of_raw rmObj) d (nohavoc (nohavoc h)) [])).
        * apply (HandleObjectValues_buffer_irrelevant d (nohavoc h) None L).
        * unfold handleObjectValues_m. rewrite !prun_c_eq. apply pubc_obs. apply f_equal.
          apply prun_ext. intros; reflexivity.
  Qed.

  (** C14: for every finite sequence of calls passing the same Buffer (whatever it contained
      before, whatever earlier calls left in it, whatever re-entrant handlers wrote into it),
      each call's outcome is the outcome with no buffer at all. *)
  Theorem history_irrelevant : forall cs b,
    Forall (fun c => len (call_data c) <= maxint) cs ->
    run_calls cs b = map solo cs.
  Proof.
    induction cs as [|c cs IH]; intros b F; cbn [run_calls map]; [reflexivity|].
    inversion F as [|? ? Hc Hcs]; subst.
    pose proof (run_call_irrelevant c b Hc) as H.
    destruct (run_call c b) as [o b']. cbn [fst] in H. rewrite H, IH; auto.
  Qed.

  (** ** C09: a handler error stops the traversal and is returned by identity *)
  Theorem HandleArrayValues_handler_error : forall data h stack p e s, len data <= maxint ->
    handleArrayValues_m md (of_raw rmArr) data h stack = MDone p e s ->
    (forall pre c cs, s_calls s = pre ++ c :: cs -> pre <> [] -> h_err (h (c :: cs)) = None) /\
    (forall tok, e = Some (EHandler tok) <->
                 exists c cs, s_calls s = c :: cs /\ h_err (h (c :: cs)) = Some tok).
  Proof.
    intros data h stack p e s L E. unfold handleArrayValues_m in E. rewrite prun_c_eq in E.
    destruct (prun md (of_raw rmArr) data h stack []) as [p' e' s'| |] eqn:PE; cbn in E; try discriminate.
    inversion E; subst. exact (handler_error_stops rmArr md data h stack [] p e s Warr md_nonneg L PE).
  Qed.

  Theorem HandleObjectValues_handler_error : forall data h stack p e s, len data <= maxint ->
    handleObjectValues_m md (of_raw rmObj) data h stack = MDone p e s ->
    (forall pre c cs, s_calls s = pre ++ c :: cs -> pre <> [] -> h_err (h (c :: cs)) = None) /\
    (forall tok, e = Some (EHandler tok) <->
                 exists c cs, s_calls s = c :: cs /\ h_err (h (c :: cs)) = Some tok).
  Proof.
    intros data h stack p e s L E. unfold handleObjectValues_m in E. rewrite prun_c_eq in E.
    destruct (prun md (of_raw rmObj) data h stack []) as [p' e' s'| |] eqn:PE; cbn in E; try discriminate.
    inversion E; subst. exact (handler_error_stops rmObj md data h stack [] p e s Wobj md_nonneg L PE).
  Qed.
End ApiFacts.
