(** RFC 8259 (The JavaScript Object Notation Data Interchange Format) as inductive predicates over
    byte strings, and the reference semantics of Ref.v against it:
      [skip_ref_sound], [skip_ref_complete] : [skip_ref] finds exactly the JSON values of the grammar
                                              (nested at most 10,000 deep), by longest match;
      [valid_ref_iff]                       : [valid_ref] accepts exactly  ws value ws  (C01's statement).
    One constructor per production of the RFC; the nesting depth is an index of [jvalue].
    (Uses pure lemmas about the Ref functions proved in SpecFacts2.v / SpecFacts3.v.) *)
From Coq Require Import List ZArith Bool Lia.
From Coq Require Import Strings.Byte.
From Rjson Require Import Base BaseFacts Helpers Machine MachineFacts Ref SpecFacts SpecFacts2 SpecFacts3.
Import ListNotations.

(** * The grammar *)

(** ** characters *)
Definition QUOTE : byte := x22.      Definition BSLASH : byte := x5c.
Definition COMMA : byte := x2c.      Definition COLON : byte := x3a.
Definition LBRACK : byte := x5b.     Definition RBRACK : byte := x5d.
Definition LBRACE : byte := x7b.     Definition RBRACE : byte := x7d.
Definition MINUS : byte := x2d.      Definition PLUS : byte := x2b.
Definition ZERO : byte := x30.       Definition DOT : byte := x2e.
Definition LETTER_u : byte := x75.

(** ws = *( %x20 / %x09 / %x0A / %x0D ) *)
Definition ws_char (b : byte) : Prop := b = x20 \/ b = x09 \/ b = x0a \/ b = x0d.
Definition ws_str (l : list byte) : Prop := Forall ws_char l.

(** DIGIT = %x30-39, digit1-9 = %x31-39, HEXDIG *)
Definition digit (b : byte) : Prop := (48 <= bz b <= 57)%Z.
Definition digit19 (b : byte) : Prop := (49 <= bz b <= 57)%Z.
Definition hexdig (b : byte) : Prop := digit b \/ (65 <= bz b <= 70)%Z \/ (97 <= bz b <= 102)%Z.
Definition digits1 (l : list byte) : Prop := l <> [] /\ Forall digit l.       (* 1*DIGIT *)

(** ** strings
    string = quotation-mark *char quotation-mark
    char = unescaped / escape ( %x22 / %x5C / %x2F / %x62 / %x66 / %x6E / %x72 / %x74 / %x75 4HEXDIG )
    unescaped = %x20-21 / %x23-5B / %x5D-10FFFF   (at the byte level: every byte from 0x20 on, but the two) *)
Definition unescaped (b : byte) : Prop := (32 <= bz b)%Z /\ b <> QUOTE /\ b <> BSLASH.
Definition escape_letter (b : byte) : Prop :=
  b = x22 \/ b = x5c \/ b = x2f \/ b = x62 \/ b = x66 \/ b = x6e \/ b = x72 \/ b = x74.

Inductive jchars : list byte -> Prop :=
| jc_end : jchars []
| jc_unescaped : forall b r, unescaped b -> jchars r -> jchars (b :: r)
| jc_escape : forall e r, escape_letter e -> jchars r -> jchars (BSLASH :: e :: r)
| jc_unicode : forall h1 h2 h3 h4 r, hexdig h1 -> hexdig h2 -> hexdig h3 -> hexdig h4 -> jchars r ->
               jchars (BSLASH :: LETTER_u :: h1 :: h2 :: h3 :: h4 :: r).

Inductive jstring : list byte -> Prop :=
| js_intro : forall c, jchars c -> jstring (QUOTE :: c ++ [QUOTE]).

(** ** numbers
    number = [ minus ] int [ frac ] [ exp ]
    int = zero / ( digit1-9 *DIGIT )      frac = decimal-point 1*DIGIT      exp = e [ minus / plus ] 1*DIGIT *)
Inductive jint : list byte -> Prop :=
| ji_zero : jint [ZERO]
| ji_pos : forall d ds, digit19 d -> Forall digit ds -> jint (d :: ds).
Inductive jfrac : list byte -> Prop :=
| jf_intro : forall ds, digits1 ds -> jfrac (DOT :: ds).
Inductive jexp : list byte -> Prop :=
| je_plain : forall e ds, is_exp e = true -> digits1 ds -> jexp (e :: ds)
| je_signed : forall e s ds, is_exp e = true -> (s = MINUS \/ s = PLUS) -> digits1 ds -> jexp (e :: s :: ds).
(** an optional part *)
Definition opt (P : list byte -> Prop) (l : list byte) : Prop := l = [] \/ P l.
Inductive jnumber : list byte -> Prop :=
| jn_intro : forall m i f e, opt (fun m => m = [MINUS]) m -> jint i -> opt jfrac f -> opt jexp e ->
             jnumber (m ++ i ++ f ++ e).

(** ** values; the index bounds the nesting: [jvalue d v]: [v] is a value with at most [d] containers
    inside each other
    value = false / null / true / object / array / number / string
    array = begin-array [ value *( value-separator value ) ] end-array
    object = begin-object [ member *( value-separator member ) ] end-object      member = string name-separator value
    (the insignificant white space around the six structural characters is written out) *)
Inductive jvalue : nat -> list byte -> Prop :=
| jv_false : forall d, jvalue d lit_false
| jv_null : forall d, jvalue d lit_null
| jv_true : forall d, jvalue d lit_true
| jv_object_empty : forall d w, ws_str w -> jvalue (S d) (LBRACE :: w ++ [RBRACE])
| jv_object : forall d w1 ms w2, ws_str w1 -> jmembers d ms -> ws_str w2 -> jvalue (S d) (LBRACE :: w1 ++ ms ++ w2 ++ [RBRACE])
| jv_array_empty : forall d w, ws_str w -> jvalue (S d) (LBRACK :: w ++ [RBRACK])
| jv_array : forall d w1 es w2, ws_str w1 -> jelements d es -> ws_str w2 -> jvalue (S d) (LBRACK :: w1 ++ es ++ w2 ++ [RBRACK])
| jv_number : forall d n, jnumber n -> jvalue d n
| jv_string : forall d s, jstring s -> jvalue d s
with jelements : nat -> list byte -> Prop :=       (* value *( ws "," ws value ) *)
| jes_one : forall d v, jvalue d v -> jelements d v
| jes_more : forall d v w1 w2 es, jvalue d v -> ws_str w1 -> ws_str w2 -> jelements d es ->
             jelements d (v ++ w1 ++ COMMA :: w2 ++ es)
with jmembers : nat -> list byte -> Prop :=        (* member *( ws "," ws member ) *)
| jms_one : forall d m, jmember d m -> jmembers d m
| jms_more : forall d m w1 w2 ms, jmember d m -> ws_str w1 -> ws_str w2 -> jmembers d ms ->
             jmembers d (m ++ w1 ++ COMMA :: w2 ++ ms)
with jmember : nat -> list byte -> Prop :=         (* string ws ":" ws value *)
| jm_intro : forall d k w1 w2 v, jstring k -> ws_str w1 -> ws_str w2 -> jvalue d v ->
             jmember d (k ++ w1 ++ COLON :: w2 ++ v).

Scheme jvalue_mind := Minimality for jvalue Sort Prop
  with jelements_mind := Minimality for jelements Sort Prop
  with jmembers_mind := Minimality for jmembers Sort Prop
  with jmember_mind := Minimality for jmember Sort Prop.
Combined Scheme jvalue_mutind from jvalue_mind, jelements_mind, jmembers_mind, jmember_mind.

(** "nested no deeper than n levels" *)
Definition jvalue_upto (n : nat) (v : list byte) : Prop := jvalue n v.

(** JSON-text = ws value ws *)
Definition json_text (n : nat) (data : list byte) : Prop :=
  exists w v w', data = w ++ v ++ w' /\ ws_str w /\ ws_str w' /\ jvalue_upto n v.

(** longest match: a number token ends only where no number could go on.  [rest] does not start with a
    byte that continues the number [v] or commits to a continuation (a digit, or '.', 'e', 'E' where the
    grammar allows them next) *)
Definition extends (v : list byte) (b : byte) : Prop := exists t, jnumber (v ++ b :: t).
Definition follows_ok (v rest : list byte) : Prop :=
  jnumber v -> forall b r, rest = b :: r -> ~ extends v b.

Local Open Scope Z_scope.

(** * Characters: the propositions against the boolean tests of Ref.v *)
Lemma bz_const : forall b z, bz b = z -> b = zb z.
Proof. intros b z H. rewrite <- H, zb_bz. reflexivity. Qed.

Lemma isb_true : forall z b, isb z b = true -> b = zb z.
Proof. intros z b H. apply Z.eqb_eq in H. apply bz_const. exact H. Qed.

Lemma ws_char_iff : forall b, ws_char b <-> is_ws b = true.
Proof.
  intros b. split.
  - intros [->|[->|[->| ->]]]; reflexivity.
  - unfold is_ws. intros H. apply orb_true_iff in H. destruct H as [H|H]; [apply orb_true_iff in H; destruct H as [H|H];
      [apply orb_true_iff in H; destruct H as [H|H]|]|]; apply Z.eqb_eq in H; apply bz_const in H; subst b; unfold ws_char; auto.
Qed.

Lemma digit_iff : forall b, digit b <-> is_digit b = true.
Proof.
  intros b. unfold digit, is_digit. split.
  - intros [A B]. apply andb_true_iff. split; apply Z.leb_le; lia.
  - intros H. apply andb_true_iff in H. destruct H as [A B]. apply Z.leb_le in A, B. lia.
Qed.
Lemma digit19_iff : forall b, digit19 b <-> r_is_digit19 b = true.
Proof.
  intros b. unfold digit19, r_is_digit19. split.
  - intros [A B]. apply andb_true_iff. split; apply Z.leb_le; lia.
  - intros H. apply andb_true_iff in H. destruct H as [A B]. apply Z.leb_le in A, B. lia.
Qed.
Lemma hexdig_iff : forall b, hexdig b <-> r_is_hex b = true.
Proof.
  intros b. unfold hexdig, digit, r_is_hex, hexval.
  destruct ((48 <=? bz b) && (bz b <=? 57)) eqn:A.
  - apply andb_true_iff in A. destruct A as [A1 A2]. apply Z.leb_le in A1, A2. split; [intros _; apply Z.leb_le; lia|intros _; left; lia].
  - destruct ((97 <=? bz b) && (bz b <=? 102)) eqn:B.
    + apply andb_true_iff in B. destruct B as [B1 B2]. apply Z.leb_le in B1, B2. split; [intros _; apply Z.leb_le; lia|intros _; right; right; lia].
    + destruct ((65 <=? bz b) && (bz b <=? 70)) eqn:C.
      * apply andb_true_iff in C. destruct C as [C1 C2]. apply Z.leb_le in C1, C2. split; [intros _; apply Z.leb_le; lia|intros _; right; left; lia].
      * split; [|discriminate]. intros H. exfalso.
        apply andb_false_iff in A, B, C.
        repeat match goal with H : _ \/ _ |- _ => destruct H end;
          repeat match goal with H : (_ <=? _) = false |- _ => apply Z.leb_gt in H end; lia.
Qed.

Lemma unescaped_iff : forall b, unescaped b <-> (isb 92 b = false /\ isb 34 b = false /\ r_is_ctl b = false).
Proof.
  intros b. unfold unescaped, r_is_ctl. split.
  - intros (A & Q & B). repeat split.
    + destruct (isb 92 b) eqn:E; [apply isb_true in E; contradiction|reflexivity].
    + destruct (isb 34 b) eqn:E; [apply isb_true in E; contradiction|reflexivity].
    + apply Z.ltb_ge. lia.
  - intros (B & Q & C). apply Z.ltb_ge in C. repeat split; [lia| |]; intros ->; discriminate.
Qed.

Lemma escape_letter_iff : forall e, escape_letter e <-> exists x, simple_escape e = Some x.
Proof.
  intros e. split.
  - intros [->|[->|[->|[->|[->|[->|[->| ->]]]]]]]; eexists; reflexivity.
  - intros [x H]. unfold simple_escape in H. cbv zeta in H. unfold escape_letter.
    repeat match type of H with (if ?c then _ else _) = _ =>
      let E := fresh in destruct c eqn:E; [apply Z.eqb_eq in E; apply bz_const in E; subst e; auto 10|] end.
    discriminate.
Qed.

(** ** white space *)
Lemma ws_str_ws : forall w tl, ws_str w -> ws (w ++ tl) = (length w + ws tl)%nat.
Proof.
  induction w as [|b w IH]; intros tl H; [reflexivity|]. inversion H; subst. apply ws_char_iff in H2.
  cbn [app]. rewrite (ws_cons_true _ _ H2), IH by assumption. reflexivity.
Qed.
Lemma ws_prefix_str : forall l, ws_str (firstn (ws l) l).
Proof.
  intros l. unfold ws_str. apply Forall_forall. intros b I.
  pose proof (cw_forall is_ws l) as F. rewrite forallb_forall in F. apply ws_char_iff. apply F. exact I.
Qed.
Lemma ws_all_str : forall l, ws l = length l -> ws_str l.
Proof. intros l H. pose proof (ws_prefix_str l) as P. rewrite H, firstn_all in P. exact P. Qed.
Lemma ws_str_all : forall l, ws_str l -> ws l = length l.
Proof. intros l H. rewrite <- (app_nil_r l) at 1. rewrite ws_str_ws by assumption. cbn. lia. Qed.

(** * Strings *)
Lemma decode_jchars : forall c out, decode_content c = Some out -> jchars c.
Proof.
  assert (G : forall n c out, (length c <= n)%nat -> decode_content c = Some out -> jchars c).
  { induction n as [|n IH]; intros c out L D.
    - destruct c; [constructor|cbn in L; lia].
    - destruct c as [|b c1]; [constructor|]. cbn [decode_content] in D. cbn [length] in L.
      destruct (isb 92 b) eqn:B.
      + destruct c1 as [|e c2]; [discriminate|].
        destruct (simple_escape e) as [x|] eqn:SE.
        * destruct (decode_content c2) as [o2|] eqn:D2; [|discriminate].
          apply isb_true in B. subst b.
          apply jc_escape; [apply escape_letter_iff; eauto|]. eapply IH; [|exact D2]. cbn [length] in L. lia.
        * destruct (isb 117 e) eqn:EU; [|discriminate].
          destruct c2 as [|h1 [|h2 [|h3 [|h4 c3]]]]; try discriminate.
          destruct (hex4 h1 h2 h3 h4) as [u|] eqn:HX4; [|discriminate].
          assert (HX : r_is_hex h1 = true /\ r_is_hex h2 = true /\ r_is_hex h3 = true /\ r_is_hex h4 = true).
          { unfold hex4 in HX4. destruct (r_is_hex h1); [|discriminate]. destruct (r_is_hex h2); [|discriminate].
            destruct (r_is_hex h3); [|discriminate]. destruct (r_is_hex h4); [auto|discriminate]. }
          destruct HX as (X1 & X2 & X3 & X4).
          assert (D3 : exists o3, decode_content c3 = Some o3).
          { assert (DU := decode_u b e h1 h2 h3 h4 c3 u B EU HX4). cbn [decode_content] in DU. rewrite B, SE, EU, HX4 in DU.
            rewrite DU in D. destruct (pair_of u c3) as [v|] eqn:PO.
            - destruct (pair_of_shape u c3 v PO) as (b2 & e2 & g1 & g2 & g3 & g4 & r3 & -> & B2 & E2 & HV & LO).
              cbn [skipn] in D. destruct (decode_content r3) as [o4|] eqn:D4; [|discriminate].
              rewrite (decode_u b2 e2 g1 g2 g3 g4 r3 v B2 E2 HV).
              assert (PN : pair_of v r3 = None) by (unfold pair_of; rewrite (low_not_high v LO); reflexivity).
              rewrite PN, D4. cbn. eauto.
            - destruct (decode_content c3) as [o3|]; [eauto|discriminate]. }
          destruct D3 as [o3 D3].
          apply isb_true in B. apply isb_true in EU. subst b e.
          apply jc_unicode; try (apply hexdig_iff; assumption). eapply IH; [|exact D3]. cbn [length] in L. lia.
      + destruct (isb 34 b) eqn:Q; [discriminate|]. destruct (r_is_ctl b) eqn:C; [discriminate|]. cbn [orb] in D.
        destruct (decode_content c1) as [o1|] eqn:D1; [|discriminate].
        apply jc_unescaped; [apply unescaped_iff; auto|]. eapply IH; [|exact D1]. lia. }
  intros c out D. exact (G (length c) c out (le_n _) D).
Qed.

Lemma jchars_decode : forall c, jchars c -> exists out, decode_content c = Some out.
Proof.
  induction 1 as [|b r U _ [o IH]|e r EL _ [o IH]|h1 h2 h3 h4 r X1 X2 X3 X4 J [o IH]].
  - exists []. reflexivity.
  - apply unescaped_iff in U. destruct U as (B & Q & C). cbn [decode_content]. rewrite B, Q, C, IH. cbn. eauto.
  - apply escape_letter_iff in EL. destruct EL as [x SE]. cbn [decode_content].
    change (isb 92 BSLASH) with true. cbn iota. rewrite SE, IH. cbn. eauto.
  - apply hexdig_iff in X1, X2, X3, X4.
    assert (HX4 : exists u, hex4 h1 h2 h3 h4 = Some u) by (unfold hex4; rewrite X1, X2, X3, X4; cbn; eauto).
    destruct HX4 as [u HX4].
    rewrite (decode_u BSLASH LETTER_u h1 h2 h3 h4 r u eq_refl eq_refl HX4).
    destruct (pair_of u r) as [v|] eqn:PO.
    + destruct (decode_after_pair u r v o PO IH) as (o3 & D3). rewrite D3. cbn. eauto.
    + rewrite IH. cbn. eauto.
Qed.

Lemma string_tok_sound : forall l n, string_tok l = Some n ->
  exists s rest, l = s ++ rest /\ length s = n /\ jstring s.
Proof.
  intros l n H. unfold string_tok in H. destruct l as [|q r]; [discriminate|].
  destruct (isb 34 q) eqn:Q; [|discriminate]. apply isb_true in Q. subst q.
  destruct (string_body r) as [k|] eqn:SB; [|discriminate]. inversion H; subst n.
  destruct (string_body_split r k SB) as (c & q & rest & out & -> & Q & -> & D).
  apply isb_true in Q. subst q.
  exists (QUOTE :: c ++ [QUOTE]), rest. split; [cbn; rewrite <- app_assoc; reflexivity|].
  split; [cbn; rewrite app_length; cbn; lia|]. constructor. eapply decode_jchars; eauto.
Qed.

Lemma string_tok_complete : forall s rest, jstring s -> string_tok (s ++ rest) = Some (length s).
Proof.
  intros s rest [c J]. destruct (jchars_decode c J) as [out D].
  cbn [app string_tok]. change (isb 34 QUOTE) with true. cbn iota. rewrite <- app_assoc. cbn [app].
  rewrite (content_string_body c out QUOTE rest D eq_refl). cbn. rewrite app_length. cbn. f_equal. lia.
Qed.

(** * Numbers *)
Lemma Forall_digit_firstn : forall l, Forall digit (firstn (digits l) l).
Proof.
  intros l. apply Forall_forall. intros b I. pose proof (cw_forall is_digit l) as F. rewrite forallb_forall in F.
  apply digit_iff. apply F. exact I.
Qed.
Lemma firstn_digits1 : forall r, Nat.eqb (digits r) 0 = false -> digits1 (firstn (digits r) r).
Proof.
  intros r H. apply Nat.eqb_neq in H. split; [|apply Forall_digit_firstn].
  pose proof (digits_le r). destruct r as [|x r]; [cbn in H; lia|]. destruct (digits (x :: r)); [lia|]. cbn. discriminate.
Qed.

Lemma int_part_sound : forall l i, int_part l = Some i -> jint (firstn i l).
Proof.
  intros [|d r] i H; [discriminate|]. unfold int_part in H.
  destruct (isb 48 d) eqn:Z.
  - inversion H. apply isb_true in Z. subst d. constructor.
  - destruct (r_is_digit19 d) eqn:D; [|discriminate]. inversion H. cbn [firstn].
    apply ji_pos; [apply digit19_iff; exact D|apply Forall_digit_firstn].
Qed.
Lemma frac_part_sound : forall l f, frac_part l = Some f -> opt jfrac (firstn f l).
Proof.
  intros [|c r] f H; [inversion H; left; reflexivity|]. unfold frac_part in H.
  destruct (isb 46 c) eqn:D; [|inversion H; left; reflexivity].
  destruct (Nat.eqb (digits r) 0) eqn:Z; [discriminate|]. inversion H. right. cbn [firstn].
  apply isb_true in D. subst c. constructor. apply firstn_digits1. exact Z.
Qed.
Lemma sign_cases : forall s, is_sign s = true -> s = MINUS \/ s = PLUS.
Proof.
  intros s H. unfold is_sign in H. apply orb_true_iff in H. destruct H as [H|H]; apply Z.eqb_eq in H; apply bz_const in H; subst; auto.
Qed.
Lemma exp_part_sound : forall l e, exp_part l = Some e -> opt jexp (firstn e l).
Proof.
  intros [|c r] e H; [inversion H; left; reflexivity|]. unfold exp_part in H.
  destruct (is_exp c) eqn:X; [|inversion H; left; reflexivity].
  destruct r as [|s r1]; [discriminate|].
  destruct (is_sign s) eqn:S.
  - destruct (Nat.eqb (digits r1) 0) eqn:Z; [discriminate|]. inversion H. right. cbn [firstn Nat.add].
    apply je_signed; [exact X|apply sign_cases; exact S|apply firstn_digits1; exact Z].
  - destruct (Nat.eqb (digits (s :: r1)) 0) eqn:Z; [discriminate|]. inversion H. right.
    change (firstn (1 + digits (s :: r1)) (c :: s :: r1)) with (c :: firstn (digits (s :: r1)) (s :: r1)).
    apply je_plain; [exact X|apply firstn_digits1; exact Z].
Qed.

Lemma unsigned_tok_sound : forall l n, unsigned_tok l = Some n -> jnumber (firstn n l).
Proof.
  intros l n H. unfold unsigned_tok in H.
  destruct (int_part l) as [i|] eqn:I; [|discriminate].
  destruct (frac_part (skipn i l)) as [f|] eqn:F; [|discriminate].
  destruct (exp_part (skipn (i + f) l)) as [e|] eqn:E; [|discriminate]. inversion H.
  rewrite !firstn_plus. rewrite <- app_assoc.
  apply (jn_intro [] (firstn i l) (firstn f (skipn i l)) (firstn e (skipn (i + f) l))).
  - left; reflexivity.
  - apply int_part_sound; exact I.
  - apply frac_part_sound; exact F.
  - apply exp_part_sound; exact E.
Qed.

Lemma number_tok_sound : forall l n, number_tok l = Some n ->
  exists v rest, l = v ++ rest /\ length v = n /\ jnumber v.
Proof.
  intros l n H. destruct (number_tok_piece l n H) as [LN _].
  exists (firstn n l), (skipn n l). split; [symmetry; apply firstn_skipn|]. split; [apply firstn_length_le; exact LN|].
  destruct l as [|c r]; [discriminate|]. unfold number_tok in H.
  destruct (isb 45 c) eqn:M.
  - destruct (unsigned_tok r) as [m|] eqn:U; [|discriminate]. inversion H. cbn [firstn].
    apply isb_true in M. subst c. pose proof (unsigned_tok_sound r m U) as J. inversion J as [m0 i f e OM JI JF JE EQ].
    destruct OM as [->| ->].
    + cbn [app]. apply (jn_intro [MINUS] i f e); auto. right; reflexivity.
    + exfalso. (* an unsigned token does not start with a minus *)
      unfold unsigned_tok in U. destruct r as [|x r']; [discriminate|]. cbn [app] in EQ.
      destruct m; [discriminate|]. cbn [firstn] in EQ. inversion EQ; subst x.
      cbn in U. discriminate.
  - apply unsigned_tok_sound. exact H.
Qed.

(** ** completeness *)
Definition nstart (P : byte -> bool) (tl : list byte) : Prop := match tl with [] => True | b :: _ => P b = false end.

Lemma skipn_len_app : forall {A} (a b : list A), skipn (length a) (a ++ b) = b.
Proof. intros A a. induction a; intros b; cbn; auto. Qed.

Lemma digits_app : forall ds tl, Forall digit ds -> nstart is_digit tl -> digits (ds ++ tl) = length ds.
Proof.
  induction ds as [|d ds IH]; intros tl F N.
  - cbn. destruct tl as [|b r]; [reflexivity|]. unfold digits. cbn. cbn in N. rewrite N. reflexivity.
  - inversion F; subst. apply digit_iff in H1. unfold digits in *. cbn. rewrite H1. f_equal. apply IH; auto.
Qed.

Lemma int_part_app : forall i tl, jint i -> (i = [ZERO] \/ nstart is_digit tl) -> int_part (i ++ tl) = Some (length i).
Proof.
  intros i tl J C. destruct J as [|d ds D F].
  - reflexivity.
  - cbn [app int_part]. pose proof D as D'. apply digit19_iff in D'.
    destruct (isb 48 d) eqn:Z.
    + apply isb_true in Z. subst d. destruct ds as [|x ds]; [reflexivity|].
      destruct C as [C|C]; [discriminate|]. unfold digit19 in D. cbn in D. lia.
    + rewrite D'. destruct C as [C|C]; [inversion C; subst; discriminate|].
      rewrite (digits_app ds tl F C). reflexivity.
Qed.

Lemma digits1_nonzero : forall ds tl, digits1 ds -> nstart is_digit tl -> Nat.eqb (digits (ds ++ tl)) 0 = false /\ digits (ds ++ tl) = length ds.
Proof.
  intros ds tl [NE F] N. rewrite (digits_app ds tl F N). split; [|reflexivity]. destruct ds; [contradiction|reflexivity].
Qed.

Lemma frac_part_app : forall f tl, jfrac f -> nstart is_digit tl -> frac_part (f ++ tl) = Some (length f).
Proof.
  intros f tl [ds D] N. cbn [app frac_part]. change (isb 46 DOT) with true. cbn iota.
  destruct (digits1_nonzero ds tl D N) as [Z E]. rewrite Z, E. reflexivity.
Qed.
Lemma frac_part_none : forall tl, nstart (isb 46) tl -> frac_part tl = Some 0%nat.
Proof. intros [|b r] N; [reflexivity|]. cbn in N. unfold frac_part. rewrite N. reflexivity. Qed.

Lemma exp_part_app : forall e tl, jexp e -> nstart is_digit tl -> exp_part (e ++ tl) = Some (length e).
Proof.
  intros e tl J N. destruct J as [c ds X D|c s ds X S D].
  - cbn [app exp_part]. rewrite X. destruct D as [NE F]. destruct ds as [|d ds]; [contradiction|]. cbn [app].
    inversion F; subst. pose proof H1 as DD. apply digit_iff in DD.
    assert (NS : is_sign d = false).
    { unfold is_sign. unfold digit in H1. apply orb_false_iff. split; apply Z.eqb_neq; lia. }
    rewrite NS. change (d :: ds ++ tl) with ((d :: ds) ++ tl).
    destruct (digits1_nonzero (d :: ds) tl (conj NE F) N) as [Z E]. rewrite Z, E. reflexivity.
  - cbn [app exp_part]. rewrite X.
    assert (SS : is_sign s = true) by (destruct S as [->| ->]; reflexivity). rewrite SS.
    destruct (digits1_nonzero ds tl D N) as [Z E]. rewrite Z, E. reflexivity.
Qed.
Lemma exp_part_none : forall tl, nstart is_exp tl -> exp_part tl = Some 0%nat.
Proof. intros [|b r] N; [reflexivity|]. cbn in N. unfold exp_part. rewrite N. reflexivity. Qed.

(** what the first byte of a part is *)
Lemma jfrac_start : forall f tl, jfrac f -> nstart is_digit (f ++ tl) /\ nstart is_exp (f ++ tl).
Proof. intros f tl [ds D]. cbn. auto. Qed.
Lemma jexp_start : forall e tl, jexp e -> nstart is_digit (e ++ tl) /\ nstart (isb 46) (e ++ tl).
Proof.
  intros e tl J. assert (X : exists c r, e = c :: r /\ is_exp c = true) by (destruct J; eauto). destruct X as (c & r & -> & X).
  cbn. split.
  - destruct (is_digit c) eqn:D; [|reflexivity]. destruct (digit_not_dot_exp c D) as [_ N]. congruence.
  - destruct (isb 46 c) eqn:D; [|reflexivity]. change (isb 46 c) with (bz c =? 46) in D. rewrite (dot_not_exp c D) in X. discriminate.
Qed.

Lemma jint_first : forall i, jint i -> exists d r, i = d :: r /\ is_digit d = true /\ isb 45 d = false.
Proof.
  intros i [|d ds D F].
  - exists ZERO, []. auto.
  - exists d, ds. split; [reflexivity|]. unfold digit19 in D. split.
    + apply digit_iff. unfold digit. lia.
    + apply Z.eqb_neq. lia.
Qed.

Theorem number_tok_complete : forall v rest, jnumber v -> follows_ok v rest ->
  number_tok (v ++ rest) = Some (length v).
Proof.
  intros v rest J FO. pose proof (FO J) as NX. clear FO.
  inversion J as [m i f e OM JI OF OE EQ]. subst v.
  (* what may not follow *)
  assert (XD : f = [] -> e = [] -> (i = [ZERO] \/ nstart is_digit rest)).
  { intros -> ->. destruct JI as [|d ds D F]; [left; reflexivity|right].
    destruct rest as [|b r]; [exact I|]. cbn. destruct (is_digit b) eqn:DB; [|reflexivity]. exfalso.
    apply (NX b r eq_refl). exists []. rewrite !app_nil_r.
    replace ((m ++ d :: ds) ++ [b]) with (m ++ (d :: ds ++ [b]) ++ [] ++ []) by (rewrite !app_nil_r, <- app_assoc; reflexivity).
    apply jn_intro; [exact OM| |left; reflexivity|left; reflexivity]. apply ji_pos; [exact D|]. apply Forall_app. split; [exact F|]. constructor; [apply digit_iff; exact DB|constructor]. }
  assert (XF : f = [] -> e = [] -> nstart (isb 46) rest).
  { intros -> ->. destruct rest as [|b r]; [exact I|]. cbn. destruct (isb 46 b) eqn:DB; [|reflexivity]. exfalso.
    apply isb_true in DB. subst b.
    apply (NX _ r eq_refl). exists [ZERO]. rewrite !app_nil_r.
    replace ((m ++ i) ++ zb 46 :: [ZERO]) with (m ++ i ++ (DOT :: [ZERO]) ++ []) by (rewrite app_nil_r, <- app_assoc; reflexivity).
    apply jn_intro; [exact OM|exact JI| |left; reflexivity]. right. constructor. split; [discriminate|]. constructor; [unfold digit; cbn; lia|constructor]. }
  assert (XFD : f <> [] -> e = [] -> nstart is_digit rest).
  { intros NF ->. destruct OF as [->|JF]; [contradiction|]. destruct JF as [ds [NE F]].
    destruct rest as [|b r]; [exact I|]. cbn. destruct (is_digit b) eqn:DB; [|reflexivity]. exfalso.
    apply (NX b r eq_refl). exists []. rewrite !app_nil_r.
    replace ((m ++ i ++ DOT :: ds) ++ [b]) with (m ++ i ++ (DOT :: ds ++ [b]) ++ []) by (rewrite app_nil_r, <- !app_assoc; reflexivity).
    apply jn_intro; [exact OM|exact JI| |left; reflexivity]. right. constructor. split; [destruct ds; [contradiction|discriminate]|].
    apply Forall_app. split; [exact F|]. constructor; [apply digit_iff; exact DB|constructor]. }
  assert (XE : e = [] -> nstart is_exp rest).
  { intros ->. destruct rest as [|b r]; [exact I|]. cbn. destruct (is_exp b) eqn:DB; [|reflexivity]. exfalso.
    apply (NX b r eq_refl). exists [ZERO]. rewrite !app_nil_r.
    replace ((m ++ i ++ f) ++ b :: [ZERO]) with (m ++ i ++ f ++ (b :: [ZERO])) by (rewrite <- !app_assoc; reflexivity).
    apply jn_intro; [exact OM|exact JI|exact OF|]. right. apply je_plain; [exact DB|]. split; [discriminate|]. constructor; [unfold digit; cbn; lia|constructor]. }
  assert (XED : e <> [] -> nstart is_digit rest).
  { intros NE. destruct OE as [->|JE]; [contradiction|].
    destruct rest as [|b r]; [exact I|]. cbn. destruct (is_digit b) eqn:DB; [|reflexivity]. exfalso.
    apply (NX b r eq_refl). exists []. 
    assert (JE' : jexp (e ++ [b])).
    { destruct JE as [c ds X [N0 F]|c s ds X S [N0 F]].
      - cbn [app]. apply je_plain; [exact X|]. split; [destruct ds; [contradiction|discriminate]|].
        apply Forall_app. split; [exact F|]. constructor; [apply digit_iff; exact DB|constructor].
      - cbn [app]. apply je_signed; [exact X|exact S|]. split; [destruct ds; [contradiction|discriminate]|].
        apply Forall_app. split; [exact F|]. constructor; [apply digit_iff; exact DB|constructor]. }
    replace ((m ++ i ++ f ++ e) ++ [b]) with (m ++ i ++ f ++ (e ++ [b])) by (rewrite <- !app_assoc; reflexivity).
    apply jn_intro; [exact OM|exact JI|exact OF|right; exact JE']. }
  (* the unsigned part *)
  assert (U : unsigned_tok (i ++ f ++ e ++ rest) = Some (length i + length f + length e)%nat).
  { unfold unsigned_tok.
    assert (CI : i = [ZERO] \/ nstart is_digit (f ++ e ++ rest)).
    { destruct OF as [->|JF]; [|right; apply (jfrac_start f _ JF)].
      destruct OE as [->|JE]; [|right; apply (jexp_start e _ JE)]. apply XD; reflexivity. }
    rewrite (int_part_app i _ JI CI), skipn_len_app.
    assert (FP : frac_part (f ++ e ++ rest) = Some (length f)).
    { destruct OF as [->|JF].
      - cbn [app length]. apply frac_part_none. destruct OE as [->|JE]; [apply XF; reflexivity|apply (jexp_start e _ JE)].
      - apply frac_part_app; [exact JF|]. destruct OE as [->|JE]; [|apply (jexp_start e _ JE)].
        apply XFD; [|reflexivity]. destruct JF. discriminate. }
    rewrite FP.
    replace (length i + length f)%nat with (length f + length i)%nat by lia.
    rewrite <- skipn_skipn, !skipn_len_app.
    assert (EP : exp_part (e ++ rest) = Some (length e)).
    { destruct OE as [->|JE]; [cbn [app length]; apply exp_part_none; apply XE; reflexivity|].
      apply exp_part_app; [exact JE|]. apply XED. destruct JE; discriminate. }
    rewrite EP. reflexivity. }
  rewrite <- !app_assoc. rewrite !app_length.
  destruct OM as [->| ->].
  - cbn [app length]. destruct (jint_first i JI) as (d & r & -> & DG & NM). cbn [app] in *.
    unfold number_tok. rewrite NM. rewrite U. f_equal. cbn [length]. lia.
  - cbn [app length number_tok]. change (isb 45 MINUS) with true. cbn iota. rewrite U. cbn. f_equal. lia.
Qed.

(** * Values: soundness of the reference *)
Definition Sound (f : list byte -> option nat) (P : list byte -> Prop) : Prop :=
  forall l n, f l = Some n -> exists v rest, l = v ++ rest /\ length v = n /\ P v.

Lemma ws_split : forall l, exists w, l = w ++ skipn (ws l) l /\ ws_str w /\ length w = ws l.
Proof.
  intros l. exists (firstn (ws l) l). split; [symmetry; apply firstn_skipn|]. split; [apply ws_prefix_str|].
  apply firstn_length_le. apply ws_le.
Qed.

(** comma-separated items: generic in what an item is ([P]) and in the predicate for the sequence ([E]) *)
Lemma items_sound : forall (P E : list byte -> Prop) item close,
  (forall v, P v -> E v) ->
  (forall v w1 w2 es, P v -> ws_str w1 -> ws_str w2 -> E es -> E (v ++ w1 ++ COMMA :: w2 ++ es)) ->
  Sound item P ->
  forall k l n, items k item close l = Some n ->
  exists es w2 rest, l = es ++ w2 ++ zb close :: rest /\ n = (length es + length w2 + 1)%nat /\ E es /\ ws_str w2.
Proof.
  intros P E item close ONE MORE SI. induction k as [|k IH]; intros l n H; [discriminate|].
  cbn [items] in H. destruct (item l) as [n1|] eqn:I1; [|discriminate].
  destruct (SI l n1 I1) as (v & r0 & -> & LV & PV). rewrite <- LV, skipn_len_app in H.
  destruct (ws_split r0) as (w & ER & WS & LW). rewrite <- LW in H.
  destruct (skipn (ws r0) r0) as [|c r1] eqn:K; [rewrite LW, K in H; discriminate|].
  rewrite LW, K in H. rewrite <- LW in H.
  destruct (isb 44 c) eqn:CM.
  - apply isb_true in CM. subst c.
    destruct (ws_split r1) as (w1 & ER1 & WS1 & LW1).
    destruct (items k item close (skipn (ws r1) r1)) as [n2|] eqn:I2; [|discriminate].
    destruct (IH _ _ I2) as (es & w2 & rest & E2 & -> & EE & WS2).
    cbn [option_map] in H. inversion H.
    exists (v ++ w ++ COMMA :: w1 ++ es), w2, rest. split; [|split; [|split; [|exact WS2]]].
    + rewrite ER at 1. rewrite ER1 at 1. rewrite E2. rewrite <- !app_assoc. cbn [app]. rewrite <- !app_assoc. reflexivity.
    + rewrite !app_length. cbn [length]. rewrite !app_length. lia.
    + apply MORE; auto.
  - destruct (isb close c) eqn:CL; [|discriminate]. apply isb_true in CL. subst c. inversion H.
    exists v, w, r1. split; [rewrite ER at 1; reflexivity|]. split; [lia|]. split; [apply ONE; exact PV|exact WS].
Qed.

Lemma container_sound : forall (P E : list byte -> Prop) item close f,
  (forall v, P v -> E v) ->
  (forall v w1 w2 es, P v -> ws_str w1 -> ws_str w2 -> E es -> E (v ++ w1 ++ COMMA :: w2 ++ es)) ->
  Sound item P ->
  forall r n, container f item close r = Some n ->
  exists body rest, r = body ++ zb close :: rest /\ n = S (length body) /\
                    (ws_str body \/ exists w1 es w2, body = w1 ++ es ++ w2 /\ ws_str w1 /\ E es /\ ws_str w2).
Proof.
  intros P E item close f ONE MORE SI r n H. unfold container in H.
  destruct (ws_split r) as (w & ER & WS & LW).
  destruct (skipn (ws r) r) as [|c r1] eqn:K; [discriminate|].
  destruct (isb close c) eqn:CL.
  - apply isb_true in CL. subst c. inversion H. exists w, r1. split; [exact ER|]. split; [lia|]. left; exact WS.
  - destruct (items f item close (c :: r1)) as [n2|] eqn:I2; [|discriminate]. inversion H.
    destruct (items_sound P E item close ONE MORE SI _ _ _ I2) as (es & w2 & rest & E2 & -> & EE & WS2).
    exists (w ++ es ++ w2), rest. split; [rewrite ER, E2, <- !app_assoc; reflexivity|].
    split; [rewrite !app_length; lia|]. right. exists w, es, w2. auto.
Qed.

Lemma member_sound : forall val P, Sound val P ->
  Sound (member val) (fun m => exists k w1 w2 v, m = k ++ w1 ++ COLON :: w2 ++ v /\ jstring k /\ ws_str w1 /\ ws_str w2 /\ P v).
Proof.
  intros val P SV l n H. unfold member in H.
  destruct (string_tok l) as [k|] eqn:ST; [|discriminate].
  destruct (string_tok_sound l k ST) as (s & r0 & -> & LS & JS). rewrite <- LS, skipn_len_app in H.
  destruct (ws_split r0) as (w & ER & WS & LW).
  destruct (skipn (ws r0) r0) as [|c r1] eqn:K; [discriminate|].
  destruct (isb 58 c) eqn:CO; [|discriminate]. apply isb_true in CO. subst c.
  destruct (ws_split r1) as (w1 & ER1 & WS1 & LW1).
  destruct (val (skipn (ws r1) r1)) as [n2|] eqn:V; [|discriminate]. inversion H.
  destruct (SV _ _ V) as (v & rest & E2 & LV & PV).
  exists (s ++ w ++ COLON :: w1 ++ v), rest. split; [|split].
  - rewrite ER at 1. rewrite ER1 at 1. rewrite E2. rewrite <- !app_assoc. cbn [app]. rewrite <- !app_assoc. reflexivity.
  - rewrite !app_length. cbn [length]. rewrite !app_length. lia.
  - exists s, w, w1, v. auto.
Qed.

Lemma lit_ref_sound : forall w l n, lit_ref w l = Some n -> exists rest, l = w ++ rest /\ n = length w.
Proof.
  intros w l n H. unfold lit_ref in H. destruct (is_prefix w l) eqn:P; [|discriminate]. inversion H.
  destruct (is_prefix_firstn _ _ P) as [F L]. exists (skipn (length w) l). split; [|reflexivity].
  rewrite <- F at 1. symmetry. apply firstn_skipn.
Qed.

Lemma scalar_tok_sound : forall d, Sound scalar_tok (jvalue d).
Proof.
  intros d l n H. unfold scalar_tok in H. destruct l as [|b r]; [discriminate|].
  destruct (isb 34 b).
  { destruct (string_tok_sound _ _ H) as (s & rest & E & L & J). exists s, rest. split; [exact E|]. split; [exact L|]. apply jv_string; exact J. }
  destruct (isb 45 b || is_digit b).
  { destruct (number_tok_sound _ _ H) as (v & rest & E & L & J). exists v, rest. split; [exact E|]. split; [exact L|]. apply jv_number; exact J. }
  destruct (isb 116 b).
  { destruct (lit_ref_sound _ _ _ H) as (rest & E & ->). exists lit_true, rest. split; [exact E|]. split; [reflexivity|constructor]. }
  destruct (isb 102 b).
  { destruct (lit_ref_sound _ _ _ H) as (rest & E & ->). exists lit_false, rest. split; [exact E|]. split; [reflexivity|constructor]. }
  destruct (isb 110 b); [|discriminate].
  destruct (lit_ref_sound _ _ _ H) as (rest & E & ->). exists lit_null, rest. split; [exact E|]. split; [reflexivity|constructor].
Qed.

Theorem value_len_sound : forall md k d, Sound (value_len md k d) (jvalue (Z.to_nat (md - d))).
Proof.
  intros md. induction k as [|k IH]; intros d l n H; [discriminate|].
  cbn [value_len] in H. destruct l as [|b r]; [discriminate|].
  destruct (isb 91 b) eqn:A.
  - apply isb_true in A. subst b. destruct (md <=? d) eqn:LIM; [discriminate|]. apply Z.leb_gt in LIM.
    destruct (container k (value_len md k (d + 1)) 93 r) as [m|] eqn:C; [|discriminate]. inversion H.
    assert (DD : Z.to_nat (md - d) = S (Z.to_nat (md - (d + 1)))) by lia.
    destruct (container_sound (jvalue (Z.to_nat (md - (d + 1)))) (jelements (Z.to_nat (md - (d + 1)))) _ 93 k
                (jes_one _) (fun v w1 w2 es => jes_more _ v w1 w2 es) (IH (d + 1)) r m C) as (body & rest & -> & -> & B).
    exists (LBRACK :: body ++ [RBRACK]), rest. split; [cbn; rewrite <- app_assoc; reflexivity|].
    split; [cbn; rewrite app_length; cbn; lia|]. rewrite DD.
    destruct B as [WS|(w1 & es & w2 & -> & W1 & EE & W2)].
    + apply jv_array_empty; exact WS.
    + rewrite <- !app_assoc. apply jv_array; auto.
  - destruct (isb 123 b) eqn:O.
    + apply isb_true in O. subst b. destruct (md <=? d) eqn:LIM; [discriminate|]. apply Z.leb_gt in LIM.
      destruct (container k (member (value_len md k (d + 1))) 125 r) as [m|] eqn:C; [|discriminate]. inversion H.
      assert (DD : Z.to_nat (md - d) = S (Z.to_nat (md - (d + 1)))) by lia.
      pose proof (member_sound _ _ (IH (d + 1))) as MS.
      assert (MS' : Sound (member (value_len md k (d + 1))) (jmember (Z.to_nat (md - (d + 1))))).
      { intros l0 n0 E0. destruct (MS l0 n0 E0) as (v & rest & E1 & L1 & (kk & w1 & w2 & vv & -> & JS & W1 & W2 & JV)).
        exists (kk ++ w1 ++ COLON :: w2 ++ vv), rest. split; [exact E1|]. split; [exact L1|]. constructor; auto. }
      destruct (container_sound (jmember (Z.to_nat (md - (d + 1)))) (jmembers (Z.to_nat (md - (d + 1)))) _ 125 k
                  (jms_one _) (fun v w1 w2 es => jms_more _ v w1 w2 es) MS' r m C) as (body & rest & -> & -> & B).
      exists (LBRACE :: body ++ [RBRACE]), rest. split; [cbn; rewrite <- app_assoc; reflexivity|].
      split; [cbn; rewrite app_length; cbn; lia|]. rewrite DD.
      destruct B as [WS|(w1 & es & w2 & -> & W1 & EE & W2)].
      * apply jv_object_empty; exact WS.
      * rewrite <- !app_assoc. apply jv_object; auto.
    + apply scalar_tok_sound. exact H.
Qed.

(** [skip_ref] only finds JSON values of the grammar, nested at most 10,000 deep *)
Theorem skip_ref_sound : forall data n, skip_ref data = Some n ->
  exists w v rest, data = w ++ v ++ rest /\ ws_str w /\ jvalue_upto 10000 v /\ n = len (w ++ v).
Proof.
  intros data n H. unfold skip_ref, skip_ref_md in H.
  destruct (value_len max_depth_ref (length data + 2) 0 (skipn (ws data) data)) as [m|] eqn:V; [|discriminate].
  cbn in H. inversion H.
  destruct (value_len_sound _ _ _ _ _ V) as (v & rest & E & L & J).
  destruct (ws_split data) as (w & ED & WS & LW).
  exists w, v, rest. split; [rewrite ED at 1; rewrite E; reflexivity|]. split; [exact WS|]. split; [exact J|].
  unfold len. rewrite app_length. lia.
Qed.

(** * Values: completeness of the reference *)
Lemma is_prefix_app : forall w rest, is_prefix w (w ++ rest) = true.
Proof. induction w as [|x w IH]; intros rest; cbn; auto. rewrite Z.eqb_refl, IH. reflexivity. Qed.

Lemma lit_ref_app : forall w rest, lit_ref w (w ++ rest) = Some (length w).
Proof. intros. unfold lit_ref. rewrite is_prefix_app. reflexivity. Qed.

(** number bytes *)
Lemma digit_numchar : forall b, digit b -> numchar b = true.
Proof. intros b D. apply digit_iff in D. unfold numchar. rewrite D. reflexivity. Qed.
Lemma Forall_digit_numchar : forall ds, Forall digit ds -> forallb numchar ds = true.
Proof. induction 1; cbn; auto. rewrite (digit_numchar _ H), IHForall. reflexivity. Qed.

Lemma jnumber_numchar : forall n, jnumber n -> forallb numchar n = true.
Proof.
  intros n [m i f e OM JI OF OE]. rewrite !forallb_app.
  assert (A : forallb numchar m = true) by (destruct OM as [->| ->]; reflexivity).
  assert (B : forallb numchar i = true).
  { destruct JI as [|d ds D F]; [reflexivity|]. cbn. rewrite (Forall_digit_numchar ds F).
    rewrite digit_numchar; [reflexivity|]. unfold digit19 in D. unfold digit. lia. }
  assert (C : forallb numchar f = true).
  { destruct OF as [->|[ds [_ F]]]; [reflexivity|]. cbn. rewrite (Forall_digit_numchar ds F). reflexivity. }
  assert (D : forallb numchar e = true).
  { destruct OE as [->|JE]; [reflexivity|]. destruct JE as [c ds X [_ F]|c s ds X S [_ F]]; cbn; rewrite (Forall_digit_numchar ds F).
    - unfold numchar. rewrite X, !orb_true_r. reflexivity.
    - assert (NS : numchar s = true) by (destruct S as [->| ->]; reflexivity). rewrite NS.
      unfold numchar. rewrite X, !orb_true_r. reflexivity. }
  rewrite A, B, C, D. reflexivity.
Qed.

(** a byte that no number contains ends every number *)
Lemma follows_nonnum : forall v rest, nstart numchar rest -> follows_ok v rest.
Proof.
  intros v rest N _ b r -> [t J]. cbn in N. apply jnumber_numchar in J. rewrite forallb_app in J.
  apply andb_true_iff in J. destruct J as [_ J]. cbn in J. rewrite N in J. discriminate.
Qed.

Lemma ws_char_nonnum : forall b, ws_char b -> numchar b = false.
Proof. intros b [->|[->|[->| ->]]]; reflexivity. Qed.
Lemma nstart_ws_then : forall w b tl, ws_str w -> numchar b = false -> nstart numchar (w ++ b :: tl).
Proof. intros [|x w] b tl W N; cbn; [exact N|]. inversion W; subst. apply ws_char_nonnum; assumption. Qed.

(** the first byte of a value *)
Definition vfirst (b : byte) : Prop := is_ws b = false /\ isb 93 b = false /\ isb 125 b = false.
Lemma digit_vfirst : forall b, is_digit b = true -> vfirst b.
Proof.
  intro b. pose proof (forall_bytes (fun b => negb (is_digit b) || (negb (is_ws b) && negb (isb 93 b) && negb (isb 125 b))) ltac:(vm_compute; reflexivity) b) as H.
  intros D. cbn beta in H. rewrite D in H. cbn [negb orb] in H.
  apply andb_true_iff in H. destruct H as [H H3]. apply andb_true_iff in H. destruct H as [H1 H2].
  apply negb_true_iff in H1, H2, H3. repeat split; assumption.
Qed.

Lemma jnumber_first : forall n, jnumber n -> exists b r, n = b :: r /\ vfirst b /\ (isb 45 b || is_digit b = true) /\
  isb 34 b = false /\ isb 91 b = false /\ isb 123 b = false.
Proof.
  intros n [m i f e OM JI OF OE]. destruct (jint_first i JI) as (d & r & -> & DG & NM).
  destruct OM as [->| ->].
  - exists d, (r ++ f ++ e). split; [reflexivity|]. split; [apply digit_vfirst; exact DG|]. split; [rewrite DG; apply orb_true_r|].
    pose proof (forall_bytes (fun b => negb (is_digit b) || (negb (isb 34 b) && negb (isb 91 b) && negb (isb 123 b))) ltac:(vm_compute; reflexivity) d) as H.
    cbn beta in H. rewrite DG in H. cbn [negb orb] in H.
    apply andb_true_iff in H. destruct H as [H H3]. apply andb_true_iff in H. destruct H as [H1 H2].
    apply negb_true_iff in H1, H2, H3. auto.
  - exists MINUS, ((d :: r) ++ f ++ e). repeat split; reflexivity.
Qed.

Lemma jvalue_first : forall d v, jvalue d v -> exists b r, v = b :: r /\ vfirst b.
Proof.
  intros d v J. destruct J; try (eexists; eexists; split; [reflexivity|repeat split; reflexivity]).
  - destruct (jnumber_first n H) as (b & r & -> & VF & _). eauto.
  - destruct H as [c _]. exists QUOTE, (c ++ [QUOTE]). repeat split; reflexivity.
Qed.
Lemma jelements_first : forall d es, jelements d es -> exists b r, es = b :: r /\ vfirst b.
Proof.
  intros d es J. destruct J as [d v JV|d v w1 w2 es JV _ _ _]; destruct (jvalue_first d v JV) as (b & r & -> & VF); cbn [app]; eauto.
Qed.
Lemma jmember_first : forall d m, jmember d m -> exists r, m = QUOTE :: r.
Proof. intros d m [d' k w1 w2 v [c _] _ _ _]. eexists. reflexivity. Qed.
Lemma jmembers_first : forall d ms, jmembers d ms -> exists r, ms = QUOTE :: r.
Proof.
  intros d ms J. destruct J as [d m JM|d m w1 w2 ms JM _ _ _]; destruct (jmember_first d m JM) as (r & ->); cbn [app]; eexists; reflexivity.
Qed.

Lemma ws_then : forall w b tl, ws_str w -> is_ws b = false -> ws (w ++ b :: tl) = length w /\ skipn (length w) (w ++ b :: tl) = b :: tl.
Proof.
  intros w b tl W N. split; [|apply skipn_len_app]. rewrite (ws_str_ws w _ W), (ws_cons_false b tl N). lia.
Qed.

(** items, generically: [P] items each parsed by [item] whenever a non-number byte follows *)
Section ItemsComplete.
  Variable item : list byte -> option nat.
  Variable P : list byte -> Prop.
  Variable close : Z.
  Hypothesis close_ok : is_ws (zb close) = false /\ isb 44 (zb close) = false /\ isb close (zb close) = true /\ numchar (zb close) = false.
  Variable bound : nat.
  Hypothesis item_ok : forall v rest, P v -> nstart numchar rest -> (length (v ++ rest) < bound)%nat ->
                                      item (v ++ rest) = Some (length v).
  Hypothesis P_first : forall v, P v -> exists b r, v = b :: r /\ is_ws b = false.

  Inductive seqP : list byte -> Prop :=
  | sp_one : forall v, P v -> seqP v
  | sp_more : forall v w1 w2 es, P v -> ws_str w1 -> ws_str w2 -> seqP es -> seqP (v ++ w1 ++ COMMA :: w2 ++ es).

  Lemma seqP_first : forall es, seqP es -> exists b r, es = b :: r /\ is_ws b = false.
  Proof. intros es [v PV|v w1 w2 es' PV _ _ _]; destruct (P_first v PV) as (b & r & -> & W); cbn [app]; eauto. Qed.

  Lemma items_complete : forall es, seqP es -> forall k w2 rest, ws_str w2 -> (length es < k)%nat ->
    (length (es ++ w2 ++ zb close :: rest) < bound)%nat ->
    items k item close (es ++ w2 ++ zb close :: rest) = Some (length es + length w2 + 1)%nat.
  Proof.
    destruct close_ok as (CW & CC & CL & CN).
    induction 1 as [v PV|v w1 w3 es PV W1 W3 SE IH]; intros k w2 rest W2 LK LB.
    - destruct k as [|k]; [lia|]. cbn [items].
      rewrite (item_ok v _ PV (nstart_ws_then w2 _ rest W2 CN) LB), skipn_len_app.
      destruct (ws_then w2 (zb close) rest W2 CW) as [WS SK]. rewrite WS, SK, CC, CL. f_equal. lia.
    - destruct k as [|k]; [lia|]. cbn [items]. rewrite <- !app_assoc. cbn [app]. rewrite <- !app_assoc.
      rewrite <- !app_assoc in LB. cbn [app] in LB. rewrite <- !app_assoc in LB.
      rewrite (item_ok v _ PV (nstart_ws_then w1 COMMA _ W1 eq_refl) LB), skipn_len_app.
      destruct (ws_then w1 COMMA (w3 ++ es ++ w2 ++ zb close :: rest) W1 eq_refl) as [WS SK]. rewrite WS, SK.
      change (isb 44 COMMA) with true. cbn iota.
      destruct (seqP_first es SE) as (b & r & -> & WB). cbn [app].
      destruct (ws_then w3 b (r ++ w2 ++ zb close :: rest) W3 WB) as [WS3 SK3]. rewrite WS3, SK3.
      change (b :: r ++ w2 ++ zb close :: rest) with ((b :: r) ++ w2 ++ zb close :: rest).
      rewrite (IH k w2 rest W2).
      2:{ rewrite !app_length in LK. cbn [length] in LK. rewrite !app_length in LK. lia. }
      2:{ rewrite !app_length in LB. cbn [length] in LB. rewrite !app_length in LB. cbn [length] in LB. rewrite !app_length in *. cbn [length] in *. lia. }
      cbn [option_map]. f_equal. rewrite !app_length. cbn [length]. rewrite !app_length. cbn [length]. lia.
  Qed.
End ItemsComplete.

Definition PV (d : nat) (v : list byte) : Prop :=
  forall md dd k rest, follows_ok v rest -> Z.of_nat d + dd <= md -> (length (v ++ rest) < k)%nat ->
    value_len md k dd (v ++ rest) = Some (length v).
Definition PM (d : nat) (m : list byte) : Prop :=
  forall md dd f rest, nstart numchar rest -> Z.of_nat d + dd <= md -> (length (m ++ rest) < f)%nat ->
    member (value_len md f dd) (m ++ rest) = Some (length m).
Definition PEs (d : nat) (es : list byte) : Prop := seqP (fun v => jvalue d v /\ PV d v) es.
Definition PMs (d : nat) (ms : list byte) : Prop := seqP (fun m => jmember d m /\ PM d m) ms.

Lemma scalar_value_len : forall md k dd l b r, l = b :: r -> isb 91 b = false -> isb 123 b = false ->
  value_len md (S k) dd l = scalar_tok l.
Proof. intros md k dd l b r -> A O. cbn [value_len]. rewrite A, O. reflexivity. Qed.

Lemma container_empty : forall f item close w rest, ws_str w -> is_ws (zb close) = false -> isb close (zb close) = true ->
  container f item close (w ++ zb close :: rest) = Some (length w + 1)%nat.
Proof.
  intros f item close w rest W CW CL. unfold container.
  destruct (ws_then w (zb close) rest W CW) as [WS SK]. rewrite WS, SK, CL. reflexivity.
Qed.

Theorem grammar_complete :
  (forall d v, jvalue d v -> PV d v) /\ (forall d es, jelements d es -> PEs d es) /\
  (forall d ms, jmembers d ms -> PMs d ms) /\ (forall d m, jmember d m -> PM d m).
Proof.
  apply jvalue_mutind.
  - (* false *) intros d md dd k rest _ _ LK. destruct k as [|k]; [lia|]. exact (lit_ref_app lit_false rest).
  - (* null *) intros d md dd k rest _ _ LK. destruct k as [|k]; [lia|]. exact (lit_ref_app lit_null rest).
  - (* true *) intros d md dd k rest _ _ LK. destruct k as [|k]; [lia|]. exact (lit_ref_app lit_true rest).
  - (* {} *) intros d w W md dd k rest _ LE LK. destruct k as [|k]; [lia|].
    cbn [app value_len]. change (isb 91 LBRACE) with false. change (isb 123 LBRACE) with true. cbn iota.
    assert (NL : (md <=? dd) = false) by (apply Z.leb_gt; lia). rewrite NL.
    rewrite <- app_assoc. cbn [app].
    rewrite (container_empty k _ 125 w rest W eq_refl eq_refl). cbn [option_map length]. rewrite app_length. reflexivity.
  - (* { members } *) intros d w1 ms w2 W1 JM IHM W2 md dd k rest _ LE LK. destruct k as [|k]; [lia|].
    cbn [app value_len]. change (isb 91 LBRACE) with false. change (isb 123 LBRACE) with true. cbn iota.
    assert (NL : (md <=? dd) = false) by (apply Z.leb_gt; lia). rewrite NL.
    rewrite <- !app_assoc. cbn [app].
    destruct (jmembers_first d ms JM) as (r & EM). subst ms.
    unfold container.
    destruct (ws_then w1 QUOTE (r ++ w2 ++ RBRACE :: rest) W1 eq_refl) as [WS1 SK1].
    change ((QUOTE :: r) ++ w2 ++ RBRACE :: rest) with (QUOTE :: r ++ w2 ++ RBRACE :: rest).
    rewrite WS1, SK1. change (isb 125 QUOTE) with false. cbn iota.
    change (QUOTE :: r ++ w2 ++ RBRACE :: rest) with ((QUOTE :: r) ++ w2 ++ RBRACE :: rest).
    set (ms := QUOTE :: r) in *.
    assert (LL : length (LBRACE :: w1 ++ ms ++ w2 ++ [RBRACE]) = S (length w1 + (length ms + length w2 + 1))).
    { cbn [length]. rewrite !app_length. cbn [length]. lia. }
    assert (LK1 : (length ms < k)%nat /\ (length (ms ++ w2 ++ zb 125 :: rest) < k)%nat).
    { cbn [app length] in LK. rewrite !app_length in *. cbn [length] in *. rewrite !app_length in *. cbn [length] in *. lia. }
    pose proof (items_complete (member (value_len md k (dd + 1))) (fun m => jmember d m /\ PM d m) 125
               ltac:(repeat split; reflexivity) k
               ltac:(intros v rest0 [_ P0] N0 L0; apply P0; [exact N0|lia|exact L0])
               ltac:(intros v [J0 _]; destruct (jmember_first d v J0) as (r0 & ->); exists QUOTE, r0; split; reflexivity)
               ms IHM k w2 rest W2 (proj1 LK1) (proj2 LK1)) as IC.
    change (zb 125) with RBRACE in IC. rewrite IC. cbn [option_map]. rewrite LL. reflexivity.
  - (* [] *) intros d w W md dd k rest _ LE LK. destruct k as [|k]; [lia|].
    cbn [app value_len]. change (isb 91 LBRACK) with true. cbn iota.
    assert (NL : (md <=? dd) = false) by (apply Z.leb_gt; lia). rewrite NL.
    rewrite <- app_assoc. cbn [app].
    rewrite (container_empty k _ 93 w rest W eq_refl eq_refl). cbn [option_map length]. rewrite app_length. reflexivity.
  - (* [ elements ] *) intros d w1 es w2 W1 JE IHE W2 md dd k rest _ LE LK. destruct k as [|k]; [lia|].
    cbn [app value_len]. change (isb 91 LBRACK) with true. cbn iota.
    assert (NL : (md <=? dd) = false) by (apply Z.leb_gt; lia). rewrite NL.
    rewrite <- !app_assoc. cbn [app].
    destruct (jelements_first d es JE) as (b & r & EM & (VW & V93 & _)). subst es.
    unfold container.
    destruct (ws_then w1 b (r ++ w2 ++ RBRACK :: rest) W1 VW) as [WS1 SK1].
    change ((b :: r) ++ w2 ++ RBRACK :: rest) with (b :: r ++ w2 ++ RBRACK :: rest).
    rewrite WS1, SK1, V93.
    change (b :: r ++ w2 ++ RBRACK :: rest) with ((b :: r) ++ w2 ++ RBRACK :: rest).
    set (es := b :: r) in *.
    assert (LL : length (LBRACK :: w1 ++ es ++ w2 ++ [RBRACK]) = S (length w1 + (length es + length w2 + 1))).
    { cbn [length]. rewrite !app_length. cbn [length]. lia. }
    assert (LK1 : (length es < k)%nat /\ (length (es ++ w2 ++ zb 93 :: rest) < k)%nat).
    { cbn [app length] in LK. rewrite !app_length in *. cbn [length] in *. rewrite !app_length in *. cbn [length] in *. lia. }
    pose proof (items_complete (value_len md k (dd + 1)) (fun v => jvalue d v /\ PV d v) 93
               ltac:(repeat split; reflexivity) k
               ltac:(intros v rest0 [_ P0] N0 L0; apply P0; [apply follows_nonnum; exact N0|lia|exact L0])
               ltac:(intros v [J0 _]; destruct (jvalue_first d v J0) as (b0 & r0 & -> & (W0 & _)); exists b0, r0; split; [reflexivity|exact W0])
               es IHE k w2 rest W2 (proj1 LK1) (proj2 LK1)) as IC.
    change (zb 93) with RBRACK in IC. rewrite IC. cbn [option_map]. rewrite LL. reflexivity.
  - (* number *) intros d n JN md dd k rest FO _ LK. destruct k as [|k]; [lia|].
    destruct (jnumber_first n JN) as (b & r & EN & _ & MD & Q & A & O). subst n.
    cbn [app value_len]. rewrite A, O. unfold scalar_tok. rewrite Q, MD.
    change (b :: r ++ rest) with ((b :: r) ++ rest). apply number_tok_complete; assumption.
  - (* string *) intros d s JS md dd k rest _ _ LK. destruct k as [|k]; [lia|].
    destruct JS as [c JC]. exact (string_tok_complete (QUOTE :: c ++ [QUOTE]) rest (js_intro c JC)).
  - (* one element *) intros d v JV IH. apply sp_one. auto.
  - (* more elements *) intros d v w1 w2 es JV IHV W1 W2 JE IHE. apply sp_more; auto.
  - (* one member *) intros d m JM IH. apply sp_one. auto.
  - (* more members *) intros d m w1 w2 ms JM IHM W1 W2 JMS IHMS. apply sp_more; auto.
  - (* member *) intros d k w1 w2 v JS W1 W2 JV IHV md dd f rest N LE LF. unfold member.
    rewrite <- !app_assoc. cbn [app]. rewrite <- !app_assoc.
    rewrite (string_tok_complete k _ JS), skipn_len_app.
    destruct (ws_then w1 COLON (w2 ++ v ++ rest) W1 eq_refl) as [WS1 SK1]. rewrite WS1, SK1.
    change (isb 58 COLON) with true. cbn iota.
    destruct (jvalue_first d v JV) as (b & r & EV & (WB & _)).
    assert (WS2 : ws (w2 ++ v ++ rest) = length w2 /\ skipn (length w2) (w2 ++ v ++ rest) = v ++ rest).
    { rewrite EV. cbn [app]. apply ws_then; [exact W2|exact WB]. }
    destruct WS2 as [WS2 SK2]. rewrite WS2, SK2.
    rewrite (IHV md dd f rest (follows_nonnum v rest N) LE).
    + cbn [option_map]. f_equal. rewrite !app_length. cbn [length]. rewrite !app_length. lia.
    + rewrite !app_length in LF. cbn [length] in LF. rewrite !app_length in *. lia.
Qed.

(** * The theorems *)
Lemma ten_thousand : Z.of_nat 10000 = 10000.
Proof. reflexivity. Qed.

Lemma ws_str_nstart : forall w, ws_str w -> nstart numchar w.
Proof. intros [|b r] W; [exact I|]. inversion W; subst. cbn. apply ws_char_nonnum; assumption. Qed.

(** every JSON value of the grammar, nested at most 10,000 deep, is found by [skip_ref], with its exact
    end, provided the input does not go on with a byte that would continue a number (longest match) *)
Theorem skip_ref_complete : forall w v rest, ws_str w -> jvalue_upto 10000 v -> follows_ok v rest ->
  skip_ref (w ++ v ++ rest) = Some (len (w ++ v)).
Proof.
  intros w v rest W J FO. unfold skip_ref, skip_ref_md.
  destruct (jvalue_first _ _ J) as (b & r & EV & (WB & _)).
  assert (WS : ws (w ++ v ++ rest) = length w /\ skipn (length w) (w ++ v ++ rest) = v ++ rest).
  { rewrite EV. cbn [app]. apply ws_then; [exact W|exact WB]. }
  destruct WS as [WS SK]. rewrite WS, SK.
  destruct grammar_complete as (GV & _).
  rewrite (GV _ _ J max_depth_ref 0 (length (w ++ v ++ rest) + 2)%nat rest FO).
  - cbn [option_map]. unfold len. rewrite app_length. reflexivity.
  - unfold max_depth_ref. rewrite ten_thousand. lia.
  - rewrite !app_length. lia.
Qed.

(** C01: [valid_ref] accepts exactly the texts  ws value ws  of RFC 8259 whose value is nested at most
    10,000 deep *)
Theorem valid_ref_iff : forall data, valid_ref data = true <-> json_text 10000 data.
Proof.
  intros data. unfold valid_ref, json_text. split.
  - destruct (skip_ref data) as [p|] eqn:S; [|discriminate]. intros V.
    destruct (skip_ref_sound data p S) as (w & v & rest & -> & W & J & ->).
    exists w, v, rest. split; [reflexivity|]. split; [exact W|]. split; [|exact J].
    unfold len in V. rewrite Nat2Z.id in V. rewrite app_assoc, skipn_len_app in V.
    apply Nat.eqb_eq in V. apply ws_all_str. exact V.
  - intros (w & v & w' & -> & W & W' & J).
    rewrite (skip_ref_complete w v w' W J (follows_nonnum v w' (ws_str_nstart w' W'))).
    unfold len. rewrite Nat2Z.id. rewrite app_assoc, skipn_len_app. apply Nat.eqb_eq. apply ws_str_all. exact W'.
Qed.

(** the members listed by [members_ref] are JSON values of the grammar at their offsets *)
Theorem members_ref_sound : forall obj data ms e, members_ref obj data = Some (ms, e) ->
  Forall (fun m => exists v rest, skipn (Z.to_nat (fst m)) data = v ++ rest /\ jvalue (length data) v) ms.
Proof.
  intros obj data ms e M. pose proof (members_ref_values obj data ms e M) as V.
  eapply Forall_impl; [|exact V]. intros m [n VL].
  destruct (value_len_sound _ _ _ _ _ VL) as (v & rest & E & _ & J).
  exists v, rest. split; [exact E|]. unfold len in J. rewrite Z.sub_0_r, Nat2Z.id in J. exact J.
Qed.

(** a sufficient, purely lexical form of the longest-match condition *)
Lemma follows_ok_lexical : forall v rest,
  match rest with [] => True | b :: _ => numchar b = false end -> follows_ok v rest.
Proof. intros v rest H. apply follows_nonnum. exact H. Qed.

(** the document  [1, {k : -2.5e3}]  of SpecFacts.v (with a quoted key) is a JSON text; the two bytes 01 are not,
    but 0 followed by 1 is skipped as the value 0 *)
Example grammar_ex :
  valid_ref (firstn 21 ex_doc) = true /\ json_text 10000 (firstn 21 ex_doc) /\
  valid_ref [x30; x31] = false /\ ~ json_text 10000 [x30; x31] /\ skip_ref [x30; x31] = Some 1%Z.
Proof.
  assert (V : valid_ref (firstn 21 ex_doc) = true) by (vm_compute; reflexivity).
  assert (N : valid_ref [x30; x31] = false) by (vm_compute; reflexivity).
  split; [exact V|]. split; [apply valid_ref_iff; exact V|]. split; [exact N|]. split; [|vm_compute; reflexivity].
  intros T. apply valid_ref_iff in T. rewrite N in T. discriminate.
Qed.

Print Assumptions skip_ref_sound.
Print Assumptions skip_ref_complete.
Print Assumptions valid_ref_iff.
Print Assumptions members_ref_sound.

(** with SpecFacts.v: the Valid wrapper over the specification machine accepts exactly the JSON texts *)
Corollary Valid_spec_json_text : forall data b,
  fst (Api.Valid 10000 SpecMachines.skip_spec data b) = Some true <-> json_text 10000 data.
Proof.
  intros data b. rewrite valid_spec_correct. rewrite <- valid_ref_iff. split; [intros H; inversion H; reflexivity|intros ->; reflexivity].
Qed.
Print Assumptions Valid_spec_json_text.
