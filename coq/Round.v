(** Round.v -- specification of IEEE-754 binary64 round-to-nearest-even for non-negative
    rationals, in pure Z arithmetic (no reals, no Coq floats, no axioms).

    A float64 is always its 64-bit pattern, a [Z] in [0, 2^64).  For a finite non-negative
    pattern [b] (0 <= b < 2047*2^52) the integer [ival b] is value(b) * 2^1074; it is strictly
    monotone in [b], which is what makes the bit-level definition of rounding short:

      round_pos num den = (E + 1022) * 2^52 + M
        where E = max (floor (log2 (num/den))) (-1022)         (binade, clamped for subnormals)
              M = nearest-even integer to (num/den) * 2^(52-E)  (0 <= M <= 2^53)

    A mantissa carry (M = 2^53) lands on the first pattern of the next binade and an exponent
    above 1023 lands at or above the pattern of +Inf, so no special cases are needed.

    [round_ne neg num den] = (pattern, overflow flag).  Definitions first (executable, used by
    the extracted model), characterisation lemmas after. *)
From Coq Require Import ZArith Lia Bool.
Local Open Scope Z_scope.

(** ** Definitions *)

Definition two52 : Z := 4503599627370496.
Definition two53 : Z := 9007199254740992.
Definition sign_bit : Z := 9223372036854775808.            (* 2^63 *)
Definition inf_bits : Z := 9218868437227405312.            (* 2047 * 2^52 *)

(** 2^k for k >= 0, 1 otherwise; 2^k as a fraction is [P2 k / P2 (-k)] for k of either sign *)
Definition P2 (k : Z) : Z := 2 ^ (Z.max k 0).

(** the fraction (num/den) * 2^k, k of either sign *)
Definition scale2 (num den k : Z) : Z * Z := (num * P2 k, den * P2 (- k)).

(** floor (log2 (num/den)) for num, den > 0 *)
Definition ilog2 (num den : Z) : Z :=
  let e0 := Z.log2 num - Z.log2 den in
  let nd := scale2 num den (- e0) in
  if snd nd <=? fst nd then e0 else e0 - 1.

(** nearest integer to n/d (d > 0, n >= 0), ties to even *)
Definition rne_div (n d : Z) : Z :=
  let q := n / d in
  let r := n mod d in
  if 2 * r <? d then q
  else if d <? 2 * r then q + 1
  else if Z.even q then q else q + 1.

(** clamped binade of num/den *)
Definition binade (num den : Z) : Z := Z.max (ilog2 num den) (-1022).

(** rounding of a positive rational to an unbounded "pattern" *)
Definition round_pos (num den : Z) : Z :=
  let E := binade num den in
  let nd := scale2 num den (52 - E) in
  (E + 1022) * two52 + rne_div (fst nd) (snd nd).

(** [round_ne neg num den]: the binary64 nearest to (-1)^neg * num/den, ties to even,
    and whether the rounded magnitude exceeds the largest finite float64.
    Requires 0 <= num, 0 < den.  Zero keeps its sign. *)
Definition round_ne (neg : bool) (num den : Z) : Z * bool :=
  let s := if neg then sign_bit else 0 in
  if num <=? 0 then (s, false)
  else
    let b := round_pos num den in
    if inf_bits <=? b then (s + inf_bits, true) else (s + b, false).

(** value(b) * 2^1074 for a finite non-negative pattern *)
Definition ival (b : Z) : Z :=
  let ex := b / two52 in
  let mt := b mod two52 in
  if ex =? 0 then mt else (two52 + mt) * 2 ^ (ex - 1).

(** size of the unit in the last place of the binade of [b], times 2^1074 *)
Definition iulp (b : Z) : Z := 2 ^ (Z.max (b / two52) 1 - 1).

(** IEEE operations on patterns used by the model of atof64exact (finite operands only;
    NaN/Inf operands never occur there).  Assumption recorded here: Go's float64 [*] and [/]
    are IEEE-754 correctly rounded operations (Go spec + amd64/arm64 hardware). *)
Definition f_abs (b : Z) : Z := b mod sign_bit.
Definition f_neg (b : Z) : bool := sign_bit <=? b.
Definition f_opp (b : Z) : Z := if sign_bit <=? b then b - sign_bit else b + sign_bit.
Definition two2148 : Z := 2 ^ 2148.                          (* (2^1074)^2 *)
Definition f_mul (a b : Z) : Z :=
  fst (round_ne (xorb (f_neg a) (f_neg b)) (ival (f_abs a) * ival (f_abs b)) two2148).
Definition f_div (a b : Z) : Z :=
  fst (round_ne (xorb (f_neg a) (f_neg b)) (ival (f_abs a)) (ival (f_abs b))).
(** a < b as floats, finite operands (signed zeros compare equal) *)
Definition f_sval (b : Z) : Z := if f_neg b then - ival (f_abs b) else ival (f_abs b).
Definition f_lt (a b : Z) : bool := f_sval a <? f_sval b.
(** float64(u) for an unsigned integer u *)
Definition f_of_u64 (u : Z) : Z := fst (round_ne false u 1).
(** the float64 denoted by the Go constant 1ek, k >= 0 (constants are rounded to nearest) *)
Definition f_pow10 (k : Z) : Z := fst (round_ne false (10 ^ k) 1).

(** ** Sanity values (all by computation) *)
Example round_one : round_ne false 1 1 = (4607182418800017408, false).   (* 0x3FF0000000000000 *)
Proof. vm_compute. reflexivity. Qed.
Example round_tenth : round_ne false 1 10 = (4591870180066957722, false). (* 0x3FB999999999999A *)
Proof. vm_compute. reflexivity. Qed.
Example round_negzero : round_ne true 0 1 = (sign_bit, false).
Proof. vm_compute. reflexivity. Qed.
Example round_max : round_ne false (17976931348623157 * 10 ^ 292) 1 = (9218868437227405311, false).
Proof. vm_compute. reflexivity. Qed.
(** 2^1024 - 2^970 is the midpoint between max finite and 2^1024: tie goes to even = overflow *)
Example round_ovf_tie : round_ne false (2 ^ 1024 - 2 ^ 970) 1 = (inf_bits, true).
Proof. vm_compute. reflexivity. Qed.
Example round_ovf_below : round_ne false (2 ^ 1024 - 2 ^ 970 - 1) 1 = (9218868437227405311, false).
Proof. vm_compute. reflexivity. Qed.
Example round_min_sub : round_ne false 49 (10 ^ 325) = (1, false).        (* 4.9e-324 *)
Proof. vm_compute. reflexivity. Qed.
(** 2^-1075 is the midpoint between 0 and the least subnormal: tie to even = 0 *)
Example round_half_min : round_ne false 1 (2 ^ 1075) = (0, false).
Proof. vm_compute. reflexivity. Qed.
Example round_half_min_up : round_ne true (2 ^ 1075 + 1) (2 ^ 2150) = (sign_bit + 1, false).
Proof. vm_compute. reflexivity. Qed.
Example round_big : fst (round_ne false (10 ^ 400) (10 ^ 400 * 3)) = 4599676419421066581.
Proof. vm_compute. reflexivity. Qed.

(** ** Characterisation lemmas *)

Lemma P2_pos k : 0 < P2 k.
Proof. unfold P2. apply Z.pow_pos_nonneg; lia. Qed.

(** P2 is the power of two on non-negative exponents *)
Lemma P2_nonneg k : 0 <= k -> P2 k = 2 ^ k.
Proof. intros. unfold P2. rewrite Z.max_l by lia. reflexivity. Qed.

(** P2 is 1 on non-positive exponents *)
Lemma P2_nonpos k : k <= 0 -> P2 k = 1.
Proof. intros. unfold P2. rewrite Z.max_r by lia. reflexivity. Qed.

(** 2^(a+b) = 2^a * 2^b in fraction form *)
Lemma P2_add a b : P2 (a + b) * P2 (- a) * P2 (- b) = P2 (- (a + b)) * P2 a * P2 b.
Proof.
  destruct (Z_le_gt_dec 0 a), (Z_le_gt_dec 0 b), (Z_le_gt_dec 0 (a + b));
  repeat first [ rewrite (P2_nonneg (a+b)) by lia | rewrite (P2_nonpos (a+b)) by lia
               | rewrite (P2_nonneg (-(a+b))) by lia | rewrite (P2_nonpos (-(a+b))) by lia
               | rewrite (P2_nonneg a) by lia | rewrite (P2_nonpos a) by lia
               | rewrite (P2_nonneg (-a)) by lia | rewrite (P2_nonpos (-a)) by lia
               | rewrite (P2_nonneg b) by lia | rewrite (P2_nonpos b) by lia
               | rewrite (P2_nonneg (-b)) by lia | rewrite (P2_nonpos (-b)) by lia ];
  rewrite ?Z.mul_1_l, ?Z.mul_1_r; rewrite <- ?Z.pow_add_r by lia; try reflexivity; try (f_equal; lia); try lia.
Qed.

(** 2^(k+1) = 2 * 2^k in fraction form *)
Lemma P2_succ k : P2 (k + 1) * P2 (- k) = 2 * P2 k * P2 (- (k + 1)).
Proof.
  pose proof (P2_add k 1) as H. change (P2 (- (1))) with 1 in H. change (P2 1) with 2 in H. lia.
Qed.

(** monotonicity of k |-> 2^k in fraction form *)
Lemma P2_mono a b : a <= b -> P2 a * P2 (- b) <= P2 b * P2 (- a).
Proof.
  intros Hab. pose proof (P2_add a (b - a)) as H.
  replace (a + (b - a)) with b in H by lia.
  rewrite (P2_nonpos (-(b-a))) in H by lia.
  pose proof (P2_pos (b - a)). pose proof (P2_pos a). pose proof (P2_pos (-b)).
  pose proof (P2_pos b). pose proof (P2_pos (-a)).
  assert (1 <= P2 (b - a)) by lia. nia.
Qed.

(** strict version: a < b gives 2 * 2^a <= 2^b *)
Lemma P2_mono_strict a b : a < b -> 2 * P2 a * P2 (- b) <= P2 b * P2 (- a).
Proof.
  intros Hab. pose proof (P2_mono (a + 1) b ltac:(lia)) as H.
  pose proof (P2_succ a) as Hs.
  pose proof (P2_pos a). pose proof (P2_pos (-b)). pose proof (P2_pos b). pose proof (P2_pos (-a)).
  pose proof (P2_pos (a+1)). pose proof (P2_pos (-(a+1))).
  (* P2(a+1) P2(-b) <= P2 b P2(-(a+1));  P2(a+1) P2(-a) = 2 P2 a P2(-(a+1)) *)
  assert (X : (P2 (a+1) * P2 (-a)) * P2 (-b) <= P2 b * P2 (-(a+1)) * P2 (-a)) by nia.
  rewrite Hs in X. nia.
Qed.

(** [e] is the binary order of magnitude of num/den: 2^e <= num/den < 2^(e+1) *)
Definition is_ilog2 (num den e : Z) : Prop :=
  den * P2 e <= num * P2 (- e) < 2 * den * P2 e.

(** ilog2 computes the binary order of magnitude *)
Lemma ilog2_spec num den : 0 < num -> 0 < den -> is_ilog2 num den (ilog2 num den).
Proof.
  intros Hn Hd. unfold is_ilog2, ilog2, scale2. cbn [fst snd].
  pose proof (Z.log2_spec num Hn) as [Hn1 Hn2]. pose proof (Z.log2_spec den Hd) as [Hd1 Hd2].
  pose proof (Z.log2_nonneg num). pose proof (Z.log2_nonneg den).
  set (ln := Z.log2 num) in *. set (ld := Z.log2 den) in *.
  replace (Z.succ ln) with (ln + 1) in * by lia. replace (Z.succ ld) with (ld + 1) in * by lia.
  rewrite Z.pow_add_r in Hn2, Hd2 by lia. change (2^1) with 2 in *.
  assert (HA : 0 < 2 ^ ln) by (apply Z.pow_pos_nonneg; lia).
  assert (HB : 0 < 2 ^ ld) by (apply Z.pow_pos_nonneg; lia).
  (* 2^ln * P2(-e0) = 2^ld * P2 e0 *)
  assert (HE : 2 ^ ln * P2 (- (ln - ld)) = 2 ^ ld * P2 (ln - ld)).
  { destruct (Z_le_gt_dec ld ln).
    - rewrite P2_nonpos, P2_nonneg by lia. replace ln with (ld + (ln - ld)) at 1 by lia.
      rewrite Z.pow_add_r by lia. lia.
    - rewrite P2_nonneg, P2_nonpos by lia. replace ld with (ln + (-(ln - ld))) at 2 by lia.
      rewrite Z.pow_add_r by lia. lia. }
  rewrite Z.opp_involutive.
  pose proof (P2_pos (ln - ld)) as Hp. pose proof (P2_pos (-(ln - ld))) as Hq.
  set (e0 := ln - ld) in *.
  destruct (Z.leb_spec (den * P2 e0) (num * P2 (- e0))) as [Hle|Hgt].
  - split; [exact Hle|]. nia.
  - pose proof (P2_succ (e0 - 1)) as Hs. replace (e0 - 1 + 1) with e0 in Hs by lia.
    pose proof (P2_pos (e0 - 1)). pose proof (P2_pos (-(e0 - 1))).
    set (u := P2 (e0 - 1)) in *. set (v := P2 (- (e0 - 1))) in *.
    set (p := P2 e0) in *. set (q := P2 (- e0)) in *.
    (* p * v = 2 * u * q *)
    split.
    + assert (K1 : den * p <= 2 * num * q) by nia.
      assert (K2 : den * (p * v) <= 2 * num * q * v) by nia.
      rewrite Hs in K2. nia.
    + assert (K3 : num * q * v < den * (p * v)) by nia.
      rewrite Hs in K3. nia.
Qed.

(** the binary order of magnitude is unique *)
Lemma ilog2_unique num den e1 e2 :
  0 < num -> 0 < den -> is_ilog2 num den e1 -> is_ilog2 num den e2 -> e1 = e2.
Proof.
  assert (G : forall e1 e2, 0 < num -> 0 < den -> is_ilog2 num den e1 -> is_ilog2 num den e2 ->
              e1 < e2 -> False).
  { clear. intros e1 e2 Hn Hd [_ H1] [H2 _] Hlt.
    pose proof (P2_mono (e1 + 1) e2 ltac:(lia)) as Hm. pose proof (P2_succ e1) as Hs.
    pose proof (P2_pos e1). pose proof (P2_pos (-e1)). pose proof (P2_pos e2). pose proof (P2_pos (-e2)).
    pose proof (P2_pos (e1+1)). pose proof (P2_pos (-(e1+1))).
    set (a := P2 e1) in *. set (a' := P2 (-e1)) in *. set (b := P2 e2) in *. set (b' := P2 (-e2)) in *.
    set (c := P2 (e1+1)) in *. set (c' := P2 (-(e1+1))) in *.
    (* num a' < 2 den a ; den b <= num b' ; c b' <= b c' ; c a' = 2 a c' *)
    (* num a' c' < 2 a c' den = c a' den  => num c' < c den => num c' b' < c b' den <= b c' den => num b' < b den *)
    assert (num * c' < c * den) by nia.
    assert (num * c' * b' < b * c' * den) by nia.
    nia. }
  intros Hn Hd H1 H2. destruct (Z.lt_trichotomy e1 e2) as [L|[E|L]]; [exfalso; eauto | exact E | exfalso; eauto].
Qed.

(** ** rne_div: nearest-even quotient *)

(** [m] is a nearest integer to n/d, even on a tie *)
Definition is_rne (n d m : Z) : Prop :=
  2 * Z.abs (m * d - n) < d \/ (2 * Z.abs (m * d - n) = d /\ Z.even m = true).

(** rne_div returns a nearest integer, even on a tie *)
Lemma rne_div_spec n d : 0 < d -> is_rne n d (rne_div n d).
Proof.
  intros Hd. unfold is_rne, rne_div.
  pose proof (Z.div_mod n d ltac:(lia)) as E. pose proof (Z.mod_pos_bound n d Hd) as B.
  set (q := n / d) in *. set (r := n mod d) in *.
  destruct (Z.ltb_spec (2 * r) d); [left; lia|].
  destruct (Z.ltb_spec d (2 * r)); [left; lia|].
  destruct (Z.even q) eqn:Ev.
  - right. split; [lia|exact Ev].
  - right. split; [lia|]. rewrite Z.even_add, Ev. reflexivity.
Qed.

(** the nearest-even integer is unique *)
Lemma is_rne_unique n d m1 m2 : 0 < d -> is_rne n d m1 -> is_rne n d m2 -> m1 = m2.
Proof.
  intros Hd H1 H2. unfold is_rne in *.
  destruct (Z.lt_trichotomy m1 m2) as [L|[E|L]]; [|exact E|]; exfalso.
  - assert (m2 = m1 + 1) by nia. subst m2.
    destruct H1 as [H1|[H1 E1]], H2 as [H2|[H2 E2]]; try nia.
    rewrite Z.even_add, E1 in E2. discriminate.
  - assert (m1 = m2 + 1) by nia. subst m1.
    destruct H1 as [H1|[H1 E1]], H2 as [H2|[H2 E2]]; try nia.
    rewrite Z.even_add, E2 in E1. discriminate.
Qed.

(** introduction rule for rne_div *)
Lemma rne_div_unique n d m : 0 < d -> is_rne n d m -> rne_div n d = m.
Proof. intros Hd H. eapply is_rne_unique; eauto using rne_div_spec. Qed.

(** integers are fixed points of rne_div *)
Lemma rne_div_exact m d : 0 < d -> rne_div (m * d) d = m.
Proof. intros. apply rne_div_unique; [lia|]. left. replace (m * d - m * d) with 0 by lia. simpl. lia. Qed.

(** rne_div is monotone in the numerator *)
Lemma rne_div_mono n1 n2 d : 0 < d -> n1 <= n2 -> rne_div n1 d <= rne_div n2 d.
Proof.
  intros Hd Hn. pose proof (rne_div_spec n1 d Hd) as H1. pose proof (rne_div_spec n2 d Hd) as H2.
  set (m1 := rne_div n1 d) in *. set (m2 := rne_div n2 d) in *. clearbody m1 m2. unfold is_rne in *.
  destruct (Z_le_gt_dec m1 m2) as [|G]; [assumption|exfalso].
  (* m2 < m1 : n1 >= m1 d - d/2 >= m2 d + d/2 >= n2 >= n1: all equal *)
  assert (m1 = m2 + 1) by nia. subst m1.
  destruct H1 as [H1|[H1 E1]], H2 as [H2|[H2 E2]]; try nia.
  rewrite Z.even_add, E2 in E1. discriminate.
Qed.

(** rne_div depends on the fraction only (common factor) *)
Lemma rne_div_scale n d c : 0 < d -> 0 < c -> rne_div (n * c) (d * c) = rne_div n d.
Proof.
  intros Hd Hc. apply rne_div_unique; [nia|].
  destruct (rne_div_spec n d Hd) as [H|[H E]]; [left|right; split; [|exact E]].
  - replace (rne_div n d * (d * c) - n * c) with ((rne_div n d * d - n) * c) by ring.
    rewrite Z.abs_mul, (Z.abs_eq c) by lia. nia.
  - replace (rne_div n d * (d * c) - n * c) with ((rne_div n d * d - n) * c) by ring.
    rewrite Z.abs_mul, (Z.abs_eq c) by lia. nia.
Qed.

(** same quotient for equal fractions *)
Lemma rne_div_frac_eq n1 d1 n2 d2 : 0 < d1 -> 0 < d2 -> n1 * d2 = n2 * d1 -> rne_div n1 d1 = rne_div n2 d2.
Proof.
  intros H1 H2 E. rewrite <- (rne_div_scale n1 d1 d2), <- (rne_div_scale n2 d2 d1) by lia.
  rewrite E. f_equal. ring.
Qed.

(** integer bounds on the fraction carry over to rne_div *)
Lemma rne_div_bounds n d a b : 0 < d -> a * d <= n <= b * d -> a <= rne_div n d <= b.
Proof.
  intros Hd [Ha Hb]. split.
  - rewrite <- (rne_div_exact a d Hd). apply rne_div_mono; assumption.
  - rewrite <- (rne_div_exact b d Hd). apply rne_div_mono; assumption.
Qed.

(** ** round_pos *)

Lemma two52_eq : two52 = 2 ^ 52. Proof. reflexivity. Qed.
(** 2^53 = 2 * 2^52 *)
Lemma two53_eq : two53 = 2 * two52. Proof. reflexivity. Qed.

(** the clamped binade is at least -1022 *)
Lemma binade_ge num den : -1022 <= binade num den.
Proof. unfold binade. lia. Qed.

(** introduction rule: any (binade, nearest-even mantissa) pair is the result *)
Lemma round_pos_eq num den e M :
  0 < num -> 0 < den -> is_ilog2 num den e ->
  let E := Z.max e (-1022) in
  is_rne (num * P2 (52 - E)) (den * P2 (E - 52)) M ->
  round_pos num den = (E + 1022) * two52 + M.
Proof.
  intros Hn Hd He E HM. unfold round_pos, binade, scale2. cbn [fst snd].
  rewrite (ilog2_unique num den _ e Hn Hd (ilog2_spec num den Hn Hd) He). fold E.
  replace (- (52 - E)) with (E - 52) by lia.
  rewrite (rne_div_unique _ _ M); [reflexivity| |exact HM].
  pose proof (P2_pos (E - 52)). nia.
Qed.

(** the scaled fraction lies in [2^52, 2^53) in the normal range, below 2^52 in the subnormal range *)
Lemma scaled_bounds num den e :
  0 < num -> 0 < den -> is_ilog2 num den e ->
  let E := Z.max e (-1022) in
  let n := num * P2 (52 - E) in let d := den * P2 (E - 52) in
  0 < d /\ 0 < n /\ n < two53 * d /\ (-1022 <= e -> two52 * d <= n) /\ (e < -1022 -> n < two52 * d).
Proof.
  intros Hn Hd [He1 He2] E n d.
  pose proof (P2_pos (52 - E)) as Hp. pose proof (P2_pos (E - 52)) as Hq.
  pose proof (P2_pos e) as Hpe. pose proof (P2_pos (- e)) as Hqe.
  assert (0 < d) by (subst d; nia). assert (0 < n) by (subst n; nia).
  split; [assumption|]. split; [assumption|].
  destruct (Z_le_gt_dec (-1022) e) as [Hn'|Hs].
  - assert (E = e) by (subst E; lia). clearbody E. subst E.
    pose proof (P2_add e (-52)) as HA. change (P2 (- -52)) with two52 in HA.
    change (P2 (-52)) with 1 in HA. replace (e + -52) with (e - 52) in HA by lia.
    replace (- (e - 52)) with (52 - e) in HA by lia.
    (* P2(e-52) * P2(-e) * two52 = P2(52-e) * P2 e * 1 *)
    subst n d.
    set (a := P2 (e - 52)) in *. set (b := P2 (52 - e)) in *. set (p := P2 e) in *. set (q := P2 (- e)) in *.
    assert (X1 : two52 * (den * a) * q = den * p * b) by nia.
    split; [|split; [|lia]].
    + (* num b < two53 den a  <=  num b q < 2 den p b = 2 two52 den a q *)
      assert (num * b * q < 2 * (den * p * b)) by nia.
      rewrite <- X1 in H1. rewrite two53_eq. nia.
    + intros _. assert (den * p * b <= num * b * q) by nia. rewrite <- X1 in H1. nia.
  - assert (E = -1022) by (subst E; lia). clearbody E. subst E.
    subst n d. change (P2 (52 - -1022)) with (2 ^ 1074) in *. change (P2 (-1022 - 52)) with 1 in *.
    rewrite (P2_nonpos e) in * by lia. rewrite (P2_nonneg (- e)) in * by lia.
    assert (2 ^ 1023 <= 2 ^ (- e)) by (apply Z.pow_le_mono_r; lia).
    assert (HK : num * 2 ^ 1023 < 2 * den) by nia.
    change (2 ^ 1074) with (2 ^ 1023 * 2251799813685248).
    remember (2 ^ 1023) as K eqn:EK. clear EK. unfold two52, two53.
    split; [|split; [lia|intros _]]; nia.
Qed.

(** round_pos as (binade, mantissa) with the range of the mantissa in the normal and subnormal cases *)
Lemma round_pos_mant num den :
  0 < num -> 0 < den ->
  let e := ilog2 num den in let E := binade num den in
  let M := rne_div (num * P2 (52 - E)) (den * P2 (E - 52)) in
  round_pos num den = (E + 1022) * two52 + M /\
  0 <= M <= two53 /\ (-1022 <= e -> two52 <= M) /\ (e < -1022 -> M <= two52).
Proof.
  intros Hn Hd e E M.
  pose proof (ilog2_spec num den Hn Hd) as He. fold e in He.
  destruct (scaled_bounds num den e Hn Hd He) as (Hd' & Hn' & Hu & Hnorm & Hsub).
  fold (binade num den) in *. unfold binade in E. fold e in E. fold E in Hd', Hn', Hu, Hnorm, Hsub.
  split.
  - subst M E e. unfold round_pos, scale2, binade. cbn [fst snd].
    replace (- (52 - Z.max (ilog2 num den) (-1022))) with (Z.max (ilog2 num den) (-1022) - 52) by lia.
    reflexivity.
  - split; [|split].
    + subst M. apply rne_div_bounds; [assumption|lia].
    + intros H. subst M. apply rne_div_bounds with (b := two53); [assumption|]. split; [auto|lia].
    + intros H. subst M. apply rne_div_bounds with (a := 0); [assumption|]. split; [lia|]. specialize (Hsub H). lia.
Qed.

(** value of a pattern assembled from binade and mantissa (carry included) *)
Lemma ival_pattern E M :
  -1022 <= E -> 0 <= M <= two53 -> (-1022 < E -> two52 <= M) ->
  ival ((E + 1022) * two52 + M) = M * 2 ^ (E + 1022).
Proof.
  intros HE HM Hnorm. unfold ival.
  assert (T : 0 < two52) by (unfold two52; lia).
  destruct (Z_lt_le_dec M two52) as [Hlt|Hge].
  - assert (E = -1022) by lia. subst E. change ((-1022 + 1022) * two52) with 0. rewrite Z.add_0_l.
    rewrite Z.div_small, Z.mod_small by lia. change (-1022 + 1022) with 0. cbn [Z.eqb]. lia.
  - destruct (Z_lt_le_dec M two53) as [Hlt2|Hge2].
    + replace ((E + 1022) * two52 + M) with ((M - two52) + (E + 1023) * two52) by lia.
      rewrite Z.div_add, Z_mod_plus_full by lia.
      rewrite Z.div_small, Z.mod_small by (rewrite two53_eq in *; lia).
      destruct (Z.eqb_spec (0 + (E + 1023)) 0); [lia|].
      replace (0 + (E + 1023) - 1) with (E + 1022) by lia. f_equal. lia.
    + assert (M = two53) by lia. subst M. rewrite two53_eq.
      replace ((E + 1022) * two52 + 2 * two52) with (0 + (E + 1024) * two52) by lia.
      rewrite Z.div_add, Z_mod_plus_full by lia. rewrite Z.div_small, Z.mod_small by lia.
      destruct (Z.eqb_spec (0 + (E + 1024)) 0); [lia|].
      replace (0 + (E + 1024) - 1) with ((E + 1022) + 1) by lia.
      rewrite Z.pow_add_r by lia. change (2 ^ 1) with 2. lia.
Qed.

(** the error of rounding is at most half a unit in the last place of the binade of the input
    (values scaled by 2^1074 * den to stay in Z) *)
Lemma round_pos_error num den :
  0 < num -> 0 < den ->
  let E := binade num den in
  let b := round_pos num den in
  2 * Z.abs (ival b * den - num * 2 ^ 1074) <= 2 ^ (E + 1022) * den /\
  (2 * Z.abs (ival b * den - num * 2 ^ 1074) = 2 ^ (E + 1022) * den -> Z.even b = true).
Proof.
  intros Hn Hd E b.
  destruct (round_pos_mant num den Hn Hd) as (Hb & HM & Hnorm & Hsub).
  fold E in Hb, HM, Hnorm, Hsub. fold b in Hb.
  set (M := rne_div (num * P2 (52 - E)) (den * P2 (E - 52))) in *.
  assert (HE : -1022 <= E) by apply binade_ge.
  assert (Hnorm' : -1022 < E -> two52 <= M).
  { intros H. apply Hnorm. unfold E, binade in H. lia. }
  rewrite Hb, (ival_pattern E M HE HM Hnorm').
  pose proof (P2_pos (E - 52)) as Hq. pose proof (P2_pos (52 - E)) as Hp.
  assert (Hd' : 0 < den * P2 (E - 52)) by nia.
  pose proof (rne_div_spec (num * P2 (52 - E)) (den * P2 (E - 52)) Hd') as HR. fold M in HR.
  assert (Ev : Z.even ((E + 1022) * two52 + M) = Z.even M).
  { rewrite Z.even_add, Z.even_mul. change (Z.even two52) with true. rewrite orb_true_r.
    destruct (Z.even M); reflexivity. }
  rewrite Ev.
  assert (HW : 0 < 2 ^ (E + 1022)) by (apply Z.pow_pos_nonneg; lia).
  unfold is_rne in HR.
  destruct (Z_le_gt_dec E 52) as [Hle|Hgt].
  - rewrite (P2_nonpos (E - 52)), (P2_nonneg (52 - E)) in * by lia.
    assert (X : 2 ^ (52 - E) * 2 ^ (E + 1022) = 2 ^ 1074) by (rewrite <- Z.pow_add_r by lia; f_equal; lia).
    replace (M * 2 ^ (E + 1022) * den - num * 2 ^ 1074)
      with ((M * (den * 1) - num * 2 ^ (52 - E)) * 2 ^ (E + 1022)) by (rewrite <- X; ring).
    rewrite Z.abs_mul, (Z.abs_eq (2 ^ (E + 1022))) by lia.
    split; [nia|]. intros Heq. destruct HR as [HR|[_ HR]]; [nia|exact HR].
  - rewrite (P2_nonneg (E - 52)), (P2_nonpos (52 - E)) in * by lia.
    assert (X : 2 ^ (E - 52) * 2 ^ 1074 = 2 ^ (E + 1022)) by (rewrite <- Z.pow_add_r by lia; f_equal; lia).
    rewrite <- X.
    replace (M * (2 ^ (E - 52) * 2 ^ 1074) * den - num * 2 ^ 1074)
      with ((M * (den * 2 ^ (E - 52)) - num * 1) * 2 ^ 1074) by ring.
    assert (0 < 2 ^ 1074) by (apply Z.pow_pos_nonneg; lia).
    rewrite Z.abs_mul, (Z.abs_eq (2 ^ 1074)) by lia.
    split; [nia|]. intros Heq. destruct HR as [HR|[_ HR]]; [nia|exact HR].
Qed.

(** order of magnitude is monotone *)
Lemma ilog2_mono n1 d1 n2 d2 :
  0 < n1 -> 0 < d1 -> 0 < n2 -> 0 < d2 -> n1 * d2 <= n2 * d1 -> ilog2 n1 d1 <= ilog2 n2 d2.
Proof.
  intros Hn1 Hd1 Hn2 Hd2 Hle.
  destruct (ilog2_spec n1 d1 Hn1 Hd1) as [A1 _]. destruct (ilog2_spec n2 d2 Hn2 Hd2) as [_ B2].
  set (e1 := ilog2 n1 d1) in *. set (e2 := ilog2 n2 d2) in *.
  destruct (Z_le_gt_dec e1 e2) as [|G]; [assumption|exfalso].
  pose proof (P2_mono_strict e2 e1 ltac:(lia)) as Hm.
  pose proof (P2_pos e1). pose proof (P2_pos (-e1)). pose proof (P2_pos e2). pose proof (P2_pos (-e2)).
  set (a := P2 e1) in *. set (a' := P2 (-e1)) in *. set (b := P2 e2) in *. set (b' := P2 (-e2)) in *.
  (* d1 a <= n1 a' ; n2 b' < 2 d2 b ; 2 b a' <= a b' *)
  (* n2 b' a' d1 < 2 d2 b a' d1 <= d2 a b' d1 <= d2 b' n1 a' => n2 d1 < n1 d2 *)
  assert (n2 * b' * a' * d1 < 2 * d2 * b * a' * d1) by nia.
  assert (2 * d2 * b * a' * d1 <= d2 * (a * b') * d1) by nia.
  assert (d2 * (a * b') * d1 <= d2 * b' * (n1 * a')) by nia.
  assert (n2 * d1 * (b' * a') < n1 * d2 * (b' * a')) by nia.
  nia.
Qed.

(** round_pos is monotone in the fraction *)
Lemma round_pos_mono n1 d1 n2 d2 :
  0 < n1 -> 0 < d1 -> 0 < n2 -> 0 < d2 -> n1 * d2 <= n2 * d1 -> round_pos n1 d1 <= round_pos n2 d2.
Proof.
  intros Hn1 Hd1 Hn2 Hd2 Hle.
  destruct (round_pos_mant n1 d1 Hn1 Hd1) as (Hb1 & HM1 & Hnorm1 & Hsub1).
  destruct (round_pos_mant n2 d2 Hn2 Hd2) as (Hb2 & HM2 & Hnorm2 & Hsub2).
  pose proof (ilog2_mono n1 d1 n2 d2 Hn1 Hd1 Hn2 Hd2 Hle) as He.
  rewrite Hb1, Hb2. unfold binade in *.
  set (e1 := ilog2 n1 d1) in *. set (e2 := ilog2 n2 d2) in *.
  set (E1 := Z.max e1 (-1022)) in *. set (E2 := Z.max e2 (-1022)) in *.
  assert (T : 0 < two52) by (unfold two52; lia).
  destruct (Z.eq_dec E1 E2) as [EE|NE].
  - rewrite <- EE in *. clearbody E1.
    apply Z.add_le_mono_l.
    pose proof (P2_pos (52 - E1)). pose proof (P2_pos (E1 - 52)).
    rewrite <- (rne_div_scale (n1 * P2 (52 - E1)) (d1 * P2 (E1 - 52)) d2) by nia.
    rewrite <- (rne_div_scale (n2 * P2 (52 - E1)) (d2 * P2 (E1 - 52)) d1) by nia.
    replace (d2 * P2 (E1 - 52) * d1) with (d1 * P2 (E1 - 52) * d2) by ring.
    apply rne_div_mono; nia.
  - assert (E1 + 1 <= E2) by lia. assert (-1022 <= e2) by lia.
    specialize (Hnorm2 ltac:(lia)). rewrite two53_eq in *. nia.
Qed.

(** ** round_ne: sign, overflow flag *)

Lemma round_pos_nonneg num den : 0 < num -> 0 < den -> 0 <= round_pos num den.
Proof.
  intros Hn Hd. destruct (round_pos_mant num den Hn Hd) as (Hb & HM & _).
  rewrite Hb. pose proof (binade_ge num den). unfold two52. nia.
Qed.

(** the result is a well-formed pattern: sign as requested, magnitude a finite float64 or +Inf,
    +Inf exactly when the overflow flag is set *)
Theorem round_ne_representable neg num den :
  0 <= num -> 0 < den ->
  let r := round_ne neg num den in
  f_neg (fst r) = neg /\ 0 <= f_abs (fst r) <= inf_bits /\ (snd r = true <-> f_abs (fst r) = inf_bits)
  /\ 0 <= fst r < 2 ^ 64.
Proof.
  intros Hn Hd. unfold round_ne.
  assert (S : sign_bit = 2 ^ 63) by reflexivity.
  assert (I : inf_bits < sign_bit) by (vm_compute; reflexivity).
  assert (I0 : 0 < inf_bits) by (vm_compute; reflexivity).
  assert (S2 : 2 ^ 64 = 2 * sign_bit) by reflexivity.
  destruct (Z.leb_spec num 0) as [Hz|Hp]; cbn [fst snd].
  - unfold f_neg, f_abs. destruct neg.
    + rewrite Z.mod_same by lia. rewrite Z.leb_refl. repeat split; try lia; try discriminate.
    + rewrite Z.mod_0_l by lia. destruct (Z.leb_spec sign_bit 0); [lia|]. repeat split; try lia; try discriminate.
  - pose proof (round_pos_nonneg num den Hp Hd) as Hb.
    set (b := round_pos num den) in *.
    destruct (Z.leb_spec inf_bits b) as [Ho|Hf]; cbn [fst snd]; unfold f_neg, f_abs; destruct neg.
    + replace (sign_bit + inf_bits) with (inf_bits + 1 * sign_bit) by lia.
      rewrite Z_mod_plus_full, Z.mod_small by lia.
      destruct (Z.leb_spec sign_bit (inf_bits + 1 * sign_bit)); [|lia]. repeat split; lia.
    + rewrite Z.add_0_l, Z.mod_small by lia. destruct (Z.leb_spec sign_bit inf_bits); [lia|]. repeat split; lia.
    + replace (sign_bit + b) with (b + 1 * sign_bit) by lia.
      rewrite Z_mod_plus_full, Z.mod_small by lia.
      destruct (Z.leb_spec sign_bit (b + 1 * sign_bit)); [|lia]. repeat split; try lia; try discriminate.
    + rewrite Z.add_0_l, Z.mod_small by lia. destruct (Z.leb_spec sign_bit b); [lia|]. repeat split; try lia; try discriminate.
Qed.

(** without overflow the magnitude of the result is within half an ulp of num/den,
    and on an exact tie the pattern (hence the mantissa) is even *)
Theorem round_ne_error neg num den :
  0 < num -> 0 < den -> snd (round_ne neg num den) = false ->
  let b := f_abs (fst (round_ne neg num den)) in
  let E := binade num den in
  2 * Z.abs (ival b * den - num * 2 ^ 1074) <= 2 ^ (E + 1022) * den /\
  (2 * Z.abs (ival b * den - num * 2 ^ 1074) = 2 ^ (E + 1022) * den -> Z.even b = true).
Proof.
  intros Hn Hd. unfold round_ne.
  assert (I : inf_bits < sign_bit) by (vm_compute; reflexivity).
  destruct (Z.leb_spec num 0) as [Hz|Hp]; [lia|].
  pose proof (round_pos_nonneg num den Hp Hd) as Hb.
  destruct (Z.leb_spec inf_bits (round_pos num den)) as [Ho|Hf]; cbn [fst snd]; [discriminate|].
  intros _.
  assert (X : f_abs ((if neg then sign_bit else 0) + round_pos num den) = round_pos num den).
  { unfold f_abs. destruct neg.
    - replace (sign_bit + round_pos num den) with (round_pos num den + 1 * sign_bit) by lia.
      rewrite Z_mod_plus_full, Z.mod_small by lia. reflexivity.
    - rewrite Z.add_0_l, Z.mod_small by lia. reflexivity. }
  rewrite X. apply round_pos_error; assumption.
Qed.

(** rounding is monotone (non-negative side; the negative side is its mirror image) *)
Theorem round_ne_mono n1 d1 n2 d2 :
  0 <= n1 -> 0 < d1 -> 0 <= n2 -> 0 < d2 -> n1 * d2 <= n2 * d1 ->
  fst (round_ne false n1 d1) <= fst (round_ne false n2 d2).
Proof.
  intros Hn1 Hd1 Hn2 Hd2 Hle. unfold round_ne.
  assert (I0 : 0 < inf_bits) by (vm_compute; reflexivity).
  destruct (Z.leb_spec n1 0) as [Hz1|Hp1]; destruct (Z.leb_spec n2 0) as [Hz2|Hp2]; cbn [fst snd].
  - lia.
  - pose proof (round_pos_nonneg n2 d2 Hp2 Hd2). destruct (Z.leb_spec inf_bits (round_pos n2 d2)); cbn [fst]; lia.
  - nia.
  - pose proof (round_pos_mono n1 d1 n2 d2 Hp1 Hd1 Hp2 Hd2 Hle).
    destruct (Z.leb_spec inf_bits (round_pos n1 d1)); destruct (Z.leb_spec inf_bits (round_pos n2 d2)); cbn [fst]; lia.
Qed.

(** exactly representable inputs are fixed points: a finite pattern rounds to itself *)
Lemma ival_bounds b : 0 <= b -> 0 <= ival b.
Proof.
  intros Hb. unfold ival. assert (T : 0 < two52) by (unfold two52; lia).
  pose proof (Z.mod_pos_bound b two52 T). pose proof (Z.div_pos b two52 Hb T).
  destruct (Z.eqb_spec (b / two52) 0); [lia|].
  assert (0 < 2 ^ (b / two52 - 1)) by (apply Z.pow_pos_nonneg; lia). nia.
Qed.

(** every positive pattern is the rounding of its own value (exactly representable values are fixed points) *)
Theorem round_pos_ival b : 0 < b -> round_pos (ival b) (2 ^ 1074) = b.
Proof.
  intros Hb. assert (T : 0 < two52) by (unfold two52; lia).
  pose proof (Z.div_mod b two52 ltac:(lia)) as Eb. pose proof (Z.mod_pos_bound b two52 T) as Bm.
  pose proof (Z.div_pos b two52 ltac:(lia) T) as Bq.
  assert (D : 0 < 2 ^ 1074) by (apply Z.pow_pos_nonneg; lia).
  unfold ival. set (ex := b / two52) in *. set (mt := b mod two52) in *.
  destruct (Z.eqb_spec ex 0) as [Z0|NZ].
  - (* subnormal *)
    assert (Hmt : 0 < mt) by lia.
    rewrite (round_pos_eq mt (2 ^ 1074) (Z.log2 mt - 1074) mt Hmt D).
    + assert (Z.log2 mt < 52) by (apply Z.log2_lt_pow2; [lia|]; rewrite <- two52_eq; lia).
      rewrite Z.max_r by lia. lia.
    + unfold is_ilog2. pose proof (Z.log2_spec mt Hmt) as [L1 L2].
      assert (Z.log2 mt < 52) by (apply Z.log2_lt_pow2; [lia|]; rewrite <- two52_eq; lia).
      pose proof (Z.log2_nonneg mt).
      rewrite (P2_nonpos (Z.log2 mt - 1074)), (P2_nonneg (- (Z.log2 mt - 1074))) by lia.
      replace (- (Z.log2 mt - 1074)) with (1074 - Z.log2 mt) by lia.
      assert (X : 2 ^ Z.log2 mt * 2 ^ (1074 - Z.log2 mt) = 2 ^ 1074) by (rewrite <- Z.pow_add_r by lia; f_equal; lia).
      replace (Z.succ (Z.log2 mt)) with (Z.log2 mt + 1) in L2 by lia. rewrite Z.pow_add_r in L2 by lia.
      change (2 ^ 1) with 2 in L2.
      assert (0 < 2 ^ (1074 - Z.log2 mt)) by (apply Z.pow_pos_nonneg; lia).
      rewrite <- X. nia.
    + assert (Z.log2 mt < 52) by (apply Z.log2_lt_pow2; [lia|]; rewrite <- two52_eq; lia).
      rewrite Z.max_r by lia. change (P2 (52 - -1022)) with (2 ^ 1074). change (P2 (-1022 - 52)) with 1.
      left. replace (mt * (2 ^ 1074 * 1) - mt * 2 ^ 1074) with 0 by ring. simpl. lia.
  - (* normal (or beyond) *)
    assert (Hex : 1 <= ex) by lia.
    assert (P : 0 < 2 ^ (ex - 1)) by (apply Z.pow_pos_nonneg; lia).
    assert (Hn : 0 < (two52 + mt) * 2 ^ (ex - 1)) by nia.
    set (e := ex - 1023).
    rewrite (round_pos_eq _ (2 ^ 1074) e (two52 + mt) Hn D).
    + subst e. rewrite Z.max_l by lia. lia.
    + unfold is_ilog2. subst e.
      (* 2^1074 * P2 e <= (two52+mt) * 2^(ex-1) * P2 (-e) < 2 * ... ; 2^(ex-1) * P2(-e) * 2^52 = 2^1074 * P2 e *)
      assert (X : 2 ^ (ex - 1) * P2 (- (ex - 1023)) * two52 = 2 ^ 1074 * P2 (ex - 1023)).
      { destruct (Z_le_gt_dec 1023 ex).
        - rewrite P2_nonpos, P2_nonneg by lia. rewrite two52_eq, Z.mul_1_r, <- !Z.pow_add_r by lia. f_equal. lia.
        - rewrite P2_nonneg, P2_nonpos by lia. rewrite two52_eq, <- !Z.pow_add_r by lia. rewrite Z.mul_1_r. f_equal. lia. }
      pose proof (P2_pos (ex - 1023)). pose proof (P2_pos (- (ex - 1023))).
      set (u := 2 ^ (ex - 1) * P2 (- (ex - 1023))) in *.
      replace ((two52 + mt) * 2 ^ (ex - 1) * P2 (- (ex - 1023))) with ((two52 + mt) * u) by (subst u; ring).
      rewrite <- X. assert (0 < u) by (subst u; nia). nia.
    + subst e. rewrite Z.max_l by lia. left.
      replace (52 - (ex - 1023)) with (1075 - ex) by lia. replace (ex - 1023 - 52) with (ex - 1075) by lia.
      assert (X : 2 ^ (ex - 1) * P2 (1075 - ex) = 2 ^ 1074 * P2 (ex - 1075)).
      { destruct (Z_le_gt_dec 1075 ex).
        - rewrite P2_nonpos, P2_nonneg by lia. rewrite Z.mul_1_r, <- !Z.pow_add_r by lia. f_equal. lia.
        - rewrite P2_nonneg, P2_nonpos by lia. rewrite Z.mul_1_r, <- !Z.pow_add_r by lia. f_equal. lia. }
      replace ((two52 + mt) * (2 ^ 1074 * P2 (ex - 1075)) - (two52 + mt) * 2 ^ (ex - 1) * P2 (1075 - ex))
        with ((two52 + mt) * (2 ^ 1074 * P2 (ex - 1075) - 2 ^ (ex - 1) * P2 (1075 - ex))) by ring.
      rewrite X. replace (2 ^ 1074 * P2 (ex - 1075) - 2 ^ 1074 * P2 (ex - 1075)) with 0 by ring.
      rewrite Z.mul_0_r. change (Z.abs 0) with 0. pose proof (P2_pos (ex - 1075)).
      remember (2 ^ 1074) as W eqn:EW. clear EW. nia.
Qed.

(** [ival] is strictly monotone on non-negative patterns: patterns order like values *)
Theorem ival_mono a b : 0 <= a -> a < b -> ival a < ival b.
Proof.
  intros Ha Hab.
  destruct (Z.eq_dec a 0) as [->|Na].
  - change (ival 0) with 0.
    pose proof (round_pos_ival b ltac:(lia)) as Rb.
    pose proof (ival_bounds b ltac:(lia)).
    destruct (Z.eq_dec (ival b) 0) as [Z0|]; [|lia].
    exfalso. rewrite Z0 in Rb. vm_compute in Rb. lia.
  - destruct (Z_lt_le_dec (ival a) (ival b)) as [|Hge]; [assumption|exfalso].
    pose proof (ival_bounds a Ha). pose proof (ival_bounds b ltac:(lia)).
    pose proof (round_pos_ival a ltac:(lia)) as Ra. pose proof (round_pos_ival b ltac:(lia)) as Rb.
    assert (D : 0 < 2 ^ 1074) by (apply Z.pow_pos_nonneg; lia).
    destruct (Z.eq_dec (ival b) 0) as [Z0|NZ].
    + rewrite Z0 in Rb. vm_compute in Rb. lia.
    + pose proof (round_pos_mono (ival b) (2 ^ 1074) (ival a) (2 ^ 1074) ltac:(lia) D ltac:(lia) D ltac:(nia)). lia.
Qed.

(* each main theorem is closed under the global context *)
Print Assumptions round_ne_representable.
Print Assumptions round_ne_error.
Print Assumptions round_ne_mono.
Print Assumptions round_pos_ival.
Print Assumptions ival_mono.
