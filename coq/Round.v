(** Round.v -- specification of IEEE-754 binary64 round-to-nearest-even for non-negative
    rationals, in pure Z arithmetic (no reals, no Coq floats, no axioms).

    A float64 is always its 64-bit pattern, a [Z] in [0, 2^64).  For a finite non-negative
    pattern [b] (0 <= b < 2047*2^52) the integer [ival b] is value(b) * 2^1074; it is strictly
    monotone in [b], which is what makes the bit-level definition of rounding short:

      round_pos num den = (E + 1022) * 2^52 + M
        where E = max (floor (log2 (num/den))) (-1022)         (binade, clamped for subnormals)
              M = nearest-even integer to (num/den) * 2^(52-E)  (0 <= M <= 2^53)

    A mantissa carry (M = 2^53) lands on the first pattern of the next binade and an exponent
    above 1023 lands at or above the pattern of +Inf, so no special cases are needed.

    [round_ne neg num den] = (pattern, overflow flag).  Definitions first (executable, used by
    the extracted model), characterisation lemmas after. *)
From Coq Require Import ZArith Lia Bool.
Local Open Scope Z_scope.

(** ** Definitions *)

Definition two52 : Z := 4503599627370496.
Definition two53 : Z := 9007199254740992.
Definition sign_bit : Z := 9223372036854775808.            (* 2^63 *)
Definition inf_bits : Z := 9218868437227405312.            (* 2047 * 2^52 *)

(** 2^k for k >= 0, 1 otherwise; 2^k as a fraction is [P2 k / P2 (-k)] for k of either sign *)
Definition P2 (k : Z) : Z := 2 ^ (Z.max k 0).

(** the fraction (num/den) * 2^k, k of either sign *)
Definition scale2 (num den k : Z) : Z * Z := (num * P2 k, den * P2 (- k)).

(** floor (log2 (num/den)) for num, den > 0 *)
Definition ilog2 (num den : Z) : Z :=
  let e0 := Z.log2 num - Z.log2 den in
  let nd := scale2 num den (- e0) in
  if snd nd <=? fst nd then e0 else e0 - 1.

(** nearest integer to n/d (d > 0, n >= 0), ties to even *)
Definition rne_div (n d : Z) : Z :=
  let q := n / d in
  let r := n mod d in
  if 2 * r <? d then q
  else if d <? 2 * r then q + 1
  else if Z.even q then q else q + 1.

(** clamped binade of num/den *)
Definition binade (num den : Z) : Z := Z.max (ilog2 num den) (-1022).

(** rounding of a positive rational to an unbounded "pattern" *)
Definition round_pos (num den : Z) : Z :=
  let E := binade num den in
  let nd := scale2 num den (52 - E) in
  (E + 1022) * two52 + rne_div (fst nd) (snd nd).

(** [round_ne neg num den]: the binary64 nearest to (-1)^neg * num/den, ties to even,
    and whether the rounded magnitude exceeds the largest finite float64.
    Requires 0 <= num, 0 < den.  Zero keeps its sign. *)
Definition round_ne (neg : bool) (num den : Z) : Z * bool :=
  let s := if neg then sign_bit else 0 in
  if num <=? 0 then (s, false)
  else
    let b := round_pos num den in
    if inf_bits <=? b then (s + inf_bits, true) else (s + b, false).

(** value(b) * 2^1074 for a finite non-negative pattern *)
Definition ival (b : Z) : Z :=
  let ex := b / two52 in
  let mt := b mod two52 in
  if ex =? 0 then mt else (two52 + mt) * 2 ^ (ex - 1).

(** size of the unit in the last place of the binade of [b], times 2^1074 *)
Definition iulp (b : Z) : Z := 2 ^ (Z.max (b / two52) 1 - 1).

(** IEEE operations on patterns used by the model of atof64exact (finite operands only;
    NaN/Inf operands never occur there).  Assumption recorded here: Go's float64 [*] and [/]
    are IEEE-754 correctly rounded operations (Go spec + amd64/arm64 hardware). *)
Definition f_abs (b : Z) : Z := b mod sign_bit.
Definition f_neg (b : Z) : bool := sign_bit <=? b.
Definition f_opp (b : Z) : Z := if sign_bit <=? b then b - sign_bit else b + sign_bit.
Definition f_mul (a b : Z) : Z :=
  fst (round_ne (xorb (f_neg a) (f_neg b)) (ival (f_abs a) * ival (f_abs b)) (2 ^ 2148)).
Definition f_div (a b : Z) : Z :=
  fst (round_ne (xorb (f_neg a) (f_neg b)) (ival (f_abs a)) (ival (f_abs b))).
(** a < b as floats, finite operands (signed zeros compare equal) *)
Definition f_sval (b : Z) : Z := if f_neg b then - ival (f_abs b) else ival (f_abs b).
Definition f_lt (a b : Z) : bool := f_sval a <? f_sval b.
(** float64(u) for an unsigned integer u *)
Definition f_of_u64 (u : Z) : Z := fst (round_ne false u 1).
(** the float64 denoted by the Go constant 1ek, k >= 0 (constants are rounded to nearest) *)
Definition f_pow10 (k : Z) : Z := fst (round_ne false (10 ^ k) 1).

(** ** Sanity values (all by computation) *)
Example round_one : round_ne false 1 1 = (4607182418800017408, false).   (* 0x3FF0000000000000 *)
Proof. vm_compute. reflexivity. Qed.
Example round_tenth : round_ne false 1 10 = (4591870180066957722, false). (* 0x3FB999999999999A *)
Proof. vm_compute. reflexivity. Qed.
Example round_negzero : round_ne true 0 1 = (sign_bit, false).
Proof. vm_compute. reflexivity. Qed.
Example round_max : round_ne false (17976931348623157 * 10 ^ 292) 1 = (9218868437227405311, false).
Proof. vm_compute. reflexivity. Qed.
(** 2^1024 - 2^970 is the midpoint between max finite and 2^1024: tie goes to even = overflow *)
Example round_ovf_tie : round_ne false (2 ^ 1024 - 2 ^ 970) 1 = (inf_bits, true).
Proof. vm_compute. reflexivity. Qed.
Example round_ovf_below : round_ne false (2 ^ 1024 - 2 ^ 970 - 1) 1 = (9218868437227405311, false).
Proof. vm_compute. reflexivity. Qed.
Example round_min_sub : round_ne false 49 (10 ^ 325) = (1, false).        (* 4.9e-324 *)
Proof. vm_compute. reflexivity. Qed.
(** 2^-1075 is the midpoint between 0 and the least subnormal: tie to even = 0 *)
Example round_half_min : round_ne false 1 (2 ^ 1075) = (0, false).
Proof. vm_compute. reflexivity. Qed.
Example round_half_min_up : round_ne true (2 ^ 1075 + 1) (2 ^ 2150) = (sign_bit + 1, false).
Proof. vm_compute. reflexivity. Qed.
Example round_big : fst (round_ne false (10 ^ 400) (10 ^ 400 * 3)) = 4599676419421066581.
Proof. vm_compute. reflexivity. Qed.
