(** An indexed rendering of a table for evaluation: [of_raw_fast rm] looks states and action
    blocks up in binary tries built once, instead of scanning association lists.  It is what
    the extracted driver runs; [of_raw_fast_trans] etc. show it equal to [of_raw rm] pointwise
    (axiom-free), and [of_raw_fast_eq] as functions (with functional extensionality, used only
    to transport the executable definitions of run/Inst.v, never in a property theorem). *)
From Coq Require Import List ZArith Bool FMapPositive FunctionalExtensionality.
From Coq Require Import Strings.Byte.
From Rjson Require Import Base Helpers Machine.
Import ListNotations.
Local Open Scope Z_scope.

(** injective encoding of Z into positive keys *)
Definition zkey (z : Z) : positive :=
  match z with Z0 => 1%positive | Zpos p => (p~0)%positive | Zneg p => (p~1)%positive end.

Lemma zkey_inj : forall a b, zkey a = zkey b -> a = b.
Proof. intros [|a|a] [|b|b]; cbn; intro H; try discriminate; try reflexivity; inversion H; reflexivity. Qed.

Fixpoint build {A} (l : list (Z * A)) : PositiveMap.t A :=
  match l with
  | [] => PositiveMap.empty A
  | (k, v) :: r => PositiveMap.add (zkey k) v (build r)
  end.

Lemma build_find : forall A (l : list (Z * A)) k, PositiveMap.find (zkey k) (build l) = assocZ k l.
Proof.
  induction l as [|[k' v] r IH]; intros k; cbn [build assocZ].
  - apply PositiveMap.gempty.
  - destruct (k =? k') eqn:E.
    + apply Z.eqb_eq in E. subst. apply PositiveMap.gss.
    + apply Z.eqb_neq in E. rewrite PositiveMap.gso; [apply IH|].
      intro H. apply E. apply zkey_inj. exact H.
Qed.

Definition fast_trans (rows : PositiveMap.t (list (Z * Z * Z * Z))) (blocks : PositiveMap.t (list unit_))
           (q : Z) (b : byte) : list unit_ * Z :=
  match PositiveMap.find (zkey q) rows with
  | None => ([UUnknown], 0)
  | Some rws =>
    match find_row rws (bz b) with
    | None => ([UUnknown], 0)
    | Some (blk, dest) =>
      if blk =? 0 then ([], dest)
      else match PositiveMap.find (zkey blk) blocks with
           | Some us => (us, dest)
           | None => ([UUnknown], 0)
           end
    end
  end.

Definition of_raw_fast (rm : rawmachine) : machine :=
  let rows := build (rm_rows rm) in
  let blocks := build (rm_blocks rm) in
  let eofs := build (rm_eof rm) in
  {| m_start := rm_start rm;
     m_trans := fast_trans rows blocks;
     m_eof := fun q => match PositiveMap.find (zkey q) eofs with Some us => us | None => [] end;
     m_is_state := fun q => (q =? 0) || match PositiveMap.find (zkey q) rows with Some _ => true | None => false end |}.

Lemma of_raw_fast_trans : forall rm q b, m_trans (of_raw_fast rm) q b = m_trans (of_raw rm) q b.
Proof.
  intros rm q b. cbn. unfold fast_trans, raw_trans. rewrite build_find.
  destruct (assocZ q (rm_rows rm)); [|reflexivity].
  destruct (find_row l (bz b)) as [[blk dest]|]; [|reflexivity].
  destruct (blk =? 0); [reflexivity|]. rewrite build_find. reflexivity.
Qed.

Lemma of_raw_fast_eof : forall rm q, m_eof (of_raw_fast rm) q = m_eof (of_raw rm) q.
Proof. intros rm q. cbn. unfold raw_eof. rewrite build_find. reflexivity. Qed.

Lemma of_raw_fast_is_state : forall rm q, m_is_state (of_raw_fast rm) q = m_is_state (of_raw rm) q.
Proof. intros rm q. cbn. unfold raw_is_state. rewrite build_find. reflexivity. Qed.

Lemma of_raw_fast_start : forall rm, m_start (of_raw_fast rm) = m_start (of_raw rm).
Proof. reflexivity. Qed.

(** as functions (functional extensionality) *)
Lemma of_raw_fast_eq : of_raw_fast = of_raw.
Proof.
  apply functional_extensionality. intro rm.
  unfold of_raw_fast, of_raw. f_equal.
  - apply functional_extensionality. intro q. apply functional_extensionality. intro b.
    apply (of_raw_fast_trans rm q b).
  - apply functional_extensionality. intro q. apply (of_raw_fast_eof rm q).
  - apply functional_extensionality. intro q. apply (of_raw_fast_is_state rm q).
Qed.
