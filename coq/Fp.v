(** Fp.v -- executable model of /repo/internal/fp (fp.go, eisel_lemire.go, decimal.go) and of
    ReadFloat64 (simple_readers.go), function by function and branch by branch.

    Conventions
    - float64 values are 64-bit patterns (Z in [0, 2^64)), never Coq floats;
    - uint64 / uint arithmetic is explicit [mod 2^64] ([u64]); Go [int] is Z (no int overflow is
      reachable: |exp|, |dp| stay below 2^20);
    - the tables of the package are PARAMETERS ([fp_tables]); the instantiation with the tables
      regenerated from /repo is in run/Inst.v, the proofs about them in run/TieFp.v;
    - table indexing uses [nth] with a default; the lengths that make every index in range are
      part of [tables_ok] (FpFacts.v) and checked against /repo on every run;
    - float64 [*], [/], uint64->float64 conversion and float constants are the IEEE-754
      correctly rounded operations ([Round.f_mul], [f_div], [f_of_u64], [f_pow10]): this is the
      Go language specification for float64 on amd64/arm64 (no fused or extended precision for
      explicit float64 conversions/assignments); it is an ASSUMPTION of the model, validated
      only by the correspondence runs;
    - loops are structural recursions over the remaining input where the Go loop walks the
      slice, otherwise fuel-bounded with result [None]; [None] also stands for a Go run-time
      panic (index out of range in leftShift when the cheat table is wrong).  The statements
      in FpFacts.v are about [Some] results; the correspondence runs never observed [None];
    - decimal digits are digit VALUES 0..9 in a [list Z] holding exactly the live prefix
      d[0:nd] of the Go array (the Go code never reads d[nd:] before writing it, except d[0]
      when nd = 0, see [floatBits_m]); uintSize = 64 (64-bit platform). *)
From Coq Require Import List ZArith Bool.
From Coq Require Import Strings.Byte.
From Rjson Require Import Base Helpers Round.
Import ListNotations.
Local Open Scope Z_scope.

Record fp_tables := {
  t_pow10 : list (Z * Z);          (* detailedPowersOfTen rows: (word [0] = low, word [1] = high) *)
  t_minexp10 : Z;                  (* detailedPowersOfTenMinExp10 *)
  t_maxexp10 : Z;                  (* detailedPowersOfTenMaxExp10 *)
  t_f64pow10 : list Z;             (* float64pow10: the k of each constant 1ek *)
  t_powtab : list Z;               (* powtab *)
  t_leftcheats : list (Z * Z * Z); (* leftcheats: delta, cutoff read as a number, len(cutoff) *)
  t_mantbits : Z; t_expbits : Z; t_bias : Z
}.

(** uint64 truncation [x mod 2^64], Go's [x >> k] and [x & (1<<k - 1)] on non-negative values.
    Written with the bit operations of Z (structural, fast after extraction); the arithmetic
    readings are [u64_mod], [shr_div], [lowbits_mod] in FpFacts.v. *)
Definition mask64 : Z := Z.ones 64.
Definition u64 (x : Z) : Z := Z.land x mask64.
Definition shr (x k : Z) : Z := Z.shiftr x k.
Definition lowbits (x k : Z) : Z := Z.land x (Z.ones k).

Inductive fperr := FpSyntax | FpRange.      (* errSyntax, errRange *)

(* byte constants *)
Definition c_minus : Z := 45.  Definition c_plus : Z := 43.  Definition c_dot : Z := 46.
Definition c_0 : Z := 48.      Definition c_e : Z := 101.    Definition c_E : Z := 69.

Definition is_e (c : byte) : bool := (bz c =? c_e) || (bz c =? c_E).
(** the [digits] table of fp.go: true exactly on '0'..'9' *)
Definition digits_tab (c : byte) : bool := is_digit c.

(** * readFloat *)

Record rf_res := { rf_mant : Z; rf_exp : Z; rf_neg : bool; rf_trunc : bool; rf_p : Z; rf_ok : bool }.

Record rf_st := { s_mant : Z; s_nd : Z; s_ndMant : Z; s_dp : Z; s_sawdot : bool; s_trunc : bool }.

Definition maxMantDigits : Z := 19.

(** the main loop [for ; p < len(data); p++]: returns state, p, and the unread suffix *)
Fixpoint rf_loop (l : list byte) (p : Z) (s : rf_st) : rf_st * Z * list byte :=
  match l with
  | [] => (s, p, [])
  | c :: r =>
    if digits_tab c then
      if maxMantDigits <=? s_ndMant s then
        rf_loop r (p + 1) {| s_mant := s_mant s; s_nd := s_nd s + 1; s_ndMant := s_ndMant s;
                             s_dp := s_dp s; s_sawdot := s_sawdot s; s_trunc := true |}
      else
        rf_loop r (p + 1) {| s_mant := u64 (u64 (s_mant s * 10) + (bz c - c_0)); s_nd := s_nd s + 1;
                             s_ndMant := s_ndMant s + 1; s_dp := s_dp s; s_sawdot := s_sawdot s;
                             s_trunc := s_trunc s |}
    else if bz c =? c_dot then
      if s_sawdot s then (s, p, l)
      else rf_loop r (p + 1) {| s_mant := s_mant s; s_nd := s_nd s; s_ndMant := s_ndMant s;
                                s_dp := s_nd s; s_sawdot := true; s_trunc := s_trunc s |}
    else (s, p, l)
  end.

(** exponent digits: [for ; p < len(data) && '0' <= data[p] <= '9'; p++ { if e < 10000 {...} }] *)
Fixpoint exp_loop (l : list byte) (p e : Z) : Z * Z * list byte :=
  match l with
  | c :: r => if is_digit c then exp_loop r (p + 1) (if e <? 10000 then e * 10 + bz c - c_0 else e)
              else (p, e, l)
  | [] => (p, e, [])
  end.

(** the code after label finishUp; [rest] = data[p:] *)
Definition rf_finish (data : list byte) (neg sawdigits : bool) (s : rf_st) (p : Z) (rest : list byte) : rf_res :=
  let fail p := {| rf_mant := s_mant s; rf_exp := 0; rf_neg := neg; rf_trunc := s_trunc s; rf_p := p; rf_ok := false |} in
  if negb sawdigits then fail p else
  let dp := if s_sawdot s then s_dp s else s_nd s in
  let fin dp p :=
    {| rf_mant := s_mant s; rf_exp := if s_mant s =? 0 then 0 else dp - s_ndMant s;
       rf_neg := neg; rf_trunc := s_trunc s; rf_p := p; rf_ok := true |} in
  match rest with
  | c :: r1 =>
    if is_e c then
      if (match get data (p - 1) with Some b => bz b =? c_dot | None => false end) then fail 0 else
      let p := p + 1 in
      match r1 with
      | [] => fail p
      | c1 :: r2 =>
        let '(p, esign, r3) :=
          if bz c1 =? c_plus then (p + 1, 1, r2)
          else if bz c1 =? c_minus then (p + 1, -1, r2)
          else (p, 1, r1) in
        match r3 with
        | [] => fail p
        | c2 :: _ =>
          if negb (is_digit c2) then fail p else
          let '(p, e, _) := exp_loop r3 p 0 in
          fin (dp + e * esign) p
        end
      end
    else fin dp p
  | [] => fin dp p
  end.

Definition readFloat_m (data : list byte) : rf_res :=
  let bad p := {| rf_mant := 0; rf_exp := 0; rf_neg := false; rf_trunc := false; rf_p := p; rf_ok := false |} in
  match data with
  | [] => bad 0
  | c0 :: r0 =>
    let neg := bz c0 =? c_minus in
    let p := if neg then 1 else 0 in
    let l1 := if neg then r0 else data in
    match l1 with
    | [] => bad p
    | c :: l2 =>
      let st0 := {| s_mant := 0; s_nd := 0; s_ndMant := 0; s_dp := 0; s_sawdot := false; s_trunc := false |} in
      (* first digit *)
      if bz c =? c_dot then
        {| rf_mant := 0; rf_exp := 0; rf_neg := neg; rf_trunc := false; rf_p := p; rf_ok := false |}
      else if is_digit c then
        let st1 := {| s_mant := u64 (bz c - c_0); s_nd := 1; s_ndMant := 1; s_dp := 0;
                      s_sawdot := false; s_trunc := false |} in
        let p := p + 1 in
        match l2 with
        | [] => rf_finish data neg true st1 p []
        | c' :: l3 =>
          (* second digit *)
          if bz c' =? c_dot then
            let st2 := {| s_mant := s_mant st1; s_nd := 1; s_ndMant := 1; s_dp := 1;
                          s_sawdot := true; s_trunc := false |} in
            let '(s, p', rest) := rf_loop l3 (p + 1) st2 in
            rf_finish data neg true s p' rest
          else if is_digit c' then
            if s_mant st1 =? 0 then rf_finish data neg true st1 p l2
            else
              let st2 := {| s_mant := u64 (u64 (s_mant st1 * 10) + (bz c' - c_0)); s_nd := 2; s_ndMant := 2;
                            s_dp := 0; s_sawdot := false; s_trunc := false |} in
              let '(s, p', rest) := rf_loop l3 (p + 1) st2 in
              rf_finish data neg true s p' rest
          else rf_finish data neg true st1 p l2
        end
      else rf_finish data neg false st0 p l1
    end
  end.

(** * atof64exact *)

Definition f64pow10_at (T : fp_tables) (i : Z) : Z := f_pow10 (nth (Z.to_nat i) (t_f64pow10 T) 0).

Definition f_1e15 : Z := f_pow10 15.

Definition atof64exact_m (T : fp_tables) (mantissa exp : Z) (neg : bool) : option Z :=
  if negb (mantissa / 2 ^ t_mantbits T =? 0) then None else
  let f := f_of_u64 mantissa in
  let f := if neg then f_opp f else f in
  if exp =? 0 then Some f
  else if (0 <? exp) && (exp <=? 15 + 22) then
    let '(f, exp) := if 22 <? exp then (f_mul f (f64pow10_at T (exp - 22)), 22) else (f, exp) in
    if f_lt f_1e15 f || f_lt f (f_opp f_1e15) then None
    else Some (f_mul f (f64pow10_at T exp))
  else if (exp <? 0) && (-22 <=? exp) then Some (f_div f (f64pow10_at T (- exp)))
  else None.

(** * eiselLemire64 *)

Definition clz64 (x : Z) : Z := if x <=? 0 then 64 else 63 - Z.log2 x.     (* bits.LeadingZeros64 *)
Definition mul64 (a b : Z) : Z * Z := ((a * b) / two64, (a * b) mod two64). (* bits.Mul64: hi, lo *)

Definition eiselLemire64_m (T : fp_tables) (man exp10 : Z) (neg : bool) : option Z :=
  if man =? 0 then Some (if neg then sign_bit else 0) else
  if (exp10 <? t_minexp10 T) || (t_maxexp10 T <? exp10) then None else
  let clz := clz64 man in
  let man := u64 (man * 2 ^ clz) in
  let retExp2 := u64 (u64 (Z.shiftr (217706 * exp10) 16 + 64 + 1023) - clz) in
  let row := nth (Z.to_nat (exp10 - t_minexp10 T)) (t_pow10 T) (0, 0) in
  let '(xHi, xLo) := mul64 man (snd row) in
  let wide :=
    if (xHi mod 512 =? 511) && (u64 (xLo + man) <? man) then
      let '(yHi, yLo) := mul64 man (fst row) in
      let mergedLo := u64 (xLo + yHi) in
      let mergedHi := if mergedLo <? xLo then u64 (xHi + 1) else xHi in
      if (mergedHi mod 512 =? 511) && (u64 (mergedLo + 1) =? 0) && (u64 (yLo + man) <? man)
      then None else Some (mergedHi, mergedLo)
    else Some (xHi, xLo) in
  match wide with
  | None => None
  | Some (xHi, xLo) =>
    let msb := xHi / 2 ^ 63 in
    let retMantissa := xHi / 2 ^ (msb + 9) in
    let retExp2 := u64 (retExp2 - (if msb =? 1 then 0 else 1)) in        (* 1 ^ msb *)
    if (xLo =? 0) && (xHi mod 512 =? 0) && (retMantissa mod 4 =? 1) then None else
    let retMantissa := u64 (retMantissa + retMantissa mod 2) in
    let retMantissa := retMantissa / 2 in
    let '(retMantissa, retExp2) :=
      if 0 <? retMantissa / 2 ^ 53 then (retMantissa / 2, u64 (retExp2 + 1)) else (retMantissa, retExp2) in
    if 2046 <=? u64 (retExp2 - 1) then None else
    let retBits := u64 (retExp2 * 2 ^ 52) + retMantissa mod 2 ^ 52 in     (* disjoint bits: | is + *)
    Some (if neg then retBits + sign_bit else retBits)
  end.

(** * decimal *)

Record decimal := { d_d : list Z; d_dp : Z; d_neg : bool; d_trunc : bool }.
Definition d_nd (a : decimal) : Z := len (d_d a).
Definition dec_cap : Z := 800.            (* len(a.d) *)
Definition maxShift : Z := 60.            (* uintSize - 4, uintSize = 64 *)

Definition obind {A B} (o : option A) (f : A -> option B) : option B :=
  match o with Some x => f x | None => None end.

(** [rd] is the digit list reversed; drop the trailing zeros and restore the order *)
Fixpoint drop_zeros (rd : list Z) : list Z :=
  match rd with
  | 0 :: r => drop_zeros r
  | _ => rd
  end.

(** trim applied to the digits [rev rd] *)
Definition trim_rev (rd : list Z) (dp : Z) (neg trunc : bool) : decimal :=
  let rd' := drop_zeros rd in
  {| d_d := rev rd'; d_dp := if len rd' =? 0 then 0 else dp; d_neg := neg; d_trunc := trunc |}.

(** decimal.set; [None] = return false.  State of the digit loop: reversed digits, nd, dp, flags. *)
Fixpoint set_loop (l : list byte) (rd : list Z) (nd dp : Z) (sawdot sawdigits trunc : bool)
  : option (list byte * list Z * Z * Z * bool * bool * bool) :=
  match l with
  | [] => Some ([], rd, nd, dp, sawdot, sawdigits, trunc)
  | c :: r =>
    if bz c =? c_dot then
      if sawdot then None else set_loop r rd nd nd true sawdigits trunc
    else if is_digit c then
      if (bz c =? c_0) && (nd =? 0) then set_loop r rd nd (dp - 1) sawdot true trunc
      else if nd <? dec_cap then set_loop r ((bz c - c_0) :: rd) (nd + 1) dp sawdot true trunc
      else set_loop r rd nd dp sawdot true (trunc || negb (bz c =? c_0))
    else Some (l, rd, nd, dp, sawdot, sawdigits, trunc)
  end.

Definition set_m (data : list byte) : option decimal :=
  match data with
  | [] => None
  | c0 :: r0 =>
    let neg := bz c0 =? c_minus in
    let l := if neg then r0 else data in
    obind (set_loop l [] 0 0 false false false) (fun '(rest, rd, nd, dp, sawdot, sawdigits, trunc) =>
    if negb sawdigits then None else
    let dp := if sawdot then dp else nd in
    let mk dp := {| d_d := rev rd; d_dp := dp; d_neg := neg; d_trunc := trunc |} in
    match rest with
    | [] => Some (mk dp)
    | c :: r1 =>
      if is_e c then
        match r1 with
        | [] => None
        | c1 :: r2 =>
          let '(esign, r3) :=
            if bz c1 =? c_plus then (1, r2) else if bz c1 =? c_minus then (-1, r2) else (1, r1) in
          match r3 with
          | [] => None
          | c2 :: _ =>
            if negb (is_digit c2) then None else
            let '(_, e, rest') := exp_loop r3 0 0 in
            match rest' with [] => Some (mk (dp + e * esign)) | _ :: _ => None end
          end
        end
      else None
    end)
  end.

(** rightShift *)

(** first loop: pick up leading digits until n>>k != 0.  Result: unread digits, r, n; or the
    early return "a.nd = 0" ([inl]). *)
Fixpoint rs_pad (fuel : nat) (k r n : Z) : option (Z * Z) :=
  if negb (shr n k =? 0) then Some (r, n) else
  match fuel with
  | O => None
  | S f => rs_pad f k (r + 1) (u64 (n * 10))
  end.

Fixpoint rs_pick (l : list Z) (k r n : Z) : option (unit + list Z * Z * Z) :=
  if negb (shr n k =? 0) then Some (inr (l, r, n)) else
  match l with
  | [] => if n =? 0 then Some (inl tt)
          else obind (rs_pad 64 k r n) (fun '(r, n) => Some (inr ([], r, n)))
  | c :: l' => rs_pick l' k (r + 1) (u64 (u64 (n * 10) + c))
  end.

(** second loop: pick up a digit, put down a digit ([out] reversed) *)
Fixpoint rs_main (l : list Z) (k n : Z) (out : list Z) : Z * list Z :=
  match l with
  | [] => (n, out)
  | c :: l' =>
    let dig := shr n k in
    let n := lowbits n k in
    rs_main l' k (u64 (u64 (n * 10) + c)) (dig :: out)
  end.

(** third loop: put down extra digits *)
Fixpoint rs_extra (fuel : nat) (k n w : Z) (out : list Z) (trunc : bool) : option (list Z * bool) :=
  if n =? 0 then Some (out, trunc) else
  match fuel with
  | O => None
  | S f =>
    let dig := shr n k in
    let n := lowbits n k in
    if w <? dec_cap then rs_extra f k (u64 (n * 10)) (w + 1) (dig :: out) trunc
    else rs_extra f k (u64 (n * 10)) w out (trunc || (0 <? dig))
  end.

Definition rightShift_m (a : decimal) (k : Z) : option decimal :=
  obind (rs_pick (d_d a) k 0 0) (fun pk =>
  match pk with
  | inl _ => Some {| d_d := []; d_dp := d_dp a; d_neg := d_neg a; d_trunc := d_trunc a |}
  | inr (l, r, n) =>
    let dp := d_dp a - (r - 1) in
    let '(n, out) := rs_main l k n [] in
    obind (rs_extra 128 k n (len out) out (d_trunc a)) (fun '(out, trunc) =>
    Some (trim_rev out dp (d_neg a) trunc))
  end).

(** leftShift *)

(** digits of the cutoff string: [nd] digits of the number [c], most significant first *)
Fixpoint digits_of (nd : nat) (c : Z) : list Z :=
  match nd with
  | O => []
  | S n => (c / 10 ^ Z.of_nat n) mod 10 :: digits_of n c
  end.

(** prefixIsLessThan(b, s) *)
Fixpoint prefixIsLessThan (b s : list Z) : bool :=
  match s with
  | [] => false
  | sc :: s' =>
    match b with
    | [] => true
    | bc :: b' => if negb (bc =? sc) then bc <? sc else prefixIsLessThan b' s'
    end
  end.

(** first loop over the digits from the right ([rd] = digits reversed); [out] holds d[w:...] *)
Fixpoint ls_main (rd : list Z) (k n w : Z) (out : list Z) (trunc : bool) : Z * Z * list Z * bool :=
  match rd with
  | [] => (n, w, out, trunc)
  | c :: rd' =>
    let n := u64 (n + u64 (Z.shiftl c k)) in
    let quo := n / 10 in
    let rem := u64 (n - 10 * quo) in
    let w := w - 1 in
    if w <? dec_cap then ls_main rd' k quo w (rem :: out) trunc
    else ls_main rd' k quo w out (trunc || negb (rem =? 0))
  end.

(** second loop: put down extra digits *)
Fixpoint ls_extra (fuel : nat) (n w : Z) (out : list Z) (trunc : bool) : option (Z * list Z * bool) :=
  if negb (0 <? n) then Some (w, out, trunc) else
  match fuel with
  | O => None
  | S f =>
    let quo := n / 10 in
    let rem := u64 (n - 10 * quo) in
    let w := w - 1 in
    if w <? dec_cap then ls_extra f quo w (rem :: out) trunc
    else ls_extra f quo w out (trunc || negb (rem =? 0))
  end.

Definition leftShift_m (T : fp_tables) (a : decimal) (k : Z) : option decimal :=
  let '(delta0, cutoff, clen) := nth (Z.to_nat k) (t_leftcheats T) (0, 0, 0) in
  let delta := if prefixIsLessThan (d_d a) (digits_of (Z.to_nat clen) cutoff) then delta0 - 1 else delta0 in
  if delta <? 0 then None else     (* read/write hazard; unreachable with a sane table *)
  let nd := d_nd a in
  let '(n, w, out, trunc) := ls_main (rev (d_d a)) k 0 (nd + delta) [] (d_trunc a) in
  obind (ls_extra 64 n w out trunc) (fun '(w, out, trunc) =>
  if w <? 0 then None else         (* Go: a.d[w] with w = -1 panics *)
  (* positions below w were never written: they keep the old digits (w = 0 with a correct table) *)
  let nd' := if dec_cap <=? nd + delta then dec_cap else nd + delta in
  let ds := firstn (Z.to_nat nd') (firstn (Z.to_nat w) (d_d a) ++ out) in
  Some (trim_rev (rev ds) (d_dp a + delta) (d_neg a) trunc)).

(** Shift *)
Fixpoint shift_left_loop (T : fp_tables) (fuel : nat) (a : decimal) (k : Z) : option decimal :=
  if maxShift <? k then
    match fuel with
    | O => None
    | S f => obind (leftShift_m T a maxShift) (fun a => shift_left_loop T f a (k - maxShift))
    end
  else leftShift_m T a k.

Fixpoint shift_right_loop (fuel : nat) (a : decimal) (k : Z) : option decimal :=
  if k <? - maxShift then
    match fuel with
    | O => None
    | S f => obind (rightShift_m a maxShift) (fun a => shift_right_loop f a (k + maxShift))
    end
  else rightShift_m a (- k).

Definition Shift_m (T : fp_tables) (a : decimal) (k : Z) : option decimal :=
  if d_nd a =? 0 then Some a
  else if 0 <? k then shift_left_loop T 64 a k
  else if k <? 0 then shift_right_loop 64 a k
  else Some a.

(** shouldRoundUp, RoundedInteger *)
Definition dnth (a : decimal) (i : Z) : Z := nth (Z.to_nat i) (d_d a) 0.

Definition shouldRoundUp_m (a : decimal) (nd : Z) : bool :=
  if (nd <? 0) || (d_nd a <=? nd) then false
  else if (dnth a nd =? 5) && (nd + 1 =? d_nd a) then
    if d_trunc a then true
    else (0 <? nd) && negb ((dnth a (nd - 1)) mod 2 =? 0)
  else 5 <=? dnth a nd.

Fixpoint ri_digits (l : list Z) (cnt : nat) (n : Z) : Z :=
  match cnt with
  | O => n
  | S c => match l with
           | d :: l' => ri_digits l' c (u64 (u64 (n * 10) + d))
           | [] => ri_digits [] c (u64 (n * 10))
           end
  end.

Definition RoundedInteger_m (a : decimal) : Z :=
  if 20 <? d_dp a then two64 - 1
  else
    let n := ri_digits (d_d a) (Z.to_nat (d_dp a)) 0 in
    if shouldRoundUp_m a (d_dp a) then u64 (n + 1) else n.

(** floatBits *)
Definition powtab_n (T : fp_tables) (i : Z) : Z :=
  if len (t_powtab T) <=? i then 27 else nth (Z.to_nat i) (t_powtab T) 0.

(** [for a.dp > 0 { a.Shift(-n); exp += n }] *)
Fixpoint fb_down (T : fp_tables) (fuel : nat) (a : decimal) (exp : Z) : option (decimal * Z) :=
  if 0 <? d_dp a then
    match fuel with
    | O => None
    | S f => let n := powtab_n T (d_dp a) in
             obind (Shift_m T a (- n)) (fun a => fb_down T f a (exp + n))
    end
  else Some (a, exp).

(** [for a.dp < 0 || a.dp == 0 && a.d[0] < '5' { a.Shift(n); exp -= n }].  When nd = 0 the Go
    code reads a stale d[0] and, Shift being a no-op on zero, could only spin; nd = 0 is
    impossible here (a non-zero decimal never shifts to zero); the model reads digit 0 then
    and runs out of fuel. *)
Fixpoint fb_up (T : fp_tables) (fuel : nat) (a : decimal) (exp : Z) : option (decimal * Z) :=
  if (d_dp a <? 0) || ((d_dp a =? 0) && (dnth a 0 <? 5)) then
    match fuel with
    | O => None
    | S f => let n := powtab_n T (- d_dp a) in
             obind (Shift_m T a n) (fun a => fb_up T f a (exp - n))
    end
  else Some (a, exp).

Definition assemble (T : fp_tables) (neg : bool) (mant exp : Z) : Z :=
  let mb := t_mantbits T in let eb := t_expbits T in
  mant mod 2 ^ mb + u64 (((exp - t_bias T) mod 2 ^ eb) * 2 ^ mb) + (if neg then u64 (2 ^ mb * 2 ^ eb) else 0).

Definition floatBits_m (T : fp_tables) (a : decimal) : option (Z * bool) :=
  let mb := t_mantbits T in let eb := t_expbits T in let bias := t_bias T in
  let out mant exp := Some (assemble T (d_neg a) mant exp, false) in
  let overflow := Some (assemble T (d_neg a) 0 (2 ^ eb - 1 + bias), true) in
  if d_nd a =? 0 then out 0 bias
  else if 310 <? d_dp a then overflow
  else if d_dp a <? -330 then out 0 bias
  else
    obind (fb_down T 400 a 0) (fun '(a, exp) =>
    obind (fb_up T 400 a exp) (fun '(a, exp) =>
    let exp := exp - 1 in
    obind (if exp <? bias + 1
           then let n := bias + 1 - exp in obind (Shift_m T a (- n)) (fun a => Some (a, exp + n))
           else Some (a, exp)) (fun '(a, exp) =>
    if 2 ^ eb - 1 <=? exp - bias then overflow else
    obind (Shift_m T a (1 + mb)) (fun a =>
    let mant := RoundedInteger_m a in
    let '(mant, exp, ovf) :=
      if mant =? 2 * 2 ^ mb then (mant / 2, exp + 1, 2 ^ eb - 1 <=? exp + 1 - bias)
      else (mant, exp, false) in
    if ovf then overflow else
    let exp := if (mant / 2 ^ mb) mod 2 =? 0 then bias else exp in       (* mant & (1<<mantbits) == 0 *)
    out mant exp)))).

(** * ParseJSONFloatPrefix: (bits of f, n, err); [None] only if the decimal path ran out of fuel *)
Definition ParseJSONFloatPrefix_m (T : fp_tables) (data : list byte) : option (Z * Z * option fperr) :=
  let r := readFloat_m data in
  if negb (rf_ok r) then Some (0, 0, Some FpSyntax) else
  let n := rf_p r in
  if (0 <? n) && (match get data (n - 1) with Some b => bz b =? c_dot | None => false end)
  then Some (0, 0, Some FpSyntax) else
  let exact := if rf_trunc r then None else atof64exact_m T (rf_mant r) (rf_exp r) (rf_neg r) in
  match exact with
  | Some f => Some (f, n, None)
  | None =>
    let el :=
      match eiselLemire64_m T (rf_mant r) (rf_exp r) (rf_neg r) with
      | Some f =>
        if negb (rf_trunc r) then Some f
        else match eiselLemire64_m T (u64 (rf_mant r + 1)) (rf_exp r) (rf_neg r) with
             | Some fUp => if f =? fUp then Some f else None
             | None => None
             end
      | None => None
      end in
    match el with
    | Some f => Some (f, n, None)
    | None =>
      match set_m (firstn (Z.to_nat n) data) with
      | None => Some (0, n, Some FpSyntax)
      | Some d =>
        obind (floatBits_m T d) (fun '(b, ovf) =>
        if ovf then Some (0, n, Some FpRange) else Some (b, n, None))
      end
    end
  end.

(** * ReadFloat64 (simple_readers.go) *)
Inductive rferr := RfInvalidNumber | RfFp (e : fperr).

Definition ReadFloat64_m (T : fp_tables) (data : list byte) : option (Z * Z * option rferr) :=
  let p := Z.of_nat (count_while is_ws data) in
  if p =? len data then Some (0, p, Some RfInvalidNumber) else
  obind (ParseJSONFloatPrefix_m T (skipn (Z.to_nat p) data)) (fun '(v, pp, err) =>
  Some (v, p + pp, match err with Some e => Some (RfFp e) | None => None end)).
