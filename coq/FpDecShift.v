(** FpDecShift.v -- exactness of the decimal shifts of the float slow path (decimal.go:
    trim, rightShift, leftShift, prefixIsLessThan / leftcheats, Shift), model in Fp.v.

    Main results (all closed under the global context):
    - [trim_rev_val]      trim keeps the value, yields a trimmed decimal;
    - [rightShift_exact]  a right shift by 1..60 bits whose trunc flag stays clear is exact;
    - [leftShift_exact]   the same for a left shift, for tables satisfying [tables_ok]
                          (in particular the write index ends at 0: the cheat sheet is right);
    - [Shift_exact_nz], [Shift_exact_gen]  Shift by k <> 0 (or by 0 on a trimmed decimal);
    - [Shift_exact_stmt_false]  the statement [Shift_exact_stmt] of FpDecDefs.v is FALSE for
      every T, because of k = 0: Shift returns its argument, which need not be trimmed.
      [Shift_exact_nz] is that statement with the extra hypothesis k <> 0.
    [tables_ok] is inhabited by the tables of /repo: run/TieFp.v, [fp_tables_ok]. *)
From Coq Require Import List ZArith Lia Bool.
From Rjson Require Import Base Helpers Round Fp FpSpec FpTables FpDecDefs.
Import ListNotations.
Local Open Scope Z_scope.


(** * Lengths *)
Lemma zlen_nil {A} : len (@nil A) = 0. Proof. reflexivity. Qed.
Lemma zlen_cons {A} (x : A) l : len (x :: l) = len l + 1.
Proof. unfold len. simpl length. lia. Qed.
Lemma zlen_app {A} (l1 l2 : list A) : len (l1 ++ l2) = len l1 + len l2.
Proof. unfold len. rewrite app_length. lia. Qed.
Lemma zlen_rev {A} (l : list A) : len (rev l) = len l.
Proof. unfold len. rewrite rev_length. reflexivity. Qed.
Lemma zlen_nonneg {A} (l : list A) : 0 <= len l.
Proof. unfold len. lia. Qed.
Lemma zlen_0 {A} (l : list A) : len l = 0 -> l = [].
Proof. destruct l; [reflexivity|]. rewrite zlen_cons. pose proof (zlen_nonneg l). lia. Qed.

(** * Powers *)
Lemma pow10_pos e : 0 <= e -> 0 < 10 ^ e.
Proof. intros. apply Z.pow_pos_nonneg; lia. Qed.
Lemma pow10_succ e : 0 <= e -> 10 ^ (e + 1) = 10 ^ e * 10.
Proof. intros. rewrite Z.pow_add_r by lia. reflexivity. Qed.
Lemma pow10_add a b : 0 <= a -> 0 <= b -> 10 ^ (a + b) = 10 ^ a * 10 ^ b.
Proof. intros. apply Z.pow_add_r; lia. Qed.
Lemma pow10_lt_inv a b : 0 <= a -> 0 <= b -> 10 ^ a < 10 ^ b -> a < b.
Proof. intros Ha Hb H. apply (Z.pow_lt_mono_r_iff 10); lia. Qed.
Lemma pow10_le_mono a b : 0 <= a <= b -> 10 ^ a <= 10 ^ b.
Proof. intros. apply Z.pow_le_mono_r; lia. Qed.
Lemma pow2_pos k : 0 <= k -> 0 < 2 ^ k.
Proof. intros. apply Z.pow_pos_nonneg; lia. Qed.
Lemma pow2_le60 k : 0 <= k <= 60 -> 2 ^ k <= 2 ^ 60.
Proof. intros. apply Z.pow_le_mono_r; lia. Qed.
Lemma two64_val : two64 = 16 * 2 ^ 60.
Proof. reflexivity. Qed.

(** * Values of digit lists *)

Lemma dval_fold l : forall acc,
  fold_left (fun a d => a * 10 + d) l acc = acc * 10 ^ len l + dval_z l.
Proof.
  induction l as [|d l IH]; intros acc.
  - change (len (@nil Z)) with 0. unfold dval_z. simpl. lia.
  - change (dval_z (d :: l)) with (fold_left (fun a d => a * 10 + d) l (0 * 10 + d)).
    cbn [fold_left]. rewrite (IH (acc * 10 + d)), (IH (0 * 10 + d)).
    rewrite zlen_cons. rewrite pow10_succ by apply zlen_nonneg. lia.
Qed.

Lemma dval_nil : dval_z [] = 0. Proof. reflexivity. Qed.

(** most significant digit first *)
Lemma dval_cons d l : dval_z (d :: l) = d * 10 ^ len l + dval_z l.
Proof. unfold dval_z at 1. simpl fold_left. rewrite dval_fold. lia. Qed.

Lemma dval_app l1 l2 : dval_z (l1 ++ l2) = dval_z l1 * 10 ^ len l2 + dval_z l2.
Proof.
  unfold dval_z at 1. rewrite fold_left_app. fold (dval_z l1). apply dval_fold.
Qed.

Lemma dval_snoc l d : dval_z (l ++ [d]) = dval_z l * 10 + d.
Proof. unfold dval_z. rewrite fold_left_app. reflexivity. Qed.

Lemma dval_rev_cons d l : dval_z (rev (d :: l)) = dval_z (rev l) * 10 + d.
Proof. simpl rev. apply dval_snoc. Qed.

Lemma digs_ok_nil : digs_ok []. Proof. constructor. Qed.
Lemma digs_ok_cons d l : 0 <= d <= 9 -> digs_ok l -> digs_ok (d :: l).
Proof. intros. constructor; assumption. Qed.
Lemma digs_ok_inv d l : digs_ok (d :: l) -> 0 <= d <= 9 /\ digs_ok l.
Proof. intros H. inversion H; subst. split; assumption. Qed.
Lemma digs_ok_app l1 l2 : digs_ok (l1 ++ l2) <-> digs_ok l1 /\ digs_ok l2.
Proof. unfold digs_ok. apply Forall_app. Qed.
Lemma digs_ok_rev l : digs_ok l -> digs_ok (rev l).
Proof. unfold digs_ok. intros. apply Forall_rev. assumption. Qed.

(** a list of n digits is below 10^n *)
Lemma dval_bound l : digs_ok l -> 0 <= dval_z l < 10 ^ len l.
Proof.
  induction l as [|d l IH]; intros H.
  - change (len (@nil Z)) with 0. change (dval_z []) with 0. simpl. lia.
  - apply digs_ok_inv in H as [Hd Hl]. specialize (IH Hl).
    rewrite dval_cons, zlen_cons. rewrite pow10_succ by apply zlen_nonneg.
    pose proof (pow10_pos (len l) (zlen_nonneg l)). nia.
Qed.

(** with a non-zero leading digit it is at least 10^(n-1) *)
Lemma dval_lead_lb d l : digs_ok (d :: l) -> d <> 0 -> 10 ^ len l <= dval_z (d :: l).
Proof.
  intros H Hd. apply digs_ok_inv in H as [Hd' Hl]. pose proof (dval_bound l Hl).
  rewrite dval_cons. pose proof (pow10_pos (len l) (zlen_nonneg l)). nia.
Qed.

(** conversely a value of at least 10^(n-1) forces a non-zero leading digit *)
Lemma dval_lead_nz d l : digs_ok (d :: l) -> 10 ^ len l <= dval_z (d :: l) -> d <> 0.
Proof.
  intros H Hv. apply digs_ok_inv in H as [Hd' Hl]. pose proof (dval_bound l Hl).
  rewrite dval_cons in Hv. intros ->. lia.
Qed.

Lemma dval_pos_nonnil l : 0 < dval_z l -> l <> [].
Proof. intros H ->. rewrite dval_nil in H. lia. Qed.

(** * Scale-free reading of [shift_val] *)

Lemma P10_shift x M : 0 <= M -> 0 <= x + M -> P10 x * 10 ^ M = 10 ^ (x + M) * P10 (- x).
Proof.
  intros HM Hx. unfold P10. destruct (Z_le_gt_dec 0 x).
  - rewrite (Z.max_l x 0) by lia. rewrite (Z.max_r (- x) 0) by lia.
    rewrite pow10_add by lia. change (10 ^ 0) with 1. ring.
  - rewrite (Z.max_r x 0) by lia. rewrite (Z.max_l (- x) 0) by lia.
    change (10 ^ 0) with 1. rewrite Z.mul_1_l. rewrite <- pow10_add by lia. f_equal. lia.
Qed.

Definition dexp (a : decimal) : Z := d_dp a - len (d_d a).

(** value a' = value a * 2^k at the common scale 10^M *)
Definition shift_rel (a a' : decimal) (k M : Z) : Prop :=
  dval_z (d_d a') * 10 ^ (dexp a' + M) * P2 (- k) = dval_z (d_d a) * 10 ^ (dexp a + M) * P2 k.

Lemma shift_val_iff a a' k M :
  0 <= M -> 0 <= dexp a + M -> 0 <= dexp a' + M ->
  (shift_val a a' k <-> shift_rel a a' k M).
Proof.
  intros HM H1 H2. unfold shift_val, shift_rel, dec_frac. cbn [fst snd]. fold (dexp a) (dexp a').
  pose proof (P10_shift (dexp a) M HM H1) as E1.
  pose proof (P10_shift (dexp a') M HM H2) as E2.
  pose proof (P10_pos (- dexp a)) as P1. pose proof (P10_pos (- dexp a')) as P2'.
  pose proof (pow10_pos M HM) as P3.
  set (C := P10 (- dexp a) * P10 (- dexp a') * 10 ^ M).
  assert (HC : 0 < C) by (unfold C; nia).
  assert (EL : dval_z (d_d a') * P10 (dexp a') * P10 (- dexp a) * P2 (- k) * (10 ^ M * 10 ^ M)
               = C * (dval_z (d_d a') * 10 ^ (dexp a' + M) * P2 (- k))).
  { unfold C. rewrite <- Z.mul_assoc with (n := dval_z (d_d a')) (m := 10 ^ (dexp a' + M)).
    transitivity (dval_z (d_d a') * (P10 (dexp a') * 10 ^ M) * P10 (- dexp a) * P2 (- k) * 10 ^ M); [ring|].
    rewrite E2. ring. }
  assert (ER : dval_z (d_d a) * P10 (dexp a) * P2 k * P10 (- dexp a') * (10 ^ M * 10 ^ M)
               = C * (dval_z (d_d a) * 10 ^ (dexp a + M) * P2 k)).
  { unfold C.
    transitivity (dval_z (d_d a) * (P10 (dexp a) * 10 ^ M) * P2 k * P10 (- dexp a') * 10 ^ M); [ring|].
    rewrite E1. ring. }
  split; intros H.
  - apply (Z.mul_reg_l _ _ C); [lia|]. rewrite <- EL, <- ER. rewrite H. reflexivity.
  - apply (Z.mul_reg_r _ _ (10 ^ M * 10 ^ M)); [nia|]. rewrite EL, ER. rewrite H. reflexivity.
Qed.

(** a scale that fits two decimals *)
Lemma scale_exists2 (x y : Z) : exists M, 0 <= M /\ 0 <= x + M /\ 0 <= y + M.
Proof. exists (Z.abs x + Z.abs y). lia. Qed.
Lemma scale_exists3 (x y z : Z) : exists M, 0 <= M /\ 0 <= x + M /\ 0 <= y + M /\ 0 <= z + M.
Proof. exists (Z.abs x + Z.abs y + Z.abs z). lia. Qed.

Lemma shift_val_refl a : shift_val a a 0.
Proof. unfold shift_val. change (P2 (- 0)) with 1. change (P2 0) with 1. ring. Qed.

(** shifts of the same direction compose *)
Lemma shift_val_trans a b c k1 k2 :
  (0 <= k1 /\ 0 <= k2) \/ (k1 <= 0 /\ k2 <= 0) ->
  shift_val a b k1 -> shift_val b c k2 -> shift_val a c (k1 + k2).
Proof.
  intros Hs H1 H2.
  destruct (scale_exists3 (dexp a) (dexp b) (dexp c)) as (M & HM & Ha & Hb & Hc).
  apply (shift_val_iff a b k1 M HM Ha Hb) in H1.
  apply (shift_val_iff b c k2 M HM Hb Hc) in H2.
  apply (shift_val_iff a c (k1 + k2) M HM Ha Hc).
  unfold shift_rel in *.
  assert (EP : P2 (k1 + k2) = P2 k1 * P2 k2 /\ P2 (- (k1 + k2)) = P2 (- k1) * P2 (- k2)).
  { destruct Hs as [[? ?]|[? ?]].
    - rewrite (P2_nonneg (k1 + k2)), (P2_nonneg k1), (P2_nonneg k2) by lia.
      rewrite (P2_nonpos (- (k1 + k2))), (P2_nonpos (- k1)), (P2_nonpos (- k2)) by lia.
      rewrite Z.pow_add_r by lia. lia.
    - rewrite (P2_nonpos (k1 + k2)), (P2_nonpos k1), (P2_nonpos k2) by lia.
      rewrite (P2_nonneg (- (k1 + k2))), (P2_nonneg (- k1)), (P2_nonneg (- k2)) by lia.
      replace (- (k1 + k2)) with (- k1 + - k2) by lia.
      rewrite Z.pow_add_r by lia. lia. }
  destruct EP as [E1 E2]. rewrite E1, E2.
  transitivity (dval_z (d_d c) * 10 ^ (dexp c + M) * P2 (- k2) * P2 (- k1)); [ring|].
  rewrite H2.
  transitivity (dval_z (d_d b) * 10 ^ (dexp b + M) * P2 (- k1) * P2 k2); [ring|].
  rewrite H1. ring.
Qed.

(** * trim *)

Lemma drop_zeros_spec rd :
  exists z, rd = repeat 0 z ++ drop_zeros rd /\
            match drop_zeros rd with d :: _ => d <> 0 | [] => True end.
Proof.
  induction rd as [|d rd IH].
  - exists 0%nat. split; [reflexivity|exact I].
  - destruct (Z.eq_dec d 0) as [->|Hd].
    + destruct IH as (z & E & H). exists (S z). simpl. split; [f_equal; exact E|exact H].
    + exists 0%nat. assert (E : drop_zeros (d :: rd) = d :: rd).
      { destruct d; try reflexivity. congruence. }
      rewrite E. split; [reflexivity|exact Hd].
Qed.

Lemma dval_zeros z : dval_z (repeat 0 z) = 0.
Proof.
  induction z as [|z IH]; [reflexivity|]. simpl repeat. rewrite dval_cons, IH. lia.
Qed.

Lemma rev_repeat {A} (x : A) n : rev (repeat x n) = repeat x n.
Proof.
  induction n as [|n IH]; [reflexivity|]. simpl. rewrite IH.
  clear IH. induction n as [|n IH]; [reflexivity|]. simpl. f_equal. exact IH.
Qed.

Lemma zlen_repeat {A} (x : A) n : len (repeat x n) = Z.of_nat n.
Proof. unfold len. rewrite repeat_length. reflexivity. Qed.

(** 1. trim: dropping the trailing zeros keeps the value (at every scale M that fits), yields a
    trimmed decimal, keeps digit-ness, the flags and a non-zero leading digit; when all digits are
    zero the result is the empty decimal with dp = 0. *)
Theorem trim_rev_val rd dp neg tr :
  let a' := trim_rev rd dp neg tr in
  dec_trimmed a' /\ d_neg a' = neg /\ d_trunc a' = tr /\
  (digs_ok rd -> digs_ok (d_d a')) /\
  len (d_d a') <= len rd /\
  (forall M, 0 <= dp - len rd + M ->
     dval_z (d_d a') * 10 ^ (dexp a' + M) = dval_z (rev rd) * 10 ^ (dp - len rd + M)) /\
  (d_d a' = [] -> dval_z (rev rd) = 0 /\ d_dp a' = 0) /\
  (d_d a' <> [] -> d_dp a' = dp) /\
  (forall d t, rev rd = d :: t -> d <> 0 -> exists t', d_d a' = d :: t').
Proof.
  intros a'. destruct (drop_zeros_spec rd) as (z & E & Hnz).
  unfold a', trim_rev. cbn [d_d d_dp d_neg d_trunc]. unfold dec_trimmed, dexp. cbn [d_d d_dp].
  set (rd' := drop_zeros rd) in *.
  assert (Hlen : len rd = Z.of_nat z + len rd').
  { rewrite E at 1. rewrite zlen_app, zlen_repeat. reflexivity. }
  assert (Hrev : rev rd = rev rd' ++ repeat 0 z).
  { rewrite E at 1. rewrite rev_app_distr, rev_repeat. reflexivity. }
  assert (Hval : dval_z (rev rd) = dval_z (rev rd') * 10 ^ Z.of_nat z).
  { rewrite Hrev, dval_app, dval_zeros, zlen_repeat. lia. }
  rewrite rev_involutive, zlen_rev.
  pose proof (zlen_nonneg rd') as Hnn.
  split; [exact Hnz|]. split; [reflexivity|]. split; [reflexivity|].
  split. { intros H. apply digs_ok_rev. rewrite E in H. apply digs_ok_app in H. tauto. }
  split; [lia|].
  split.
  { intros M HM. rewrite Hval. destruct (Z.eqb_spec (len rd') 0) as [H0|H0].
    - apply zlen_0 in H0. rewrite H0. simpl rev. change (dval_z []) with 0. lia.
    - rewrite <- Z.mul_assoc. f_equal. rewrite <- pow10_add by lia. f_equal. lia. }
  split.
  { intros H0. assert (H1 : rd' = []).
    { destruct rd' as [|x r]; [reflexivity|]. simpl in H0. destruct (rev r); discriminate. }
    rewrite Hval, H1. simpl rev. change (dval_z []) with 0. split; [lia|reflexivity]. }
  split.
  { intros H0. destruct (Z.eqb_spec (len rd') 0) as [H1|H1]; [|reflexivity].
    apply zlen_0 in H1. rewrite H1 in H0. simpl in H0. congruence. }
  intros d t Hd Hdnz. rewrite Hrev in Hd.
  destruct (rev rd') as [|x r] eqn:Er.
  - simpl in Hd. destruct z as [|z']; simpl in Hd; [discriminate|]. injection Hd as <- _. congruence.
  - simpl in Hd. injection Hd as <- _. exists r. reflexivity.
Qed.

Example trim_rev_val_ex :
  trim_rev [0;0;5;2] 7 true false = {| d_d := [2;5]; d_dp := 7; d_neg := true; d_trunc := false |}
  /\ trim_rev [0;0] 7 true false = {| d_d := []; d_dp := 0; d_neg := true; d_trunc := false |}.
Proof. vm_compute. split; reflexivity. Qed.


(** * rightShift *)

Lemma K_bounds k : 1 <= k <= 60 -> 2 <= 2 ^ k /\ 10 * 2 ^ k < two64.
Proof.
  intros Hk. split.
  - change 2 with (2 ^ 1) at 1. apply Z.pow_le_mono_r; lia.
  - rewrite two64_val. pose proof (pow2_le60 k ltac:(lia)). lia.
Qed.

Lemma shr_zero_iff n k : 0 <= k -> 0 <= n -> ((shr n k =? 0) = true <-> n < 2 ^ k).
Proof.
  intros Hk Hn. rewrite shr_div by lia. pose proof (pow2_pos k Hk) as HK.
  rewrite Z.eqb_eq. split; intros H.
  - pose proof (Z.div_mod n (2 ^ k) ltac:(lia)). pose proof (Z.mod_pos_bound n (2 ^ k) HK). nia.
  - apply Z.div_small. lia.
Qed.

(** one "pick up a digit" step when nothing is put down: no uint64 overflow *)
Lemma rs_pick_step k n c : 1 <= k <= 60 -> 0 <= n < 2 ^ k -> 0 <= c <= 9 ->
  u64 (u64 (n * 10) + c) = n * 10 + c /\ 0 <= n * 10 + c < 10 * 2 ^ k.
Proof.
  intros Hk Hn Hc. destruct (K_bounds k Hk) as [K2 K64].
  rewrite (u64_small (n * 10)) by lia. rewrite u64_small by lia. lia.
Qed.

(** one long-division step: digit put down, remainder carried, no uint64 overflow *)
Lemma rs_div_step k n c : 1 <= k <= 60 -> 0 <= n < 10 * 2 ^ k -> 0 <= c <= 9 ->
  let dig := shr n k in let n1 := u64 (u64 (lowbits n k * 10) + c) in
  0 <= dig <= 9 /\ 0 <= n1 < 10 * 2 ^ k /\ dig * (10 * 2 ^ k) + n1 = 10 * n + c /\
  n1 = (n mod 2 ^ k) * 10 + c /\ dig = n / 2 ^ k.
Proof.
  intros Hk Hn Hc. destruct (K_bounds k Hk) as [K2 K64]. cbv zeta.
  rewrite shr_div, lowbits_mod by lia.
  pose proof (Z.div_mod n (2 ^ k) ltac:(lia)) as E.
  pose proof (Z.mod_pos_bound n (2 ^ k) ltac:(lia)) as B.
  assert (D : 0 <= n / 2 ^ k <= 9).
  { split; [apply Z.div_pos; lia|]. apply Z.lt_succ_r. apply Z.div_lt_upper_bound; lia. }
  rewrite (u64_small (n mod 2 ^ k * 10)) by lia. rewrite u64_small by lia.
  repeat split; try lia.
Qed.

Lemma rs_pad_spec k : 1 <= k <= 60 -> forall fuel r n r' n',
  0 <= n < 10 * 2 ^ k -> rs_pad fuel k r n = Some (r', n') ->
  exists j, 0 <= j /\ n' = n * 10 ^ j /\ r' = r + j /\ 2 ^ k <= n' < 10 * 2 ^ k.
Proof.
  intros Hk. induction fuel as [|f IH]; intros r n r' n' Hn H; cbn [rs_pad] in H.
  - destruct (shr n k =? 0) eqn:Z0; cbn [negb] in H; [discriminate|].
    injection H as <- <-. exists 0. change (10 ^ 0) with 1.
    assert (~ n < 2 ^ k) by (rewrite <- shr_zero_iff by lia; congruence). lia.
  - destruct (shr n k =? 0) eqn:Z0; cbn [negb] in H.
    + apply shr_zero_iff in Z0; [|lia|lia].
      destruct (K_bounds k Hk) as [K2 K64].
      rewrite u64_small in H by lia.
      apply IH in H; [|lia]. destruct H as (j & Hj & -> & -> & Hb).
      exists (j + 1). rewrite pow10_succ by lia. repeat split; lia.
    + injection H as <- <-. exists 0. change (10 ^ 0) with 1.
      assert (~ n < 2 ^ k) by (rewrite <- shr_zero_iff by lia; congruence). lia.
Qed.

Lemma rs_pick_spec k : 1 <= k <= 60 -> forall l pre r n res,
  digs_ok l -> n = dval_z pre -> r = len pre -> 0 <= n < 10 * 2 ^ k ->
  rs_pick l k r n = Some res ->
  match res with
  | inl _ => dval_z (pre ++ l) = 0
  | inr (l', r', n') =>
    exists pre' j, 0 <= j /\ pre' ++ l' = pre ++ l /\ n' = dval_z pre' * 10 ^ j /\
                   r' = len pre' + j /\ (j = 0 \/ l' = []) /\ 2 ^ k <= n' < 10 * 2 ^ k
  end.
Proof.
  intros Hk. induction l as [|c l IH]; intros pre r n res Hl En Er Hn H; cbn [rs_pick] in H.
  - destruct (shr n k =? 0) eqn:Z0; cbn [negb] in H.
    + destruct (Z.eqb_spec n 0) as [N0|N0].
      * injection H as <-. rewrite app_nil_r. lia.
      * destruct (rs_pad 64 k r n) as [[r' n']|] eqn:Hp; cbn [obind] in H; [|discriminate].
        injection H as <-. apply (rs_pad_spec k Hk) in Hp; [|lia].
        destruct Hp as (j & Hj & -> & -> & Hb).
        exists pre, j. subst. repeat split; try lia; auto.
    + injection H as <-. exists pre, 0. change (10 ^ 0) with 1.
      assert (~ n < 2 ^ k) by (rewrite <- shr_zero_iff by lia; congruence).
      subst. repeat split; try lia; auto.
  - destruct (shr n k =? 0) eqn:Z0; cbn [negb] in H.
    + apply shr_zero_iff in Z0; [|lia|lia].
      apply digs_ok_inv in Hl as [Hc Hl].
      destruct (rs_pick_step k n c Hk ltac:(lia) Hc) as [E B]. rewrite E in H.
      apply (IH (pre ++ [c])) in H; try assumption.
      * destruct res as [u|[[l' r'] n']].
        -- rewrite <- app_assoc in H. exact H.
        -- destruct H as (pre' & j & H). exists pre', j. rewrite <- app_assoc in H. exact H.
      * rewrite dval_snoc. lia.
      * rewrite zlen_app, zlen_cons. change (len (@nil Z)) with 0. lia.
    + injection H as <-. exists pre, 0. change (10 ^ 0) with 1.
      assert (~ n < 2 ^ k) by (rewrite <- shr_zero_iff by lia; congruence).
      subst. repeat split; try lia; auto.
Qed.

Lemma rs_main_spec k : 1 <= k <= 60 -> forall l n out n' out',
  digs_ok l -> digs_ok out -> 0 <= n < 10 * 2 ^ k ->
  rs_main l k n out = (n', out') ->
  digs_ok out' /\ 0 <= n' < 10 * 2 ^ k /\ len out' = len out + len l /\
  dval_z (rev out') * (10 * 2 ^ k) + n'
  = (dval_z (rev out) * (10 * 2 ^ k) + n) * 10 ^ len l + dval_z l.
Proof.
  intros Hk. induction l as [|c l IH]; intros n out n' out' Hl Ho Hn H; cbn [rs_main] in H.
  - injection H as <- <-. change (len (@nil Z)) with 0. change (dval_z []) with 0.
    change (10 ^ 0) with 1. repeat split; try assumption; lia.
  - apply digs_ok_inv in Hl as [Hc Hl].
    destruct (rs_div_step k n c Hk Hn Hc) as (Hd & Hn1 & Ex & _ & _).
    apply IH in H; [|assumption|apply digs_ok_cons; assumption|assumption].
    destruct H as (Ho' & Hn' & Hlen & Hv). split; [exact Ho'|]. split; [exact Hn'|].
    split; [rewrite Hlen, !zlen_cons; lia|].
    rewrite Hv. rewrite dval_rev_cons, dval_cons, zlen_cons.
    rewrite pow10_succ by apply zlen_nonneg.
    set (O := dval_z (rev out)) in *. set (P := 10 ^ len l) in *.
    set (dig := shr n k) in *. set (n1 := u64 (u64 (lowbits n k * 10) + c)) in *.
    replace ((O * 10 + dig) * (10 * 2 ^ k) + n1) with (10 * (O * (10 * 2 ^ k)) + (dig * (10 * 2 ^ k) + n1)) by ring.
    rewrite Ex. ring.
Qed.

Lemma rs_extra_mono : forall fuel k n w out out' t',
  rs_extra fuel k n w out true = Some (out', t') -> t' = true.
Proof.
  induction fuel as [|f IH]; intros k n w out out' t' H; cbn [rs_extra] in H.
  - destruct (n =? 0); [|discriminate]. injection H as _ <-. reflexivity.
  - destruct (n =? 0); [injection H as _ <-; reflexivity|].
    destruct (w <? dec_cap); [eapply IH; exact H|].
    cbn [orb] in H. eapply IH; exact H.
Qed.

Lemma rs_extra_step0 k n : 1 <= k <= 60 -> 0 <= n < 10 * 2 ^ k ->
  let dig := shr n k in let n1 := u64 (lowbits n k * 10) in
  0 <= dig <= 9 /\ 0 <= n1 < 10 * 2 ^ k /\ dig * (10 * 2 ^ k) + n1 = 10 * n.
Proof.
  intros Hk Hn. destruct (rs_div_step k n 0 Hk Hn ltac:(lia)) as (Hd & Hn1 & Ex & E1 & _).
  cbv zeta in *. destruct (K_bounds k Hk) as [K2 K64].
  rewrite lowbits_mod in * by lia.
  pose proof (Z.mod_pos_bound n (2 ^ k) ltac:(lia)) as B.
  rewrite (u64_small (n mod 2 ^ k * 10)) in * by lia.
  rewrite u64_small in Hn1, Ex by lia. lia.
Qed.

(** beyond the capacity every further digit is dropped; a clear flag means there was none *)
Lemma rs_extra_cap k : 1 <= k <= 60 -> forall fuel n w out trunc out',
  dec_cap <= w -> 0 <= n < 10 * 2 ^ k ->
  rs_extra fuel k n w out trunc = Some (out', false) -> n = 0 /\ out' = out /\ trunc = false.
Proof.
  intros Hk. induction fuel as [|f IH]; intros n w out trunc out' Hw Hn H; cbn [rs_extra] in H.
  - destruct (Z.eqb_spec n 0); [|discriminate]. injection H as <- <-. auto.
  - destruct (Z.eqb_spec n 0) as [N0|N0]; [injection H as <- <-; auto|].
    exfalso. destruct (Z.ltb_spec w dec_cap); [lia|].
    destruct (rs_extra_step0 k n Hk Hn) as (Hd & Hn1 & Ex).
    apply IH in H; [|assumption|assumption]. destruct H as (E1 & _ & E2).
    apply orb_false_iff in E2 as [_ E2]. apply Z.ltb_ge in E2.
    cbv zeta in *. lia.
Qed.

Lemma rs_extra_spec k : 1 <= k <= 60 -> forall fuel n w out trunc out',
  w = len out -> w <= dec_cap -> 0 <= n < 10 * 2 ^ k -> digs_ok out ->
  rs_extra fuel k n w out trunc = Some (out', false) ->
  trunc = false /\ digs_ok out' /\ len out <= len out' <= dec_cap /\
  dval_z (rev out') * (10 * 2 ^ k)
  = (dval_z (rev out) * (10 * 2 ^ k) + n) * 10 ^ (len out' - len out).
Proof.
  intros Hk. induction fuel as [|f IH]; intros n w out trunc out' Ew Hw Hn Ho H; cbn [rs_extra] in H.
  - destruct (Z.eqb_spec n 0) as [N0|N0]; [|discriminate]. injection H as <- <-.
    rewrite Z.sub_diag. change (10 ^ 0) with 1. repeat split; try assumption; lia.
  - destruct (Z.eqb_spec n 0) as [N0|N0].
    { injection H as <- <-. rewrite Z.sub_diag. change (10 ^ 0) with 1.
      repeat split; try assumption; lia. }
    destruct (rs_extra_step0 k n Hk Hn) as (Hd & Hn1 & Ex). cbv zeta in Hd, Hn1, Ex.
    destruct (Z.ltb_spec w dec_cap) as [Hlt|Hge].
    + apply IH in H; [|rewrite zlen_cons; lia|lia|assumption|apply digs_ok_cons; assumption].
      destruct H as (Ht & Ho' & Hlen & Hv). rewrite zlen_cons in Hlen.
      split; [exact Ht|]. split; [exact Ho'|]. split; [lia|].
      rewrite Hv. rewrite dval_rev_cons, zlen_cons.
      replace (len out' - len out) with ((len out' - (len out + 1)) + 1) by lia.
      rewrite pow10_succ by lia.
      set (O := dval_z (rev out)) in *. set (P := 10 ^ (len out' - (len out + 1))) in *.
      set (dig := shr n k) in *. set (n1 := u64 (lowbits n k * 10)) in *.
      replace ((O * 10 + dig) * (10 * 2 ^ k) + n1) with (10 * (O * (10 * 2 ^ k)) + (dig * (10 * 2 ^ k) + n1)) by ring.
      rewrite Ex. ring.
    + exfalso. apply (rs_extra_cap k Hk) in H; [|lia|assumption].
      destruct H as (E1 & _ & E2).
      apply orb_false_iff in E2 as [_ E2]. apply Z.ltb_ge in E2. lia.
Qed.

(** 2. rightShift is exact when the trunc flag stays clear: long division by 2^k in base 10. *)
Theorem rightShift_exact a k a' :
  dec_wf a -> d_d a <> [] -> 1 <= k <= 60 -> rightShift_m a k = Some a' -> d_trunc a' = false ->
  d_trunc a = false /\ dec_wf a' /\ dec_trimmed a' /\ d_d a' <> [] /\ d_neg a' = d_neg a /\
  shift_val a a' (- k).
Proof.
  intros (Hdig & Hcap & Hlead) Hne Hk H Htr.
  destruct (K_bounds k Hk) as [K2 K64].
  assert (HNpos : 10 ^ (len (d_d a) - 1) <= dval_z (d_d a)).
  { destruct (d_d a) as [|d t] eqn:Ed; [congruence|].
    rewrite zlen_cons. replace (len t + 1 - 1) with (len t) by lia.
    apply dval_lead_lb; assumption. }
  assert (HN0 : 0 < dval_z (d_d a)).
  { pose proof (zlen_nonneg (d_d a)).
    assert (0 < len (d_d a)).
    { destruct (d_d a); [congruence|]. rewrite zlen_cons. pose proof (zlen_nonneg l). lia. }
    pose proof (pow10_pos (len (d_d a) - 1) ltac:(lia)). lia. }
  unfold rightShift_m in H.
  destruct (rs_pick (d_d a) k 0 0) as [pk|] eqn:Hp; cbn [obind] in H; [|discriminate].
  apply (rs_pick_spec k Hk (d_d a) [] 0 0 pk Hdig) in Hp; [|reflexivity|reflexivity|lia].
  destruct pk as [u|[[l r] n0]].
  { simpl app in Hp. lia. }
  destruct Hp as (pre & j & Hj & Eds & En0 & Er & Hjl & Hn0). simpl app in Eds.
  destruct (rs_main l k n0 []) as [n1 out1] eqn:Hm.
  assert (Hdl : digs_ok pre /\ digs_ok l). { apply digs_ok_app. rewrite Eds. exact Hdig. }
  destruct Hdl as [Hdpre Hdl].
  apply (rs_main_spec k Hk) in Hm; [|assumption|apply digs_ok_nil|lia].
  destruct Hm as (Ho1 & Hn1 & Hl1 & Hv1).
  change (len (@nil Z)) with 0 in Hl1. change (dval_z (rev [])) with 0 in Hv1.
  destruct (rs_extra 128 k n1 (len out1) out1 (d_trunc a)) as [[out2 tr2]|] eqn:He;
    cbn [obind] in H; [|discriminate].
  injection H as <-.
  pose proof (trim_rev_val out2 (d_dp a - (r - 1)) (d_neg a) tr2) as T. cbv zeta in T.
  set (a' := trim_rev out2 (d_dp a - (r - 1)) (d_neg a) tr2) in *.
  destruct T as (Ttrim & Tneg & Ttr & Tdig & Tlen & Tval & Tnil & Tdp & Tlead).
  rewrite Ttr in Htr. subst tr2.
  assert (Hlen1 : len out1 <= dec_cap).
  { rewrite Hl1. rewrite <- Eds in Hcap. rewrite zlen_app in Hcap. pose proof (zlen_nonneg pre). lia. }
  apply (rs_extra_spec k Hk) in He; [|reflexivity|assumption|assumption|assumption].
  destruct He as (Htr0 & Ho2 & Hl2 & Hv2).
  (* the value equation before trim *)
  set (N := dval_z (d_d a)) in *. set (O2 := dval_z (rev out2)) in *.
  set (m := len l) in *. set (L2 := len out2) in *.
  assert (HX : O2 * (10 * 2 ^ k) = N * 10 ^ (j + (L2 - len out1))).
  { rewrite Hv2, Hv1. rewrite pow10_add by lia.
    unfold N. rewrite <- Eds, dval_app. fold m. rewrite En0.
    destruct Hjl as [ -> | -> ].
    - change (10 ^ 0) with 1. ring.
    - unfold m. change (len (@nil Z)) with 0. change (dval_z []) with 0. change (10 ^ 0) with 1. ring. }
  assert (HLB : 2 ^ k * 10 ^ L2 <= O2 * (10 * 2 ^ k)).
  { rewrite Hv2, Hv1. pose proof (dval_bound l Hdl) as Bl. fold m in Bl.
    pose proof (pow10_pos (L2 - len out1) ltac:(lia)) as Pp.
    pose proof (pow10_pos m ltac:(unfold m; apply zlen_nonneg)) as Pm.
    replace L2 with (m + (L2 - len out1)) at 1 by lia.
    rewrite pow10_add by (unfold m; pose proof (zlen_nonneg l); lia).
    assert (2 ^ k * 10 ^ m <= (0 * (10 * 2 ^ k) + n0) * 10 ^ m + dval_z l) by nia.
    nia. }
  pose proof (zlen_nonneg out2) as HL2nn. fold L2 in HL2nn.
  pose proof (dval_bound (rev out2) (digs_ok_rev _ Ho2)) as BO2. rewrite zlen_rev in BO2.
  fold O2 L2 in BO2.
  assert (HL2pos : 0 < L2).
  { destruct (Z.eq_dec L2 0) as [E0|]; [|lia]. exfalso.
    rewrite E0 in BO2, HLB. change (10 ^ 0) with 1 in *. lia. }
  assert (HO2lb : 10 ^ (L2 - 1) <= O2).
  { replace L2 with ((L2 - 1) + 1) in HLB at 1 by lia. rewrite pow10_succ in HLB by lia. nia. }
  (* leading digit *)
  assert (Hlead2 : exists d t, rev out2 = d :: t /\ d <> 0).
  { destruct (rev out2) as [|d t] eqn:Er2.
    - exfalso. apply (f_equal (@len Z)) in Er2. rewrite zlen_rev in Er2.
      change (len (@nil Z)) with 0 in Er2. fold L2 in Er2. lia.
    - exists d, t. split; [reflexivity|].
      apply (dval_lead_nz d t).
      + rewrite <- Er2. apply digs_ok_rev. exact Ho2.
      + fold O2 in HO2lb. apply (f_equal (@len Z)) in Er2. rewrite zlen_rev, zlen_cons in Er2.
        fold L2 in Er2. replace (len t) with (L2 - 1) by lia. exact HO2lb. }
  destruct Hlead2 as (d & t & Er2 & Hd).
  destruct (Tlead d t Er2 Hd) as (t' & Ea').
  assert (Hne' : d_d a' <> []) by (rewrite Ea'; discriminate).
  split; [exact Htr0|].
  split. { split; [apply Tdig; exact Ho2|]. split; [fold L2 in Tlen; lia|]. rewrite Ea'. exact Hd. }
  split; [exact Ttrim|]. split; [exact Hne'|]. split; [exact Tneg|].
  (* value *)
  set (e2 := d_dp a - (r - 1) - L2) in *.
  destruct (scale_exists3 (dexp a) (dexp a') e2) as (M & HM & Ha & Ha' & He2).
  apply (shift_val_iff a a' (- k) M HM Ha Ha').
  unfold shift_rel. rewrite (P2_nonneg (- - k)) by lia. rewrite (P2_nonpos (- k)) by lia.
  rewrite Z.opp_involutive.
  fold L2 e2 in Tval. rewrite (Tval M He2). fold O2.
  unfold dexp at 1. fold N. unfold dexp in Ha.
  set (s := j + (L2 - len out1)) in *.
  assert (Enda : len (d_d a) = len pre + m) by (rewrite <- Eds, zlen_app; reflexivity).
  assert (Ee3 : (d_dp a - len (d_d a) + M) + 1 = (e2 + M) + s) by (unfold e2, s; lia).
  assert (E10 : 10 ^ (d_dp a - len (d_d a) + M) * 10 = 10 ^ (e2 + M) * 10 ^ s).
  { rewrite <- pow10_succ by lia. rewrite Ee3. apply pow10_add; unfold s; lia. }
  apply (Z.mul_reg_r _ _ 10); [lia|].
  transitivity (O2 * (10 * 2 ^ k) * 10 ^ (e2 + M)); [ring|].
  rewrite HX.
  transitivity (N * (10 ^ (d_dp a - len (d_d a) + M) * 10)); [|ring].
  rewrite E10. ring.
Qed.

Example rightShift_exact_ex :
  let a := {| d_d := [5]; d_dp := 1; d_neg := false; d_trunc := false |} in
  let a' := {| d_d := [6;2;5]; d_dp := 0; d_neg := false; d_trunc := false |} in
  dec_wf a /\ d_d a <> [] /\ 1 <= 3 <= 60 /\ rightShift_m a 3 = Some a' /\ d_trunc a' = false.
Proof.
  intros a a'. split.
  { unfold dec_wf, digs_ok. cbn [d_d a]. split; [repeat constructor; lia|].
    split; [vm_compute; discriminate|lia]. }
  split; [discriminate|]. split; [lia|]. split; vm_compute; reflexivity.
Qed.


(** * leftShift: the cheat sheet *)

Lemma pow5_odd k : 0 <= k -> 5 ^ k mod 2 = 1.
Proof.
  intros Hk. pattern k. apply natlike_ind; [reflexivity| |exact Hk].
  intros x Hx IH. rewrite Z.pow_succ_r by lia.
  rewrite Z.mul_mod by lia. rewrite IH. reflexivity.
Qed.

Lemma pow10_even e : 1 <= e -> 10 ^ e mod 2 = 0.
Proof.
  intros He. replace e with (Z.succ (e - 1)) by lia. rewrite Z.pow_succ_r by lia.
  replace (10 * 10 ^ (e - 1)) with (5 * 10 ^ (e - 1) * 2) by ring. apply Z.mod_mul. lia.
Qed.

Lemma pow10_split k : 0 <= k -> 10 ^ k = 2 ^ k * 5 ^ k.
Proof. intros. change 10 with (2 * 5). apply Z.pow_mul_l. Qed.

Lemma pow5_ge5 k : 1 <= k -> 5 <= 5 ^ k.
Proof. intros. change 5 with (5 ^ 1) at 1. apply Z.pow_le_mono_r; lia. Qed.

(** the number of digits of 5^k and of 2^k add up to k + 1 *)
Lemma cheat_sum k clen delta :
  1 <= k -> 0 < clen -> 10 ^ (clen - 1) <= 5 ^ k < 10 ^ clen ->
  0 < delta -> 10 ^ (delta - 1) <= 2 ^ k < 10 ^ delta -> clen + delta = k + 1.
Proof.
  intros Hk Hc H5 Hd H2.
  pose proof (pow2_pos k ltac:(lia)) as P2k.
  assert (P5k : 0 < 5 ^ k) by (apply Z.pow_pos_nonneg; lia).
  pose proof (pow10_split k ltac:(lia)) as E10.
  pose proof (pow10_pos (clen - 1) ltac:(lia)) as Pc. pose proof (pow10_pos (delta - 1) ltac:(lia)) as Pd.
  assert (U : k < clen + delta).
  { apply pow10_lt_inv; try lia. rewrite pow10_add by lia. rewrite E10. nia. }
  assert (S5 : 10 ^ (clen - 1) < 5 ^ k).
  { destruct (Z.eq_dec (10 ^ (clen - 1)) (5 ^ k)) as [E|]; [|lia]. exfalso.
    destruct (Z.eq_dec clen 1) as [->|].
    - change (10 ^ (1 - 1)) with 1 in E. pose proof (pow5_ge5 k Hk). lia.
    - pose proof (pow10_even (clen - 1) ltac:(lia)) as Ev. rewrite E in Ev.
      rewrite pow5_odd in Ev by lia. discriminate. }
  assert (L : clen + delta - 2 < k).
  { apply pow10_lt_inv; try lia. replace (clen + delta - 2) with ((clen - 1) + (delta - 1)) by lia.
    rewrite pow10_add by lia. rewrite E10. nia. }
  lia.
Qed.

Lemma digit_count k clen delta0 N nd :
  1 <= k -> 0 < clen -> 10 ^ (clen - 1) <= 5 ^ k < 10 ^ clen ->
  0 < delta0 -> 10 ^ (delta0 - 1) <= 2 ^ k < 10 ^ delta0 ->
  1 <= nd -> 10 ^ (nd - 1) <= N < 10 ^ nd ->
  (N * 10 ^ clen < 5 ^ k * 10 ^ nd ->
   10 ^ (nd + (delta0 - 1) - 1) <= N * 2 ^ k < 10 ^ (nd + (delta0 - 1))) /\
  (5 ^ k * 10 ^ nd <= N * 10 ^ clen ->
   10 ^ (nd + delta0 - 1) <= N * 2 ^ k < 10 ^ (nd + delta0)).
Proof.
  intros Hk Hc H5 Hd H2 Hnd HN.
  pose proof (cheat_sum k clen delta0 Hk Hc H5 Hd H2) as Esum.
  pose proof (pow2_pos k ltac:(lia)) as P2k.
  assert (P5k : 0 < 5 ^ k) by (apply Z.pow_pos_nonneg; lia).
  pose proof (pow10_split k ltac:(lia)) as E10.
  pose proof (pow10_pos (nd - 1) ltac:(lia)) as Pn. pose proof (pow10_pos (delta0 - 1) ltac:(lia)) as Pd.
  pose proof (pow10_pos nd ltac:(lia)) as Pn'.
  assert (Ek : 10 ^ k = 10 ^ clen * 10 ^ (delta0 - 1)).
  { rewrite <- pow10_add by lia. f_equal. lia. }
  set (K := 2 ^ k) in *. set (F := 5 ^ k) in *. set (D := 10 ^ (delta0 - 1)) in *.
  set (C := 10 ^ clen) in *.
  split; intros Hc'.
  - split.
    + replace (nd + (delta0 - 1) - 1) with ((nd - 1) + (delta0 - 1)) by lia.
      rewrite pow10_add by lia. fold D. nia.
    + rewrite pow10_add by lia. fold D.
      apply (Z.mul_lt_mono_pos_r F); [exact P5k|].
      replace (N * K * F) with (N * (K * F)) by ring. rewrite <- E10, Ek.
      replace (N * (C * D)) with (N * C * D) by ring.
      replace (10 ^ nd * D * F) with (F * 10 ^ nd * D) by ring.
      apply Z.mul_lt_mono_pos_r; assumption.
  - split.
    + replace (nd + delta0 - 1) with (nd + (delta0 - 1)) by lia.
      rewrite pow10_add by lia. fold D.
      apply (Z.mul_le_mono_pos_r _ _ F); [exact P5k|].
      replace (N * K * F) with (N * (K * F)) by ring. rewrite <- E10, Ek.
      replace (N * (C * D)) with (N * C * D) by ring.
      replace (10 ^ nd * D * F) with (F * 10 ^ nd * D) by ring.
      apply Z.mul_le_mono_nonneg_r; lia.
    + rewrite pow10_add by lia.
      assert (N * K < 10 ^ nd * K) by (apply Z.mul_lt_mono_pos_r; lia).
      assert (10 ^ nd * K < 10 ^ nd * 10 ^ delta0) by (apply Z.mul_lt_mono_pos_l; lia).
      lia.
Qed.

(** prefixIsLessThan against the [n] low digits of an odd number [c] is the comparison of the
    fractions 0.b and 0.(c mod 10^n); a proper prefix compares as smaller, rightly so because
    the cutoff does not end in 0 *)
Lemma pil_spec : forall (n : nat) b c, digs_ok b -> c mod 2 = 1 ->
  (prefixIsLessThan b (digits_of n c) = true <->
   dval_z b * 10 ^ Z.of_nat n < (c mod 10 ^ Z.of_nat n) * 10 ^ len b).
Proof.
  induction n as [|m IH]; intros b c Hb Hc.
  - cbn [digits_of]. assert (E : prefixIsLessThan b [] = false) by (destruct b; reflexivity).
    rewrite E. change (10 ^ Z.of_nat 0) with 1. rewrite Z.mod_1_r.
    pose proof (dval_bound b Hb). split; [discriminate|lia].
  - cbn [digits_of]. rewrite Nat2Z.inj_succ, Z.pow_succ_r by lia.
    set (B := 10 ^ Z.of_nat m) in *.
    assert (PB : 0 < B) by (apply pow10_pos; lia).
    set (sc := (c / B) mod 10).
    assert (Hsc : 0 <= sc <= 9) by (pose proof (Z.mod_pos_bound (c / B) 10 ltac:(lia)); lia).
    assert (Em : c mod (10 * B) = c mod B + B * sc).
    { rewrite (Z.mul_comm 10 B). apply Z.rem_mul_r; lia. }
    pose proof (Z.mod_pos_bound c B PB) as Hcm.
    rewrite Em. set (cm := c mod B) in *.
    destruct b as [|bc b'].
    + cbn [prefixIsLessThan]. change (dval_z []) with 0. change (len (@nil Z)) with 0.
      change (10 ^ 0) with 1. split; [intros _|reflexivity].
      assert (Hodd : (c mod (10 * B)) mod 2 = 1).
      { replace (10 * B) with (2 * (5 * B)) by ring. rewrite Z.rem_mul_r by lia.
        rewrite (Z.mul_comm 2 ((c / 2) mod (5 * B))), Z.mod_add by lia. rewrite Z.mod_mod by lia. exact Hc. }
      rewrite Em in Hodd.
      assert (cm + B * sc <> 0) by (intros E0; rewrite E0 in Hodd; discriminate).
      nia.
    + apply digs_ok_inv in Hb as [Hbc Hb'].
      cbn [prefixIsLessThan]. rewrite dval_cons, zlen_cons.
      rewrite pow10_succ by apply zlen_nonneg.
      pose proof (dval_bound b' Hb') as Hvb.
      set (A := 10 ^ len b') in *. set (vb := dval_z b') in *.
      assert (PA : 0 < A) by (apply pow10_pos, zlen_nonneg).
      destruct (Z.eqb_spec bc sc) as [Eb|Nb]; cbn [negb].
      * rewrite (IH b' c Hb' Hc). fold B cm A vb. subst bc.
        replace ((sc * A + vb) * (10 * B)) with (10 * (sc * A * B) + 10 * (vb * B)) by ring.
        replace ((cm + B * sc) * (A * 10)) with (10 * (sc * A * B) + 10 * (cm * A)) by ring.
        lia.
      * rewrite Z.ltb_lt.
        replace ((bc * A + vb) * (10 * B)) with (10 * ((bc * A + vb) * B)) by ring.
        replace ((cm + B * sc) * (A * 10)) with (10 * ((cm + B * sc) * A)) by ring.
        split; intros H.
        -- assert (bc * A + vb < sc * A) by nia.
           assert ((bc * A + vb) * B < sc * A * B) by (apply Z.mul_lt_mono_pos_r; lia).
           assert (sc * A * B <= (cm + B * sc) * A) by nia. lia.
        -- destruct (Z_lt_ge_dec bc sc) as [|G]; [assumption|exfalso].
           assert (cm + B * sc < B * bc) by nia.
           assert ((cm + B * sc) * A < B * bc * A) by (apply Z.mul_lt_mono_pos_r; lia).
           assert (B * bc * A <= (bc * A + vb) * B) by nia. lia.
Qed.

(** the digit count of N * 2^k announced by the cheat sheet *)
Lemma cheat_count T k ds :
  tables_ok T -> 1 <= k <= 60 -> digs_ok ds -> 1 <= len ds -> 10 ^ (len ds - 1) <= dval_z ds ->
  let '(delta0, cutoff, clen) := nth (Z.to_nat k) (t_leftcheats T) (0, 0, 0) in
  let delta := if prefixIsLessThan ds (digits_of (Z.to_nat clen) cutoff) then delta0 - 1 else delta0 in
  0 <= delta /\ 10 ^ (len ds + delta - 1) <= dval_z ds * 2 ^ k < 10 ^ (len ds + delta).
Proof.
  intros HT Hk Hds Hnd HN. pose proof (cheat_row_spec T k HT Hk) as R.
  destruct (nth (Z.to_nat k) (t_leftcheats T) (0, 0, 0)) as [[delta0 cutoff] clen].
  destruct R as (Ec & Hc & H5 & Hd & H2). subst cutoff.
  pose proof (dval_bound ds Hds) as Bd.
  destruct (digit_count k clen delta0 (dval_z ds) (len ds) ltac:(lia) Hc H5 Hd H2 Hnd ltac:(lia))
    as [D1 D2].
  pose proof (pil_spec (Z.to_nat clen) ds (5 ^ k) Hds (pow5_odd k ltac:(lia))) as PS.
  rewrite Z2Nat.id in PS by lia. rewrite (Z.mod_small (5 ^ k)) in PS by lia.
  destruct (prefixIsLessThan ds (digits_of (Z.to_nat clen) (5 ^ k))).
  - split; [lia|]. apply D1. apply PS. reflexivity.
  - split; [lia|]. apply D2. destruct (Z_lt_ge_dec (dval_z ds * 10 ^ clen) (5 ^ k * 10 ^ len ds)) as [L|G].
    + apply PS in L. discriminate.
    + lia.
Qed.


(** * leftShift: the loops *)

(** the common "put down one digit at position w-1" step of both loops *)
Definition emit (n w : Z) (out : list Z) (trunc : bool) : Z * Z * list Z * bool :=
  let quo := n / 10 in let rem := u64 (n - 10 * quo) in let w := w - 1 in
  if w <? dec_cap then (quo, w, rem :: out, trunc) else (quo, w, out, trunc || negb (rem =? 0)).

(** bookkeeping: j digits produced so far, w = W0 - j, [out] holds positions w .. min(800,W0)-1 *)
Definition ls_struct (W0 j w : Z) (out : list Z) : Prop :=
  0 <= j /\ w = W0 - j /\ digs_ok out /\ (dec_cap <= w -> out = []) /\
  len out = Z.min dec_cap W0 - Z.min dec_cap w.

Lemma ls_struct_len W0 j w out : ls_struct W0 j w out -> 0 <= len out <= j.
Proof. intros (Hj & Hw & _ & _ & Hl). pose proof (zlen_nonneg out). lia. Qed.

(** value carried by a state: carry n at position j, digits [out] above the dropped (zero) ones *)
Definition ls_val (j n : Z) (out : list Z) : Z := n * 10 ^ j + dval_z out * 10 ^ (j - len out).

Lemma emit_spec W0 K j m w out trunc q w' out' :
  ls_struct W0 j w out -> 0 < K -> 10 * K < two64 -> 0 <= m < 10 * K ->
  emit m w out trunc = (q, w', out', false) ->
  trunc = false /\ 0 <= q < K /\ (m < 10 -> q = 0) /\ ls_struct W0 (j + 1) w' out' /\
  ls_val (j + 1) q out' = ls_val j m out.
Proof.
  intros St HK K64 Hm H. pose proof (ls_struct_len _ _ _ _ St) as Hlen.
  destruct St as (Hj & Hw & Ho & Hcap & Hl).
  unfold emit in H.
  pose proof (Z.div_mod m 10 ltac:(lia)) as E. pose proof (Z.mod_pos_bound m 10 ltac:(lia)) as B.
  assert (Er : m - 10 * (m / 10) = m mod 10) by lia. rewrite Er in H.
  rewrite u64_small in H by lia.
  assert (Hq : 0 <= m / 10 < K).
  { split; [apply Z.div_pos; lia|apply Z.div_lt_upper_bound; lia]. }
  assert (Hq0 : m < 10 -> m / 10 = 0) by (intros; apply Z.div_small; lia).
  assert (Em : m * 10 ^ j = (10 * (m / 10) + m mod 10) * 10 ^ j) by (rewrite <- E; reflexivity).
  unfold ls_val.
  destruct (Z.ltb_spec (w - 1) dec_cap) as [Hlt|Hge].
  - injection H as <- <- <- <-. split; [reflexivity|]. split; [exact Hq|]. split; [exact Hq0|].
    split.
    + unfold ls_struct. rewrite zlen_cons. split; [lia|]. split; [lia|].
      split; [apply digs_ok_cons; [lia|assumption]|]. split; [intros; lia|]. lia.
    + rewrite dval_cons, zlen_cons. rewrite pow10_succ by lia.
      replace (j + 1 - (len out + 1)) with (j - len out) by lia.
      assert (E10 : 10 ^ len out * 10 ^ (j - len out) = 10 ^ j).
      { rewrite <- pow10_add by lia. f_equal. lia. }
      replace ((m mod 10 * 10 ^ len out + dval_z out) * 10 ^ (j - len out))
        with (m mod 10 * (10 ^ len out * 10 ^ (j - len out)) + dval_z out * 10 ^ (j - len out)) by ring.
      rewrite E10. rewrite Em. ring.
  - injection H as <- <- <- Ht. apply orb_false_iff in Ht as [Ht Hr].
    apply negb_false_iff in Hr. apply Z.eqb_eq in Hr.
    split; [exact Ht|]. split; [exact Hq|]. split; [exact Hq0|].
    assert (Eo : out = []) by (apply Hcap; lia). subst out.
    split.
    + unfold ls_struct. split; [lia|]. split; [lia|]. split; [assumption|].
      split; [reflexivity|]. change (len (@nil Z)) with 0 in *. lia.
    + change (dval_z []) with 0. rewrite pow10_succ by lia. rewrite Em. rewrite Hr. ring.
Qed.

Lemma ls_main_mono : forall rd k n w out n' w' out' t',
  ls_main rd k n w out true = (n', w', out', t') -> t' = true.
Proof.
  induction rd as [|c rd IH]; intros k n w out n' w' out' t' H; cbn [ls_main] in H.
  - injection H as _ _ _ <-. reflexivity.
  - destruct (w - 1 <? dec_cap); [eapply IH; exact H|]. cbn [orb] in H. eapply IH; exact H.
Qed.

Lemma ls_extra_mono : forall fuel n w out w' out' t',
  ls_extra fuel n w out true = Some (w', out', t') -> t' = true.
Proof.
  induction fuel as [|f IH]; intros n w out w' out' t' H; cbn [ls_extra] in H.
  - destruct (0 <? n); cbn [negb] in H; [discriminate|]. injection H as _ _ <-. reflexivity.
  - destruct (0 <? n); cbn [negb] in H; [|injection H as _ _ <-; reflexivity].
    destruct (w - 1 <? dec_cap); [eapply IH; exact H|]. cbn [orb] in H. eapply IH; exact H.
Qed.

Lemma ls_main_step k c rd n w out trunc :
  1 <= k <= 60 -> 0 <= n < 2 ^ k -> 0 <= c <= 9 ->
  ls_main (c :: rd) k n w out trunc
  = let '(q, w1, o1, t1) := emit (n + c * 2 ^ k) w out trunc in ls_main rd k q w1 o1 t1.
Proof.
  intros Hk Hn Hc. destruct (K_bounds k Hk) as [K2 K64].
  cbn [ls_main]. rewrite Z.shiftl_mul_pow2 by lia.
  rewrite (u64_small (c * 2 ^ k)) by nia. rewrite (u64_small (n + c * 2 ^ k)) by nia.
  unfold emit. destruct (w - 1 <? dec_cap); reflexivity.
Qed.

Lemma ls_main_spec k W0 : 1 <= k <= 60 -> forall rd j n w out trunc n' w' out',
  digs_ok rd -> ls_struct W0 j w out -> 0 <= n < 2 ^ k ->
  ls_main rd k n w out trunc = (n', w', out', false) ->
  trunc = false /\ ls_struct W0 (j + len rd) w' out' /\ 0 <= n' < 2 ^ k /\
  ls_val (j + len rd) n' out' = ls_val j n out + dval_z (rev rd) * 2 ^ k * 10 ^ j.
Proof.
  intros Hk. destruct (K_bounds k Hk) as [K2 K64].
  induction rd as [|c rd IH]; intros j n w out trunc n' w' out' Hrd St Hn H.
  - cbn [ls_main] in H. injection H as <- <- <- <-. change (len (@nil Z)) with 0.
    rewrite Z.add_0_r. change (dval_z (rev [])) with 0. repeat split; try assumption; try lia.
    all: destruct St as (? & ? & ? & ? & ?); try assumption; try lia.
  - apply digs_ok_inv in Hrd as [Hc Hrd].
    rewrite (ls_main_step k c rd n w out trunc Hk Hn Hc) in H.
    destruct (emit (n + c * 2 ^ k) w out trunc) as [[[q w1] o1] t1] eqn:He.
    destruct t1.
    { apply ls_main_mono in H. discriminate. }
    apply (emit_spec W0 (2 ^ k) j) in He; [|assumption|lia|lia|nia].
    destruct He as (Ht & Hq & _ & St1 & Hv1).
    apply (IH (j + 1)) in H; [|assumption|assumption|assumption].
    destruct H as (_ & St' & Hn' & Hv').
    rewrite zlen_cons. replace (j + (len rd + 1)) with (j + 1 + len rd) by lia.
    split; [exact Ht|]. split; [exact St'|]. split; [exact Hn'|].
    rewrite Hv', Hv1. rewrite dval_rev_cons.
    destruct St as (Hj & _). rewrite pow10_succ by lia.
    unfold ls_val. ring.
Qed.

Lemma ls_extra_step f n w out trunc : 0 < n ->
  ls_extra (S f) n w out trunc
  = let '(q, w1, o1, t1) := emit n w out trunc in ls_extra f q w1 o1 t1.
Proof.
  intros Hn. cbn [ls_extra]. apply Z.ltb_lt in Hn. rewrite Hn. cbn [negb].
  unfold emit. destruct (w - 1 <? dec_cap); reflexivity.
Qed.

Lemma ls_extra_spec K W0 : 0 < K -> 10 * K < two64 -> forall fuel j n w out trunc w' out',
  ls_struct W0 j w out -> 0 <= n < K ->
  ls_extra fuel n w out trunc = Some (w', out', false) ->
  trunc = false /\ exists j', j <= j' /\ ls_struct W0 j' w' out' /\
  ls_val j' 0 out' = ls_val j n out /\
  (0 < n -> 10 ^ (j' - 1) <= ls_val j n out) /\ (n = 0 -> j' = j).
Proof.
  intros HK K64. induction fuel as [|f IH]; intros j n w out trunc w' out' St Hn H.
  - cbn [ls_extra] in H. destruct (Z.ltb_spec 0 n) as [Hp|Hp]; cbn [negb] in H; [discriminate|].
    injection H as <- <- <-. split; [reflexivity|]. exists j.
    assert (n = 0) by lia. subst n.
      split; [lia|]. split; [exact St|]. split; [reflexivity|]. split; [intros; lia|reflexivity].
  - destruct (Z.ltb_spec 0 n) as [Hp|Hp].
    2:{ cbn [ls_extra] in H. destruct (Z.ltb_spec 0 n) as [Hp'|Hp']; [lia|]. cbn [negb] in H.
        injection H as <- <- <-. split; [reflexivity|]. exists j.
        assert (n = 0) by lia. subst n.
      split; [lia|]. split; [exact St|]. split; [reflexivity|]. split; [intros; lia|reflexivity]. }
    rewrite (ls_extra_step f n w out trunc Hp) in H.
    destruct (emit n w out trunc) as [[[q w1] o1] t1] eqn:He.
    destruct t1.
    { apply ls_extra_mono in H. discriminate. }
    apply (emit_spec W0 K j) in He; [|assumption|assumption|assumption|lia].
    destruct He as (Ht & Hq & Hq0 & St1 & Hv1).
    pose proof H as H0.
    apply (IH (j + 1)) in H; [|assumption|assumption].
    destruct H as (_ & j' & Hj' & St' & Hv' & Hlb & Hz).
    split; [exact Ht|]. exists j'. split; [lia|]. split; [exact St'|].
    split; [rewrite Hv', Hv1; reflexivity|]. split; [|lia].
    intros _. destruct (Z.eq_dec q 0) as [Eq|Nq].
    + rewrite (Hz Eq). replace (j + 1 - 1) with j by lia.
      unfold ls_val. pose proof (ls_struct_len _ _ _ _ St) as Hlen.
      destruct St as (Hj & _ & Ho & _).
      pose proof (dval_bound out Ho). pose proof (pow10_pos j Hj).
      pose proof (pow10_pos (j - len out) ltac:(lia)). nia.
    + rewrite <- Hv1. apply Hlb. lia.
Qed.

Lemma firstn_all_z {A} (l : list A) n : len l <= n -> firstn (Z.to_nat n) l = l.
Proof. intros H. apply firstn_all2. unfold len in H. lia. Qed.

(** 3. leftShift is exact when the trunc flag stays clear: long multiplication by 2^k from the
    right; the cheat sheet announces the number of digits of the product, so the write index
    ends at 0. *)
Theorem leftShift_exact T a k a' :
  tables_ok T -> dec_wf a -> d_d a <> [] -> 1 <= k <= 60 ->
  leftShift_m T a k = Some a' -> d_trunc a' = false ->
  d_trunc a = false /\ dec_wf a' /\ dec_trimmed a' /\ d_d a' <> [] /\ d_neg a' = d_neg a /\
  shift_val a a' k.
Proof.
  intros HT (Hdig & Hcap & Hlead) Hne Hk H Htr.
  destruct (K_bounds k Hk) as [K2 K64].
  assert (Hnd : 1 <= len (d_d a)).
  { destruct (d_d a); [congruence|]. rewrite zlen_cons. pose proof (zlen_nonneg l). lia. }
  assert (HNlb : 10 ^ (len (d_d a) - 1) <= dval_z (d_d a)).
  { destruct (d_d a) as [|d t] eqn:Ed; [congruence|].
    rewrite zlen_cons. replace (len t + 1 - 1) with (len t) by lia.
    apply dval_lead_lb; assumption. }
  pose proof (cheat_count T k (d_d a) HT Hk Hdig Hnd HNlb) as CC.
  unfold leftShift_m in H.
  destruct (nth (Z.to_nat k) (t_leftcheats T) (0, 0, 0)) as [[delta0 cutoff] clen].
  set (delta := if prefixIsLessThan (d_d a) (digits_of (Z.to_nat clen) cutoff)
                then delta0 - 1 else delta0) in *.
  cbv zeta in CC. destruct CC as (Hdelta & HPlb & HPub).
  destruct (Z.ltb_spec delta 0) as [|_]; [lia|].
  unfold d_nd in H.
  set (nd := len (d_d a)) in *. set (W0 := nd + delta) in *.
  set (N := dval_z (d_d a)) in *.
  destruct (ls_main (rev (d_d a)) k 0 W0 [] (d_trunc a)) as [[[n1 w1] out1] tr1] eqn:Hm.
  destruct (ls_extra 64 n1 w1 out1 tr1) as [[[w2 out2] tr2]|] eqn:He; cbn [obind] in H; [|discriminate].
  destruct (Z.ltb_spec w2 0) as [|Hw2]; [discriminate|].
  injection H as <-.
  set (nd' := if dec_cap <=? W0 then dec_cap else W0) in *.
  set (ds := firstn (Z.to_nat nd') (firstn (Z.to_nat w2) (d_d a) ++ out2)) in *.
  pose proof (trim_rev_val (rev ds) (d_dp a + delta) (d_neg a) tr2) as TT. cbv zeta in TT.
  set (a' := trim_rev (rev ds) (d_dp a + delta) (d_neg a) tr2) in *.
  destruct TT as (Ttrim & Tneg & Ttr & Tdig & Tlen & Tval & Tnil & Tdp & Tlead).
  rewrite Ttr in Htr. subst tr2.
  (* the two loops *)
  assert (St0 : ls_struct W0 0 W0 []).
  { unfold ls_struct. change (len (@nil Z)) with 0. repeat split; try lia. apply digs_ok_nil. }
  destruct tr1.
  { apply ls_extra_mono in He. discriminate. }
  apply (ls_main_spec k W0 Hk (rev (d_d a)) 0) in Hm; [|apply digs_ok_rev; assumption|assumption|lia].
  destruct Hm as (Htr0 & St1 & Hn1 & Hv1).
  rewrite zlen_rev, rev_involutive in *. rewrite Z.add_0_l in *. fold nd N in St1, Hv1.
  assert (Hv1' : ls_val nd n1 out1 = N * 2 ^ k).
  { rewrite Hv1. unfold ls_val. change (dval_z []) with 0. change (10 ^ 0) with 1. ring. }
  apply (ls_extra_spec (2 ^ k) W0 ltac:(lia) K64 64%nat nd) in He; [|assumption|assumption].
  destruct He as (_ & j2 & Hj2 & St2 & Hv2 & Hlb2 & Hz2).
  rewrite Hv1' in Hv2, Hlb2.
  pose proof (ls_struct_len _ _ _ _ St2) as Hlen2.
  destruct St2 as (_ & Ew2 & Ho2 & _ & Hl2).
  unfold ls_val in Hv2. rewrite Z.mul_0_l, Z.add_0_l in Hv2.
  set (L := len out2) in *. set (z := j2 - L) in *.
  pose proof (dval_bound out2 Ho2) as BO. fold L in BO.
  pose proof (pow10_pos z ltac:(unfold z; lia)) as Pz.
  pose proof (pow2_pos k ltac:(lia)) as PK.
  assert (Pnd1 : 0 < 10 ^ (nd - 1)) by (apply pow10_pos; lia).
  (* digit count: j2 = W0, hence w2 = 0 *)
  assert (Hlow : 10 ^ (j2 - 1) <= N * 2 ^ k).
  { destruct (Z.eq_dec n1 0) as [E0|N0].
    - rewrite (Hz2 E0). nia.
    - apply Hlb2. lia. }
  assert (Hup : N * 2 ^ k < 10 ^ j2).
  { rewrite <- Hv2. replace j2 with (L + z) by (unfold z; lia).
    rewrite pow10_add by (unfold z; lia). apply Z.mul_lt_mono_pos_r; lia. }
  assert (Ej2 : j2 = W0).
  { assert (j2 - 1 < W0) by (apply pow10_lt_inv; unfold W0 in *; lia).
    assert (W0 - 1 < j2) by (apply pow10_lt_inv; unfold W0 in *; lia). lia. }
  assert (Ew : w2 = 0) by lia.
  assert (Eds : ds = out2).
  { unfold ds. rewrite Ew. change (Z.to_nat 0) with 0%nat. cbn [firstn app].
    apply firstn_all_z. fold L. unfold nd'. destruct (Z.leb_spec dec_cap W0); lia. }
  rewrite Eds in *. fold L in Tlen, Tval.
  (* leading digit *)
  assert (HPpos : 0 < N * 2 ^ k) by nia.
  assert (HOpos : 0 < dval_z out2) by nia.
  assert (HLpos : 1 <= L).
  { destruct (Z.eq_dec L 0) as [E0|]; [|lia]. rewrite E0 in BO. change (10 ^ 0) with 1 in BO. lia. }
  assert (HOlb : 10 ^ (L - 1) <= dval_z out2).
  { apply (Z.mul_le_mono_pos_r _ _ (10 ^ z)); [exact Pz|].
    rewrite <- pow10_add by (unfold z; lia). rewrite Hv2.
    replace (L - 1 + z) with (j2 - 1) by (unfold z; lia). exact Hlow. }
  destruct out2 as [|d t] eqn:Eo2.
  { exfalso. change (dval_z []) with 0 in HOpos. lia. }
  assert (Hd : d <> 0).
  { apply (dval_lead_nz d t Ho2). unfold L in HOlb. rewrite zlen_cons in HOlb.
    replace (len t + 1 - 1) with (len t) in HOlb by lia. exact HOlb. }
  destruct (Tlead d t eq_refl Hd) as (t' & Ea').
  assert (Hne' : d_d a' <> []) by (rewrite Ea'; discriminate).
  split; [exact Htr0|].
  split.
  { split; [apply Tdig; apply digs_ok_rev; exact Ho2|].
    split; [lia|]. rewrite Ea'. exact Hd. }
  split; [exact Ttrim|]. split; [exact Hne'|]. split; [exact Tneg|].
  (* value *)
  destruct (scale_exists2 (dexp a) (dexp a')) as (M & HM & Ha & Ha').
  apply (shift_val_iff a a' k M HM Ha Ha').
  unfold shift_rel. rewrite (P2_nonneg k) by lia. rewrite (P2_nonpos (- k)) by lia.
  unfold dexp at 2. unfold dexp in Ha. fold nd N in Ha |- *.
  assert (Ee : d_dp a + delta - L + M = z + (d_dp a - nd + M)) by (unfold z, W0 in *; lia).
  rewrite Tval by lia. rewrite Ee. rewrite pow10_add by (unfold z; lia).
  rewrite Z.mul_1_r.
  transitivity (dval_z (d :: t) * 10 ^ z * 10 ^ (d_dp a - nd + M)); [ring|].
  rewrite Hv2. ring.
Qed.

Example leftShift_exact_ex T :
  t_leftcheats T = [(0,0,0); (1,5,1); (1,25,2); (1,125,3)] ->
  let a := {| d_d := [6;2;5]; d_dp := 0; d_neg := false; d_trunc := false |} in
  let a' := {| d_d := [5]; d_dp := 1; d_neg := false; d_trunc := false |} in
  dec_wf a /\ d_d a <> [] /\ 1 <= 3 <= 60 /\ leftShift_m T a 3 = Some a' /\ d_trunc a' = false.
Proof.
  intros H a a'. split.
  { unfold dec_wf, digs_ok. cbn [d_d a]. split; [repeat constructor; lia|].
    split; [vm_compute; discriminate|lia]. }
  split; [discriminate|]. split; [lia|]. split; [|reflexivity].
  unfold leftShift_m. rewrite H. vm_compute. reflexivity.
Qed.

(** a case where the cheat sheet takes one digit off: 0.124 * 8 = 0.992 *)
Example leftShift_exact_ex2 T :
  t_leftcheats T = [(0,0,0); (1,5,1); (1,25,2); (1,125,3)] ->
  leftShift_m T {| d_d := [1;2;4]; d_dp := 0; d_neg := true; d_trunc := false |} 3
  = Some {| d_d := [9;9;2]; d_dp := 0; d_neg := true; d_trunc := false |}.
Proof. intros H. unfold leftShift_m. rewrite H. vm_compute. reflexivity. Qed.


(** * Shift *)

(** the trunc flag is sticky *)
Lemma leftShift_mono T a k a' :
  leftShift_m T a k = Some a' -> d_trunc a = true -> d_trunc a' = true.
Proof.
  intros H Ht. unfold leftShift_m in H.
  destruct (nth (Z.to_nat k) (t_leftcheats T) (0, 0, 0)) as [[delta0 cutoff] clen].
  match type of H with (if ?c then _ else _) = _ => destruct c; [discriminate|] end.
  rewrite Ht in H.
  match type of H with context [ls_main ?rd ?k ?n ?w ?o true] =>
    destruct (ls_main rd k n w o true) as [[[n1 w1] out1] tr1] eqn:Hm end.
  apply ls_main_mono in Hm. subst tr1.
  destruct (ls_extra 64 n1 w1 out1 true) as [[[w2 out2] tr2]|] eqn:He; cbn [obind] in H; [|discriminate].
  apply ls_extra_mono in He. subst tr2.
  destruct (w2 <? 0); [discriminate|]. injection H as <-. reflexivity.
Qed.

Lemma rightShift_mono a k a' :
  rightShift_m a k = Some a' -> d_trunc a = true -> d_trunc a' = true.
Proof.
  intros H Ht. unfold rightShift_m in H.
  destruct (rs_pick (d_d a) k 0 0) as [[u|[[l r] n]]|]; cbn [obind] in H; [| |discriminate].
  - injection H as <-. exact Ht.
  - destruct (rs_main l k n []) as [n1 out1]. rewrite Ht in H.
    destruct (rs_extra 128 k n1 (len out1) out1 true) as [[out2 tr2]|] eqn:He; cbn [obind] in H; [|discriminate].
    apply rs_extra_mono in He. subst tr2. injection H as <-. reflexivity.
Qed.

Lemma shift_left_loop_mono T : forall fuel a k a',
  shift_left_loop T fuel a k = Some a' -> d_trunc a = true -> d_trunc a' = true.
Proof.
  induction fuel as [|f IH]; intros a k a' H Ht; cbn [shift_left_loop] in H.
  - destruct (maxShift <? k); [discriminate|]. eapply leftShift_mono; eassumption.
  - destruct (maxShift <? k); [|eapply leftShift_mono; eassumption].
    destruct (leftShift_m T a maxShift) as [b|] eqn:Hb; cbn [obind] in H; [|discriminate].
    eapply IH; [exact H|]. eapply leftShift_mono; eassumption.
Qed.

Lemma shift_right_loop_mono : forall fuel a k a',
  shift_right_loop fuel a k = Some a' -> d_trunc a = true -> d_trunc a' = true.
Proof.
  induction fuel as [|f IH]; intros a k a' H Ht; cbn [shift_right_loop] in H.
  - destruct (k <? - maxShift); [discriminate|]. eapply rightShift_mono; eassumption.
  - destruct (k <? - maxShift); [|eapply rightShift_mono; eassumption].
    destruct (rightShift_m a maxShift) as [b|] eqn:Hb; cbn [obind] in H; [|discriminate].
    eapply IH; [exact H|]. eapply rightShift_mono; eassumption.
Qed.

Definition shift_post (a a' : decimal) (k : Z) : Prop :=
  d_trunc a = false /\ dec_wf a' /\ dec_trimmed a' /\ d_d a' <> [] /\ d_neg a' = d_neg a /\
  shift_val a a' k.

Lemma shift_post_trans a b c k1 k2 :
  (0 <= k1 /\ 0 <= k2) \/ (k1 <= 0 /\ k2 <= 0) ->
  shift_post a b k1 -> shift_post b c k2 -> shift_post a c (k1 + k2).
Proof.
  intros Hs (A1 & A2 & A3 & A4 & A5 & A6) (B1 & B2 & B3 & B4 & B5 & B6).
  unfold shift_post. repeat split; try assumption; try congruence.
  - destruct B2 as (? & ? & ?); assumption.
  - destruct B2 as (? & ? & ?); assumption.
  - destruct B2 as (? & ? & ?); assumption.
  - eapply shift_val_trans; eassumption.
Qed.

Lemma shift_left_loop_exact T : tables_ok T -> forall fuel a k a',
  dec_wf a -> d_d a <> [] -> 1 <= k ->
  shift_left_loop T fuel a k = Some a' -> d_trunc a' = false -> shift_post a a' k.
Proof.
  intros HT. induction fuel as [|f IH]; intros a k a' Hwf Hne Hk H Htr; cbn [shift_left_loop] in H.
  - destruct (Z.ltb_spec maxShift k) as [|Hle]; [discriminate|]. unfold maxShift in Hle.
    apply (leftShift_exact T a k a'); try assumption; lia.
  - destruct (Z.ltb_spec maxShift k) as [Hgt|Hle]; unfold maxShift in *.
    2:{ apply (leftShift_exact T a k a'); try assumption; lia. }
    destruct (leftShift_m T a 60) as [b|] eqn:Hb; cbn [obind] in H; [|discriminate].
    assert (Hbt : d_trunc b = false).
    { destruct (d_trunc b) eqn:E; [|reflexivity].
      rewrite (shift_left_loop_mono T f b (k - 60) a' H E) in Htr. discriminate. }
    assert (P1 : shift_post a b 60).
    { apply (leftShift_exact T a 60 b); try assumption; lia. }
    assert (P2 : shift_post b a' (k - 60)).
    { destruct P1 as (_ & Wb & _ & Nb & _). apply IH; try assumption; lia. }
    replace k with (60 + (k - 60)) by lia.
    apply (shift_post_trans a b a'); try assumption. left; lia.
Qed.

Lemma shift_right_loop_exact : forall fuel a k a',
  dec_wf a -> d_d a <> [] -> k <= -1 ->
  shift_right_loop fuel a k = Some a' -> d_trunc a' = false -> shift_post a a' k.
Proof.
  induction fuel as [|f IH]; intros a k a' Hwf Hne Hk H Htr; cbn [shift_right_loop] in H.
  - destruct (Z.ltb_spec k (- maxShift)) as [|Hle]; [discriminate|]. unfold maxShift in Hle.
    pose proof (rightShift_exact a (- k) a' Hwf Hne ltac:(lia) H Htr) as P.
    rewrite Z.opp_involutive in P. exact P.
  - destruct (Z.ltb_spec k (- maxShift)) as [Hgt|Hle]; unfold maxShift in *.
    2:{ pose proof (rightShift_exact a (- k) a' Hwf Hne ltac:(lia) H Htr) as P.
        rewrite Z.opp_involutive in P. exact P. }
    destruct (rightShift_m a 60) as [b|] eqn:Hb; cbn [obind] in H; [|discriminate].
    assert (Hbt : d_trunc b = false).
    { destruct (d_trunc b) eqn:E; [|reflexivity].
      rewrite (shift_right_loop_mono f b (k + 60) a' H E) in Htr. discriminate. }
    assert (P1 : shift_post a b (- 60)).
    { apply (rightShift_exact a 60 b); try assumption; lia. }
    assert (P2 : shift_post b a' (k + 60)).
    { destruct P1 as (_ & Wb & _ & Nb & _). apply IH; try assumption; lia. }
    replace k with (- 60 + (k + 60)) by lia.
    apply (shift_post_trans a b a'); try assumption. right; lia.
Qed.

(** 4. Shift by k <> 0 (or by 0 on a trimmed decimal) is exact when the trunc flag stays clear *)
Theorem Shift_exact_gen T : tables_ok T -> forall a k a',
  k <> 0 \/ dec_trimmed a ->
  dec_wf a -> d_d a <> [] -> Shift_m T a k = Some a' -> d_trunc a' = false ->
  d_trunc a = false /\ dec_wf a' /\ dec_trimmed a' /\ d_d a' <> [] /\
  d_neg a' = d_neg a /\ shift_val a a' k.
Proof.
  intros HT a k a' Hk0 Hwf Hne H Htr. unfold Shift_m in H.
  assert (Hnd : (d_nd a =? 0) = false).
  { apply Z.eqb_neq. unfold d_nd. intros E. apply zlen_0 in E. congruence. }
  rewrite Hnd in H.
  destruct (Z.ltb_spec 0 k) as [Hp|Hp].
  - apply (shift_left_loop_exact T HT 64 a k a'); try assumption; lia.
  - destruct (Z.ltb_spec k 0) as [Hn|Hn].
    + apply (shift_right_loop_exact 64 a k a'); try assumption; lia.
    + assert (k = 0) by lia. subst k. injection H as <-.
      destruct Hk0 as [?|Htrim]; [congruence|].
      repeat split; try assumption; try apply Hwf. apply shift_val_refl.
Qed.

Theorem Shift_exact_nz T : tables_ok T -> forall a k a',
  k <> 0 ->
  dec_wf a -> d_d a <> [] -> Shift_m T a k = Some a' -> d_trunc a' = false ->
  d_trunc a = false /\ dec_wf a' /\ dec_trimmed a' /\ d_d a' <> [] /\
  d_neg a' = d_neg a /\ shift_val a a' k.
Proof. intros HT a k a' Hk. apply Shift_exact_gen; [exact HT|left; exact Hk]. Qed.

(** [Shift_exact_stmt] as written in FpDecDefs.v is false at k = 0: Shift returns its argument,
    which is well-formed but need not be trimmed *)
Lemma Shift_exact_stmt_false T : ~ Shift_exact_stmt T.
Proof.
  intros H.
  specialize (H {| d_d := [1; 0]; d_dp := 2; d_neg := false; d_trunc := false |} 0
                {| d_d := [1; 0]; d_dp := 2; d_neg := false; d_trunc := false |}).
  assert (W : dec_wf {| d_d := [1; 0]; d_dp := 2; d_neg := false; d_trunc := false |}).
  { unfold dec_wf, digs_ok. cbn [d_d]. split; [repeat constructor; lia|].
    split; [vm_compute; discriminate|lia]. }
  destruct (H W ltac:(discriminate) eq_refl eq_refl) as (_ & _ & Tr & _).
  unfold dec_trimmed in Tr. cbn in Tr. congruence.
Qed.

Example Shift_exact_ex T :
  t_leftcheats T = [(0,0,0); (1,5,1); (1,25,2); (1,125,3)] ->
  let a := {| d_d := [6;2;5]; d_dp := 0; d_neg := false; d_trunc := false |} in
  dec_wf a /\ d_d a <> [] /\
  Shift_m T a 3 = Some {| d_d := [5]; d_dp := 1; d_neg := false; d_trunc := false |} /\
  Shift_m T {| d_d := [5]; d_dp := 1; d_neg := false; d_trunc := false |} (-3) = Some a.
Proof.
  intros H a. split.
  { unfold dec_wf, digs_ok. cbn [d_d a]. split; [repeat constructor; lia|].
    split; [vm_compute; discriminate|lia]. }
  split; [discriminate|]. split.
  - unfold Shift_m, shift_left_loop, leftShift_m. rewrite H. vm_compute. reflexivity.
  - vm_compute. reflexivity.
Qed.

Print Assumptions trim_rev_val.
Print Assumptions rightShift_exact.
Print Assumptions leftShift_exact.
Print Assumptions Shift_exact_gen.
Print Assumptions Shift_exact_nz.
Print Assumptions Shift_exact_stmt_false.
