(** A certified simulation checker: ties a regenerated table (a [rawmachine], state numbers
    chosen by Ragel) to a small hand-written specification [machine], for all inputs at once.

    [sim_check rmI mS ss] explores, by a fuel-bounded breadth-first worklist from
    [(rm_start rmI, m_start mS)], a finite relation of control-state pairs and then CHECKS it
    ([check]); soundness depends only on the check.  [sim_pairs] returns the relation,
    [sim_diag] the first offending pair with an access path (not certified).

    Soundness: the two runs are bisimilar (same offset, error, handler calls, dst, val, and
    even the same panic / out-of-fuel outcome).  One side condition is unavoidable: a handler
    that scribbles over the shared stack array ([h_havoc]) while the machine stack is not
    empty overwrites live return states with the SAME numbers on both sides, which need not
    be related (counterexample: [sim_needs_depth0] below).  So:
      - [sim_sound_nohavoc]: no hypothesis on the machines, handlers that do not scribble;
      - [sim_sound]: arbitrary handlers and buffers, for an implementation table that passes
        [wf_check] (handlers run only on an empty machine stack). *)
From Coq Require Import List ZArith Bool Lia FSets.FMapPositive.
From Coq Require Import Strings.Byte.
From Rjson Require Import Base Helpers Machine MachineFacts Wf Safety.
Import ListNotations.
Local Open Scope Z_scope.

(** * Definitions *)

(** ** the relation as a map: impl state -> spec partners *)
Definition zkey (z : Z) : positive :=
  match z with Z0 => xH | Zpos p => xO p | Zneg p => xI p end.
Definition unkey (k : positive) : Z :=
  match k with xH => 0 | xO p => Zpos p | xI p => Zneg p end.

Definition rmap := PositiveMap.t (list Z).

Definition partners (M : rmap) (x : Z) : list Z :=
  match PositiveMap.find (zkey x) M with Some ps => ps | None => [] end.
Definition memb (M : rmap) (x y : Z) : bool := zmem y (partners M x).
Definition add_pair (M : rmap) (x y : Z) : rmap := PositiveMap.add (zkey x) (y :: partners M x) M.

(** related states: 0 (the error state) only with 0 *)
Definition relb (M : rmap) (x y : Z) : bool := if x =? 0 then y =? 0 else memb M x y.

(** ** matching of units *)
Definition errk_eqb (a b : errk) : bool :=
  match a, b with
  | EMaxDepth, EMaxDepth | EUnexpectedEOF, EUnexpectedEOF | EInvalidString, EInvalidString
  | EInvalidArray, EInvalidArray | EInvalidObject, EInvalidObject | EInvalidUInt, EInvalidUInt
  | EInvalidInt, EInvalidInt | EInvalidNumber, EInvalidNumber | ENoValidToken, ENoValidToken
  | ENotNull, ENotNull | ENotBool, ENotBool | EPOutOfRange, EPOutOfRange
  | EByteInString, EByteInString | EEOF, EEOF | EOther, EOther => true
  | EHandler t, EHandler t' => t =? t'
  | _, _ => false
  end.

(** same constructor, same non-state arguments; the dead [cs]/[brk] arguments are ignored;
    the [ret] and [target] states of UCall must be related *)
Definition unit_match (M : rmap) (u u' : unit_) : bool :=
  match u, u' with
  | UReturnErr e, UReturnErr e' => errk_eqb e e'
  | USetErr e, USetErr e' => errk_eqb e e'
  | UBreak _, UBreak _ => true
  | UBreakIfErr _, UBreakIfErr _ => true
  | UScanDec, UScanDec => true
  | UScanExp, UScanExp => true
  | UCall chk _ ret tgt, UCall chk' _ ret' tgt' => Bool.eqb chk chk' && relb M ret ret' && relb M tgt tgt'
  | URet, URet => true
  | UHandle io k, UHandle io' k' => Bool.eqb io io' && Bool.eqb k k'
  | UHandlerErrRet a, UHandlerErrRet a' => Bool.eqb a a'
  | UPPNeg _, UPPNeg _ => true
  | UPPJump sf _, UPPJump sf' _ => Bool.eqb sf sf'
  | UFieldStart, UFieldStart => true
  | UFieldEnd, UFieldEnd => true
  | USegStart, USegStart => true
  | UAppendSeg, UAppendSeg => true
  | UAppendByte b, UAppendByte b' => b =? b'
  | UUnescapeU, UUnescapeU => true
  | UNotOkRet, UNotOkRet => true
  | UAdvanceU, UAdvanceU => true
  | USetVal v, USetVal v' => Bool.eqb v v'
  | UUnknown, UUnknown => true
  | _, _ => false
  end.

Fixpoint units_match (M : rmap) (us us' : list unit_) : bool :=
  match us, us' with
  | [], [] => true
  | u :: r, u' :: r' => unit_match M u u' && units_match M r r'
  | _, _ => false
  end.

(** ** the impl transition function of one state, with the row lookup done once *)
Definition row_trans (rm : rawmachine) (rows : list (Z * Z * Z * Z)) (b : byte) : list unit_ * Z :=
  match find_row rows (bz b) with
  | None => ([UUnknown], 0)
  | Some (blk, dest) =>
    if blk =? 0 then ([], dest)
    else match assocZ blk (rm_blocks rm) with
         | Some us => (us, dest)
         | None => ([UUnknown], 0)
         end
  end.

Definition transI (rm : rawmachine) (q : Z) : byte -> list unit_ * Z :=
  match assocZ q (rm_rows rm) with
  | None => fun _ => ([UUnknown], 0)
  | Some rows => row_trans rm rows
  end.

(** ** the check *)
Definition byte_ok (M : rmap) (tI : byte -> list unit_ * Z) (mS : machine) (s : Z) (b : byte) : bool :=
  let '(usI, dI) := tI b in
  let '(usS, dS) := m_trans mS s b in
  units_match M usI usS && relb M dI dS.

Definition pair_ok (rm : rawmachine) (mS : machine) (M : rmap) (q s : Z) : bool :=
  negb (q =? 0) && negb (s =? 0) && raw_is_state rm q && m_is_state mS s
  && units_match M (raw_eof rm q) (m_eof mS s)
  && (let tI := transI rm q in forallb (byte_ok M tI mS s) all_bytes).

Definition pair_mem (x y : Z) (L : list (Z * Z)) : bool :=
  existsb (fun p : Z * Z => (fst p =? x) && (snd p =? y)) L.

(** every pair the map answers "yes" for is in the list that gets checked *)
Definition map_ok (M : rmap) (L : list (Z * Z)) : bool :=
  forallb (fun kv : positive * list Z => forallb (fun s => pair_mem (unkey (fst kv)) s L) (snd kv))
          (PositiveMap.elements M).

Definition check (rm : rawmachine) (mS : machine) (M : rmap) (L : list (Z * Z)) : bool :=
  memb M (rm_start rm) (m_start mS) && map_ok M L
  && forallb (fun p : Z * Z => pair_ok rm mS M (fst p) (snd p)) L.

(** ** exploration (breadth first; each pair carries the bytes that led to it, last first) *)
Record wst := { w_M : rmap; w_L : list (Z * Z * list Z); w_todo : list (Z * Z * list Z) }.

Definition push (w : wst) (x y : Z) (path : list Z) : wst :=
  if (x =? 0) || (y =? 0) || memb (w_M w) x y then w
  else {| w_M := add_pair (w_M w) x y; w_L := (x, y, path) :: w_L w; w_todo := w_todo w ++ [(x, y, path)] |}.

Fixpoint call_pairs (us us' : list unit_) : list (Z * Z) :=
  match us, us' with
  | UCall _ _ r t :: a, UCall _ _ r' t' :: b => (r, r') :: (t, t') :: call_pairs a b
  | _ :: a, _ :: b => call_pairs a b
  | _, _ => []
  end.

Definition expand (rm : rawmachine) (mS : machine) (w : wst) (q s : Z) (path : list Z) : wst :=
  let tI := transI rm q in
  fold_left (fun w b =>
    let '(usI, dI) := tI b in
    let '(usS, dS) := m_trans mS s b in
    let path' := bz b :: path in
    fold_left (fun w xy => push w (fst xy) (snd xy) path') ((dI, dS) :: call_pairs usI usS) w)
    all_bytes w.

Fixpoint explore (rm : rawmachine) (mS : machine) (fuel : nat) (w : wst) : wst :=
  match fuel with
  | O => w
  | S f =>
    match w_todo w with
    | [] => w
    | (q, s, path) :: t =>
      explore rm mS f (expand rm mS {| w_M := w_M w; w_L := w_L w; w_todo := t |} q s path)
    end
  end.

(** [ss] is only a fuel hint: at most (1 + #impl states) * (2 + |ss|) pairs are expanded *)
Definition sim_fuel (rm : rawmachine) (ss : list Z) : nat :=
  ((1 + length (rm_rows rm)) * (2 + length ss))%nat.

Definition sim_explore (rm : rawmachine) (mS : machine) (ss : list Z) : wst :=
  explore rm mS (sim_fuel rm ss)
          (push {| w_M := PositiveMap.empty _; w_L := []; w_todo := [] |} (rm_start rm) (m_start mS) []).

Definition strip (L : list (Z * Z * list Z)) : list (Z * Z) := map (fun t => (fst (fst t), snd (fst t))) L.

Definition sim_pairs (rm : rawmachine) (mS : machine) (ss : list Z) : list (Z * Z) :=
  rev (strip (w_L (sim_explore rm mS ss))).

Definition sim_check (rm : rawmachine) (mS : machine) (ss : list Z) : bool :=
  let w := sim_explore rm mS ss in
  check rm mS (w_M w) (strip (w_L w)).

(** ** diagnosis (not certified): [Some (path, q, s, b)]: the pair (q, s), reached from the start
    pair by reading the bytes [path] (for a pair found through a UCall: the bytes leading to
    the calling transition), disagrees at byte [b]; b = -1: the eof units differ; b = -2: one of
    the two is 0 or not a state; b = -3 (q, s = start pair): the exploration did not finish
    (fuel) or the start pair is unusable. *)
Definition sim_diag (rm : rawmachine) (mS : machine) (ss : list Z) : option (list Z * Z * Z * Z) :=
  let w := sim_explore rm mS ss in
  let M := w_M w in
  let bad (t : Z * Z * list Z) : option (list Z * Z * Z * Z) :=
      let '(q, s, path) := t in
      if negb (negb (q =? 0) && negb (s =? 0) && raw_is_state rm q && m_is_state mS s)
      then Some (rev path, q, s, -2)
      else if negb (units_match M (raw_eof rm q) (m_eof mS s)) then Some (rev path, q, s, -1)
      else match find (fun b => negb (byte_ok M (transI rm q) mS s b)) all_bytes with
           | Some b => Some (rev path, q, s, bz b)
           | None => None
           end in
  let fix first (l : list (Z * Z * list Z)) : option (list Z * Z * Z * Z) :=
      match l with
      | [] => None
      | t :: r => match bad t with Some d => Some d | None => first r end
      end in
  match first (rev (w_L w)) with
  | Some d => Some d
  | None => if sim_check rm mS ss then None else Some ([], rm_start rm, m_start mS, -3)
  end.

(** * Soundness *)
Lemma zb_bz : forall b, zb (bz b) = b.
Proof. destruct b; reflexivity. Qed.

Lemma all_bytes_complete : forall b, In b all_bytes.
Proof.
  intros b. unfold all_bytes. rewrite <- (zb_bz b). pose proof (bz_range b) as R.
  apply in_map_iff. exists (Z.to_nat (bz b)). split.
  - rewrite Z2Nat.id by lia. reflexivity.
  - apply in_seq. lia.
Qed.

Lemma transI_eq : forall rm q b, transI rm q b = raw_trans rm q b.
Proof.
  intros rm q b. unfold transI, raw_trans, row_trans.
  destruct (assocZ q (rm_rows rm)); reflexivity.
Qed.

Lemma errk_eqb_eq : forall a b, errk_eqb a b = true -> a = b.
Proof.
  intros a b H. destruct a, b; try discriminate; try reflexivity.
  cbn in H. apply Z.eqb_eq in H. subst. reflexivity.
Qed.

Lemma unkey_zkey : forall z, unkey (zkey z) = z.
Proof. destruct z; reflexivity. Qed.

Lemma pair_mem_In : forall x y L, pair_mem x y L = true -> In (x, y) L.
Proof.
  intros x y L H. unfold pair_mem in H. apply existsb_exists in H.
  destruct H as ([a b] & I & E). cbn in E. apply andb_true_iff in E. destruct E as [E1 E2].
  apply Z.eqb_eq in E1, E2. subst. exact I.
Qed.

Lemma zmem_In : forall x l, zmem x l = true -> In x l.
Proof.
  intros x l H. unfold zmem in H. apply existsb_exists in H. destruct H as (y & I & E).
  apply Z.eqb_eq in E. subst. exact I.
Qed.

(** configurations: equal except for the state numbers held in the stack array *)
Definition T (Rel0 : Z -> Z -> Prop) (s1 s2 : st) : Prop :=
  s2 = set_stk s1 (s_top s1) (s_cap s1) (s_live s2) (s_junk s2) /\
  Forall2 Rel0 (s_live s1) (s_live s2) /\ length (s_junk s1) = length (s_junk s2).

Definition ures_sim (Rel0 : Z -> Z -> Prop) (r1 r2 : ures) : Prop :=
  match r1, r2 with
  | RCont a, RCont b => T Rel0 a b
  | RGoto a d, RGoto b d' => Rel0 d d' /\ T Rel0 a b
  | ROut a, ROut b => T Rel0 a b
  | RRet p e a, RRet p' e' b => p = p' /\ e = e' /\ T Rel0 a b
  | RPanic k, RPanic k' => k = k'
  | _, _ => False
  end.

Definition o_sim (Rel0 : Z -> Z -> Prop) (o1 o2 : outcome) : Prop :=
  match o1, o2 with
  | ODone p e a, ODone p' e' b => p = p' /\ e = e' /\ T Rel0 a b
  | OPanic k, OPanic k' => k = k'
  | OOutOfFuel, OOutOfFuel => True
  | _, _ => False
  end.

Definition sres_sim (Rel Rel0 : Z -> Z -> Prop) (r1 r2 : sres) : Prop :=
  match r1, r2 with
  | SDone o1, SDone o2 => o_sim Rel0 o1 o2
  | SNext q a, SNext s b => Rel q s /\ T Rel0 a b
  | _, _ => False
  end.

Lemma T_fields : forall Rel0 s1 s2, T Rel0 s1 s2 ->
  s_p s1 = s_p s2 /\ s_err s1 = s_err s2 /\ s_calls s1 = s_calls s2 /\ s_dst s1 = s_dst s2 /\ s_val s1 = s_val s2.
Proof.
  intros Rel0 s1 s2 (E & _). rewrite E. cbn. auto.
Qed.

Lemma o_sim_obs : forall Rel0 o1 o2, o_sim Rel0 o1 o2 -> obs o1 = obs o2.
Proof.
  intros Rel0 [p e a|k|] [p' e' b|k'|] H; cbn in H; try contradiction; subst; auto.
  destruct H as (-> & -> & HT). destruct (T_fields _ _ _ HT) as (_ & _ & E3 & E4 & E5).
  cbn. rewrite E3, E4, E5. reflexivity.
Qed.

Lemma same_len_app : forall (j1 j2 z : list Z), length j1 = length j2 ->
  (j1 ++ z = [] /\ j2 ++ z = []) \/
  (exists x a y b, j1 ++ z = x :: a /\ j2 ++ z = y :: b /\ length a = length b).
Proof.
  intros [|x a] [|y b] z H; try discriminate.
  - destruct z as [|c z]; [left; auto|right]. exists c, z, c, z. auto.
  - right. exists x, (a ++ z), y, (b ++ z). cbn. split; auto. split; auto.
    rewrite !app_length. cbn in H. lia.
Qed.

Lemma same_len_plain : forall (j1 j2 : list Z), length j1 = length j2 ->
  (j1 = [] /\ j2 = []) \/ (exists x a y b, j1 = x :: a /\ j2 = y :: b /\ length a = length b).
Proof.
  intros [|x a] [|y b] H; try discriminate; [left; auto|right].
  exists x, a, y, b. cbn in H. auto.
Qed.

Section Bisim.
  Variable rmI : rawmachine.
  Variable mS : machine.
  Variable M : rmap.
  Variable L : list (Z * Z).
  Hypothesis CHK : check rmI mS M L = true.

  Definition Rel (x y : Z) : Prop := memb M x y = true.
  Definition Rel0 (x y : Z) : Prop := relb M x y = true.

  Lemma Rel_pair_ok : forall q s, Rel q s -> pair_ok rmI mS M q s = true.
  Proof.
    intros q s H. unfold check in CHK. apply andb_true_iff in CHK. destruct CHK as [C1 C3].
    apply andb_true_iff in C1. destruct C1 as [_ C2].
    unfold Rel, memb, partners in H.
    destruct (PositiveMap.find (zkey q) M) as [ps|] eqn:F; [|discriminate].
    apply PositiveMap.elements_correct in F.
    unfold map_ok in C2. rewrite forallb_forall in C2. specialize (C2 _ F). cbn [fst snd] in C2.
    rewrite forallb_forall in C2. specialize (C2 _ (zmem_In _ _ H)).
    rewrite unkey_zkey in C2. apply pair_mem_In in C2.
    rewrite forallb_forall in C3. exact (C3 _ C2).
  Qed.

  Lemma Rel_facts : forall q s, Rel q s ->
    q <> 0 /\ s <> 0 /\ raw_is_state rmI q = true /\ m_is_state mS s = true /\
    units_match M (raw_eof rmI q) (m_eof mS s) = true /\
    (forall b, byte_ok M (raw_trans rmI q) mS s b = true).
  Proof.
    intros q s H. pose proof (Rel_pair_ok _ _ H) as P. unfold pair_ok in P.
    apply andb_true_iff in P. destruct P as [P PB].
    apply andb_true_iff in P. destruct P as [P PE].
    apply andb_true_iff in P. destruct P as [P PS].
    apply andb_true_iff in P. destruct P as [P PI].
    apply andb_true_iff in P. destruct P as [PQ PN].
    apply negb_true_iff in PQ. apply Z.eqb_neq in PQ.
    apply negb_true_iff in PN. apply Z.eqb_neq in PN.
    repeat split; auto.
    intros b. rewrite forallb_forall in PB. specialize (PB b (all_bytes_complete b)).
    unfold byte_ok in *. rewrite transI_eq in PB. exact PB.
  Qed.

  Lemma Rel0_cases : forall x y, Rel0 x y -> (x = 0 /\ y = 0) \/ (x <> 0 /\ Rel x y).
  Proof.
    intros x y H. unfold Rel0, relb in H. destruct (x =? 0) eqn:E.
    - apply Z.eqb_eq in E. apply Z.eqb_eq in H. auto.
    - apply Z.eqb_neq in E. right. auto.
  Qed.

  Variable md : Z.
  Variable data : list byte.
  Variable h : handler.
  Notation pe := (len data).
  (** [NH]: "the handler never scribbles" (True or False, chosen by the two theorems) *)
  Variable NH : Prop.
  Hypothesis HNH : NH -> forall calls, h_havoc (h calls) = [].

  Ltac tfin := cbn [ures_sim brk]; unfold T; cbn; auto 10.

  Lemma unit_sim : forall u u' s1 s2,
    unit_match M u u' = true -> T Rel0 s1 s2 ->
    (is_handle u = true -> s_live s1 = [] \/ NH) ->
    ures_sim Rel0 (exec_unit md data h pe u s1) (exec_unit md data h pe u' s2).
  Proof.
    intros u u' [p1 e1 t1 c1 l1 j1 pp1 fs1 fe1 sg1 d1 ub1 ok1 v1 cl1]
               [p2 e2 t2 c2 l2 j2 pp2 fs2 fe2 sg2 d2 ub2 ok2 v2 cl2] HM (E & F & J) HC.
    cbn in E, F, J. inversion E; subst. clear E.
    destruct u, u'; cbn [unit_match] in HM; try discriminate; cbn [exec_unit]; sc.
    - (* UReturnErr *) apply errk_eqb_eq in HM. subst. tfin.
    - (* USetErr *) apply errk_eqb_eq in HM. subst. tfin.
    - (* UBreak *) tfin.
    - (* UBreakIfErr *) destruct e1; tfin.
    - (* UScanDec *) destruct (skipFloatDec data (p1 + 1)). tfin.
    - (* UScanExp *) destruct (skipFloatExp data (p1 + 1)). tfin.
    - (* UCall *)
      apply andb_true_iff in HM. destruct HM as [HM R2]. apply andb_true_iff in HM. destruct HM as [R0 R1].
      apply eqb_prop in R0. subst depth_check0.
      destruct (depth_check && (t1 =? md)); [tfin|].
      destruct (t1 + 1 >=? c1).
      + destruct (1 + t1 - c1 <? 0); [reflexivity|].
        destruct (same_len_app j1 j2 (zrepeat (Z.to_nat (1 + t1 - c1))) J) as [(-> & ->)|(x & a & y & b & -> & -> & LL)].
        * reflexivity.
        * cbn [ures_sim]. split; [exact R2|]. unfold T; cbn. auto 10.
      + destruct (same_len_plain j1 j2 J) as [(-> & ->)|(x & a & y & b & -> & -> & LL)].
        * reflexivity.
        * cbn [ures_sim]. split; [exact R2|]. unfold T; cbn. auto 10.
    - (* URet *)
      inversion F; subst; [reflexivity|]. cbn [ures_sim]. split; auto. unfold T; cbn. auto 10.
    - (* UHandle *)
      apply andb_true_iff in HM. destruct HM as [R0 R1]. apply eqb_prop in R0, R1. subst.
      destruct (if is_obj0 then slice data (fs1 + 1) (fe1 - 1) else Some []) as [key|]; [|reflexivity].
      destruct ((0 <=? p1) && (p1 <=? pe)); [|reflexivity].
      destruct (h_havoc (h ({| c_p := p1; c_key := key; c_obj := is_obj0 |} :: cl1))) as [|z hv] eqn:HV.
      + destruct keep_pp0; tfin.
      + destruct (HC eq_refl) as [L0|N]; [|rewrite (HNH N) in HV; discriminate].
        subst l1. inversion F; subst.
        destruct keep_pp0; cbn [ures_sim]; unfold T, s_stack; cbn [s_live s_junk s_top s_cap set_stk set_pp set_err set_calls rev app length firstn skipn];
          (split; [reflexivity|split; [constructor|]]); rewrite !overwrite_length; exact J.
    - (* UHandlerErrRet *) apply eqb_prop in HM. subst. destruct e1; tfin.
    - (* UPPNeg *) destruct (pp1 <? 0); tfin.
    - (* UPPJump *) apply eqb_prop in HM. subst. destruct (pp1 =? 0); [tfin|].
      destruct (if safe0 then _ else _); tfin.
    - (* UFieldStart *) tfin.
    - (* UFieldEnd *) tfin.
    - (* USegStart *) tfin.
    - (* UAppendSeg *) destruct (slice data sg1 p1); [tfin|reflexivity].
    - (* UAppendByte *) apply Z.eqb_eq in HM. subst. tfin.
    - (* UUnescapeU *) destruct ((0 <=? sg1) && (sg1 <=? pe)); [|reflexivity].
      destruct (unescapeUnicodeChar (skipn (Z.to_nat sg1) data) d1) as [[d n] ok]. tfin.
    - (* UNotOkRet *) destruct ok1; [tfin|]. destruct (get data p1); [tfin|reflexivity].
    - (* UAdvanceU *) destruct (ub1 >? 6); tfin.
    - (* USetVal *) apply eqb_prop in HM. subst. tfin.
    - (* UUnknown *) reflexivity.
  Qed.

  Lemma units_sim : forall us us' s1 s2,
    units_match M us us' = true -> T Rel0 s1 s2 ->
    (existsb is_handle us = true -> s_live s1 = [] \/ NH) ->
    ures_sim Rel0 (exec_units md data h pe us s1) (exec_units md data h pe us' s2).
  Proof.
    induction us as [|u r IH]; intros [|u' r'] s1 s2 HM HT HC; cbn [units_match] in HM; try discriminate.
    - cbn. exact HT.
    - apply andb_true_iff in HM. destruct HM as [HU HR]. cbn [existsb] in HC.
      assert (HCu : is_handle u = true -> s_live s1 = [] \/ NH).
      { intros E. apply HC. rewrite E. reflexivity. }
      pose proof (unit_sim u u' s1 s2 HU HT HCu) as U. cbn [exec_units].
      destruct (exec_unit md data h pe u s1) as [a|a d|a|p e a|k] eqn:X1;
      destruct (exec_unit md data h pe u' s2) as [b|b d'|b|p' e' b|k'] eqn:X2; cbn [ures_sim] in U |- *; auto; try contradiction.
      apply IH; auto. intros E.
      assert (E' : is_handle u || existsb is_handle r = true) by (rewrite E; apply orb_true_r).
      destruct (HC E') as [L0|N]; [left|right; exact N].
      rewrite (unit_live _ _ _ _ _ _ X1); auto.
  Qed.

  (** eof lists of the impl call the handler only if the handler does not scribble *)
  Hypothesis EOFC : forall q, existsb is_handle (raw_eof rmI q) = true -> NH.

  Lemma eof_sim : forall q s s1 s2, Rel q s -> T Rel0 s1 s2 ->
    o_sim Rel0 (eof_phase md (of_raw rmI) data h pe q s1) (eof_phase md mS data h pe s s2).
  Proof.
    intros q s s1 s2 HR HT. destruct (Rel_facts _ _ HR) as (_ & _ & _ & _ & HE & _).
    unfold eof_phase. cbn [m_eof of_raw].
    assert (HC : existsb is_handle (raw_eof rmI q) = true -> s_live s1 = [] \/ NH) by (intros E; right; eauto).
    pose proof (units_sim _ _ _ _ HE HT HC) as U.
    destruct (exec_units md data h pe (raw_eof rmI q) s1) as [a|a d|a|p e a|k];
    destruct (exec_units md data h pe (m_eof mS s) s2) as [b|b d'|b|p' e' b|k']; cbn [ures_sim o_sim] in U |- *; auto; try contradiction.
    - destruct (T_fields _ _ _ U) as (E1 & E2 & _). auto.
    - destruct (T_fields _ _ _ U) as (E1 & E2 & _). auto.
    - destruct U as (-> & -> & U). auto.
  Qed.

  Lemma T_set_p : forall s1 s2 v, T Rel0 s1 s2 -> T Rel0 (set_p s1 v) (set_p s2 v).
  Proof.
    intros s1 s2 v (E & F & J). unfold T; cbn. split; auto. rewrite E at 1. reflexivity.
  Qed.

  Lemma goto_sim : forall a b d d', Rel0 d d' -> T Rel0 a b ->
    sres_sim Rel Rel0 (goto_step md (of_raw rmI) data h pe a d) (goto_step md mS data h pe b d').
  Proof.
    intros a b d d' HD HT. unfold goto_step. destruct (T_fields _ _ _ HT) as (E1 & E2 & _).
    destruct (Rel0_cases _ _ HD) as [(-> & ->)|(N & HR)].
    - cbn. auto.
    - destruct (Rel_facts _ _ HR) as (_ & N' & I1 & I2 & _).
      apply Z.eqb_neq in N, N'. rewrite N, N'. cbn [m_is_state of_raw]. rewrite I1, I2. cbn [negb].
      cbn [s_p set_p]. rewrite <- E1. destruct (s_p a + 1 =? pe).
      + cbn [sres_sim]. exact (eof_sim d d' _ _ HR (T_set_p _ _ (s_p a + 1) HT)).
      + cbn [sres_sim]. split; auto. apply T_set_p; auto.
  Qed.

  Lemma step_sim : forall q s s1 s2, Rel q s -> T Rel0 s1 s2 ->
    (forall b us d, get data (s_p s1) = Some b -> raw_trans rmI q b = (us, d) ->
                    existsb is_handle us = true -> s_live s1 = [] \/ NH) ->
    sres_sim Rel Rel0 (step md (of_raw rmI) data h pe q s1) (step md mS data h pe s s2).
  Proof.
    intros q s s1 s2 HR HT HH. unfold step. destruct (T_fields _ _ _ HT) as (E1 & _). rewrite <- E1.
    destruct (get data (s_p s1)) as [b|] eqn:GB; [|reflexivity].
    destruct (Rel_facts _ _ HR) as (_ & _ & _ & _ & _ & HB). specialize (HB b). unfold byte_ok in HB.
    cbn [m_trans of_raw]. destruct (raw_trans rmI q b) as [usI dI] eqn:TR.
    destruct (m_trans mS s b) as [usS dS].
    apply andb_true_iff in HB. destruct HB as [HU HD].
    pose proof (units_sim usI usS s1 s2 HU HT (HH _ _ _ eq_refl TR)) as U.
    destruct (exec_units md data h pe usI s1) as [a|a d|a|p e a|k];
    destruct (exec_units md data h pe usS s2) as [b'|b' d'|b'|p' e' b'|k']; cbn [ures_sim] in U; try contradiction.
    - apply goto_sim; auto.
    - destruct U as (U1 & U2). apply goto_sim; auto.
    - destruct (T_fields _ _ _ U) as (F1 & F2 & _). cbn. auto.
    - destruct U as (-> & -> & U). cbn. auto.
    - cbn. exact U.
  Qed.

  (** an invariant of the impl run that keeps handlers at depth 0 (or [NH]) *)
  Variable J : Z -> st -> Prop.
  Hypothesis Jstep : forall q s, J q s ->
    match step md (of_raw rmI) data h pe q s with SNext q' s' => J q' s' | SDone _ => True end.
  Hypothesis Jhandle : forall q s b us d, J q s -> raw_trans rmI q b = (us, d) ->
    existsb is_handle us = true -> s_live s = [] \/ NH.

  Lemma run_sim : forall f q s s1 s2, Rel q s -> T Rel0 s1 s2 -> J q s1 ->
    obs (run md (of_raw rmI) data h pe f q s1) = obs (run md mS data h pe f s s2).
  Proof.
    induction f as [|f IH]; intros q s s1 s2 HR HT HJ; [reflexivity|].
    rewrite !run_step.
    pose proof (Jstep _ _ HJ) as JS.
    assert (HH : forall b us d, get data (s_p s1) = Some b -> raw_trans rmI q b = (us, d) ->
                 existsb is_handle us = true -> s_live s1 = [] \/ NH).
    { intros b us d _ TR EH. eapply Jhandle; eauto. }
    pose proof (step_sim q s s1 s2 HR HT HH) as S.
    destruct (step md (of_raw rmI) data h pe q s1) as [o1|q1 a];
    destruct (step md mS data h pe s s2) as [o2|q2 b]; cbn [sres_sim] in S; try contradiction.
    - eapply o_sim_obs; eauto.
    - destruct S as (HR' & HT'). apply IH; auto.
  Qed.

  Lemma prun_sim : forall stack dst,
    (0 <> pe -> J (rm_start rmI) (init_st stack dst)) ->
    obs (prun md (of_raw rmI) data h stack dst) = obs (prun md mS data h stack dst).
  Proof.
    intros stack dst J0. unfold prun. cbn [m_start of_raw].
    assert (HR : Rel (rm_start rmI) (m_start mS)).
    { unfold check in CHK. apply andb_true_iff in CHK. destruct CHK as [C _].
      apply andb_true_iff in C. destruct C as [C _]. exact C. }
    assert (HT : T Rel0 (init_st stack dst) (init_st stack dst)).
    { unfold T, init_st; cbn. auto. }
    destruct (0 =? pe) eqn:E.
    - eapply o_sim_obs. apply eof_sim; auto.
    - apply Z.eqb_neq in E. apply run_sim; auto.
  Qed.
End Bisim.

(** * The theorems *)

(** No hypothesis on the two machines; handlers that do not scribble over the stack array
    (any buffer contents, any offsets, any errors).  Both runs end with the same observation,
    including the same panic or out-of-fuel outcome. *)
Theorem sim_sound_nohavoc : forall rmI mS ss, sim_check rmI mS ss = true ->
  forall md data h stack dst,
  (forall calls, h_havoc (h calls) = []) ->
  obs (prun md (of_raw rmI) data h stack dst) = obs (prun md mS data h stack dst).
Proof.
  intros rmI mS ss C md data h stack dst NHV. unfold sim_check in C.
  eapply (prun_sim rmI mS _ _ C md data h True (fun _ => NHV) (fun _ _ => I) (fun _ _ => True)).
  - intros q s _. destruct (step md (of_raw rmI) data h (len data) q s); exact I.
  - intros. right. exact I.
  - intros _. exact I.
Qed.

(** Arbitrary handlers (scribbling, re-entrant) and arbitrary buffers, for an implementation
    table that passes [wf_check] (so that handlers run only on an empty machine stack). *)
Theorem sim_sound_gen : forall rmI mS ss, sim_check rmI mS ss = true -> wf_check rmI = true ->
  forall md data h stack dst, len_ok rmI data ->
  obs (prun md (of_raw rmI) data h stack dst) = obs (prun md mS data h stack dst).
Proof.
  intros rmI mS ss C W md data h stack dst LO. unfold sim_check in C.
  pose proof (wf_check_all _ W) as HA. pose proof (len_ok_hyp _ _ LO) as HL.
  destruct (chk_parts _ _ HA) as (_ & _ & _ & _ & _ & _ & _ & _ & _ & _ & EK).
  eapply (prun_sim rmI mS _ _ C md data h False (fun F => match F with end)
            (fun q E => _) (fun q s => Inv rmI (compute_ann rmI) data h q s /\ s_p s < len data)).
  - intros q s (I0 & P). pose proof (step_sound rmI _ md data h HL HA q s I0 P) as S.
    destruct (step md (of_raw rmI) data h (len data) q s); [exact I|]. destruct S as (S1 & S2 & _). auto.
  - intros q s b us d (I0 & _) TR EH. left. eapply handle_main; eauto.
  - intros NE. split; [apply Inv_init; auto|]. cbn. pose proof (len_nonneg data). lia.
  Unshelve. rewrite (eof_no_handle rmI EK q) in E. discriminate.
Qed.

Theorem sim_sound : forall rmI mS ss, sim_check rmI mS ss = true -> wf_check rmI = true ->
  forall md data h stack dst, len data <= maxint ->
  obs (prun md (of_raw rmI) data h stack dst) = obs (prun md mS data h stack dst).
Proof. intros. eapply sim_sound_gen; eauto. left; auto. Qed.

(** the form used to transport language-level theorems: the spec machine only ever has to be
    run with a nil buffer and a handler that leaves the array alone *)
Theorem sim_sound_spec_nil : forall rmI mS ss, sim_check rmI mS ss = true -> wf_check rmI = true ->
  forall md data h stack dst, len data <= maxint ->
  obs (prun md (of_raw rmI) data h stack dst) = obs (prun md mS data (nohavoc h) [] dst).
Proof.
  intros rmI mS ss C W md data h stack dst LO.
  rewrite (buffer_irrelevant_gen rmI md data h stack dst W (or_introl LO)).
  apply (sim_sound_nohavoc rmI mS ss C). intros calls. reflexivity.
Qed.

(** * Tests *)
Definition renum_unit (f : Z -> Z) (u : unit_) : unit_ :=
  match u with UCall c b r t => UCall c b (f r) (f t) | _ => u end.

(** the same table with renumbered states *)
Definition renum (f : Z -> Z) (rm : rawmachine) : rawmachine :=
  {| rm_start := f (rm_start rm); rm_first_final := f (rm_first_final rm);
     rm_rows := map (fun qr => (f (fst qr),
                   map (fun r : Z * Z * Z * Z => match r with (lo, hi, blk, d) => (lo, hi, blk, f d) end) (snd qr)))
                   (rm_rows rm);
     rm_blocks := map (fun bu => (fst bu, map (renum_unit f) (snd bu))) (rm_blocks rm);
     rm_eof := map (fun qe => (f (fst qe), snd qe)) (rm_eof rm);
     rm_has_stack := rm_has_stack rm; rm_skel_ok := rm_skel_ok rm; rm_frame_ok := rm_frame_ok rm;
     rm_entries := map f (rm_entries rm) |}.

Definition f7 (q : Z) : Z := if q =? 0 then 0 else q * 100 + 7.

(** (1a) [tiny_raw] (Safety.v) against itself with renumbered states: accepted *)
Definition tiny_spec : machine := of_raw (renum f7 tiny_raw).

Example sim_tiny_ok :
  sim_check tiny_raw tiny_spec [] = true /\
  sim_pairs tiny_raw tiny_spec [] = [(1, 107); (3, 307); (2, 207); (4, 407)] /\
  sim_diag tiny_raw tiny_spec [] = None.
Proof. vm_compute. auto. Qed.

(** (1b) one transition changed in the spec (state 4 goes to the error state on byte 99):
    rejected, and the diagnosis names the pair, the byte and a path *)
Definition tiny_bad_raw : rawmachine :=
  {| rm_start := 1; rm_first_final := 4;
     rm_rows := [(1, [(0, 255, 2, 0)]); (2, [(0, 255, 3, 0)]); (3, [(0, 255, 1, 4)]);
                 (4, [(0, 98, 0, 4); (99, 99, 0, 0); (100, 255, 0, 4)])];
     rm_blocks := rm_blocks tiny_raw; rm_eof := rm_eof tiny_raw;
     rm_has_stack := true; rm_skel_ok := true; rm_frame_ok := true; rm_entries := [1; 2] |}.
Definition tiny_bad_spec : machine := of_raw (renum f7 tiny_bad_raw).

Example sim_tiny_bad :
  sim_check tiny_raw tiny_bad_spec [] = false /\
  sim_diag tiny_raw tiny_bad_spec [] = Some ([0; 0], 4, 407, 99).
Proof. vm_compute. auto. Qed.

(** the theorem applies to the accepted pair *)
Example sim_tiny_sound : forall md data h stack dst, len data <= maxint ->
  obs (prun md (of_raw tiny_raw) data h stack dst) = obs (prun md tiny_spec data h stack dst).
Proof.
  intros md data h stack dst H.
  apply (sim_sound tiny_raw tiny_spec []); [vm_compute; reflexivity|exact tiny_wf|exact H].
Qed.

(** Why [sim_sound] needs "handlers only on an empty machine stack": a table that calls the
    handler inside a sub-machine, its renumbered copy, and a handler that scribbles the number
    2 over stack[0].  The check accepts the pair, but the impl pops 2 (one of its states) and
    goes on, while the spec pops 2 (not one of its states) and stops with PBadState. *)
Definition cx_raw : rawmachine :=
  {| rm_start := 1; rm_first_final := 3;
     rm_rows := [(1, [(0, 255, 1, 0)]); (2, [(0, 255, 2, 0)]); (3, [(0, 255, 0, 3)])];
     rm_blocks := [(1, [UCall false 0 3 2]); (2, [UHandle false false; URet])];
     rm_eof := []; rm_has_stack := true; rm_skel_ok := true; rm_frame_ok := true; rm_entries := [1] |}.
Definition f10 (q : Z) : Z := if q =? 0 then 0 else q + 10.
Definition cx_spec : machine := of_raw (renum f10 cx_raw).
Definition h_scribble : handler := fun _ => {| h_pp := 0; h_err := None; h_havoc := [2] |}.

Example sim_needs_depth0 :
  sim_check cx_raw cx_spec [] = true /\ wf_check cx_raw = false /\
  obs (prun 0 (of_raw cx_raw) [x00; x00; x00] h_scribble [] []) = ObsPanic PStack /\
  obs (prun 0 cx_spec [x00; x00; x00] h_scribble [] []) = ObsPanic PBadState.
Proof. vm_compute. auto. Qed.

Print Assumptions sim_sound_nohavoc.
Print Assumptions sim_sound_gen.
Print Assumptions sim_sound.
Print Assumptions sim_sound_spec_nil.
