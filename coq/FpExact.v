(** FpExact.v -- the exact path: atof64exact_m answers round_ne (m * 10^e) (C04 layer 3). *)
From Coq Require Import List ZArith Lia Bool.
From Coq Require Import Strings.Byte.
From Rjson Require Import Base Helpers Round Fp FpSpec FpTables.
Import ListNotations.
Local Open Scope Z_scope.

(** * More facts about the rounding specification *)

Lemma is_ilog2_scale n d c e : 0 < c -> is_ilog2 (n * c) (d * c) e <-> is_ilog2 n d e.
Proof.
  intros Hc. unfold is_ilog2. pose proof (P2_pos e). pose proof (P2_pos (- e)).
  split; intros [A B]; split; nia.
Qed.

(** nearest-even is stable under a common factor *)
Lemma is_rne_scale n d c m : 0 < c -> is_rne n d m -> is_rne (n * c) (d * c) m.
Proof.
  intros Hc. unfold is_rne.
  replace (m * (d * c) - n * c) with ((m * d - n) * c) by ring.
  rewrite Z.abs_mul, (Z.abs_eq c) by lia. intros [H|[H E]]; [left|right; split; [|exact E]]; nia.
Qed.

(** rounding depends on the fraction only *)
Lemma round_pos_scale n d c : 0 < n -> 0 < d -> 0 < c -> round_pos (n * c) (d * c) = round_pos n d.
Proof.
  intros Hn Hd Hc.
  pose proof (ilog2_spec n d Hn Hd) as He.
  set (e := ilog2 n d) in *. set (E := Z.max e (-1022)).
  pose proof (P2_pos (52 - E)). pose proof (P2_pos (E - 52)).
  assert (Hd' : 0 < d * P2 (E - 52)) by nia.
  pose proof (rne_div_spec (n * P2 (52 - E)) (d * P2 (E - 52)) Hd') as HM.
  set (M := rne_div (n * P2 (52 - E)) (d * P2 (E - 52))) in *.
  rewrite (round_pos_eq (n * c) (d * c) e M); [| nia | nia | apply is_ilog2_scale; assumption | ].
  - rewrite (round_pos_eq n d e M Hn Hd He HM). reflexivity.
  - fold E. replace (n * c * P2 (52 - E)) with (n * P2 (52 - E) * c) by ring.
    replace (d * c * P2 (E - 52)) with (d * P2 (E - 52) * c) by ring.
    apply is_rne_scale; assumption.
Qed.

(** round_ne depends on the fraction only (common factor) *)
Lemma round_ne_scale neg n d c : 0 <= n -> 0 < d -> 0 < c -> round_ne neg (n * c) (d * c) = round_ne neg n d.
Proof.
  intros Hn Hd Hc. unfold round_ne.
  destruct (Z.leb_spec n 0) as [Hz|Hp].
  - assert (n = 0) by lia. subst n. rewrite Z.mul_0_l. reflexivity.
  - destruct (Z.leb_spec (n * c) 0); [nia|]. rewrite round_pos_scale by assumption. reflexivity.
Qed.

(** equal fractions round alike *)
Lemma round_ne_frac_eq neg n1 d1 n2 d2 :
  0 <= n1 -> 0 < d1 -> 0 <= n2 -> 0 < d2 -> n1 * d2 = n2 * d1 -> round_ne neg n1 d1 = round_ne neg n2 d2.
Proof.
  intros. rewrite <- (round_ne_scale neg n1 d1 d2), <- (round_ne_scale neg n2 d2 d1) by assumption.
  f_equal; [assumption|ring].
Qed.

(** the sign only sets the top bit *)
Lemma round_ne_sign neg n d :
  round_ne neg n d = ((if neg then sign_bit else 0) + fst (round_ne false n d), snd (round_ne false n d)).
Proof.
  unfold round_ne. destruct (n <=? 0); cbn [fst snd]; [rewrite Z.add_0_r; reflexivity|].
  destruct (inf_bits <=? round_pos n d); cbn [fst snd]; rewrite ?Z.add_0_l; reflexivity.
Qed.

(** values below 2^1000 round to a finite pattern *)
Lemma round_pos_lt_inf n d : 0 < n -> 0 < d -> n < 2 ^ 1000 * d -> round_pos n d < inf_bits.
Proof.
  intros Hn Hd Hlt.
  pose proof (round_pos_mono n d (2 ^ 1000) 1 Hn Hd ltac:(lia) ltac:(lia) ltac:(lia)) as Hm.
  assert (round_pos (2 ^ 1000) 1 < inf_bits) by (vm_compute; reflexivity). lia.
Qed.

(** integers K * 2^s with K < 2^53 are exactly representable *)
Lemma round_pos_exact n K s :
  n = K * 2 ^ s -> 0 < K < two53 -> 0 <= s ->
  ival (round_pos n 1) = n * 2 ^ 1074.
Proof.
  intros Hn HK Hs.
  assert (Ps : 0 < 2 ^ s) by (apply Z.pow_pos_nonneg; lia).
  assert (Hn0 : 0 < n) by nia.
  destruct (round_pos_mant n 1 Hn0 ltac:(lia)) as (Hb & HM & Hnorm & Hsub).
  pose proof (ilog2_spec n 1 Hn0 ltac:(lia)) as He.
  set (e := ilog2 n 1) in *.
  assert (He0 : 0 <= e).
  { destruct (Z_le_gt_dec 0 e) as [|G]; [assumption|exfalso].
    destruct He as [_ He2]. rewrite (P2_nonpos e), (P2_nonneg (- e)) in He2 by lia.
    assert (2 ^ 1 <= 2 ^ (- e)) by (apply Z.pow_le_mono_r; lia). change (2 ^ 1) with 2 in *. nia. }
  unfold binade in *. fold e in Hb, HM, Hnorm, Hsub.
  rewrite Z.max_l in * by lia.
  set (M := rne_div (n * P2 (52 - e)) (1 * P2 (e - 52))) in *.
  rewrite Hb, ival_pattern; [|lia|assumption|intros; apply Hnorm; lia].
  destruct He as [He1 He2]. rewrite (P2_nonneg e), (P2_nonpos (- e)) in He1, He2 by lia.
  destruct (Z_le_gt_dec e 52) as [Hle|Hgt].
  - assert (EM : M = n * 2 ^ (52 - e)).
    { subst M. rewrite (P2_nonneg (52 - e)), (P2_nonpos (e - 52)) by lia.
      replace (1 * 1) with 1 by lia.
      rewrite <- (Z.mul_1_r (n * 2 ^ (52 - e))) at 1. apply rne_div_exact. lia. }
    rewrite EM. rewrite <- Z.mul_assoc, <- Z.pow_add_r by lia. do 2 f_equal. lia.
  - (* 2^(e-52) divides n *)
    assert (Hse : e - 52 <= s).
    { destruct (Z_le_gt_dec (e - 52) s) as [|G]; [assumption|exfalso].
      (* n = K 2^s < 2^53 2^s <= 2^53 2^(e-53) = 2^e <= n *)
      assert (2 ^ s * 2 ^ 53 <= 2 ^ e).
      { rewrite <- Z.pow_add_r by lia. apply Z.pow_le_mono_r; lia. }
      change two53 with (2 ^ 53) in HK. nia. }
    assert (EM : M = K * 2 ^ (s - (e - 52))).
    { subst M. rewrite (P2_nonpos (52 - e)), (P2_nonneg (e - 52)) by lia.
      rewrite Z.mul_1_r, Z.mul_1_l.
      replace n with (K * 2 ^ (s - (e - 52)) * 2 ^ (e - 52)).
      - apply rne_div_exact. apply Z.pow_pos_nonneg; lia.
      - rewrite Hn, <- Z.mul_assoc, <- Z.pow_add_r by lia. do 2 f_equal. lia. }
    rewrite EM, Hn. rewrite <- !Z.mul_assoc, <- !Z.pow_add_r by lia. do 2 f_equal. lia.
Qed.

(** * Patterns below the sign bit *)

Lemma sign_bit_pos : 0 < sign_bit. Proof. reflexivity. Qed.
(** the pattern of +Inf is below the sign bit *)
Lemma inf_lt_sign : inf_bits < sign_bit. Proof. reflexivity. Qed.

(** magnitude of a non-negative pattern *)
Lemma f_abs_small b : 0 <= b < sign_bit -> f_abs b = b.
Proof. intros. unfold f_abs. apply Z.mod_small; assumption. Qed.
(** sign of a non-negative pattern *)
Lemma f_neg_small b : 0 <= b < sign_bit -> f_neg b = false.
Proof. intros. unfold f_neg. apply Z.leb_gt. lia. Qed.
(** magnitude of a negative pattern *)
Lemma f_abs_signed b : 0 <= b < sign_bit -> f_abs (sign_bit + b) = b.
Proof.
  intros. unfold f_abs. replace (sign_bit + b) with (b + 1 * sign_bit) by lia.
  rewrite Z_mod_plus_full. apply Z.mod_small; assumption.
Qed.
(** sign of a negative pattern *)
Lemma f_neg_signed b : 0 <= b < sign_bit -> f_neg (sign_bit + b) = true.
Proof. intros. unfold f_neg. apply Z.leb_le. lia. Qed.
(** negation sets the sign bit of a non-negative pattern *)
Lemma f_opp_small b : 0 <= b < sign_bit -> f_opp b = sign_bit + b.
Proof. intros. unfold f_opp. destruct (Z.leb_spec sign_bit b); lia. Qed.

Definition sgn (neg : bool) : Z := if neg then sign_bit else 0.

(** magnitude of sgn neg + b *)
Lemma f_abs_sgn neg b : 0 <= b < sign_bit -> f_abs (sgn neg + b) = b.
Proof. intros. destruct neg; cbn [sgn]; [apply f_abs_signed|rewrite Z.add_0_l; apply f_abs_small]; assumption. Qed.
(** sign of sgn neg + b *)
Lemma f_neg_sgn neg b : 0 <= b < sign_bit -> f_neg (sgn neg + b) = neg.
Proof. intros. destruct neg; cbn [sgn]; [apply f_neg_signed|rewrite Z.add_0_l; apply f_neg_small]; assumption. Qed.

(** the unsigned rounding of a fraction below 2^1000: a finite pattern *)
Lemma round_false_small n d :
  0 <= n -> 0 < d -> n < 2 ^ 1000 * d ->
  let r := fst (round_ne false n d) in
  0 <= r < inf_bits /\ snd (round_ne false n d) = false /\ (0 < n -> r = round_pos n d) /\ (n = 0 -> r = 0).
Proof.
  intros Hn Hd Hlt. unfold round_ne. destruct (Z.leb_spec n 0) as [Hz|Hp]; cbn [fst snd].
  - repeat split; first [lia | vm_compute; reflexivity].
  - pose proof (round_pos_lt_inf n d Hp Hd Hlt). pose proof (round_pos_nonneg n d Hp Hd).
    destruct (Z.leb_spec inf_bits (round_pos n d)); [lia|]. cbn [fst snd]. repeat split; lia.
Qed.

(** a pattern [f] holds the real number [a] exactly *)
Definition holds (f a : Z) : Prop := 0 <= f < inf_bits /\ ival f = a * 2 ^ 1074 /\ 0 <= a.

(** one correctly rounded multiplication of exact operands *)
Lemma f_mul_exact neg f p a q :
  holds f a -> holds p q ->
  f_mul (sgn neg + f) p = fst (round_ne neg (a * q) 1).
Proof.
  intros (Hf & Hfa & Ha) (Hp & Hpq & Hq). pose proof inf_lt_sign.
  unfold f_mul. rewrite f_abs_sgn, f_neg_sgn, f_abs_small, f_neg_small by lia.
  rewrite xorb_false_r, Hfa, Hpq.
  replace (a * 2 ^ 1074 * (q * 2 ^ 1074)) with ((a * q) * two2148) by (unfold two2148; change (2 ^ 2148) with (2 ^ 1074 * 2 ^ 1074); ring).
  rewrite <- (Z.mul_1_l two2148) at 2.
  rewrite round_ne_scale; [reflexivity|nia|lia|reflexivity].
Qed.

(** one correctly rounded division of exact operands *)
Lemma f_div_exact neg f p a q :
  holds f a -> holds p q -> 0 < q ->
  f_div (sgn neg + f) p = fst (round_ne neg a q).
Proof.
  intros (Hf & Hfa & Ha) (Hp & Hpq & Hq) Hq0. pose proof inf_lt_sign.
  unfold f_div. rewrite f_abs_sgn, f_neg_sgn, f_abs_small, f_neg_small by lia.
  rewrite xorb_false_r, Hfa, Hpq.
  rewrite round_ne_scale; [reflexivity|lia|lia|]. apply Z.pow_pos_nonneg; lia.
Qed.

(** integers below 2^53 convert exactly *)
Lemma holds_int n : 0 <= n < two53 -> holds (fst (round_ne false n 1)) n.
Proof.
  intros Hn. assert (n < 2 ^ 1000 * 1) by (assert (two53 < 2 ^ 1000) by reflexivity; lia).
  destruct (round_false_small n 1 ltac:(lia) ltac:(lia) H) as (Hr & _ & Hpos & Hzero).
  split; [exact Hr|]. split; [|lia].
  destruct (Z.eq_dec n 0) as [->|Hnz].
  - rewrite Hzero by reflexivity. reflexivity.
  - rewrite Hpos by lia. apply (round_pos_exact n n 0); lia.
Qed.

(** * Table lookups *)

Lemma nth_zrange n : forall lo (i : nat) d, (i < n)%nat -> nth i (zrange lo n) d = lo + Z.of_nat i.
Proof.
  induction n as [|n IH]; intros lo i d Hi; [lia|]. destruct i as [|i]; cbn [zrange nth]; [lia|].
  rewrite IH by lia. lia.
Qed.

(** membership in an integer range *)
Lemma In_zrange n : forall lo k, lo <= k < lo + Z.of_nat n -> In k (zrange lo n).
Proof.
  induction n as [|n IH]; intros lo k Hk; [lia|]. cbn [zrange].
  destruct (Z.eq_dec k lo) as [->|Hne]; [left; reflexivity|right; apply IH; lia].
Qed.

(** the powers of ten up to 10^22 are exactly representable (23 closed computations) *)
Lemma pow10_holds k : 0 <= k <= 22 -> holds (f_pow10 k) (10 ^ k).
Proof.
  intros Hk.
  assert (H : forallb (fun k => (0 <=? f_pow10 k) && (f_pow10 k <? inf_bits) && (ival (f_pow10 k) =? 10 ^ k * 2 ^ 1074)) (zrange 0 23) = true)
    by (vm_compute; reflexivity).
  rewrite forallb_forall in H. specialize (H k (In_zrange 23 0 k ltac:(lia))).
  apply andb_true_iff in H as [H H3]. apply andb_true_iff in H as [H1 H2].
  apply Z.leb_le in H1. apply Z.ltb_lt in H2. apply Z.eqb_eq in H3.
  split; [lia|]. split; [assumption|]. apply Z.pow_nonneg; lia.
Qed.

(** with correct tables, float64pow10[i] is the constant 1e<i> *)
Lemma f64pow10_at_ok T i : tables_ok T -> 0 <= i <= 22 -> f64pow10_at T i = f_pow10 i.
Proof.
  intros HT Hi. destruct (tables_ok_facts T HT) as [_ _ _ _ Hf _ _ _ _ _ _ _].
  unfold f64pow10_at. rewrite Hf, nth_zrange by lia. f_equal. lia.
Qed.

(** ival is monotone (non-strict form) *)
Lemma ival_mono_le a b : 0 <= a -> a <= b -> ival a <= ival b.
Proof.
  intros Ha Hab. destruct (Z.eq_dec a b) as [->|Hne]; [lia|].
  pose proof (ival_mono a b Ha ltac:(lia)). lia.
Qed.

(** * atof64exact *)

Section Exact.
Variable T : fp_tables.
Hypothesis HT : tables_ok T.
Variables (m : Z) (neg : bool).
Hypothesis Hm53 : 0 <= m < two52.

Let f0 := fst (round_ne false m 1).

(** float64(m) holds m exactly for m < 2^52 *)
Lemma ex_f0 : holds f0 m.
Proof. apply holds_int. unfold two53, two52 in *. lia. Qed.

(** below 2^1000 the rounding does not overflow *)
Lemma ex_fin n d : 0 <= n -> 0 < d -> n < 2 ^ 1000 * d ->
  round_ne neg n d = (fst (round_ne neg n d), false).
Proof.
  intros Hn Hd Hlt. rewrite (round_ne_sign neg n d). cbn [fst snd].
  destruct (round_false_small n d Hn Hd Hlt) as (_ & Hs & _). rewrite Hs. reflexivity.
Qed.

(** m * 10^k stays below 2^1000 for k <= 37 *)
Lemma ex_big k : 0 <= k <= 37 -> m * 10 ^ k < 2 ^ 1000 * 1.
Proof.
  intros Hk. assert (10 ^ k <= 10 ^ 37) by (apply Z.pow_le_mono_r; lia).
  assert (two52 * 10 ^ 37 < 2 ^ 1000) by reflexivity.
  assert (0 < 10 ^ k) by (apply Z.pow_pos_nonneg; lia).
  remember (2 ^ 1000) as W. remember (10 ^ 37) as V. remember (10 ^ k) as U. nia.
Qed.

(** f * 10^e in one rounding, 0 <= e <= 22 *)
Lemma ex_mul_small e : 0 <= e <= 22 ->
  round_ne neg (m * 10 ^ e) 1 = (f_mul (sgn neg + f0) (f64pow10_at T e), false).
Proof.
  intros He. rewrite (f64pow10_at_ok T e HT ltac:(lia)).
  rewrite (f_mul_exact neg f0 (f_pow10 e) m (10 ^ e) ex_f0 (pow10_holds e ltac:(lia))).
  apply ex_fin; [|lia|apply ex_big; lia].
  assert (0 < 10 ^ e) by (apply Z.pow_pos_nonneg; lia). nia.
Qed.

(** the guard |f| <= c bounds the magnitude of f (c a variable: keeps closed float constants
    away from the kernel's evaluator) *)
Lemma guard_bound_gen c C r :
  holds c C -> 0 <= r < inf_bits ->
  f_lt c (sgn neg + r) || f_lt (sgn neg + r) (f_opp c) = false ->
  ival r <= C * 2 ^ 1074.
Proof.
  intros (HCr & HCv & _) Hr Hguard. apply orb_false_iff in Hguard as [G1 G2].
  pose proof inf_lt_sign as HIS.
  unfold f_lt, f_sval in G1, G2. rewrite f_opp_small in G2 by lia.
  rewrite f_abs_sgn, f_neg_sgn in G1, G2 by lia.
  rewrite f_abs_small, f_neg_small in G1 by lia.
  rewrite f_abs_signed, f_neg_signed in G2 by lia.
  rewrite HCv in G1, G2. apply Z.ltb_ge in G1. apply Z.ltb_ge in G2.
  remember (C * 2 ^ 1074) as CC. destruct neg; lia.
Qed.

(** the guard against the constant 1e15 *)
Lemma guard_bound r :
  0 <= r < inf_bits ->
  f_lt f_1e15 (sgn neg + r) || f_lt (sgn neg + r) (f_opp f_1e15) = false ->
  ival r <= 10 ^ 15 * 2 ^ 1074.
Proof. intros Hr. apply (guard_bound_gen f_1e15 (10 ^ 15) r); [apply pow10_holds; lia|exact Hr]. Qed.

(** an integer that rounds to at most 1e15 is at most 1e15 *)
Lemma le_1e15 n : 0 < n -> n < 2 ^ 1000 -> ival (round_pos n 1) <= 10 ^ 15 * 2 ^ 1074 -> n <= 10 ^ 15.
Proof.
  intros Hn Hlt Hival. destruct (Z_le_gt_dec n (10 ^ 15)) as [|G]; [assumption|exfalso].
  pose proof (round_pos_mono (10 ^ 15 + 1) 1 n 1 ltac:(lia) ltac:(lia) ltac:(lia) ltac:(lia) ltac:(lia)) as Hmono.
  assert (Hpos15 : 0 <= round_pos (10 ^ 15 + 1) 1) by (apply round_pos_nonneg; lia).
  pose proof (ival_mono_le _ _ Hpos15 Hmono) as Hi.
  assert (E : ival (round_pos (10 ^ 15 + 1) 1) = (10 ^ 15 + 1) * 2 ^ 1074) by (vm_compute; reflexivity).
  assert (0 < 2 ^ 1074) by (apply Z.pow_pos_nonneg; lia).
  rewrite E in Hi. remember (2 ^ 1074) as W. lia.
Qed.

(** 22 < e <= 37: pre-multiplication by 10^(e-22), exact when the guard passes, then one rounding *)
Lemma ex_mul_big e : 22 < e <= 37 ->
  let f1 := f_mul (sgn neg + f0) (f64pow10_at T (e - 22)) in
  f_lt f_1e15 f1 || f_lt f1 (f_opp f_1e15) = false ->
  round_ne neg (m * 10 ^ e) 1 = (f_mul f1 (f64pow10_at T 22), false).
Proof.
  intros He f1. subst f1.
  rewrite (f64pow10_at_ok T (e - 22) HT ltac:(lia)), (f64pow10_at_ok T 22 HT ltac:(lia)).
  rewrite (f_mul_exact neg f0 (f_pow10 (e - 22)) m (10 ^ (e - 22)) ex_f0 (pow10_holds (e - 22) ltac:(lia))).
  set (n1 := m * 10 ^ (e - 22)).
  assert (Pk : 0 < 10 ^ (e - 22)) by (apply Z.pow_pos_nonneg; lia).
  assert (Hn1 : 0 <= n1) by (subst n1; nia).
  rewrite (round_ne_sign neg n1 1). cbn [fst]. fold (sgn neg).
  pose proof (ex_big (e - 22) ltac:(lia)) as Hb1. fold n1 in Hb1.
  destruct (round_false_small n1 1 Hn1 ltac:(lia) Hb1) as (Hr1 & _ & Hr1pos & Hr1zero).
  set (r1 := fst (round_ne false n1 1)) in *.
  intros Hguard.
  assert (Hn1le : n1 <= 10 ^ 15).
  { destruct (Z.eq_dec n1 0) as [->|Hnz]; [lia|].
    apply le_1e15; [lia|lia|]. rewrite <- Hr1pos by lia.
    apply (guard_bound r1); [exact Hr1|exact Hguard]. }
  assert (Hh1 : holds r1 n1).
  { apply holds_int. assert (10 ^ 15 < two53) by reflexivity. lia. }
  rewrite (f_mul_exact neg r1 (f_pow10 22) n1 (10 ^ 22) Hh1 (pow10_holds 22 ltac:(lia))).
  assert (Heq : n1 * 10 ^ 22 = m * 10 ^ e).
  { subst n1. rewrite <- Z.mul_assoc, <- Z.pow_add_r by lia. do 2 f_equal. lia. }
  rewrite Heq. apply ex_fin; [|lia|apply ex_big; lia].
  assert (0 < 10 ^ e) by (apply Z.pow_pos_nonneg; lia). nia.
Qed.

(** f / 10^k in one rounding, 1 <= k <= 22 *)
Lemma ex_div k : 1 <= k <= 22 ->
  round_ne neg m (10 ^ k) = (f_div (sgn neg + f0) (f64pow10_at T k), false).
Proof.
  intros Hk. rewrite (f64pow10_at_ok T k HT ltac:(lia)).
  assert (Pk : 0 < 10 ^ k) by (apply Z.pow_pos_nonneg; lia).
  rewrite (f_div_exact neg f0 (f_pow10 k) m (10 ^ k) ex_f0 (pow10_holds k ltac:(lia)) Pk).
  apply ex_fin; [lia|lia|].
  assert (two52 < 2 ^ 1000) by reflexivity. remember (2 ^ 1000) as W. nia.
Qed.

(** the integer case: float64(m) with the sign *)
Lemma ex_int : round_ne neg m 1 = (sgn neg + f0, false).
Proof.
  rewrite (round_ne_sign neg m 1). cbn [fst snd]. fold (sgn neg). fold f0.
  destruct (round_false_small m 1 ltac:(lia) ltac:(lia)) as (_ & Hs & _).
  { assert (two52 < 2 ^ 1000) by reflexivity. remember (2 ^ 1000) as W. lia. }
  rewrite Hs. reflexivity.
Qed.

(** the first two statements of atof64exact: conversion and sign *)
Lemma ex_start : (if neg then f_opp (f_of_u64 m) else f_of_u64 m) = sgn neg + f0.
Proof.
  unfold f_of_u64. fold f0. destruct ex_f0 as (Hr & _). pose proof inf_lt_sign.
  destruct neg; cbn [sgn]; [apply f_opp_small; lia|lia].
Qed.
End Exact.

(** when atof64exact_m answers, the answer is the correctly rounded m * 10^e, without overflow *)
Theorem atof64exact_correct T m e neg b :
  tables_ok T -> 0 <= m -> atof64exact_m T m e neg = Some b ->
  round_ne neg (m * P10 e) (P10 (- e)) = (b, false).
Proof.
  intros HT Hm. destruct (tables_ok_facts T HT) as [_ _ _ _ _ _ _ _ _ Hmb _ _].
  unfold atof64exact_m. rewrite Hmb.
  destruct (Z.eqb_spec (m / 2 ^ 52) 0) as [Hsmall|]; cbn [negb]; [|discriminate].
  assert (Hm52 : 0 <= m < two52).
  { change two52 with (2 ^ 52). apply Z.div_small_iff in Hsmall; lia. }
  rewrite (ex_start m neg Hm52).
  destruct (Z.eqb_spec e 0) as [->|He0].
  - intros Hb. injection Hb as <-. change (P10 0) with 1. change (P10 (- 0)) with 1. rewrite Z.mul_1_r.
    apply ex_int; assumption.
  - destruct ((0 <? e) && (e <=? 15 + 22)) eqn:Hpos.
    + apply andb_true_iff in Hpos as [Hp1 Hp2]. apply Z.ltb_lt in Hp1. apply Z.leb_le in Hp2.
      assert (E1 : P10 e = 10 ^ e) by (unfold P10; rewrite Z.max_l by lia; reflexivity).
      assert (E2 : P10 (- e) = 1) by (unfold P10; rewrite Z.max_r by lia; reflexivity).
      rewrite E1, E2.
      destruct (Z.ltb_spec 22 e) as [Hgt|Hle].
      * destruct (f_lt f_1e15 _ || f_lt _ (f_opp f_1e15)) eqn:Hguard; [discriminate|].
        intros Hb. injection Hb as <-.
        apply (ex_mul_big T HT m neg Hm52 e ltac:(lia) Hguard).
      * destruct (f_lt f_1e15 _ || f_lt _ (f_opp f_1e15)); [discriminate|].
        intros Hb. injection Hb as <-. apply ex_mul_small; [assumption|assumption|lia].
    + destruct ((e <? 0) && (-22 <=? e)) eqn:Hneg; [|discriminate].
      apply andb_true_iff in Hneg as [Hn1 Hn2]. apply Z.ltb_lt in Hn1. apply Z.leb_le in Hn2.
      intros Hb. injection Hb as <-.
      assert (E1 : P10 e = 1) by (unfold P10; rewrite Z.max_r by lia; reflexivity).
      assert (E2 : P10 (- e) = 10 ^ (- e)) by (unfold P10; rewrite Z.max_l by lia; reflexivity).
      rewrite E1, E2, Z.mul_1_r. apply ex_div; [assumption|assumption|lia].
Qed.

(** the hypotheses are satisfiable: 123e5, 5e-22, and the guarded pre-multiplication 1e37 *)
Example atof64exact_ex T : tables_ok T ->
  atof64exact_m T 123 5 false = Some 4712865122819768320 /\
  atof64exact_m T 1 37 true <> None.
Proof.
  intros HT. unfold atof64exact_m. destruct (tables_ok_facts T HT) as [_ _ _ _ Hf _ _ _ _ Hmb _ _].
  unfold f64pow10_at. rewrite Hmb, Hf. split; [vm_compute; reflexivity|vm_compute; discriminate].
Qed.
Print Assumptions atof64exact_correct.
