(** The computable well-formedness check [wf_check] on translator output.  Definitions
    only; soundness ([Safety.v]) depends only on the CHECKS below being true for the
    annotation table, never on how [compute_ann] found the table.

    Ingredients (each a named boolean so that a failing one can be reported by name, see
    [wf_ingredients]):
      chk_flags   rm_skel_ok && rm_frame_ok
      chk_start   the start state is annotated CMain and its annotation holds initially
      chk_struct  every annotated state is a non-zero state of the table whose rows cover
                  the bytes 0..255
      chk_blocks  every block id used by a row of an annotated state exists
      chk_unknown no UUnknown in any reachable block
      chk_consts  no constant [EHandler _] in USetErr/UReturnErr
      chk_cls     class closure (CMain/CSub), URet only in CSub, handler units only in CMain
      chk_hnd     handler template: UHandle at the dispatch position, immediately followed
                  by UHandlerErrRet, then (if pp is kept) UPPNeg, UPPJump true; nothing that
                  needs p >= 0 after a jump; no fall-through to state 0 after a jump;
                  progress: successors of a jumping row contain no UPPJump
      chk_key     object-key dataflow: UHandle true only with fs+2 <= fe <= p known
      chk_seg     segment dataflow: UAppendSeg/UUnescapeU only with 0 <= seg <= p known,
                  UAdvanceU only with p - seg <= 5 known and after UUnescapeU
      chk_eof     eof units of reachable states: only USetErr/UBreak(after USetErr)/UBreakIfErr/
                  UReturnErr/UAppendSeg(with seg known)/UAppendByte/USetVal
      chk_eofk    every eof list of the table uses only those unit kinds *)
From Coq Require Import List ZArith Bool.
From Coq Require Strings.String.
From Coq Require Import Strings.Byte.
From Rjson Require Import Base Helpers Machine.
Import ListNotations.
Local Open Scope Z_scope.

(** ** Blocks *)
Definition get_block (rm : rawmachine) (blk : Z) : option (list unit_) :=
  if blk =? 0 then Some [] else assocZ blk (rm_blocks rm).

(** how the executed part of a block ends, statically *)
Inductive bend :=
| BFall                       (* falls through to the row destination *)
| BCallTo (ret tgt : Z)       (* UCall: goto tgt (or break on the depth test) *)
| BRet                        (* URet *)
| BExit.                      (* UReturnErr / UBreak *)

Definition unit_ends (u : unit_) : bool :=
  match u with
  | UReturnErr _ | UBreak _ | UCall _ _ _ _ | URet => true
  | _ => false
  end.

Fixpoint block_end (us : list unit_) : bend :=
  match us with
  | [] => BFall
  | u :: r =>
    match u with
    | UCall _ _ ret tgt => BCallTo ret tgt
    | URet => BRet
    | UReturnErr _ | UBreak _ => BExit
    | _ => block_end r
    end
  end.

(** abstract run of a block up to (and including) its first terminator; [None] = rejected *)
Fixpoint arun {A : Type} (step : unit_ -> A -> option A) (us : list unit_) (a : A) : option A :=
  match us with
  | [] => Some a
  | u :: r =>
    match step u a with
    | None => None
    | Some a' => if unit_ends u then Some a' else arun step r a'
    end
  end.

(** ** Classes *)
Inductive class := CMain | CSub.
Definition class_eqb (a b : class) : bool :=
  match a, b with CMain, CMain | CSub, CSub => true | _, _ => false end.

Definition unit_cls_ok (c : class) (u : unit_) : bool :=
  match u with
  | URet => class_eqb c CSub
  | UHandle _ _ | UHandlerErrRet _ | UPPNeg _ | UPPJump _ _ => class_eqb c CMain
  | _ => true
  end.

(** ** Handler template / position domain *)
Inductive hphase :=
| HNone                      (* no handler answer pending *)
| HCalled (keep : bool)      (* just after UHandle: err and pp unchecked *)
| HChecked                   (* after UHandlerErrRet, pp kept: err = nil, pp unchecked *)
| HNeg.                      (* after UPPNeg: pp >= 0 *)

Record hst := { h_ph : hphase; h_moved : bool; h_jumped : bool }.
Definition hinit : hst := {| h_ph := HNone; h_moved := false; h_jumped := false |}.

Definition ph_none (a : hst) : bool := match h_ph a with HNone => true | _ => false end.

Definition hnd_step (u : unit_) (a : hst) : option hst :=
  match h_ph a with
  | HCalled keep =>
    match u with
    | UHandlerErrRet _ => Some {| h_ph := if keep then HChecked else HNone; h_moved := h_moved a; h_jumped := h_jumped a |}
    | _ => None
    end
  | HChecked =>
    match u with
    | UPPNeg _ => Some {| h_ph := HNeg; h_moved := h_moved a; h_jumped := h_jumped a |}
    | _ => None
    end
  | HNeg =>
    match u with
    | UPPJump true _ => Some {| h_ph := HNone; h_moved := true; h_jumped := true |}
    | _ => None
    end
  | HNone =>
    match u with
    | UReturnErr _ | USetErr _ | UBreak _ | UBreakIfErr _ | UCall _ _ _ _ | URet
    | UAppendSeg | UAppendByte _ | UUnescapeU | USetVal _ => Some a
    | UScanDec | UScanExp | UAdvanceU =>
      if h_jumped a then None else Some {| h_ph := HNone; h_moved := true; h_jumped := false |}
    | UFieldStart | UFieldEnd | USegStart | UNotOkRet =>
      if h_jumped a then None else Some a
    | UHandle _ keep =>
      if h_moved a || h_jumped a then None
      else Some {| h_ph := HCalled keep; h_moved := false; h_jumped := false |}
    | UHandlerErrRet _ | UPPNeg _ | UPPJump _ _ | UUnknown => None
    end
  end.

Definition is_ppjump (u : unit_) : bool := match u with UPPJump _ _ => true | _ => false end.

(** ** Object-key domain: [k_lb = Some n]: 0 <= fs and fs + n <= p;  [k_fe]: 0 <= fs, fs+2 <= fe <= p *)
Record kst := { k_lb : option Z; k_fe : bool }.
Definition key_top : kst := {| k_lb := None; k_fe := false |}.
Definition key_init : kst := {| k_lb := Some 0; k_fe := false |}.

Definition key_step (u : unit_) (k : kst) : option kst :=
  match u with
  | UFieldStart => Some {| k_lb := Some 0; k_fe := false |}
  | UFieldEnd => Some {| k_lb := k_lb k; k_fe := match k_lb k with Some n => 2 <=? n | None => false end |}
  | UPPJump _ _ => Some key_top
  | UHandle true _ => if k_fe k then Some k else None
  | _ => Some k
  end.

(** the [p++] of the state label *)
Definition key_incr (k : kst) : kst :=
  {| k_lb := match k_lb k with Some n => Some (Z.min (n + 1) 2) | None => None end; k_fe := k_fe k |}.

(** [key_le a b]: a implies b *)
Definition key_le (a b : kst) : bool :=
  match k_lb b with
  | None => true
  | Some m => match k_lb a with Some n => m <=? n | None => false end
  end && implb (k_fe b) (k_fe a).

Definition key_meet (a b : kst) : kst :=
  {| k_lb := match k_lb a, k_lb b with Some n, Some m => Some (Z.min n m) | _, _ => None end;
     k_fe := k_fe a && k_fe b |}.

(** ** Segment domain: [g_ok]: 0 <= seg <= p; [g_ub = Some n]: p - seg <= n;
       [g_u] (inside a block only): ub <= 6 \/ (ub = 12 /\ seg + 12 <= pe) *)
Record gst := { g_ok : bool; g_ub : option Z; g_u : bool }.
Definition seg_top : gst := {| g_ok := false; g_ub := None; g_u := false |}.
Definition seg_init : gst := {| g_ok := true; g_ub := Some 0; g_u := false |}.

Definition seg_step (u : unit_) (g : gst) : option gst :=
  match u with
  | USegStart => Some {| g_ok := true; g_ub := Some 0; g_u := false |}
  | UAppendSeg => if g_ok g then Some g else None
  | UUnescapeU => if g_ok g then Some {| g_ok := true; g_ub := g_ub g; g_u := true |} else None
  | UAdvanceU =>
    match g_ub g with
    | Some n => if g_u g && (n <=? 5) then Some {| g_ok := g_ok g; g_ub := None; g_u := g_u g |} else None
    | None => None
    end
  | UScanDec | UScanExp => Some {| g_ok := g_ok g; g_ub := None; g_u := g_u g |}
  | UPPJump _ _ => Some {| g_ok := false; g_ub := None; g_u := g_u g |}
  | _ => Some g
  end.

Definition seg_incr (g : gst) : gst :=
  {| g_ok := g_ok g;
     g_ub := match g_ub g with Some n => if n + 1 <=? 5 then Some (n + 1) else None | None => None end;
     g_u := false |}.

Definition seg_start (g : gst) : gst := {| g_ok := g_ok g; g_ub := g_ub g; g_u := false |}.

Definition seg_le (a b : gst) : bool :=
  implb (g_ok b) (g_ok a) &&
  match g_ub b with
  | None => true
  | Some m => match g_ub a with Some n => n <=? m | None => false end
  end.

Definition seg_meet (a b : gst) : gst :=
  {| g_ok := g_ok a && g_ok b;
     g_ub := match g_ub a, g_ub b with Some n, Some m => Some (Z.max n m) | _, _ => None end;
     g_u := false |}.

(** ** Annotations *)
Record ann := { a_cls : class; a_key : kst; a_seg : gst }.
Definition anntab := list (Z * ann).

Definition cls_is (A : anntab) (q : Z) (c : class) : bool :=
  match assocZ q A with Some a => class_eqb (a_cls a) c | None => false end.

Definition optZ_eqb (a b : option Z) : bool :=
  match a, b with Some x, Some y => x =? y | None, None => true | _, _ => false end.

Definition ann_eqb (a b : ann) : bool :=
  class_eqb (a_cls a) (a_cls b)
  && optZ_eqb (k_lb (a_key a)) (k_lb (a_key b)) && Bool.eqb (k_fe (a_key a)) (k_fe (a_key b))
  && Bool.eqb (g_ok (a_seg a)) (g_ok (a_seg b)) && optZ_eqb (g_ub (a_seg a)) (g_ub (a_seg b)).

Definition ann_meet (a b : ann) : ann :=
  {| a_cls := a_cls a; a_key := key_meet (a_key a) (a_key b); a_seg := seg_meet (a_seg a) (a_seg b) |}.

(** ** Computing an annotation table (worklist; only the checks below matter for soundness) *)
Definition succs (rm : rawmachine) (q : Z) (a : ann) : list (Z * ann) :=
  match assocZ q (rm_rows rm) with
  | None => []
  | Some rows =>
    flat_map (fun row : Z * Z * Z * Z =>
      let '(_, _, blk, dest) := row in
      match get_block rm blk with
      | None => []
      | Some us =>
        let k' := match arun key_step us (a_key a) with Some k => k | None => key_top end in
        let g' := match arun seg_step us (seg_start (a_seg a)) with Some g => g | None => seg_top end in
        match block_end us with
        | BFall => if dest =? 0 then []
                   else [(dest, {| a_cls := a_cls a; a_key := key_incr k'; a_seg := seg_incr g' |})]
        | BCallTo ret tgt =>
          [(tgt, {| a_cls := CSub; a_key := key_incr k'; a_seg := seg_incr g' |});
           (ret, {| a_cls := a_cls a; a_key := key_top; a_seg := seg_top |})]
        | _ => []
        end
      end) rows
  end.

Definition ann_update (q : Z) (n : ann) (A : anntab) : anntab :=
  map (fun kv : Z * ann => if fst kv =? q then (q, n) else kv) A.

Fixpoint work (rm : rawmachine) (fuel : nat) (todo : list (Z * ann)) (A : anntab) : anntab :=
  match fuel with
  | O => A
  | S f =>
    match todo with
    | [] => A
    | (q, a) :: t =>
      match assocZ q A with
      | None => work rm f (succs rm q a ++ t) ((q, a) :: A)
      | Some old =>
        let n := ann_meet old a in
        if ann_eqb n old then work rm f t A
        else work rm f (succs rm q n ++ t) (ann_update q n A)
      end
    end
  end.

Definition ann_start : ann := {| a_cls := CMain; a_key := key_init; a_seg := seg_init |}.

Definition total_rows (rm : rawmachine) : nat :=
  fold_right (fun qr n => (length (snd qr) + n)%nat) O (rm_rows rm).

Definition compute_ann (rm : rawmachine) : anntab :=
  work rm (64 * (S (total_rows rm))) [(rm_start rm, ann_start)] [].

(** ** The checks *)
Definition not_handler_errk (e : errk) : bool := match e with EHandler _ => false | _ => true end.

Definition unit_const_ok (u : unit_) : bool :=
  match u with
  | USetErr e | UReturnErr e => not_handler_errk e
  | _ => true
  end.

Definition not_unknown (u : unit_) : bool := match u with UUnknown => false | _ => true end.

Definition is_some {A} (o : option A) : bool := match o with Some _ => true | None => false end.

Definition rows_cover (rows : list (Z * Z * Z * Z)) : bool :=
  forallb (fun n => is_some (find_row rows (Z.of_nat n))) (seq 0 256).

(** iterate a row predicate over all rows of all annotated states *)
Definition for_rows (rm : rawmachine) (A : anntab) (f : ann -> list unit_ -> Z -> bool) : bool :=
  forallb (fun qa : Z * ann =>
    match assocZ (fst qa) (rm_rows rm) with
    | None => false
    | Some rows =>
      forallb (fun row : Z * Z * Z * Z =>
        let '(_, _, blk, dest) := row in
        match get_block rm blk with
        | None => false
        | Some us => f (snd qa) us dest
        end) rows
    end) A.

Definition has_jump (rm : rawmachine) (q : Z) : bool :=
  match assocZ q (rm_rows rm) with
  | None => false
  | Some rows =>
    existsb (fun row : Z * Z * Z * Z =>
      let '(_, _, blk, _) := row in
      match get_block rm blk with
      | Some us => existsb is_ppjump us
      | None => false
      end) rows
  end.

Definition chk_flags (rm : rawmachine) : bool := rm_skel_ok rm && rm_frame_ok rm.

Definition chk_start (rm : rawmachine) (A : anntab) : bool :=
  match assocZ (rm_start rm) A with
  | Some a => class_eqb (a_cls a) CMain && key_le key_init (a_key a) && seg_le seg_init (a_seg a)
  | None => false
  end.

Definition chk_struct (rm : rawmachine) (A : anntab) : bool :=
  forallb (fun qa : Z * ann =>
    negb (fst qa =? 0) &&
    match assocZ (fst qa) (rm_rows rm) with
    | None => false
    | Some rows => rows_cover rows
    end) A.

Definition chk_blocks (rm : rawmachine) (A : anntab) : bool := for_rows rm A (fun _ _ _ => true).

Definition chk_unknown (rm : rawmachine) (A : anntab) : bool :=
  for_rows rm A (fun _ us _ => forallb not_unknown us).

Definition chk_consts (rm : rawmachine) (A : anntab) : bool :=
  for_rows rm A (fun _ us _ => forallb unit_const_ok us).

Definition cls_row (A : anntab) (a : ann) (us : list unit_) (dest : Z) : bool :=
  forallb (unit_cls_ok (a_cls a)) us &&
  match block_end us with
  | BFall => (dest =? 0) || cls_is A dest (a_cls a)
  | BCallTo ret tgt => cls_is A tgt CSub && cls_is A ret (a_cls a)
  | _ => true
  end.
Definition chk_cls (rm : rawmachine) (A : anntab) : bool := for_rows rm A (cls_row A).

Definition hnd_row (rm : rawmachine) (a : ann) (us : list unit_) (dest : Z) : bool :=
  match arun hnd_step us hinit with
  | None => false
  | Some e =>
    ph_none e &&
    (negb (h_jumped e) ||
     match block_end us with
     | BFall => negb (dest =? 0) && negb (has_jump rm dest)
     | BCallTo _ tgt => negb (has_jump rm tgt)
     | _ => true
     end)
  end.
Definition chk_hnd (rm : rawmachine) (A : anntab) : bool := for_rows rm A (hnd_row rm).

Definition key_at (A : anntab) (q : Z) (k : kst) : bool :=
  match assocZ q A with Some a => key_le k (a_key a) | None => false end.

Definition key_row (A : anntab) (a : ann) (us : list unit_) (dest : Z) : bool :=
  match arun key_step us (a_key a) with
  | None => false
  | Some k' =>
    match block_end us with
    | BFall => (dest =? 0) || key_at A dest (key_incr k')
    | BCallTo ret tgt => key_at A tgt (key_incr k') && key_at A ret key_top
    | _ => true
    end
  end.
Definition chk_key (rm : rawmachine) (A : anntab) : bool := for_rows rm A (key_row A).

Definition seg_at (A : anntab) (q : Z) (g : gst) : bool :=
  match assocZ q A with Some a => seg_le g (a_seg a) | None => false end.

Definition seg_row (A : anntab) (a : ann) (us : list unit_) (dest : Z) : bool :=
  match arun seg_step us (seg_start (a_seg a)) with
  | None => false
  | Some g' =>
    match block_end us with
    | BFall => (dest =? 0) || seg_at A dest (seg_incr g')
    | BCallTo ret tgt => seg_at A tgt (seg_incr g') && seg_at A ret seg_top
    | _ => true
    end
  end.
Definition chk_seg (rm : rawmachine) (A : anntab) : bool := for_rows rm A (seg_row A).

Fixpoint eof_scan (segok errset : bool) (us : list unit_) : bool :=
  match us with
  | [] => true
  | u :: r =>
    match u with
    | USetErr e => not_handler_errk e && eof_scan segok true r
    | UBreak _ => errset
    | UBreakIfErr _ => eof_scan segok errset r
    | UReturnErr e => not_handler_errk e
    | UAppendSeg => segok && eof_scan segok errset r
    | UAppendByte _ | USetVal _ => eof_scan segok errset r
    | _ => false
    end
  end.

Definition chk_eof (rm : rawmachine) (A : anntab) : bool :=
  forallb (fun qa : Z * ann => eof_scan (g_ok (a_seg (snd qa))) false (raw_eof rm (fst qa))) A.

(** all eof lists of the table (reachable or not) use only the eof unit kinds *)
Definition eof_unit_kind (u : unit_) : bool :=
  match u with
  | USetErr _ | UBreak _ | UBreakIfErr _ | UReturnErr _ | UAppendSeg | UAppendByte _ | USetVal _ => true
  | _ => false
  end.
Definition chk_eofk (rm : rawmachine) : bool :=
  forallb (fun qe : Z * list unit_ => forallb eof_unit_kind (snd qe)) (rm_eof rm).

Definition chk_all (rm : rawmachine) (A : anntab) : bool :=
  chk_flags rm && chk_start rm A && chk_struct rm A && chk_blocks rm A && chk_unknown rm A
  && chk_consts rm A && chk_cls rm A && chk_hnd rm A && chk_key rm A && chk_seg rm A && chk_eof rm A
  && chk_eofk rm.

Definition wf_check (rm : rawmachine) : bool := chk_all rm (compute_ann rm).

(** diagnosis: the ingredients by name *)
Module Diag.
  Import Coq.Strings.String.
  Local Open Scope string_scope.
  Definition wf_ingredients (rm : rawmachine) : list (string * bool) :=
    let A := compute_ann rm in
    [("flags", chk_flags rm); ("start", chk_start rm A); ("struct", chk_struct rm A);
     ("blocks", chk_blocks rm A); ("unknown", chk_unknown rm A); ("consts", chk_consts rm A);
     ("cls", chk_cls rm A); ("hnd", chk_hnd rm A); ("key", chk_key rm A); ("seg", chk_seg rm A);
     ("eof", chk_eof rm A); ("eofk", chk_eofk rm)].
End Diag.
Definition wf_ingredients := Diag.wf_ingredients.

(** bytes at which some reachable row calls the handler and ignores the returned offset
    ([UHandle _ false]); used to state the out-of-range theorem *)
Definition is_handle_nokeep (u : unit_) : bool := match u with UHandle _ false => true | _ => false end.

Definition ignores_pp (rm : rawmachine) (b : Z) : bool :=
  existsb (fun qr : Z * list (Z * Z * Z * Z) =>
    existsb (fun row : Z * Z * Z * Z =>
      let '(lo, hi, blk, _) := row in
      (lo <=? b) && (b <=? hi) &&
      match get_block rm blk with
      | Some us => existsb is_handle_nokeep us
      | None => false
      end) (snd qr)) (rm_rows rm).
