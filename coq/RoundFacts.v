(** RoundFacts.v -- further characterisation of the rounding specification of Round.v:
    the overflow threshold, the successor structure of patterns, and nearest-ness among ALL
    patterns; plus satisfiability examples for the theorems of Round.v. *)
From Coq Require Import ZArith Lia Bool.
From Rjson Require Import Round.
Local Open Scope Z_scope.

(** ** Examples: the hypotheses of the Round.v theorems are satisfiable (1/10, 1/3) *)
Example round_ne_representable_ex :
  0 <= 1 /\ 0 < 10 /\ f_neg (fst (round_ne true 1 10)) = true /\ snd (round_ne true 1 10) = false.
Proof. vm_compute. repeat split; congruence. Qed.
Example round_ne_error_ex : 0 < 1 /\ 0 < 10 /\ snd (round_ne false 1 10) = false.
Proof. vm_compute. repeat split; congruence. Qed.
Example round_ne_mono_ex : 1 * 3 <= 1 * 10 /\ fst (round_ne false 1 10) <= fst (round_ne false 1 3).
Proof. vm_compute. split; congruence. Qed.
Example round_pos_ival_ex : round_pos (ival 4591870180066957722) (2 ^ 1074) = 4591870180066957722.
Proof. vm_compute. reflexivity. Qed.

(** ** The overflow threshold *)

(** the binade of a value below 2^1024 is at most 1023 *)
Lemma ilog2_lt_1024 num den : 0 < num -> 0 < den -> num < 2 ^ 1024 * den -> ilog2 num den <= 1023.
Proof.
  intros Hn Hd Hlt. destruct (ilog2_spec num den Hn Hd) as [H1 _].
  set (e := ilog2 num den) in *.
  destruct (Z_le_gt_dec e 1023) as [|G]; [assumption|exfalso].
  rewrite (P2_nonneg e), (P2_nonpos (- e)) in H1 by lia.
  assert (2 ^ 1024 <= 2 ^ e) by (apply Z.pow_le_mono_r; lia).
  remember (2 ^ 1024) as A. remember (2 ^ e) as Bq. nia.
Qed.

(** round_ne reports overflow exactly when the value is at least 2^1024 - 2^970, the midpoint
    between the largest finite float64 and 2^1024 (at the midpoint, ties-to-even rounds up) *)
Theorem round_ne_overflow_iff neg num den :
  0 <= num -> 0 < den ->
  (snd (round_ne neg num den) = true <-> (2 ^ 1024 - 2 ^ 970) * den <= num).
Proof.
  intros Hn Hd. unfold round_ne.
  assert (Pthr : 0 < 2 ^ 1024 - 2 ^ 970) by reflexivity.
  destruct (Z.leb_spec num 0) as [Hz|Hp]; cbn [snd].
  - split; [discriminate|]. intros H. exfalso. nia.
  - destruct (Z.leb_spec inf_bits (round_pos num den)) as [Hinf|Hfin]; cbn [snd]; split; try discriminate; try reflexivity.
    + (* overflow -> above the threshold *)
      intros _. destruct (Z_le_gt_dec ((2 ^ 1024 - 2 ^ 970) * den) num) as [|G]; [assumption|exfalso].
      assert (Hlt : num < 2 ^ 1024 * den).
      { assert (2 ^ 1024 - 2 ^ 970 < 2 ^ 1024) by reflexivity. nia. }
      pose proof (ilog2_lt_1024 num den Hp Hd Hlt) as He.
      destruct (round_pos_error num den Hp Hd) as [Herr _].
      pose proof (binade_ge num den) as HE.
      assert (HE2 : binade num den <= 1023) by (unfold binade; lia).
      set (E := binade num den) in *. set (b := round_pos num den) in *.
      assert (Hiv : ival inf_bits <= ival b).
      { destruct (Z.eq_dec inf_bits b) as [<-|]; [lia|]. apply Z.lt_le_incl. apply ival_mono; [vm_compute; discriminate|lia]. }
      change (ival inf_bits) with (2 ^ 2098) in Hiv.
      assert (Hu : 2 ^ (E + 1022) <= 2 ^ 2045) by (apply Z.pow_le_mono_r; lia).
      (* ival b * den <= num 2^1074 + 2^2044 den < (2^2098 - 2^2044) den + 2^2044 den *)
      assert (Hx : num * 2 ^ 1074 < (2 ^ 2098 - 2 ^ 2044) * den).
      { change (2 ^ 2098 - 2 ^ 2044) with ((2 ^ 1024 - 2 ^ 970) * 2 ^ 1074).
        assert (0 < 2 ^ 1074) by reflexivity. remember (2 ^ 1074) as W. remember (2 ^ 1024 - 2 ^ 970) as Th. nia. }
      change (2 ^ 2045) with (2 * 2 ^ 2044) in Hu.
      remember (2 ^ 2098) as A. remember (2 ^ 2044) as H44. remember (2 ^ (E + 1022)) as U. remember (2 ^ 1074) as W.
      assert (0 < H44) by (subst H44; reflexivity).
      nia.
    + (* above the threshold -> overflow *)
      intros Hge. exfalso.
      pose proof (round_pos_mono (2 ^ 1024 - 2 ^ 970) 1 num den Pthr ltac:(lia) Hp Hd ltac:(lia)) as Hm.
      assert (round_pos (2 ^ 1024 - 2 ^ 970) 1 = inf_bits) by (vm_compute; reflexivity). lia.
Qed.

(** the hypotheses are satisfiable on both sides of the threshold *)
Example round_ne_overflow_ex :
  snd (round_ne false (2 ^ 1024 - 2 ^ 970) 1) = true /\ snd (round_ne false (2 ^ 1024 - 2 ^ 970 - 1) 1) = false.
Proof. vm_compute. split; reflexivity. Qed.

Print Assumptions round_ne_overflow_iff.

(** ** Successor structure of patterns, and nearest-ness *)

Lemma two52_pos : 0 < two52. Proof. reflexivity. Qed.

(** the next pattern is one ulp further *)
Lemma ival_succ b : 0 <= b -> ival (b + 1) = ival b + iulp b.
Proof.
  intros Hb. pose proof two52_pos as T.
  pose proof (Z.div_mod b two52 ltac:(lia)) as Eb. pose proof (Z.mod_pos_bound b two52 T) as Bm.
  pose proof (Z.div_pos b two52 Hb T) as Bq.
  unfold ival, iulp. set (ex := b / two52) in *. set (mt := b mod two52) in *.
  destruct (Z_lt_le_dec (mt + 1) two52) as [Hlt|Hge].
  - assert (E1 : (b + 1) / two52 = ex).
    { replace (b + 1) with ((mt + 1) + ex * two52) by lia. rewrite Z.div_add, Z.div_small by lia. lia. }
    assert (E2 : (b + 1) mod two52 = mt + 1).
    { replace (b + 1) with ((mt + 1) + ex * two52) by lia. rewrite Z_mod_plus_full, Z.mod_small by lia. lia. }
    rewrite E1, E2. destruct (Z.eqb_spec ex 0) as [Z0|NZ].
    + rewrite Z0. change (2 ^ (Z.max 0 1 - 1)) with 1. lia.
    + rewrite Z.max_l by lia. lia.
  - assert (Em : mt = two52 - 1) by lia.
    assert (E1 : (b + 1) / two52 = ex + 1).
    { replace (b + 1) with (0 + (ex + 1) * two52) by lia. rewrite Z.div_add, Z.div_small by lia. lia. }
    assert (E2 : (b + 1) mod two52 = 0).
    { replace (b + 1) with (0 + (ex + 1) * two52) by lia. rewrite Z_mod_plus_full, Z.mod_small by lia. lia. }
    rewrite E1, E2. destruct (Z.eqb_spec (ex + 1) 0); [lia|].
    replace (ex + 1 - 1) with ex by lia.
    destruct (Z.eqb_spec ex 0) as [Z0|NZ].
    + rewrite Z0. change (2 ^ 0) with 1. change (2 ^ (Z.max 0 1 - 1)) with 1. lia.
    + rewrite Z.max_l by lia. replace ex with ((ex - 1) + 1) at 1 by lia.
      rewrite Z.pow_add_r by lia. change (2 ^ 1) with 2. rewrite Em. lia.
Qed.

(** ival is monotone (non-strict form) *)
Lemma ival_mono_le a b : 0 <= a -> a <= b -> ival a <= ival b.
Proof.
  intros Ha Hab. destruct (Z.eq_dec a b) as [->|Hne]; [lia|].
  pose proof (ival_mono a b Ha ltac:(lia)). lia.
Qed.

(** the rounded pattern is a nearest one among ALL non-negative patterns (finite or not):
    no pattern is strictly closer to num/den than round_pos num den *)
Theorem round_pos_nearest num den c :
  0 < num -> 0 < den -> 0 <= c ->
  Z.abs (ival (round_pos num den) * den - num * 2 ^ 1074) <= Z.abs (ival c * den - num * 2 ^ 1074).
Proof.
  intros Hn Hd Hc. pose proof two52_pos as T.
  destruct (round_pos_mant num den Hn Hd) as (Hb & HM & Hnorm & Hsub).
  destruct (round_pos_error num den Hn Hd) as [Herr _].
  pose proof (ilog2_spec num den Hn Hd) as Hilog.
  pose proof (binade_ge num den) as HE.
  set (e := ilog2 num den) in *. set (E := binade num den) in *.
  set (M := rne_div (num * P2 (52 - E)) (den * P2 (E - 52))) in *.
  set (b := round_pos num den) in *. set (N := num * 2 ^ 1074) in *.
  assert (HEe : E = Z.max e (-1022)) by reflexivity.
  assert (Hnorm' : -1022 < E -> two52 <= M) by (intros; apply Hnorm; lia).
  pose proof (ival_pattern E M HE HM Hnorm') as Hvb. rewrite <- Hb in Hvb.
  set (u := 2 ^ (E + 1022)) in *. assert (Pu : 0 < u) by (apply Z.pow_pos_nonneg; lia).
  assert (Hb0 : 0 <= b) by (apply round_pos_nonneg; assumption).
  destruct (Z.lt_trichotomy c b) as [Hlt|[->|Hgt]]; [| lia |].
  - (* c below b *)
    assert (Hb1 : 0 <= b - 1) by lia.
    pose proof (ival_succ (b - 1) Hb1) as Hs. replace (b - 1 + 1) with b in Hs by lia.
    pose proof (ival_mono_le c (b - 1) Hc ltac:(lia)) as Hcm.
    (* the ulp just below b *)
    destruct (Z_lt_le_dec two52 M) as [HMgt|HMle].
    + (* interior: ulp below is u *)
      assert (Hq : (b - 1) / two52 = E + 1023).
      { rewrite Hb. replace ((E + 1022) * two52 + M - 1) with ((M - 1 - two52) + (E + 1023) * two52) by lia.
        rewrite Z.div_add, Z.div_small by (unfold two53, two52 in *; lia). lia. }
      unfold iulp in Hs. rewrite Hq, Z.max_l in Hs by lia. replace (E + 1023 - 1) with (E + 1022) in Hs by lia. fold u in Hs.
      assert (K1 : ival c * den <= ival (b - 1) * den) by (apply Z.mul_le_mono_nonneg_r; lia).
      assert (K2 : ival b * den = ival (b - 1) * den + u * den) by (rewrite Hs; ring).
      lia.
    + destruct (Z.eq_dec E (-1022)) as [EE|NE].
      * (* subnormal range: ulp is 1 = u *)
        assert (Hq : (b - 1) / two52 = 0).
        { rewrite Hb, EE. change ((-1022 + 1022) * two52) with 0. apply Z.div_small. lia. }
        unfold iulp in Hs. rewrite Hq in Hs. change (2 ^ (Z.max 0 1 - 1)) with 1 in Hs.
        assert (Hu1 : u = 1) by (unfold u; rewrite EE; reflexivity).
        assert (K1 : ival c * den <= ival (b - 1) * den) by (apply Z.mul_le_mono_nonneg_r; lia).
        assert (K2 : ival b * den = ival (b - 1) * den + u * den) by (rewrite Hs, Hu1; ring).
        lia.
      * (* b is the lower end of a normal binade: the value is at least ival b *)
        assert (EM : M = two52) by lia.
        assert (Ee : E = e) by lia.
        assert (Hxge : ival b * den <= N).
        { rewrite Hvb, EM. unfold u, N. destruct Hilog as [H1 _]. rewrite <- Ee in H1.
          change two52 with (2 ^ 52). rewrite <- Z.pow_add_r by lia.
          destruct (Z_le_gt_dec 0 E).
          - rewrite (P2_nonneg E), (P2_nonpos (- E)) in H1 by lia.
            replace (52 + (E + 1022)) with (E + 1074) by lia. rewrite Z.pow_add_r by lia.
            assert (0 < 2 ^ 1074) by reflexivity. remember (2 ^ 1074) as W. remember (2 ^ E) as PE. nia.
          - rewrite (P2_nonpos E), (P2_nonneg (- E)) in H1 by lia.
            assert (X : 2 ^ (- E) * 2 ^ (52 + (E + 1022)) = 2 ^ 1074) by (rewrite <- Z.pow_add_r by lia; f_equal; lia).
            assert (0 < 2 ^ (52 + (E + 1022))) by (apply Z.pow_pos_nonneg; lia).
            rewrite <- X. remember (2 ^ (52 + (E + 1022))) as A. remember (2 ^ (- E)) as Bq. nia. }
        assert (Hi : 0 <= iulp (b - 1)) by (unfold iulp; apply Z.pow_nonneg; lia).
        assert (K1 : ival c * den <= ival b * den) by (apply Z.mul_le_mono_nonneg_r; lia).
        lia.
  - (* c above b *)
    pose proof (ival_succ b Hb0) as Hs.
    pose proof (ival_mono_le (b + 1) c ltac:(lia) ltac:(lia)) as Hcm.
    assert (Hu : u <= iulp b).
    { unfold iulp. destruct (Z_lt_le_dec M two52) as [HMlt|HMge].
      - assert (EE : E = -1022) by lia.
        assert (Hq : b / two52 = 0) by (rewrite Hb, EE; change ((-1022 + 1022) * two52) with 0; apply Z.div_small; lia).
        rewrite Hq. unfold u. rewrite EE. change (2 ^ (Z.max 0 1 - 1)) with 1. change (2 ^ (-1022 + 1022)) with 1. lia.
      - destruct (Z_lt_le_dec M two53) as [HM3|HM3].
        + assert (Hq : b / two52 = E + 1023).
          { rewrite Hb. replace ((E + 1022) * two52 + M) with ((M - two52) + (E + 1023) * two52) by lia.
            rewrite Z.div_add, Z.div_small by (unfold two53, two52 in *; lia). lia. }
          rewrite Hq, Z.max_l by lia. replace (E + 1023 - 1) with (E + 1022) by lia. unfold u. lia.
        + assert (EM : M = two53) by lia.
          assert (Hq : b / two52 = E + 1024).
          { rewrite Hb, EM, two53_eq. replace ((E + 1022) * two52 + 2 * two52) with (0 + (E + 1024) * two52) by lia.
            rewrite Z.div_add, Z.div_small by lia. lia. }
          rewrite Hq, Z.max_l by lia. unfold u. apply Z.pow_le_mono_r; lia. }
    assert (K1 : (ival b + iulp b) * den <= ival c * den) by (apply Z.mul_le_mono_nonneg_r; lia).
    assert (K2 : u * den <= iulp b * den) by (apply Z.mul_le_mono_nonneg_r; lia).
    lia.
Qed.

(** the hypotheses are satisfiable: no neighbour of round(1/10) is closer to 1/10 *)
Example round_pos_nearest_ex :
  let b := round_pos 1 10 in
  Z.abs (ival b * 10 - 2 ^ 1074) < Z.abs (ival (b + 1) * 10 - 2 ^ 1074) /\
  Z.abs (ival b * 10 - 2 ^ 1074) < Z.abs (ival (b - 1) * 10 - 2 ^ 1074).
Proof. vm_compute. split; reflexivity. Qed.

Print Assumptions round_pos_nearest.
