(** FpDecRound.v -- RoundedInteger with the trunc flag as sticky bit, and the last step of
    floatBits (rounding and assembly) for an arbitrary correctly rounded integer. *)
From Coq Require Import List ZArith Lia Bool.
From Coq Require Import Strings.Byte.
From Rjson Require Import Base BaseFacts Helpers Round Fp FpSpec FpTables FpDecDefs FpDecBits.
Import ListNotations.
Local Open Scope Z_scope.

(** nearest integer to n/d, ties up *)
Definition rhu_div (n d : Z) : Z := (2 * n + d) / (2 * d).

Lemma rhu_unique n d m : 0 < d -> 2 * m * d - d <= 2 * n < 2 * m * d + d -> rhu_div n d = m.
Proof.
  intros Hd H. unfold rhu_div. symmetry. apply (Z.div_unique _ _ m (2 * n + d - 2 * d * m)); lia.
Qed.

Lemma rhu_spec n d : 0 < d -> 2 * rhu_div n d * d - d <= 2 * n < 2 * rhu_div n d * d + d.
Proof.
  intros Hd. unfold rhu_div. pose proof (Z.div_mod (2 * n + d) (2 * d) ltac:(lia)).
  pose proof (Z.mod_pos_bound (2 * n + d) (2 * d) ltac:(lia)). nia.
Qed.

(** with the flag set, RoundedInteger rounds the stored value to nearest, ties up *)
Theorem RoundedInteger_trunc a :
  dec_wf a -> dec_trimmed a -> d_trunc a = true -> d_dp a <= 19 ->
  RoundedInteger_m a = rhu_div (fst (dec_frac a)) (snd (dec_frac a)).
Proof.
  intros (Hok & _ & _) Htrim Htr Hdp.
  unfold RoundedInteger_m, dec_frac, shouldRoundUp_m, d_nd, dnth. cbn [fst snd]. rewrite Htr.
  unfold dec_trimmed in Htrim.
  destruct a as [d dp neg trc]. cbn [d_d d_dp d_neg d_trunc] in *. clear Htr trc neg.
  destruct (Z.ltb_spec 20 dp) as [|_]; [lia|].
  pose proof (len_ge0 d) as Hnd0. pose proof (dval_z_bound d Hok) as [Hv0 Hv1].
  destruct (Z_lt_le_dec dp 0) as [Hneg|Hpos].
  - destruct (Z.ltb_spec dp 0) as [_|]; [|lia]. cbn [orb].
    replace (Z.to_nat dp) with O by lia. cbn [ri_digits].
    rewrite (P10_nonpos (dp - len d)), (P10_nonneg (- (dp - len d))) by lia. symmetry. apply rhu_unique.
    + apply pow10_pos. lia.
    + replace (- (dp - len d)) with (len d + (- dp)) by lia. rewrite Z.pow_add_r by lia.
      assert (10 ^ 1 <= 10 ^ (- dp)) by (apply pow10_le; lia). change (10 ^ 1) with 10 in *.
      pose proof (pow10_pos (len d) Hnd0). nia.
  - destruct (Z.ltb_spec dp 0) as [|_]; [lia|]. cbn [orb].
    assert (P64 := pow10_19_lt).
    assert (Hri := ri_digits_val (Z.to_nat dp) d 0 0 Hok ltac:(lia) ltac:(change (10 ^ 0) with 1; lia) ltac:(lia)).
    rewrite Z.mul_0_l, Z.add_0_l, Z2Nat.id in Hri by lia.
    destruct (Z.leb_spec (len d) dp) as [Hle|Hgt].
    + rewrite Hri, firstn_all2 by (unfold len in Hle; lia).
      rewrite (P10_nonneg (dp - len d)), (P10_nonpos (- (dp - len d))) by lia.
      symmetry. apply rhu_unique; lia.
    + assert (Hi : (Z.to_nat dp < length d)%nat) by (unfold len in Hgt; lia).
      pose proof (split_nth d (Z.to_nat dp) Hi) as Hsplit.
      set (hi := firstn (Z.to_nat dp) d) in *. set (c := nth (Z.to_nat dp) d 0) in *.
      set (lo' := skipn (S (Z.to_nat dp)) d) in *.
      assert (Hhi : len hi = dp).
      { subst hi. unfold len. rewrite firstn_length_le by lia. lia. }
      rewrite Hhi, Z.sub_diag in Hri. change (10 ^ 0) with 1 in Hri. rewrite Z.mul_1_r in Hri.
      rewrite Hri. set (n := dval_z hi) in *.
      assert (Hoks : digs_ok hi /\ digs_ok (c :: lo')).
      { apply digs_ok_app. rewrite <- Hsplit. exact Hok. }
      destruct Hoks as [Hokh Hokl]. destruct (digs_ok_inv _ _ Hokl) as [Hc Hokl'].
      pose proof (dval_z_bound hi Hokh) as Hn. fold n in Hn. rewrite Hhi in Hn.
      pose proof (dval_z_bound lo' Hokl') as HL'. pose proof (len_ge0 lo') as Hlo0.
      assert (Hlen : len d = dp + (1 + len lo')).
      { rewrite Hsplit at 1. rewrite len_app', len_cons, Hhi. reflexivity. }
      assert (HN : dval_z d = n * (10 * 10 ^ len lo') + (c * 10 ^ len lo' + dval_z lo')).
      { rewrite Hsplit at 1. rewrite dval_z_app, dval_z_cons, len_cons, pow10_succ by lia. reflexivity. }
      rewrite (P10_nonpos (dp - len d)), (P10_nonneg (- (dp - len d))), Z.mul_1_r by lia.
      replace (- (dp - len d)) with (1 + len lo') by lia. rewrite pow10_succ by lia.
      rewrite HN. set (P := 10 ^ len lo') in *. set (L' := dval_z lo') in *.
      assert (HP : 0 < P) by (apply pow10_pos; lia).
      assert (Hn19 : 10 ^ dp <= 10 ^ 19) by (apply pow10_le; lia).
      symmetry. apply rhu_unique; [lia|].
      destruct (Z.eqb_spec c 5) as [Ec|Nc]; destruct (Z.eqb_spec (dp + 1) (len d)) as [El|Nl]; cbn [andb].
      * assert (lo' = []) by (apply len_0_nil; lia).
        assert (P = 1 /\ L' = 0) as [-> ->] by (subst P L'; rewrite H; split; reflexivity).
        rewrite u64_small by lia. lia.
      * assert (Hne : lo' <> []) by (intros E0; rewrite E0 in Hlen; change (len (@nil Z)) with 0 in Hlen; lia).
        assert (0 < L').
        { apply dval_z_last_pos; [exact Hokl'| |exact Hne].
          apply (trimmed_suffix (hi ++ [c]) lo' Hne). rewrite <- app_assoc. cbn [app]. rewrite <- Hsplit. exact Htrim. }
        destruct (Z.leb_spec 5 c) as [_|]; [|lia]. rewrite u64_small by lia. nia.
      * destruct (Z.leb_spec 5 c) as [H5|H5].
        -- rewrite u64_small by lia. nia.
        -- nia.
      * destruct (Z.leb_spec 5 c) as [H5|H5].
        -- rewrite u64_small by lia. nia.
        -- nia.
Qed.

(** the stored value with the flag as sticky bit rounds like the exact value n/d, provided no
    half-integer lies strictly above the stored and at or below the exact value *)
Lemma sticky_round N D n d (tr : bool) :
  0 < D -> 0 < d ->
  N * d <= n * D -> (tr = false -> N * d = n * D) -> (tr = true -> N * d < n * D) ->
  (forall h, h * d <= 2 * n -> h * D <= 2 * N) ->
  (if tr then rhu_div N D else rne_div N D) = rne_div n d.
Proof.
  intros HD Hd Hle Hf Ht Hg. destruct tr.
  - specialize (Ht eq_refl). pose proof (rhu_spec N D HD) as [L U]. set (m := rhu_div N D) in *.
    symmetry. apply rne_div_unique; [exact Hd|]. left.
    assert (L' : (2 * m - 1) * d < 2 * n) by nia.
    assert (U' : 2 * n < (2 * m + 1) * d).
    { destruct (Z_lt_le_dec (2 * n) ((2 * m + 1) * d)) as [|G]; [assumption|exfalso].
      specialize (Hg (2 * m + 1) G). lia. }
    lia.
  - apply rne_div_frac_eq; auto.
Qed.
