(** Safety of the translated Ragel machines, generic in the rawmachine under the computable
    check [wf_check] (Wf.v):
      - [machines_safe] (C10): [prun] never panics and never runs out of its linear fuel;
        offsets reported with a nil error are in range;
      - [handler_error_stops] (C09), [handler_offset_out_of_range_is_error] (C10, last sentence),
        [handler_calls_in_range];
      - [buffer_irrelevant] (C14).
    Structure: Part 1 links the boolean checks to [raw_trans]; Part 2 are frame lemmas for
    [exec_unit]; Part 3 is the invariant ([Inv] at each DISPATCH, [Gmid] inside a block, the
    abstract block states of Wf.v concretised by [G_hnd]/[G_key]/[G_seg]/[stack_ok]), one lemma
    per domain and unit, blocks by induction on the unit list, [run] by induction on the fuel
    with the measure [mu]; Part 4 are the theorems; Part 5 is the two-run simulation for C14;
    Part 6 shows on a tiny machine that no theorem is vacuous. *)
From Coq Require Import List ZArith Bool Lia.
From Coq Require Import Strings.Byte.
From Rjson Require Import Base Helpers Machine MachineFacts Wf.
Import ListNotations.
Local Open Scope Z_scope.

(* ====================================================================== *)
(** * Part 1 *)
(** * Part 1: from the boolean checks to facts about [raw_trans] *)
Lemma assocZ_In : forall {A} k (l : list (Z * A)) v, assocZ k l = Some v -> In (k, v) l.
Proof.
  induction l as [|[k' v'] l IH]; intros v H; cbn in *; [discriminate|].
  destruct (k =? k') eqn:E.
  - apply Z.eqb_eq in E. inversion H; subst. auto.
  - auto.
Qed.

Lemma find_row_In : forall rows b blk dest,
  find_row rows b = Some (blk, dest) -> exists lo hi, In (lo, hi, blk, dest) rows /\ lo <= b <= hi.
Proof.
  induction rows as [|[[[lo hi] bk] d] rows IH]; intros b blk dest H; cbn in *; [discriminate|].
  destruct ((lo <=? b) && (b <=? hi)) eqn:E.
  - inversion H; subst. apply andb_true_iff in E. destruct E as [E1 E2].
    apply Z.leb_le in E1, E2. exists lo, hi. auto.
  - destruct (IH _ _ _ H) as (lo' & hi' & I & R). exists lo', hi'. auto.
Qed.

Lemma rows_cover_sound : forall rows, rows_cover rows = true ->
  forall b : byte, exists blk dest, find_row rows (bz b) = Some (blk, dest).
Proof.
  intros rows H b. unfold rows_cover in H. rewrite forallb_forall in H.
  pose proof (bz_range b) as R.
  specialize (H (Z.to_nat (bz b))).
  rewrite Z2Nat.id in H by lia.
  destruct (find_row rows (bz b)) as [[blk dest]|]; [eauto|].
  assert (false = true); [|discriminate]. apply H. apply in_seq. lia.
Qed.

Section Rows.
  Variable rm : rawmachine.
  Variable A : anntab.

  (** what we know about the row selected by (q, b) *)
  Inductive rowsel (q : Z) (b : byte) (us : list unit_) (d : Z) : Prop :=
  | RowSel : forall (rows : list (Z * Z * Z * Z)) (lo hi blk : Z),
      assocZ q (rm_rows rm) = Some rows ->
      In (lo, hi, blk, d) rows ->
      lo <= bz b <= hi ->
      get_block rm blk = Some us ->
      raw_trans rm q b = (us, d) ->
      rowsel q b us d.

  Hypothesis Hstruct : chk_struct rm A = true.
  Hypothesis Hblocks : chk_blocks rm A = true.

  Lemma ann_struct : forall q a, assocZ q A = Some a ->
    q <> 0 /\ exists rows, assocZ q (rm_rows rm) = Some rows /\ rows_cover rows = true.
  Proof.
    intros q a H. apply assocZ_In in H. unfold chk_struct in Hstruct.
    rewrite forallb_forall in Hstruct. specialize (Hstruct _ H). cbn [fst snd] in Hstruct.
    apply andb_true_iff in Hstruct. destruct Hstruct as [N R].
    apply negb_true_iff in N. apply Z.eqb_neq in N. split; auto.
    destruct (assocZ q (rm_rows rm)); [eauto|discriminate].
  Qed.

  Lemma ann_is_state : forall q a, assocZ q A = Some a -> raw_is_state rm q = true.
  Proof.
    intros q a H. destruct (ann_struct _ _ H) as (_ & rows & R & _).
    unfold raw_is_state. rewrite R. apply orb_true_r.
  Qed.

  Lemma for_rows_In : forall f q a rows lo hi blk d,
    for_rows rm A f = true -> assocZ q A = Some a -> assocZ q (rm_rows rm) = Some rows ->
    In (lo, hi, blk, d) rows ->
    exists us, get_block rm blk = Some us /\ f a us d = true.
  Proof.
    intros f q a rows lo hi blk d F HA HR I. apply assocZ_In in HA.
    unfold for_rows in F. rewrite forallb_forall in F. specialize (F _ HA). cbn [fst snd] in F.
    rewrite HR in F. rewrite forallb_forall in F. specialize (F _ I). cbn in F.
    destruct (get_block rm blk); [eauto|discriminate].
  Qed.

  Lemma trans_row : forall q a b, assocZ q A = Some a -> exists us d, rowsel q b us d.
  Proof.
    intros q a b HA. destruct (ann_struct _ _ HA) as (_ & rows & HR & C).
    destruct (rows_cover_sound _ C b) as (blk & dest & F).
    destruct (find_row_In _ _ _ _ F) as (lo & hi & I & R).
    destruct (for_rows_In _ _ _ _ _ _ _ _ Hblocks HA HR I) as (us & GB & _).
    exists us, dest. econstructor; eauto.
    unfold raw_trans. rewrite HR, F. unfold get_block in GB.
    destruct (blk =? 0); [inversion GB; reflexivity|]. rewrite GB. reflexivity.
  Qed.

  Lemma rowsel_check : forall f q a b us d,
    for_rows rm A f = true -> assocZ q A = Some a -> rowsel q b us d -> f a us d = true.
  Proof.
    intros f q a b us d F HA [rows lo hi blk HR I R GB T].
    destruct (for_rows_In _ _ _ _ _ _ _ _ F HA HR I) as (us' & GB' & FF).
    rewrite GB in GB'. inversion GB'; subst. exact FF.
  Qed.

  Lemma rowsel_has_jump : forall q b us d,
    rowsel q b us d -> existsb is_ppjump us = true -> has_jump rm q = true.
  Proof.
    intros q b us d [rows lo hi blk HR I R GB T] E. unfold has_jump. rewrite HR.
    apply existsb_exists. exists (lo, hi, blk, d). split; auto. rewrite GB. exact E.
  Qed.

  Lemma rowsel_ignores : forall q b us d,
    rowsel q b us d -> existsb is_handle_nokeep us = true -> ignores_pp rm (bz b) = true.
  Proof.
    intros q b us d [rows lo hi blk HR I R GB T] E. unfold ignores_pp.
    apply existsb_exists. exists (q, rows). split; [apply assocZ_In; auto|]. cbn [snd].
    apply existsb_exists. exists (lo, hi, blk, d). split; auto.
    rewrite GB, E. destruct R as [R1 R2]. apply Z.leb_le in R1, R2. rewrite R1, R2. reflexivity.
  Qed.
End Rows.

(* ====================================================================== *)
(** * Part 2: which fields a unit can change *)
Ltac sc := cbn [s_p s_err s_top s_cap s_live s_junk s_pp s_fs s_fe s_seg s_dst s_ub s_ok s_val s_calls
                set_p set_err set_stk set_pp set_fs set_fe set_seg set_dst set_ub set_val set_calls brk] in *.

Definition is_handle (u : unit_) : bool := match u with UHandle _ _ => true | _ => false end.
Definition moves_p (u : unit_) : bool :=
  match u with UScanDec | UScanExp | UAdvanceU | UPPJump _ _ => true | _ => false end.
Definition is_scan (u : unit_) : bool := match u with UScanDec | UScanExp => true | _ => false end.
Definition is_fstart (u : unit_) : bool := match u with UFieldStart => true | _ => false end.
Definition is_fend (u : unit_) : bool := match u with UFieldEnd => true | _ => false end.
Definition is_segstart (u : unit_) : bool := match u with USegStart => true | _ => false end.
Definition is_unesc (u : unit_) : bool := match u with UUnescapeU => true | _ => false end.

Section Frame.
  Variable md : Z.
  Variable data : list byte.
  Variable h : handler.
  Notation pe := (len data).

  (** which fields a continuing unit can change *)
  Lemma unit_frame : forall u s s',
    exec_unit md data h pe u s = RCont s' ->
    (is_handle u = false ->
       s_top s' = s_top s /\ s_cap s' = s_cap s /\ s_live s' = s_live s /\ s_junk s' = s_junk s /\
       s_calls s' = s_calls s /\ s_pp s' = s_pp s) /\
    (moves_p u = false -> s_p s' = s_p s) /\
    (is_fstart u = false -> s_fs s' = s_fs s) /\
    (is_fend u = false -> s_fe s' = s_fe s) /\
    (is_segstart u = false -> s_seg s' = s_seg s) /\
    (is_unesc u = false -> s_ub s' = s_ub s).
  Proof.
    intros u s s' H.
    destruct u; cbn [exec_unit] in H; sc;
      repeat match type of H with
      | context [match ?x with _ => _ end] => destruct x
      end; try discriminate; inversion H; subst; sc; cbn;
      repeat split; intros; try reflexivity; try discriminate.
  Qed.

  Lemma unit_scan : forall u s s',
    is_scan u = true -> 0 <= s_p s < pe ->
    exec_unit md data h pe u s = RCont s' -> s_p s <= s_p s' <= pe - 1.
  Proof.
    intros u s s' U R H. destruct u; try discriminate; cbn [exec_unit] in H.
    - destruct (skipFloatDec data (s_p s + 1)) as [p' e] eqn:E. inversion H; subst; sc.
      eapply scanDec_range; eauto.
    - destruct (skipFloatExp data (s_p s + 1)) as [p' e] eqn:E. inversion H; subst; sc.
      eapply scanExp_range; eauto.
  Qed.

  Lemma unit_scan_err : forall u s s',
    is_scan u = true -> exec_unit md data h pe u s = RCont s' ->
    s_err s' = None \/ s_err s' = Some EInvalidNumber.
  Proof.
    intros u s s' U H. destruct u; try discriminate; cbn [exec_unit] in H.
    - destruct (skipFloatDec data (s_p s + 1)) as [p' e] eqn:E. inversion H; subst; sc.
      eapply scanDec_err; eauto.
    - destruct (skipFloatExp data (s_p s + 1)) as [p' e] eqn:E. inversion H; subst; sc.
      eapply scanExp_err; eauto.
  Qed.
End Frame.

(* ====================================================================== *)
(** * Part 3: the invariant *)
Section Sound.
  Variable rm : rawmachine.
  Variable A : anntab.
  Variable md : Z.
  Variable data : list byte.
  Variable h : handler.
  Notation pe := (len data).
  (* the wrap-around reasoning for UPPJump needs len data <= MaxInt64 (true of every Go slice);
     machines without UPPJump need nothing *)
  Hypothesis Hlen : pe < two63 \/ (forall q, has_jump rm q = false).

  (** ** Concretizations *)
  Fixpoint shape (c : class) (l : list Z) : Prop :=
    match l with
    | [] => c = CMain
    | x :: l' => c = CSub /\ exists a, assocZ x A = Some a /\
                 key_le key_top (a_key a) = true /\ seg_le seg_top (a_seg a) = true /\ shape (a_cls a) l'
    end.

  Definition stack_ok (c : class) (s : st) : Prop :=
    s_top s = len (s_live s) /\ s_cap s = s_top s + len (s_junk s) /\ shape c (s_live s).

  Definition G_key (k : kst) (s : st) : Prop :=
    (forall n, k_lb k = Some n -> 0 <= s_fs s /\ s_fs s + n <= s_p s) /\
    (k_fe k = true -> 0 <= s_fs s /\ s_fs s + 2 <= s_fe s /\ s_fe s <= s_p s).

  Definition G_seg (g : gst) (s : st) : Prop :=
    (g_ok g = true -> 0 <= s_seg s <= s_p s) /\
    (forall n, g_ub g = Some n -> s_p s - s_seg s <= n) /\
    (g_u g = true -> s_ub s <= 6 \/ (s_ub s = 12 /\ s_seg s + 12 <= pe)).

  Definition no_herr (e : option errk) : Prop := forall tok, e <> Some (EHandler tok).

  Definition inrange_pp (c : call) (r : hres) : Prop :=
    0 <= wrap64 (h_pp r) /\ c_p c + wrap64 (h_pp r) <= pe.

  Definition good_call (c : call) (cs : list call) : Prop :=
    h_err (h (c :: cs)) = None /\
    (forall b, get data (c_p c) = Some b -> ignores_pp rm (bz b) = false -> inrange_pp c (h (c :: cs))).

  Fixpoint calls_good (cs : list call) : Prop :=
    match cs with
    | [] => True
    | c :: r => good_call c r /\ calls_good r
    end.

  Definition calls_pos (cs : list call) : Prop := Forall (fun c => 0 <= c_p c < pe) cs.

  Definition calls_post (e : option errk) (cs : list call) : Prop :=
    calls_pos cs /\
    ((calls_good cs /\ no_herr e) \/
     (exists c r tok, cs = c :: r /\ calls_good r /\ h_err (h cs) = Some tok /\ e = Some (EHandler tok)) \/
     (exists c r, cs = c :: r /\ calls_good r /\ h_err (h cs) = None /\ ~ inrange_pp c (h cs) /\ e = Some EPOutOfRange)).

  Section Block.
    Variable p0 : Z.
    Variable b0 : byte.
    Hypothesis Hp0 : 0 <= p0.
    Hypothesis Hb0 : get data p0 = Some b0.

    Definition pending (s : st) (c : call) (cs : list call) : Prop :=
      s_calls s = c :: cs /\ calls_good cs /\ c_p c = p0 /\ s_p s = p0.

    Definition G_hnd (a : hst) (s : st) : Prop :=
      (h_moved a = false -> s_p s = p0) /\
      (if h_jumped a then p0 - 1 <= s_p s else p0 <= s_p s) /\ s_p s < pe /\
      calls_pos (s_calls s) /\
      match h_ph a with
      | HNone => calls_good (s_calls s) /\ no_herr (s_err s)
      | HCalled keep =>
        exists c cs, pending s c cs /\ s_err s = option_map EHandler (h_err (h (c :: cs))) /\
                     (if keep then s_pp s = wrap64 (h_pp (h (c :: cs))) else ignores_pp rm (bz b0) = true)
      | HChecked =>
        exists c cs, pending s c cs /\ h_err (h (c :: cs)) = None /\ s_err s = None /\
                     s_pp s = wrap64 (h_pp (h (c :: cs)))
      | HNeg =>
        exists c cs, pending s c cs /\ h_err (h (c :: cs)) = None /\ s_err s = None /\
                     s_pp s = wrap64 (h_pp (h (c :: cs))) /\ 0 <= s_pp s
      end.

    (** *** stack *)
    Lemma unit_stack : forall u c s s',
      stack_ok c s -> unit_cls_ok c u = true ->
      exec_unit md data h pe u s = RCont s' -> stack_ok c s'.
    Proof.
      intros u c s s' (T & C & S) U H.
      destruct (is_handle u) eqn:IH.
      - destruct u; try discriminate. cbn in U. destruct c; try discriminate.
        cbn [exec_unit] in H.
        destruct (if is_obj then slice data (s_fs s + 1) (s_fe s - 1) else Some []); [|discriminate].
        destruct ((0 <=? s_p s) && (s_p s <=? pe)); [|discriminate].
        destruct (s_live s) eqn:L; [|cbn in S; destruct S; discriminate].
        destruct (h_havoc _) eqn:HV.
        + inversion H; subst. unfold stack_ok. destruct keep_pp; sc; rewrite L; auto.
        + inversion H; subst. unfold stack_ok, s_stack. destruct keep_pp; sc; rewrite L; cbn [length firstn skipn rev app];
          (split; [auto|split; [|exact S]]); rewrite C; unfold len; rewrite overwrite_length; reflexivity.
      - destruct (unit_frame _ _ _ _ _ _ H) as (F & _). destruct (F IH) as (E1 & E2 & E3 & E4 & _).
        unfold stack_ok. rewrite E1, E2, E3, E4. auto.
    Qed.

    (** *** object keys *)
    Lemma unit_key : forall u k k' s s',
      G_key k s -> key_step u k = Some k' ->
      (is_ppjump u = false -> s_p s <= s_p s') ->
      (is_fstart u = true -> 0 <= s_p s) ->
      exec_unit md data h pe u s = RCont s' -> G_key k' s'.
    Proof.
      intros u k k' s s' (K1 & K2) KS PM P0 H.
      destruct (unit_frame _ _ _ _ _ _ H) as (_ & _ & Ffs & Ffe & _).
      destruct u; cbn [key_step] in KS;
        try (inversion KS; subst k'; clear KS;
             specialize (PM eq_refl); specialize (Ffs eq_refl); specialize (Ffe eq_refl);
             unfold G_key; rewrite Ffs, Ffe; split; intros; [destruct (K1 _ H0)|destruct (K2 H0)]; lia).
      - (* UHandle *)
        assert (k' = k) by (destruct is_obj; [destruct (k_fe k); [|discriminate]|]; inversion KS; auto).
        subst k'. specialize (PM eq_refl); specialize (Ffs eq_refl); specialize (Ffe eq_refl).
        unfold G_key; rewrite Ffs, Ffe; split; intros; [destruct (K1 _ H0)|destruct (K2 H0)]; lia.
      - (* UPPJump *)
        inversion KS; subst. unfold G_key, key_top; cbn. split; intros; discriminate.
      - (* UFieldStart *)
        inversion KS; subst. cbn [exec_unit] in H. inversion H; subst. unfold G_key; sc; cbn.
        specialize (P0 eq_refl). split; intros; [|discriminate]. inversion H0; subst. lia.
      - (* UFieldEnd *)
        inversion KS; subst. cbn [exec_unit] in H. inversion H; subst. unfold G_key; sc; cbn.
        split; intros.
        + destruct (K1 _ H0). lia.
        + destruct (k_lb k) as [n|]; [|discriminate]. apply Z.leb_le in H0. destruct (K1 _ eq_refl). lia.
    Qed.

    (** *** segments *)
    Lemma unit_seg : forall u g g' s s',
      G_seg g s -> seg_step u g = Some g' ->
      (is_ppjump u = false -> s_p s <= s_p s') ->
      (is_segstart u = true -> 0 <= s_p s) ->
      exec_unit md data h pe u s = RCont s' -> G_seg g' s'.
    Proof.
      intros u g g' s s' (G1 & G2 & G3) GS PM P0 H.
      destruct (unit_frame _ _ _ _ _ _ H) as (_ & Fp & _ & _ & Fseg & Fub).
      destruct u; cbn [seg_step] in GS;
        try (inversion GS; subst g'; clear GS;
             specialize (PM eq_refl); specialize (Fp eq_refl); specialize (Fseg eq_refl); specialize (Fub eq_refl);
             unfold G_seg; rewrite Fseg, Fub, Fp; auto).
      - (* UScanDec *)
        inversion GS; subst g'; clear GS. specialize (PM eq_refl); specialize (Fseg eq_refl); specialize (Fub eq_refl).
        unfold G_seg; cbn; rewrite Fseg, Fub. repeat split; intros; try discriminate; auto.
        + apply G1 in H0. lia. + apply G1 in H0. lia.
      - (* UScanExp *)
        inversion GS; subst g'; clear GS. specialize (PM eq_refl); specialize (Fseg eq_refl); specialize (Fub eq_refl).
        unfold G_seg; cbn; rewrite Fseg, Fub. repeat split; intros; try discriminate; auto.
        + apply G1 in H0. lia. + apply G1 in H0. lia.
      - (* UPPJump *)
        inversion GS; subst g'; clear GS. specialize (Fseg eq_refl); specialize (Fub eq_refl).
        unfold G_seg; cbn; rewrite Fseg, Fub. repeat split; intros; try discriminate; auto.
      - (* USegStart *)
        inversion GS; subst g'; clear GS. cbn [exec_unit] in H. inversion H; subst. unfold G_seg; sc; cbn.
        specialize (P0 eq_refl). repeat split; intros; try discriminate; try lia. inversion H0; subst. lia.
      - (* UAppendSeg *)
        destruct (g_ok g); [|discriminate]. inversion GS; subst g'; clear GS.
        specialize (Fp eq_refl); specialize (Fseg eq_refl); specialize (Fub eq_refl).
        unfold G_seg; rewrite Fseg, Fub, Fp; auto.
      - (* UUnescapeU *)
        destruct (g_ok g) eqn:OK; [|discriminate]. inversion GS; subst g'; clear GS.
        specialize (Fp eq_refl); specialize (Fseg eq_refl). specialize (G1 eq_refl).
        cbn [exec_unit] in H.
        destruct ((0 <=? s_seg s) && (s_seg s <=? pe)) eqn:R; [|discriminate].
        destruct (unescapeUnicodeChar (skipn (Z.to_nat (s_seg s)) data) (s_dst s)) as [[d n] ok] eqn:UU.
        inversion H; subst; sc. unfold G_seg; sc; cbn. repeat split; intros; auto; try lia.
        apply andb_true_iff in R. destruct R as [R1 R2]. apply Z.leb_le in R1, R2.
        apply unescapeUnicodeChar_n in UU. unfold len in UU. rewrite skipn_length in UU.
        unfold len. lia.
      - (* UAdvanceU *)
        destruct (g_ub g) as [n|] eqn:UB; [|discriminate].
        destruct (g_u g && (n <=? 5)) eqn:C; [|discriminate]. inversion GS; subst g'; clear GS.
        specialize (PM eq_refl); specialize (Fseg eq_refl); specialize (Fub eq_refl).
        unfold G_seg; cbn; rewrite Fseg, Fub. repeat split; intros; try discriminate; auto.
        + apply G1 in H0. lia. + apply G1 in H0. lia.
    Qed.

    (** *** the push of UCall never panics on a consistent stack *)
    Lemma ucall_ok : forall chk bk ret tgt s,
      s_top s = len (s_live s) -> s_cap s = s_top s + len (s_junk s) ->
      match exec_unit md data h pe (UCall chk bk ret tgt) s with
      | RGoto s' d => d = tgt /\ exists t cp j, s' = set_stk s t cp (ret :: s_live s) j /\
                                 t = len (ret :: s_live s) /\ cp = t + len j
      | ROut s' => s' = set_p (set_err s (Some EMaxDepth)) (s_p s + 1)
      | _ => False
      end.
    Proof.
      intros chk bk ret tgt s T C. cbn [exec_unit].
      destruct (chk && (s_top s =? md)); [reflexivity|].
      pose proof (len_nonneg (s_junk s)) as LJ.
      destruct (s_top s + 1 >=? s_cap s) eqn:E.
      - assert (s_top s + 1 >= s_cap s) by (apply Z.geb_le in E; lia).
        destruct (1 + s_top s - s_cap s <? 0) eqn:N; [apply Z.ltb_lt in N; lia|].
        destruct (s_junk s) as [|x j] eqn:J.
        + change (len (@nil Z)) with 0 in *.
          replace (1 + s_top s - s_cap s) with 1 by lia. change (Z.to_nat 1) with 1%nat. cbn [zrepeat app].
          split; auto. eexists _, _, _. split; [reflexivity|]. rewrite len_cons.
          change (len (@nil Z)) with 0. lia.
        + rewrite len_cons in *. assert (len j = 0) by (pose proof (len_nonneg j); lia).
          destruct j as [|y j]; [|rewrite len_cons in H0; pose proof (len_nonneg j); lia].
          replace (1 + s_top s - s_cap s) with 0 by lia. change (Z.to_nat 0) with 0%nat. cbn [zrepeat app].
          split; auto. eexists _, _, _. split; [reflexivity|]. rewrite ?len_cons.
          change (len (@nil Z)) with 0 in *. lia.
      - assert (s_top s + 1 < s_cap s) by (rewrite Z.geb_leb in E; apply Z.leb_gt in E; lia).
        destruct (s_junk s) as [|x j] eqn:J.
        + change (len (@nil Z)) with 0 in *. lia.
        + split; auto. eexists _, _, _. split; [reflexivity|]. rewrite ?len_cons in *. lia.
    Qed.

    (** *** the main unit lemma: handler phase, position, exits, no panic *)
    Definition exit_ok (s' : st) : Prop :=
      (s_err s' = None -> 0 <= s_p s' <= pe) /\ calls_post (s_err s') (s_calls s').

    Definition ures_ok (u : unit_) (ha ha' : hst) (s : st) (r : ures) : Prop :=
      match r with
      | RCont s' => G_hnd ha' s' /\ unit_ends u = false /\ (is_ppjump u = false -> s_p s <= s_p s')
      | RGoto s' d =>
        ph_none ha = true /\ unit_ends u = true /\
        exists t cp l j, s' = set_stk s t cp l j /\ t = len l /\ cp = t + len j /\
          ((exists chk bk ret, u = UCall chk bk ret d /\ l = ret :: s_live s) \/ (u = URet /\ s_live s = d :: l))
      | ROut s' => exit_ok s'
      | RRet p e s' => calls_post (Some e) (s_calls s')
      | RPanic _ => False
      end.

    Lemma post_none : forall e cs, calls_pos cs -> calls_good cs -> no_herr e -> calls_post e cs.
    Proof. intros. split; auto. Qed.

    Lemma no_herr_const : forall e, not_handler_errk e = true -> no_herr (Some e).
    Proof. intros e H tok E. inversion E; subst. discriminate. Qed.

    Lemma no_herr_none : no_herr None.
    Proof. intros tok E. discriminate. Qed.

    Lemma unit_hnd : forall u c ha ha' k k' g g' s,
      stack_ok c s -> unit_cls_ok c u = true -> unit_const_ok u = true ->
      (is_handle_nokeep u = true -> ignores_pp rm (bz b0) = true) ->
      (is_ppjump u = true -> pe < two63) ->
      G_hnd ha s -> G_key k s -> G_seg g s ->
      hnd_step u ha = Some ha' -> key_step u k = Some k' -> seg_step u g = Some g' ->
      ures_ok u ha ha' s (exec_unit md data h pe u s).
    Proof.
      intros u c ha ha' k k' g g' s SK UC UK IG JL GH GK GS HS KS SS.
      destruct ha as [ph mv jp]. destruct GH as (M & PL & PU & CP & PH).
      cbn [h_ph h_moved h_jumped] in *.
      assert (PL' : p0 - 1 <= s_p s) by (destruct jp; lia).
      destruct ph as [|keep| |].
      - (* HNone *)
        destruct PH as (CG & NH).
        assert (BRK : forall e, no_herr e -> exit_ok (set_p (set_err s e) (s_p s + 1))).
        { intros e NE. split; sc; [lia|]. apply post_none; auto. }
        assert (BRK0 : exit_ok (set_p s (s_p s + 1))).
        { split; sc; [lia|]. apply post_none; auto. }
        destruct u; cbn [hnd_step h_ph h_moved h_jumped] in HS; try discriminate.
        + (* UReturnErr *) cbn. apply post_none; auto. apply no_herr_const; auto.
        + (* USetErr *) inversion HS; subst. cbn [exec_unit ures_ok]. split; [|split; auto; intros; sc; lia].
          unfold G_hnd; sc; cbn [h_ph h_moved h_jumped]. repeat split; auto. apply no_herr_const; auto.
        + (* UBreak *) cbn [exec_unit ures_ok brk]. exact BRK0.
        + (* UBreakIfErr *) inversion HS; subst. cbn [exec_unit]. destruct (s_err s) eqn:E.
          * cbn [ures_ok brk]. exact BRK0.
          * cbn [ures_ok]. split; [|split; auto; intros; lia].
            unfold G_hnd; cbn [h_ph h_moved h_jumped]. rewrite E. repeat split; auto.
        + (* UScanDec *)
          destruct jp; [discriminate|]. inversion HS; subst.
          destruct (exec_unit md data h pe UScanDec s) eqn:X; try (cbn [exec_unit] in X; destruct (skipFloatDec data (s_p s + 1)); discriminate).
          pose proof (unit_scan _ _ _ UScanDec _ _ eq_refl (conj (Z.le_trans _ _ _ Hp0 PL) PU) X) as R.
          pose proof (unit_scan_err _ _ _ UScanDec _ _ eq_refl X) as ER.
          destruct (unit_frame _ _ _ _ _ _ X) as (F & _). destruct (F eq_refl) as (_ & _ & _ & _ & FC & _).
          cbn [ures_ok]. split; [|split; auto; intros; lia].
          unfold G_hnd; cbn [h_ph h_moved h_jumped]. rewrite FC. repeat split; auto; try lia; try discriminate.
          destruct ER as [ER|ER]; rewrite ER; [apply no_herr_none|apply no_herr_const; reflexivity].
        + (* UScanExp *)
          destruct jp; [discriminate|]. inversion HS; subst.
          destruct (exec_unit md data h pe UScanExp s) eqn:X; try (cbn [exec_unit] in X; destruct (skipFloatExp data (s_p s + 1)); discriminate).
          pose proof (unit_scan _ _ _ UScanExp _ _ eq_refl (conj (Z.le_trans _ _ _ Hp0 PL) PU) X) as R.
          pose proof (unit_scan_err _ _ _ UScanExp _ _ eq_refl X) as ER.
          destruct (unit_frame _ _ _ _ _ _ X) as (F & _). destruct (F eq_refl) as (_ & _ & _ & _ & FC & _).
          cbn [ures_ok]. split; [|split; auto; intros; lia].
          unfold G_hnd; cbn [h_ph h_moved h_jumped]. rewrite FC. repeat split; auto; try lia; try discriminate.
          destruct ER as [ER|ER]; rewrite ER; [apply no_herr_none|apply no_herr_const; reflexivity].
        + (* UCall *)
          destruct SK as (T & C & _). pose proof (ucall_ok depth_check brk ret target s T C) as U.
          destruct (exec_unit md data h pe (UCall depth_check brk ret target) s); try contradiction.
          * destruct U as (-> & t & cp & j & -> & -> & ->). cbn [ures_ok]. split; auto. split; auto.
            eexists _, _, _, _. split; [reflexivity|]. split; auto. split; auto. left. eauto.
          * subst s0. cbn [ures_ok]. apply BRK. apply no_herr_const; reflexivity.
        + (* URet *)
          cbn in UC. destruct c; [discriminate|]. destruct SK as (T & C & S).
          cbn [exec_unit]. destruct (s_live s) as [|x l] eqn:L; [cbn in S; discriminate|].
          cbn [ures_ok]. split; auto. split; auto. eexists _, _, _, _. split; [reflexivity|].
          rewrite len_cons in T. rewrite len_cons. split; [lia|]. split; [lia|]. right; auto.
        + (* UHandle *)
          destruct mv; [discriminate|]. destruct jp; [discriminate|]. cbn [orb] in HS. inversion HS; subst. clear HS.
          specialize (M eq_refl).
          cbn [exec_unit].
          assert (KEY : exists key, (if is_obj then slice data (s_fs s + 1) (s_fe s - 1) else Some []) = Some key).
          { destruct is_obj; [|eauto]. cbn [key_step] in KS. destruct (k_fe k) eqn:FE; [|discriminate].
            destruct GK as (_ & K2). destruct (K2 FE) as (K3 & K4 & K5). apply slice_some; lia. }
          destruct KEY as (key & ->).
          assert (RG : (0 <=? s_p s) && (s_p s <=? pe) = true).
          { apply andb_true_iff. split; apply Z.leb_le; lia. }
          rewrite RG.
          set (c0 := {| c_p := s_p s; c_key := key; c_obj := is_obj |}).
          assert (CP' : calls_pos (c0 :: s_calls s)).
          { constructor; auto. cbn. lia. }
          assert (GH' : forall s3, s_p s3 = s_p s -> s_calls s3 = c0 :: s_calls s ->
                    s_err s3 = option_map EHandler (h_err (h (c0 :: s_calls s))) ->
                    (keep_pp = true -> s_pp s3 = wrap64 (h_pp (h (c0 :: s_calls s)))) ->
                    G_hnd {| h_ph := HCalled keep_pp; h_moved := false; h_jumped := false |} s3).
          { intros s3 E1 E2 E3 E4. unfold G_hnd; cbn [h_ph h_moved h_jumped]. rewrite E1, E2.
            repeat split; auto; try lia.
            exists c0, (s_calls s). split; [split; auto; split; auto; split; cbn; lia|]. split; auto.
            destruct keep_pp; auto. }
          destruct (h_havoc (h (c0 :: s_calls s))); cbn [ures_ok]; (split; [|split; auto; intros; destruct keep_pp; sc; lia]);
            apply GH'; destruct keep_pp; sc; auto; discriminate.
        + (* UFieldStart *)
          destruct jp; [discriminate|]. inversion HS; subst. cbn [exec_unit ures_ok]. split; [|split; auto; intros; sc; lia].
          unfold G_hnd; sc; cbn [h_ph h_moved h_jumped]. repeat split; auto.
        + (* UFieldEnd *)
          destruct jp; [discriminate|]. inversion HS; subst. cbn [exec_unit ures_ok]. split; [|split; auto; intros; sc; lia].
          unfold G_hnd; sc; cbn [h_ph h_moved h_jumped]. repeat split; auto.
        + (* USegStart *)
          destruct jp; [discriminate|]. inversion HS; subst. cbn [exec_unit ures_ok]. split; [|split; auto; intros; sc; lia].
          unfold G_hnd; sc; cbn [h_ph h_moved h_jumped]. repeat split; auto.
        + (* UAppendSeg *)
          inversion HS; subst. cbn [seg_step] in SS. destruct (g_ok g) eqn:OK; [|discriminate].
          destruct GS as (G1 & _). specialize (G1 OK).
          cbn [exec_unit]. destruct (slice_some data (s_seg s) (s_p s)) as (seg & ->); try lia.
          cbn [ures_ok]. split; [|split; auto; intros; sc; lia].
          unfold G_hnd; sc; cbn [h_ph h_moved h_jumped]. repeat split; auto.
        + (* UAppendByte *)
          inversion HS; subst. cbn [exec_unit ures_ok]. split; [|split; auto; intros; sc; lia].
          unfold G_hnd; sc; cbn [h_ph h_moved h_jumped]. repeat split; auto.
        + (* UUnescapeU *)
          inversion HS; subst. cbn [seg_step] in SS. destruct (g_ok g) eqn:OK; [|discriminate].
          destruct GS as (G1 & _). specialize (G1 OK).
          cbn [exec_unit].
          assert (RG : (0 <=? s_seg s) && (s_seg s <=? pe) = true).
          { apply andb_true_iff. split; apply Z.leb_le; lia. }
          rewrite RG. destruct (unescapeUnicodeChar (skipn (Z.to_nat (s_seg s)) data) (s_dst s)) as [[d n] ok].
          cbn [ures_ok]. split; [|split; auto; intros; sc; lia].
          unfold G_hnd; sc; cbn [h_ph h_moved h_jumped]. repeat split; auto.
        + (* UNotOkRet *)
          destruct jp; [discriminate|]. inversion HS; subst. cbn [exec_unit].
          destruct (s_ok s).
          * cbn [ures_ok]. split; [|split; auto; intros; lia].
            unfold G_hnd; cbn [h_ph h_moved h_jumped]. repeat split; auto.
          * destruct (get_in_range data (s_p s)) as (b & ->); [lia|]. cbn [ures_ok].
            apply post_none; auto. apply no_herr_const; reflexivity.
        + (* UAdvanceU *)
          destruct jp; [discriminate|]. inversion HS; subst. cbn [seg_step] in SS.
          destruct (g_ub g) as [n|] eqn:UB; [|discriminate].
          destruct (g_u g) eqn:GU; [|discriminate]. cbn [andb] in SS.
          destruct (n <=? 5) eqn:N5; [|discriminate]. apply Z.leb_le in N5.
          destruct GS as (_ & G2 & G3). specialize (G2 _ UB). specialize (G3 GU).
          cbn [exec_unit]. destruct (s_ub s >? 6) eqn:U6.
          * assert (s_ub s > 6) by (apply Z.gtb_lt in U6; lia).
            cbn [ures_ok]. split; [|split; auto; intros; sc; lia].
            unfold G_hnd; sc; cbn [h_ph h_moved h_jumped]. repeat split; auto; try lia; try discriminate.
          * cbn [ures_ok]. split; [|split; auto; intros; sc; lia].
            unfold G_hnd; sc; cbn [h_ph h_moved h_jumped]. repeat split; auto; try lia; try discriminate.
        + (* USetVal *)
          inversion HS; subst. cbn [exec_unit ures_ok]. split; [|split; auto; intros; sc; lia].
          unfold G_hnd; sc; cbn [h_ph h_moved h_jumped]. repeat split; auto.
      - (* HCalled *)
        destruct PH as (c1 & cs & (PC & PG & PP & MV) & PE & PK).
        destruct u; cbn [hnd_step h_ph h_moved h_jumped] in HS; try discriminate.
        inversion HS; subst; clear HS. cbn [exec_unit].
        rewrite PE. destruct (h_err (h (c1 :: cs))) as [tok|] eqn:HE; cbn [option_map].
        + cbn [ures_ok]. split; auto. right. left. rewrite PC. exists c1, cs, tok. auto.
        + cbn [ures_ok]. split; [|split; auto; intros; lia].
          unfold G_hnd; cbn [h_ph h_moved h_jumped]. split; auto. split; auto. split; auto. split; auto.
          destruct keep.
          * exists c1, cs. repeat split; auto.
          * rewrite PC, PE. cbn [calls_good]. split; [|apply no_herr_none]. split; auto. split; auto.
            intros b GB IP. rewrite PP, Hb0 in GB. inversion GB; subst. congruence.
      - (* HChecked *)
        destruct PH as (c1 & cs & (PC & PG & PP & MV) & HE & PE & PK).
        destruct u; cbn [hnd_step h_ph h_moved h_jumped] in HS; try discriminate.
        inversion HS; subst; clear HS. cbn [exec_unit].
        destruct (s_pp s <? 0) eqn:NEG.
        + apply Z.ltb_lt in NEG. cbn [ures_ok brk]. split; sc; [discriminate|]. split; auto.
          right. right. rewrite PC. exists c1, cs. repeat split; auto.
          intros (IR & _). lia.
        + apply Z.ltb_ge in NEG. cbn [ures_ok]. split; [|split; auto; intros; lia].
          unfold G_hnd; cbn [h_ph h_moved h_jumped]. split; auto. split; auto. split; auto. split; auto.
          exists c1, cs. repeat split; auto.
      - (* HNeg *)
        destruct PH as (c1 & cs & (PC & PG & PP & MV) & HE & PE & PK & NN).
        destruct u; cbn [hnd_step h_ph h_moved h_jumped] in HS; try discriminate.
        destruct safe; [|discriminate]. inversion HS; subst; clear HS. cbn [exec_unit].
        assert (Hlen' : pe < two63) by (apply JL; reflexivity).
        assert (GC : inrange_pp c1 (h (c1 :: cs)) -> calls_good (s_calls s)).
        { intros IR. rewrite PC. cbn [calls_good]. split; auto. split; auto. }
        destruct (s_pp s =? 0) eqn:Z0.
        + apply Z.eqb_eq in Z0. cbn [ures_ok]. split; [|split; auto; intros; discriminate].
          unfold G_hnd; cbn [h_ph h_moved h_jumped]. split; [intros; discriminate|]. split; [lia|]. split; auto. split; auto.
          split; [|rewrite PE; apply no_herr_none]. apply GC. split; [lia|]. rewrite PP, <- PK, Z0. lia.
        + apply Z.eqb_neq in Z0.
          pose proof (wrap64_range (h_pp (h (c1 :: cs)))) as WR. rewrite <- PK in WR.
          pose proof (len_nonneg data) as LN.
          rewrite (wrap64_id (s_pp s - 1)) by lia.
          rewrite (wrap64_id (pe - s_p s)) by lia.
          destruct (s_pp s - 1 >=? pe - s_p s) eqn:OOB.
          * rewrite Z.geb_leb in OOB. apply Z.leb_le in OOB.
            cbn [ures_ok brk]. split; sc; [discriminate|]. split; auto.
            right. right. rewrite PC. exists c1, cs. repeat split; auto.
            intros (_ & IR). rewrite PP, <- PK in IR. lia.
          * rewrite Z.geb_leb in OOB. apply Z.leb_gt in OOB.
            rewrite (wrap64_id (s_p s + s_pp s)) by lia.
            rewrite (wrap64_id (s_p s + s_pp s - 1)) by lia.
            rewrite (wrap64_id (s_p s + s_pp s - 1 - 1)) by (unfold two63 in *; lia).
            cbn [ures_ok]. split; [|split; auto; intros; discriminate].
            unfold G_hnd; sc; cbn [h_ph h_moved h_jumped]. split; [intros; discriminate|]. split; [lia|]. split; [lia|]. split; auto.
            split; [|rewrite PE; apply no_herr_none]. apply GC. split; [lia|]. rewrite PP, <- PK. lia.
    Qed.

    Lemma hnd_nonneg : forall u ha ha' s,
      hnd_step u ha = Some ha' -> G_hnd ha s ->
      is_fstart u = true \/ is_segstart u = true -> 0 <= s_p s.
    Proof.
      intros u ha ha' s HS (_ & PL & _) [U|U]; destruct u; try discriminate;
        destruct ha as [ph mv jp]; cbn [hnd_step h_ph h_moved h_jumped] in *;
        destruct ph; try discriminate; destruct jp; try discriminate; lia.
    Qed.

    (** *** blocks *)
    Definition Gmid (c : class) (ha : hst) (k : kst) (g : gst) (s : st) : Prop :=
      stack_ok c s /\ G_hnd ha s /\ G_key k s /\ G_seg g s.

    Definition push_or_pop (us : list unit_) (s1 s' : st) (d : Z) : Prop :=
      exists t cp l j, s' = set_stk s1 t cp l j /\ t = len l /\ cp = t + len j /\
        ((exists ret, block_end us = BCallTo ret d /\ l = ret :: s_live s1) \/
         (block_end us = BRet /\ s_live s1 = d :: l)).

    Lemma block_end_cons : forall u r, unit_ends u = false -> block_end (u :: r) = block_end r.
    Proof. intros u r H. destruct u; try discriminate; reflexivity. Qed.

    Lemma units_sound : forall us c ha k g s ea ek eg,
      forallb (unit_cls_ok c) us = true -> forallb unit_const_ok us = true ->
      (existsb is_handle_nokeep us = true -> ignores_pp rm (bz b0) = true) ->
      (existsb is_ppjump us = true -> pe < two63) ->
      Gmid c ha k g s ->
      arun hnd_step us ha = Some ea -> arun key_step us k = Some ek -> arun seg_step us g = Some eg ->
      match exec_units md data h pe us s with
      | RCont s' => block_end us = BFall /\ Gmid c ea ek eg s'
      | RGoto s' d => ph_none ea = true /\ exists s1, Gmid c ea ek eg s1 /\ push_or_pop us s1 s' d
      | ROut s' => exit_ok s'
      | RRet p e s' => calls_post (Some e) (s_calls s')
      | RPanic _ => False
      end.
    Proof.
      induction us as [|u r IH]; intros c ha k g s ea ek eg F1 F2 F3 F4 GM AH AK AG.
      - cbn in *. inversion AH; inversion AK; inversion AG; subst. auto.
      - cbn [forallb] in F1, F2. apply andb_true_iff in F1, F2. destruct F1 as [F1 F1r], F2 as [F2 F2r].
        cbn [existsb] in F3, F4.
        cbn [arun] in AH, AK, AG.
        destruct (hnd_step u ha) as [ha'|] eqn:HS; [|discriminate].
        destruct (key_step u k) as [k'|] eqn:KS; [|discriminate].
        destruct (seg_step u g) as [g'|] eqn:SS; [|discriminate].
        destruct GM as (SK & GH & GK & GS).
        assert (IG : is_handle_nokeep u = true -> ignores_pp rm (bz b0) = true).
        { intros E. apply F3. rewrite E. reflexivity. }
        assert (JL : is_ppjump u = true -> pe < two63).
        { intros E. apply F4. rewrite E. reflexivity. }
        pose proof (unit_hnd u c ha ha' k k' g g' s SK F1 F2 IG JL GH GK GS HS KS SS) as U.
        cbn [exec_units]. destruct (exec_unit md data h pe u s) as [s1|s1 d|s1|p e s1|pk] eqn:X; cbn [ures_ok] in U.
        + destruct U as (GH' & UE & PM). rewrite UE in AH, AK, AG.
          unfold push_or_pop. rewrite (block_end_cons _ _ UE).
          apply (IH c ha' k' g' s1 ea ek eg); auto.
          { intros E. apply F3. rewrite E. apply orb_true_r. }
          { intros E. apply F4. rewrite E. apply orb_true_r. }
          split; [eapply unit_stack; eauto|]. split; auto. split.
          * eapply unit_key; eauto. intros E. eapply hnd_nonneg; eauto.
          * eapply unit_seg; eauto. intros E. eapply hnd_nonneg; eauto.
        + destruct U as (PN & UE & t & cp & l & j & -> & -> & -> & D).
          rewrite UE in AH, AK, AG. inversion AH; inversion AK; inversion AG; subst.
          destruct ha as [ph mv jp]. unfold ph_none in PN. cbn [h_ph] in PN. destruct ph; try discriminate.
          destruct D as [(chk & bk & ret & -> & ->)|(-> & L)];
            cbn [hnd_step h_ph key_step seg_step] in HS, KS, SS; inversion HS; inversion KS; inversion SS; subst.
          * split; [reflexivity|]. exists s. split; [unfold Gmid; auto|].
            eexists _, _, _, _. split; [reflexivity|]. split; auto. split; auto. left. exists ret. cbn. auto.
          * split; [reflexivity|]. exists s. split; [unfold Gmid; auto|].
            eexists _, _, _, _. split; [reflexivity|]. split; auto.
        + exact U.
        + exact U.
        + exact U.
    Qed.
  End Block.

  (** ** Order and p++ lemmas of the dataflow domains *)
  Lemma key_le_sound : forall a b s, key_le a b = true -> G_key a s -> G_key b s.
  Proof.
    intros a b s H (K1 & K2). unfold key_le in H. apply andb_true_iff in H. destruct H as [H1 H2].
    split.
    - intros m E. rewrite E in H1. destruct (k_lb a) as [n|]; [|discriminate].
      apply Z.leb_le in H1. destruct (K1 _ eq_refl). lia.
    - intros E. rewrite E in H2. cbn in H2. auto.
  Qed.

  Lemma key_incr_sound : forall k s, G_key k s -> G_key (key_incr k) (set_p s (s_p s + 1)).
  Proof.
    intros k s (K1 & K2). unfold G_key, key_incr; sc; cbn. split.
    - intros m E. destruct (k_lb k) as [n|]; [|discriminate]. inversion E; subst.
      destruct (K1 _ eq_refl). lia.
    - intros E. destruct (K2 E) as (? & ? & ?). lia.
  Qed.

  Lemma key_top_sound : forall k s, key_le key_top k = true -> G_key k s.
  Proof.
    intros k s H. eapply key_le_sound; eauto. split; cbn; intros; discriminate.
  Qed.

  Lemma seg_le_sound : forall a b s, seg_le a b = true -> G_seg a s -> G_seg (seg_start b) s.
  Proof.
    intros a b s H (G1 & G2 & G3). unfold seg_le in H. apply andb_true_iff in H. destruct H as [H1 H2].
    unfold G_seg, seg_start; cbn. split; [|split]; try (intros; discriminate).
    - intros E. rewrite E in H1. cbn in H1. apply G1; auto.
    - intros m E. rewrite E in H2. destruct (g_ub a) as [n|]; [|discriminate].
      apply Z.leb_le in H2. specialize (G2 _ eq_refl). lia.
  Qed.

  Lemma seg_incr_sound : forall g s, G_seg g s -> G_seg (seg_incr g) (set_p s (s_p s + 1)).
  Proof.
    intros g s (G1 & G2 & G3). unfold G_seg, seg_incr; sc; cbn. split; [|split]; try (intros; discriminate).
    - intros E. apply G1 in E. lia.
    - intros m E. destruct (g_ub g) as [n|]; [|discriminate]. destruct (n + 1 <=? 5); [|discriminate].
      inversion E; subst. specialize (G2 _ eq_refl). lia.
  Qed.

  Lemma seg_top_sound : forall g s, seg_le seg_top g = true -> G_seg (seg_start g) s.
  Proof.
    intros g s H. eapply seg_le_sound; eauto. split; [|split]; cbn; intros; discriminate.
  Qed.

  (** ** The dispatch invariant and the result predicate *)
  Definition Inv (q : Z) (s : st) : Prop :=
    exists a, assocZ q A = Some a /\ 0 <= s_p s <= pe /\ stack_ok (a_cls a) s /\
      G_key (a_key a) s /\ G_seg (seg_start (a_seg a)) s /\
      calls_pos (s_calls s) /\ calls_good (s_calls s) /\ no_herr (s_err s).

  Definition Good (o : outcome) : Prop :=
    exists p e s, o = ODone p e s /\ (e = None -> 0 <= p <= pe) /\ calls_post e (s_calls s).

  Definition mu (q : Z) (s : st) : Z := 2 * (pe - s_p s) + (if has_jump rm q then 1 else 0).

  (** ** eof units *)
  Lemma eof_sound : forall us segok errset s,
    eof_scan segok errset us = true -> s_p s = pe ->
    (segok = true -> 0 <= s_seg s <= s_p s) -> (errset = true -> s_err s <> None) ->
    calls_pos (s_calls s) -> calls_good (s_calls s) -> no_herr (s_err s) ->
    match exec_units md data h pe us s with
    | RCont s' => s_p s' = pe /\ calls_post (s_err s') (s_calls s')
    | ROut s' => s_err s' <> None /\ calls_post (s_err s') (s_calls s')
    | RRet p e s' => calls_post (Some e) (s_calls s')
    | _ => False
    end.
  Proof.
    induction us as [|u r IH]; intros segok errset s ES P SG ER CP CG NH.
    - cbn. split; auto. apply post_none; auto.
    - cbn [exec_units]. destruct u; cbn [eof_scan] in ES; try discriminate; cbn [exec_unit].
      + (* UReturnErr *) apply post_none; auto. apply no_herr_const; auto.
      + (* USetErr *) apply andb_true_iff in ES. destruct ES as [E1 E2].
        apply (IH segok true); sc; auto. * intros _. discriminate. * apply no_herr_const; auto.
      + (* UBreak *) cbn [brk]. sc. split; auto. apply post_none; auto.
      + (* UBreakIfErr *) destruct (s_err s) eqn:E.
        * cbn [brk]. sc. rewrite E. split; [discriminate|]. apply post_none; auto.
        * apply (IH segok errset); auto; rewrite E; auto.
      + (* UAppendSeg *) apply andb_true_iff in ES. destruct ES as [E1 E2].
        specialize (SG E1). destruct (slice_some data (s_seg s) (s_p s)) as (seg & ->); try lia.
        apply (IH segok errset); sc; auto.
      + (* UAppendByte *) apply (IH segok errset); sc; auto.
      + (* USetVal *) apply (IH segok errset); sc; auto.
  Qed.

  Hypothesis HA : chk_all rm A = true.

  Lemma chk_parts :
    chk_start rm A = true /\ chk_struct rm A = true /\ chk_blocks rm A = true /\
    chk_unknown rm A = true /\ chk_consts rm A = true /\ chk_cls rm A = true /\ chk_hnd rm A = true /\
    chk_key rm A = true /\ chk_seg rm A = true /\ chk_eof rm A = true /\ chk_eofk rm = true.
  Proof.
    pose proof HA as H0. unfold chk_all in H0. repeat (apply andb_true_iff in H0; destruct H0 as [H0 ?]). repeat split; auto.
  Qed.

  Lemma eof_good : forall q s, Inv q s -> s_p s = pe -> Good (eof_phase md (of_raw rm) data h pe q s).
  Proof.
    intros q s (a & HAq & PR & SK & GK & GS & CP & CG & NH) P.
    destruct chk_parts as (_ & _ & _ & _ & _ & _ & _ & _ & _ & CE & _).
    unfold chk_eof in CE. rewrite forallb_forall in CE. specialize (CE _ (assocZ_In _ _ _ HAq)). cbn [fst snd] in CE.
    unfold eof_phase. cbn [m_eof of_raw].
    pose proof (eof_sound _ _ _ s CE P) as E.
    destruct GS as (G1 & _). cbn [seg_start g_ok] in G1.
    specialize (E G1). assert (false = true -> s_err s <> None) as ER by (intros; discriminate).
    specialize (E ER CP CG NH).
    destruct (exec_units md data h pe (raw_eof rm q) s) as [s'|s' d|s'|p e s'|k]; try contradiction.
    - destruct E as (E1 & E2). exists (s_p s'), (s_err s'), s'. split; auto. split; auto. intros _. pose proof (len_nonneg data). lia.
    - destruct E as (E1 & E2). exists (s_p s'), (s_err s'), s'. split; auto. split; auto. intros. contradiction.
    - exists p, (Some e), s'. split; auto. split; auto. intros; discriminate.
  Qed.

  Lemma hnd_step_jumped : forall u a a',
    hnd_step u a = Some a' -> h_jumped a' = true -> h_jumped a = true \/ is_ppjump u = true.
  Proof.
    intros u [ph mv jp] a' H J.
    destruct ph; destruct u; cbn [hnd_step h_ph h_moved h_jumped] in H; try discriminate;
      repeat match type of H with context [if ?x then _ else _] => destruct x end;
      try discriminate; inversion H; subst; cbn in *; auto.
  Qed.

  Lemma arun_jumped : forall us a e,
    arun hnd_step us a = Some e -> h_jumped e = true -> h_jumped a = true \/ existsb is_ppjump us = true.
  Proof.
    induction us as [|u r IH]; intros a e H J; cbn in H.
    - inversion H; subst; auto.
    - destruct (hnd_step u a) as [a'|] eqn:HS; [|discriminate]. cbn [existsb].
      destruct (unit_ends u).
      + inversion H; subst. destruct (hnd_step_jumped _ _ _ HS J) as [K|K]; auto. rewrite K. auto.
      + destruct (IH _ _ H J) as [K|K].
        * destruct (hnd_step_jumped _ _ _ HS K) as [K'|K']; auto. rewrite K'. auto.
        * rewrite K. right. apply orb_true_r.
  Qed.

  Lemma goto_sound : forall s' d' M,
    (d' = 0 -> exit_ok s') ->
    (d' <> 0 -> Inv d' (set_p s' (s_p s' + 1)) /\ mu d' (set_p s' (s_p s' + 1)) < M) ->
    match goto_step md (of_raw rm) data h pe s' d' with
    | SDone o => Good o
    | SNext q' s'' => Inv q' s'' /\ s_p s'' < pe /\ mu q' s'' < M
    end.
  Proof.
    intros s' d' M H0 H1. unfold goto_step.
    destruct (d' =? 0) eqn:E.
    - apply Z.eqb_eq in E. destruct (H0 E) as (X1 & X2). exists (s_p s'), (s_err s'), s'. auto.
    - apply Z.eqb_neq in E. destruct (H1 E) as (I & MU).
      destruct chk_parts as (_ & CS & _).
      assert (IS : m_is_state (of_raw rm) d' = true).
      { destruct I as (a & HAq & _). cbn [m_is_state of_raw]. eapply ann_is_state; eauto. }
      rewrite IS. cbn [negb].
      destruct (s_p (set_p s' (s_p s' + 1)) =? pe) eqn:EP.
      + apply Z.eqb_eq in EP. apply eof_good; auto.
      + apply Z.eqb_neq in EP. split; auto. split; auto.
        destruct I as (a & _ & PR & _). lia.
  Qed.

  Lemma mu_next : forall p0 b0 ea s' q d s,
    s_p s = p0 -> G_hnd p0 b0 ea s' ->
    (h_jumped ea = true -> has_jump rm q = true /\ has_jump rm d = false) ->
    mu d (set_p s' (s_p s' + 1)) < mu q s.
  Proof.
    intros p0 b0 ea s' q d s P (_ & PL & PU & _) J. unfold mu; sc.
    destruct (h_jumped ea).
    - destruct (J eq_refl) as (J1 & J2). rewrite J1, J2. lia.
    - destruct (has_jump rm q), (has_jump rm d); lia.
  Qed.

  Lemma Inv_next : forall p0 b0 ea ek eg s' d a_d,
    0 <= p0 ->
    G_hnd p0 b0 ea s' -> ph_none ea = true -> G_key ek s' -> G_seg eg s' ->
    assocZ d A = Some a_d -> stack_ok (a_cls a_d) s' ->
    key_le (key_incr ek) (a_key a_d) = true -> seg_le (seg_incr eg) (a_seg a_d) = true ->
    Inv d (set_p s' (s_p s' + 1)).
  Proof.
    intros p0 b0 ea ek eg s' d a_d P0 (M & PL & PU & CP & PH) PN GK GS HAd SK KL SL.
    unfold ph_none in PN. destruct (h_ph ea); try discriminate. destruct PH as (CG & NH).
    exists a_d. split; auto. sc. split; [destruct (h_jumped ea); lia|]. split; [exact SK|].
    split; [eapply key_le_sound; eauto; apply key_incr_sound; auto|].
    split; [eapply seg_le_sound; eauto; apply seg_incr_sound; auto|]. auto.
  Qed.

  Lemma step_sound : forall q s,
    Inv q s -> s_p s < pe ->
    match step md (of_raw rm) data h pe q s with
    | SDone o => Good o
    | SNext q' s' => Inv q' s' /\ s_p s' < pe /\ mu q' s' < mu q s
    end.
  Proof.
    intros q s (a & HAq & PR & SK & GK & GS & CP & CG & NH) PU.
    destruct chk_parts as (_ & CST & CBL & CUN & CCO & CCL & CHN & CKE & CSE & _).
    unfold step. destruct (get_in_range data (s_p s)) as (b0 & GB); [lia|]. rewrite GB.
    cbn [m_trans of_raw].
    destruct (trans_row rm A CST CBL q a b0 HAq) as (us & d & RS).
    assert (TR : raw_trans rm q b0 = (us, d)) by (destruct RS; auto). rewrite TR.
    pose proof (rowsel_check rm A _ q a b0 us d CCO HAq RS) as FCO. cbn beta in FCO.
    pose proof (rowsel_check rm A _ q a b0 us d CCL HAq RS) as FCL.
    pose proof (rowsel_check rm A _ q a b0 us d CHN HAq RS) as FHN.
    pose proof (rowsel_check rm A _ q a b0 us d CKE HAq RS) as FKE.
    pose proof (rowsel_check rm A _ q a b0 us d CSE HAq RS) as FSE.
    unfold cls_row in FCL. apply andb_true_iff in FCL. destruct FCL as [FCL ECL].
    unfold hnd_row in FHN. destruct (arun hnd_step us hinit) as [ea|] eqn:AH; [|discriminate].
    apply andb_true_iff in FHN. destruct FHN as [PN EHN].
    unfold key_row in FKE. destruct (arun key_step us (a_key a)) as [ek|] eqn:AK; [|discriminate].
    unfold seg_row in FSE. destruct (arun seg_step us (seg_start (a_seg a))) as [eg|] eqn:AG; [|discriminate].
    assert (P0 : 0 <= s_p s) by lia.
    assert (GH0 : G_hnd (s_p s) b0 hinit s).
    { unfold G_hnd, hinit; cbn. repeat split; auto; lia. }
    assert (IGN : existsb is_handle_nokeep us = true -> ignores_pp rm (bz b0) = true).
    { intros E. eapply rowsel_ignores; eauto. }
    assert (JLN : existsb is_ppjump us = true -> pe < two63).
    { intros E. destruct Hlen as [L|L]; auto.
      pose proof (rowsel_has_jump rm q b0 us d RS E) as X. rewrite (L q) in X. discriminate. }
    pose proof (units_sound (s_p s) b0 P0 GB us (a_cls a) hinit (a_key a) (seg_start (a_seg a)) s ea ek eg
                  FCL FCO IGN JLN (conj SK (conj GH0 (conj GK GS))) AH AK AG) as U.
    assert (JQ : h_jumped ea = true -> has_jump rm q = true).
    { intros J. destruct (arun_jumped _ _ _ AH J) as [K|K]; [discriminate|]. eapply rowsel_has_jump; eauto. }
    destruct (exec_units md data h pe us s) as [s'|s' d'|s'|p e s'|k].
    - (* fall through to the row destination *)
      destruct U as (BE & SK' & GH' & GK' & GS'). rewrite BE in *.
      apply goto_sound.
      + intros D0. subst d. rewrite Z.eqb_refl in EHN. cbn in EHN.
        rewrite orb_false_r in EHN. apply negb_true_iff in EHN.
        destruct GH' as (M & PL & PU' & CP' & PH). rewrite EHN in PL.
        unfold ph_none in PN. destruct (h_ph ea); try discriminate. destruct PH as (CG' & NH').
        split; [intros; lia|]. apply post_none; auto.
      + intros DN. apply Z.eqb_neq in DN. rewrite DN in *. cbn [orb negb andb] in *.
        unfold cls_is in ECL. destruct (assocZ d A) as [a_d|] eqn:HAd; [|discriminate].
        unfold key_at in FKE. rewrite HAd in FKE. unfold seg_at in FSE. rewrite HAd in FSE.
        assert (CE : a_cls a_d = a_cls a) by (destruct (a_cls a_d), (a_cls a); try discriminate; reflexivity).
        split.
        * eapply Inv_next; eauto. rewrite CE. exact SK'.
        * eapply mu_next; eauto. intros J. split; auto.
          rewrite J in EHN. cbn in EHN. apply negb_true_iff in EHN. exact EHN.
    - (* call / return *)
      destruct U as (PN' & s1 & (SK' & GH' & GK' & GS') & t & cp & l & j & -> & -> & -> & D).
      assert (DN : d' <> 0 /\ exists a_d, assocZ d' A = Some a_d /\ stack_ok (a_cls a_d) (set_stk s1 (len l) (len l + len j) l j)
                   /\ key_le (key_incr ek) (a_key a_d) = true /\ seg_le (seg_incr eg) (a_seg a_d) = true
                   /\ (h_jumped ea = true -> has_jump rm d' = false)).
      { destruct D as [(ret & BE & ->)|(BE & L)]; rewrite BE in *.
        - apply andb_true_iff in ECL. destruct ECL as [EC1 EC2].
          apply andb_true_iff in FKE. destruct FKE as [FK1 FK2].
          apply andb_true_iff in FSE. destruct FSE as [FS1 FS2].
          unfold cls_is in EC1, EC2. unfold key_at in FK1, FK2. unfold seg_at in FS1, FS2.
          destruct (assocZ d' A) as [a_d|] eqn:HAd; [|discriminate].
          destruct (assocZ ret A) as [a_r|] eqn:HAr; [|discriminate].
          split; [eapply ann_struct; eauto|].
          exists a_d. split; auto.
          assert (CE : a_cls a_d = CSub) by (destruct (a_cls a_d); try discriminate; reflexivity).
          assert (CR : a_cls a_r = a_cls a) by (destruct (a_cls a_r), (a_cls a); try discriminate; reflexivity).
          split; [|split; auto; split; auto].
          + unfold stack_ok; sc. split; auto. split; auto. rewrite CE. cbn [shape]. split; auto.
            exists a_r. split; auto. split; auto. split; auto. rewrite CR. apply SK'.
          + intros J. rewrite J in EHN. cbn in EHN. apply negb_true_iff in EHN. exact EHN.
        - destruct SK' as (_ & _ & SH). rewrite L in SH. cbn [shape] in SH.
          destruct SH as (CC & a_d & HAd & KT & ST & SH).
          split; [eapply ann_struct; eauto|].
          exists a_d. split; auto. split; [unfold stack_ok; sc; auto|].
          split.
          + unfold key_le in *. apply andb_true_iff in KT. destruct KT as [KT1 KT2].
            destruct (k_lb (a_key a_d)); [cbn in KT1; discriminate|].
            destruct (k_fe (a_key a_d)); [cbn in KT2; discriminate|]. reflexivity.
          + split.
            * unfold seg_le in *. apply andb_true_iff in ST. destruct ST as [ST1 ST2].
              destruct (g_ok (a_seg a_d)); [cbn in ST1; discriminate|].
              destruct (g_ub (a_seg a_d)); [cbn in ST2; discriminate|]. reflexivity.
            * intros J.
              (* a jumping row is a CMain row; URet needs CSub *)
              exfalso. clear - AH J CC FCL BE.
              assert (X : existsb is_ppjump us = true).
              { destruct (arun_jumped _ _ _ AH J) as [K|K]; [discriminate|exact K]. }
              apply existsb_exists in X. destruct X as (u & IU & PJ).
              rewrite forallb_forall in FCL. specialize (FCL _ IU). rewrite CC in FCL.
              destruct u; try discriminate. }
      destruct DN as (DN & a_d & HAd & SKd & KL & SL & JD).
      apply goto_sound; [intros; contradiction|]. intros _. split.
      + eapply Inv_next; eauto.
      + eapply mu_next; eauto.
    - exact (let '(conj X1 X2) := U in ex_intro _ (s_p s') (ex_intro _ (s_err s') (ex_intro _ s' (conj eq_refl (conj X1 X2))))).
    - exists p, (Some e), s'. split; auto. split; auto. intros; discriminate.
    - contradiction.
  Qed.

  Lemma run_sound : forall f q s,
    Inv q s -> s_p s < pe -> mu q s < Z.of_nat f -> Good (run md (of_raw rm) data h pe f q s).
  Proof.
    induction f as [|f IH]; intros q s I P M.
    - exfalso. unfold mu in M. destruct (has_jump rm q); lia.
    - rewrite run_step. pose proof (step_sound q s I P) as S.
      destruct (step md (of_raw rm) data h pe q s) as [o|q' s']; auto.
      destruct S as (I' & P' & M'). apply IH; auto. lia.
  Qed.

  Lemma Inv_init : forall stack dst, Inv (rm_start rm) (init_st stack dst).
  Proof.
    intros stack dst. destruct chk_parts as (CS & _). unfold chk_start in CS.
    destruct (assocZ (rm_start rm) A) as [a|] eqn:HAq; [|discriminate].
    apply andb_true_iff in CS. destruct CS as [CS SL]. apply andb_true_iff in CS. destruct CS as [CC KL].
    exists a. split; auto. unfold init_st; sc. pose proof (len_nonneg data).
    split; [lia|]. split.
    - unfold stack_ok; sc. split; [reflexivity|]. split; [change (len (@nil Z)) with 0; lia|].
      cbn. destruct (a_cls a); [reflexivity|discriminate].
    - split.
      + eapply key_le_sound; eauto. split; cbn; intros; [inversion H0; subst; lia|discriminate].
      + split.
        * eapply seg_le_sound; eauto. split; [|split]; cbn; intros; try discriminate; try lia.
          inversion H0; subst. lia.
        * split; [constructor|]. split; [exact I|]. apply no_herr_none.
  Qed.

  Lemma prun_good : forall stack dst, Good (prun md (of_raw rm) data h stack dst).
  Proof.
    intros stack dst. unfold prun. pose proof (Inv_init stack dst) as I.
    destruct (0 =? pe) eqn:E.
    - apply Z.eqb_eq in E. apply eof_good; auto.
    - apply Z.eqb_neq in E. pose proof (len_nonneg data). apply run_sound; auto.
      + cbn. lia.
      + unfold mu, fuel_for. cbn [s_p init_st]. unfold len. cbn [m_start of_raw]. destruct (has_jump rm (rm_start rm)); lia.
  Qed.
End Sound.

(* ====================================================================== *)
(** * Part 4: the theorems *)
(** machines without any UPPJump need no bound on the input length *)
Definition no_jumps (rm : rawmachine) : bool :=
  forallb (fun qr : Z * list (Z * Z * Z * Z) => negb (has_jump rm (fst qr))) (rm_rows rm).

Lemma no_jumps_sound : forall rm, no_jumps rm = true -> forall q, has_jump rm q = false.
Proof.
  intros rm H q. destruct (has_jump rm q) eqn:E; auto.
  unfold has_jump in E. destruct (assocZ q (rm_rows rm)) as [rows|] eqn:R; [|discriminate].
  unfold no_jumps in H. rewrite forallb_forall in H. specialize (H _ (assocZ_In _ _ _ R)).
  cbn [fst] in H. unfold has_jump in H. rewrite R, E in H. discriminate.
Qed.

Definition len_ok (rm : rawmachine) (data : list byte) : Prop :=
  len data <= maxint \/ no_jumps rm = true.

Lemma len_ok_hyp : forall rm data, len_ok rm data ->
  len data < two63 \/ (forall q, has_jump rm q = false).
Proof.
  intros rm data [H|H]; [left; unfold maxint in H; lia|right; apply no_jumps_sound; auto].
Qed.

Lemma wf_check_all : forall rm, wf_check rm = true -> chk_all rm (compute_ann rm) = true.
Proof. intros rm H. exact H. Qed.

(** The master statement: the run ends normally; an offset reported with a nil error is in
    range; and the call history has one of three shapes ([calls_post]). *)
Theorem prun_good_wf : forall rm md data h stack dst,
  wf_check rm = true -> len_ok rm data ->
  Good rm data h (prun md (of_raw rm) data h stack dst).
Proof.
  intros rm md data h stack dst W L.
  eapply prun_good; eauto using len_ok_hyp, wf_check_all.
Qed.

(** C10: never OPanic, never OOutOfFuel (with the fuel [2*|data|+2] built into [prun]);
    offsets reported with a nil error are in range.  [0 <= md] is not needed by the proof.
    [len data <= maxint] holds for every Go slice; without it the theorem is FALSE for the two
    handler machines (p + pp wraps), see [machines_safe_nojump] for the others. *)
Theorem machines_safe : forall rm md data h stack dst,
  wf_check rm = true -> 0 <= md -> len data <= maxint ->
  exists p e s, prun md (of_raw rm) data h stack dst = ODone p e s
                /\ (e = None -> 0 <= p <= len data).
Proof.
  intros rm md data h stack dst W _ L.
  destruct (prun_good_wf rm md data h stack dst W (or_introl L)) as (p & e & s & E & R & _).
  exists p, e, s. auto.
Qed.

(** the statement exactly as asked (no bound on [len data]) for machines without UPPJump *)
Theorem machines_safe_nojump : forall rm md data h stack dst,
  wf_check rm = true -> no_jumps rm = true -> 0 <= md ->
  exists p e s, prun md (of_raw rm) data h stack dst = ODone p e s
                /\ (e = None -> 0 <= p <= len data).
Proof.
  intros rm md data h stack dst W NJ _.
  destruct (prun_good_wf rm md data h stack dst W (or_intror NJ)) as (p & e & s & E & R & _).
  exists p, e, s. auto.
Qed.

(** every handler call was made at a position inside the data *)
Theorem handler_calls_in_range : forall rm md data h stack dst p e s,
  wf_check rm = true -> 0 <= md -> len data <= maxint ->
  prun md (of_raw rm) data h stack dst = ODone p e s ->
  forall c, In c (s_calls s) -> 0 <= c_p c < len data.
Proof.
  intros rm md data h stack dst p e s W _ L E c I.
  destruct (prun_good_wf rm md data h stack dst W (or_introl L)) as (p' & e' & s' & E' & _ & CP & _).
  rewrite E in E'. inversion E'; subst. unfold calls_pos in CP. rewrite Forall_forall in CP. auto.
Qed.

Lemma calls_good_suffix : forall rm data h pre c cs,
  calls_good rm data h (pre ++ c :: cs) -> good_call rm data h c cs.
Proof.
  induction pre as [|x pre IH]; intros c cs H; cbn in H.
  - apply H.
  - apply IH. apply H.
Qed.

Lemma cons_eq_app : forall {A} (c1 : A) r pre c cs,
  c1 :: r = pre ++ c :: cs ->
  (pre = [] /\ c1 = c /\ r = cs) \/ (exists pre', pre = c1 :: pre' /\ r = pre' ++ c :: cs).
Proof.
  intros A c1 r pre c cs H. destruct pre as [|x pre]; cbn in H; inversion H; subst; eauto.
Qed.

(** C09.  [s_calls s] lists the handler calls, most recent first; the handler's answer to the
    call [c] made after the earlier calls [cs] is [h (c :: cs)].
    (1) every call except the last one was answered without an error (so: after an error no
        further call is made);
    (2) the run returns [EHandler tok] -- the handler's own error value, by identity -- if and
        only if the last call was answered with that error, whatever offset came with it. *)
Theorem handler_error_stops : forall rm md data h stack dst p e s,
  wf_check rm = true -> 0 <= md -> len data <= maxint ->
  prun md (of_raw rm) data h stack dst = ODone p e s ->
  (forall pre c cs, s_calls s = pre ++ c :: cs -> pre <> [] -> h_err (h (c :: cs)) = None) /\
  (forall tok, e = Some (EHandler tok) <->
               exists c cs, s_calls s = c :: cs /\ h_err (h (c :: cs)) = Some tok).
Proof.
  intros rm md data h stack dst p e s W _ L E.
  destruct (prun_good_wf rm md data h stack dst W (or_introl L)) as (p' & e' & s' & E' & _ & CP & PO).
  rewrite E in E'. inversion E'; subst p' e' s'. clear E'.
  destruct PO as [(CG & NH)|[(c1 & r & tok1 & SC & CG & HE & EE)|(c1 & r & SC & CG & HE & NR & EE)]].
  - split.
    + intros pre c cs SC _. rewrite SC in CG. apply calls_good_suffix in CG. apply CG.
    + intros tok. split.
      * intros EE. exfalso. eapply NH; eauto.
      * intros (c & cs & SC & HE). rewrite SC in CG. destruct CG as ((HN & _) & _). congruence.
  - split.
    + intros pre c cs SC' PN. rewrite SC in SC'.
      destruct (cons_eq_app _ _ _ _ _ SC') as [(-> & _)|(pre' & -> & ->)]; [contradiction|].
      apply calls_good_suffix in CG. apply CG.
    + intros tok. split.
      * intros EE'. rewrite EE in EE'. inversion EE'; subst. exists c1, r. rewrite SC in HE. auto.
      * intros (c & cs & SC' & HE'). rewrite SC in SC'. inversion SC'; subst.
        rewrite SC in HE. congruence.
  - split.
    + intros pre c cs SC' PN. rewrite SC in SC'.
      destruct (cons_eq_app _ _ _ _ _ SC') as [(-> & _)|(pre' & -> & ->)]; [contradiction|].
      apply calls_good_suffix in CG. apply CG.
    + intros tok. split.
      * intros EE'. rewrite EE in EE'. discriminate.
      * intros (c & cs & SC' & HE'). rewrite SC in SC'. inversion SC'; subst.
        rewrite SC in HE. congruence.
Qed.

(** C10, last sentence.  If some call [c] (made at a byte where no reachable row of the table
    ignores the returned offset: [ignores_pp rm b = false]; for the two handler machines these
    are the bytes 34 (double quote), 91 (open bracket) and 123 (open brace)) was answered without an error but with an offset [pp]
    (as an int64: [wrap64]) that is negative or points beyond the end of the data, then that
    call is the LAST call and the run returns [EPOutOfRange]. *)
Theorem handler_offset_out_of_range_is_error : forall rm md data h stack dst p e s,
  wf_check rm = true -> 0 <= md -> len data <= maxint ->
  prun md (of_raw rm) data h stack dst = ODone p e s ->
  forall pre c cs b,
    s_calls s = pre ++ c :: cs ->
    h_err (h (c :: cs)) = None ->
    get data (c_p c) = Some b -> ignores_pp rm (bz b) = false ->
    (wrap64 (h_pp (h (c :: cs))) < 0 \/ c_p c + wrap64 (h_pp (h (c :: cs))) > len data) ->
    pre = [] /\ e = Some EPOutOfRange.
Proof.
  intros rm md data h stack dst p e s W _ L E pre c cs b SC HE GB IP BAD.
  destruct (prun_good_wf rm md data h stack dst W (or_introl L)) as (p' & e' & s' & E' & _ & CP & PO).
  rewrite E in E'. inversion E'; subst p' e' s'. clear E'.
  assert (NG : ~ good_call rm data h c cs).
  { intros (_ & G). specialize (G _ GB IP). destruct G as (G1 & G2). lia. }
  destruct PO as [(CG & NH)|[(c1 & r & tok1 & SC1 & CG & HE1 & EE)|(c1 & r & SC1 & CG & HE1 & NR & EE)]].
  - exfalso. apply NG. rewrite SC in CG. eapply calls_good_suffix; eauto.
  - exfalso. rewrite SC1 in SC.
    destruct (cons_eq_app _ _ _ _ _ SC) as [(-> & -> & ->)|(pre' & -> & ->)].
    + rewrite SC1 in HE1. congruence.
    + apply NG. eapply calls_good_suffix; eauto.
  - rewrite SC1 in SC.
    destruct (cons_eq_app _ _ _ _ _ SC) as [(-> & -> & ->)|(pre' & -> & ->)]; auto.
    exfalso. apply NG. eapply calls_good_suffix; eauto.
Qed.

(* ====================================================================== *)
(** * Part 5: C14 *)
(** * C14: the contents of the buffer and scribbling handlers are irrelevant *)
Definition nohavoc (h : handler) : handler :=
  fun calls => let r := h calls in {| h_pp := h_pp r; h_err := h_err r; h_havoc := [] |}.

Inductive observation :=
| ObsDone (p : Z) (e : option errk) (calls : list call) (dst : list byte) (val : bool)
| ObsPanic (k : pank)
| ObsOutOfFuel.

(** everything except the stack fields s_top/s_cap/s_live/s_junk (and the scratch fields) *)
Definition obs (o : outcome) : observation :=
  match o with
  | ODone p e s => ObsDone p e (s_calls s) (s_dst s) (s_val s)
  | OPanic k => ObsPanic k
  | OOutOfFuel => ObsOutOfFuel
  end.

(** equal up to the dead part of the stack array *)
Definition erase (s : st) : st := set_stk s (s_top s) 0 (s_live s) [].
Definition R (s1 s2 : st) : Prop := erase s1 = erase s2.

Definition ures_rel (r1 r2 : ures) : Prop :=
  match r1, r2 with
  | RPanic _, _ => True
  | _, RPanic _ => True
  | RCont a, RCont b => R a b
  | RGoto a d, RGoto b d' => d = d' /\ R a b
  | ROut a, ROut b => R a b
  | RRet p e a, RRet p' e' b => p = p' /\ e = e' /\ R a b
  | _, _ => False
  end.

Definition o_rel (o1 o2 : outcome) : Prop :=
  match o1, o2 with
  | OPanic _, _ => True
  | _, OPanic _ => True
  | ODone p e a, ODone p' e' b => p = p' /\ e = e' /\ R a b
  | OOutOfFuel, OOutOfFuel => True
  | _, _ => False
  end.

Definition is_panic (o : outcome) : Prop := match o with OPanic _ => True | _ => False end.

Definition sres_rel (r1 r2 : sres) : Prop :=
  match r1, r2 with
  | SDone o1, SDone o2 => o_rel o1 o2
  | SNext q1 a, SNext q2 b => q1 = q2 /\ R a b
  | SDone o1, SNext _ _ => is_panic o1
  | SNext _ _, SDone o2 => is_panic o2
  end.

Lemma R_fields : forall s1 s2, R s1 s2 ->
  s_p s1 = s_p s2 /\ s_err s1 = s_err s2 /\ s_live s1 = s_live s2 /\ s_calls s1 = s_calls s2 /\
  s_dst s1 = s_dst s2 /\ s_val s1 = s_val s2.
Proof.
  intros [] [] H. unfold R, erase in H. cbn in H. inversion H; subst. cbn. auto 10.
Qed.

Ltac rfl := unfold R, erase; cbn; reflexivity.
Ltac fin := cbn [ures_rel];
  first [exact I | rfl | (split; [reflexivity|rfl]) | (split; [reflexivity|split; [reflexivity|rfl]])].

Section Rel.
  Variable md : Z.
  Variable data : list byte.
  Variable h : handler.
  Notation pe := (len data).
  Notation h' := (nohavoc h).

  Lemma unit_rel : forall u s1 s2,
    R s1 s2 -> (is_handle u = true -> s_live s1 = []) ->
    ures_rel (exec_unit md data h pe u s1) (exec_unit md data h' pe u s2).
  Proof.
    intros u [p1 e1 t1 c1 l1 j1 pp1 fs1 fe1 sg1 d1 ub1 ok1 v1 cl1] [p2 e2 t2 c2 l2 j2 pp2 fs2 fe2 sg2 d2 ub2 ok2 v2 cl2] H HL.
    unfold R, erase in H. cbn in H. inversion H; subst. clear H. sc.
    destruct u; cbn [exec_unit]; sc; try fin.
    - (* UBreakIfErr *) destruct e2; fin.
    - (* UScanDec *) destruct (skipFloatDec data (p2 + 1)). fin.
    - (* UScanExp *) destruct (skipFloatExp data (p2 + 1)). fin.
    - (* UCall *)
      destruct (depth_check && (t2 =? md)); [fin|].
      destruct (if t2 + 1 >=? c1 then if 1 + t2 - c1 <? 0 then None else Some (j1 ++ zrepeat (Z.to_nat (1 + t2 - c1)), c1 + (1 + t2 - c1)) else Some (j1, c1)) as [[ja ca]|];
      destruct (if t2 + 1 >=? c2 then if 1 + t2 - c2 <? 0 then None else Some (j2 ++ zrepeat (Z.to_nat (1 + t2 - c2)), c2 + (1 + t2 - c2)) else Some (j2, c2)) as [[jb cb]|];
      try destruct ja; try destruct jb; fin.
    - (* URet *) destruct l2; fin.
    - (* UHandle *)
      specialize (HL eq_refl). subst l2.
      destruct (if is_obj then slice data (fs2 + 1) (fe2 - 1) else Some []) as [key|]; [|exact I].
      destruct ((0 <=? p2) && (p2 <=? pe)); [|exact I].
      unfold nohavoc at 3. cbn [h_havoc].
      destruct (h_havoc (h ({| c_p := p2; c_key := key; c_obj := is_obj |} :: cl2))); cbn [ures_rel];
        destruct keep_pp; unfold R, erase, nohavoc; cbn; reflexivity.
    - (* UHandlerErrRet *) destruct e2; fin.
    - (* UPPNeg *) destruct (pp2 <? 0); fin.
    - (* UPPJump *) destruct (pp2 =? 0); [fin|].
      destruct (if safe then _ else _); fin.
    - (* UAppendSeg *) destruct (slice data sg2 p2); fin.
    - (* UUnescapeU *) destruct ((0 <=? sg2) && (sg2 <=? pe)); [|exact I].
      destruct (unescapeUnicodeChar (skipn (Z.to_nat sg2) data) d2) as [[d n] ok]. fin.
    - (* UNotOkRet *) destruct ok2; [fin|]. destruct (get data p2); fin.
    - (* UAdvanceU *) destruct (ub2 >? 6); fin.
  Qed.

  Lemma unit_live : forall hh u s s',
    exec_unit md data hh pe u s = RCont s' -> (is_handle u = true -> s_live s = []) -> s_live s' = s_live s.
  Proof.
    intros hh u s s' H HL. destruct (is_handle u) eqn:IH.
    - specialize (HL eq_refl). destruct u; try discriminate. cbn [exec_unit] in H.
      destruct (if is_obj then slice data (s_fs s + 1) (s_fe s - 1) else Some []); [|discriminate].
      destruct ((0 <=? s_p s) && (s_p s <=? pe)); [|discriminate].
      destruct (h_havoc _); inversion H; subst; destruct keep_pp; sc; rewrite HL; reflexivity.
    - destruct (unit_frame _ _ _ _ _ _ H) as (F & _). apply F; auto.
  Qed.

  Lemma units_rel : forall us s1 s2,
    R s1 s2 -> (existsb is_handle us = true -> s_live s1 = []) ->
    ures_rel (exec_units md data h pe us s1) (exec_units md data h' pe us s2).
  Proof.
    induction us as [|u r IH]; intros s1 s2 HR HL.
    - cbn. exact HR.
    - cbn [exec_units]. cbn [existsb] in HL.
      assert (HU : is_handle u = true -> s_live s1 = []).
      { intros E. apply HL. rewrite E. reflexivity. }
      pose proof (unit_rel u s1 s2 HR HU) as U.
      destruct (exec_unit md data h pe u s1) as [a|a d|a|p e a|k] eqn:X1;
      destruct (exec_unit md data h' pe u s2) as [b|b d'|b|p' e' b|k'] eqn:X2; cbn [ures_rel] in U |- *; auto; try contradiction.
      + apply IH; auto. intros E. rewrite (unit_live _ _ _ _ X1 HU). apply HL. rewrite E. apply orb_true_r.
      + destruct (exec_units md data h pe r a); exact I.
  Qed.

  Variable rm : rawmachine.
  Hypothesis EOFK : chk_eofk rm = true.

  Lemma eof_no_handle : forall q, existsb is_handle (raw_eof rm q) = false.
  Proof.
    intros q. unfold raw_eof. destruct (assocZ q (rm_eof rm)) as [us|] eqn:E; [|reflexivity].
    unfold chk_eofk in EOFK. rewrite forallb_forall in EOFK. specialize (EOFK _ (assocZ_In _ _ _ E)).
    cbn [snd] in EOFK. destruct (existsb is_handle us) eqn:X; auto.
    apply existsb_exists in X. destruct X as (u & IU & HU). rewrite forallb_forall in EOFK.
    specialize (EOFK _ IU). destruct u; discriminate.
  Qed.

  Lemma eof_rel : forall q s1 s2, R s1 s2 ->
    o_rel (eof_phase md (of_raw rm) data h pe q s1) (eof_phase md (of_raw rm) data h' pe q s2).
  Proof.
    intros q s1 s2 HR. unfold eof_phase. cbn [m_eof of_raw].
    assert (HL : existsb is_handle (raw_eof rm q) = true -> s_live s1 = []).
    { rewrite eof_no_handle. discriminate. }
    pose proof (units_rel _ _ _ HR HL) as U.
    destruct (exec_units md data h pe (raw_eof rm q) s1) as [a|a d|a|p e a|k];
    destruct (exec_units md data h' pe (raw_eof rm q) s2) as [b|b d'|b|p' e' b|k']; cbn [ures_rel o_rel] in U |- *; auto; try contradiction.
    - destruct (R_fields _ _ U) as (E1 & E2 & _). auto.
    - destruct (R_fields _ _ U) as (E1 & E2 & _). auto.
    - destruct U as (-> & -> & U). auto.
  Qed.

  Lemma goto_rel : forall s1 s2 d, R s1 s2 ->
    sres_rel (goto_step md (of_raw rm) data h pe s1 d) (goto_step md (of_raw rm) data h' pe s2 d).
  Proof.
    intros s1 s2 d HR. unfold goto_step. destruct (R_fields _ _ HR) as (E1 & E2 & _).
    destruct (d =? 0); [cbn; auto|].
    destruct (negb (m_is_state (of_raw rm) d)); [exact I|].
    assert (HR' : R (set_p s1 (s_p s1 + 1)) (set_p s2 (s_p s2 + 1))).
    { destruct s1, s2. unfold R, erase in *. cbn in *. inversion HR; subst. reflexivity. }
    cbn [s_p set_p]. rewrite <- E1. destruct (s_p s1 + 1 =? pe).
    - pose proof (eof_rel d _ _ HR') as O. cbn [sres_rel]. rewrite <- E1 in O. exact O.
    - cbn [sres_rel]. split; auto. rewrite <- E1 in HR'. exact HR'.
  Qed.

  Lemma step_rel : forall q s1 s2, R s1 s2 ->
    (forall b us d, get data (s_p s1) = Some b -> raw_trans rm q b = (us, d) ->
                    existsb is_handle us = true -> s_live s1 = []) ->
    sres_rel (step md (of_raw rm) data h pe q s1) (step md (of_raw rm) data h' pe q s2).
  Proof.
    intros q s1 s2 HR HH. unfold step. destruct (R_fields _ _ HR) as (E1 & E2 & _). rewrite <- E1.
    destruct (get data (s_p s1)) as [b|] eqn:GB; [|exact I].
    cbn [m_trans of_raw]. destruct (raw_trans rm q b) as [us d] eqn:TR.
    pose proof (units_rel us _ _ HR (HH _ _ _ eq_refl TR)) as U.
    destruct (exec_units md data h pe us s1) as [a|a d1|a|p e a|k];
    destruct (exec_units md data h' pe us s2) as [b'|b' d2|b'|p' e' b'|k']; cbn [ures_rel] in U; try contradiction; try exact I.
    - apply goto_rel; auto.
    - destruct (goto_step md (of_raw rm) data h pe a d) as [[]|]; exact I.
    - destruct U as (-> & U). apply goto_rel; auto.
    - destruct (goto_step md (of_raw rm) data h pe a d1) as [[]|]; exact I.
    - destruct (R_fields _ _ U) as (F1 & F2 & _). cbn. auto.
    - destruct U as (-> & -> & U). cbn. auto.
    - destruct (goto_step md (of_raw rm) data h' pe b' d) as [[]|]; exact I.
    - destruct (goto_step md (of_raw rm) data h' pe b' d2) as [[]|]; exact I.
  Qed.
End Rel.

Section Rel2.
  Variable rm : rawmachine.
  Variable A : anntab.
  Variable md : Z.
  Variable data : list byte.
  Variable h : handler.
  Notation pe := (len data).
  Notation h' := (nohavoc h).
  Hypothesis Hlen : pe < two63 \/ (forall q, has_jump rm q = false).
  Hypothesis HA : chk_all rm A = true.

  (** handlers run only on an empty machine stack *)
  Lemma handle_main : forall hh q s b us d,
    Inv rm A data hh q s -> raw_trans rm q b = (us, d) ->
    existsb is_handle us = true -> s_live s = [].
  Proof.
    intros hh q s b us d (a & HAq & _ & SK & _) TR EH.
    destruct (chk_parts rm A HA) as (_ & CST & CBL & _ & _ & CCL & _).
    destruct (trans_row rm A CST CBL q a b HAq) as (us' & d' & RS).
    assert (TR' : raw_trans rm q b = (us', d')) by (destruct RS; auto).
    rewrite TR in TR'. inversion TR'; subst us' d'.
    pose proof (rowsel_check rm A _ q a b us d CCL HAq RS) as FCL.
    unfold cls_row in FCL. apply andb_true_iff in FCL. destruct FCL as [FCL _].
    apply existsb_exists in EH. destruct EH as (u & IU & HU).
    rewrite forallb_forall in FCL. specialize (FCL _ IU).
    destruct u; try discriminate. cbn in FCL.
    destruct SK as (_ & _ & SH). destruct (a_cls a); [|discriminate].
    destruct (s_live s); auto. cbn in SH. destruct SH; discriminate.
  Qed.

  Lemma good_done : forall hh o, Good rm data hh o -> exists p e s, o = ODone p e s.
  Proof. intros hh o (p & e & s & E & _). eauto. Qed.

  Lemma o_rel_obs : forall hh1 hh2 o1 o2,
    Good rm data hh1 o1 -> Good rm data hh2 o2 -> o_rel o1 o2 -> obs o1 = obs o2.
  Proof.
    intros hh1 hh2 o1 o2 G1 G2 OR.
    destruct (good_done _ _ G1) as (p1 & e1 & s1 & ->). destruct (good_done _ _ G2) as (p2 & e2 & s2 & ->).
    cbn in OR. destruct OR as (-> & -> & HR). destruct (R_fields _ _ HR) as (_ & _ & _ & E4 & E5 & E6).
    cbn. rewrite E4, E5, E6. reflexivity.
  Qed.

  Lemma run_rel : forall f q s1 s2,
    R s1 s2 -> Inv rm A data h q s1 -> Inv rm A data h' q s2 -> s_p s1 < pe ->
    obs (run md (of_raw rm) data h pe f q s1) = obs (run md (of_raw rm) data h' pe f q s2).
  Proof.
    induction f as [|f IH]; intros q s1 s2 HR I1 I2 P1; [reflexivity|].
    rewrite !run_step.
    assert (P2 : s_p s2 < pe) by (destruct (R_fields _ _ HR) as (E & _); rewrite <- E; auto).
    pose proof (step_sound rm A md data h Hlen HA q s1 I1 P1) as S1.
    pose proof (step_sound rm A md data h' Hlen HA q s2 I2 P2) as S2.
    destruct (chk_parts rm A HA) as (_ & _ & _ & _ & _ & _ & _ & _ & _ & _ & EK).
    assert (HH : forall b us d, get data (s_p s1) = Some b -> raw_trans rm q b = (us, d) ->
                 existsb is_handle us = true -> s_live s1 = []).
    { intros b us d _ TR EH. eapply handle_main; eauto. }
    pose proof (step_rel md data h rm EK q s1 s2 HR HH) as SR.
    destruct (step md (of_raw rm) data h pe q s1) as [o1|q1 a];
    destruct (step md (of_raw rm) data h' pe q s2) as [o2|q2 b]; cbn [sres_rel] in SR.
    - eapply o_rel_obs; eauto.
    - destruct (good_done _ _ S1) as (? & ? & ? & ->). contradiction.
    - destruct (good_done _ _ S2) as (? & ? & ? & ->). contradiction.
    - destruct SR as (-> & HR'). destruct S1 as (I1' & P1' & _). destruct S2 as (I2' & _).
      apply IH; auto.
  Qed.

  Lemma prun_rel : forall stack dst,
    obs (prun md (of_raw rm) data h stack dst) = obs (prun md (of_raw rm) data h' [] dst).
  Proof.
    intros stack dst. unfold prun.
    assert (HR : R (init_st stack dst) (init_st [] dst)) by reflexivity.
    pose proof (Inv_init rm A data h HA stack dst) as I1.
    pose proof (Inv_init rm A data h' HA [] dst) as I2.
    destruct (chk_parts rm A HA) as (_ & _ & _ & _ & _ & _ & _ & _ & _ & _ & EK).
    destruct (0 =? pe) eqn:E.
    - apply Z.eqb_eq in E.
      eapply o_rel_obs; [eapply eof_good; eauto|eapply eof_good; eauto|apply eof_rel; auto].
    - apply Z.eqb_neq in E. apply run_rel; auto. cbn. pose proof (len_nonneg data). lia.
  Qed.
End Rel2.

(** C14: whatever the caller's buffer contains ([stack], arbitrary junk of arbitrary length) and
    however a (re-entrant) handler scribbles over the shared backing array ([h_havoc]), the
    observable result -- offset, error, handler calls (positions and keys), output bytes, value --
    is the one obtained with a nil buffer and a handler that leaves the array alone. *)
Theorem buffer_irrelevant_gen : forall rm md data h stack dst,
  wf_check rm = true -> len_ok rm data ->
  obs (prun md (of_raw rm) data h stack dst) = obs (prun md (of_raw rm) data (nohavoc h) [] dst).
Proof.
  intros rm md data h stack dst W L.
  eapply prun_rel; eauto using len_ok_hyp, wf_check_all.
Qed.

Theorem buffer_irrelevant : forall rm md data h stack dst,
  wf_check rm = true -> 0 <= md -> len data <= maxint ->
  obs (prun md (of_raw rm) data h stack dst) = obs (prun md (of_raw rm) data (nohavoc h) [] dst).
Proof.
  intros rm md data h stack dst W _ L. apply buffer_irrelevant_gen; auto. left; auto.
Qed.

(** the statement exactly as asked, for machines without UPPJump *)
Theorem buffer_irrelevant_nojump : forall rm md data h stack dst,
  wf_check rm = true -> no_jumps rm = true -> 0 <= md ->
  obs (prun md (of_raw rm) data h stack dst) = obs (prun md (of_raw rm) data (nohavoc h) [] dst).
Proof.
  intros rm md data h stack dst W NJ _. apply buffer_irrelevant_gen; auto. right; auto.
Qed.

(* ====================================================================== *)
(** * Part 6: non-vacuity *)
(** * Non-vacuity: a tiny hand-written machine satisfying [wf_check], with a sub-machine call,
      a return and a handler row (pp kept) *)
Definition tiny_raw : rawmachine :=
  {| rm_start := 1; rm_first_final := 4;
     rm_rows := [(1, [(0, 255, 2, 0)]);      (* main: call the sub-machine 2, return to 3 *)
                 (2, [(0, 255, 3, 0)]);      (* sub: return *)
                 (3, [(0, 255, 1, 4)]);      (* main: handler, then 4 *)
                 (4, [(0, 255, 0, 4)])];     (* main: loop to the end *)
     rm_blocks := [(1, [UHandle false true; UHandlerErrRet true; UPPNeg 3; UPPJump true 3]);
                   (2, [UCall true 0 3 2]);
                   (3, [URet])];
     rm_eof := [(4, [USetErr EUnexpectedEOF; UBreak 0])];
     rm_has_stack := true; rm_skel_ok := true; rm_frame_ok := true; rm_entries := [1; 2] |}.

Lemma tiny_wf : wf_check tiny_raw = true.
Proof. vm_compute. reflexivity. Qed.

Definition tiny_data : list byte := [x61; x62; x63; x64; x65].

(** a handler that scribbles over the buffer and answers pp = 2 *)
Definition h_ok : handler := fun _ => {| h_pp := 2; h_err := None; h_havoc := [9; 9; 9] |}.
(** a handler that fails with the error token 7 (and an absurd offset) *)
Definition h_fail : handler := fun _ => {| h_pp := -5; h_err := Some 7; h_havoc := [] |}.
(** a handler that answers an offset beyond the end *)
Definition h_far : handler := fun _ => {| h_pp := maxint; h_err := None; h_havoc := [] |}.

Lemma tiny_len : len tiny_data <= maxint.
Proof. vm_compute. discriminate. Qed.

(** hypotheses of [machines_safe] are satisfiable, and the run is not trivial *)
Example machines_safe_nonvacuous :
  wf_check tiny_raw = true /\ 0 <= 10 /\ len tiny_data <= maxint /\
  exists s, prun 10 (of_raw tiny_raw) tiny_data h_ok [5; 6; 7] [] = ODone 6 (Some EUnexpectedEOF) s
            /\ map c_p (s_calls s) = [2].
Proof.
  split; [exact tiny_wf|]. split; [lia|]. split; [exact tiny_len|].
  eexists. split; vm_compute; reflexivity.
Qed.

Example handler_error_stops_nonvacuous :
  exists p e s,
    wf_check tiny_raw = true /\ 0 <= 10 /\ len tiny_data <= maxint /\
    prun 10 (of_raw tiny_raw) tiny_data h_fail [] [] = ODone p e s /\
    e = Some (EHandler 7) /\
    exists c cs, s_calls s = c :: cs /\ h_err (h_fail (c :: cs)) = Some 7.
Proof.
  eexists _, _, _. split; [exact tiny_wf|]. split; [lia|]. split; [exact tiny_len|].
  split; [vm_compute; reflexivity|]. split; [reflexivity|].
  eexists _, _. split; reflexivity.
Qed.

Example handler_offset_out_of_range_nonvacuous :
  exists p e s c b,
    wf_check tiny_raw = true /\ 0 <= 10 /\ len tiny_data <= maxint /\
    prun 10 (of_raw tiny_raw) tiny_data h_far [] [] = ODone p e s /\
    s_calls s = [] ++ c :: [] /\ h_err (h_far [c]) = None /\
    get tiny_data (c_p c) = Some b /\ ignores_pp tiny_raw (bz b) = false /\
    c_p c + wrap64 (h_pp (h_far [c])) > len tiny_data /\
    e = Some EPOutOfRange.
Proof.
  eexists _, _, _, _, _. split; [exact tiny_wf|]. split; [lia|]. split; [exact tiny_len|].
  split; [vm_compute; reflexivity|]. split; [reflexivity|]. split; [reflexivity|].
  split; [vm_compute; reflexivity|]. split; [vm_compute; reflexivity|].
  split; [vm_compute; reflexivity|reflexivity].
Qed.

Example buffer_irrelevant_nonvacuous :
  wf_check tiny_raw = true /\ 0 <= 10 /\ len tiny_data <= maxint /\
  obs (prun 10 (of_raw tiny_raw) tiny_data h_ok [5; 6; 7] []) =
    ObsDone 6 (Some EUnexpectedEOF) [{| c_p := 2; c_key := []; c_obj := false |}] [] false /\
  obs (prun 10 (of_raw tiny_raw) tiny_data (nohavoc h_ok) [] []) =
    ObsDone 6 (Some EUnexpectedEOF) [{| c_p := 2; c_key := []; c_obj := false |}] [] false.
Proof.
  split; [exact tiny_wf|]. split; [lia|]. split; [exact tiny_len|].
  split; vm_compute; reflexivity.
Qed.

Print Assumptions prun_c_eq.
Print Assumptions machines_safe.
Print Assumptions machines_safe_nojump.
Print Assumptions handler_calls_in_range.
Print Assumptions handler_error_stops.
Print Assumptions handler_offset_out_of_range_is_error.
Print Assumptions buffer_irrelevant.
Print Assumptions buffer_irrelevant_nojump.

