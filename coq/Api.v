(** Hand models of the hand-written public functions of rjson.go, token.go,
    simple_readers.go (all but the float parser) and decode.go, written to follow the Go
    text branch by branch.  The Ragel machines they call are section variables (the
    regenerated tables are plugged in by Gen-dependent files).  Definitions only. *)
From Coq Require Import List ZArith Bool.
From Coq Require Import Strings.Byte.
From Rjson Require Import Base Helpers Machine.
Import ListNotations.
Local Open Scope Z_scope.

(** ** token.go *)

(** TokenType constants (iota order of token.go) *)
Definition InvalidType := 0. Definition NullType := 1. Definition StringType := 2.
Definition NumberType := 3. Definition TrueType := 4. Definition FalseType := 5.
Definition ObjectStartType := 6. Definition ObjectEndType := 7.
Definition ArrayStartType := 8. Definition ArrayEndType := 9.
Definition CommaType := 10. Definition ColonType := 11.

(** the fixed JSON token table (specification; tied to Gen.tab_tokenTypes by a 256-way lemma) *)
Definition tok_type (b : byte) : Z :=
  let c := bz b in
  if c =? 110 then NullType else if c =? 34 then StringType
  else if c =? 116 then TrueType else if c =? 102 then FalseType
  else if c =? 123 then ObjectStartType else if c =? 125 then ObjectEndType
  else if c =? 91 then ArrayStartType else if c =? 93 then ArrayEndType
  else if (c =? 45) || ((48 <=? c) && (c <=? 57)) then NumberType
  else if c =? 44 then CommaType else if c =? 58 then ColonType
  else InvalidType.

Definition countWhitespace (data : list byte) : Z := Z.of_nat (count_while is_ws data).

(** NextToken: (token byte, p, err) *)
Definition NextToken (data : list byte) : Z * Z * option errk :=
  match data with
  | [] => (0, 0, Some EEOF)
  | b0 :: _ =>
    if negb (tok_type b0 =? InvalidType) then (bz b0, 1, None)
    else if negb (is_ws b0) then (bz b0, 1, Some ENoValidToken)
    else
      let p := countWhitespace data in
      match get data p with
      | None => (0, p, Some EEOF)
      | Some b => if tok_type b =? InvalidType then (bz b, p + 1, Some ENoValidToken) else (bz b, p + 1, None)
      end
  end.

(** NextTokenType: (type, p, err) *)
Definition NextTokenType (data : list byte) : Z * Z * option errk :=
  match data with
  | [] => (0, 0, Some EEOF)
  | b0 :: _ =>
    let tp := tok_type b0 in
    if negb (tp =? InvalidType) then (tp, 1, None)
    else if negb (is_ws b0) then (tp, 1, None)
    else
      let p := countWhitespace data in
      match get data p with
      | None => (0, p, Some EEOF)
      | Some b => (tok_type b, p + 1, None)
      end
  end.

(** ** simple_readers.go: integers *)

Definition is_frac_start (b : byte) : bool := (bz b =? 46) || (bz b =? 101) || (bz b =? 69).
Definition u64_cutoff : Z := 1844674407370955162.   (* (1<<64-1)/10 + 1 *)

(** first loop: at most [k] digits, no overflow possible for k = 18 *)
Fixpoint uloop1 (l : list byte) (k : nat) (val cnt : Z) : list byte * Z * Z :=
  match k, l with
  | S k', c :: r => if is_digit c then uloop1 r k' (val * 10 + (bz c - 48)) (cnt + 1) else (l, val, cnt)
  | _, _ => (l, val, cnt)
  end.

(** second loop: overflow-checked, arithmetic mod 2^64 as in Go; [inr cnt] = range error at cnt *)
Fixpoint uloop2 (l : list byte) (val cnt : Z) : (list byte * Z * Z) + Z :=
  match l with
  | c :: r =>
    if is_digit c then
      if val >? u64_cutoff then inr cnt
      else
        let newVal := (val * 10 + (bz c - 48)) mod two64 in
        if newVal <? val then inr cnt else uloop2 r newVal (cnt + 1)
    else inl (l, val, cnt)
  | [] => inl ([], val, cnt)
  end.

(** ReadUint64: (val, p, err) *)
Definition ReadUint64 (data : list byte) : Z * Z * option errk :=
  let p := countWhitespace data in
  match skipn (Z.to_nat p) data with
  | [] => (0, p, Some EInvalidUInt)
  | c :: r =>
    if bz c =? 48 then
      match r with
      | [] => (0, p + 1, None)
      | d :: _ => if is_frac_start d then (0, p + 1, Some EInvalidUInt) else (0, p + 1, None)
      end
    else
      let '(l1, v1, c1) := uloop1 (c :: r) 18 0 0 in
      let fin (l : list byte) (v cnt : Z) : Z * Z * option errk :=
          if cnt =? 0 then (0, p + cnt, Some EInvalidUInt)
          else match l with
               | [] => (v, p + cnt, None)
               | d :: _ => if is_frac_start d then (0, p + cnt, Some EInvalidUInt) else (v, p + cnt, None)
               end in
      if c1 =? 18 then
        match uloop2 l1 v1 c1 with
        | inr cnt => (0, p + cnt, Some EOther)
        | inl (l2, v2, c2) => fin l2 v2 c2
        end
      else fin l1 v1 c1
  end.

Definition ReadUint32 (data : list byte) : Z * Z * option errk :=
  let '(v, p, e) := ReadUint64 data in
  match e with
  | None => if v >? 4294967295 then (0, p, Some EInvalidUInt) else (v, p, None)
  | Some _ => (v mod 4294967296, p, e)
  end.

Definition ReadInt64 (data : list byte) : Z * Z * option errk :=
  let p := countWhitespace data in
  match skipn (Z.to_nat p) data with
  | [] => (0, p, Some EInvalidInt)
  | c :: r =>
    let neg := bz c =? 45 in
    let bad := if neg then match r with [] => true | d :: _ => is_ws d end else false in
    if bad then (0, p + 1, Some EInvalidInt) else
    let p1 := if neg then p + 1 else p in
    let '(u, pp, e) := ReadUint64 (if neg then r else c :: r) in
    let p2 := p1 + pp in
    match e with
    | Some _ => (0, p2, e)
    | None =>
      if neg then
        if u >? two63 then (0, p2, Some EOther)
        else (wrap64 (- u), p2, None)
      else
        if u >=? two63 then (0, p2, Some EOther) else (u, p2, None)
    end
  end.

Definition ReadInt32 (data : list byte) : Z * Z * option errk :=
  let '(v, p, e) := ReadInt64 data in
  match e with
  | Some _ => (0, p, e)
  | None => if (v >? 2147483647) || (v <? -2147483648) then (0, p, Some EInvalidInt) else (v, p, None)
  end.

(** strconv.IntSize = 64 (recorded in the trusted base) *)
Definition ReadInt := ReadInt64.
Definition ReadUint := ReadUint64.

Section WithMachines.
  Variable max_depth : Z.
  Variable mSkip mSkipFast mArr mObj mNull mBool mAppend mUnescape : machine.

  Definition no_handler : handler := fun _ => {| h_pp := 0; h_err := None; h_havoc := [] |}.

  (** result of a machine function: (p, err, final stack) *)
  Inductive mres :=
  | MDone (p : Z) (e : option errk) (s : st)
  | MPanic (k : pank)
  | MFuel.

  Definition of_outcome (o : outcome) : mres :=
    match o with ODone p e s => MDone p e s | OPanic k => MPanic k | OOutOfFuel => MFuel end.

  Definition skipValue_m (data : list byte) (stack : list Z) : mres :=
    of_outcome (prun_c max_depth mSkip data no_handler stack []).
  Definition skipValueFast_m (data : list byte) (stack : list Z) : mres :=
    of_outcome (prun_c max_depth mSkipFast data no_handler stack []).
  Definition handleArrayValues_m (data : list byte) (h : handler) (stack : list Z) : mres :=
    of_outcome (prun_c max_depth mArr data h stack []).
  Definition handleObjectValues_m (data : list byte) (h : handler) (stack : list Z) : mres :=
    of_outcome (prun_c max_depth mObj data h stack []).

  (** ** rjson.go wrappers.  A [*Buffer] is [option (list Z)]: nil pointer or its stackBuf. *)
  Definition buffer := option (list Z).
  Definition buf_stack (b : buffer) : list Z := match b with Some s => s | None => [] end.
  (** the whole Go slice [stack] at the end of a run = [s_stack s], computed linearly *)
  Definition stack_of (s : st) : list Z := rev_append (s_live s) (s_junk s).
  Definition buf_after (b : buffer) (r : mres) : buffer :=
    match b, r with Some _, MDone _ _ s => Some (stack_of s) | _, _ => b end.

  (** public result: [inl (p, err)] or [inr] = abnormal (panic / no termination) *)
  Definition pres := (Z * option errk + unit)%type.
  Definition pub (r : mres) : pres :=
    match r with MDone p e _ => inl (p, e) | _ => inr tt end.

  Definition SkipValue (data : list byte) (b : buffer) : pres * buffer :=
    let r := skipValue_m data (buf_stack b) in (pub r, buf_after b r).
  Definition SkipValueFast (data : list byte) (b : buffer) : pres * buffer :=
    let r := skipValueFast_m data (buf_stack b) in (pub r, buf_after b r).
  Definition HandleArrayValues (data : list byte) (h : handler) (b : buffer) : pres * buffer :=
    let r := handleArrayValues_m data h (buf_stack b) in (pub r, buf_after b r).
  Definition HandleObjectValues (data : list byte) (h : handler) (b : buffer) : pres * buffer :=
    let r := handleObjectValues_m data h (buf_stack b) in (pub r, buf_after b r).

  (** Valid: [Some verdict] or [None] = abnormal *)
  Definition Valid (data : list byte) (b : buffer) : option bool * buffer :=
    let r := skipValue_m data (buf_stack b) in
    (match r with
     | MDone p (Some _) _ => Some false
     | MDone p None _ =>
       if p >? len data then Some true
       else Some (p + countWhitespace (skipn (Z.to_nat p) data) >=? len data)
     | _ => None
     end, buf_after b r).

  (** ReadNull / ReadBool *)
  Definition ReadNull (data : list byte) : pres :=
    pub (of_outcome (prun_c max_depth mNull data no_handler [] [])).
  Definition ReadBool (data : list byte) : (bool * Z * option errk + unit) :=
    match prun_c max_depth mBool data no_handler [] [] with
    | ODone p None s => inl (s_val s, p, None)
    | ODone p (Some e) s => inl (false, p, Some e)
    | _ => inr tt
    end.

  (** ** strings *)
  (** machine functions returning (dst, p, err); [None] = abnormal *)
  Definition str_machine (m : machine) (data dst : list byte) : option (list byte * Z * option errk) :=
    match prun_c max_depth m data no_handler [] dst with
    | ODone p None s => Some (s_dst s, p, None)
    | ODone p (Some e) _ => Some ([], p, Some e)     (* return nil, p, err *)
    | _ => None
    end.
  Definition appendRemainderOfString := str_machine mAppend.
  Definition UnescapeStringContent := str_machine mUnescape.

  (** the fast scan of ReadStringBytes/ReadString: position of the first byte that is
      a control byte, a quote or a backslash *)
  Definition str_stop (b : byte) : bool := (bz b <=? 31) || (bz b =? 34) || (bz b =? 92).

  (** ReadStringBytes(data, buf) = (val, p, err) *)
  Definition ReadStringBytes (data buf : list byte) : option (list byte * Z * option errk) :=
    let p0 := countWhitespace data in
    match skipn (Z.to_nat p0) data with
    | [] => Some (buf, p0, Some EOther)
    | q :: body =>
      if negb (bz q =? 34) then Some (buf, p0, Some EOther) else
      let n := count_while (fun b => negb (str_stop b)) body in
      let p := p0 + 1 + Z.of_nat n in
      match skipn n body with
      | [] => Some (buf, p, Some EOther)
      | c :: _ =>
        if bz c =? 34 then Some (buf ++ firstn n body, p + 1, None)
        else
          let buf1 := if bz c =? 92 then buf ++ firstn n body else buf in
          match appendRemainderOfString (skipn n body) buf1 with
          | Some (d, pp, e) => Some (d, p + pp, e)
          | None => None
          end
      end
    end.

  (** ReadString(data, buf *[]byte) = (val, p, err, contents of *buf afterwards) *)
  Definition ReadString (data : list byte) (buf : option (list byte))
    : option (list byte * Z * option errk * option (list byte)) :=
    let p0 := countWhitespace data in
    match skipn (Z.to_nat p0) data with
    | [] => Some ([], p0, Some EOther, buf)
    | q :: body =>
      if negb (bz q =? 34) then Some ([], p0, Some EOther, buf) else
      let n := count_while (fun b => negb (str_stop b)) body in
      let p := p0 + 1 + Z.of_nat n in
      match skipn n body with
      | [] => Some ([], p, Some EOther, buf)
      | c :: _ =>
        if bz c =? 34 then Some (firstn n body, p + 1, None, buf)
        else
          let buf1 := if bz c =? 92 then firstn n body else [] in
          match appendRemainderOfString (skipn n body) buf1 with
          | Some (d, pp, e) => Some (d, p + pp, e, match buf with Some _ => Some d | None => None end)
          | None => None
          end
      end
    end.

  (** ** decode.go.  Result: (p, err, target afterwards); [None] = abnormal. *)
  Definition nullOrBust {T} (data : list byte) (orig : errk) (v0 : T) : option (Z * option errk * T) :=
    match ReadNull data with
    | inl (p, None) => Some (p, None, v0)
    | inl (_, Some _) => Some (0, Some orig, v0)
    | inr _ => None
    end.

  Definition decode_with {T} (rd : list byte -> T * Z * option errk) (data : list byte) (v0 : T)
    : option (Z * option errk * T) :=
    let '(v, p, e) := rd data in
    match e with
    | Some err => nullOrBust data err v0
    | None => Some (p, None, v)
    end.

  Definition DecodeInt64 := decode_with ReadInt64.
  Definition DecodeInt32 := decode_with ReadInt32.
  Definition DecodeInt := decode_with ReadInt.
  Definition DecodeUint64 := decode_with ReadUint64.
  Definition DecodeUint32 := decode_with ReadUint32.
  Definition DecodeUint := decode_with ReadUint.

  Definition DecodeBool (data : list byte) (v0 : bool) : option (Z * option errk * bool) :=
    match ReadBool data with
    | inl (v, p, None) => Some (p, None, v)
    | inl (_, _, Some e) => nullOrBust data e v0
    | inr _ => None
    end.

  Definition DecodeString (data : list byte) (v0 : list byte) (buf : option (list byte))
    : option (Z * option errk * list byte) :=
    match ReadString data buf with
    | Some (v, p, None, _) => Some (p, None, v)
    | Some (_, _, Some e, _) => nullOrBust data e v0
    | None => None
    end.
End WithMachines.
