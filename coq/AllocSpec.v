(** C19: the functions the zero-allocation claim covers (with everything they call inside
    the package) and, for each, the set of allocation-capable expression kinds its source may
    contain.  Every listed kind is harmless on a warm successful call:
      "call fmt.Errorf"                 only on error paths;
      "call <function of the package>"  the callee is itself in this list (or is an error constructor
                                        reached only on error paths: errUnexpectedByteInString);
      "call handler.Handle...Value"     the caller's handler (C19 assumes it does not allocate);
      "call math.*" / "call bits.*" / "call utf8.*" / "call utf16.*"   allocation-free library functions;
      "append stack" / "make []int"     the prepush growth, guarded by top+1 >= len(stack)
                                        (never taken with a Buffer warmed on a document at least as deep);
      "append dst" / "append buf"       stay in place when cap(dst) - len(dst) >= len(input);
      "append slice[:cap(slice)]" / "make []byte"   growBytesSliceCapacity, guarded by cap(slice) >= size.
    The translator regenerates the inventory of every function on every run (Gen.gen_alloc_sites);
    the Tie lemma demands that each listed function's set of kinds is exactly the one recorded
    here, so a new make/new/string()/closure/fmt call in a listed function breaks the tie. *)
From Coq Require Import List String Bool.
Import ListNotations.
Local Open Scope string_scope.

Definition c19_sites : list (string * list string) := [
 ("rjson.ReadUint64", ["call countWhitespace"; "call fmt.Errorf"]);
 ("rjson.ReadUint32", ["call ReadUint64"]);
 ("rjson.ReadInt64", ["call ReadUint64"; "call countWhitespace"; "call fmt.Errorf"]);
 ("rjson.ReadInt32", ["call ReadInt64"]);
 ("rjson.ReadInt", ["call ReadInt32"; "call ReadInt64"; "call fmt.Errorf"]);
 ("rjson.ReadUint", ["call ReadUint32"; "call ReadUint64"; "call fmt.Errorf"]);
 ("rjson.ReadFloat64", ["call countWhitespace"; "call fp.ParseJSONFloatPrefix"]);
 ("rjson.ReadBool", ["call readBool"]);
 ("rjson.ReadNull", ["call readNull"]);
 ("rjson.NextToken", ["call countWhitespace"]);
 ("rjson.NextTokenType", ["call countWhitespace"]);
 ("rjson.DecodeBool", ["call ReadBool"; "call nullOrBust"]);
 ("rjson.DecodeFloat64", ["call ReadFloat64"; "call nullOrBust"]);
 ("rjson.DecodeInt64", ["call ReadInt64"; "call nullOrBust"]);
 ("rjson.DecodeInt32", ["call ReadInt32"; "call nullOrBust"]);
 ("rjson.DecodeInt", ["call ReadInt"; "call nullOrBust"]);
 ("rjson.DecodeUint64", ["call ReadUint64"; "call nullOrBust"]);
 ("rjson.DecodeUint32", ["call ReadUint32"; "call nullOrBust"]);
 ("rjson.DecodeUint", ["call ReadUint"; "call nullOrBust"]);
 ("rjson.nullOrBust", ["call ReadNull"]);
 ("rjson.SkipValue", ["call skipValue"]);
 ("rjson.SkipValueFast", ["call skipValueFast"]);
 ("rjson.Valid", ["call countWhitespace"; "call skipValue"]);
 ("rjson.countWhitespace", []);
 ("rjson.HandleArrayValues", ["call handleArrayValues"]);
 ("rjson.HandleObjectValues", ["call handleObjectValues"]);
 ("rjson.ReadStringBytes", ["append buf"; "call appendRemainderOfString"; "call countWhitespace"; "call fmt.Errorf"]);
 ("rjson.UnescapeStringContent", ["call unescapeStringContent"]);
 ("rjson.skipValue", ["append stack"; "call skipFloatDec"; "call skipFloatExp"; "make []int"]);
 ("rjson.skipValueFast", ["append stack"; "make []int"]);
 ("rjson.handleArrayValues", ["append stack"; "call handler.HandleArrayValue"; "call skipFloatDec"; "call skipFloatExp"; "make []int"]);
 ("rjson.handleObjectValues", ["append stack"; "call handler.HandleObjectValue"; "call skipFloatDec"; "call skipFloatExp"; "make []int"]);
 ("rjson.readNull", []);
 ("rjson.readBool", []);
 ("rjson.appendRemainderOfString", ["append dst"; "call errUnexpectedByteInString"; "call unescapeUnicodeChar"]);
 ("rjson.unescapeStringContent", ["append dst"; "call errUnexpectedByteInString"; "call unescapeUnicodeChar"]);
 ("rjson.growBytesSliceCapacity", ["append slice[:cap(slice)]"; "make []byte"]);
 ("rjson.unescapeUnicodeChar", ["call getu4"; "call growBytesSliceCapacity"; "call utf16.DecodeRune"; "call utf16.IsSurrogate"; "call utf8.EncodeRune"; "call utf8.RuneLen"]);
 ("rjson.getu4", []);
 ("rjson.skipFloatDec", ["call skipFloatExp"]);
 ("rjson.skipFloatExp", []);
 ("fp.ParseJSONFloatPrefix", ["call atof64exact"; "call d.floatBits"; "call d.set"; "call eiselLemire64"; "call math.Float64frombits"; "call readFloat"]);
 ("fp.readFloat", []);
 ("fp.atof64exact", []);
 ("fp.eiselLemire64", ["call bits.LeadingZeros64"; "call bits.Mul64"; "call math.Float64frombits"]);
 ("fp.decimal.set", []);
 ("fp.decimal.floatBits", ["call a.RoundedInteger"; "call a.Shift"]);
 ("fp.decimal.Shift", ["call leftShift"; "call rightShift"]);
 ("fp.decimal.RoundedInteger", ["call shouldRoundUp"]);
 ("fp.leftShift", ["call prefixIsLessThan"; "call trim"]);
 ("fp.rightShift", ["call trim"]);
 ("fp.trim", []);
 ("fp.prefixIsLessThan", []);
 ("fp.shouldRoundUp", [])].

Fixpoint str_mem (s : string) (l : list string) : bool :=
  match l with [] => false | x :: r => String.eqb s x || str_mem s r end.
Definition subset (a b : list string) : bool := forallb (fun x => str_mem x b) a.
Definition same_set (a b : list string) : bool := subset a b && subset b a.

Fixpoint lookup_sites (f : string) (l : list (string * list string)) : option (list string) :=
  match l with
  | [] => None
  | (k, v) :: r => if String.eqb f k then Some v else lookup_sites f r
  end.

(** every listed function exists and has exactly the recorded set of allocation-capable kinds *)
Definition alloc_sites_ok (gen : list (string * list string)) : bool :=
  forallb (fun '(f, allowed) =>
             match lookup_sites f gen with
             | Some sites => same_set sites allowed
             | None => false
             end) c19_sites.
