(** Two generic facts about [prun] (any [machine], no well-formedness needed unless stated):

    (1) DESTINATION FRAME (C16): the control flow never inspects [s_dst]; running with a
        destination [d0] gives exactly the run with an empty destination, with [d0] in front
        of the produced bytes ([dst_frame]); lifted to the models of appendRemainderOfString,
        UnescapeStringContent, ReadStringBytes, ReadString (Api.v).

    (2) WARM BUFFER (C19, logic part): ghost measures [prun_maxtop] (maximal [s_top] over the
        run) and [prun_grows] (number of UCall executions that enlarge the stack array); the
        final capacity is [max (len stack) maxtop] and the number of growths is the capacity
        gained ([cap_final]); hence no growth when the buffer is warm ([no_growth_when_warm]),
        the buffer stored back is warm ([warm_after_use]), and a re-run on the buffer stored
        back does not grow ([rerun_no_growth_gen], generic; [rerun_no_growth] for the same
        document and handler, for tables passing [wf_check], via [maxtop_irrelevant]). *)
From Coq Require Import List ZArith Bool Lia.
From Coq Require Import Strings.Byte.
From Rjson Require Import Base Helpers Machine MachineFacts Wf Safety Api.
Import ListNotations.
Local Open Scope Z_scope.

(** * Part 1: destination frame *)
Definition addd (d0 : list byte) (s : st) : st := set_dst s (d0 ++ s_dst s).

Definition map_ures (f : st -> st) (r : ures) : ures :=
  match r with
  | RCont s => RCont (f s)
  | RGoto s d => RGoto (f s) d
  | ROut s => ROut (f s)
  | RRet p e s => RRet p e (f s)
  | RPanic k => RPanic k
  end.

Definition map_outcome (f : st -> st) (o : outcome) : outcome :=
  match o with
  | ODone p e s => ODone p e (f s)
  | OPanic k => OPanic k
  | OOutOfFuel => OOutOfFuel
  end.

Definition map_sres (f : st -> st) (r : sres) : sres :=
  match r with
  | SDone o => SDone (map_outcome f o)
  | SNext q s => SNext q (f s)
  end.

Lemma unescape_frame : forall sd d0 dst d n ok,
  unescapeUnicodeChar sd dst = (d, n, ok) -> unescapeUnicodeChar sd (d0 ++ dst) = (d0 ++ d, n, ok).
Proof.
  intros sd d0 dst d n ok H. unfold unescapeUnicodeChar in *.
  destruct (getu4 sd <? 0); [inversion H; reflexivity|].
  destruct (is_surrogate (getu4 sd)).
  - destruct (negb (utf16_decode (getu4 sd) (getu4 (skipn 6 sd)) =? 65533));
      inversion H; rewrite app_assoc; reflexivity.
  - inversion H; rewrite app_assoc; reflexivity.
Qed.

Section DstFrame.
  Variable md : Z.
  Variable m : machine.
  Variable data : list byte.
  Variable h : handler.
  Variable pe : Z.
  Variable d0 : list byte.

  Lemma unit_dst : forall u s,
    exec_unit md data h pe u (addd d0 s) = map_ures (addd d0) (exec_unit md data h pe u s).
  Proof.
    intros u s. destruct u; cbn [exec_unit]; try reflexivity.
    - (* UBreakIfErr *) change (s_err (addd d0 s)) with (s_err s). destruct (s_err s); reflexivity.
    - (* UScanDec *) change (s_p (addd d0 s)) with (s_p s). destruct (skipFloatDec data (s_p s + 1)); reflexivity.
    - (* UScanExp *) change (s_p (addd d0 s)) with (s_p s). destruct (skipFloatExp data (s_p s + 1)); reflexivity.
    - (* UCall *)
      change (s_top (addd d0 s)) with (s_top s). change (s_cap (addd d0 s)) with (s_cap s).
      change (s_junk (addd d0 s)) with (s_junk s).
      destruct (depth_check && (s_top s =? md)); [reflexivity|].
      destruct (if s_top s + 1 >=? s_cap s then _ else _) as [[j c]|]; [|reflexivity].
      destruct j; reflexivity.
    - (* URet *) change (s_live (addd d0 s)) with (s_live s). destruct (s_live s); reflexivity.
    - (* UHandle *)
      change (s_fs (addd d0 s)) with (s_fs s). change (s_fe (addd d0 s)) with (s_fe s).
      change (s_p (addd d0 s)) with (s_p s). change (s_calls (addd d0 s)) with (s_calls s).
      destruct (if is_obj then slice data (s_fs s + 1) (s_fe s - 1) else Some []) as [key|]; [|reflexivity].
      destruct ((0 <=? s_p s) && (s_p s <=? pe)); [|reflexivity].
      destruct (h_havoc _); destruct keep_pp; reflexivity.
    - (* UHandlerErrRet *) change (s_err (addd d0 s)) with (s_err s). destruct (s_err s); reflexivity.
    - (* UPPNeg *) change (s_pp (addd d0 s)) with (s_pp s). destruct (s_pp s <? 0); reflexivity.
    - (* UPPJump *)
      change (s_pp (addd d0 s)) with (s_pp s). change (s_p (addd d0 s)) with (s_p s).
      destruct (s_pp s =? 0); [reflexivity|]. destruct (if safe then _ else _); reflexivity.
    - (* UAppendSeg *)
      change (s_seg (addd d0 s)) with (s_seg s). change (s_p (addd d0 s)) with (s_p s).
      destruct (slice data (s_seg s) (s_p s)); [|reflexivity].
      cbn [map_ures]. unfold addd. cbn [s_dst set_dst]. rewrite app_assoc. reflexivity.
    - (* UAppendByte *)
      cbn [map_ures]. unfold addd. cbn [s_dst set_dst]. rewrite app_assoc. reflexivity.
    - (* UUnescapeU *)
      change (s_seg (addd d0 s)) with (s_seg s).
      destruct ((0 <=? s_seg s) && (s_seg s <=? pe)); [|reflexivity].
      change (s_dst (addd d0 s)) with (d0 ++ s_dst s).
      destruct (unescapeUnicodeChar (skipn (Z.to_nat (s_seg s)) data) (s_dst s)) as [[d n] ok] eqn:E.
      rewrite (unescape_frame _ d0 _ _ _ _ E). reflexivity.
    - (* UNotOkRet *)
      change (s_ok (addd d0 s)) with (s_ok s). change (s_p (addd d0 s)) with (s_p s).
      destruct (s_ok s); [reflexivity|]. destruct (get data (s_p s)); reflexivity.
    - (* UAdvanceU *) change (s_ub (addd d0 s)) with (s_ub s). destruct (s_ub s >? 6); reflexivity.
  Qed.

  Lemma units_dst : forall us s,
    exec_units md data h pe us (addd d0 s) = map_ures (addd d0) (exec_units md data h pe us s).
  Proof.
    induction us as [|u r IH]; intros s; [reflexivity|].
    cbn [exec_units]. rewrite unit_dst. destruct (exec_unit md data h pe u s); cbn [map_ures]; auto.
  Qed.

  Lemma eof_dst : forall q s,
    eof_phase md m data h pe q (addd d0 s) = map_outcome (addd d0) (eof_phase md m data h pe q s).
  Proof.
    intros q s. unfold eof_phase. rewrite units_dst.
    destruct (exec_units md data h pe (m_eof m q) s); reflexivity.
  Qed.

  Lemma goto_dst : forall s d,
    goto_step md m data h pe (addd d0 s) d = map_sres (addd d0) (goto_step md m data h pe s d).
  Proof.
    intros s d. unfold goto_step. destruct (d =? 0); [reflexivity|].
    destruct (negb (m_is_state m d)); [reflexivity|].
    change (s_p (set_p (addd d0 s) (s_p (addd d0 s) + 1))) with (s_p (set_p s (s_p s + 1))).
    destruct (s_p (set_p s (s_p s + 1)) =? pe); [|reflexivity].
    change (set_p (addd d0 s) (s_p (addd d0 s) + 1)) with (addd d0 (set_p s (s_p s + 1))).
    rewrite eof_dst. reflexivity.
  Qed.

  Lemma step_dst : forall q s,
    step md m data h pe q (addd d0 s) = map_sres (addd d0) (step md m data h pe q s).
  Proof.
    intros q s. unfold step. change (s_p (addd d0 s)) with (s_p s).
    destruct (get data (s_p s)); [|reflexivity].
    destruct (m_trans m q b) as [us d]. rewrite units_dst.
    destruct (exec_units md data h pe us s); cbn [map_ures]; try reflexivity; apply goto_dst.
  Qed.

  Lemma run_dst : forall f q s,
    run md m data h pe f q (addd d0 s) = map_outcome (addd d0) (run md m data h pe f q s).
  Proof.
    induction f as [|f IH]; intros q s; [reflexivity|].
    rewrite !run_step, step_dst. destruct (step md m data h pe q s); cbn [map_sres]; auto.
  Qed.
End DstFrame.

(** the run with destination [d0] is the run with an empty destination, [d0] put in front *)
Theorem dst_frame_eq : forall md m data h stack d0,
  prun md m data h stack d0 = map_outcome (addd d0) (prun md m data h stack []).
Proof.
  intros. unfold prun.
  assert (E : init_st stack d0 = addd d0 (init_st stack [])).
  { unfold addd, init_st. cbn. rewrite app_nil_r. reflexivity. }
  rewrite E. destruct (0 =? len data); [apply eof_dst|apply run_dst].
Qed.

Theorem dst_frame : forall md m data h stack d0,
  match prun md m data h stack [] with
  | ODone p e s => prun md m data h stack d0 = ODone p e (set_dst s (d0 ++ s_dst s))
  | OPanic k => prun md m data h stack d0 = OPanic k
  | OOutOfFuel => prun md m data h stack d0 = OOutOfFuel
  end.
Proof.
  intros. rewrite (dst_frame_eq md m data h stack d0).
  destruct (prun md m data h stack []); reflexivity.
Qed.

(** ** lifted to the API models *)
Section ApiFrame.
  Variable md : Z.

  (** how a (value, offset, error) result with an empty destination becomes the result with
      destination [dst]: success puts [dst] in front, errors are unchanged *)
  Definition with_dst (dst : list byte) (r : list byte * Z * option errk) : list byte * Z * option errk :=
    let '(v, p, e) := r in match e with None => (dst ++ v, p, None) | Some _ => (v, p, e) end.

  Theorem str_machine_frame : forall m data dst,
    str_machine md m data dst = option_map (with_dst dst) (str_machine md m data []).
  Proof.
    intros m data dst. unfold str_machine. rewrite !prun_c_eq.
    rewrite (dst_frame_eq md m data no_handler [] dst).
    destruct (prun md m data no_handler [] []) as [p [e|] s|k|]; reflexivity.
  Qed.

  (** UnescapeStringContent(data, dst): on success dst followed by the bytes produced with an
      empty dst, same offset; errors and abnormal outcomes are those of the empty-dst run *)
  Theorem UnescapeStringContent_frame : forall mU data dst,
    UnescapeStringContent md mU data dst = option_map (with_dst dst) (UnescapeStringContent md mU data []).
  Proof. intros. apply str_machine_frame. Qed.

  Theorem appendRemainderOfString_frame : forall mA data dst,
    appendRemainderOfString md mA data dst = option_map (with_dst dst) (appendRemainderOfString md mA data []).
  Proof. intros. apply str_machine_frame. Qed.

  (** ReadStringBytes(data, buf): success iff the run with an empty buf succeeds, same offset,
      value = buf ++ (value of the empty-buf run); error iff error, same offset and error
      (the value returned beside an error is buf or nil); abnormal iff abnormal *)
  Theorem ReadStringBytes_frame : forall mA data buf,
    match ReadStringBytes md mA data [] with
    | Some (v0, p, None) => ReadStringBytes md mA data buf = Some (buf ++ v0, p, None)
    | Some (v0, p, Some e) => exists v, ReadStringBytes md mA data buf = Some (v, p, Some e)
    | None => ReadStringBytes md mA data buf = None
    end.
  Proof.
    intros mA data buf. unfold ReadStringBytes.
    destruct (skipn (Z.to_nat (countWhitespace data)) data) as [|q body]; [eauto|].
    destruct (negb (bz q =? 34)); [eauto|].
    destruct (skipn (count_while (fun b => negb (str_stop b)) body) body) as [|c rest] eqn:SK; [eauto|].
    destruct (bz c =? 34); [reflexivity|].
    set (pre := firstn (count_while (fun b => negb (str_stop b)) body) body).
    rewrite (appendRemainderOfString_frame mA (c :: rest) (if bz c =? 92 then buf ++ pre else buf)).
    rewrite (appendRemainderOfString_frame mA (c :: rest) (if bz c =? 92 then [] ++ pre else [])).
    destruct (appendRemainderOfString md mA (c :: rest) []) as [[[w pp] [e|]]|]; cbn [option_map with_dst]; eauto.
    destruct (bz c =? 92); cbn [app]; rewrite ?app_assoc; reflexivity.
  Qed.

  (** ReadString(data, buf): value, offset and error do not depend on the scratch buffer *)
  Definition rs_proj (r : option (list byte * Z * option errk * option (list byte)))
    : option (list byte * Z * option errk) :=
    match r with Some (v, p, e, _) => Some (v, p, e) | None => None end.

  Theorem ReadString_scratch_irrelevant : forall mA data b1 b2,
    rs_proj (ReadString md mA data b1) = rs_proj (ReadString md mA data b2).
  Proof.
    intros mA data b1 b2. unfold ReadString.
    destruct (skipn (Z.to_nat (countWhitespace data)) data) as [|q body]; [reflexivity|].
    destruct (negb (bz q =? 34)); [reflexivity|].
    destruct (skipn (count_while (fun b => negb (str_stop b)) body) body) as [|c rest]; [reflexivity|].
    destruct (bz c =? 34); [reflexivity|].
    destruct (appendRemainderOfString md mA (c :: rest) _) as [[[d pp] e]|]; reflexivity.
  Qed.

  (** ReadString agrees with ReadStringBytes on an empty buffer (value, offset, error), except
      that the value beside an error is nil *)
  Theorem ReadString_is_ReadStringBytes_nil : forall mA data b,
    match ReadStringBytes md mA data [] with
    | Some (v, p, None) => rs_proj (ReadString md mA data b) = Some (v, p, None)
    | Some (_, p, Some e) => rs_proj (ReadString md mA data b) = Some ([], p, Some e)
    | None => rs_proj (ReadString md mA data b) = None
    end.
  Proof.
    intros mA data b. unfold ReadStringBytes, ReadString.
    destruct (skipn (Z.to_nat (countWhitespace data)) data) as [|q body]; [reflexivity|].
    destruct (negb (bz q =? 34)); [reflexivity|].
    destruct (skipn (count_while (fun b => negb (str_stop b)) body) body) as [|c rest]; [reflexivity|].
    destruct (bz c =? 34); [reflexivity|].
    cbn [app].
    destruct (appendRemainderOfString md mA (c :: rest) _) as [[[d pp] [e|]]|] eqn:E; try reflexivity.
    unfold appendRemainderOfString, str_machine in E.
    destruct (prun_c md mA (c :: rest) no_handler [] _) as [p' [e'|] s'|k|]; inversion E; subst; reflexivity.
  Qed.
End ApiFrame.

(** * Part 2: warm buffer, no stack growth *)

(** ** ghost measures (mirroring [run]/[prun] through [step]) *)
Definition grew (s s' : st) : nat := if s_cap s <? s_cap s' then 1%nat else 0%nat.

Section Ghost.
  Variable md : Z.
  Variable m : machine.
  Variable data : list byte.
  Variable h : handler.
  Variable pe : Z.

  (** maximal [s_top] over the dispatch states and the final state *)
  Fixpoint run_maxtop (fuel : nat) (cs : Z) (s : st) : Z :=
    match fuel with
    | O => s_top s
    | S f =>
      match step md m data h pe cs s with
      | SDone (ODone _ _ s') => Z.max (s_top s) (s_top s')
      | SDone _ => s_top s
      | SNext q' s' => Z.max (s_top s) (run_maxtop f q' s')
      end
    end.

  (** number of steps in which the stack array was enlarged (only UCall can do that, exactly
      when it takes the branch n = 1 + top - len(stack) >= 1, see [ucall_growth_iff]) *)
  Fixpoint run_grows (fuel : nat) (cs : Z) (s : st) : nat :=
    match fuel with
    | O => O
    | S f =>
      match step md m data h pe cs s with
      | SDone (ODone _ _ s') => grew s s'
      | SDone _ => O
      | SNext q' s' => (grew s s' + run_grows f q' s')%nat
      end
    end.
End Ghost.

Definition prun_maxtop (md : Z) (m : machine) (data : list byte) (h : handler)
           (stack : list Z) (dst : list byte) : Z :=
  let pe := len data in
  let s0 := init_st stack dst in
  if 0 =? pe then 0 else run_maxtop md m data h pe (fuel_for data) (m_start m) s0.

Definition prun_grows (md : Z) (m : machine) (data : list byte) (h : handler)
           (stack : list Z) (dst : list byte) : nat :=
  let pe := len data in
  let s0 := init_st stack dst in
  if 0 =? pe then O else run_grows md m data h pe (fuel_for data) (m_start m) s0.

(** ** how one unit changes top, cap and the array *)
Definition scons (s : st) : Prop :=
  s_top s = len (s_live s) /\ s_cap s = s_top s + len (s_junk s).

Definition same_tc (s s' : st) : Prop :=
  s_top s' = s_top s /\ s_cap s' = s_cap s /\ (scons s -> scons s').

Definition push_tc (s s' : st) : Prop :=
  s_top s' = s_top s + 1 /\ s_cap s' = Z.max (s_cap s) (s_top s + 1) /\ (scons s -> scons s').

Definition pop_tc (s s' : st) : Prop :=
  s_top s' = s_top s - 1 /\ s_cap s' = s_cap s /\ (scons s -> scons s').

Definition ures_tc (s : st) (r : ures) : Prop :=
  match r with
  | RCont s' | ROut s' | RRet _ _ s' => same_tc s s'
  | RGoto s' _ => push_tc s s' \/ pop_tc s s'
  | RPanic _ => True
  end.

Lemma same_tc_refl : forall s, same_tc s s.
Proof. intros s. unfold same_tc. auto. Qed.

Lemma same_tc_trans : forall a b c, same_tc a b -> same_tc b c -> same_tc a c.
Proof.
  intros a b c (A1 & A2 & A3) (B1 & B2 & B3). unfold same_tc.
  split; [lia|]. split; [lia|]. auto.
Qed.

Ltac stc := cbn [ures_tc brk]; unfold same_tc, scons;
  cbn [s_top s_cap s_live s_junk set_p set_err set_stk set_pp set_fs set_fe set_seg set_dst set_ub set_val set_calls];
  auto.

Section TopCap.
  Variable md : Z.
  Variable m : machine.
  Variable data : list byte.
  Variable h : handler.
  Variable pe : Z.

  (** the push: top+1, cap = max cap (top+1); the array is enlarged iff n >= 1 *)
  Lemma ucall_tc : forall chk bk ret tgt s s' d,
    exec_unit md data h pe (UCall chk bk ret tgt) s = RGoto s' d -> push_tc s s'.
  Proof.
    intros chk bk ret tgt s s' d H. cbn [exec_unit] in H.
    destruct (chk && (s_top s =? md)); [discriminate|].
    destruct (s_top s + 1 >=? s_cap s) eqn:E.
    - rewrite Z.geb_leb in E. apply Z.leb_le in E.
      destruct (1 + s_top s - s_cap s <? 0) eqn:N; [discriminate|]. apply Z.ltb_ge in N.
      destruct (s_junk s ++ zrepeat (Z.to_nat (1 + s_top s - s_cap s))) as [|x j2] eqn:J; [discriminate|].
      assert (E1 : s' = set_stk s (s_top s + 1) (s_cap s + (1 + s_top s - s_cap s)) (ret :: s_live s) j2) by congruence.
      subst s'. unfold push_tc, scons. cbn [s_top s_cap s_live s_junk set_stk].
      split; [reflexivity|]. split; [lia|]. intros (T & C). rewrite len_cons. split; [lia|].
      assert (LJ : len (s_junk s) + (1 + s_top s - s_cap s) = 1 + len j2).
      { apply (f_equal (@length Z)) in J. rewrite app_length, zrepeat_length in J. cbn [length] in J.
        unfold len. lia. }
      lia.
    - rewrite Z.geb_leb in E. apply Z.leb_gt in E.
      destruct (s_junk s) as [|x j2] eqn:J; [discriminate|].
      assert (E1 : s' = set_stk s (s_top s + 1) (s_cap s) (ret :: s_live s) j2) by congruence.
      subst s'. unfold push_tc, scons. cbn [s_top s_cap s_live s_junk set_stk].
      split; [reflexivity|]. split; [lia|]. intros (T & C). rewrite J, !len_cons in *. lia.
  Qed.

  Lemma ucall_growth_iff : forall chk bk ret tgt s s' d,
    exec_unit md data h pe (UCall chk bk ret tgt) s = RGoto s' d ->
    (s_cap s < s_cap s' <-> 1 <= 1 + s_top s - s_cap s).
  Proof.
    intros chk bk ret tgt s s' d H. destruct (ucall_tc _ _ _ _ _ _ _ H) as (_ & C & _). lia.
  Qed.

  Lemma unit_tc : forall u s, ures_tc s (exec_unit md data h pe u s).
  Proof.
    intros u s. destruct u; cbn [exec_unit];
      try stc.
    - (* UBreakIfErr *) destruct (s_err s); stc.
    - (* UScanDec *) destruct (skipFloatDec data (s_p s + 1)). stc.
    - (* UScanExp *) destruct (skipFloatExp data (s_p s + 1)). stc.
    - (* UCall *)
      destruct (exec_unit md data h pe (UCall depth_check brk ret target) s) as [a|a d|a|p e a|k] eqn:X;
        fold (exec_unit md data h pe (UCall depth_check brk ret target) s); rewrite ?X; cbn [ures_tc]; auto.
      all: try (cbn [exec_unit] in X; destruct (depth_check && (s_top s =? md)); [try discriminate|];
                try (inversion X; subst; stc);
                destruct (if s_top s + 1 >=? s_cap s then _ else _) as [[j c]|]; try discriminate;
                destruct j; discriminate).
      left. eapply ucall_tc; eauto.
    - (* URet *)
      destruct (s_live s) as [|x l] eqn:L; [exact I|]. cbn [ures_tc]. right.
      unfold pop_tc, scons. cbn [s_top s_cap s_live s_junk set_stk]. split; [reflexivity|]. split; [reflexivity|].
      intros (T & C). rewrite L in T. rewrite !len_cons in *. lia.
    - (* UHandle *)
      destruct (if is_obj then slice data (s_fs s + 1) (s_fe s - 1) else Some []) as [key|]; [|exact I].
      destruct ((0 <=? s_p s) && (s_p s <=? pe)); [|exact I].
      destruct (h_havoc _) as [|z hv]; cbn [ures_tc].
      + destruct keep_pp; stc.
      + unfold same_tc, scons, s_stack.
        destruct keep_pp; cbn [s_top s_cap s_live s_junk set_stk set_pp set_err set_calls];
          (split; [reflexivity|split; [reflexivity|]]); intros (T & C);
          set (arr := overwrite (rev (s_live s) ++ s_junk s) (z :: hv));
          (assert (LA : length arr = (length (s_live s) + length (s_junk s))%nat)
             by (unfold arr; rewrite overwrite_length, app_length, rev_length; reflexivity));
          unfold len in *; rewrite rev_length, firstn_length, skipn_length, LA; lia.
    - (* UHandlerErrRet *) destruct (s_err s); stc.
    - (* UPPNeg *) destruct (s_pp s <? 0); stc.
    - (* UPPJump *) destruct (s_pp s =? 0); [stc|].
      destruct (if safe then _ else _); stc.
    - (* UAppendSeg *) destruct (slice data (s_seg s) (s_p s)); [stc|exact I].
    - (* UUnescapeU *) destruct ((0 <=? s_seg s) && (s_seg s <=? pe)); [|exact I].
      destruct (unescapeUnicodeChar _ _) as [[d n] ok]. stc.
    - (* UNotOkRet *) destruct (s_ok s); [stc|].
      destruct (get data (s_p s)); [stc|exact I].
    - (* UAdvanceU *) destruct (s_ub s >? 6); stc.
  Qed.
End TopCap.

Definition any_tc (s s' : st) : Prop := same_tc s s' \/ push_tc s s' \/ pop_tc s s'.

Lemma any_tc_pre : forall s a s', same_tc s a -> any_tc a s' -> any_tc s s'.
Proof.
  intros s a s' (A1 & A2 & A3) [(B1 & B2 & B3)|[(B1 & B2 & B3)|(B1 & B2 & B3)]].
  - left. unfold same_tc. split; [lia|]. split; [lia|]. auto.
  - right. left. unfold push_tc. split; [lia|]. split; [lia|]. auto.
  - right. right. unfold pop_tc. split; [lia|]. split; [lia|]. auto.
Qed.

Lemma any_tc_post : forall s a s', any_tc s a -> same_tc a s' -> any_tc s s'.
Proof.
  intros s a s' [(B1 & B2 & B3)|[(B1 & B2 & B3)|(B1 & B2 & B3)]] (A1 & A2 & A3).
  - left. unfold same_tc. split; [lia|]. split; [lia|]. auto.
  - right. left. unfold push_tc. split; [lia|]. split; [lia|]. auto.
  - right. right. unfold pop_tc. split; [lia|]. split; [lia|]. auto.
Qed.

Lemma same_tc_set_p : forall s v, same_tc s (set_p s v).
Proof. intros. unfold same_tc, scons. cbn. auto. Qed.

Definition ures_any (s : st) (r : ures) : Prop :=
  match r with
  | RCont s' | ROut s' | RRet _ _ s' => same_tc s s'
  | RGoto s' _ => any_tc s s'
  | RPanic _ => True
  end.

Definition o_any (s : st) (o : outcome) : Prop :=
  match o with ODone _ _ s' => any_tc s s' | _ => True end.

Definition sres_any (s : st) (r : sres) : Prop :=
  match r with SDone o => o_any s o | SNext _ s' => any_tc s s' end.

Section TopCapRun.
  Variable md : Z.
  Variable m : machine.
  Variable data : list byte.
  Variable h : handler.
  Variable pe : Z.

  Lemma units_tc : forall us s, ures_any s (exec_units md data h pe us s).
  Proof.
    induction us as [|u r IH]; intros s; [cbn; apply same_tc_refl|].
    cbn [exec_units]. pose proof (unit_tc md data h pe u s) as U.
    destruct (exec_unit md data h pe u s) as [a|a d|a|p e a|k]; cbn [ures_tc ures_any] in *; auto.
    - specialize (IH a). destruct (exec_units md data h pe r a) as [b|b d|b|p e b|k]; cbn [ures_any] in *; auto;
        try (eapply same_tc_trans; eauto). eapply any_tc_pre; eauto.
    - destruct U; [right; left|right; right]; auto.
  Qed.

  Lemma eof_tc : forall q s, match eof_phase md m data h pe q s with ODone _ _ s' => same_tc s s' | _ => True end.
  Proof.
    intros q s. unfold eof_phase. pose proof (units_tc (m_eof m q) s) as U.
    destruct (exec_units md data h pe (m_eof m q) s); cbn [ures_any] in U; auto.
  Qed.

  Lemma goto_tc : forall s0 s d, any_tc s0 s -> sres_any s0 (goto_step md m data h pe s d).
  Proof.
    intros s0 s d H. unfold goto_step. destruct (d =? 0); [exact H|].
    destruct (negb (m_is_state m d)); [exact I|].
    pose proof (any_tc_post _ _ _ H (same_tc_set_p s (s_p s + 1))) as H'.
    destruct (s_p (set_p s (s_p s + 1)) =? pe); [|exact H'].
    cbn [sres_any]. pose proof (eof_tc d (set_p s (s_p s + 1))) as E.
    destruct (eof_phase md m data h pe d (set_p s (s_p s + 1))); cbn [o_any]; auto.
    eapply any_tc_post; eauto.
  Qed.

  Lemma step_tc : forall q s, sres_any s (step md m data h pe q s).
  Proof.
    intros q s. unfold step. destruct (get data (s_p s)); [|exact I].
    destruct (m_trans m q b) as [us d]. pose proof (units_tc us s) as U.
    destruct (exec_units md data h pe us s); cbn [ures_any] in U.
    - apply goto_tc. left; auto.
    - apply goto_tc. auto.
    - left; auto.
    - left; auto.
    - exact I.
  Qed.

  Definition tcinv (s : st) : Prop := s_top s <= s_cap s.

  Lemma any_tc_facts : forall s s', any_tc s s' -> tcinv s ->
    tcinv s' /\ s_cap s' = Z.max (s_cap s) (s_top s') /\ s_cap s <= s_cap s' <= s_cap s + 1 /\
    (scons s -> scons s').
  Proof.
    unfold tcinv. intros s s' [(B1 & B2 & B3)|[(B1 & B2 & B3)|(B1 & B2 & B3)]] T;
      (split; [lia|split; [lia|split; [lia|exact B3]]]).
  Qed.

  Lemma run_maxtop_ge : forall f q s, s_top s <= run_maxtop md m data h pe f q s.
  Proof.
    intros [|f] q s; cbn [run_maxtop]; [lia|].
    destruct (step md m data h pe q s) as [[p e s'|k|]|q' s']; lia.
  Qed.

  Lemma run_cap : forall f q s p e s',
    tcinv s -> run md m data h pe f q s = ODone p e s' ->
    s_cap s' = Z.max (s_cap s) (run_maxtop md m data h pe f q s) /\
    Z.of_nat (run_grows md m data h pe f q s) = s_cap s' - s_cap s /\
    (scons s -> scons s').
  Proof.
    induction f as [|f IH]; intros q s p e s' T H; [discriminate|].
    rewrite run_step in H. cbn [run_maxtop run_grows]. pose proof (step_tc q s) as ST.
    destruct (step md m data h pe q s) as [o|q1 s1]; cbn [sres_any] in ST.
    - subst o. cbn [o_any] in ST. destruct (any_tc_facts _ _ ST T) as (T' & C & B & SC).
      unfold tcinv in *. unfold grew. split; [lia|]. split; auto.
      destruct (s_cap s <? s_cap s') eqn:E; [apply Z.ltb_lt in E|apply Z.ltb_ge in E]; lia.
    - destruct (any_tc_facts _ _ ST T) as (T' & C & B & SC).
      destruct (IH _ _ _ _ _ T' H) as (C' & G' & SC').
      pose proof (run_maxtop_ge f q1 s1) as GE. unfold tcinv in *. unfold grew.
      split; [lia|]. split; auto.
      rewrite Nat2Z.inj_add.
      destruct (s_cap s <? s_cap s1) eqn:E; [apply Z.ltb_lt in E|apply Z.ltb_ge in E]; lia.
  Qed.
End TopCapRun.

Lemma scons_len : forall s, scons s -> len (s_stack s) = s_cap s.
Proof.
  intros s (T & C). unfold s_stack, len in *. rewrite app_length, rev_length. lia.
Qed.

Lemma stack_of_eq : forall s, stack_of s = s_stack s.
Proof. intros s. unfold stack_of, s_stack. apply rev_append_rev. Qed.

(** the final capacity is max(initial capacity, deepest nesting reached); the number of growths
    is the capacity gained; the slice stored back has exactly that length.  Any machine, any
    handler, no well-formedness hypothesis. *)
Theorem cap_final : forall md m data h stack dst p e s,
  prun md m data h stack dst = ODone p e s ->
  s_cap s = Z.max (len stack) (prun_maxtop md m data h stack dst) /\
  Z.of_nat (prun_grows md m data h stack dst) = s_cap s - len stack /\
  len (s_stack s) = s_cap s.
Proof.
  intros md m data h stack dst p e s H. unfold prun, prun_maxtop, prun_grows in *.
  assert (T0 : tcinv (init_st stack dst)) by (unfold tcinv, init_st; cbn; apply len_nonneg).
  assert (S0 : scons (init_st stack dst)).
  { unfold scons, init_st; cbn. change (len (@nil Z)) with 0. split; lia. }
  pose proof (len_nonneg stack) as LS.
  destruct (0 =? len data).
  - pose proof (eof_tc md m data h (len data) (m_start m) (init_st stack dst)) as E.
    rewrite H in E. destruct E as (E1 & E2 & E3). cbn [s_cap init_st] in E2.
    split; [lia|]. split; [cbn; lia|]. apply scons_len; auto.
  - destruct (run_cap md m data h (len data) _ _ _ _ _ _ T0 H) as (C & G & SC).
    cbn [s_cap init_st] in C, G. split; auto. split; auto. apply scons_len; auto.
Qed.

(** (a) a buffer at least as long as the deepest nesting: no growth *)
Theorem no_growth_when_warm : forall md m data h stack dst p e s,
  prun md m data h stack dst = ODone p e s ->
  prun_maxtop md m data h stack dst <= len stack ->
  s_cap s = len stack /\ prun_grows md m data h stack dst = O.
Proof.
  intros md m data h stack dst p e s H W.
  destruct (cap_final _ _ _ _ _ _ _ _ _ H) as (C & G & _). split; lia.
Qed.

(** (b) the slice stored back into the Buffer ([Api.stack_of]) is at least as long as the
    deepest nesting of the run that produced it *)
Theorem warm_after_use : forall md m data h stack dst p e s,
  prun md m data h stack dst = ODone p e s ->
  stack_of s = s_stack s /\ len (s_stack s) = s_cap s /\
  prun_maxtop md m data h stack dst <= len (s_stack s) /\ len stack <= len (s_stack s).
Proof.
  intros md m data h stack dst p e s H.
  destruct (cap_final _ _ _ _ _ _ _ _ _ H) as (C & G & L).
  split; [apply stack_of_eq|]. split; auto. lia.
Qed.

(** (c), general form: any later run (same or other machine, document, handler, destination)
    on the buffer stored back whose nesting is not deeper than that of the first run does
    not grow the stack *)
Theorem rerun_no_growth_gen : forall md m data h stack dst p e s md' m' data' h' dst' p' e' s',
  prun md m data h stack dst = ODone p e s ->
  prun md' m' data' h' (s_stack s) dst' = ODone p' e' s' ->
  prun_maxtop md' m' data' h' (s_stack s) dst' <= prun_maxtop md m data h stack dst ->
  s_cap s' = s_cap s /\ len (s_stack s') = len (s_stack s) /\
  prun_grows md' m' data' h' (s_stack s) dst' = O.
Proof.
  intros md m data h stack dst p e s md' m' data' h' dst' p' e' s' H1 H2 LE.
  destruct (warm_after_use _ _ _ _ _ _ _ _ _ H1) as (_ & L & W & _).
  destruct (no_growth_when_warm _ _ _ _ _ _ _ _ _ H2) as (C & G); [lia|].
  destruct (cap_final _ _ _ _ _ _ _ _ _ H2) as (_ & _ & L2). split; [lia|]. split; [lia|]. exact G.
Qed.

(** ** the nesting depth does not depend on the destination, the buffer contents or scribbling *)
Lemma run_maxtop_dst : forall md m data h pe d0 f q s,
  run_maxtop md m data h pe f q (addd d0 s) = run_maxtop md m data h pe f q s.
Proof.
  induction f as [|f IH]; intros q s; [reflexivity|].
  cbn [run_maxtop]. rewrite step_dst.
  destruct (step md m data h pe q s) as [[p e s'|k|]|q' s']; cbn [map_sres map_outcome]; auto.
  rewrite IH. reflexivity.
Qed.

Theorem maxtop_dst_irrelevant : forall md m data h stack dst,
  prun_maxtop md m data h stack dst = prun_maxtop md m data h stack [].
Proof.
  intros. unfold prun_maxtop. destruct (0 =? len data); [reflexivity|].
  assert (E : init_st stack dst = addd dst (init_st stack [])).
  { unfold addd, init_st. cbn. rewrite app_nil_r. reflexivity. }
  rewrite E. apply run_maxtop_dst.
Qed.

Lemma R_top : forall s1 s2, R s1 s2 -> s_top s1 = s_top s2.
Proof. intros s1 s2 H. unfold R in H. apply (f_equal s_top) in H. exact H. Qed.

Section MaxtopRel.
  Variable rm : rawmachine.
  Variable A : anntab.
  Variable md : Z.
  Variable data : list byte.
  Variable h : handler.
  Notation pe := (len data).
  Notation h' := (nohavoc h).
  Hypothesis Hlen : pe < two63 \/ (forall q, has_jump rm q = false).
  Hypothesis HA : chk_all rm A = true.

  Lemma run_maxtop_rel : forall f q s1 s2,
    R s1 s2 -> Inv rm A data h q s1 -> Inv rm A data h' q s2 -> s_p s1 < pe ->
    run_maxtop md (of_raw rm) data h pe f q s1 = run_maxtop md (of_raw rm) data h' pe f q s2.
  Proof.
    induction f as [|f IH]; intros q s1 s2 HR I1 I2 P1; [apply R_top; auto|].
    cbn [run_maxtop]. rewrite (R_top _ _ HR).
    assert (P2 : s_p s2 < pe) by (destruct (R_fields _ _ HR) as (E & _); rewrite <- E; auto).
    pose proof (step_sound rm A md data h Hlen HA q s1 I1 P1) as S1.
    pose proof (step_sound rm A md data h' Hlen HA q s2 I2 P2) as S2.
    destruct (chk_parts rm A HA) as (_ & _ & _ & _ & _ & _ & _ & _ & _ & _ & EK).
    assert (HH : forall b us d, get data (s_p s1) = Some b -> raw_trans rm q b = (us, d) ->
                 existsb is_handle us = true -> s_live s1 = []).
    { intros b us d _ TR EH. eapply handle_main; eauto. }
    pose proof (step_rel md data h rm EK q s1 s2 HR HH) as SR.
    destruct (step md (of_raw rm) data h pe q s1) as [o1|q1 a];
    destruct (step md (of_raw rm) data h' pe q s2) as [o2|q2 b]; cbn [sres_rel] in SR.
    - destruct (good_done _ _ _ _ S1) as (p1 & e1 & a & ->). destruct (good_done _ _ _ _ S2) as (p2 & e2 & b & ->).
      cbn in SR. destruct SR as (_ & _ & HR'). rewrite (R_top _ _ HR'). reflexivity.
    - destruct (good_done _ _ _ _ S1) as (? & ? & ? & ->). contradiction.
    - destruct (good_done _ _ _ _ S2) as (? & ? & ? & ->). contradiction.
    - destruct SR as (-> & HR'). destruct S1 as (I1' & P1' & _). destruct S2 as (I2' & _).
      rewrite (IH q2 a b); auto.
  Qed.

  Lemma prun_maxtop_rel : forall stack dst,
    prun_maxtop md (of_raw rm) data h stack dst = prun_maxtop md (of_raw rm) data h' [] dst.
  Proof.
    intros stack dst. unfold prun_maxtop. destruct (0 =? pe) eqn:E; [reflexivity|].
    apply Z.eqb_neq in E. apply run_maxtop_rel.
    - reflexivity.
    - apply Inv_init; auto.
    - apply Inv_init; auto.
    - cbn. pose proof (len_nonneg data). lia.
  Qed.
End MaxtopRel.

(** for a table passing [wf_check]: the nesting depth of a run is a function of the document
    and the handler's answers only (not of the buffer, not of scribbling, not of dst) *)
Theorem maxtop_irrelevant : forall rm md data h stack dst,
  wf_check rm = true -> len data <= maxint ->
  prun_maxtop md (of_raw rm) data h stack dst = prun_maxtop md (of_raw rm) data (nohavoc h) [] [].
Proof.
  intros rm md data h stack dst W L.
  rewrite (prun_maxtop_rel rm (compute_ann rm) md data h (len_ok_hyp _ _ (or_introl L)) (wf_check_all _ W) stack dst).
  apply maxtop_dst_irrelevant.
Qed.

(** (c) for the same document and handler (arbitrary, scribbling allowed), any destination:
    the run on the buffer stored back ends normally, keeps the capacity and does not grow *)
Theorem rerun_no_growth : forall rm md data h stack dst p e s dst',
  wf_check rm = true -> 0 <= md -> len data <= maxint ->
  prun md (of_raw rm) data h stack dst = ODone p e s ->
  exists p' e' s',
    prun md (of_raw rm) data h (s_stack s) dst' = ODone p' e' s' /\
    s_cap s' = s_cap s /\ len (s_stack s') = len (s_stack s) /\
    prun_grows md (of_raw rm) data h (s_stack s) dst' = O.
Proof.
  intros rm md data h stack dst p e s dst' W MD L H.
  destruct (machines_safe rm md data h (s_stack s) dst' W MD L) as (p' & e' & s' & H' & _).
  exists p', e', s'. split; auto.
  eapply rerun_no_growth_gen; eauto.
  rewrite (maxtop_irrelevant rm md data h (s_stack s) dst' W L).
  rewrite (maxtop_irrelevant rm md data h stack dst W L). lia.
Qed.

(** * Non-vacuity on [tiny_raw] (Safety.v): one call, so the nesting depth is 1 *)
Example dst_frame_nonvacuous :
  obs (prun 10 (of_raw tiny_raw) tiny_data h_ok [] []) =
    ObsDone 6 (Some EUnexpectedEOF) [{| c_p := 2; c_key := []; c_obj := false |}] [] false /\
  prun 10 (of_raw tiny_raw) tiny_data h_ok [] [x41; x42] =
    map_outcome (addd [x41; x42]) (prun 10 (of_raw tiny_raw) tiny_data h_ok [] []).
Proof. split; vm_compute; reflexivity. Qed.

Example cold_run_grows_once :
  prun_maxtop 10 (of_raw tiny_raw) tiny_data h_ok [] [] = 1 /\
  prun_grows 10 (of_raw tiny_raw) tiny_data h_ok [] [] = 1%nat /\
  match prun 10 (of_raw tiny_raw) tiny_data h_ok [] [] with
  | ODone _ _ s => s_cap s = 1 /\ length (s_stack s) = 1%nat
  | _ => False
  end.
Proof. vm_compute. auto. Qed.

Example warm_run_does_not_grow :
  match prun 10 (of_raw tiny_raw) tiny_data h_ok [] [] with
  | ODone _ _ s =>
    match prun 10 (of_raw tiny_raw) tiny_data h_ok (s_stack s) [] with
    | ODone _ _ s' =>
      prun_grows 10 (of_raw tiny_raw) tiny_data h_ok (s_stack s) [] = O /\ s_cap s' = s_cap s /\
      (* the hypothesis of (a) holds for the second run *)
      (prun_maxtop 10 (of_raw tiny_raw) tiny_data h_ok (s_stack s) [] <=? len (s_stack s)) = true
    | _ => False
    end
  | _ => False
  end /\
  (* the hypotheses of (c) *)
  wf_check tiny_raw = true /\ 0 <= 10 /\ len tiny_data <= maxint.
Proof.
  split; [vm_compute; auto|]. split; [exact tiny_wf|]. split; [lia|exact tiny_len].
Qed.

Print Assumptions dst_frame.
Print Assumptions ReadStringBytes_frame.
Print Assumptions UnescapeStringContent_frame.
Print Assumptions ReadString_scratch_irrelevant.
Print Assumptions cap_final.
Print Assumptions no_growth_when_warm.
Print Assumptions warm_after_use.
Print Assumptions rerun_no_growth_gen.
Print Assumptions maxtop_irrelevant.
Print Assumptions rerun_no_growth.
