(** C12 on the models of decode.go: a Decode function behaves as its reader and stores the
    value when the reader succeeds; when the input begins with the literal null it returns the
    offset after null, no error, target unchanged; otherwise the reader's error and the target
    unchanged.  Generic in the reader and in the null machine. *)
From Coq Require Import List ZArith Bool.
From Coq Require Import Strings.Byte.
From Rjson Require Import Base Helpers Machine MachineFacts Wf Safety Api ApiFacts.
Import ListNotations.
Local Open Scope Z_scope.

Section Decode.
  Variable md : Z.
  Variable mNull : machine.
  Context {T : Type}.
  Variable rd : list byte -> T * Z * option errk.

  (** the specification of C12, as a function of the reader's and ReadNull's results *)
  Definition decode_spec (data : list byte) (v0 : T) : option (Z * option errk * T) :=
    match rd data with
    | (v, p, None) => Some (p, None, v)
    | (_, _, Some e) =>
      match ReadNull md mNull data with
      | inl (p, None) => Some (p, None, v0)
      | inl (_, Some _) => Some (0, Some e, v0)
      | inr _ => None
      end
    end.

  Theorem decode_with_spec : forall data v0, decode_with md mNull rd data v0 = decode_spec data v0.
  Proof.
    intros data v0. unfold decode_with, decode_spec, nullOrBust.
    destruct (rd data) as [[v p] [e|]]; reflexivity.
  Qed.

  (** the target is written only on success of the reader *)
  Theorem decode_target_written_only_on_success : forall data v0 p e v,
    decode_with md mNull rd data v0 = Some (p, e, v) ->
    (exists v', rd data = (v', p, None) /\ v = v' /\ e = None) \/ v = v0.
  Proof.
    intros data v0 p e v H. rewrite decode_with_spec in H. unfold decode_spec in H.
    destruct (rd data) as [[v' p'] [e'|]].
    - right. destruct (ReadNull md mNull data) as [[pn [en|]]|]; inversion H; reflexivity.
    - left. inversion H; subst. eauto.
  Qed.

  (** an error leaves the target alone and is the reader's own error *)
  Theorem decode_error_is_readers : forall data v0 p e v,
    decode_with md mNull rd data v0 = Some (p, Some e, v) ->
    v = v0 /\ exists v' p', rd data = (v', p', Some e).
  Proof.
    intros data v0 p e v H. rewrite decode_with_spec in H. unfold decode_spec in H.
    destruct (rd data) as [[v' p'] [e'|]].
    - destruct (ReadNull md mNull data) as [[pn [en|]]|]; inversion H; subst. split; eauto.
    - inversion H.
  Qed.

  (** null: offset just after null, no error, target unchanged *)
  Theorem decode_null : forall data v0 v' p' e pn,
    rd data = (v', p', Some e) -> ReadNull md mNull data = inl (pn, None) ->
    decode_with md mNull rd data v0 = Some (pn, None, v0).
  Proof.
    intros data v0 v' p' e pn H1 H2. rewrite decode_with_spec. unfold decode_spec. rewrite H1, H2. reflexivity.
  Qed.
End Decode.

(** Decode functions never end abnormally when the null table is well-formed *)
Lemma ReadNull_total : forall md rm, wf_check rm = true -> no_jumps rm = true ->
  forall data, exists p e, ReadNull md (of_raw rm) data = inl (p, e).
Proof.
  intros md rm W J data. unfold ReadNull.
  destruct (fn_total md rm W data no_handler [] [] (or_intror J)) as (p & e & s & E & _).
  rewrite E. cbn. eauto.
Qed.

Theorem decode_with_total : forall md rm, wf_check rm = true -> no_jumps rm = true ->
  forall T (rd : list byte -> T * Z * option errk) data v0,
  decode_with md (of_raw rm) rd data v0 <> None.
Proof.
  intros md rm W J T rd data v0. rewrite decode_with_spec. unfold decode_spec.
  destruct (rd data) as [[v p] [e|]]; [|discriminate].
  destruct (ReadNull_total md rm W J data) as (pn & en & E). rewrite E.
  destruct en; discriminate.
Qed.
