(** Basic facts about the definitions of Base.v, Helpers.v and Machine.v:
    - [wrap64] is the identity on the int64 range;
    - [get]/[slice]/[overwrite] bookkeeping;
    - range lemmas for the scanner models and for [unescapeUnicodeChar];
    - [step]: one DISPATCH of [run] as a function, [run_step];
    - [prun_c_eq]: the cursor version of the loop equals the specification loop. *)
From Coq Require Import List ZArith Bool Lia.
From Coq Require Import Strings.Byte.
From Rjson Require Import Base Helpers Machine.
Import ListNotations.
Local Open Scope Z_scope.

(** ** wrap64 *)
Lemma wrap64_id : forall x, - two63 <= x < two63 -> wrap64 x = x.
Proof.
  intros x H. unfold wrap64, two63, two64 in *.
  rewrite Z.mod_small; lia.
Qed.

Lemma wrap64_range : forall x, - two63 <= wrap64 x < two63.
Proof.
  intros x. unfold wrap64, two63, two64.
  pose proof (Z.mod_pos_bound (x + 9223372036854775808) 18446744073709551616 eq_refl). lia.
Qed.

(** ** len, get, slice *)
Lemma len_nonneg : forall {A} (l : list A), 0 <= len l.
Proof. intros. unfold len. lia. Qed.

Lemma len_app : forall {A} (l1 l2 : list A), len (l1 ++ l2) = len l1 + len l2.
Proof. intros. unfold len. rewrite app_length. lia. Qed.

Lemma len_cons : forall {A} (x : A) l, len (x :: l) = 1 + len l.
Proof. intros. unfold len. cbn [length]. lia. Qed.

Lemma nth_error_skipn_hd : forall {A} n (l : list A), nth_error l n = hd_error (skipn n l).
Proof.
  induction n; intros [|x l]; cbn; auto.
Qed.

Lemma skipn_skipn : forall {A} a b (l : list A), skipn a (skipn b l) = skipn (a + b) l.
Proof.
  intros A a b. revert a. induction b as [|b IH]; intros a l.
  - rewrite Nat.add_0_r. reflexivity.
  - destruct l as [|x l]; [rewrite !skipn_nil; reflexivity|].
    replace (a + S b)%nat with (S (a + b)) by lia. cbn [skipn]. apply IH.
Qed.

Lemma get_hd : forall data p, 0 <= p -> get data p = hd_error (skipn (Z.to_nat p) data).
Proof.
  intros data p H. unfold get.
  destruct (p <? 0) eqn:E; [apply Z.ltb_lt in E; lia|].
  apply nth_error_skipn_hd.
Qed.

Lemma get_some_iff : forall data p, (exists b, get data p = Some b) <-> 0 <= p < len data.
Proof.
  intros data p. unfold get, len. split.
  - intros [b H]. destruct (p <? 0) eqn:E; [discriminate|]. apply Z.ltb_ge in E.
    assert (nth_error data (Z.to_nat p) <> None) by congruence.
    apply nth_error_Some in H0. lia.
  - intros [H1 H2]. destruct (p <? 0) eqn:E; [apply Z.ltb_lt in E; lia|].
    destruct (nth_error data (Z.to_nat p)) eqn:N; eauto.
    apply nth_error_None in N. lia.
Qed.

Lemma get_some_range : forall data p b, get data p = Some b -> 0 <= p < len data.
Proof. intros. apply get_some_iff; eauto. Qed.

Lemma get_in_range : forall data p, 0 <= p < len data -> exists b, get data p = Some b.
Proof. intros. apply get_some_iff; auto. Qed.

Lemma get_none_iff : forall data p, get data p = None <-> (p < 0 \/ len data <= p).
Proof.
  intros data p. split.
  - intros H. destruct (Z_lt_dec p 0); auto. destruct (Z_le_dec (len data) p); auto.
    destruct (get_in_range data p) as [b Hb]; [lia|congruence].
  - intros H. destruct (get data p) eqn:G; auto.
    apply get_some_range in G. lia.
Qed.

Lemma slice_some : forall data a b, 0 <= a -> a <= b -> b <= len data -> exists l, slice data a b = Some l.
Proof.
  intros data a b H1 H2 H3. unfold slice.
  apply Z.leb_le in H1, H2, H3. rewrite H1, H2, H3. cbn. eauto.
Qed.

Lemma overwrite_length : forall l j, length (overwrite l j) = length l.
Proof.
  induction l as [|x l IH]; intros [|y j]; cbn; auto.
Qed.

Lemma zrepeat_length : forall n, length (zrepeat n) = n.
Proof. induction n; cbn; auto. Qed.

Lemma bz_range : forall b, 0 <= bz b <= 255.
Proof.
  intros b. unfold bz. pose proof (Byte.to_N_bounded b). lia.
Qed.

(** ** Scanner models: the returned index stays inside the token / the data *)
Lemma count_while_le : forall f l, (count_while f l <= length l)%nat.
Proof. induction l as [|c r IH]; cbn; [lia|]. destruct (f c); lia. Qed.

Lemma skipn_cons_len : forall {A} n (l : list A) c r, skipn n l = c :: r -> (n + S (length r) = length l)%nat.
Proof.
  intros A n l c r H. pose proof (skipn_length n l) as L. rewrite H in L. cbn [length] in L.
  assert (n < length l)%nat.
  { destruct (Nat.lt_ge_cases n (length l)); auto. rewrite skipn_all2 in H by lia. discriminate. }
  lia.
Qed.

(** for [q = p+1] with [0 <= p < len data]: result in [p .. len data - 1] *)
Lemma skipFloatExp_range : forall data q p' e,
  0 <= q -> skipFloatExp data q = (p', e) -> q - 1 <= p' /\ (p' <= len data - 1 \/ p' = q - 1).
Proof.
  intros data q p' e Hq H. unfold skipFloatExp in H.
  destruct (skipn (Z.to_nat q) data) as [|c r] eqn:Sk.
  - cbv zeta in H; injection H as Hp He; subst p'; clear He. lia.
  - apply skipn_cons_len in Sk.
    destruct (q <? 0) eqn:E; [apply Z.ltb_lt in E; lia|].
    destruct (is_sign c).
    + cbv zeta in H; injection H as Hp He; subst p'; clear He. pose proof (count_while_le is_digit r). unfold len. lia.
    + cbv zeta in H; injection H as Hp He; subst p'; clear He. pose proof (count_while_le is_digit (c :: r)) as CW. cbn [length count_while] in CW. unfold len. destruct (is_digit c); lia.
Qed.

Lemma skipn_skipn_cons : forall {A} n (l : list A) m c r c2 r2,
  skipn n l = c :: r -> skipn m r = c2 :: r2 -> skipn (n + 1 + m) l = c2 :: r2.
Proof.
  intros A n l m c r c2 r2 H1 H2.
  replace (n + 1 + m)%nat with (m + (1 + n))%nat by lia.
  rewrite <- skipn_skipn. rewrite <- (skipn_skipn 1 n). rewrite H1. cbn [skipn]. exact H2.
Qed.

Lemma skipFloatDec_range : forall data q p' e,
  0 <= q -> skipFloatDec data q = (p', e) -> q - 1 <= p' /\ (p' <= len data - 1 \/ p' = q - 1).
Proof.
  intros data q p' e Hq H. unfold skipFloatDec in H.
  destruct (skipn (Z.to_nat q) data) as [|c r] eqn:Sk.
  - cbv zeta in H; injection H as Hp He; subst p'; clear He. lia.
  - pose proof (skipn_cons_len _ _ _ _ Sk) as L.
    destruct (q <? 0) eqn:E; [apply Z.ltb_lt in E; lia|].
    destruct (negb (is_digit c)); [cbv zeta in H; injection H as Hp He; subst p'; clear He; lia|].
    pose proof (count_while_le is_digit r) as CW.
    destruct (skipn (count_while is_digit r) r) as [|c2 r2] eqn:S2.
    + cbv zeta in H; injection H as Hp He; subst p'; clear He. unfold len. lia.
    + pose proof (skipn_cons_len _ _ _ _ S2) as L2.
      destruct (is_exp c2).
      * apply skipFloatExp_range in H; [|lia]. unfold len in *. lia.
      * cbv zeta in H; injection H as Hp He; subst p'; clear He. unfold len. lia.
Qed.

(** the form used by the machine: [p, err = skipFloatX(data, p+1, pe)] *)
Lemma scanDec_range : forall data p p' e,
  0 <= p < len data -> skipFloatDec data (p + 1) = (p', e) -> p <= p' <= len data - 1.
Proof. intros data p p' e Hp H. apply skipFloatDec_range in H; lia. Qed.

Lemma scanExp_range : forall data p p' e,
  0 <= p < len data -> skipFloatExp data (p + 1) = (p', e) -> p <= p' <= len data - 1.
Proof. intros data p p' e Hp H. apply skipFloatExp_range in H; lia. Qed.

Lemma scanDec_err : forall data q p' e, skipFloatDec data q = (p', e) -> e = None \/ e = Some EInvalidNumber.
Proof.
  intros data q p' e H. unfold skipFloatDec, skipFloatExp in H.
  repeat match type of H with
  | context [match ?x with _ => _ end] => destruct x
  end; inversion H; auto.
Qed.

Lemma scanExp_err : forall data q p' e, skipFloatExp data q = (p', e) -> e = None \/ e = Some EInvalidNumber.
Proof.
  intros data q p' e H. unfold skipFloatExp in H.
  repeat match type of H with
  | context [match ?x with _ => _ end] => destruct x
  end; inversion H; auto.
Qed.

(** ** unescapeUnicodeChar: bytesHandled is 0 (not ok), 6, or 12 with 12 bytes present *)
Lemma getu4_nonneg_len : forall s, 0 <= getu4 s -> 6 <= len s.
Proof.
  intros s H. unfold getu4 in H.
  destruct s as [|b0 [|b1 [|h1 [|h2 [|h3 [|h4 r]]]]]]; try lia.
  rewrite !len_cons. pose proof (len_nonneg r). lia.
Qed.

Lemma utf16_decode_pair : forall r1 r2, utf16_decode r1 r2 <> 65533 -> 56320 <= r2.
Proof.
  intros r1 r2 H. unfold utf16_decode in H.
  destruct (55296 <=? r1); cbn [andb] in H; [|congruence].
  destruct (r1 <? 56320); cbn [andb] in H; [|congruence].
  destruct (56320 <=? r2) eqn:E; cbn [andb] in H; [|congruence].
  apply Z.leb_le in E. exact E.
Qed.

Lemma unescapeUnicodeChar_n : forall s dst d n ok,
  unescapeUnicodeChar s dst = (d, n, ok) ->
  (ok = false /\ n = 0) \/ (ok = true /\ (n = 6 \/ (n = 12 /\ 12 <= len s))).
Proof.
  intros s dst d n ok H. unfold unescapeUnicodeChar in H.
  destruct (getu4 s <? 0) eqn:E1; [inversion H; auto|].
  apply Z.ltb_ge in E1.
  destruct (is_surrogate (getu4 s)); [|inversion H; auto].
  destruct (negb (utf16_decode (getu4 s) (getu4 (skipn 6 s)) =? 65533)) eqn:E2; [|inversion H; auto].
  inversion H; subst. right. split; auto. right. split; auto.
  apply negb_true_iff in E2. apply Z.eqb_neq in E2. apply utf16_decode_pair in E2.
  assert (0 <= getu4 (skipn 6 s)) by lia.
  apply getu4_nonneg_len in H0. apply getu4_nonneg_len in E1.
  unfold len in *. rewrite skipn_length in H0. lia.
Qed.

(** ** One DISPATCH as a function *)
Inductive sres :=
| SDone (o : outcome)
| SNext (cs : Z) (s : st).

Section Step.
  Variable max_depth : Z.
  Variable m : machine.
  Variable data : list byte.
  Variable h : handler.
  Variable pe : Z.

  Definition goto_step (s' : st) (d' : Z) : sres :=
    if d' =? 0 then SDone (ODone (s_p s') (s_err s') s')
    else if negb (m_is_state m d') then SDone (OPanic PBadState)
    else
      let s'' := set_p s' (s_p s' + 1) in
      if s_p s'' =? pe then SDone (eof_phase max_depth m data h pe d' s'') else SNext d' s''.

  Definition step (cs : Z) (s : st) : sres :=
    match get data (s_p s) with
    | None => SDone (OPanic PData)
    | Some b =>
      let '(us, d) := m_trans m cs b in
      match exec_units max_depth data h pe us s with
      | RCont s' => goto_step s' d
      | RGoto s' d' => goto_step s' d'
      | ROut s' => SDone (ODone (s_p s') (s_err s') s')
      | RRet p e s' => SDone (ODone p (Some e) s')
      | RPanic k => SDone (OPanic k)
      end
    end.

  Lemma run_step : forall f cs s,
    run max_depth m data h pe (S f) cs s =
    match step cs s with SDone o => o | SNext cs' s' => run max_depth m data h pe f cs' s' end.
  Proof.
    intros f cs s. cbn [run]. unfold step, goto_step.
    destruct (get data (s_p s)); [|reflexivity].
    destruct (m_trans m cs b) as [us d].
    destruct (exec_units max_depth data h pe us s); try reflexivity.
    - destruct (d =? 0); [reflexivity|]. destruct (negb (m_is_state m d)); [reflexivity|].
      destruct (s_p (set_p s0 (s_p s0 + 1)) =? pe); reflexivity.
    - destruct (d0 =? 0); [reflexivity|]. destruct (negb (m_is_state m d0)); [reflexivity|].
      destruct (s_p (set_p s0 (s_p s0 + 1)) =? pe); reflexivity.
  Qed.

  (** *** the cursor loop *)
  Definition cur (p : Z) (rest : list byte) : Prop :=
    (0 <= p /\ rest = skipn (Z.to_nat p) data) \/ (rest = [] /\ get data p = None).

  Lemma cur_get : forall p rest, cur p rest -> get data p = hd_error rest.
  Proof.
    intros p rest [[H1 H2]|[H1 H2]]; subst.
    - apply get_hd; auto.
    - rewrite H2. reflexivity.
  Qed.

  Hypothesis pe_len : pe = len data.

  Lemma run_c_eq : forall f cs s rest,
    cur (s_p s) rest ->
    run_c max_depth m data h pe f cs s rest = run max_depth m data h pe f cs s.
  Proof.
    induction f as [|f IH]; intros cs s rest C; [reflexivity|].
    cbn [run run_c]. rewrite (cur_get _ _ C).
    destruct rest as [|b rest1]; [reflexivity|]. cbn [hd_error].
    destruct C as [[P0 R]|[R _]]; [|discriminate].
    assert (T : forall s' d',
      (if d' =? 0 then ODone (s_p s') (s_err s') s'
       else if negb (m_is_state m d') then OPanic PBadState
       else if s_p (set_p s' (s_p s' + 1)) =? pe then eof_phase max_depth m data h pe d' (set_p s' (s_p s' + 1))
       else if s_p s' =? s_p s then run_c max_depth m data h pe f d' (set_p s' (s_p s' + 1)) rest1
       else if (0 <=? s_p (set_p s' (s_p s' + 1))) && (s_p (set_p s' (s_p s' + 1)) <? pe)
            then run_c max_depth m data h pe f d' (set_p s' (s_p s' + 1)) (skipn (Z.to_nat (s_p (set_p s' (s_p s' + 1)))) data)
            else run_c max_depth m data h pe f d' (set_p s' (s_p s' + 1)) []) =
      (if d' =? 0 then ODone (s_p s') (s_err s') s'
       else if negb (m_is_state m d') then OPanic PBadState
       else if s_p (set_p s' (s_p s' + 1)) =? pe then eof_phase max_depth m data h pe d' (set_p s' (s_p s' + 1))
       else run max_depth m data h pe f d' (set_p s' (s_p s' + 1)))).
    { intros s' d'. destruct (d' =? 0); [reflexivity|].
      destruct (negb (m_is_state m d')); [reflexivity|].
      destruct (s_p (set_p s' (s_p s' + 1)) =? pe); [reflexivity|].
      cbn [s_p set_p].
      destruct (s_p s' =? s_p s) eqn:E.
      - apply Z.eqb_eq in E. apply IH. left. cbn [s_p set_p]. split; [lia|].
        rewrite E. replace (Z.to_nat (s_p s + 1)) with (1 + Z.to_nat (s_p s))%nat by lia.
        rewrite <- skipn_skipn. rewrite <- R. reflexivity.
      - destruct ((0 <=? s_p s' + 1) && (s_p s' + 1 <? pe)) eqn:G.
        + apply andb_true_iff in G. destruct G as [G1 G2]. apply Z.leb_le in G1.
          apply IH. left. cbn [s_p set_p]. auto.
        + apply IH. right. cbn [s_p set_p]. split; [reflexivity|].
          apply get_none_iff. apply andb_false_iff in G. destruct G as [G|G].
          * apply Z.leb_gt in G. lia.
          * apply Z.ltb_ge in G. lia. }
    destruct (m_trans m cs b) as [us d].
    destruct (exec_units max_depth data h pe us s); try reflexivity; apply T.
  Qed.
End Step.

Theorem prun_c_eq : forall md m data h stack dst,
  prun_c md m data h stack dst = prun md m data h stack dst.
Proof.
  intros. unfold prun_c, prun.
  destruct (0 =? len data); [reflexivity|].
  apply run_c_eq; [reflexivity|].
  left. cbn. split; [lia|reflexivity].
Qed.
