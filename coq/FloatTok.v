(** The float reader against the number token of the reference (Ref.number_tok), without the
    [exp_small] hypothesis of FpScan.v (positions and token-locality do not depend on the exponent's
    value): readFloat_m on a number token followed by anything that does not extend it returns a
    record that depends on the token only and ends at the end of the token; where the reference finds
    no number token ParseJSONFloatPrefix reports a syntax error.  Consequences: [float_offset_is_skip]
    (C08 for ReadFloat64) and [float_ok_model] (the hypothesis of TreeFacts.read_value_tree holds for the
    model, with the token's value given by the model on the isolated token). *)
From Coq Require Import List ZArith Bool Lia.
From Coq Require Import Strings.Byte.
From Rjson Require Import Base BaseFacts Helpers Round Fp FpSpec FpTables FpScan FpFacts Ref.
Import ListNotations.
Local Open Scope Z_scope.

(** * 1. the exponent loop and the code after finishUp, for exponents of any size *)

(** the exponent value as the code accumulates it (saturating: no digit is added once e >= 10000) *)
Definition sat (e : list byte) (a : Z) : Z :=
  fold_left (fun a c => if a <? 10000 then a * 10 + bz c - 48 else a) e a.

Lemma exp_loop_gen e : forall a p t,
  all_digits e = true -> match t with [] => True | c :: _ => is_digit c = false end ->
  exp_loop (e ++ t) p a = (p + len e, sat e a, t).
Proof.
  induction e as [|c e IH]; intros a p t He Ht.
  - change (len (@nil byte)) with 0. rewrite Z.add_0_r. cbn [app sat fold_left]. apply exp_loop_stop. exact Ht.
  - rewrite all_digits_cons in He. apply andb_true_iff in He as [Hc He].
    rewrite <- app_comm_cons. cbn [exp_loop]. rewrite Hc. rewrite IH by assumption.
    rewrite len_cons. unfold sat, c_0. cbn [fold_left]. f_equal. f_equal. lia.
Qed.

Definition exp10g (ex : option (bool * esign * list byte)) : Z :=
  match ex with
  | None => 0
  | Some (_, EMinus, e) => - sat e 0
  | Some (_, _, e) => sat e 0
  end.
Definition exp_wfg (ex : option (bool * esign * list byte)) : Prop :=
  match ex with None => True | Some (_, _, e) => all_digits e = true /\ e <> [] end.

(** [finish_spec] of FpScan.v without the bound on the exponent *)
Lemma finish_gen data neg s p ex rest :
  exp_wfg ex ->
  (ex <> None -> exists b, get data (p - 1) = Some b /\ bz b <> 46) ->
  match rest with
  | [] => True
  | c :: _ => match ex with Some _ => is_digit c = false | None => is_e_byte c = false end
  end ->
  rf_finish data neg true s p (exppart ex ++ rest) =
  {| rf_mant := s_mant s;
     rf_exp := if s_mant s =? 0 then 0
               else (if s_sawdot s then s_dp s else s_nd s) + exp10g ex - s_ndMant s;
     rf_neg := neg; rf_trunc := s_trunc s; rf_p := p + len (exppart ex); rf_ok := true |}.
Proof.
  intros Hex Hget Hrest. destruct ex as [[[cap sg] e]|].
  - destruct Hex as (He & Hne).
    destruct (Hget ltac:(discriminate)) as (b & Hb & Hb46).
    destruct e as [|c2 e']; [contradiction|].
    pose proof He as He2. rewrite all_digits_cons in He2. apply andb_true_iff in He2 as [Hc2 _].
    pose proof (is_digit_range c2 Hc2) as Hr2.
    assert (Hrest' : match rest with [] => True | c :: _ => is_digit c = false end).
    { destruct rest; [exact I|exact Hrest]. }
    cbn [exppart]. rewrite <- app_comm_cons. unfold rf_finish. cbn [negb].
    replace (is_e (if cap then B 69 else B 101)) with true by (destruct cap; reflexivity).
    rewrite Hb. replace (bz b =? c_dot) with false by (symmetry; apply Z.eqb_neq; exact Hb46).
    assert (Hexp : forall q, exp_loop ((c2 :: e') ++ rest) q 0 = (q + len (c2 :: e'), sat (c2 :: e') 0, rest)).
    { intros q. apply exp_loop_gen; assumption. }
    destruct sg; cbn [expsign exp10g].
    + cbn [app]. cbn [app] in Hexp.
      replace (bz c2 =? c_plus) with false by (symmetry; apply Z.eqb_neq; unfold c_plus; lia).
      replace (bz c2 =? c_minus) with false by (symmetry; apply Z.eqb_neq; unfold c_minus; lia).
      rewrite Hc2. cbn [negb]. rewrite Hexp.
      f_equal.
      * destruct (s_mant s =? 0); [reflexivity|]. lia.
      * rewrite !len_cons. lia.
    + cbn [app]. cbn [app] in Hexp.
      replace (bz (B 43) =? c_plus) with true by reflexivity.
      rewrite Hc2. cbn [negb]. rewrite Hexp.
      f_equal.
      * destruct (s_mant s =? 0); [reflexivity|]. lia.
      * rewrite !len_cons. lia.
    + cbn [app]. cbn [app] in Hexp.
      replace (bz (B 45) =? c_plus) with false by reflexivity.
      replace (bz (B 45) =? c_minus) with true by reflexivity.
      rewrite Hc2. cbn [negb]. rewrite Hexp.
      f_equal.
      * destruct (s_mant s =? 0); [reflexivity|]. lia.
      * rewrite !len_cons. lia.
  - cbn [exppart exp10g app]. change (len (@nil byte)) with 0. unfold rf_finish. cbn [negb].
    destruct rest as [|c r1].
    + f_equal.
      * destruct (s_mant s =? 0); [reflexivity|]. lia.
      * lia.
    + rewrite is_e_eq, Hrest. f_equal.
      * destruct (s_mant s =? 0); [reflexivity|]. lia.
      * lia.
Qed.

(** what readFloat returns on a literal, as a function of the literal alone *)
Definition frec (neg : bool) (ip : list byte) (fr : option (list byte)) (ex : option (bool * esign * list byte)) (pend : Z) : rf_res :=
  let Ds := ip ++ fracdigits fr in
  let mant := dval (firstn 19 Ds) in
  {| rf_mant := mant;
     rf_exp := if mant =? 0 then 0 else len ip + exp10g ex - Z.min 19 (len Ds);
     rf_neg := neg; rf_trunc := (19 <? len Ds); rf_p := pend; rf_ok := true |}.

Definition rest_okc (ip : list byte) (fr : option (list byte)) (ex : option (bool * esign * list byte)) (rest : list byte) : Prop :=
  match rest with
  | [] => True
  | c :: _ =>
    match ex, fr with
    | Some _, _ => is_digit c = false
    | None, Some _ => is_digit c = false /\ is_e_byte c = false
    | None, None => is_e_byte c = false /\ bz c <> 46 /\ (is_digit c = true -> ip = [B 48])
    end
  end.

(** [body_spec] of FpScan.v without the bound on the exponent, in closed form *)
Lemma body_gen pre neg ip fr ex rest :
  int_wf ip = true -> frac_wf fr -> exp_wfg ex -> rest_okc ip fr ex rest ->
  rf_body (pre ++ ip ++ fracpart fr ++ exppart ex ++ rest) neg (len pre)
          (ip ++ fracpart fr ++ exppart ex ++ rest)
  = frec neg ip fr ex (len (pre ++ ip ++ fracpart fr ++ exppart ex)).
Proof.
  intros Hip Hfr Hex Hrest.
  set (data := pre ++ ip ++ fracpart fr ++ exppart ex ++ rest).
  assert (Hstop : stop_ok ip fr (exppart ex ++ rest)).
  { destruct ex as [[[cap sg] e]|].
    - cbn [exppart]. rewrite <- app_comm_cons. unfold stop_ok.
      destruct fr; destruct cap; (reflexivity || (split; [intros HH; vm_compute in HH; discriminate|intros HH; discriminate])).
    - cbn [exppart app]. unfold stop_ok. destruct rest as [|c rest]; [exact I|].
      destruct fr as [f|]; [apply Hrest|]. destruct Hrest as (_ & H1 & H2). split; assumption. }
  destruct (body_scan data neg (len pre) ip fr (exppart ex ++ rest) Hip (frac_wf_dig fr Hfr) Hstop)
    as (s & E & (Hnd & Hnm & Hm & Htr) & Hsd & Hdp).
  rewrite E.
  assert (Hget : ex <> None ->
                 exists b, get data (len pre + len ip + len (fracpart fr) - 1) = Some b /\ bz b <> 46).
  { intros _.
    pose proof (ends_digit_app pre _ (int_frac_ends ip fr Hip Hfr)) as Hend.
    destruct (ends_digit_get _ (exppart ex ++ rest) Hend) as (b & Hb & Hbd).
    exists b. split.
    - rewrite <- Hb. unfold data. rewrite !len_app. rewrite <- !app_assoc.
      f_equal. lia.
    - apply is_digit_range in Hbd. lia. }
  assert (Hrest' : match rest with
                   | [] => True
                   | c :: _ => match ex with Some _ => is_digit c = false | None => is_e_byte c = false end
                   end).
  { destruct rest as [|c rest]; [exact I|]. destruct ex as [x|]; [exact Hrest|].
    destruct fr; apply Hrest. }
  rewrite (finish_gen data neg s _ ex rest Hex Hget Hrest').
  assert (Hdpv : (if s_sawdot s then s_dp s else s_nd s) = len ip).
  { rewrite Hsd. destruct fr as [f|]; cbn [hasfrac].
    - apply Hdp. reflexivity.
    - rewrite Hnd. cbn [fracdigits]. rewrite app_nil_r. reflexivity. }
  unfold frec. cbv zeta. rewrite Hdpv, Hnm, Hm, Htr. f_equal. rewrite !len_app. lia.
Qed.

(** readFloat on sign ++ int ++ fraction ++ exponent ++ rest *)
Lemma readFloat_gen (neg : bool) ip fr ex rest :
  int_wf ip = true -> frac_wf fr -> exp_wfg ex -> rest_okc ip fr ex rest ->
  let pre := if neg then [B 45] else [] in
  readFloat_m (pre ++ ip ++ fracpart fr ++ exppart ex ++ rest) =
  frec neg ip fr ex (len (pre ++ ip ++ fracpart fr ++ exppart ex)).
Proof.
  intros Hip Hfr Hex Hrest pre. unfold pre. rewrite (readFloat_signed neg ip _ Hip).
  apply body_gen; assumption.
Qed.

(** * 2. the number token of the reference, decomposed into the components of a literal *)

Definition nodigit (t : list byte) : Prop := match t with [] => True | c :: _ => is_digit c = false end.

Lemma digits_dec : forall l, exists ds t, l = ds ++ t /\ length ds = digits l /\ all_digits ds = true /\ nodigit t.
Proof.
  induction l as [|c r IH].
  - exists [], []. cbn. auto.
  - unfold digits. cbn [count_while]. destruct (is_digit c) eqn:D.
    + destruct IH as (ds & t & -> & L & A & N). exists (c :: ds), t. cbn [app length].
      split; [reflexivity|]. split; [f_equal; exact L|]. split; [|exact N]. rewrite all_digits_cons, D, A. reflexivity.
    + exists [], (c :: r). cbn. auto.
Qed.

Lemma skipn_app_len : forall {A} (a b : list A) n, length a = n -> skipn n (a ++ b) = b.
Proof. intros A a b n <-. induction a; cbn; auto. Qed.

Lemma int_part_dec : forall l i, int_part l = Some i ->
  exists ip t, l = ip ++ t /\ length ip = i /\ int_wf ip = true /\
               match t with c :: _ => is_digit c = true -> ip = [B 48] | [] => True end.
Proof.
  intros [|d r] i H; [discriminate|]. cbn [int_part] in H. unfold isb in H.
  destruct (bz d =? 48) eqn:Z0.
  - inversion H; subst. exists [d], r. split; [reflexivity|]. split; [reflexivity|].
    assert (D : is_digit d = true) by (apply Z.eqb_eq in Z0; unfold is_digit; rewrite Z0; reflexivity).
    split; [unfold int_wf; rewrite all_digits_cons, D, Z0; reflexivity|].
    apply Z.eqb_eq in Z0. apply bz_inj_B in Z0. subst d. destruct r; auto.
  - destruct (r_is_digit19 d) eqn:D19; [|discriminate]. inversion H; subst.
    destruct (digits_dec r) as (ds & t & -> & L & A & N).
    assert (D : is_digit d = true).
    { unfold r_is_digit19 in D19. unfold is_digit. apply andb_true_iff in D19 as [A1 A2].
      apply Z.leb_le in A1. rewrite A2. replace (48 <=? bz d) with true by (symmetry; apply Z.leb_le; lia). reflexivity. }
    exists (d :: ds), t. split; [reflexivity|]. split; [cbn [length]; f_equal; exact L|].
    split; [unfold int_wf; rewrite all_digits_cons, D, A, Z0; reflexivity|].
    destruct t as [|c t]; [exact I|]. cbn in N. intros DC. congruence.
Qed.

Lemma int_part_none : forall l, int_part l = None -> nodigit l.
Proof.
  intros [|d r] H; [exact I|]. cbn [int_part] in H. cbn. unfold isb in H.
  destruct (bz d =? 48) eqn:Z0; [discriminate|]. destruct (r_is_digit19 d) eqn:D19; [discriminate|].
  unfold is_digit. unfold r_is_digit19 in D19. apply Z.eqb_neq in Z0.
  destruct (48 <=? bz d) eqn:A1; [|reflexivity]. destruct (bz d <=? 57) eqn:A2; [|reflexivity]. exfalso.
  apply Z.leb_le in A1, A2. apply andb_false_iff in D19. destruct D19 as [D|D]; [apply Z.leb_gt in D; lia|congruence].
Qed.

Lemma frac_part_dec : forall t f, frac_part t = Some f ->
  exists fr t2, t = fracpart fr ++ t2 /\ length (fracpart fr) = f /\ frac_wf fr /\
                match fr with
                | Some _ => nodigit t2
                | None => match t2 with c :: _ => bz c <> 46 | [] => True end
                end.
Proof.
  intros [|c r] f H.
  - inversion H. exists None, []. cbn. auto.
  - cbn [frac_part] in H. unfold isb in H. destruct (bz c =? 46) eqn:C.
    + destruct (digits_dec r) as (ds & t2 & -> & L & A & N). rewrite <- L in H.
      destruct (Nat.eqb (length ds) 0) eqn:Z0; [discriminate|]. inversion H; subst.
      apply Z.eqb_eq in C. apply bz_inj_B in C. subst c.
      exists (Some ds), t2. cbn [fracpart]. split; [reflexivity|]. split; [reflexivity|].
      split; [|exact N]. split; [exact A|]. intros ->. discriminate.
    + inversion H; subst. exists None, (c :: r). cbn. split; [reflexivity|]. split; [reflexivity|].
      split; [exact I|]. apply Z.eqb_neq. exact C.
Qed.

Lemma frac_part_none : forall t, frac_part t = None -> exists r, t = B 46 :: r /\ nodigit r.
Proof.
  intros [|c r] H; [discriminate|]. cbn [frac_part] in H. unfold isb in H.
  destruct (bz c =? 46) eqn:C; [|discriminate].
  apply Z.eqb_eq in C. apply bz_inj_B in C. subst c. exists r. split; [reflexivity|].
  destruct (Nat.eqb (digits r) 0) eqn:Z0; [|discriminate]. apply Nat.eqb_eq in Z0.
  destruct r as [|d r']; [exact I|]. cbn. unfold digits in Z0. cbn [count_while] in Z0.
  destruct (is_digit d); [discriminate|reflexivity].
Qed.

Lemma exp_part_dec : forall t2 e, exp_part t2 = Some e ->
  exists ex rest, t2 = exppart ex ++ rest /\ length (exppart ex) = e /\ exp_wfg ex /\
                  match ex with
                  | Some _ => nodigit rest
                  | None => match rest with c :: _ => is_e_byte c = false | [] => True end
                  end.
Proof.
  intros [|c r] e H.
  - inversion H. exists None, []. cbn. auto.
  - cbn [exp_part] in H. change (is_exp c) with (is_e_byte c) in H. destruct (is_e_byte c) eqn:C.
    + destruct r as [|s r1]; [discriminate|].
      assert (CAP : c = if bz c =? 69 then B 69 else B 101).
      { unfold is_e_byte in C. destruct (bz c =? 69) eqn:E69; [apply Z.eqb_eq in E69; apply bz_inj_B; exact E69|].
        rewrite orb_false_r in C. apply Z.eqb_eq in C. apply bz_inj_B. exact C. }
      destruct (is_sign s) eqn:SG.
      * destruct (digits_dec r1) as (ds & rest & -> & L & A & N). rewrite <- L in H.
        destruct (Nat.eqb (length ds) 0) eqn:Z0; [discriminate|]. inversion H; subst e.
        assert (NE : ds <> []) by (intros ->; discriminate).
        unfold is_sign in SG. destruct (bz s =? 43) eqn:S43.
        -- apply Z.eqb_eq in S43. apply bz_inj_B in S43. subst s.
           exists (Some (bz c =? 69, EPlus, ds)), rest. cbn [exppart expsign app].
           split; [rewrite <- CAP; reflexivity|]. split; [cbn [length]; reflexivity|]. split; [split; assumption|exact N].
        -- cbn [orb] in SG. apply Z.eqb_eq in SG. apply bz_inj_B in SG. subst s.
           exists (Some (bz c =? 69, EMinus, ds)), rest. cbn [exppart expsign app].
           split; [rewrite <- CAP; reflexivity|]. split; [cbn [length]; reflexivity|]. split; [split; assumption|exact N].
      * destruct (digits_dec (s :: r1)) as (ds & rest & EQ & L & A & N). rewrite <- L in H.
        destruct (Nat.eqb (length ds) 0) eqn:Z0; [discriminate|]. inversion H; subst e.
        assert (NE : ds <> []) by (intros ->; discriminate).
        exists (Some (bz c =? 69, ENone, ds)), rest. cbn [exppart expsign app].
        split; [rewrite <- CAP, EQ; reflexivity|]. split; [cbn [length]; reflexivity|]. split; [split; assumption|exact N].
    + inversion H; subst. exists None, (c :: r). cbn. auto.
Qed.

Lemma exp_part_none : forall t2, exp_part t2 = None ->
  exists c r, t2 = c :: r /\ is_e_byte c = true /\ exp_tail_bad r.
Proof.
  intros [|c r] H; [discriminate|]. cbn [exp_part] in H. change (is_exp c) with (is_e_byte c) in H.
  destruct (is_e_byte c) eqn:C; [|discriminate]. exists c, r. split; [reflexivity|]. split; [exact C|].
  destruct r as [|s r1]; [exact I|]. unfold exp_tail_bad. change ((bz s =? 43) || (bz s =? 45)) with (is_sign s).
  destruct (is_sign s).
  - destruct (Nat.eqb (digits r1) 0) eqn:Z0; [|discriminate]. apply Nat.eqb_eq in Z0.
    destruct r1 as [|d r2]; [exact I|]. unfold digits in Z0. cbn [count_while] in Z0. destruct (is_digit d); [discriminate|reflexivity].
  - destruct (Nat.eqb (digits (s :: r1)) 0) eqn:Z0; [|discriminate]. apply Nat.eqb_eq in Z0.
    unfold digits in Z0. cbn [count_while] in Z0. destruct (is_digit s); [discriminate|reflexivity].
Qed.

(** the reference number token is a well-formed literal, followed by bytes that do not extend it *)
Theorem number_tok_dec : forall l n, number_tok l = Some n ->
  exists (neg : bool) ip fr ex rest,
    let tok := (if neg then [B 45] else []) ++ ip ++ fracpart fr ++ exppart ex in
    l = tok ++ rest /\ length tok = n /\
    int_wf ip = true /\ frac_wf fr /\ exp_wfg ex /\ rest_okc ip fr ex rest.
Proof.
  assert (U : forall l n, unsigned_tok l = Some n ->
              exists ip fr ex rest, l = (ip ++ fracpart fr ++ exppart ex) ++ rest /\ length (ip ++ fracpart fr ++ exppart ex) = n /\
                int_wf ip = true /\ frac_wf fr /\ exp_wfg ex /\ rest_okc ip fr ex rest).
  { intros l n H. unfold unsigned_tok in H.
    destruct (int_part l) as [i|] eqn:IP; [|discriminate].
    destruct (int_part_dec l i IP) as (ip & t & -> & Li & Wi & Ni).
    rewrite (skipn_app_len ip t i Li) in H.
    destruct (frac_part t) as [f|] eqn:FP; [|discriminate].
    destruct (frac_part_dec t f FP) as (fr & t2 & -> & Lf & Wf & Nf).
    assert (SK : skipn (i + f) (ip ++ fracpart fr ++ t2) = t2).
    { rewrite app_assoc. apply skipn_app_len. rewrite app_length. lia. }
    rewrite SK in H. destruct (exp_part t2) as [e|] eqn:EP; [|discriminate].
    destruct (exp_part_dec t2 e EP) as (ex & rest & -> & Le & We & Ne).
    inversion H; subst n. exists ip, fr, ex, rest.
    split; [rewrite <- !app_assoc; reflexivity|]. split; [rewrite !app_length; lia|].
    split; [exact Wi|]. split; [exact Wf|]. split; [exact We|].
    unfold rest_okc. destruct rest as [|c rest']; [exact I|].
    destruct ex as [x|].
    - exact Ne.
    - cbn [exppart app] in *. destruct fr as [fd|].
      + split; [exact Nf|exact Ne].
      + cbn [fracpart app] in *. split; [exact Ne|]. split; [exact Nf|exact Ni]. }
  intros [|c r] n H; [discriminate|]. cbn [number_tok] in H. unfold isb in H.
  destruct (bz c =? 45) eqn:M.
  - destruct (unsigned_tok r) as [m|] eqn:UT; [|discriminate]. cbn in H. inversion H; subst n.
    destruct (U r m UT) as (ip & fr & ex & rest & E & L & W).
    apply Z.eqb_eq in M. apply bz_inj_B in M. subst c.
    exists true, ip, fr, ex, rest. cbv zeta. split; [cbn [app]; f_equal; exact E|]. split; [cbn [app length]; f_equal; exact L|exact W].
  - destruct (U (c :: r) n H) as (ip & fr & ex & rest & E & L & W).
    exists false, ip, fr, ex, rest. cbv zeta. cbn [app]. auto.
Qed.

(** * 3. ParseJSONFloatPrefix and ReadFloat64 against the reference number token *)

Definition mkj (neg : bool) ip fr ex : jnum := {| j_neg := neg; j_int := ip; j_frac := fr; j_exp := ex |}.

Lemma jn_wf_of : forall neg ip fr ex, int_wf ip = true -> frac_wf fr -> exp_wfg ex -> jn_wf (mkj neg ip fr ex) = true.
Proof.
  intros neg ip fr ex Hi Hf He. unfold jn_wf, mkj. cbn [j_int j_frac j_exp]. rewrite Hi. cbn [andb].
  assert (NZ : forall f : list byte, f <> [] -> negb (len f =? 0) = true).
  { intros [|x f] H; [contradiction|]. rewrite len_cons. pose proof (len_nonneg f).
    apply negb_true_iff. apply Z.eqb_neq. lia. }
  apply andb_true_iff. split.
  - destruct fr as [f|]; [|reflexivity]. destruct Hf as [A N]. rewrite A, (NZ f N). reflexivity.
  - destruct ex as [[[cap sg] e]|]; [|reflexivity]. destruct He as [A N]. rewrite A, (NZ e N). reflexivity.
Qed.

Lemma jn_bytes_mk : forall neg ip fr ex,
  jn_bytes (mkj neg ip fr ex) = (if neg then [B 45] else []) ++ ip ++ fracpart fr ++ exppart ex.
Proof. intros. apply jn_bytes_eq. Qed.

(** on a number token followed by bytes that do not extend it, ParseJSONFloatPrefix returns what it
    returns on the token alone, and the offset is the length of the token *)
Lemma parse_tok : forall T (neg : bool) ip fr ex rest,
  int_wf ip = true -> frac_wf fr -> exp_wfg ex -> rest_okc ip fr ex rest ->
  let tok := (if neg then [B 45] else []) ++ ip ++ fracpart fr ++ exppart ex in
  ParseJSONFloatPrefix_m T (tok ++ rest) = ParseJSONFloatPrefix_m T tok /\
  forall v pp e, ParseJSONFloatPrefix_m T tok = Some (v, pp, e) -> pp = len tok.
Proof.
  intros T neg ip fr ex rest Hi Hf He Hr tok.
  assert (FORM : forall rest', rest_okc ip fr ex rest' ->
            ParseJSONFloatPrefix_m T (tok ++ rest') =
            match fast_path T (frec neg ip fr ex (len tok)) with
            | Some f => Some (f, len tok, None)
            | None => slow_path T tok (len tok)
            end).
  { intros rest' Hr'. rewrite parse_unfold. cbv zeta.
    assert (RF : readFloat_m (tok ++ rest') = frec neg ip fr ex (len tok)).
    { unfold tok. rewrite <- !app_assoc. apply (readFloat_gen neg ip fr ex rest'); assumption. }
    rewrite RF. cbn [rf_ok rf_p frec negb].
    destruct (parse_syntax_ok (mkj neg ip fr ex) rest' (jn_wf_of neg ip fr ex Hi Hf He)) as (b & G & _ & B46).
    rewrite jn_bytes_mk in G. fold tok in G. rewrite G.
    replace (bz b =? c_dot) with false by (symmetry; apply Z.eqb_neq; exact B46). rewrite andb_false_r.
    rewrite firstn_len_app. reflexivity. }
  pose proof (FORM [] I) as F0. rewrite app_nil_r in F0.
  split; [rewrite (FORM rest Hr), F0; reflexivity|].
  intros v pp e H. rewrite F0 in H. destruct (fast_path T _) as [f|]; [inversion H; reflexivity|].
  unfold slow_path in H. destruct (set_m tok) as [d|]; [|inversion H; reflexivity].
  destruct (floatBits_m T d) as [[b ovf]|]; [|discriminate]. cbn in H. destruct ovf; inversion H; reflexivity.
Qed.

(** where the reference finds no number token, ParseJSONFloatPrefix reports an error *)
Theorem number_tok_none : forall l, number_tok l = None ->
  forall T, exists p e, ParseJSONFloatPrefix_m T l = Some (0, p, Some e).
Proof.
  intros l H T.
  assert (FAIL : rf_ok (readFloat_m l) = false -> exists p e, ParseJSONFloatPrefix_m T l = Some (0, p, Some e)).
  { intros F. rewrite (parse_prefix_fail T l F). eauto. }
  destruct l as [|c r]; [apply FAIL; reflexivity|].
  cbn [number_tok] in H. unfold isb in H.
  set (neg := bz c =? 45) in *. set (l' := if neg then r else c :: r).
  assert (UT : unsigned_tok l' = None).
  { unfold l'. destruct neg; [|exact H]. destruct (unsigned_tok r); [discriminate|reflexivity]. }
  assert (EL : c :: r = (if neg then [B 45] else []) ++ l').
  { unfold l'. destruct neg eqn:N; [|reflexivity]. unfold neg in N. apply Z.eqb_eq in N. apply bz_inj_B in N. subst c. reflexivity. }
  unfold unsigned_tok in UT.
  destruct (int_part l') as [i|] eqn:IP.
  2:{ apply FAIL. apply readFloat_no_digit. fold neg. fold l'. apply int_part_none in IP. exact IP. }
  destruct (int_part_dec l' i IP) as (ip & t & EL' & Li & Wi & Ni).
  rewrite EL' in UT. rewrite (skipn_app_len ip t i Li) in UT.
  destruct (frac_part t) as [f|] eqn:FP.
  2:{ (* a '.' without a digit after it *)
      destruct (frac_part_none t FP) as (r' & -> & ND).
      pose proof (readFloat_trailing_dot (mkj neg ip None None) r' (jn_wf_of neg ip None None Wi I I) eq_refl eq_refl ND) as [_ P].
      rewrite jn_bytes_mk in P. cbn [fracpart exppart] in P. rewrite !app_nil_r in P.
      rewrite EL, EL'. rewrite <- app_assoc in P. rewrite (P T). eauto. }
  destruct (frac_part_dec t f FP) as (fr & t2 & -> & Lf & Wf & Nf).
  assert (SK : skipn (i + f) (ip ++ fracpart fr ++ t2) = t2).
  { rewrite app_assoc. apply skipn_app_len. rewrite app_length. lia. }
  rewrite SK in UT. destruct (exp_part t2) as [e|] eqn:EP; [discriminate|].
  destruct (exp_part_none t2 EP) as (ce & re & -> & CE & TB).
  apply FAIL. rewrite EL, EL'.
  pose proof (readFloat_bad_exp (mkj neg ip fr None) ce re (jn_wf_of neg ip fr None Wi Wf I) eq_refl CE TB) as P.
  rewrite jn_bytes_mk in P. cbn [exppart] in P. rewrite app_nil_r in P. rewrite <- !app_assoc in P. exact P.
Qed.

(** the number token is a scalar token of the reference *)
Lemma number_tok_scalar : forall l n, number_tok l = Some n -> scalar_tok l = Some n.
Proof.
  intros [|c r] n H; [discriminate|]. pose proof H as H0. cbn [number_tok] in H. unfold scalar_tok.
  destruct (isb 45 c) eqn:M.
  - assert (Q : isb 34 c = false) by (apply Z.eqb_eq in M; unfold isb; rewrite M; reflexivity).
    rewrite Q. cbn [orb]. exact H0.
  - unfold unsigned_tok in H. destruct (int_part (c :: r)) as [i|] eqn:IP; [|discriminate].
    destruct (int_part_dec _ _ IP) as (ip & t & E & _ & W & _).
    destruct (int_wf_inv ip W) as (d & ri & -> & D & _). cbn [app] in E. assert (DC : d = c) by congruence. subst d.
    assert (Q : isb 34 c = false).
    { apply is_digit_range in D. unfold isb. apply Z.eqb_neq. lia. }
    rewrite Q, D, orb_true_r. exact H0.
Qed.

(** ReadFloat64 as a function of the reference: white space, then the number token, whose value (or
    error) is what ParseJSONFloatPrefix returns on the token alone; an error when there is no token *)
Theorem ReadFloat64_tok : forall T data,
  let w := ws data in
  let l := skipn w data in
  match number_tok l with
  | Some n =>
    ReadFloat64_m T data =
    match ParseJSONFloatPrefix_m T (firstn n l) with
    | Some (v, _, err) => Some (v, Z.of_nat (w + n), match err with Some e => Some (RfFp e) | None => None end)
    | None => None
    end
  | None => exists p e, ReadFloat64_m T data = Some (0, p, Some e)
  end.
Proof.
  intros T data w l. unfold ReadFloat64_m. cbv zeta. fold (ws data). fold w. rewrite Nat2Z.id. fold l.
  destruct (number_tok l) as [n|] eqn:NT.
  - destruct (number_tok_dec l n NT) as (neg & ip & fr & ex & rest & E & L & Wi & Wf & We & Ro). cbv zeta in E, L.
    set (tok := (if neg then [B 45] else []) ++ ip ++ fracpart fr ++ exppart ex) in *.
    assert (NE : (Z.of_nat w =? len data) = false).
    { apply Z.eqb_neq. intros EQ. assert (LL : length l = 0%nat) by (unfold l; rewrite skipn_length; unfold len in EQ; lia).
      destruct l; [discriminate|discriminate]. }
    rewrite NE. destruct (parse_tok T neg ip fr ex rest Wi Wf We Ro) as [P1 P2]. fold tok in P1, P2.
    assert (FT : firstn n l = tok) by (rewrite E, <- L, firstn_app, Nat.sub_diag, firstn_all; cbn; apply app_nil_r).
    rewrite FT, E, P1. destruct (ParseJSONFloatPrefix_m T tok) as [[[v pp] err]|] eqn:PT; [|reflexivity].
    cbn. rewrite (P2 v pp err eq_refl). do 3 f_equal. unfold len. lia.
  - destruct (Z.of_nat w =? len data); [eauto|].
    destruct (number_tok_none l NT T) as (p & e & ->). cbn. eauto.
Qed.
Print Assumptions ReadFloat64_tok.
