(** FpDecInv.v -- rational (Q) reading of the truncating decimal shifts and the invariant that
    links the stored decimal to the exact value through a run of floatBits. *)
From Coq Require Import List ZArith Lia Bool QArith Qpower Lqa.
From Rjson Require Import Base Helpers Round Fp FpSpec FpTables FpDecDefs FpDecShift FpDecTrunc.
Import ListNotations.
Local Open Scope Z_scope.

(** * Powers of ten and two in Q, exponent of either sign *)
Definition p10 (z : Z) : Q := (Qpower (inject_Z 10) z).
Definition p2 (z : Z) : Q := (Qpower (inject_Z 2) z).
Definition p5 (z : Z) : Q := (Qpower (inject_Z 5) z).

Local Open Scope Q_scope.

Lemma iz_ne0 (b : Z) : (0 < b)%Z -> ~ inject_Z b == 0.
Proof. intros H E. unfold Qeq in E. cbn in E. lia. Qed.

Lemma p10_pos z : 0 < p10 z. Proof. apply Qpower_0_lt. reflexivity. Qed.
Lemma p2_pos z : 0 < p2 z. Proof. apply Qpower_0_lt. reflexivity. Qed.
Lemma p5_pos z : 0 < p5 z. Proof. apply Qpower_0_lt. reflexivity. Qed.
Lemma p10_add a b : p10 (a + b) == p10 a * p10 b.
Proof. apply Qpower_plus. apply iz_ne0. lia. Qed.
Lemma p2_add a b : p2 (a + b) == p2 a * p2 b.
Proof. apply Qpower_plus. apply iz_ne0. lia. Qed.
Lemma p5_add a b : p5 (a + b) == p5 a * p5 b.
Proof. apply Qpower_plus. apply iz_ne0. lia. Qed.
Lemma p10_0 : p10 0 == 1. Proof. reflexivity. Qed.
Lemma p2_0 : p2 0 == 1. Proof. reflexivity. Qed.
Lemma p10_Z z : (0 <= z)%Z -> p10 z == inject_Z (10 ^ z).
Proof. intros. symmetry. apply Zpower_Qpower. assumption. Qed.
Lemma p2_Z z : (0 <= z)%Z -> p2 z == inject_Z (2 ^ z).
Proof. intros. symmetry. apply Zpower_Qpower. assumption. Qed.
Lemma p5_Z z : (0 <= z)%Z -> p5 z == inject_Z (5 ^ z).
Proof. intros. symmetry. apply Zpower_Qpower. assumption. Qed.
Lemma p10_inv z : p10 z * p10 (- z) == 1.
Proof. rewrite <- p10_add. replace (z + - z)%Z with 0%Z by lia. reflexivity. Qed.
Lemma p2_inv z : p2 z * p2 (- z) == 1.
Proof. rewrite <- p2_add. replace (z + - z)%Z with 0%Z by lia. reflexivity. Qed.
Lemma p10_le a b : (a <= b)%Z -> p10 a <= p10 b.
Proof. intros. apply Qpower_le_compat_l; [assumption|]. unfold Qle. cbn. lia. Qed.
Lemma p2_le a b : (a <= b)%Z -> p2 a <= p2 b.
Proof. intros. apply Qpower_le_compat_l; [assumption|]. unfold Qle. cbn. lia. Qed.
Lemma p10_lt a b : (a < b)%Z -> p10 a < p10 b.
Proof. intros. apply Qpower_lt_compat_l; [assumption|]. unfold Qlt. cbn. lia. Qed.
Lemma p2_lt a b : (a < b)%Z -> p2 a < p2 b.
Proof. intros. apply Qpower_lt_compat_l; [assumption|]. unfold Qlt. cbn. lia. Qed.
Lemma p10_lt_inv a b : p10 a < p10 b -> (a < b)%Z.
Proof. intros. eapply Qpower_lt_compat_l_inv; [eassumption|]. unfold Qlt. cbn. lia. Qed.
Lemma p2_lt_inv a b : p2 a < p2 b -> (a < b)%Z.
Proof. intros. eapply Qpower_lt_compat_l_inv; [eassumption|]. unfold Qlt. cbn. lia. Qed.
Lemma p10_split z : p10 z == p2 z * p5 z.
Proof. unfold p10, p2, p5. rewrite <- Qmult_power. apply Qpower_comp; reflexivity. Qed.

Lemma izle a b : (a <= b)%Z <-> inject_Z a <= inject_Z b.
Proof. rewrite Zle_Qle. tauto. Qed.
Lemma izlt a b : (a < b)%Z <-> inject_Z a < inject_Z b.
Proof. rewrite Zlt_Qlt. tauto. Qed.

Lemma izle_fw a b : (a <= b)%Z -> inject_Z a <= inject_Z b. Proof. apply izle. Qed.
Lemma izle_bw a b : inject_Z a <= inject_Z b -> (a <= b)%Z. Proof. apply izle. Qed.
Lemma izlt_fw a b : (a < b)%Z -> inject_Z a < inject_Z b. Proof. apply izlt. Qed.
Lemma izlt_bw a b : inject_Z a < inject_Z b -> (a < b)%Z. Proof. apply izlt. Qed.

(** the fraction P2 k / P2 (-k) of Round.v is 2^k *)
Lemma P2_Q k : inject_Z (P2 k) == p2 k * inject_Z (P2 (- k)).
Proof.
  destruct (Z_le_gt_dec 0 k).
  - rewrite (P2_nonneg k), (P2_nonpos (- k)) by lia. rewrite p2_Z by lia. ring.
  - rewrite (P2_nonpos k), (P2_nonneg (- k)) by lia. rewrite <- p2_Z by lia. symmetry. apply p2_inv.
Qed.
Lemma P10_Q k : inject_Z (P10 k) == p10 k * inject_Z (P10 (- k)).
Proof.
  unfold P10. destruct (Z_le_gt_dec 0 k).
  - rewrite (Z.max_l k), (Z.max_r (- k)) by lia. rewrite p10_Z by lia. change (10 ^ 0)%Z with 1%Z. ring.
  - rewrite (Z.max_r k), (Z.max_l (- k)) by lia. change (10 ^ 0)%Z with 1%Z. rewrite <- (p10_Z (- k)) by lia. symmetry. apply p10_inv.
Qed.

(** * The value of a decimal *)
Definition dq (a : decimal) : Q := inject_Z (dval_z (d_d a)) * p10 (dexp a).

Lemma dq_frac a : dq a * inject_Z (snd (dec_frac a)) == inject_Z (fst (dec_frac a)).
Proof.
  unfold dq, dec_frac. cbn [fst snd]. fold (dexp a). rewrite inject_Z_mult, (P10_Q (dexp a)). ring.
Qed.

Lemma Qmul_lt_r x y z : 0 < z -> x < y -> x * z < y * z.
Proof. intros. apply Qmult_lt_compat_r; assumption. Qed.
Lemma Qmul_le_r x y z : 0 <= z -> x <= y -> x * z <= y * z.
Proof. intros. apply Qmult_le_compat_r; assumption. Qed.
Lemma Qmul_le_r_inv x y z : 0 < z -> x * z <= y * z -> x <= y.
Proof. intros Hz H. apply Qmult_le_r in H; assumption. Qed.
Lemma Qmul_lt_r_inv x y z : 0 < z -> x * z < y * z -> x < y.
Proof. intros Hz H. apply Qmult_lt_r in H; assumption. Qed.
Lemma Qmul_eq_r_inv x y z : 0 < z -> x * z == y * z -> x == y.
Proof. intros Hz H. apply Qmult_inj_r in H; [assumption|]. intros E. rewrite E in Hz. apply (Qlt_irrefl 0 Hz). Qed.

(** bounds of a well-formed non-empty decimal *)
Lemma dq_bounds a : dec_wf a -> d_d a <> [] -> p10 (d_dp a - 1) <= dq a /\ dq a < p10 (d_dp a).
Proof.
  intros (Hok & _ & Hlead) Hne. unfold dq, dexp.
  destruct (d_d a) as [|d t] eqn:E; [congruence|].
  pose proof (dval_lead_lb d t Hok Hlead) as Hlb. pose proof (dval_bound _ Hok) as Hub.
  rewrite zlen_cons in *. pose proof (zlen_nonneg t) as Ht.
  set (N := dval_z (d :: t)) in *. set (n := len t) in *.
  split.
  - replace (d_dp a - 1)%Z with (n + (d_dp a - (n + 1)))%Z by lia. rewrite p10_add.
    apply Qmul_le_r; [apply Qlt_le_weak, p10_pos|]. rewrite p10_Z by lia. apply izle_fw. exact Hlb.
  - replace (d_dp a)%Z with ((n + 1) + (d_dp a - (n + 1)))%Z at 2 by lia. rewrite p10_add.
    apply Qmul_lt_r; [apply p10_pos|]. rewrite p10_Z by lia. apply izlt_fw. lia.
Qed.

Lemma dq_pos a : dec_wf a -> d_d a <> [] -> 0 < dq a.
Proof.
  intros H1 H2. destruct (dq_bounds a H1 H2) as [H _]. pose proof (p10_pos (d_dp a - 1)). lra.
Qed.

(** * The post-condition of a truncating shift, in Q *)
Definition shift_qpost (a a' : decimal) (k : Z) : Prop :=
  dec_wf a' /\ dec_trimmed a' /\ d_d a' <> [] /\ d_neg a' = d_neg a /\
  exists O z L c : Z, (0 <= z)%Z /\ (0 <= L < 10 ^ z)%Z /\
    d_trunc a' = (d_trunc a || (0 <? L)%Z) /\
    dq a' == inject_Z O * p10 (z + c) /\
    dq a * p2 k == (inject_Z O * p10 z + inject_Z L) * p10 c /\
    ((0 < z)%Z -> (z + c = d_dp a' - dec_cap)%Z) /\
    p10 (d_dp a' - 1) <= dq a * p2 k /\ dq a * p2 k < p10 (d_dp a').

Lemma tpost_Q a a' k : shift_tpost a a' k -> shift_qpost a a' k.
Proof.
  intros (Hwf & Htrim & Hne & Hneg & Y & m & m' & O & z & L & Hm & Hm' & Hz & HL & HY & EY & Etr & Hval & Hcap & Hw & HYb).
  split; [exact Hwf|]. split; [exact Htrim|]. split; [exact Hne|]. split; [exact Hneg|].
  set (c := (dexp a + m' - m)%Z) in *.
  exists O, z, L, c. split; [exact Hz|]. split; [exact HL|]. split; [exact Etr|].
  assert (EYq : inject_Z Y * p10 c == dq a * p2 k).
  { assert (E1 : inject_Z Y * p10 m' == inject_Z (dval_z (d_d a)) * p2 k * p10 m).
    { assert (HY' : inject_Z Y * inject_Z (P2 (- k)) * inject_Z (10 ^ m') ==
                    inject_Z (dval_z (d_d a)) * inject_Z (P2 k) * inject_Z (10 ^ m))
        by (rewrite <- !inject_Z_mult; rewrite HY; reflexivity).
      clear HY. rename HY' into HY.
      rewrite (P2_Q k) in HY. rewrite <- (p10_Z m), <- (p10_Z m') in HY by assumption.
      apply (Qmul_eq_r_inv _ _ (inject_Z (P2 (- k)))).
      - change 0 with (inject_Z 0). apply izlt_fw. apply P2_pos.
      - transitivity (inject_Z Y * inject_Z (P2 (- k)) * p10 m'); [ring|]. rewrite HY. ring. }
    unfold dq, c. replace (dexp a + m' - m)%Z with (m' + (dexp a + - m))%Z by lia.
    rewrite !p10_add.
    transitivity ((inject_Z Y * p10 m') * (p10 (dexp a) * p10 (- m))); [ring|].
    rewrite E1.
    transitivity (inject_Z (dval_z (d_d a)) * p10 (dexp a) * p2 k * (p10 m * p10 (- m))); [ring|].
    rewrite p10_inv. ring. }
  split.
  { (* value of a' *)
    set (M := (Z.abs (z + c) + Z.abs (dexp a'))%Z).
    specialize (Hval M ltac:(lia)).
    assert (Hval' : inject_Z (dval_z (d_d a')) * inject_Z (10 ^ (dexp a' + M)) ==
                    inject_Z O * inject_Z (10 ^ (z + c + M)))
      by (rewrite <- !inject_Z_mult; rewrite Hval; reflexivity).
    clear Hval. rename Hval' into Hval.
    rewrite <- !p10_Z in Hval by lia. rewrite !p10_add in Hval.
    unfold dq. apply (Qmul_eq_r_inv _ _ (p10 M)); [apply p10_pos|].
    rewrite <- Qmult_assoc. rewrite Hval. rewrite (p10_add z c). ring. }
  split.
  { rewrite <- EYq, EY, inject_Z_plus, inject_Z_mult. rewrite (p10_Z z) by assumption. reflexivity. }
  split; [exact Hcap|].
  rewrite <- EYq. destruct HYb as [HY1 HY2].
  split.
  - replace (d_dp a' - 1)%Z with ((d_dp a' - c - 1) + c)%Z by lia. rewrite p10_add.
    apply Qmul_le_r; [apply Qlt_le_weak, p10_pos|]. rewrite p10_Z by lia. apply izle_fw. exact HY1.
  - replace (d_dp a')%Z with ((d_dp a' - c) + c)%Z at 1 by lia. rewrite p10_add.
    apply Qmul_lt_r; [apply p10_pos|]. rewrite p10_Z by lia. apply izlt_fw. exact HY2.
Qed.

(** the dyadic grid of mesh 2^-G is contained in the decimal grid of mesh 10^(dp-800) *)
Lemma grid_sub G dp : (G <= dec_cap - dp)%Z -> (dp <= dec_cap)%Z ->
  exists cc : Z, (0 < cc)%Z /\ p2 (- G) == inject_Z cc * p10 (dp - dec_cap).
Proof.
  intros HG Hdp. set (E := (dec_cap - dp)%Z) in *.
  exists (2 ^ (E - G) * 5 ^ E)%Z. split.
  - apply Z.mul_pos_pos; apply Z.pow_pos_nonneg; lia.
  - rewrite inject_Z_mult, <- p2_Z, <- p5_Z by lia.
    replace (dp - dec_cap)%Z with (- E)%Z by (unfold E; lia).
    apply (Qmul_eq_r_inv _ _ (p10 E)); [apply p10_pos|].
    transitivity (p2 (E - G) * p5 E * (p10 (- E) * p10 E)); [|ring].
    rewrite (Qmult_comm (p10 (- E))), p10_inv. rewrite (p10_split E).
    replace (E - G)%Z with (- G + E)%Z by lia. rewrite p2_add. ring.
Qed.

(** * The invariant: stored value below the exact one, equal when the flag is clear, and no
    point of the dyadic grid of mesh 2^-G in between *)
Definition Inv (a : decimal) (x : Q) (G : Z) : Prop :=
  dq a <= x /\ (d_trunc a = false -> dq a == x) /\ (d_trunc a = true -> dq a < x) /\
  forall h : Z, inject_Z h <= x * p2 G -> inject_Z h <= dq a * p2 G.

Lemma Inv_comp a x y G : x == y -> Inv a x G -> Inv a y G.
Proof.
  intros E (H1 & H2 & H3 & H4). split; [rewrite <- E; exact H1|]. split; [intros; rewrite <- E; auto|].
  split; [intros; rewrite <- E; auto|]. intros h Hh. apply H4. rewrite E. exact Hh.
Qed.

Lemma Inv_exact a x G : dq a == x -> d_trunc a = false -> Inv a x G.
Proof.
  intros E Ht. split; [rewrite E; apply Qle_refl|]. split; [intros; exact E|].
  split; [intros; congruence|]. intros h Hh. rewrite E. exact Hh.
Qed.

Lemma Q_add_pos (s y d x : Q) : y == s + d -> 0 < d -> y <= x -> s < x.
Proof. intros. lra. Qed.
Lemma Q_add_nonneg (s y d : Q) : y == s + d -> 0 <= d -> s <= y.
Proof. intros. lra. Qed.

Lemma Inv_step a a' x k G G' :
  Inv a x G -> shift_qpost a a' k ->
  (G' <= G - k)%Z -> (G' <= dec_cap - d_dp a')%Z -> (d_dp a' <= dec_cap)%Z ->
  Inv a' (x * p2 k) G'.
Proof.
  intros (I1 & I2 & I3 & I4) (_ & _ & _ & _ & O & z & L & c & Hz & HL & Etr & Es' & Ey & Hcap & _ & _) HG1 HG2 Hdp.
  set (y := dq a * p2 k) in *.
  pose proof (p2_pos k) as Pk. pose proof (p10_pos c) as Pc. pose proof (p10_pos z) as Pz.
  assert (Hyx : y <= x * p2 k) by (unfold y; apply Qmul_le_r; [lra|exact I1]).
  assert (Esy : y == (dq a') + inject_Z L * p10 c).
  { rewrite Ey, Es', p10_add. ring. }
  assert (HL0 : 0 <= inject_Z L) by (change 0 with (inject_Z 0); apply izle_fw; lia).
  assert (Hsy : (dq a') <= y).
  { assert (0 <= inject_Z L * p10 c) by (apply Qmult_le_0_compat; [assumption|apply Qlt_le_weak; assumption]).
    exact (Q_add_nonneg (dq a') y _ Esy H). }
  split; [eapply Qle_trans; [exact Hsy|exact Hyx]|]. split; [|split].
  - intros Ht. rewrite Ht in Etr. symmetry in Etr. apply orb_false_iff in Etr as [Ea EL].
    apply Z.ltb_ge in EL. assert (L = 0)%Z by lia. subst L.
    assert (E0 : (dq a') == y) by (rewrite Esy; change (inject_Z 0) with 0; ring).
    transitivity y; [exact E0|]. unfold y. rewrite (I2 Ea). reflexivity.
  - intros Ht. rewrite Ht in Etr. symmetry in Etr. apply orb_true_iff in Etr as [Ea|EL].
    + specialize (I3 Ea). assert (y < x * p2 k) by (unfold y; apply Qmul_lt_r; assumption).
      eapply Qle_lt_trans; [exact Hsy|assumption].
    + apply Z.ltb_lt in EL. assert (0 < inject_Z L) by (change 0 with (inject_Z 0); apply izlt_fw; lia).
      assert (0 < inject_Z L * p10 c) by (apply Qmult_lt_0_compat; assumption).
      exact (Q_add_pos (dq a') y _ _ Esy H0 Hyx).
  - intros h Hh.
    (* first to the exact shifted value y *)
    assert (Hhy : inject_Z h <= y * p2 G').
    { set (D := (G - k - G')%Z). assert (HD : (0 <= D)%Z) by (unfold D; lia).
      assert (E1 : inject_Z (h * 2 ^ D) <= x * p2 G).
      { rewrite inject_Z_mult, <- p2_Z by lia.
        replace G with (k + G' + D)%Z by (unfold D; lia). rewrite !p2_add.
        setoid_replace (x * (p2 k * p2 G' * p2 D)) with (x * p2 k * p2 G' * p2 D) by ring.
        apply Qmul_le_r; [apply Qlt_le_weak, p2_pos|exact Hh]. }
      apply I4 in E1. rewrite inject_Z_mult, <- p2_Z in E1 by lia.
      apply (Qmul_le_r_inv _ _ (p2 D)); [apply p2_pos|].
      eapply Qle_trans; [exact E1|]. apply Qle_lteq. right.
      unfold y. replace G with (k + G' + D)%Z by (unfold D; lia). rewrite !p2_add. ring. }
    destruct (Z.eq_dec L 0) as [EL|NL].
    { subst L. eapply Qle_trans; [exact Hhy|]. apply Qmul_le_r; [apply Qlt_le_weak, p2_pos|].
      apply Qle_lteq. right. rewrite Esy. change (inject_Z 0) with 0. ring. }
    assert (Hzp : (0 < z)%Z).
    { destruct (Z.eq_dec z 0) as [->|]; [|lia]. change (10 ^ 0)%Z with 1%Z in HL. lia. }
    specialize (Hcap Hzp).
    destruct (grid_sub G' (d_dp a') HG2 Hdp) as (cc & Hcc & Ecc).
    rewrite <- Hcap in Ecc.
    (* h * 2^-G' = h * cc * 10^(z+c) <= y *)
    assert (Hh2 : inject_Z h * p2 (- G') <= y).
    { apply (Qmul_le_r_inv _ _ (p2 G')); [apply p2_pos|].
      rewrite <- Qmult_assoc, (Qmult_comm (p2 (- G'))), p2_inv, Qmult_1_r. exact Hhy. }
    rewrite Ecc, Ey, p10_add in Hh2.
    assert (Hh3 : inject_Z (h * cc) * p10 z <= inject_Z O * p10 z + inject_Z L).
    { apply (Qmul_le_r_inv _ _ (p10 c)); [exact Pc|]. rewrite inject_Z_mult.
      eapply Qle_trans; [|exact Hh2]. apply Qle_lteq. right. ring. }
    rewrite p10_Z in Hh3 by lia. rewrite <- !inject_Z_mult, <- inject_Z_plus in Hh3.
    apply izle_bw in Hh3.
    assert (Hh4 : (h * cc <= O)%Z) by nia.
    apply (Qmul_le_r_inv _ _ (p2 (- G'))); [apply p2_pos|].
    rewrite <- (Qmult_assoc (dq a')), p2_inv, Qmult_1_r. rewrite Ecc, Es', p10_add.
    apply izle_fw in Hh4. rewrite inject_Z_mult in Hh4.
    setoid_replace (inject_Z h * (inject_Z cc * (p10 z * p10 c))) with ((inject_Z h * inject_Z cc) * (p10 z * p10 c)) by ring.
    apply Qmul_le_r; [|exact Hh4]. apply Qlt_le_weak. apply Qmult_lt_0_compat; assumption.
Qed.

Lemma qpost_le a a' k : shift_qpost a a' k -> dq a' <= dq a * p2 k.
Proof.
  intros (_ & _ & _ & _ & O & z & L & c & Hz & HL & _ & Es' & Ey & _ & _ & _).
  rewrite Ey, Es', p10_add.
  assert (0 <= inject_Z L) by (change 0 with (inject_Z 0); apply izle_fw; lia).
  pose proof (p10_pos c). pose proof (p10_pos z).
  assert (0 <= inject_Z L * p10 c) by (apply Qmult_le_0_compat; lra).
  lra.
Qed.

(** * Comparing powers of ten and of two *)
Lemma log_facts dp m : p10 (dp - 1) < p2 m ->
  ((1 <= dp)%Z -> (1 <= m)%Z) /\ ((0 <= dp)%Z -> (-3 <= m)%Z) /\
  ((dp <= 0)%Z -> (3 * (- m) < 10 * (1 - dp))%Z).
Proof.
  intros H. split; [|split]; intros Hdp.
  - destruct (Z_le_gt_dec 1 m) as [|G]; [assumption|exfalso].
    assert (p2 m <= p2 0) by (apply p2_le; lia). assert (p10 0 <= p10 (dp - 1)) by (apply p10_le; lia).
    change (p2 0) with 1 in *. change (p10 0) with 1 in *. lra.
  - destruct (Z_le_gt_dec (-3) m) as [|G]; [assumption|exfalso].
    assert (p2 m <= p2 (-4)) by (apply p2_le; lia). assert (p10 (-1) <= p10 (dp - 1)) by (apply p10_le; lia).
    assert (p2 (-4) < p10 (-1)) by reflexivity. lra.
  - destruct (Z_lt_le_dec (3 * - m) (10 * (1 - dp))) as [|G]; [assumption|exfalso].
    set (a := (1 - dp)%Z) in *. set (m' := (- m)%Z) in *.
    assert (Hm' : (0 <= m')%Z) by lia.
    (* 2^m' < 10^a *)
    assert (H1 : p2 m' < p10 a).
    { apply (Qmul_lt_r_inv _ _ (p2 m * p10 (- a))).
      - apply Qmult_lt_0_compat; [apply p2_pos|apply p10_pos].
      - replace m with (- m')%Z by (unfold m'; lia).
        setoid_replace (p2 m' * (p2 (- m') * p10 (- a))) with ((p2 m' * p2 (- m')) * p10 (- a)) by ring.
        setoid_replace (p10 a * (p2 (- m') * p10 (- a))) with ((p10 a * p10 (- a)) * p2 (- m')) by ring.
        rewrite p2_inv, p10_inv, !Qmult_1_l.
        replace (- a)%Z with (dp - 1)%Z by (unfold a; lia). replace (- m')%Z with m by (unfold m'; lia). exact H. }
    rewrite p2_Z, p10_Z in H1 by lia. apply izlt_bw in H1.
    assert (H2 : (2 ^ (3 * m') < 10 ^ (3 * a))%Z).
    { rewrite !(Z.mul_comm 3), !Z.pow_mul_r by lia. apply Z.pow_lt_mono_l; [lia|]. split; [apply Z.pow_nonneg; lia|exact H1]. }
    assert (H3 : (10 ^ (3 * a) <= 2 ^ (10 * a))%Z).
    {       replace (10 ^ (3 * a))%Z with ((10 ^ 3) ^ a)%Z by (rewrite <- Z.pow_mul_r by lia; reflexivity).
      replace (2 ^ (10 * a))%Z with ((2 ^ 10) ^ a)%Z by (rewrite <- Z.pow_mul_r by lia; reflexivity).
      apply Z.pow_le_mono_l. lia. }
    assert (H4 : (2 ^ (3 * m') < 2 ^ (10 * a))%Z) by lia.
    apply Z.pow_lt_mono_r_iff in H4; lia.
Qed.

(** * Stages of a run of floatBits: the decimal [a] approximates x0 * 2^-e *)
Section Run.
Variable T : fp_tables.
Hypothesis HT : tables_ok T.
Variable x0 : Q.
Variable lam A : Z.
Hypothesis Hlam : p2 lam <= x0 /\ x0 < p2 (lam + 1).
Hypothesis HA : (A <= 490 - lam)%Z /\ (10 * A <= 7987 - 3 * lam)%Z.

Definition xat (e : Z) : Q := x0 * p2 (- e).

Definition St (a : decimal) (e : Z) : Prop :=
  dec_wf a /\ d_d a <> [] /\ Inv a (xat e) (A + e) /\ (d_dp a <= 310)%Z /\ ((e <= 0)%Z \/ (0 <= d_dp a)%Z).

Lemma xat_shift e k : xat e * p2 k == xat (e - k).
Proof. unfold xat. replace (- (e - k))%Z with (- e + k)%Z by lia. rewrite p2_add. ring. Qed.

Lemma stage_bound a e :
  dec_wf a -> d_d a <> [] -> dq a <= xat e -> (d_dp a <= 310)%Z -> ((e <= 0)%Z \/ (0 <= d_dp a)%Z) ->
  (A + e <= dec_cap - d_dp a)%Z /\ (d_dp a <= dec_cap)%Z.
Proof.
  intros Hwf Hne Hle Hdp Hps. destruct (dq_bounds a Hwf Hne) as [Hlb _].
  assert (H : p10 (d_dp a - 1) < p2 (lam + 1 - e)).
  { eapply Qle_lt_trans; [exact Hlb|]. eapply Qle_lt_trans; [exact Hle|].
    unfold xat. replace (lam + 1 - e)%Z with ((lam + 1) + - e)%Z by lia. rewrite p2_add.
    apply Qmul_lt_r; [apply p2_pos|apply Hlam]. }
  destruct (log_facts _ _ H) as (F1 & F2 & F3). unfold dec_cap. destruct HA as [HA1 HA2].
  split; [|lia].
  destruct (Z_le_gt_dec 1 (d_dp a)) as [C1|C1]; [specialize (F1 C1); lia|].
  destruct (Z.eq_dec (d_dp a) 0) as [C2|C2]; [specialize (F2 ltac:(lia)); lia|].
  specialize (F3 ltac:(lia)). lia.
Qed.

(** one (possibly truncating) shift step keeps the stage invariant *)
Lemma step_inv a a' e k :
  St a e -> shift_qpost a a' k -> (d_dp a' <= 310)%Z -> ((e - k <= 0)%Z \/ (0 <= d_dp a')%Z) ->
  St a' (e - k).
Proof.
  intros (Hwf & Hne & HI & _ & _) HP Hdp Hps.
  pose proof HP as (Hwf' & _ & Hne' & _).
  assert (Hle : dq a' <= xat (e - k)).
  { rewrite <- xat_shift. eapply Qle_trans; [apply (qpost_le _ _ _ HP)|].
    apply Qmul_le_r; [apply Qlt_le_weak, p2_pos|apply HI]. }
  destruct (stage_bound a' (e - k) Hwf' Hne' Hle Hdp Hps) as [B1 B2].
  split; [exact Hwf'|]. split; [exact Hne'|]. split; [|split; assumption].
  apply (Inv_comp _ (xat e * p2 k)); [apply xat_shift|].
  apply (Inv_step a a' (xat e) k (A + e)); try assumption; lia.
Qed.

Lemma qpost_dp_up a a' k : dec_wf a -> d_d a <> [] -> shift_qpost a a' k -> (0 <= k)%Z -> (d_dp a <= d_dp a')%Z.
Proof.
  intros Hwf Hne (_ & _ & _ & _ & O & z & L & c & _ & _ & _ & _ & _ & _ & _ & Hub) Hk.
  destruct (dq_bounds a Hwf Hne) as [Hlb _].
  assert (1 <= p2 k) by (change 1 with (p2 0); apply p2_le; lia).
  assert (dq a <= dq a * p2 k).
  { rewrite <- (Qmult_1_r (dq a)) at 1. apply Qmult_le_l; [apply dq_pos; assumption|assumption]. }
  assert (p10 (d_dp a - 1) < p10 (d_dp a')) by lra. apply p10_lt_inv in H1. lia.
Qed.

Lemma qpost_dp_down a a' k : dec_wf a -> d_d a <> [] -> shift_qpost a a' k -> (k <= 0)%Z -> (d_dp a' <= d_dp a)%Z.
Proof.
  intros Hwf Hne (_ & _ & _ & _ & O & z & L & c & _ & _ & _ & _ & _ & _ & Hlb & _) Hk.
  destruct (dq_bounds a Hwf Hne) as [_ Hub].
  assert (p2 k <= 1) by (change 1 with (p2 0); apply p2_le; lia).
  assert (dq a * p2 k <= dq a).
  { rewrite <- (Qmult_1_r (dq a)) at 2. apply Qmult_le_l; [apply dq_pos; assumption|assumption]. }
  assert (p10 (d_dp a' - 1) < p10 (d_dp a)) by lra. apply p10_lt_inv in H1. lia.
Qed.

Lemma p2_mul_le x k1 k2 : 0 <= x -> (k1 <= k2)%Z -> x * p2 k1 <= x * p2 k2.
Proof.
  intros Hx Hk. rewrite !(Qmult_comm x). apply Qmul_le_r; [exact Hx|apply p2_le; exact Hk].
Qed.

(** the left-shift loop of Shift *)
Lemma left_loop_inv : forall fuel a k a' e,
  St a e -> (1 <= k)%Z -> dq a * p2 k < p10 310 ->
  shift_left_loop T fuel a k = Some a' ->
  St a' (e - k) /\ dec_trimmed a' /\ d_neg a' = d_neg a /\ dq a' <= dq a * p2 k.
Proof.
  assert (One : forall a k a' e, St a e -> (1 <= k <= 60)%Z -> dq a * p2 k < p10 310 ->
            leftShift_m T a k = Some a' ->
            St a' (e - k) /\ dec_trimmed a' /\ d_neg a' = d_neg a /\ dq a' <= dq a * p2 k).
  { intros a k a' e HS Hk Hg H. pose proof HS as (Hwf & Hne & _ & Hdp & Hps).
    pose proof (tpost_Q _ _ _ (leftShift_trunc T a k a' HT Hwf Hne Hk H)) as HP.
    pose proof HP as (_ & Htrim & _ & Hneg & O & z & L & c & _ & _ & _ & _ & _ & _ & Hlb & _).
    pose proof (qpost_dp_up a a' k Hwf Hne HP ltac:(lia)) as Hup.
    split; [|split; [exact Htrim|split; [exact Hneg|apply (qpost_le _ _ _ HP)]]].
    apply (step_inv a a' e k HS HP).
    - assert (p10 (d_dp a' - 1) < p10 310) by lra. apply p10_lt_inv in H0. lia.
    - destruct Hps; [left; lia|right; lia]. }
  induction fuel as [|f IH]; intros a k a' e HS Hk Hg H; cbn [shift_left_loop] in H.
  - destruct (Z.ltb_spec maxShift k) as [|Hle]; [discriminate|]. unfold maxShift in Hle.
    apply (One a k a' e); try assumption; lia.
  - destruct (Z.ltb_spec maxShift k) as [Hgt|Hle]; unfold maxShift in *.
    2:{ apply (One a k a' e); try assumption; lia. }
    destruct (leftShift_m T a 60) as [b|] eqn:Hb; cbn [obind] in H; [|discriminate].
    pose proof HS as (Hwf & Hne & _).
    pose proof (dq_pos a Hwf Hne) as Hpos.
    assert (Hg60 : dq a * p2 60 < p10 310).
    { eapply Qle_lt_trans; [|exact Hg]. apply p2_mul_le; [lra|lia]. }
    destruct (One a 60%Z b e HS ltac:(lia) Hg60 Hb) as (HSb & _ & Hnb & Hleb).
    assert (Hgb : dq b * p2 (k - 60) < p10 310).
    { eapply Qle_lt_trans; [|exact Hg].
      eapply Qle_trans; [apply Qmul_le_r; [apply Qlt_le_weak, p2_pos|exact Hleb]|].
      apply Qle_lteq. right. replace k with (60 + (k - 60))%Z at 2 by lia. rewrite p2_add. ring. }
    destruct (IH b (k - 60)%Z a' (e - 60)%Z HSb ltac:(lia) Hgb H) as (HS' & Htr' & Hn' & Hle').
    replace (e - 60 - (k - 60))%Z with (e - k)%Z in HS' by lia.
    split; [exact HS'|]. split; [exact Htr'|]. split; [congruence|].
    eapply Qle_trans; [exact Hle'|].
    eapply Qle_trans; [apply Qmul_le_r; [apply Qlt_le_weak, p2_pos|exact Hleb]|].
    apply Qle_lteq. right. replace k with (60 + (k - 60))%Z at 2 by lia. rewrite p2_add. ring.
Qed.

(** the right-shift loop of Shift; the guard keeps "e <= 0 or dp >= 0" *)
Lemma right_loop_inv : forall fuel a k a' e,
  St a e -> (k <= -1)%Z ->
  ((e - k <= 0)%Z \/ ((-60 <= k)%Z /\ p10 (-1) <= dq a * p2 k)) ->
  shift_right_loop fuel a k = Some a' ->
  St a' (e - k) /\ dec_trimmed a' /\ d_neg a' = d_neg a /\ dq a' <= dq a * p2 k.
Proof.
  assert (One : forall a k a' e, St a e -> (1 <= k <= 60)%Z ->
            ((e + k <= 0)%Z \/ p10 (-1) <= dq a * p2 (- k)) ->
            rightShift_m a k = Some a' ->
            St a' (e + k) /\ dec_trimmed a' /\ d_neg a' = d_neg a /\ dq a' <= dq a * p2 (- k)).
  { intros a k a' e HS Hk Hg H. pose proof HS as (Hwf & Hne & _ & Hdp & Hps).
    pose proof (tpost_Q _ _ _ (rightShift_trunc a k a' Hwf Hne Hk H)) as HP.
    pose proof HP as (_ & Htrim & _ & Hneg & O & z & L & c & _ & _ & _ & _ & _ & _ & _ & Hub).
    pose proof (qpost_dp_down a a' (- k) Hwf Hne HP ltac:(lia)) as Hdn.
    split; [|split; [exact Htrim|split; [exact Hneg|apply (qpost_le _ _ _ HP)]]].
    replace (e + k)%Z with (e - - k)%Z by lia.
    apply (step_inv a a' e (- k) HS HP); [lia|].
    destruct Hg as [Hg|Hg]; [left; lia|right].
    assert (p10 (-1) < p10 (d_dp a')) by lra. apply p10_lt_inv in H0. lia. }
  induction fuel as [|f IH]; intros a k a' e HS Hk Hg H; cbn [shift_right_loop] in H.
  - destruct (Z.ltb_spec k (- maxShift)) as [|Hle]; [discriminate|]. unfold maxShift in Hle.
    destruct (One a (- k)%Z a' e HS ltac:(lia)) as (R1 & R2 & R3 & R4); [| exact H |].
    + rewrite Z.opp_involutive. destruct Hg as [Hg|[_ Hg]]; [left; lia|right; exact Hg].
    + rewrite Z.opp_involutive in R4. replace (e + - k)%Z with (e - k)%Z in R1 by lia. auto.
  - destruct (Z.ltb_spec k (- maxShift)) as [Hgt|Hle]; unfold maxShift in *.
    2:{ destruct (One a (- k)%Z a' e HS ltac:(lia)) as (R1 & R2 & R3 & R4); [| exact H |].
        + rewrite Z.opp_involutive. destruct Hg as [Hg|[_ Hg]]; [left; lia|right; exact Hg].
        + rewrite Z.opp_involutive in R4. replace (e + - k)%Z with (e - k)%Z in R1 by lia. auto. }
    destruct (rightShift_m a 60) as [b|] eqn:Hb; cbn [obind] in H; [|discriminate].
    destruct Hg as [Hg|[Hg _]]; [|lia].
    destruct (One a 60%Z b e HS ltac:(lia) ltac:(left; lia) Hb) as (HSb & _ & Hnb & Hleb).
    destruct (IH b (k + 60)%Z a' (e + 60)%Z HSb ltac:(lia) ltac:(left; lia) H) as (HS' & Htr' & Hn' & Hle').
    replace (e + 60 - (k + 60))%Z with (e - k)%Z in HS' by lia.
    split; [exact HS'|]. split; [exact Htr'|]. split; [congruence|].
    eapply Qle_trans; [exact Hle'|].
    eapply Qle_trans; [apply Qmul_le_r; [apply Qlt_le_weak, p2_pos|exact Hleb]|].
    apply Qle_lteq. right. replace k with (-60 + (k + 60))%Z at 2 by lia. rewrite (p2_add (-60) (k + 60)). change (- (60))%Z with (-60)%Z. ring.
Qed.

(** Shift by k <> 0 *)
Lemma Shift_inv a k a' e :
  St a e -> k <> 0%Z -> Shift_m T a k = Some a' ->
  ((0 < k)%Z -> dq a * p2 k < p10 310) ->
  ((k < 0)%Z -> (e - k <= 0)%Z \/ ((-60 <= k)%Z /\ p10 (-1) <= dq a * p2 k)) ->
  St a' (e - k) /\ dec_trimmed a' /\ d_neg a' = d_neg a /\ dq a' <= dq a * p2 k.
Proof.
  intros HS Hk H Hg1 Hg2. pose proof HS as (Hwf & Hne & _). unfold Shift_m in H.
  assert (Hnd : (d_nd a =? 0)%Z = false).
  { apply Z.eqb_neq. unfold d_nd. intros E. apply zlen_0 in E. congruence. }
  rewrite Hnd in H.
  destruct (Z.ltb_spec 0 k) as [Hp|Hp].
  - apply (left_loop_inv 64%nat a k a' e HS ltac:(lia) (Hg1 Hp) H).
  - destruct (Z.ltb_spec k 0) as [Hn|Hn]; [|lia].
    apply (right_loop_inv 64%nat a k a' e HS ltac:(lia) (Hg2 Hn) H).
Qed.

End Run.
