(** FpSpec.v -- specification side of C04: RFC 8259 number literals, their exact rational
    value, and the specified result of parsing one ([round_ne] of the value).

    A literal is given by its components ([jnum]); [jn_bytes] prints it, [jn_wf] is the grammar
      number = [ "-" ] int [ "." 1*DIGIT ] [ ("e"/"E") [ "-"/"+" ] 1*DIGIT ]
      int    = "0" / ( %x31-39 *DIGIT )
    and [jn_value] its value as a fraction num/den of non-negative integers.
    [jnum_lex] is the executable maximal-munch tokenizer (longest prefix that is a number). *)
From Coq Require Import List ZArith Bool.
From Coq Require Import Strings.Byte.
From Rjson Require Import Base Helpers Round.
Import ListNotations.
Local Open Scope Z_scope.

(** exponent sign as written *)
Inductive esign := ENone | EPlus | EMinus.

Record jnum := {
  j_neg : bool;                          (* leading "-" *)
  j_int : list byte;                     (* digits of the integer part *)
  j_frac : option (list byte);           (* digits after ".", if any *)
  j_exp : option (bool * esign * list byte)  (* (capital E?, sign, digits), if any *)
}.

Definition all_digits (l : list byte) : bool := forallb is_digit l.

Definition int_wf (l : list byte) : bool :=
  match l with
  | [] => false
  | c :: r => all_digits l && (negb (bz c =? 48) || match r with [] => true | _ => false end)
  end.

Definition jn_wf (j : jnum) : bool :=
  int_wf (j_int j)
  && match j_frac j with None => true | Some f => all_digits f && negb (len f =? 0) end
  && match j_exp j with None => true | Some (_, _, e) => all_digits e && negb (len e =? 0) end.

Definition B (z : Z) : byte := zb z.

Definition jn_bytes (j : jnum) : list byte :=
  (if j_neg j then [B 45] else [])
  ++ j_int j
  ++ match j_frac j with None => [] | Some f => B 46 :: f end
  ++ match j_exp j with
     | None => []
     | Some (cap, s, e) =>
       (if cap then B 69 else B 101)
       :: match s with ENone => [] | EPlus => [B 43] | EMinus => [B 45] end ++ e
     end.

(** value of a digit string, most significant first *)
Definition dval (l : list byte) : Z := fold_left (fun acc c => acc * 10 + (bz c - 48)) l 0.

(** 10^k for k >= 0, 1 otherwise: 10^k as a fraction is P10 k / P10 (-k) *)
Definition P10 (k : Z) : Z := 10 ^ (Z.max k 0).

Definition jn_frac_digits (j : jnum) : list byte := match j_frac j with None => [] | Some f => f end.

(** the written exponent, signed *)
Definition jn_exp10 (j : jnum) : Z :=
  match j_exp j with
  | None => 0
  | Some (_, EMinus, e) => - dval e
  | Some (_, _, e) => dval e
  end.

(** |value| = dval (int ++ frac) * 10^(exp - len frac), as (num, den) *)
Definition jn_value (j : jnum) : Z * Z :=
  let i := dval (j_int j ++ jn_frac_digits j) in
  let k := jn_exp10 j - len (jn_frac_digits j) in
  (i * P10 k, P10 (- k)).

(** the specified result: pattern and overflow flag *)
Definition jn_round (j : jnum) : Z * bool :=
  let v := jn_value j in round_ne (j_neg j) (fst v) (snd v).

(** ** maximal-munch tokenizer *)

(** split off the longest prefix of digits *)
Fixpoint span_digits (l : list byte) : list byte * list byte :=
  match l with
  | c :: r => if is_digit c then let '(d, rest) := span_digits r in (c :: d, rest) else ([], l)
  | [] => ([], [])
  end.

Definition is_e_byte (c : byte) : bool := (bz c =? 101) || (bz c =? 69).

Definition lex_exp (l : list byte) : option (bool * esign * list byte) * list byte :=
  match l with
  | c :: r =>
    if is_e_byte c then
      let cap := bz c =? 69 in
      let '(s, r1) := match r with
                      | c1 :: r' => if bz c1 =? 43 then (EPlus, r') else if bz c1 =? 45 then (EMinus, r') else (ENone, r)
                      | [] => (ENone, r)
                      end in
      let '(d, rest) := span_digits r1 in
      match d with [] => (None, l) | _ => (Some (cap, s, d), rest) end
    else (None, l)
  | [] => (None, l)
  end.

Definition lex_frac (l : list byte) : option (list byte) * list byte :=
  match l with
  | c :: r =>
    if bz c =? 46 then
      let '(d, rest) := span_digits r in
      match d with [] => (None, l) | _ => (Some d, rest) end
    else (None, l)
  | [] => (None, l)
  end.

(** [jnum_lex data] = the longest prefix of [data] that is a JSON number, with the unread rest *)
Definition jnum_lex (data : list byte) : option (jnum * list byte) :=
  let '(neg, l) := match data with
                   | c :: r => if bz c =? 45 then (true, r) else (false, data)
                   | [] => (false, data)
                   end in
  match l with
  | c :: r =>
    if is_digit c then
      let '(ip, l1) := if bz c =? 48 then ([c], r) else let '(d, rest) := span_digits r in (c :: d, rest) in
      let '(fr, l2) := lex_frac l1 in
      let '(ex, l3) := lex_exp l2 in
      Some ({| j_neg := neg; j_int := ip; j_frac := fr; j_exp := ex |}, l3)
    else None
  | [] => None
  end.

(** strconv.ParseFloat on a complete literal, as specified: [None] = not a JSON number *)
Definition parse_spec (lit : list byte) : option (Z * bool) :=
  match jnum_lex lit with
  | Some (j, []) => Some (jn_round j)
  | _ => None
  end.

(** An evaluation shortcut for the correspondence driver: literals whose decimal order of
    magnitude is >= 10^310 or < 10^-400 are overflow / zero without computing 10^|exponent|
    (the exponent may have 20 digits).  [jn_round_fast_ok] (FpFacts.v) proves it equal to
    [jn_round] on well-formed literals. *)
Fixpoint strip0 (l : list byte) : list byte :=
  match l with
  | c :: r => if bz c =? 48 then strip0 r else l
  | [] => []
  end.

Definition jn_round_fast (j : jnum) : Z * bool :=
  let ds := strip0 (j_int j ++ jn_frac_digits j) in
  let k := jn_exp10 j - len (jn_frac_digits j) in
  let s := if j_neg j then sign_bit else 0 in
  match ds with
  | [] => (s, false)
  | _ :: _ =>
    if 310 <=? k + len ds - 1 then (s + inf_bits, true)
    else if k + len ds <=? -400 then (s, false)
    else jn_round j
  end.

Definition parse_spec_fast (lit : list byte) : option (Z * bool) :=
  match jnum_lex lit with
  | Some (j, []) => Some (jn_round_fast j)
  | _ => None
  end.

(** sanity: 1.5e3, -0.0, 1e400 *)
Example spec_ex1 : parse_spec (map B [49; 46; 53; 101; 51]) = Some (4654311885213007872, false).
Proof. vm_compute. reflexivity. Qed.
Example spec_ex2 : parse_spec (map B [45; 48; 46; 48]) = Some (sign_bit, false).
Proof. vm_compute. reflexivity. Qed.
Example spec_ex3 : parse_spec (map B [49; 101; 52; 48; 48]) = Some (inf_bits, true).
Proof. vm_compute. reflexivity. Qed.
Example spec_ex4 : parse_spec (map B [49; 46]) = None.
Proof. vm_compute. reflexivity. Qed.
Example lex_ex5 : option_map snd (jnum_lex (map B [48; 49])) = Some [B 49].
Proof. vm_compute. reflexivity. Qed.
