(** Property C13, token classification and type exclusivity.

    1. [next_token_type_spec], [next_token_spec]: closed forms of NextTokenType / NextToken:
       skip exactly the JSON white space bytes (space, tab, CR, LF), classify the next byte by
       the fixed token table [tok_type], report its index plus one; end of input exactly for
       empty or all-white-space input ([next_token_type_eof_iff], [next_token_eof_iff]).
    2. [*_exclusive]: a typed Read function that succeeds on [data] reads the type that
       NextTokenType reports for [data] (null included).
    3. [readers_pairwise_exclusive]: two successful typed readers on the same input read the
       same token type; the concrete non-overlap corollaries follow.

    ReadNull / ReadBool are taken over the specification machines [null_spec] / [bool_spec]
    (the regenerated tables are tied to them by the certified simulation elsewhere).
    No axioms: [Print Assumptions] at the end. *)
From Coq Require Import List ZArith Bool Lia.
From Coq Require Import Strings.Byte.
From Rjson Require Import Base Helpers Machine MachineFacts Safety Api IntSpec IntFacts
     Ref SpecMachines SpecFacts Fp FpScan.
Import ListNotations.
Local Open Scope Z_scope.

(** * 0. the token table on the bytes that matter *)

Lemma ws_tok_invalid : forall b, is_ws b = true -> tok_type b = InvalidType.
Proof. intros b; destruct b; intros H; try reflexivity; discriminate H. Qed.

Lemma digit_tok_number : forall b, is_digit b = true -> tok_type b = NumberType.
Proof. intros b; destruct b; intros H; try reflexivity; discriminate H. Qed.

Lemma minus_tok_number : forall b, (bz b =? 45) = true -> tok_type b = NumberType.
Proof. intros b; destruct b; intros H; try reflexivity; discriminate H. Qed.

Lemma zero_tok_number : forall b, (bz b =? 48) = true -> tok_type b = NumberType.
Proof. intros b; destruct b; intros H; try reflexivity; discriminate H. Qed.

Lemma quote_tok_string : forall b, (bz b =? 34) = true -> tok_type b = StringType.
Proof. intros b; destruct b; intros H; try reflexivity; discriminate H. Qed.

Lemma n_tok_null : forall b, (bz b =? 110) = true -> tok_type b = NullType.
Proof. intros b; destruct b; intros H; try reflexivity; discriminate H. Qed.

Lemma t_tok_true : forall b, (bz b =? 116) = true -> tok_type b = TrueType.
Proof. intros b; destruct b; intros H; try reflexivity; discriminate H. Qed.

Lemma f_tok_false : forall b, (bz b =? 102) = true -> tok_type b = FalseType.
Proof. intros b; destruct b; intros H; try reflexivity; discriminate H. Qed.

(** * 1. NextTokenType / NextToken *)

Lemma get_of_nat : forall data n, get data (Z.of_nat n) = hd_error (skipn n data).
Proof.
  intros data n. unfold get.
  destruct (Z.ltb_spec (Z.of_nat n) 0) as [H|H]; [lia|]. clear H. rewrite Nat2Z.id.
  revert data; induction n as [|n IH]; intros [|c r]; try reflexivity.
  cbn [nth_error skipn]. apply IH.
Qed.

Theorem next_token_type_spec : forall data,
  let w := count_while is_ws data in
  match skipn w data with
  | [] => NextTokenType data = (0, Z.of_nat w, Some EEOF)
  | b :: _ => NextTokenType data = (tok_type b, Z.of_nat w + 1, None)
  end.
Proof.
  intros [|b0 r0]; [reflexivity|].
  cbv zeta. unfold NextTokenType.
  destruct (is_ws b0) eqn:W.
  - rewrite (ws_tok_invalid b0 W). change (negb (InvalidType =? InvalidType)) with false.
    cbv iota. cbn [negb]. unfold countWhitespace. rewrite get_of_nat.
    destruct (skipn (count_while is_ws (b0 :: r0)) (b0 :: r0)) as [|b r]; reflexivity.
  - assert (C : count_while is_ws (b0 :: r0) = 0%nat) by (cbn; rewrite W; reflexivity).
    rewrite C. cbn [skipn negb Z.of_nat Z.add].
    destruct (negb (tok_type b0 =? InvalidType)); reflexivity.
Qed.

Theorem next_token_spec : forall data,
  let w := count_while is_ws data in
  match skipn w data with
  | [] => NextToken data = (0, Z.of_nat w, Some EEOF)
  | b :: _ => NextToken data =
              (bz b, Z.of_nat w + 1, if tok_type b =? InvalidType then Some ENoValidToken else None)
  end.
Proof.
  intros [|b0 r0]; [reflexivity|].
  cbv zeta. unfold NextToken.
  destruct (is_ws b0) eqn:W.
  - rewrite (ws_tok_invalid b0 W). change (negb (InvalidType =? InvalidType)) with false.
    cbv iota. cbn [negb]. unfold countWhitespace. rewrite get_of_nat.
    destruct (skipn (count_while is_ws (b0 :: r0)) (b0 :: r0)) as [|b r]; [reflexivity|].
    cbn [hd_error]. destruct (tok_type b =? InvalidType); reflexivity.
  - assert (C : count_while is_ws (b0 :: r0) = 0%nat) by (cbn; rewrite W; reflexivity).
    rewrite C. cbn [skipn negb Z.of_nat Z.add].
    destruct (tok_type b0 =? InvalidType); reflexivity.
Qed.

(** the two functions agree on the offset, and NextTokenType reports the type of the byte
    that NextToken reports *)
Corollary next_token_agree : forall data,
  snd (fst (NextToken data)) = snd (fst (NextTokenType data)) /\
  (snd (NextToken data) = Some EEOF <-> snd (NextTokenType data) = Some EEOF) /\
  (snd (NextTokenType data) = None ->
   fst (fst (NextTokenType data)) = tok_type (zb (fst (fst (NextToken data))))).
Proof.
  intro data. pose proof (next_token_type_spec data) as A. pose proof (next_token_spec data) as B.
  cbv zeta in A, B. destruct (skipn (count_while is_ws data) data) as [|b r]; rewrite A, B; cbn [fst snd].
  - repeat split; auto; discriminate.
  - repeat split; try discriminate.
    + destruct (tok_type b =? InvalidType); discriminate.
    + intros _. f_equal. destruct b; reflexivity.
Qed.

(** end of input is reported exactly for empty or all-white-space input *)
Lemma skipn_cw_nil_iff : forall f l, skipn (count_while f l) l = [] <-> forallb f l = true.
Proof.
  intros f l; induction l as [|c r IH]; cbn; [tauto|].
  destruct (f c); cbn; [exact IH|]. split; discriminate.
Qed.

Theorem next_token_type_eof_iff : forall data,
  snd (NextTokenType data) = Some EEOF <-> forallb is_ws data = true.
Proof.
  intro data. rewrite <- skipn_cw_nil_iff. pose proof (next_token_type_spec data) as A. cbv zeta in A.
  destruct (skipn (count_while is_ws data) data) as [|b r]; rewrite A; cbn [snd]; split; auto; discriminate.
Qed.

Theorem next_token_eof_iff : forall data,
  snd (NextToken data) = Some EEOF <-> forallb is_ws data = true.
Proof.
  intro data. rewrite <- skipn_cw_nil_iff. pose proof (next_token_spec data) as A. cbv zeta in A.
  destruct (skipn (count_while is_ws data) data) as [|b r]; rewrite A; cbn [snd]; split; auto; try discriminate.
  destruct (tok_type b =? InvalidType); discriminate.
Qed.

(** NextTokenType never fails otherwise; NextToken fails otherwise exactly on an invalid byte *)
Corollary next_token_type_err : forall data,
  snd (NextTokenType data) = None \/ snd (NextTokenType data) = Some EEOF.
Proof.
  intro data. pose proof (next_token_type_spec data) as A. cbv zeta in A.
  destruct (skipn (count_while is_ws data) data); rewrite A; cbn; auto.
Qed.

(** the classification of an input whose first non-white-space byte is [b] *)
Lemma classified : forall data b r,
  skipn (count_while is_ws data) data = b :: r -> fst (fst (NextTokenType data)) = tok_type b.
Proof.
  intros data b r H. pose proof (next_token_type_spec data) as A. cbv zeta in A.
  rewrite H in A. rewrite A. reflexivity.
Qed.

(** * 2. type exclusivity, reader by reader *)

(** ** integers *)
Lemma uint_token_head : forall l ds rest, uint_token l = Some (ds, rest) ->
  exists c r, l = c :: r /\ tok_type c = NumberType.
Proof.
  intros [|c r] ds rest H; [discriminate|]. exists c, r. split; [reflexivity|].
  unfold uint_token in H. destruct (bz c =? 48) eqn:Z0; [apply zero_tok_number; exact Z0|].
  destruct (is_digit c) eqn:D; [apply digit_tok_number; exact D|discriminate].
Qed.

Lemma uint_spec_exclusive : forall bound data v p,
  uint_spec bound data = Some (v, p) -> fst (fst (NextTokenType data)) = NumberType.
Proof.
  intros bound data v p H. unfold uint_spec in H. cbv zeta in H.
  destruct (uint_token (skipn (count_while is_ws data) data)) as [[ds rest]|] eqn:U; [|discriminate].
  destruct (uint_token_head _ _ _ U) as (c & r & E & T).
  rewrite (classified data c r E). exact T.
Qed.

Lemma int_spec_exclusive : forall lo hi data v p,
  int_spec lo hi data = Some (v, p) -> fst (fst (NextTokenType data)) = NumberType.
Proof.
  intros lo hi data v p H. unfold int_spec in H. cbv zeta in H.
  destruct (skipn (count_while is_ws data) data) as [|c r] eqn:E; [discriminate|].
  rewrite (classified data c r E).
  destruct (bz c =? 45) eqn:N; [apply minus_tok_number; exact N|].
  destruct (uint_token (c :: r)) as [[ds rest]|] eqn:U; [|discriminate].
  destruct (uint_token_head _ _ _ U) as (c' & r' & E' & T). inversion E'; subst. exact T.
Qed.

Theorem uint64_exclusive : forall data v p,
  ok_proj (ReadUint64 data) = Some (v, p) -> fst (fst (NextTokenType data)) = NumberType.
Proof. intros data v p H. rewrite read_uint64_exact in H. exact (uint_spec_exclusive _ _ _ _ H). Qed.

Theorem uint32_exclusive : forall data v p,
  ok_proj (ReadUint32 data) = Some (v, p) -> fst (fst (NextTokenType data)) = NumberType.
Proof. intros data v p H. rewrite read_uint32_exact in H. exact (uint_spec_exclusive _ _ _ _ H). Qed.

Theorem uint_exclusive : forall data v p,
  ok_proj (ReadUint data) = Some (v, p) -> fst (fst (NextTokenType data)) = NumberType.
Proof. exact uint64_exclusive. Qed.

Theorem int64_exclusive : forall data v p,
  ok_proj (ReadInt64 data) = Some (v, p) -> fst (fst (NextTokenType data)) = NumberType.
Proof. intros data v p H. rewrite read_int64_exact in H. exact (int_spec_exclusive _ _ _ _ _ H). Qed.

Theorem int32_exclusive : forall data v p,
  ok_proj (ReadInt32 data) = Some (v, p) -> fst (fst (NextTokenType data)) = NumberType.
Proof. intros data v p H. rewrite read_int32_exact in H. exact (int_spec_exclusive _ _ _ _ _ H). Qed.

Theorem int_exclusive : forall data v p,
  ok_proj (ReadInt data) = Some (v, p) -> fst (fst (NextTokenType data)) = NumberType.
Proof. exact int64_exclusive. Qed.

(** ** strings (any append machine: the opening quote is checked by hand-written code) *)
Theorem string_bytes_exclusive : forall md mAppend data buf v p,
  ReadStringBytes md mAppend data buf = Some (v, p, None) ->
  fst (fst (NextTokenType data)) = StringType.
Proof.
  intros md mAppend data buf v p H. unfold ReadStringBytes, countWhitespace in H.
  cbv zeta in H. rewrite Nat2Z.id in H.
  destruct (skipn (count_while is_ws data) data) as [|q body] eqn:E; [discriminate|].
  rewrite (classified data q body E).
  destruct (bz q =? 34) eqn:Q; [apply quote_tok_string; exact Q|discriminate].
Qed.

Theorem string_exclusive : forall md mAppend data buf v p buf',
  ReadString md mAppend data buf = Some (v, p, None, buf') ->
  fst (fst (NextTokenType data)) = StringType.
Proof.
  intros md mAppend data buf v p buf' H. unfold ReadString, countWhitespace in H.
  cbv zeta in H. rewrite Nat2Z.id in H.
  destruct (skipn (count_while is_ws data) data) as [|q body] eqn:E; [discriminate|].
  rewrite (classified data q body E).
  destruct (bz q =? 34) eqn:Q; [apply quote_tok_string; exact Q|discriminate].
Qed.

(** ** null / true / false *)
Lemma read_lit_ref_head : forall x w data p, read_lit_ref (x :: w) data = Some p ->
  exists b r, skipn (count_while is_ws data) data = b :: r /\ (bz b =? bz x) = true.
Proof.
  intros x w data p H. unfold read_lit_ref, lit_ref, ws in H.
  destruct (skipn (count_while is_ws data) data) as [|b r]; [discriminate|].
  exists b, r. split; [reflexivity|]. cbn [is_prefix] in H.
  destruct (bz b =? bz x); [reflexivity|discriminate].
Qed.

Theorem null_exclusive : forall md data p,
  ReadNull md null_spec data = inl (p, None) -> fst (fst (NextTokenType data)) = NullType.
Proof.
  intros md data p H. unfold ReadNull in H. rewrite prun_c_eq in H.
  pose proof (null_spec_correct md data no_handler [] []) as C.
  destruct (read_lit_ref lit_null data) as [p0|] eqn:R.
  - destruct (read_lit_ref_head _ _ _ _ R) as (b & r & E & B).
    rewrite (classified data b r E). apply n_tok_null. exact B.
  - destruct C as (p' & C).
    destruct (prun md null_spec data no_handler [] []) as [p1 e1 s1| |]; cbn in H, C; try discriminate.
    inversion H; subst. inversion C.
Qed.

Theorem bool_exclusive : forall md data v p,
  ReadBool md bool_spec data = inl (v, p, None) ->
  fst (fst (NextTokenType data)) = (if v then TrueType else FalseType).
Proof.
  intros md data v p H. unfold ReadBool in H. rewrite prun_c_eq in H.
  pose proof (bool_spec_correct md data no_handler [] []) as C.
  unfold read_bool_ref in C.
  destruct (prun md bool_spec data no_handler [] []) as [p1 e1 s1| |]; try discriminate.
  destruct e1 as [e|]; [discriminate|]. inversion H; subst; clear H.
  destruct (read_lit_ref lit_true data) as [pt|] eqn:RT.
  - cbn in C. assert (V : s_val s1 = true) by congruence. rewrite V.
    destruct (read_lit_ref_head _ _ _ _ RT) as (b & r & E & B').
    rewrite (classified data b r E). apply t_tok_true. exact B'.
  - destruct (read_lit_ref lit_false data) as [pf|] eqn:RF; cbn in C.
    + assert (V : s_val s1 = false) by congruence. rewrite V.
      destruct (read_lit_ref_head _ _ _ _ RF) as (b & r & E & B').
      rewrite (classified data b r E). apply f_tok_false. exact B'.
    + destruct C as (p' & C). inversion C.
Qed.

(** ** float *)
Lemma readFloat_ok_head : forall l, rf_ok (readFloat_m l) = true ->
  exists c r, l = c :: r /\ tok_type c = NumberType.
Proof.
  intros [|c r] H; [discriminate H|]. exists c, r. split; [reflexivity|].
  destruct (bz c =? 45) eqn:N; [apply minus_tok_number; exact N|].
  destruct (is_digit c) eqn:D; [apply digit_tok_number; exact D|].
  rewrite readFloat_no_digit in H; [discriminate|]. rewrite N. exact D.
Qed.

Lemma parse_prefix_ok_head : forall T l v n,
  ParseJSONFloatPrefix_m T l = Some (v, n, None) -> rf_ok (readFloat_m l) = true.
Proof.
  intros T l v n H. unfold ParseJSONFloatPrefix_m in H.
  destruct (rf_ok (readFloat_m l)); [reflexivity|discriminate].
Qed.

Theorem float_exclusive : forall T data v p,
  ReadFloat64_m T data = Some (v, p, None) -> fst (fst (NextTokenType data)) = NumberType.
Proof.
  intros T data v p H. unfold ReadFloat64_m in H. cbv zeta in H. rewrite Nat2Z.id in H.
  destruct (Z.of_nat (count_while is_ws data) =? len data); [discriminate|].
  destruct (ParseJSONFloatPrefix_m T (skipn (count_while is_ws data) data)) as [[[v' pp] err]|] eqn:P;
    cbn in H; [|discriminate].
  destruct err as [e|]; [discriminate|].
  apply parse_prefix_ok_head in P. destruct (readFloat_ok_head _ P) as (c & r & E & TT).
  rewrite (classified data c r E). exact TT.
Qed.

(** * 3. at most one Read family accepts a given input *)

(** [accepts data t]: some typed reader of token type [t] succeeds on [data] *)
Inductive accepts (data : list byte) : Z -> Prop :=
| acc_uint64 v p : ok_proj (ReadUint64 data) = Some (v, p) -> accepts data NumberType
| acc_uint32 v p : ok_proj (ReadUint32 data) = Some (v, p) -> accepts data NumberType
| acc_uint v p : ok_proj (ReadUint data) = Some (v, p) -> accepts data NumberType
| acc_int64 v p : ok_proj (ReadInt64 data) = Some (v, p) -> accepts data NumberType
| acc_int32 v p : ok_proj (ReadInt32 data) = Some (v, p) -> accepts data NumberType
| acc_int v p : ok_proj (ReadInt data) = Some (v, p) -> accepts data NumberType
| acc_float T v p : ReadFloat64_m T data = Some (v, p, None) -> accepts data NumberType
| acc_string_bytes md mAppend buf v p :
    ReadStringBytes md mAppend data buf = Some (v, p, None) -> accepts data StringType
| acc_string md mAppend buf v p buf' :
    ReadString md mAppend data buf = Some (v, p, None, buf') -> accepts data StringType
| acc_null md p : ReadNull md null_spec data = inl (p, None) -> accepts data NullType
| acc_bool md v p : ReadBool md bool_spec data = inl (v, p, None) ->
                    accepts data (if v then TrueType else FalseType).

(** a typed reader succeeds only on a token of its own type *)
Theorem accepts_classified : forall data t,
  accepts data t -> fst (fst (NextTokenType data)) = t.
Proof.
  intros data t A. destruct A.
  - eapply uint64_exclusive; eauto.
  - eapply uint32_exclusive; eauto.
  - eapply uint_exclusive; eauto.
  - eapply int64_exclusive; eauto.
  - eapply int32_exclusive; eauto.
  - eapply int_exclusive; eauto.
  - eapply float_exclusive; eauto.
  - eapply string_bytes_exclusive; eauto.
  - eapply string_exclusive; eauto.
  - eapply null_exclusive; eauto.
  - eapply bool_exclusive; eauto.
Qed.

(** ... so it never succeeds when the classified type differs *)
Corollary mismatch_rejects : forall data t,
  fst (fst (NextTokenType data)) <> t -> ~ accepts data t.
Proof. intros data t N A. apply N. apply accepts_classified. exact A. Qed.

(** ... nor at end of input *)
Corollary accepts_not_eof : forall data t, accepts data t -> snd (NextTokenType data) = None.
Proof.
  intros data t A. pose proof (accepts_classified data t A) as C.
  pose proof (next_token_type_spec data) as S. cbv zeta in S.
  destruct (skipn (count_while is_ws data) data); rewrite S in *; [|reflexivity].
  cbn in C. destruct A; try discriminate C. destruct v; discriminate C.
Qed.

Corollary readers_pairwise_exclusive : forall data t1 t2,
  accepts data t1 -> accepts data t2 -> t1 = t2.
Proof.
  intros data t1 t2 A1 A2.
  rewrite <- (accepts_classified data t1 A1). apply accepts_classified. exact A2.
Qed.

(** the five families are pairwise disjoint: concrete instances *)
Corollary null_number_exclusive : forall md data p,
  ReadNull md null_spec data = inl (p, None) -> ~ accepts data NumberType.
Proof. intros md data p H A. pose proof (readers_pairwise_exclusive _ _ _ (acc_null data md p H) A). discriminate. Qed.

Corollary null_uint64_exclusive : forall md data p v p',
  ReadNull md null_spec data = inl (p, None) -> ok_proj (ReadUint64 data) = Some (v, p') -> False.
Proof. intros md data p v p' H U. exact (null_number_exclusive md data p H (acc_uint64 data v p' U)). Qed.

Corollary null_int64_exclusive : forall md data p v p',
  ReadNull md null_spec data = inl (p, None) -> ok_proj (ReadInt64 data) = Some (v, p') -> False.
Proof. intros md data p v p' H U. exact (null_number_exclusive md data p H (acc_int64 data v p' U)). Qed.

Corollary null_float_exclusive : forall md T data p v p',
  ReadNull md null_spec data = inl (p, None) -> ReadFloat64_m T data = Some (v, p', None) -> False.
Proof. intros md T data p v p' H U. exact (null_number_exclusive md data p H (acc_float data T v p' U)). Qed.

Corollary null_string_exclusive : forall md data p, ReadNull md null_spec data = inl (p, None) -> ~ accepts data StringType.
Proof. intros md data p H A. pose proof (readers_pairwise_exclusive _ _ _ (acc_null data md p H) A). discriminate. Qed.

Corollary null_bool_exclusive : forall md md' data p v p',
  ReadNull md null_spec data = inl (p, None) -> ReadBool md' bool_spec data = inl (v, p', None) -> False.
Proof.
  intros md md' data p v p' H B.
  pose proof (readers_pairwise_exclusive _ _ _ (acc_null data md p H) (acc_bool data md' v p' B)) as E.
  destruct v; discriminate E.
Qed.

Corollary bool_number_exclusive : forall md data v p,
  ReadBool md bool_spec data = inl (v, p, None) -> ~ accepts data NumberType.
Proof.
  intros md data v p H A. pose proof (readers_pairwise_exclusive _ _ _ (acc_bool data md v p H) A) as E.
  destruct v; discriminate E.
Qed.

Corollary bool_string_exclusive : forall md data v p,
  ReadBool md bool_spec data = inl (v, p, None) -> ~ accepts data StringType.
Proof.
  intros md data v p H A. pose proof (readers_pairwise_exclusive _ _ _ (acc_bool data md v p H) A) as E.
  destruct v; discriminate E.
Qed.

Corollary string_number_exclusive : forall data, accepts data StringType -> ~ accepts data NumberType.
Proof. intros data A B. pose proof (readers_pairwise_exclusive _ _ _ A B). discriminate. Qed.

(** ReadBool cannot read both values from one input (even with different depth limits) *)
Corollary bool_value_unique : forall md md' data v p v' p',
  ReadBool md bool_spec data = inl (v, p, None) -> ReadBool md' bool_spec data = inl (v', p', None) -> v = v'.
Proof.
  intros md md' data v p v' p' H H'.
  pose proof (readers_pairwise_exclusive _ _ _ (acc_bool data md v p H) (acc_bool data md' v' p' H')) as E.
  destruct v, v'; try reflexivity; discriminate E.
Qed.

(** * 4. examples (computed) *)
Local Notation sp := x20. Local Notation tab := x09. Local Notation cr := x0d. Local Notation lf := x0a.

Example ex_ntt_empty : NextTokenType [] = (0, 0, Some EEOF). Proof. vm_compute. reflexivity. Qed.
Example ex_ntt_ws : NextTokenType [sp; tab; cr; lf] = (0, 4, Some EEOF). Proof. vm_compute. reflexivity. Qed.
Example ex_ntt_null : NextTokenType [sp; lf; x6e; x75] = (NullType, 3, None). Proof. vm_compute. reflexivity. Qed.
Example ex_ntt_invalid : NextTokenType [sp; x78] = (InvalidType, 2, None). Proof. vm_compute. reflexivity. Qed.
Example ex_ntt_vtab : NextTokenType [x0b; x31] = (InvalidType, 1, None). Proof. vm_compute. reflexivity. Qed.
Example ex_nt_empty : NextToken [] = (0, 0, Some EEOF). Proof. vm_compute. reflexivity. Qed.
Example ex_nt_ws : NextToken [sp; sp] = (0, 2, Some EEOF). Proof. vm_compute. reflexivity. Qed.
Example ex_nt_brace : NextToken [tab; x7b; x7d] = (123, 2, None). Proof. vm_compute. reflexivity. Qed.
Example ex_nt_invalid : NextToken [sp; x78] = (120, 2, Some ENoValidToken). Proof. vm_compute. reflexivity. Qed.
Example ex_nt_first : NextToken [x2d] = (45, 1, None). Proof. vm_compute. reflexivity. Qed.

(** "null": ReadNull accepts, the number readers do not; " 12": the converse *)
Example ex_null_only :
  ReadNull 10000 null_spec [x6e; x75; x6c; x6c] = inl (4, None) /\
  ok_proj (ReadUint64 [x6e; x75; x6c; x6c]) = None /\ ok_proj (ReadInt64 [x6e; x75; x6c; x6c]) = None /\
  (exists p e, ReadBool 10000 bool_spec [x6e; x75; x6c; x6c] = inl (false, p, Some e)) /\
  fst (fst (NextTokenType [x6e; x75; x6c; x6c])) = NullType.
Proof. vm_compute. repeat split. eexists; eexists; reflexivity. Qed.

Example ex_number_only :
  ok_proj (ReadUint64 [sp; x31; x32]) = Some (12, 3) /\ ok_proj (ReadInt64 [sp; x31; x32]) = Some (12, 3) /\
  (exists p e, ReadNull 10000 null_spec [sp; x31; x32] = inl (p, Some e)) /\
  (exists p e, ReadBool 10000 bool_spec [sp; x31; x32] = inl (false, p, Some e)) /\
  fst (fst (NextTokenType [sp; x31; x32])) = NumberType.
Proof. vm_compute. repeat split; eexists; eexists; reflexivity. Qed.

Example ex_bool_only :
  ReadBool 10000 bool_spec [sp; x66; x61; x6c; x73; x65] = inl (false, 6, None) /\
  ReadBool 10000 bool_spec [x74; x72; x75; x65; x2c] = inl (true, 4, None) /\
  fst (fst (NextTokenType [sp; x66; x61; x6c; x73; x65])) = FalseType /\
  fst (fst (NextTokenType [x74; x72; x75; x65; x2c])) = TrueType.
Proof. vm_compute. repeat split. Qed.

Example ex_string_only :
  ReadStringBytes 10000 append_spec [sp; x22; x61; x22] [] = Some ([x61], 4, None) /\
  ok_proj (ReadInt64 [sp; x22; x61; x22]) = None /\
  fst (fst (NextTokenType [sp; x22; x61; x22])) = StringType.
Proof. vm_compute. repeat split. Qed.

Print Assumptions next_token_type_spec.
Print Assumptions next_token_spec.
Print Assumptions next_token_type_eof_iff.
Print Assumptions uint64_exclusive.
Print Assumptions int64_exclusive.
Print Assumptions uint32_exclusive.
Print Assumptions int32_exclusive.
Print Assumptions string_bytes_exclusive.
Print Assumptions string_exclusive.
Print Assumptions null_exclusive.
Print Assumptions bool_exclusive.
Print Assumptions float_exclusive.
Print Assumptions accepts_classified.
Print Assumptions readers_pairwise_exclusive.
