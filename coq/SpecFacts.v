(** Language-level theorems about the specification machines of SpecMachines.v, against the
    reference semantics of Ref.v.  Together with the per-run simulation ties (run/TieSim.v,
    [sim_sound]) they say what the regenerated implementation tables compute.

    Part 1: running a specification machine: continuations [cont], reachability [Reach] with fuel
            accounting (a transition costs one unit of fuel and at least one byte), [Ends].
    Part 2: the shared token automaton [tok_step] against the Ref token functions, proved once
            for any family of states that follows it ([Section Tok]): [string_run] (string_body),
            [lit_ok] (literals); the number scanners against frac_part / exp_part
            ([scanDec_ref], [scanExp_ref], [int_tail]).
    Part 3: (a) [null_spec_correct], [bool_spec_correct];
            (b) [value_ok] (induction on nesting; [items_ok], [container_ok], [object_items],
                [scalar_run], [call_step], [ret_step]) and [skip_spec_correct];
            (c) [SkipValue_spec_correct], [valid_spec_correct]; the rest is stated as OPEN at the end. *)
From Coq Require Import List ZArith Bool Lia.
From Coq Require Import Strings.Byte.
From Rjson Require Import Base BaseFacts Helpers Machine MachineFacts Safety Api SpecMachines Ref.
Import ListNotations.
Local Open Scope Z_scope.

(** * Part 1: running a specification machine *)

(** ** record plumbing *)
Definition adv (s : st) (n : nat) : st := set_p s (s_p s + Z.of_nat n).

Lemma adv_0 : forall s, adv s 0 = s.
Proof. intros s. destruct s as [p e t c l j pp fs fe sg d ub ok v cl]. unfold adv. cbn. rewrite Z.add_0_r. reflexivity. Qed.
Lemma adv_adv : forall s a b, adv (adv s a) b = adv s (a + b).
Proof.
  intros s a b. destruct s as [p e t c l j pp fs fe sg d ub ok v cl]. unfold adv. cbn.
  rewrite Nat2Z.inj_add, Z.add_assoc. reflexivity.
Qed.
Lemma s_p_adv : forall s n, s_p (adv s n) = s_p s + Z.of_nat n.
Proof. reflexivity. Qed.
Lemma set_p_adv1 : forall s, set_p s (s_p s + 1) = adv s 1.
Proof. reflexivity. Qed.

(** literal words as numbers *)
Fixpoint zprefix (w : list Z) (l : list byte) : bool :=
  match w, l with
  | [], _ => true
  | x :: w', y :: l' => (bz y =? x) && zprefix w' l'
  | _ :: _, [] => false
  end.
Lemma zprefix_len : forall w l, zprefix w l = true -> (length w <= length l)%nat.
Proof.
  induction w as [|x w IH]; intros [|y l] H; cbn in *; try lia; try discriminate.
  apply andb_true_iff in H. destruct H as [_ H]. apply IH in H. lia.
Qed.
Lemma is_prefix_z : forall w l, is_prefix w l = zprefix (map bz w) l.
Proof. induction w as [|x w IH]; intros [|y l]; cbn; auto. rewrite IH. reflexivity. Qed.

(** the letters still to come in a literal state *)
Definition lit_rest (t : tok) : list Z :=
  match t with
  | T_t => [114; 117; 101] | T_tr => [117; 101] | T_tru => [101]
  | T_f => [97; 108; 115; 101] | T_fa => [108; 115; 101] | T_fal => [115; 101] | T_fals => [101]
  | T_n => [117; 108; 108] | T_nu => [108; 108] | T_nul => [108]
  | _ => []
  end.
Definition is_lit (t : tok) : bool := match lit_rest t with [] => false | _ => true end.

Section Run.
  Variable md : Z.
  Variable chk : bool.
  Variable start : sstate.
  Variable data : list byte.
  Variable h : handler.
  Let m := spec_machine chk start.
  Let pe := len data.

  Lemma m_trans_enc : forall q b,
    m_trans m (enc q) b = (fst (strans chk q b), enc_o (snd (strans chk q b))).
  Proof. intros q b. cbn. rewrite dec_enc. destruct (strans chk q b). reflexivity. Qed.
  Lemma m_eof_enc : forall q, m_eof m (enc q) = seof q.
  Proof. intros q. cbn. rewrite dec_enc. reflexivity. Qed.
  Lemma m_is_state_enc : forall q, m_is_state m (enc q) = true.
  Proof. intros q. cbn. rewrite dec_enc. apply orb_true_r. Qed.

  (** ** continuations: what the run does from control state [z] and run state [s] *)
  Definition contz (f : nat) (z : Z) (s : st) : outcome :=
    if s_p s =? pe then eof_phase md m data h pe z s else run md m data h pe f z s.
  Definition cont (f : nat) (q : sstate) (s : st) : outcome := contz f (enc q) s.

  (** after the action units of a transition: the "goto" part of the skeleton *)
  Definition after_goto (f : nat) (s' : st) (z : Z) : outcome :=
    if z =? 0 then ODone (s_p s') (s_err s') s'
    else if negb (m_is_state m z) then OPanic PBadState
    else contz f z (adv s' 1).

  Definition finish (f : nat) (r : ures) (z : Z) : outcome :=
    match r with
    | RCont s' => after_goto f s' z
    | RGoto s' z' => after_goto f s' z'
    | ROut s' => ODone (s_p s') (s_err s') s'
    | RRet p e s' => ODone p (Some e) s'
    | RPanic k => OPanic k
    end.

  Lemma contz_S : forall f z s b, s_p s <> pe -> get data (s_p s) = Some b ->
    contz (S f) z s = finish f (exec_units md data h pe (fst (m_trans m z b)) s) (snd (m_trans m z b)).
  Proof.
    intros f z s b NE G. unfold contz. apply Z.eqb_neq in NE. rewrite NE.
    rewrite run_step. unfold step. rewrite G. destruct (m_trans m z b) as [us d]. cbn [fst snd].
    destruct (exec_units md data h pe us s) as [s'|s' d'|s'|p' e' s'|k]; cbn [finish]; try reflexivity.
    - unfold goto_step, after_goto, contz, adv. change (Z.of_nat 1) with 1. cbn [s_p set_p].
      destruct (d =? 0); [reflexivity|]. destruct (negb (m_is_state m d)); [reflexivity|].
      destruct (s_p s' + 1 =? pe); reflexivity.
    - unfold goto_step, after_goto, contz, adv. change (Z.of_nat 1) with 1. cbn [s_p set_p].
      destruct (d' =? 0); [reflexivity|]. destruct (negb (m_is_state m d')); [reflexivity|].
      destruct (s_p s' + 1 =? pe); reflexivity.
  Qed.

  Lemma after_goto_enc : forall f s' q, after_goto f s' (enc q) = cont f q (adv s' 1).
  Proof.
    intros f s' q. unfold after_goto. pose proof (enc_nonzero q) as N. apply Z.eqb_neq in N.
    rewrite N, m_is_state_enc. reflexivity.
  Qed.

  Lemma contz_eof : forall f z s, s_p s = pe -> contz f z s = eof_phase md m data h pe z s.
  Proof. intros f z s E. unfold contz. apply Z.eqb_eq in E. rewrite E. reflexivity. Qed.

  (** ** where the run stands in the input *)
  Definition AtP (p : Z) (l : list byte) : Prop := 0 <= p <= pe /\ skipn (Z.to_nat p) data = l.
  Definition At (s : st) (l : list byte) : Prop := AtP (s_p s) l.

  Lemma AtP_len : forall p l, AtP p l -> len l = pe - p.
  Proof.
    intros p l [R E]. subst l. unfold pe, len in *. rewrite skipn_length. lia.
  Qed.
  Lemma AtP_nil : forall p, AtP p [] -> p = pe.
  Proof. intros p H. pose proof (AtP_len _ _ H) as L. cbn in L. destruct H. lia. Qed.
  Lemma AtP_cons : forall p b r, AtP p (b :: r) -> p <> pe /\ get data p = Some b /\ AtP (p + 1) r.
  Proof.
    intros p b r H. pose proof (AtP_len _ _ H) as L. destruct H as [R E].
    rewrite len_cons in L. pose proof (len_nonneg r).
    split; [lia|]. split.
    - rewrite get_hd by lia. rewrite E. reflexivity.
    - split; [lia|]. replace (Z.to_nat (p + 1)) with (1 + Z.to_nat p)%nat by lia.
      rewrite <- skipn_skipn. rewrite E. reflexivity.
  Qed.
  Lemma AtP_skipn : forall n p l, AtP p l -> (n <= length l)%nat -> AtP (p + Z.of_nat n) (skipn n l).
  Proof.
    intros n p l H L. pose proof (AtP_len _ _ H) as E. destruct H as [R S]. unfold len in E.
    split; [lia|]. subst l. rewrite skipn_skipn. f_equal. lia.
  Qed.
  Lemma At_adv : forall s l n, At s l -> (n <= length l)%nat -> At (adv s n) (skipn n l).
  Proof. intros s l n H L. unfold At. rewrite s_p_adv. apply AtP_skipn; auto. Qed.
  Lemma At_adv1 : forall s b r, At s (b :: r) -> At (adv s 1) r.
  Proof. intros s b r H. apply (At_adv s (b :: r) 1 H). cbn. lia. Qed.

  (** ** one transition of a specification state *)
  Lemma cont_S : forall f q s b r, At s (b :: r) ->
    cont (S f) q s = finish f (exec_units md data h pe (fst (strans chk q b)) s) (enc_o (snd (strans chk q b))).
  Proof.
    intros f q s b r H. destruct (AtP_cons _ _ _ H) as (NE & G & _).
    unfold cont. rewrite (contz_S f (enc q) s b NE G). rewrite m_trans_enc. reflexivity.
  Qed.

  Lemma cont_silent : forall f q q' s b r, At s (b :: r) -> strans chk q b = ([], Some q') ->
    cont (S f) q s = cont f q' (adv s 1).
  Proof.
    intros f q q' s b r H T. rewrite (cont_S f q s b r H). rewrite T. cbn. apply after_goto_enc.
  Qed.

  Lemma cont_eof : forall f q s, At s [] ->
    cont f q s = match exec_units md data h pe (seof q) s with
                 | RCont s' | ROut s' => ODone (s_p s') (s_err s') s'
                 | RRet p e s' => ODone p (Some e) s'
                 | RGoto _ _ => OPanic PUnknown
                 | RPanic k => OPanic k
                 end.
  Proof.
    intros f q s H. unfold cont. rewrite contz_eof by (apply AtP_nil; exact H).
    unfold eof_phase. rewrite m_eof_enc. reflexivity.
  Qed.

  (** ** reachability with fuel accounting: every transition consumes one unit of fuel and at
      least one byte, so "fuel >= bytes left" is maintained *)
  Definition rem (s : st) : nat := Z.to_nat (pe - s_p s).

  Definition Reach (q : sstate) (s : st) (q' : sstate) (s' : st) : Prop :=
    forall f, (rem s <= f)%nat -> exists f', (rem s' <= f')%nat /\ cont f q s = cont f' q' s'.

  (** the run from (q, s) ends with an outcome satisfying P *)
  Definition Ends (q : sstate) (s : st) (P : outcome -> Prop) : Prop :=
    forall f, (rem s <= f)%nat -> P (cont f q s).

  Lemma Reach_refl : forall q s, Reach q s q s.
  Proof. intros q s f F. exists f. auto. Qed.
  Lemma Reach_trans : forall q1 s1 q2 s2 q3 s3, Reach q1 s1 q2 s2 -> Reach q2 s2 q3 s3 -> Reach q1 s1 q3 s3.
  Proof.
    intros q1 s1 q2 s2 q3 s3 A B f F. destruct (A f F) as (f1 & F1 & E1).
    destruct (B f1 F1) as (f2 & F2 & E2). exists f2. split; auto. congruence.
  Qed.
  Lemma Reach_Ends : forall q s q' s' P, Reach q s q' s' -> Ends q' s' P -> Ends q s P.
  Proof. intros q s q' s' P A B f F. destruct (A f F) as (f1 & F1 & E1). rewrite E1. apply B; auto. Qed.
  Lemma Ends_weaken : forall q s (P Q : outcome -> Prop), (forall o, P o -> Q o) -> Ends q s P -> Ends q s Q.
  Proof. intros q s P Q I E f F. apply I, E, F. Qed.

  Lemma rem_cons : forall s b r, At s (b :: r) -> rem s = S (rem (adv s 1)).
  Proof.
    intros s b r H. pose proof (AtP_len _ _ H) as L. rewrite len_cons in L. pose proof (len_nonneg r).
    unfold rem. rewrite s_p_adv. destruct H. lia.
  Qed.

  Lemma Reach_silent : forall q q' s b r, At s (b :: r) -> strans chk q b = ([], Some q') ->
    Reach q s q' (adv s 1).
  Proof.
    intros q q' s b r H T f F. rewrite (rem_cons _ _ _ H) in F.
    destruct f as [|f]; [lia|]. exists f. split; [lia|]. eapply cont_silent; eauto.
  Qed.

  (** a transition whose units run through *)
  Lemma Reach_units : forall q q' s s1 b r us, At s (b :: r) -> strans chk q b = (us, Some q') ->
    exec_units md data h pe us s = RCont s1 -> s_p s <= s_p s1 -> Reach q s q' (adv s1 1).
  Proof.
    intros q q' s s1 b r us H T X P f F. pose proof (rem_cons _ _ _ H) as RC. rewrite RC in F.
    destruct f as [|f]; [lia|]. exists f. split.
    - unfold rem in *. rewrite s_p_adv in *. lia.
    - rewrite (cont_S f q s b r H). rewrite T. cbn [fst snd enc_o]. rewrite X. cbn [finish]. apply after_goto_enc.
  Qed.

  (** a transition that ends with a jump (call or return) *)
  Lemma Reach_goto : forall q q' s s1 b r us d, At s (b :: r) -> strans chk q b = (us, d) ->
    exec_units md data h pe us s = RGoto s1 (enc q') -> s_p s <= s_p s1 -> Reach q s q' (adv s1 1).
  Proof.
    intros q q' s s1 b r us d H T X P f F. pose proof (rem_cons _ _ _ H) as RC. rewrite RC in F.
    destruct f as [|f]; [lia|]. exists f. split.
    - unfold rem in *. rewrite s_p_adv in *. lia.
    - rewrite (cont_S f q s b r H). rewrite T. cbn [fst snd]. rewrite X. cbn [finish]. apply after_goto_enc.
  Qed.

  (** a general single transition, for [Ends] *)
  Lemma Ends_step : forall q s b r (P : outcome -> Prop), At s (b :: r) ->
    (forall f, (rem (adv s 1) <= f)%nat ->
       P (finish f (exec_units md data h pe (fst (strans chk q b)) s) (enc_o (snd (strans chk q b))))) ->
    Ends q s P.
  Proof.
    intros q s b r P H X f F. rewrite (rem_cons _ _ _ H) in F.
    destruct f as [|f]; [lia|]. rewrite (cont_S f q s b r H). apply X. lia.
  Qed.

  (** ** failures *)
  Definition ctx_errs (c : ctx) : list errk :=
    match c with
    | CTop | CFTop => [ENoValidToken]
    | CArr | CFArr => [EInvalidArray; EUnexpectedEOF]
    | CObj | CFObj => [EInvalidObject; EUnexpectedEOF]
    | CHATop | CHArr => [EInvalidArray]
    | CHOTop | CHObj => [EInvalidObject]
    | CNull => [ENotNull]
    | CBool => [ENotBool]
    end.

  (** an error of context [c]; nothing but the offset and the error differs from [s] in what
      is observable *)
  Definition ErrOf (c : ctx) (s : st) (o : outcome) : Prop :=
    exists p e s', o = ODone p (Some e) s' /\ In e (ctx_errs c) /\
                   s_calls s' = s_calls s /\ s_dst s' = s_dst s /\ s_val s' = s_val s.

  Lemma ErrOf_adv : forall c s n o, ErrOf c (adv s n) o -> ErrOf c s o.
  Proof. intros c s n o H. exact H. Qed.

  Definition frame (s : st) := (s_calls s, s_dst s, s_val s).
  Lemma ErrOf_frame : forall c s s' o, frame s' = frame s -> ErrOf c s' o -> ErrOf c s o.
  Proof.
    intros c s s' o F (p & e & s1 & E & I & A & B & C). unfold frame in F. inversion F as [[F1 F2 F3]].
    exists p, e, s1. repeat split; auto; congruence.
  Qed.
  Lemma Reach_Ends_fr : forall c q s q' s', Reach q s q' s' -> frame s' = frame s ->
    Ends q' s' (ErrOf c s') -> Ends q s (ErrOf c s).
  Proof.
    intros c q s q' s' R F E. eapply Reach_Ends; [exact R|]. eapply Ends_weaken; [|exact E].
    intros o. apply ErrOf_frame; auto.
  Qed.

  Ltac chain R := eapply Reach_Ends_fr; [exact R|reflexivity|].

  Lemma fail_step : forall c q s b r, At s (b :: r) -> strans chk q b = fail c -> Ends q s (ErrOf c s).
  Proof.
    intros c q s b r H T. eapply Ends_step; eauto. intros f _. rewrite T. unfold fail. cbn [fst snd enc_o].
    destruct c; cbn; unfold ErrOf; do 3 eexists; (split; [reflexivity|]); cbn; auto.
  Qed.

  Lemma fail_eof : forall c q s, At s [] -> seof q = eof_units c -> Ends q s (ErrOf c s).
  Proof.
    intros c q s H T f _. rewrite (cont_eof f q s H). rewrite T.
    destruct c; cbn; unfold ErrOf; do 3 eexists; (split; [reflexivity|]); cbn; auto.
  Qed.

  (** ** white space loops *)
  Lemma ws_cons_true : forall b r, is_ws b = true -> ws (b :: r) = S (ws r).
  Proof. intros b r H. unfold ws. cbn. rewrite H. reflexivity. Qed.
  Lemma ws_cons_false : forall b r, is_ws b = false -> ws (b :: r) = O.
  Proof. intros b r H. unfold ws. cbn. rewrite H. reflexivity. Qed.
  Lemma ws_le : forall l, (ws l <= length l)%nat.
  Proof. intros l. apply count_while_le. Qed.

  Lemma while_loop : forall (g : byte -> bool) q,
    (forall b, g b = true -> strans chk q b = ([], Some q)) ->
    forall l s, At s l -> Reach q s q (adv s (count_while g l)).
  Proof.
    intros g q Q. induction l as [|b r IH]; intros s H.
    - cbn. rewrite adv_0. apply Reach_refl.
    - cbn [count_while]. destruct (g b) eqn:W.
      + eapply Reach_trans.
        * eapply Reach_silent; eauto.
        * replace (adv s (S (count_while g r))) with (adv (adv s 1) (count_while g r)) by (rewrite adv_adv; reflexivity).
          apply IH. eapply At_adv1; eauto.
      + rewrite adv_0. apply Reach_refl.
  Qed.

  Lemma ws_loop : forall q, (forall b, is_ws b = true -> strans chk q b = ([], Some q)) ->
    forall l s, At s l -> Reach q s q (adv s (ws l)).
  Proof. intros q Q l s H. apply (while_loop is_ws q Q l s H). Qed.

  Lemma while_next : forall (g : byte -> bool) l b r, skipn (count_while g l) l = b :: r -> g b = false.
  Proof.
    intros g. induction l as [|c l IH]; intros b r E; [discriminate|].
    cbn [count_while] in E. destruct (g c) eqn:W.
    - cbn in E. eauto.
    - cbn in E. congruence.
  Qed.

  (** after the white space comes a byte that is not white space (or the end) *)
  Lemma ws_next : forall l b r, skipn (ws l) l = b :: r -> is_ws b = false.
  Proof. intros l b r. apply while_next. Qed.

  (** * Part 2: the shared token automaton against the Ref token functions *)

  (** a weaker failure: some error, nothing observable changed but offset and error *)
  Definition ErrAny (s : st) (o : outcome) : Prop :=
    exists p e s', o = ODone p (Some e) s' /\
                   s_calls s' = s_calls s /\ s_dst s' = s_dst s /\ s_val s' = s_val s.
  Lemma ErrOf_Any : forall c s o, ErrOf c s o -> ErrAny s o.
  Proof. intros c s o (p & e & s' & E & _ & R). exists p, e, s'. auto. Qed.

  (** ** a token position: a family of states [mk t] that follows [tok_step] silently, ends in
      [qend] and fails as context [c] does ([dom]: the token states this holds for) *)
  Section Tok.
    Variable c : ctx.
    Variable mk : tok -> sstate.
    Variable qend : sstate.
    Variable dom : tok -> bool.
    Hypothesis Hgo : forall t b, dom t = true ->
      match tok_step t b with
      | TGo t' => strans chk (mk t) b = ([], Some (mk t'))
      | TEnd => strans chk (mk t) b = ([], Some qend)
      | TErr => strans chk (mk t) b = fail c
      | TStop => True
      end.
    Hypothesis Heof : forall t, dom t = true -> seof (mk t) = eof_units c.

    Lemma tok_go : forall t t' s b r, dom t = true -> At s (b :: r) -> tok_step t b = TGo t' ->
      Reach (mk t) s (mk t') (adv s 1).
    Proof. intros t t' s b r D H T. pose proof (Hgo t b D) as G. rewrite T in G. eapply Reach_silent; eauto. Qed.
    Lemma tok_end : forall t s b r, dom t = true -> At s (b :: r) -> tok_step t b = TEnd ->
      Reach (mk t) s qend (adv s 1).
    Proof. intros t s b r D H T. pose proof (Hgo t b D) as G. rewrite T in G. eapply Reach_silent; eauto. Qed.
    Lemma tok_err : forall t s b r, dom t = true -> At s (b :: r) -> tok_step t b = TErr ->
      Ends (mk t) s (ErrOf c s).
    Proof. intros t s b r D H T. pose proof (Hgo t b D) as G. rewrite T in G. eapply fail_step; eauto. Qed.
    Lemma tok_eof : forall t s, dom t = true -> At s [] -> Ends (mk t) s (ErrOf c s).
    Proof. intros t s D H. apply fail_eof; auto. Qed.

    (** *** strings *)
    Hypothesis Dstr : dom TStr = true /\ dom TEsc = true /\ dom TU4 = true /\ dom TU3 = true /\
                      dom TU2 = true /\ dom TU1 = true.

    Lemma hex_step_go : forall t' b, r_is_hex b = true -> hex_step t' b = TGo t'.
    Proof. intros t' b H. unfold hex_step. change (is_hex b) with (r_is_hex b). rewrite H. reflexivity. Qed.
    Lemma hex_step_err : forall t' b, r_is_hex b = false -> hex_step t' b = TErr.
    Proof. intros t' b H. unfold hex_step. change (is_hex b) with (r_is_hex b). rewrite H. reflexivity. Qed.

    (** the four hex digits after \u *)
    Lemma hex_run : forall s l, At s l ->
      match l with
      | h1 :: h2 :: h3 :: h4 :: r2 =>
        if r_is_hex h1 && r_is_hex h2 && r_is_hex h3 && r_is_hex h4
        then Reach (mk TU4) s (mk TStr) (adv s 4)
        else Ends (mk TU4) s (ErrOf c s)
      | _ => Ends (mk TU4) s (ErrOf c s)
      end.
    Proof.
      destruct Dstr as (D0 & D1 & D4 & D3 & D2 & D1').
      intros s l H.
      destruct l as [|h1 l]; [apply tok_eof; auto|].
      destruct (r_is_hex h1) eqn:X1.
      2:{ assert (E : Ends (mk TU4) s (ErrOf c s)) by (eapply tok_err; eauto; cbn; apply hex_step_err; auto).
          destruct l as [|h2 [|h3 [|h4 r2]]]; auto. }
      pose proof (tok_go TU4 TU3 s h1 l D4 H (hex_step_go _ _ X1)) as R1.
      pose proof (At_adv1 _ _ _ H) as H1.
      destruct l as [|h2 l]; [(chain R1; apply tok_eof; auto)|].
      destruct (r_is_hex h2) eqn:X2.
      2:{ assert (E : Ends (mk TU4) s (ErrOf c s)).
          { chain R1. eapply tok_err; eauto. cbn. apply hex_step_err; auto. }
          destruct l as [|h3 [|h4 r2]]; auto. }
      pose proof (tok_go TU3 TU2 _ h2 l D3 H1 (hex_step_go _ _ X2)) as R2.
      pose proof (At_adv1 _ _ _ H1) as H2. rewrite adv_adv in R2, H2.
      destruct l as [|h3 l]; [chain R1; (chain R2; apply tok_eof; auto)|].
      destruct (r_is_hex h3) eqn:X3.
      2:{ assert (E : Ends (mk TU4) s (ErrOf c s)).
          { chain R1. chain R2. eapply tok_err; eauto. cbn. apply hex_step_err; auto. }
          destruct l as [|h4 r2]; auto. }
      pose proof (tok_go TU2 TU1 _ h3 l D2 H2 (hex_step_go _ _ X3)) as R3.
      pose proof (At_adv1 _ _ _ H2) as H3. rewrite adv_adv in R3, H3.
      destruct l as [|h4 r2];
        [chain R1; chain R2; (chain R3; apply tok_eof; auto)|].
      cbn [andb].
      destruct (r_is_hex h4) eqn:X4.
      - pose proof (tok_go TU1 TStr _ h4 r2 D1' H3 (hex_step_go _ _ X4)) as R4. rewrite adv_adv in R4.
        eapply Reach_trans; [exact R1|]. eapply Reach_trans; [exact R2|]. eapply Reach_trans; [exact R3|exact R4].
      - chain R1. chain R2. chain R3.
        eapply tok_err; eauto. cbn. apply hex_step_err; auto.
    Qed.

    Lemma simple_escape_is : forall e, is_simple_escape e = match simple_escape e with Some _ => true | None => false end.
    Proof.
      intros e. unfold is_simple_escape, simple_escape.
      repeat match goal with |- context [Z.eqb ?a ?b] => destruct (Z.eqb a b); cbn [orb]; try reflexivity end.
    Qed.

    (** [string_body]: from inside a string to just after its closing quote *)
    Lemma string_run : forall n l s, (length l <= n)%nat -> At s l ->
      match string_body l with
      | Some k => Reach (mk TStr) s qend (adv s k) /\ (k <= length l)%nat
      | None => Ends (mk TStr) s (ErrOf c s)
      end.
    Proof.
      destruct Dstr as (D0 & D1 & D4 & D3 & D2 & D1').
      induction n as [|n IH]; intros l s L H.
      - destruct l; [|cbn in L; lia]. cbn. apply tok_eof; auto.
      - destruct l as [|b r]; [cbn; apply tok_eof; auto|].
        cbn [string_body]. cbn [length] in L.
        assert (TS : tok_step TStr b = if isb 34 b then TEnd else if isb 92 b then TGo TEsc
                                       else if r_is_ctl b then TErr else TGo TStr) by reflexivity.
        destruct (isb 34 b) eqn:Q.
        { split; [eapply tok_end; eauto|cbn; lia]. }
        pose proof (At_adv1 _ _ _ H) as H1.
        destruct (isb 92 b) eqn:B.
        { pose proof (tok_go TStr TEsc s b r D0 H TS) as R1.
          destruct r as [|e r1]; [(chain R1; apply tok_eof; auto)|].
          assert (TE : tok_step TEsc e = if is_simple_escape e then TGo TStr else if isb 117 e then TGo TU4 else TErr)
            by reflexivity.
          rewrite simple_escape_is in TE.
          pose proof (At_adv1 _ _ _ H1) as H2. rewrite adv_adv in H2.
          destruct (simple_escape e) as [x|].
          { pose proof (tok_go TEsc TStr _ e r1 D1 H1 TE) as R2. rewrite adv_adv in R2.
            assert (L1 : (length r1 <= n)%nat) by (cbn in L; lia).
            specialize (IH r1 _ L1 H2). destruct (string_body r1) as [k|]; cbn [option_map].
            - destruct IH as [R3 K]. rewrite adv_adv in R3. split; [|cbn; lia].
              eapply Reach_trans; [exact R1|]. eapply Reach_trans; [exact R2|exact R3].
            - chain R1. (chain R2; exact IH). }
          destruct (isb 117 e) eqn:U.
          2:{ chain R1. eapply tok_err; eauto. }
          pose proof (tok_go TEsc TU4 _ e r1 D1 H1 TE) as R2. rewrite adv_adv in R2.
          pose proof (hex_run _ r1 H2) as HX.
          destruct r1 as [|h1 [|h2 [|h3 [|h4 r2]]]];
            try (chain R1; (chain R2; exact HX)).
          destruct (r_is_hex h1 && r_is_hex h2 && r_is_hex h3 && r_is_hex h4).
          2:{ chain R1. (chain R2; exact HX). }
          rewrite adv_adv in HX.
          assert (L1 : (length r2 <= n)%nat) by (cbn in L; lia).
          assert (H6 : At (adv s 6) r2).
          { apply (At_adv _ _ 4) in H2; [|cbn; lia]. rewrite adv_adv in H2. exact H2. }
          specialize (IH r2 _ L1 H6). destruct (string_body r2) as [k|]; cbn [option_map].
          - destruct IH as [R3 K]. rewrite adv_adv in R3. split; [|cbn; lia].
            eapply Reach_trans; [exact R1|]. eapply Reach_trans; [exact R2|]. eapply Reach_trans; [exact HX|exact R3].
          - chain R1. chain R2. (chain HX; exact IH). }
        destruct (r_is_ctl b) eqn:C.
        { eapply tok_err; eauto. }
        pose proof (tok_go TStr TStr s b r D0 H TS) as R1.
        assert (L1 : (length r <= n)%nat) by lia.
        specialize (IH r _ L1 H1). destruct (string_body r) as [k|]; cbn [option_map].
        + destruct IH as [R3 K]. rewrite adv_adv in R3. split; [|cbn; lia].
          eapply Reach_trans; [exact R1|exact R3].
        + (chain R1; exact IH).
    Qed.

    (** *** literals *)
    Hypothesis Dlit : forall t, is_lit t = true -> dom t = true.

    Definition LitOK (t : tok) : Prop := forall s l, At s l ->
      if zprefix (lit_rest t) l then Reach (mk t) s qend (adv s (length (lit_rest t)))
      else Ends (mk t) s (ErrOf c s).

    Lemma lit_chain : forall t x nxt rest, is_lit t = true -> lit_rest t = x :: rest ->
      (forall b, tok_step t b = if is x b then match nxt with Some t' => TGo t' | None => TEnd end else TErr) ->
      match nxt with Some t' => lit_rest t' = rest /\ LitOK t' | None => rest = [] end ->
      LitOK t.
    Proof.
      intros t x nxt rest IL LR TS N s l H. pose proof (Dlit t IL) as D. rewrite LR.
      destruct l as [|b r]; [cbn; apply tok_eof; auto|].
      cbn [zprefix length]. specialize (TS b). unfold is in TS.
      destruct (bz b =? x) eqn:E; cbn [andb].
      - destruct nxt as [t'|].
        + destruct N as [LR' OK]. specialize (OK _ r (At_adv1 _ _ _ H)). rewrite LR' in OK.
          pose proof (tok_go t t' s b r D H TS) as R1.
          destruct (zprefix rest r).
          * rewrite adv_adv in OK. eapply Reach_trans; [exact R1|exact OK].
          * chain R1. exact OK.
        + subst rest. cbn. eapply tok_end; eauto.
      - eapply tok_err; eauto.
    Qed.

    Lemma lit_ok : forall t, is_lit t = true -> LitOK t.
    Proof.
      assert (A1 : LitOK T_tru) by (eapply (lit_chain T_tru 101 None); reflexivity).
      assert (A2 : LitOK T_tr) by (eapply (lit_chain T_tr 117 (Some T_tru)); try reflexivity; split; [reflexivity|exact A1]).
      assert (A3 : LitOK T_t) by (eapply (lit_chain T_t 114 (Some T_tr)); try reflexivity; split; [reflexivity|exact A2]).
      assert (B1 : LitOK T_fals) by (eapply (lit_chain T_fals 101 None); reflexivity).
      assert (B2 : LitOK T_fal) by (eapply (lit_chain T_fal 115 (Some T_fals)); try reflexivity; split; [reflexivity|exact B1]).
      assert (B3 : LitOK T_fa) by (eapply (lit_chain T_fa 108 (Some T_fal)); try reflexivity; split; [reflexivity|exact B2]).
      assert (B4 : LitOK T_f) by (eapply (lit_chain T_f 97 (Some T_fa)); try reflexivity; split; [reflexivity|exact B3]).
      assert (C1 : LitOK T_nul) by (eapply (lit_chain T_nul 108 None); reflexivity).
      assert (C2 : LitOK T_nu) by (eapply (lit_chain T_nu 108 (Some T_nul)); try reflexivity; split; [reflexivity|exact C1]).
      assert (C3 : LitOK T_n) by (eapply (lit_chain T_n 117 (Some T_nu)); try reflexivity; split; [reflexivity|exact C2]).
      intros t IL. destruct t; try discriminate; assumption.
    Qed.
  End Tok.


  (** ** the whole run *)
  Lemma prun_cont : forall stack dst,
    prun md m data h stack dst = cont (fuel_for data) start (init_st stack dst).
  Proof. intros stack dst. reflexivity. Qed.

  Lemma At_init : forall stack dst, At (init_st stack dst) data.
  Proof. intros. split; [cbn; pose proof (len_nonneg data); fold pe; lia|reflexivity]. Qed.

  Lemma Ends_prun : forall stack dst (P : outcome -> Prop),
    Ends start (init_st stack dst) P -> P (prun md m data h stack dst).
  Proof.
    intros stack dst P E. rewrite prun_cont. apply E. unfold rem, fuel_for, pe, len. cbn [s_p init_st]. lia.
  Qed.

  (** a final state stops silently, at the end of the input or at the next byte *)
  Lemma done_ends : forall c s l, At s l -> Ends (c, PDone) s (fun o => o = ODone (s_p s) (s_err s) s).
  Proof.
    intros c s l H. destruct l as [|b r].
    - intros f _. rewrite (cont_eof f _ s H). reflexivity.
    - eapply Ends_step; [exact H|]. intros f _. reflexivity.
  Qed.

  (** ** value tokens in a context: the instance of [Tok] for [PTok] positions *)
  Lemma ptok_go : forall c t b, tok_complete t = false -> end_units c t = [] ->
    match tok_step t b with
    | TGo t' => strans chk (c, PTok t) b = ([], Some (c, PTok t'))
    | TEnd => strans chk (c, PTok t) b = ([], Some (c, after c))
    | TErr => strans chk (c, PTok t) b = fail c
    | TStop => True
    end.
  Proof.
    intros c t b TC EU. unfold strans.
    assert (I : in_intpart t = false) by (destruct t; try reflexivity; discriminate).
    rewrite I, !andb_false_r. cbn [andb].
    destruct (tok_step t b) eqn:TS; auto. rewrite EU. reflexivity.
  Qed.
  Lemma end_units_nil : forall c t, c <> CBool -> end_units c t = [].
  Proof. intros c t N. destruct c; try congruence; reflexivity. Qed.
  Lemma ptok_eof : forall c t, tok_complete t = false -> seof (c, PTok t) = eof_units c.
  Proof. intros c t TC. cbn. rewrite TC. reflexivity. Qed.
  Lemma lit_not_complete : forall t, is_lit t = true -> negb (tok_complete t) = true.
  Proof. destruct t; try discriminate; reflexivity. Qed.
End Run.

Ltac chain R := eapply Reach_Ends_fr; [exact R|reflexivity|].

(** * Part 3 (a): the literal machines *)

(** readNull's specification machine: white space, then "null"; the offset after it.  Otherwise
    the error is errNotNull.  (The offset reported with the error is left open.) *)
Theorem null_spec_correct : forall md data h stack dst,
  match read_lit_ref lit_null data with
  | Some p => obs (prun md null_spec data h stack dst) = ObsDone p None [] dst false
  | None => exists p, obs (prun md null_spec data h stack dst) = ObsDone p (Some ENotNull) [] dst false
  end.
Proof.
  intros md data h stack dst. set (s0 := init_st stack dst).
  set (q0 := (CNull, PStart)).
  pose proof (At_init data stack dst) as H0. fold s0 in H0.
  assert (R0 : Reach md false q0 data h q0 s0 q0 (adv s0 (ws data))).
  { apply ws_loop; auto. intros b W. cbn. rewrite W. reflexivity. }
  pose proof (At_adv data s0 data (ws data) H0 (ws_le data)) as H1.
  assert (FAIL : forall P : outcome -> Prop,
             (forall o, ErrOf CNull s0 o -> P o) -> Ends md false q0 data h q0 (adv s0 (ws data)) (ErrOf CNull (adv s0 (ws data))) ->
             P (prun md null_spec data h stack dst)).
  { intros P PI E. apply (Ends_prun md false q0 data h stack dst P). fold s0.
    eapply Reach_Ends; [exact R0|]. eapply Ends_weaken; [|exact E]. intros o EO. apply PI. exact EO. }
  assert (ERR : forall o, ErrOf CNull s0 o -> exists p, obs o = ObsDone p (Some ENotNull) [] dst false).
  { intros o (p & e & s' & -> & I & A & B & C). exists p. cbn. rewrite A, B, C. cbn.
    destruct I as [<-|[]]. reflexivity. }
  unfold read_lit_ref, lit_ref.
  destruct (skipn (ws data) data) as [|b r] eqn:L.
  - cbn. apply (FAIL _ ERR). apply fail_eof; auto.
  - pose proof (ws_next _ _ _ L) as NW.
    rewrite is_prefix_z. change (map bz lit_null) with (110 :: lit_rest T_n). cbn [zprefix].
    destruct (bz b =? 110) eqn:B; cbn [andb].
    + assert (R1 : Reach md false q0 data h q0 (adv s0 (ws data)) (CNull, PTok T_n) (adv (adv s0 (ws data)) 1)).
      { eapply Reach_silent; eauto. cbn. rewrite NW. unfold is. rewrite B. reflexivity. }
      pose proof (At_adv1 _ _ _ _ H1) as H2.
      pose proof (lit_ok md false q0 data h CNull (fun t => (CNull, PTok t)) (CNull, PDone) (fun t => negb (tok_complete t))) as LO.
      specialize (LO (fun t b D => ptok_go false CNull t b (proj1 (negb_true_iff _) D) eq_refl)
                     (fun t D => ptok_eof CNull t (proj1 (negb_true_iff _) D)) lit_not_complete T_n eq_refl _ r H2).
      destruct (zprefix (lit_rest T_n) r) eqn:ZP.
      * cbn [option_map]. apply zprefix_len in ZP. rewrite !adv_adv in LO.
        assert (E : Ends md false q0 data h q0 s0 (fun o => obs o = ObsDone (Z.of_nat (ws data + 4)) None [] dst false)).
        { eapply Reach_Ends; [exact R0|]. eapply Reach_Ends; [exact R1|]. rewrite adv_adv. eapply Reach_Ends; [exact LO|].
          assert (H3 : At data (adv s0 (ws data + 1 + length (lit_rest T_n))) (skipn 3 r)).
          { apply (At_adv data _ r 3) in H2; [|exact ZP]. rewrite !adv_adv in H2.
            replace (ws data + 1 + length (lit_rest T_n))%nat with (ws data + (1 + 3))%nat by (cbn; lia). exact H2. }
          eapply Ends_weaken; [|eapply done_ends; exact H3]. intros o ->. cbn. f_equal. lia. }
        apply (Ends_prun md false q0 data h stack dst _ E).
      * cbn [option_map]. apply (FAIL _ ERR). chain R1. exact LO.
    + cbn [option_map]. apply (FAIL _ ERR). eapply fail_step; eauto.
      cbn. rewrite NW. unfold is. rewrite B. reflexivity.
Qed.

(** readBool's specification machine: white space, then "true" or "false"; the value and the
    offset after it.  Otherwise the error is errNotBool. *)
Theorem bool_spec_correct : forall md data h stack dst,
  match read_bool_ref data with
  | Some (v, p) => obs (prun md bool_spec data h stack dst) = ObsDone p None [] dst v
  | None => exists p, obs (prun md bool_spec data h stack dst) = ObsDone p (Some ENotBool) [] dst false
  end.
Proof.
  intros md data h stack dst. set (s0 := init_st stack dst).
  set (q0 := (CBool, PStart)).
  pose proof (At_init data stack dst) as H0. fold s0 in H0.
  assert (R0 : Reach md false q0 data h q0 s0 q0 (adv s0 (ws data))).
  { apply ws_loop; auto. intros b W. cbn. rewrite W. reflexivity. }
  pose proof (At_adv data s0 data (ws data) H0 (ws_le data)) as H1.
  assert (FAIL : forall P : outcome -> Prop,
             (forall o, ErrOf CBool s0 o -> P o) -> Ends md false q0 data h q0 (adv s0 (ws data)) (ErrOf CBool (adv s0 (ws data))) ->
             P (prun md bool_spec data h stack dst)).
  { intros P PI E. apply (Ends_prun md false q0 data h stack dst P). fold s0.
    eapply Reach_Ends; [exact R0|]. eapply Ends_weaken; [|exact E]. intros o EO. apply PI. exact EO. }
  assert (ERR : forall o, ErrOf CBool s0 o -> exists p, obs o = ObsDone p (Some ENotBool) [] dst false).
  { intros o (p & e & s' & -> & I & A & B & C). exists p. cbn. rewrite A, B, C. cbn.
    destruct I as [<-|[]]. reflexivity. }
  (* the letters of one word: from the state after the first letter *)
  set (dom := fun t => negb (tok_complete t) && match t with T_tru | T_fals => false | _ => true end).
  assert (GO : forall t t' s b r, dom t = true -> At data s (b :: r) -> tok_step t b = TGo t' ->
               Reach md false q0 data h (CBool, PTok t) s (CBool, PTok t') (adv s 1)).
  { intros t t' s b r D. apply (tok_go md false q0 data h CBool (fun t => (CBool, PTok t)) (CBool, PDone) dom); auto.
    intros t1 b1 D1. unfold dom in D1. apply andb_true_iff in D1. destruct D1 as [D1 D2]. apply negb_true_iff in D1.
    apply ptok_go; auto. destruct t1; try reflexivity; discriminate. }
  assert (BAD : forall t s b r, At data s (b :: r) -> tok_complete t = false -> tok_step t b = TErr ->
                Ends md false q0 data h (CBool, PTok t) s (ErrOf CBool s)).
  { intros t s b r H TC TS. eapply fail_step; eauto. unfold strans.
    assert (I : in_intpart t = false) by (destruct t; try reflexivity; discriminate).
    rewrite I, !andb_false_r. cbn [andb scans]. rewrite TS. reflexivity. }
  assert (EOF : forall t s, At data s [] -> tok_complete t = false ->
                Ends md false q0 data h (CBool, PTok t) s (ErrOf CBool s)).
  { intros t s H TC. apply fail_eof; auto. apply ptok_eof; auto. }
  assert (LAST : forall t v s b r, At data s (b :: r) -> (t = T_tru /\ v = true) \/ (t = T_fals /\ v = false) ->
                 bz b = 101 -> Reach md false q0 data h (CBool, PTok t) s (CBool, PDone) (adv (set_val s v) 1)).
  { intros t v s b r H TV B. eapply Reach_units; eauto.
    - destruct TV as [[-> ->]|[-> ->]]; cbn; unfold is; rewrite B; reflexivity.
    - reflexivity.
    - cbn. lia. }
  assert (DONE : forall s l v n, At data s l -> s_err s = None -> s_calls s = [] -> s_dst s = dst -> s_val s = v ->
                 s_p s = Z.of_nat n ->
                 Ends md false q0 data h (CBool, PDone) s (fun o => obs o = ObsDone (Z.of_nat n) None [] dst v)).
  { intros s l v n H E1 E2 E3 E4 E5. eapply Ends_weaken; [|eapply done_ends; exact H].
    intros o ->. cbn. congruence. }
  unfold read_bool_ref, read_lit_ref, lit_ref. rewrite !is_prefix_z.
  change (map bz lit_true) with (116 :: lit_rest T_t). change (map bz lit_false) with (102 :: lit_rest T_f).
  destruct (skipn (ws data) data) as [|b l1] eqn:L.
  - cbn. apply (FAIL _ ERR). apply fail_eof; auto.
  - pose proof (ws_next _ _ _ L) as NW. cbn [zprefix lit_rest].
    pose proof (At_adv1 _ _ _ _ H1) as H2. rewrite adv_adv in H2.
    destruct (bz b =? 116) eqn:B1; cbn [andb].
    + (* true *)
      assert (B2 : (bz b =? 102) = false) by (apply Z.eqb_eq in B1; rewrite B1; reflexivity).
      rewrite B2. cbn [andb option_map].
      assert (R1 : Reach md false q0 data h q0 (adv s0 (ws data)) (CBool, PTok T_t) (adv s0 (ws data + 1))).
      { rewrite <- adv_adv. eapply Reach_silent; eauto. cbn. rewrite NW. unfold is. rewrite B1. reflexivity. }
      destruct l1 as [|c1 l2]; [cbn; apply (FAIL _ ERR); chain R1; apply EOF; auto|].
      destruct (bz c1 =? 114) eqn:C1; cbn [andb option_map];
        [|apply (FAIL _ ERR); chain R1; eapply BAD; eauto; cbn; unfold is; rewrite C1; reflexivity].
      assert (R2 := GO T_t T_tr _ c1 l2 eq_refl H2 ltac:(cbn; unfold is; rewrite C1; reflexivity)).
      pose proof (At_adv1 _ _ _ _ H2) as H3. rewrite adv_adv in H3, R2.
      destruct l2 as [|c2 l3]; [cbn; apply (FAIL _ ERR); chain R1; chain R2; apply EOF; auto|].
      destruct (bz c2 =? 117) eqn:C2; cbn [andb option_map];
        [|apply (FAIL _ ERR); chain R1; chain R2; eapply BAD; eauto; cbn; unfold is; rewrite C2; reflexivity].
      assert (R3 := GO T_tr T_tru _ c2 l3 eq_refl H3 ltac:(cbn; unfold is; rewrite C2; reflexivity)).
      pose proof (At_adv1 _ _ _ _ H3) as H4. rewrite adv_adv in H4, R3.
      destruct l3 as [|c3 l4]; [cbn; apply (FAIL _ ERR); chain R1; chain R2; chain R3; apply EOF; auto|].
      destruct (bz c3 =? 101) eqn:C3; cbn [andb option_map];
        [|apply (FAIL _ ERR); chain R1; chain R2; chain R3; eapply BAD; eauto; cbn; unfold is; rewrite C3; reflexivity].
      apply Z.eqb_eq in C3.
      assert (R4 := LAST T_tru true _ c3 l4 H4 (or_introl (conj eq_refl eq_refl)) C3).
      match goal with |- obs _ = ?R => apply (Ends_prun md false q0 data h stack dst (fun o => obs o = R)) end. fold s0.
      eapply Reach_Ends; [exact R0|]. eapply Reach_Ends; [exact R1|]. eapply Reach_Ends; [exact R2|].
      eapply Reach_Ends; [exact R3|]. eapply Reach_Ends; [exact R4|].
      eapply (DONE _ l4); try reflexivity.
      * pose proof (At_adv1 _ _ _ _ H4) as H5. exact H5.
      * cbn. lia.
    + destruct (bz b =? 102) eqn:B2; cbn [andb option_map].
      * (* false *)
        assert (R1 : Reach md false q0 data h q0 (adv s0 (ws data)) (CBool, PTok T_f) (adv s0 (ws data + 1))).
        { rewrite <- adv_adv. eapply Reach_silent; eauto. cbn. rewrite NW. unfold is. rewrite B1, B2. reflexivity. }
        destruct l1 as [|c1 l2]; [cbn; apply (FAIL _ ERR); chain R1; apply EOF; auto|].
        destruct (bz c1 =? 97) eqn:C1; cbn [andb option_map];
          [|apply (FAIL _ ERR); chain R1; eapply BAD; eauto; cbn; unfold is; rewrite C1; reflexivity].
        assert (R2 := GO T_f T_fa _ c1 l2 eq_refl H2 ltac:(cbn; unfold is; rewrite C1; reflexivity)).
        pose proof (At_adv1 _ _ _ _ H2) as H3. rewrite adv_adv in H3, R2.
        destruct l2 as [|c2 l3]; [cbn; apply (FAIL _ ERR); chain R1; chain R2; apply EOF; auto|].
        destruct (bz c2 =? 108) eqn:C2; cbn [andb option_map];
          [|apply (FAIL _ ERR); chain R1; chain R2; eapply BAD; eauto; cbn; unfold is; rewrite C2; reflexivity].
        assert (R3 := GO T_fa T_fal _ c2 l3 eq_refl H3 ltac:(cbn; unfold is; rewrite C2; reflexivity)).
        pose proof (At_adv1 _ _ _ _ H3) as H4. rewrite adv_adv in H4, R3.
        destruct l3 as [|c3 l4]; [cbn; apply (FAIL _ ERR); chain R1; chain R2; chain R3; apply EOF; auto|].
        destruct (bz c3 =? 115) eqn:C3; cbn [andb option_map];
          [|apply (FAIL _ ERR); chain R1; chain R2; chain R3; eapply BAD; eauto; cbn; unfold is; rewrite C3; reflexivity].
        assert (R4 := GO T_fal T_fals _ c3 l4 eq_refl H4 ltac:(cbn; unfold is; rewrite C3; reflexivity)).
        pose proof (At_adv1 _ _ _ _ H4) as H5. rewrite adv_adv in H5, R4.
        destruct l4 as [|c4 l5]; [cbn; apply (FAIL _ ERR); chain R1; chain R2; chain R3; chain R4; apply EOF; auto|].
        destruct (bz c4 =? 101) eqn:C4; cbn [andb option_map];
          [|apply (FAIL _ ERR); chain R1; chain R2; chain R3; chain R4; eapply BAD; eauto; cbn; unfold is; rewrite C4; reflexivity].
        apply Z.eqb_eq in C4.
        assert (R5 := LAST T_fals false _ c4 l5 H5 (or_intror (conj eq_refl eq_refl)) C4).
        match goal with |- obs _ = ?R => apply (Ends_prun md false q0 data h stack dst (fun o => obs o = R)) end. fold s0.
        eapply Reach_Ends; [exact R0|]. eapply Reach_Ends; [exact R1|]. eapply Reach_Ends; [exact R2|].
        eapply Reach_Ends; [exact R3|]. eapply Reach_Ends; [exact R4|]. eapply Reach_Ends; [exact R5|].
        eapply (DONE _ l5); try reflexivity.
        -- pose proof (At_adv1 _ _ _ _ H5) as H6. exact H6.
        -- cbn. lia.
      * apply (FAIL _ ERR). eapply fail_step; eauto.
        cbn. rewrite NW. unfold is. rewrite B1, B2. reflexivity.
Qed.

Example null_spec_ex :
  obs (prun 10000 null_spec [x20; x6e; x75; x6c; x6c; x2c] no_handler [] []) = ObsDone 5 None [] [] false /\
  read_lit_ref lit_null [x20; x6e; x75; x6c; x6c; x2c] = Some 5.
Proof. vm_compute. auto. Qed.
Example bool_spec_ex :
  obs (prun 10000 bool_spec [x66; x61; x6c; x73; x65] no_handler [] []) = ObsDone 5 None [] [] false /\
  read_bool_ref [x66; x61; x6c; x73; x65] = Some (false, 5) /\
  obs (prun 10000 bool_spec [x74; x72; x75; x65; x20] no_handler [] []) = ObsDone 4 None [] [] true /\
  read_bool_ref [x74; x72; x75; x78] = None /\
  obs (prun 10000 bool_spec [x74; x72; x75; x78] no_handler [] []) = ObsDone 3 (Some ENotBool) [] [] false.
Proof. vm_compute. auto 10. Qed.
Print Assumptions null_spec_correct.
Print Assumptions bool_spec_correct.

(** * Part 3 (b): skipValue's specification machine against [skip_ref] *)

(** ** the hand-written number scanners against the Ref number grammar *)
Definition tail_ref (l : list byte) : option nat :=
  match frac_part l with
  | None => None
  | Some f => match exp_part (skipn f l) with None => None | Some e => Some (f + e)%nat end
  end.

Lemma unsigned_tail : forall l,
  unsigned_tok l = match int_part l with
                   | None => None
                   | Some i => option_map (fun k => (i + k)%nat) (tail_ref (skipn i l))
                   end.
Proof.
  intros l. unfold unsigned_tok, tail_ref. destruct (int_part l) as [i|]; [|reflexivity].
  destruct (frac_part (skipn i l)) as [f|]; [|reflexivity].
  rewrite skipn_skipn. rewrite (Nat.add_comm f i).
  destruct (exp_part (skipn (i + f) l)); cbn; [f_equal; lia|reflexivity].
Qed.

Lemma digits_le : forall l, (digits l <= length l)%nat.
Proof. intros. apply count_while_le. Qed.

Section Scan.
  Variable data : list byte.

  Lemma scanExp_ref : forall p c r, AtP data p (c :: r) -> is_exp c = true ->
    match exp_part (c :: r) with
    | Some k => skipFloatExp data (p + 1) = (p + Z.of_nat k - 1, None)
    | None => exists x, skipFloatExp data (p + 1) = (x, Some EInvalidNumber)
    end.
  Proof.
    intros p c r H E. destruct (AtP_cons data _ _ _ H) as (_ & _ & [R SK]).
    unfold exp_part. rewrite E. unfold skipFloatExp. rewrite SK.
    destruct r as [|s r1]; [eexists; reflexivity|].
    assert (P : (p + 1 <? 0) = false) by (apply Z.ltb_ge; lia). rewrite P.
    destruct (is_sign s).
    - unfold digits. destruct (count_while is_digit r1) as [|n] eqn:C; cbn [Nat.eqb].
      + eexists. reflexivity.
      + cbn [Z.eqb Z.of_nat]. f_equal. lia.
    - unfold digits. destruct (count_while is_digit (s :: r1)) as [|n] eqn:C; cbn [Nat.eqb].
      + eexists. reflexivity.
      + cbn [Z.eqb Z.of_nat]. f_equal. lia.
  Qed.

  Lemma scanDec_ref : forall p c r, AtP data p (c :: r) -> isb 46 c = true ->
    match tail_ref (c :: r) with
    | Some k => skipFloatDec data (p + 1) = (p + Z.of_nat k - 1, None)
    | None => exists x, skipFloatDec data (p + 1) = (x, Some EInvalidNumber)
    end.
  Proof.
    intros p c r H E. destruct (AtP_cons data _ _ _ H) as (_ & _ & [R SK]).
    unfold tail_ref, frac_part. rewrite E. unfold skipFloatDec. rewrite SK.
    destruct r as [|d r1]; [cbn; eexists; reflexivity|].
    assert (P : (p + 1 <? 0) = false) by (apply Z.ltb_ge; lia). rewrite P.
    unfold digits. cbn [count_while]. destruct (is_digit d) eqn:D; cbn [negb Nat.eqb]; [|eexists; reflexivity].
    set (n := count_while is_digit r1).
    assert (A2 : AtP data (p + Z.of_nat (S (S n))) (skipn n r1)).
    { apply (AtP_skipn data (S (S n)) p (c :: d :: r1) H). cbn. pose proof (count_while_le is_digit r1). fold n in H0. lia. }
    cbn [skipn].
    destruct (skipn n r1) as [|c2 r2] eqn:K.
    - cbn. f_equal. lia.
    - destruct (is_exp c2) eqn:X.
      + pose proof (scanExp_ref _ _ _ A2 X) as SE.
        replace (p + 1 + 1 + Z.of_nat n + 1) with (p + Z.of_nat (S (S n)) + 1) by lia.
        destruct (exp_part (c2 :: r2)) as [k|].
        * rewrite SE. f_equal. lia.
        * exact SE.
      + unfold exp_part. rewrite X. f_equal. lia.
  Qed.
End Scan.

Lemma digit_split : forall b, is_digit b = (bz b =? 48) || r_is_digit19 b.
Proof.
  intro b. apply Bool.eqb_prop.
  exact (forall_bytes (fun b => Bool.eqb (is_digit b) ((bz b =? 48) || r_is_digit19 b)) ltac:(vm_compute; reflexivity) b).
Qed.
Lemma digit_not_dot_exp : forall b, is_digit b = true -> (bz b =? 46) = false /\ is_exp b = false.
Proof.
  intro b.
  pose proof (forall_bytes (fun b => negb (is_digit b) || (negb (bz b =? 46) && negb (is_exp b))) ltac:(vm_compute; reflexivity) b) as H.
  intros D. cbn beta in H. rewrite D in H. cbn [negb orb] in H. apply andb_true_iff in H. destruct H as [H1 H2].
  apply negb_true_iff in H1, H2. auto.
Qed.
Lemma dot_not_exp : forall b, (bz b =? 46) = true -> is_exp b = false.
Proof. intros b H. apply Z.eqb_eq in H. unfold is_exp. rewrite H. reflexivity. Qed.

Lemma set_p_err_None : forall s a b, s_err s = None -> set_p (set_err (set_p s a) None) b = set_p s b.
Proof. intros s a b E. destruct s as [p e t c l j pp fs fe sg d ub ok v cl]. cbn in *. subst. reflexivity. Qed.

(** ** the strict contexts (top-level value, array body, object body) of the skip machines *)
Section Skip.
  Variable md : Z.
  Variable chk : bool.
  Variable start : sstate.
  Variable data : list byte.
  Variable h : handler.
  Hypothesis md_nonneg : 0 <= md.

  Notation ReachS := (Reach md chk start data h).
  Notation EndsS := (Ends md chk start data h).
  Notation AtS := (At data).
  Notation contS := (cont md chk start data h).

  Lemma ErrAny_frame : forall s s' o, frame s' = frame s -> ErrAny s' o -> ErrAny s o.
  Proof.
    intros s s' o F (p & e & s1 & E & A & B & C). unfold frame in F. inversion F as [[F1 F2 F3]].
    exists p, e, s1. repeat split; auto; congruence.
  Qed.
  Lemma Reach_Ends_any : forall q s q' s', ReachS q s q' s' -> frame s' = frame s ->
    EndsS q' s' (ErrAny s') -> EndsS q s (ErrAny s).
  Proof.
    intros q s q' s' R F E. eapply Reach_Ends; [exact R|]. eapply Ends_weaken; [|exact E].
    intros o. apply ErrAny_frame; auto.
  Qed.
  Lemma Ends_Of_Any : forall c q s, EndsS q s (ErrOf c s) -> EndsS q s (ErrAny s).
  Proof. intros c q s E. eapply Ends_weaken; [|exact E]. intros o. apply ErrOf_Any. Qed.

  Ltac chainA R := eapply Reach_Ends_any; [exact R|reflexivity|].

  Definition strict (c : ctx) : Prop := c = CTop \/ c = CArr \/ c = CObj.

  Lemma strict_scans : forall c, strict c -> scans c = true.
  Proof. intros c [->|[->| ->]]; reflexivity. Qed.
  Lemma strict_end_units : forall c t, strict c -> end_units c t = [].
  Proof. intros c t [->|[->| ->]]; reflexivity. Qed.

  (** *** a complete number token hands the next byte to the after-value position *)
  Lemma after_struct : forall c b, strict c -> strans chk (c, after c) b = struct_step chk c (after c) b.
  Proof. intros c b [->|[->| ->]]; reflexivity. Qed.
  Lemma seof_complete : forall c t, strict c -> tok_complete t = true -> seof (c, PTok t) = seof (c, after c).
  Proof. intros c t [->|[->| ->]] T; cbn; rewrite T; reflexivity. Qed.

  Lemma stop_same : forall c t s l, strict c -> in_intpart t = true -> AtS s l ->
    match l with
    | [] => True
    | b :: _ => tok_step t b = TStop /\ (bz b =? 46) = false /\ is_exp b = false
    end ->
    ReachS (c, PTok t) s (c, after c) s.
  Proof.
    intros c t s l SC IT H C f F. exists f. split; auto.
    assert (TC : tok_complete t = true) by (destruct t; try discriminate; reflexivity).
    destruct l as [|b r].
    - rewrite !(cont_eof md chk start data h f _ s H). rewrite (seof_complete c t SC TC). reflexivity.
    - destruct C as (TS & D & X). destruct f as [|f].
      + rewrite (rem_cons data _ _ _ H) in F. lia.
      + rewrite !(cont_S md chk start data h f _ s b r H).
        rewrite (after_struct c b SC). unfold strans. unfold is, ch_dot. rewrite D, X, !andb_false_r. cbn [andb].
        rewrite TS. reflexivity.
  Qed.

  (** *** the tail of a number after its integer part: scanners *)
  Lemma int_tail : forall c t s l, strict c -> in_intpart t = true -> AtS s l -> s_err s = None ->
    (t = TInt -> match l with b :: _ => is_digit b = false | [] => True end) ->
    match tail_ref l with
    | Some k => ReachS (c, PTok t) s (c, after c) (adv s k) /\ (k <= length l)%nat
    | None => EndsS (c, PTok t) s (ErrAny s)
    end.
  Proof.
    intros c t s l SC IT H E ND.
    destruct l as [|b r].
    - cbn. rewrite adv_0. split; [|lia]. eapply stop_same; [exact SC|exact IT|exact H|exact I].
    - destruct (bz b =? 46) eqn:D.
      + (* '.' *)
        pose proof (scanDec_ref data _ _ _ H D) as SD.
        assert (T : strans chk (c, PTok t) b = ([UScanDec; UBreakIfErr 0], Some (c, after c))).
        { unfold strans. rewrite (strict_scans c SC), IT. unfold is, ch_dot. rewrite D. reflexivity. }
        destruct (tail_ref (b :: r)) as [k|] eqn:TR.
        * assert (K : (2 <= k <= length (b :: r))%nat).
          { unfold tail_ref, frac_part in TR. change (isb 46 b) with (bz b =? 46) in TR. rewrite D in TR.
            destruct (Nat.eqb (digits r) 0) eqn:Z; [discriminate|]. apply Nat.eqb_neq in Z.
            destruct (exp_part (skipn (S (digits r)) (b :: r))) as [e|] eqn:EP; [|discriminate]. inversion TR; subst k.
            split; [lia|].
            (* bound: the exponent part fits in what is left *)
            assert (EL : forall l0 e0, exp_part l0 = Some e0 -> (e0 <= length l0)%nat).
            { intros l0 e0 X. unfold exp_part in X. destruct l0 as [|c0 r0]; [inversion X; cbn; lia|].
              destruct (is_exp c0); [|inversion X; lia].
              destruct r0 as [|s0 r1]; [discriminate|].
              destruct (is_sign s0).
              - destruct (Nat.eqb (digits r1) 0); [discriminate|]. inversion X. pose proof (digits_le r1). cbn. lia.
              - destruct (Nat.eqb (digits (s0 :: r1)) 0); [discriminate|]. inversion X. pose proof (digits_le (s0 :: r1)). cbn in *. lia. }
            apply EL in EP. rewrite skipn_length in EP. pose proof (digits_le r). cbn [length] in *. lia. }
          split; [|lia].
          replace (adv s k) with (adv (set_err (set_p s (s_p s + Z.of_nat k - 1)) None) 1).
          2:{ unfold adv. cbn [s_p set_p set_err]. rewrite set_p_err_None by exact E. f_equal. lia. }
          eapply Reach_units; [exact H|exact T| |cbn; lia].
          cbn [exec_units exec_unit]. rewrite SD. cbn. reflexivity.
        * destruct SD as [x SD]. eapply Ends_step; [exact H|]. intros f _. rewrite T. cbn [fst snd exec_units exec_unit].
          rewrite SD. cbn. do 3 eexists. split; [reflexivity|]. cbn. auto.
      + destruct (is_exp b) eqn:X.
        * (* exponent *)
          pose proof (scanExp_ref data _ _ _ H X) as SE.
          assert (T : strans chk (c, PTok t) b = ([UScanExp; UBreakIfErr 0], Some (c, after c))).
          { unfold strans. rewrite (strict_scans c SC), IT. unfold is, ch_dot. rewrite D, X. reflexivity. }
          assert (TR : tail_ref (b :: r) = exp_part (b :: r)).
          { unfold tail_ref, frac_part. change (isb 46 b) with (bz b =? 46). rewrite D. cbn [skipn].
            destruct (exp_part (b :: r)); reflexivity. }
          rewrite TR. destruct (exp_part (b :: r)) as [k|] eqn:EP.
          -- assert (K : (1 <= k <= length (b :: r))%nat).
             { unfold exp_part in EP. rewrite X in EP. destruct r as [|s0 r1]; [discriminate|].
               destruct (is_sign s0).
               - destruct (Nat.eqb (digits r1) 0); [discriminate|]. inversion EP. pose proof (digits_le r1). cbn. lia.
               - destruct (Nat.eqb (digits (s0 :: r1)) 0); [discriminate|]. inversion EP. pose proof (digits_le (s0 :: r1)). cbn in *. lia. }
             split; [|lia].
             replace (adv s k) with (adv (set_err (set_p s (s_p s + Z.of_nat k - 1)) None) 1).
             2:{ unfold adv. cbn [s_p set_p set_err]. rewrite set_p_err_None by exact E. f_equal. lia. }
             eapply Reach_units; [exact H|exact T| |cbn; lia].
             cbn [exec_units exec_unit]. rewrite SE. cbn. reflexivity.
          -- destruct SE as [x SE]. eapply Ends_step; [exact H|]. intros f _. rewrite T. cbn [fst snd exec_units exec_unit].
             rewrite SE. cbn. do 3 eexists. split; [reflexivity|]. cbn. auto.
        * (* the number ends here *)
          assert (TR : tail_ref (b :: r) = Some 0%nat).
          { unfold tail_ref, frac_part. change (isb 46 b) with (bz b =? 46). rewrite D. cbn [skipn].
            unfold exp_part. rewrite X. reflexivity. }
          rewrite TR. rewrite adv_0. split; [|lia]. eapply stop_same; [exact SC|exact IT|exact H|]. cbn beta iota.
          split; [|auto]. destruct t; try discriminate; cbn.
          -- unfold is, ch_dot. rewrite D, X. reflexivity.
          -- rewrite (ND eq_refl). unfold is, ch_dot. rewrite D, X. reflexivity.
  Qed.

  (** *** scalar tokens in a strict context *)
  Definition pdom (t : tok) : bool := negb (tok_complete t).
  Lemma pdom_go : forall c, strict c -> forall t b, pdom t = true ->
    match tok_step t b with
    | TGo t' => strans chk (c, PTok t) b = ([], Some (c, PTok t'))
    | TEnd => strans chk (c, PTok t) b = ([], Some (c, after c))
    | TErr => strans chk (c, PTok t) b = fail c
    | TStop => True
    end.
  Proof. intros c SC t b D. apply ptok_go; [apply negb_true_iff; exact D|apply strict_end_units; exact SC]. Qed.
  Lemma pdom_eof : forall c t, pdom t = true -> seof (c, PTok t) = eof_units c.
  Proof. intros c t D. apply ptok_eof. apply negb_true_iff. exact D. Qed.

  Lemma str_value : forall c s r, strict c -> AtS s r ->
    match string_body r with
    | Some k => ReachS (c, PTok TStr) s (c, after c) (adv s k) /\ (k <= length r)%nat
    | None => EndsS (c, PTok TStr) s (ErrOf c s)
    end.
  Proof.
    intros c s r SC H.
    apply (string_run md chk start data h c (fun t => (c, PTok t)) (c, after c) pdom
             (pdom_go c SC) (pdom_eof c) ltac:(repeat split; reflexivity) (length r) r s (le_n _) H).
  Qed.

  Lemma lit_value : forall c t s r, strict c -> is_lit t = true -> AtS s r ->
    if zprefix (lit_rest t) r then ReachS (c, PTok t) s (c, after c) (adv s (length (lit_rest t)))
    else EndsS (c, PTok t) s (ErrOf c s).
  Proof.
    intros c t s r SC IL H.
    apply (lit_ok md chk start data h c (fun t => (c, PTok t)) (c, after c) pdom
             (pdom_go c SC) (pdom_eof c) lit_not_complete t IL s r H).
  Qed.

  (** the digits of the integer part, then the tail *)
  Lemma int_rest : forall c s r, strict c -> AtS s r -> s_err s = None ->
    match tail_ref (skipn (digits r) r) with
    | Some k => ReachS (c, PTok TInt) s (c, after c) (adv s (digits r + k)) /\ (digits r + k <= length r)%nat
    | None => EndsS (c, PTok TInt) s (ErrAny s)
    end.
  Proof.
    intros c s r SC H E.
    assert (L : ReachS (c, PTok TInt) s (c, PTok TInt) (adv s (digits r))).
    { apply (while_loop md chk start data h is_digit); [|exact H].
      intros b D. destruct (digit_not_dot_exp b D) as [N1 N2].
      unfold strans. unfold is, ch_dot. rewrite N1, N2, !andb_false_r. cbn [andb]. cbn [tok_step]. rewrite D. reflexivity. }
    pose proof (At_adv data s r (digits r) H (digits_le r)) as H1.
    pose proof (int_tail c TInt (adv s (digits r)) _ SC eq_refl H1 E) as T.
    assert (ND : TInt = TInt -> match skipn (digits r) r with b :: _ => is_digit b = false | [] => True end).
    { intros _. destruct (skipn (digits r) r) as [|b r'] eqn:K; [exact I|]. eapply while_next. exact K. }
    specialize (T ND).
    destruct (tail_ref (skipn (digits r) r)) as [k|].
    - destruct T as [T K]. rewrite adv_adv in T. split; [eapply Reach_trans; eauto|].
      rewrite skipn_length in K. pose proof (digits_le r). lia.
    - chainA L. exact T.
  Qed.

  (** from the state after the first digit *)
  Lemma unsigned_run : forall c s d r q, strict c -> AtS s (d :: r) -> s_err s = None -> is_digit d = true ->
    (forall t, tok_first d = Some t -> strans chk q d = ([], Some (c, PTok t))) ->
    isb 34 d = false -> isb 45 d = false ->
    match unsigned_tok (d :: r) with
    | Some n => ReachS q s (c, after c) (adv s n) /\ (n <= length (d :: r))%nat
    | None => EndsS q s (ErrAny s)
    end.
  Proof.
    intros c s d r q SC H E D TF Q M.
    rewrite unsigned_tail. unfold int_part.
    pose proof (At_adv1 data _ _ _ H) as H1.
    rewrite digit_split in D. change (isb 48 d) with (bz d =? 48).
    assert (TFv : tok_first d = if bz d =? 48 then Some TZero else if r_is_digit19 d then Some TInt else tok_first d).
    { unfold tok_first. change (is ch_quote d) with (isb 34 d). change (is ch_minus d) with (isb 45 d).
      rewrite Q, M. unfold is, ch_zero. change (is_digit19 d) with (r_is_digit19 d).
      destruct (bz d =? 48); [reflexivity|]. destruct (r_is_digit19 d); reflexivity. }
    destruct (bz d =? 48) eqn:Z0.
    - (* 0 *)
      assert (R1 : ReachS q s (c, PTok TZero) (adv s 1)) by (eapply Reach_silent; [exact H|apply TF; exact TFv]).
      cbn [skipn].
      pose proof (int_tail c TZero (adv s 1) r SC eq_refl H1 E ltac:(discriminate)) as T.
      destruct (tail_ref r) as [k|]; cbn [option_map].
      + destruct T as [T K]. rewrite adv_adv in T. split; [eapply Reach_trans; eauto|cbn; lia].
      + chainA R1. exact T.
    - cbn [orb] in D. rewrite D.
      assert (R1 : ReachS q s (c, PTok TInt) (adv s 1)) by (eapply Reach_silent; [exact H|apply TF; rewrite TFv, D; reflexivity]).
      cbn [skipn].
      pose proof (int_rest c (adv s 1) r SC H1 E) as T.
      destruct (tail_ref (skipn (digits r) r)) as [k|]; cbn [option_map].
      + destruct T as [T K]. rewrite adv_adv in T. split; [|cbn; lia].
        replace (S (digits r) + k)%nat with (1 + (digits r + k))%nat by lia. eapply Reach_trans; eauto.
      + chainA R1. exact T.
  Qed.

  Lemma digit_not_quote_minus : forall b, is_digit b = true -> isb 34 b = false /\ isb 45 b = false.
  Proof.
    intro b.
    pose proof (forall_bytes (fun b => negb (is_digit b) || (negb (isb 34 b) && negb (isb 45 b))) ltac:(vm_compute; reflexivity) b) as H.
    intros D. cbn beta in H. rewrite D in H. cbn [negb orb] in H. apply andb_true_iff in H. destruct H as [H1 H2].
    apply negb_true_iff in H1, H2. auto.
  Qed.

  Lemma handler_units_strict : forall c f, strict c -> handler_units c f = [].
  Proof. intros c f [->|[->| ->]]; reflexivity. Qed.

  (** a scalar value token, from a position that starts values *)
  Lemma scalar_run : forall c q s b r, strict c -> AtS s (b :: r) -> s_err s = None ->
    strans chk q b = value_start chk c b -> isb 91 b = false -> isb 123 b = false ->
    match scalar_tok (b :: r) with
    | Some n => ReachS q s (c, after c) (adv s n) /\ (n <= length (b :: r))%nat
    | None => EndsS q s (ErrAny s)
    end.
  Proof.
    intros c q s b r SC H E VS0 NA NO.
    assert (VS : strans chk q b = match tok_first b with Some t => ([], Some (c, PTok t)) | None => fail c end).
    { rewrite VS0. unfold value_start. change (is ch_lbrack b) with (isb 91 b). change (is ch_lbrace b) with (isb 123 b).
      rewrite NA, NO. destruct (tok_first b); [rewrite (handler_units_strict c _ SC)|]; reflexivity. }
    pose proof (At_adv1 data _ _ _ H) as H1.
    unfold scalar_tok.
    assert (TFQ : isb 34 b = true -> tok_first b = Some TStr).
    { intros Q. unfold tok_first. change (is ch_quote b) with (isb 34 b). rewrite Q. reflexivity. }
    destruct (isb 34 b) eqn:Q.
    { (* string *)
      assert (R1 : ReachS q s (c, PTok TStr) (adv s 1)) by (eapply Reach_silent; [exact H|rewrite VS, (TFQ eq_refl); reflexivity]).
      unfold string_tok. rewrite Q. pose proof (str_value c _ r SC H1) as T.
      destruct (string_body r) as [k|]; cbn [option_map].
      - destruct T as [T K]. rewrite adv_adv in T. split; [eapply Reach_trans; eauto|cbn; lia].
      - apply (Ends_Of_Any c). chain R1. exact T. }
    assert (TFM : isb 45 b = true -> tok_first b = Some TNeg).
    { intros M. unfold tok_first. change (is ch_quote b) with (isb 34 b). change (is ch_minus b) with (isb 45 b).
      rewrite Q, M. reflexivity. }
    destruct (isb 45 b) eqn:M; cbn [orb].
    { (* negative number *)
      assert (R1 : ReachS q s (c, PTok TNeg) (adv s 1)) by (eapply Reach_silent; [exact H|rewrite VS, (TFM eq_refl); reflexivity]).
      unfold number_tok. rewrite M.
      destruct r as [|d r'].
      - cbn. chainA R1. apply (Ends_Of_Any c). apply fail_eof; [exact H1|reflexivity].
      - assert (TN : tok_step TNeg d = if bz d =? 48 then TGo TZero else if r_is_digit19 d then TGo TInt else TErr) by reflexivity.
        destruct (is_digit d) eqn:D.
        + destruct (digit_not_quote_minus d D) as [Q' M'].
          pose proof (unsigned_run c (adv s 1) d r' (c, PTok TNeg) SC H1 E D) as U.
          assert (TF : forall t, tok_first d = Some t -> strans chk (c, PTok TNeg) d = ([], Some (c, PTok t))).
          { intros t TFd. pose proof (pdom_go c SC TNeg d eq_refl) as G. rewrite TN in G.
            unfold tok_first in TFd. change (is ch_quote d) with (isb 34 d) in TFd. change (is ch_minus d) with (isb 45 d) in TFd.
            rewrite Q', M' in TFd. unfold is, ch_zero in TFd. change (is_digit19 d) with (r_is_digit19 d) in TFd.
            rewrite digit_split in D.
            destruct (bz d =? 48) eqn:Z0; [inversion TFd; subst; exact G|].
            cbn [orb] in D. rewrite D in TFd, G. inversion TFd; subst; exact G. }
          specialize (U TF Q' M').
          destruct (unsigned_tok (d :: r')) as [n|]; cbn [option_map].
          * destruct U as [U K]. rewrite adv_adv in U. split; [eapply Reach_trans; eauto|cbn in *; lia].
          * chainA R1. exact U.
        + assert (UN : unsigned_tok (d :: r') = None).
          { unfold unsigned_tok, int_part. rewrite digit_split in D. apply orb_false_iff in D. destruct D as [D1 D2].
            change (isb 48 d) with (bz d =? 48). rewrite D1, D2. reflexivity. }
          rewrite UN. cbn. chainA R1. apply (Ends_Of_Any c). eapply fail_step; [exact H1|].
          pose proof (pdom_go c SC TNeg d eq_refl) as G. rewrite TN in G.
          rewrite digit_split in D. apply orb_false_iff in D. destruct D as [D1 D2]. rewrite D1, D2 in G. exact G. }
    destruct (is_digit b) eqn:D.
    { (* non-negative number *)
      unfold number_tok. rewrite M.
      apply (unsigned_run c s b r q SC H E D); auto.
      intros t TFb. rewrite VS, TFb. reflexivity. }
    (* literals *)
    assert (TFL : tok_first b = if isb 116 b then Some T_t else if isb 102 b then Some T_f else if isb 110 b then Some T_n else None).
    { unfold tok_first. change (is ch_quote b) with (isb 34 b). change (is ch_minus b) with (isb 45 b). rewrite Q, M.
      rewrite digit_split in D. apply orb_false_iff in D. destruct D as [D1 D2].
      unfold is, ch_zero. change (is_digit19 b) with (r_is_digit19 b). rewrite D1, D2. reflexivity. }
    assert (LIT : forall t w x, is_lit t = true -> tok_first b = Some t -> bz b = x -> map bz w = x :: lit_rest t ->
              match lit_ref w (b :: r) with
              | Some n => ReachS q s (c, after c) (adv s n) /\ (n <= length (b :: r))%nat
              | None => EndsS q s (ErrAny s)
              end).
    { intros t w x IL TFb BX MW.
      assert (R1 : ReachS q s (c, PTok t) (adv s 1)) by (eapply Reach_silent; [exact H|rewrite VS, TFb; reflexivity]).
      unfold lit_ref. rewrite is_prefix_z, MW. cbn [zprefix]. rewrite BX, Z.eqb_refl. cbn [andb].
      pose proof (lit_value c t _ r SC IL H1) as T.
      assert (LW : length w = S (length (lit_rest t))) by (rewrite <- (map_length bz w), MW; reflexivity).
      destruct (zprefix (lit_rest t) r) eqn:ZP.
      - rewrite adv_adv in T. rewrite LW. split; [eapply Reach_trans; eauto|].
        apply zprefix_len in ZP. cbn. lia.
      - apply (Ends_Of_Any c). chain R1. exact T. }
    destruct (isb 116 b) eqn:L1.
    { apply (LIT T_t lit_true 116); auto. apply Z.eqb_eq. exact L1. }
    destruct (isb 102 b) eqn:L2.
    { apply (LIT T_f lit_false 102); auto. apply Z.eqb_eq. exact L2. }
    destruct (isb 110 b) eqn:L3.
    { apply (LIT T_n lit_null 110); auto. apply Z.eqb_eq. exact L3. }
    apply (Ends_Of_Any c). eapply fail_step; [exact H|]. rewrite VS, TFL. reflexivity.
  Qed.

  (** *** the call stack *)
  Definition Inv (s : st) (sg : list Z) : Prop :=
    s_live s = sg /\ s_top s = len sg /\ s_cap s = len sg + len (s_junk s) /\ s_err s = None /\ (chk = true -> len sg <= md).

  Lemma Inv_adv : forall s sg n, Inv s sg -> Inv (adv s n) sg.
  Proof. intros s sg n I. exact I. Qed.
  Lemma Inv_err : forall s sg, Inv s sg -> s_err s = None.
  Proof. intros s sg (_ & _ & _ & E & _). exact E. Qed.

  Lemma ret_step : forall q q1 qret s sg b r, AtS s (b :: r) -> strans chk q b = ([URet], Some q1) ->
    Inv s (enc qret :: sg) ->
    exists s', ReachS q s qret s' /\ s_p s' = s_p s + 1 /\ Inv s' sg /\ frame s' = frame s.
  Proof.
    intros q q1 qret s sg b r H T (L & TP & CP & E & MD).
    exists (adv (set_stk s (s_top s - 1) (s_cap s) sg (enc qret :: s_junk s)) 1).
    split; [|split; [reflexivity|split; [|reflexivity]]].
    - eapply Reach_goto; [exact H|exact T| |cbn; lia].
      cbn [exec_units exec_unit]. rewrite L. reflexivity.
    - unfold Inv. cbn [s_live s_top s_cap s_junk s_err s_p set_stk adv set_p]. rewrite !len_cons in *.
      repeat split; try lia; try exact E. intros C. specialize (MD C). lia.
  Qed.

  Lemma call_step : forall q q1 qret qtgt s sg b r, AtS s (b :: r) ->
    strans chk q b = ([UCall chk 0 (enc qret) (enc qtgt)], Some q1) -> Inv s sg ->
    if chk && (md <=? len sg) then EndsS q s (ErrAny s)
    else exists s', ReachS q s qtgt s' /\ s_p s' = s_p s + 1 /\ Inv s' (enc qret :: sg) /\ frame s' = frame s.
  Proof.
    intros q q1 qret qtgt s sg b r H T (L & TP & CP & E & MD).
    destruct (chk && (md <=? len sg)) eqn:LIM.
    - apply andb_true_iff in LIM. destruct LIM as [C LIM]. specialize (MD C).
      apply Z.leb_le in LIM. assert (TM : (s_top s =? md) = true) by (apply Z.eqb_eq; lia).
      eapply Ends_step; [exact H|]. intros f _. rewrite T. cbn [fst snd exec_units exec_unit]. rewrite C, TM.
      cbn. do 3 eexists. split; [reflexivity|]. cbn. auto.
    - assert (TM : chk && (s_top s =? md) = false).
      { destruct chk; [|reflexivity]. cbn [andb] in *. specialize (MD eq_refl). apply Z.leb_gt in LIM. apply Z.eqb_neq. lia. }
      assert (MD' : chk = true -> 1 + len sg <= md).
      { intros C. rewrite C in LIM. cbn [andb] in LIM. specialize (MD C). apply Z.leb_gt in LIM. lia. }
      pose proof (len_nonneg (s_junk s)) as JN.
      destruct (s_top s + 1 >=? s_cap s) eqn:G.
      + (* the stack slice is full: it is grown by one *)
        assert (G' : s_top s + 1 >= s_cap s) by (apply Z.geb_le in G; lia).
        assert (N0 : (1 + s_top s - s_cap s <? 0) = false) by (apply Z.ltb_ge; lia).
        assert (J1 : exists x, s_junk s ++ zrepeat (Z.to_nat (1 + s_top s - s_cap s)) = [x]).
        { destruct (s_junk s) as [|x [|y j]] eqn:J.
          - change (len (@nil Z)) with 0 in CP.
            replace (1 + s_top s - s_cap s) with 1 by lia. exists 0. reflexivity.
          - change (len [x]) with 1 in CP.
            replace (1 + s_top s - s_cap s) with 0 by lia. exists x. reflexivity.
          - rewrite !len_cons in CP. pose proof (len_nonneg j). lia. }
        destruct J1 as [x J1].
        exists (adv (set_stk s (s_top s + 1) (s_cap s + (1 + s_top s - s_cap s)) (enc qret :: s_live s) []) 1).
        split; [|split; [reflexivity|split; [|reflexivity]]].
        * eapply Reach_goto; [exact H|exact T| |cbn; lia].
          cbn [exec_units exec_unit]. rewrite TM, G, N0, J1. reflexivity.
        * unfold Inv. cbn [s_live s_top s_cap s_junk s_err s_p set_stk adv set_p]. rewrite !len_cons. rewrite L.
          change (len (@nil Z)) with 0. repeat split; try lia; try exact E. exact MD'.
      + assert (G' : s_top s + 1 < s_cap s) by (rewrite Z.geb_leb in G; apply Z.leb_gt in G; lia).
        destruct (s_junk s) as [|x j] eqn:J; [change (len (@nil Z)) with 0 in CP; lia|].
        exists (adv (set_stk s (s_top s + 1) (s_cap s) (enc qret :: s_live s) j) 1).
        split; [|split; [reflexivity|split; [|reflexivity]]].
        * eapply Reach_goto; [exact H|exact T| |cbn; lia].
          cbn [exec_units exec_unit]. rewrite TM, G, J. reflexivity.
        * unfold Inv. cbn [s_live s_top s_cap s_junk s_err s_p set_stk adv set_p]. rewrite !len_cons in *. rewrite L.
          repeat split; try lia; try exact E. exact MD'.
  Qed.

  (** *** what a piece of grammar does: [Good q s l sg r q']: from state [q] at input [l] with call
      stack [sg], if the reference result is [Some n] the run reaches [q'] exactly [n] bytes
      further with the same stack, and if it is [None] the run ends with an error *)
  Definition Good (q : sstate) (s : st) (l : list byte) (sg : list Z) (r : option nat) (q' : sstate) : Prop :=
    match r with
    | Some n => (n <= length l)%nat /\
                exists s', ReachS q s q' s' /\ s_p s' = s_p s + Z.of_nat n /\ Inv s' sg /\ frame s' = frame s
    | None => EndsS q s (ErrAny s)
    end.

  Lemma At_move : forall s s' l n, AtS s l -> s_p s' = s_p s + Z.of_nat n -> (n <= length l)%nat -> AtS s' (skipn n l).
  Proof. intros s s' l n H P N. unfold At. rewrite P. apply AtP_skipn; auto. Qed.

  Lemma Good_pre : forall q0 s0 l0 q s k sg r q',
    ReachS q0 s0 q s -> frame s = frame s0 -> s_p s = s_p s0 + Z.of_nat k -> (k <= length l0)%nat ->
    Good q s (skipn k l0) sg r q' -> Good q0 s0 l0 sg (option_map (fun n => (k + n)%nat) r) q'.
  Proof.
    intros q0 s0 l0 q s k sg r q' R F P K G. destruct r as [n|]; cbn [option_map Good] in *.
    - destruct G as (N & s' & R' & P' & I & F'). rewrite skipn_length in N. split; [lia|].
      exists s'. split; [eapply Reach_trans; eauto|]. split; [lia|]. split; [exact I|congruence].
    - eapply Reach_Ends_any; eauto.
  Qed.

  Lemma Good_adv : forall q s l sg n q', Inv s sg -> (n <= length l)%nat -> ReachS q s q' (adv s n) ->
    Good q s l sg (Some n) q'.
  Proof.
    intros q s l sg n q' I N R. split; [exact N|]. exists (adv s n). split; [exact R|]. split; [reflexivity|].
    split; [apply Inv_adv; exact I|reflexivity].
  Qed.

  (** *** comma-separated items up to the closing bracket, and the return to the caller *)
  Definition IStart (c : ctx) (q : sstate) (l : list byte) : Prop :=
    seof q = eof_units c /\
    forall b r, l = b :: r -> is_ws b = false /\ strans chk q b = strans chk (c, PNext) b.

  (** without the depth check ([chk = false]) the reference limit must be out of reach *)
  Definition Lim (sg : list Z) (l : list byte) : Prop := chk = false -> len sg + len l <= md.
  Lemma Lim_shorter : forall sg l l', Lim sg l -> (length l' <= length l)%nat -> Lim sg l'.
  Proof. intros sg l l' L N C. specialize (L C). unfold len in *. lia. Qed.

  Definition ItemOK (c : ctx) (item : list byte -> option nat) (sg : list Z) (bound : nat) : Prop :=
    forall q l s, (length l < bound)%nat -> AtS s l -> Inv s sg -> IStart c q l -> Lim sg l ->
                  Good q s l sg (item l) (c, PAfter).

  Definition body (c : ctx) : Prop := c = CArr \/ c = CObj.

  Lemma after_step : forall c b, body c -> is_ws b = false ->
    strans chk (c, PAfter) b =
    if isb 44 b then ([], Some (c, PNext))
    else if isb (closer c) b then ([URet], Some (c, PDone)) else fail c.
  Proof. intros c b [->| ->] W; cbn; rewrite W; reflexivity. Qed.

  Lemma ws_stay : forall c p, body c -> (p = PStart \/ p = PAfter \/ p = PNext \/ p = PColon \/ p = PVal) ->
    forall b, is_ws b = true -> strans chk (c, p) b = ([], Some (c, p)).
  Proof. intros c p [->| ->] [->|[->|[->|[->| ->]]]] b W; cbn; rewrite W; reflexivity. Qed.

  Lemma items_ok : forall c item sg qret bound, body c -> ItemOK c item (enc qret :: sg) bound ->
    forall k q l s, (length l < k)%nat -> (length l < bound)%nat -> AtS s l -> Inv s (enc qret :: sg) ->
                    IStart c q l -> Lim (enc qret :: sg) l -> Good q s l sg (items k item (closer c) l) qret.
  Proof.
    intros c item sg qret bound BC IO. induction k as [|k IH]; intros q l s LK LB H I IS LM; [lia|].
    cbn [items]. pose proof (IO q l s LB H I IS LM) as G.
    destruct (item l) as [n|]; [|exact G]. destruct G as (N & s1 & R1 & P1 & I1 & F1).
    pose proof (At_move _ _ _ _ H P1 N) as H1.
    set (l1 := skipn n l) in *. set (w := ws l1).
    pose proof (ws_loop md chk start data h (c, PAfter) (ws_stay c PAfter BC ltac:(auto)) l1 s1 H1) as R2. fold w in R2.
    pose proof (At_adv data s1 l1 w H1 (ws_le l1)) as H2.
    assert (LL : (length (skipn w l1) + w + n = length l)%nat).
    { rewrite skipn_length. unfold l1. rewrite skipn_length. pose proof (ws_le l1). fold w in H0. unfold l1 in H0.
      rewrite skipn_length in H0. lia. }
    destruct (skipn w l1) as [|c0 r1] eqn:K.
    - (* end of input after an item *)
      eapply Reach_Ends_any; [exact R1|exact F1|]. chainA R2. apply (Ends_Of_Any c). apply fail_eof; [exact H2|].
      destruct BC as [->| ->]; reflexivity.
    - pose proof (ws_next _ _ _ K) as NW. pose proof (after_step c c0 BC NW) as AS. cbn [length] in LL.
      destruct (isb 44 c0) eqn:CM.
      + (* comma: white space, next item *)
        assert (R3 : ReachS (c, PAfter) (adv s1 w) (c, PNext) (adv (adv s1 w) 1)) by (eapply Reach_silent; [exact H2|exact AS]).
        pose proof (At_adv1 data _ _ _ H2) as H3.
        set (w1 := ws r1).
        pose proof (ws_loop md chk start data h (c, PNext) (ws_stay c PNext BC ltac:(auto)) r1 _ H3) as R4. fold w1 in R4.
        pose proof (At_adv data _ r1 w1 H3 (ws_le r1)) as H4.
        assert (L4 : (length (skipn w1 r1) <= length r1)%nat) by (rewrite skipn_length; lia).
        assert (IS4 : IStart c (c, PNext) (skipn w1 r1)).
        { split; [destruct BC as [->| ->]; reflexivity|]. intros b r E. split; [|reflexivity]. eapply ws_next. exact E. }
        assert (I4 : Inv (adv (adv (adv s1 w) 1) w1) (enc qret :: sg)) by (repeat apply Inv_adv; exact I1).
        assert (LS4 : (length (skipn w1 r1) <= length l)%nat) by lia.
        pose proof (IH (c, PNext) (skipn w1 r1) _ ltac:(lia) ltac:(lia) H4 I4 IS4
                       (Lim_shorter _ l _ LM LS4)) as G.
        assert (SK : skipn (n + w + 1 + w1) l = skipn w1 r1).
        { replace (n + w + 1 + w1)%nat with (w1 + (1 + (w + n)))%nat by lia.
          rewrite <- !skipn_skipn. fold l1. rewrite K. reflexivity. }
        rewrite <- SK in G at 1.
        apply (Good_pre q s l (c, PNext) (adv (adv (adv s1 w) 1) w1) (n + w + 1 + w1) sg _ qret).
        * eapply Reach_trans; [exact R1|]. eapply Reach_trans; [exact R2|]. eapply Reach_trans; [exact R3|exact R4].
        * exact F1.
        * rewrite !s_p_adv, P1. lia.
        * pose proof (ws_le r1). fold w1 in H0. lia.
        * exact G.
      + destruct (isb (closer c) c0) eqn:CL.
        * (* closing bracket: return *)
          assert (I2 : Inv (adv s1 w) (enc qret :: sg)) by (apply Inv_adv; exact I1).
          destruct (ret_step _ _ qret _ sg _ _ H2 AS I2) as (s3 & R3 & P3 & I3 & F3).
          split; [lia|]. exists s3. split; [|split; [|split]].
          -- eapply Reach_trans; [exact R1|]. eapply Reach_trans; [exact R2|exact R3].
          -- rewrite P3, s_p_adv, P1. lia.
          -- exact I3.
          -- rewrite F3. exact F1.
        * eapply Reach_Ends_any; [exact R1|exact F1|]. chainA R2. apply (Ends_Of_Any c). eapply fail_step; [exact H2|exact AS].
  Qed.

  (** *** the inside of a container: from just after the opening bracket to the return *)
  Lemma start_step : forall c b, body c -> is_ws b = false -> isb (closer c) b = false ->
    strans chk (c, PStart) b = strans chk (c, PNext) b.
  Proof.
    intros c b [->| ->] W C; unfold isb in C; cbn in C; cbn; rewrite W; unfold is; cbn; rewrite C; reflexivity.
  Qed.
  Lemma start_close : forall c b, body c -> is_ws b = false -> isb (closer c) b = true ->
    strans chk (c, PStart) b = ([URet], Some (c, PDone)).
  Proof.
    intros c b [->| ->] W C; unfold isb in C; cbn in C; cbn; rewrite W; unfold is; cbn; rewrite C; reflexivity.
  Qed.

  Lemma container_ok : forall c item sg qret f, body c -> ItemOK c item (enc qret :: sg) f ->
    forall r s, (length r < f)%nat -> AtS s r -> Inv s (enc qret :: sg) -> Lim (enc qret :: sg) r ->
                Good (c, PStart) s r sg (container f item (closer c) r) qret.
  Proof.
    intros c item sg qret f BC IO r s LF H I LM. unfold container.
    set (w := ws r).
    pose proof (ws_loop md chk start data h (c, PStart) (ws_stay c PStart BC ltac:(auto)) r s H) as R1. fold w in R1.
    pose proof (At_adv data s r w H (ws_le r)) as H1.
    assert (LL : (length (skipn w r) + w = length r)%nat).
    { rewrite skipn_length. pose proof (ws_le r). fold w in H0. lia. }
    destruct (skipn w r) as [|c0 r1] eqn:K.
    - chainA R1. apply (Ends_Of_Any c). apply fail_eof; [exact H1|]. destruct BC as [->| ->]; reflexivity.
    - pose proof (ws_next _ _ _ K) as NW. cbn [length] in LL.
      destruct (isb (closer c) c0) eqn:CL.
      + assert (I1 : Inv (adv s w) (enc qret :: sg)) by (apply Inv_adv; exact I).
        destruct (ret_step _ _ qret _ sg _ _ H1 (start_close c c0 BC NW CL) I1) as (s3 & R3 & P3 & I3 & F3).
        split; [lia|]. exists s3. split; [|split; [|split]].
        * eapply Reach_trans; [exact R1|exact R3].
        * rewrite P3, s_p_adv. lia.
        * exact I3.
        * rewrite F3. reflexivity.
      + assert (IS : IStart c (c, PStart) (c0 :: r1)).
        { split; [destruct BC as [->| ->]; reflexivity|]. intros b r' E. inversion E; subst b r'.
          split; [exact NW|]. apply start_step; auto. }
        assert (I1 : Inv (adv s w) (enc qret :: sg)) by (apply Inv_adv; exact I).
        pose proof (items_ok c item sg qret f BC IO f (c, PStart) (c0 :: r1) (adv s w)
                             ltac:(cbn [length]; lia) ltac:(cbn [length]; lia) H1 I1 IS
                             (Lim_shorter _ r (c0 :: r1) LM ltac:(cbn [length]; lia))) as G.
        rewrite <- K in G at 1.
        apply (Good_pre (c, PStart) s r (c, PStart) (adv s w) w sg _ qret).
        * exact R1.
        * reflexivity.
        * reflexivity.
        * apply ws_le.
        * exact G.
  Qed.

  (** *** the main induction: a value in a strict context *)
  Definition ValueOK (f : nat) : Prop :=
    forall sg c q l s, (length l < f)%nat -> strict c -> AtS s l -> Inv s sg -> Lim sg l -> seof q = eof_units c ->
      (forall b r, l = b :: r -> strans chk q b = value_start chk c b) ->
      Good q s l sg (value_len md f (len sg) l) (c, after c).

  Lemma next_value : forall b, is_ws b = false -> strans chk (CArr, PNext) b = value_start chk CArr b.
  Proof. intros b W. cbn. rewrite W. reflexivity. Qed.

  Lemma array_items : forall f sg qret, ValueOK f -> ItemOK CArr (value_len md f (len sg + 1)) (enc qret :: sg) f.
  Proof.
    intros f sg qret V q l s L H I (SE & ST) LM.
    pose proof (V (enc qret :: sg) CArr q l s L ltac:(right; left; reflexivity) H I LM SE) as G.
    rewrite len_cons, Z.add_comm in G. apply G.
    intros b r E. destruct (ST b r E) as [W T]. rewrite T. apply next_value. exact W.
  Qed.

  (** object members: key, colon, value *)
  Lemma key_go : forall t b, match t with TStr | TEsc | TU4 | TU3 | TU2 | TU1 => true | _ => false end = true ->
    match tok_step t b with
    | TGo t' => strans chk (CObj, PKey t) b = ([], Some (CObj, PKey t'))
    | TEnd => strans chk (CObj, PKey t) b = ([], Some (CObj, PColon))
    | TErr => strans chk (CObj, PKey t) b = fail CObj
    | TStop => True
    end.
  Proof. intros t b D. unfold strans. destruct (tok_step t b); auto. Qed.

  Lemma object_items : forall f sg qret, ValueOK f ->
    ItemOK CObj (member (value_len md f (len sg + 1))) (enc qret :: sg) f.
  Proof.
    intros f sg qret V q l s L H I (SE & ST) LM. unfold member, string_tok.
    destruct l as [|b r].
    - apply (Ends_Of_Any CObj). apply fail_eof; [exact H|exact SE].
    - destruct (ST b r eq_refl) as [W T].
      assert (T' : strans chk q b = if isb 34 b then ([], Some (CObj, PKey TStr)) else fail CObj).
      { rewrite T. cbn. rewrite W. reflexivity. }
      destruct (isb 34 b) eqn:Q.
      2:{ apply (Ends_Of_Any CObj). eapply fail_step; [exact H|exact T']. }
      assert (R1 : ReachS q s (CObj, PKey TStr) (adv s 1)) by (eapply Reach_silent; [exact H|exact T']).
      pose proof (At_adv1 data _ _ _ H) as H1.
      pose proof (string_run md chk start data h CObj (fun t => (CObj, PKey t)) (CObj, PColon)
                    (fun t => match t with TStr | TEsc | TU4 | TU3 | TU2 | TU1 => true | _ => false end)
                    key_go (fun t _ => eq_refl) ltac:(repeat split; reflexivity) (length r) r (adv s 1) (le_n _) H1) as SR.
      destruct (string_body r) as [kb|]; cbn [option_map].
      2:{ apply (Ends_Of_Any CObj). chain R1. exact SR. }
      destruct SR as [R2 KB]. rewrite adv_adv in R2.
      change (skipn (S kb) (b :: r)) with (skipn kb r).
      pose proof (At_adv data _ r kb H1 KB) as H2. rewrite adv_adv in H2.
      set (l2 := skipn kb r) in *. set (w := ws l2).
      pose proof (ws_loop md chk start data h (CObj, PColon) (ws_stay CObj PColon ltac:(right; reflexivity) ltac:(auto 6)) l2 _ H2) as R3.
      fold w in R3. rewrite adv_adv in R3.
      pose proof (At_adv data _ l2 w H2 (ws_le l2)) as H3. rewrite adv_adv in H3.
      assert (LL : (length (skipn w l2) + w + kb = length r)%nat).
      { rewrite skipn_length. unfold l2. rewrite skipn_length. pose proof (ws_le l2). fold w in H0. unfold l2 in H0.
        rewrite skipn_length in H0. lia. }
      assert (RR : ReachS q s (CObj, PColon) (adv s (1 + kb + w))).
      { eapply Reach_trans; [exact R1|]. eapply Reach_trans; [exact R2|exact R3]. }
      destruct (skipn w l2) as [|c0 r3] eqn:K.
      { chainA RR. apply (Ends_Of_Any CObj). apply fail_eof; [exact H3|reflexivity]. }
      pose proof (ws_next _ _ _ K) as NW. cbn [length] in LL.
      assert (TC : strans chk (CObj, PColon) c0 = if isb 58 c0 then ([], Some (CObj, PVal)) else fail CObj).
      { cbn. rewrite NW. reflexivity. }
      destruct (isb 58 c0) eqn:CO.
      2:{ chainA RR. apply (Ends_Of_Any CObj). eapply fail_step; [exact H3|exact TC]. }
      assert (R4 : ReachS (CObj, PColon) (adv s (1 + kb + w)) (CObj, PVal) (adv s (1 + kb + w + 1))).
      { rewrite <- (adv_adv s (1 + kb + w) 1). eapply Reach_silent; [exact H3|exact TC]. }
      pose proof (At_adv1 data _ _ _ H3) as H4. rewrite adv_adv in H4.
      set (w1 := ws r3).
      pose proof (ws_loop md chk start data h (CObj, PVal) (ws_stay CObj PVal ltac:(right; reflexivity) ltac:(auto 6)) r3 _ H4) as R5.
      fold w1 in R5. rewrite adv_adv in R5.
      pose proof (At_adv data _ r3 w1 H4 (ws_le r3)) as H5. rewrite adv_adv in H5.
      assert (I5 : Inv (adv s (1 + kb + w + 1 + w1)) (enc qret :: sg)) by (apply Inv_adv; exact I).
      assert (L5 : (length (skipn w1 r3) < f)%nat) by (rewrite skipn_length; cbn [length] in L; lia).
      assert (LM5 : Lim (enc qret :: sg) (skipn w1 r3)).
      { apply (Lim_shorter _ (b :: r) _ LM). rewrite skipn_length. cbn [length]. lia. }
      pose proof (V (enc qret :: sg) CObj (CObj, PVal) (skipn w1 r3) _ L5 ltac:(right; right; reflexivity) H5 I5 LM5 eq_refl) as G.
      rewrite len_cons, Z.add_comm in G.
      assert (VS : forall b0 r0, skipn w1 r3 = b0 :: r0 -> strans chk (CObj, PVal) b0 = value_start chk CObj b0).
      { intros b0 r0 E. pose proof (ws_next _ _ _ E) as W0. cbn. rewrite W0. reflexivity. }
      specialize (G VS).
      assert (SK : skipn (1 + kb + w + 1 + w1) (b :: r) = skipn w1 r3).
      { replace (1 + kb + w + 1 + w1)%nat with (w1 + (1 + (w + (kb + 1))))%nat by lia.
        rewrite <- !skipn_skipn. change (skipn 1 (b :: r)) with r. fold l2. rewrite K. reflexivity. }
      rewrite <- SK in G at 1.
      apply (Good_pre q s (b :: r) (CObj, PVal) (adv s (1 + kb + w + 1 + w1)) (1 + kb + w + 1 + w1) (enc qret :: sg) _ (CObj, PAfter)).
      * eapply Reach_trans; [exact RR|]. eapply Reach_trans; [exact R4|exact R5].
      * reflexivity.
      * reflexivity.
      * pose proof (ws_le r3). fold w1 in H0. cbn [length]. lia.
      * exact G.
  Qed.

  Lemma call_value : forall c b sub, strict c -> (sub = CArr \/ sub = CObj) ->
    isb (if match sub with CArr => true | _ => false end then 91 else 123) b = true -> isb 91 b = (match sub with CArr => true | _ => false end) ->
    value_start chk c b = ([UCall chk 0 (enc (c, after c)) (enc (sub, PStart))], Some (c, after c)).
  Proof.
    intros c b sub SC SB B1 B2. unfold value_start. change (is ch_lbrack b) with (isb 91 b). change (is ch_lbrace b) with (isb 123 b).
    destruct SB as [->| ->]; rewrite B2; [|rewrite B1]; rewrite (handler_units_strict c true SC);
      destruct SC as [->|[->| ->]]; reflexivity.
  Qed.

  Theorem value_ok : forall f, ValueOK f.
  Proof.
    induction f as [|f IH]; intros sg c q l s L SC H I LM SE VS; [lia|].
    cbn [value_len].
    destruct l as [|b r].
    { apply (Ends_Of_Any c). apply fail_eof; [exact H|exact SE]. }
    specialize (VS b r eq_refl). cbn [length] in L.
    pose proof (At_adv1 data _ _ _ H) as H1.
    assert (NEST : forall sub item, (sub = CArr \/ sub = CObj) ->
              strans chk q b = ([UCall chk 0 (enc (c, after c)) (enc (sub, PStart))], Some (c, after c)) ->
              ItemOK sub item (enc (c, after c) :: sg) f ->
              Good q s (b :: r) sg (if md <=? len sg then None else option_map S (container f item (closer sub) r)) (c, after c)).
    { intros sub item SB T IO. pose proof (call_step q _ (c, after c) (sub, PStart) s sg b r H T I) as CS.
      assert (LME : chk = false -> (md <=? len sg) = false).
      { intros C. specialize (LM C). rewrite len_cons in LM. pose proof (len_nonneg r). apply Z.leb_gt. lia. }
      assert (LMR : Lim (enc (c, after c) :: sg) r).
      { intros C. specialize (LM C). rewrite !len_cons in *. lia. }
      destruct (md <=? len sg) eqn:LE.
      { assert (C : chk = true) by (apply Bool.not_false_is_true; intro C0; specialize (LME C0); discriminate).
        replace (chk && true) with true in CS by (rewrite C; reflexivity). exact CS. }
      rewrite andb_false_r in CS.
      destruct CS as (s1 & R1 & P1 & I1 & F1).
      assert (H1' : AtS s1 r) by (apply (At_move s s1 (b :: r) 1 H P1); cbn; lia).
      pose proof (container_ok sub item sg (c, after c) f SB IO r s1 ltac:(lia) H1' I1 LMR) as G.
      apply (Good_pre q s (b :: r) (sub, PStart) s1 1 sg _ (c, after c)); auto. cbn. lia. }
    destruct (isb 91 b) eqn:A.
    { apply (NEST CArr); [auto| |apply array_items; exact IH].
      rewrite VS. apply call_value; auto. }
    destruct (isb 123 b) eqn:O.
    { apply (NEST CObj); [auto| |apply object_items; exact IH].
      rewrite VS. apply call_value; auto. }
    pose proof (scalar_run c q s b r SC H (Inv_err _ _ I) VS A O) as G.
    destruct (scalar_tok (b :: r)) as [n|]; [|exact G].
    destruct G as [R N]. apply Good_adv; auto.
  Qed.

  (** *** the top level *)
  Lemma skip_run : forall stack dst, chk = true -> start = (CTop, PStart) ->
    match skip_ref_md md data with
    | Some n => 0 <= n <= len data /\
                exists s, prun md (spec_machine chk start) data h stack dst = ODone n None s /\ s_dst s = dst
    | None => exists p e s, prun md (spec_machine chk start) data h stack dst = ODone p (Some e) s
    end.
  Proof.
    intros stack dst CK ST. set (s0 := init_st stack dst).
    pose proof (At_init data stack dst) as H0. fold s0 in H0.
    assert (TOPWS : forall b, is_ws b = true -> strans chk (CTop, PStart) b = ([], Some (CTop, PStart))).
    { intros b W. cbn. rewrite W. reflexivity. }
    pose proof (ws_loop md chk start data h (CTop, PStart) TOPWS data s0 H0) as R0.
    pose proof (At_adv data s0 data (ws data) H0 (ws_le data)) as H1.
    assert (I0 : Inv (adv s0 (ws data)) []).
    { unfold Inv. cbn. unfold len. cbn. repeat split; auto; lia. }
    assert (L : (length (skipn (ws data) data) < length data + 2)%nat) by (rewrite skipn_length; lia).
    pose proof (value_ok (length data + 2) [] CTop (CTop, PStart) _ _ L ltac:(left; reflexivity) H1 I0 ltac:(intro C; congruence) eq_refl) as G.
    assert (VS : forall b r, skipn (ws data) data = b :: r -> strans chk (CTop, PStart) b = value_start chk CTop b).
    { intros b r E. pose proof (ws_next _ _ _ E) as W. cbn. rewrite W. reflexivity. }
    specialize (G VS). change (len (@nil Z)) with 0 in G.
    unfold skip_ref_md. destruct (value_len md (length data + 2) 0 (skipn (ws data) data)) as [n|]; cbn [option_map].
    - destruct G as (N & s' & R' & P' & I' & F').
      assert (H2 : AtS s' (skipn n (skipn (ws data) data))) by (eapply At_move; eauto).
      assert (E : EndsS start s0 (fun o => o = ODone (s_p s') (s_err s') s')).
      { rewrite ST. eapply Reach_Ends; [exact R0|]. eapply Reach_Ends; [exact R'|]. eapply done_ends. exact H2. }
      apply (Ends_prun md chk start data h stack dst) in E.
      split; [rewrite skipn_length in N; pose proof (ws_le data); unfold len; lia|]. exists s'. split.
      + rewrite E. rewrite (Inv_err _ _ I'). rewrite P', s_p_adv. cbn [s_p s0 init_st]. f_equal. lia.
      + unfold frame in F'. inversion F' as [[F1 F2 F3]]. rewrite F2. reflexivity.
    - assert (E : EndsS start s0 (ErrAny s0)).
      { rewrite ST. chainA R0. exact G. }
      apply (Ends_prun md chk start data h stack dst) in E. destruct E as (p & e & s' & E & _). eauto.
  Qed.
End Skip.

(** skipValue's specification machine returns exactly what the reference says: the offset just
    after the first value when there is one (no error), an error otherwise; for every handler,
    stack buffer and destination.  (C01/C02, with the simulation tie of run/TieSim.v.) *)
Theorem skip_spec_correct_md : forall md data h stack dst, 0 <= md ->
  match skip_ref_md md data with
  | Some n => 0 <= n <= len data /\ exists s, prun md skip_spec data h stack dst = ODone n None s /\ s_dst s = dst
  | None => exists p e s, prun md skip_spec data h stack dst = ODone p (Some e) s
  end.
Proof. intros md data h stack dst M. apply (skip_run md true (CTop, PStart) data h M stack dst eq_refl eq_refl). Qed.

Theorem skip_spec_correct : forall data stack,
  match skip_ref data with
  | Some n => exists s, prun 10000 skip_spec data no_handler stack [] = ODone n None s
  | None => exists p e s, prun 10000 skip_spec data no_handler stack [] = ODone p (Some e) s
  end.
Proof.
  intros data stack. pose proof (skip_spec_correct_md 10000 data no_handler stack [] ltac:(lia)) as H.
  unfold skip_ref, max_depth_ref. destruct (skip_ref_md 10000 data); [|exact H].
  destruct H as (_ & s & H & _). eauto.
Qed.

(** the reference offset lies inside the input *)
Lemma skip_ref_range : forall data n, skip_ref data = Some n -> 0 <= n <= len data.
Proof.
  intros data n E. pose proof (skip_spec_correct_md 10000 data no_handler [] [] ltac:(lia)) as H.
  unfold skip_ref, max_depth_ref in E. rewrite E in H. tauto.
Qed.

(** * Part 3 (c): corollaries for the public wrappers *)

(** SkipValue over the specification machine: the public result is the reference offset, or an error *)
Theorem SkipValue_spec_correct : forall data b,
  match skip_ref data with
  | Some n => fst (SkipValue 10000 skip_spec data b) = inl (n, None)
  | None => exists p e, fst (SkipValue 10000 skip_spec data b) = inl (p, Some e)
  end.
Proof.
  intros data b. unfold SkipValue, skipValue_m. cbn [fst]. rewrite prun_c_eq.
  pose proof (skip_spec_correct data (buf_stack b)) as H.
  destruct (skip_ref data) as [n|].
  - destruct H as (s & ->). reflexivity.
  - destruct H as (p & e & s & ->). cbn. eauto.
Qed.

(** Valid over the specification machine answers exactly [valid_ref]: one value and nothing but
    white space after it (C01, with the simulation tie), for every buffer *)
Theorem valid_spec_correct : forall data b, fst (Valid 10000 skip_spec data b) = Some (valid_ref data).
Proof.
  intros data b. unfold Valid, skipValue_m. cbn [fst]. rewrite prun_c_eq.
  pose proof (skip_spec_correct data (buf_stack b)) as H. unfold valid_ref.
  pose proof (skip_ref_range data) as RG.
  destruct (skip_ref data) as [n|].
  - destruct H as (s & ->). cbn [of_outcome]. specialize (RG n eq_refl).
    assert (G : (n >? len data) = false) by (rewrite Z.gtb_ltb; apply Z.ltb_ge; lia). rewrite G. f_equal.
    unfold countWhitespace. fold (ws (skipn (Z.to_nat n) data)).
    pose proof (ws_le (skipn (Z.to_nat n) data)) as WL. rewrite skipn_length in *. unfold len in *.
    destruct (Nat.eqb (ws (skipn (Z.to_nat n) data)) (length data - Z.to_nat n)) eqn:E.
    + apply Nat.eqb_eq in E. apply Z.geb_le. lia.
    + apply Nat.eqb_neq in E. rewrite Z.geb_leb. apply Z.leb_gt. lia.
  - destruct H as (p & e & s & ->). reflexivity.
Qed.

Print Assumptions valid_spec_correct.
Print Assumptions SkipValue_spec_correct.

(** [1, {"a" : -2.5e3}] x  *)
Definition ex_doc : list byte :=
  [x20; x5b; x31; x2c; x20; x7b; x22; x61; x22; x20; x3a; x20; x2d; x32; x2e; x35; x65; x33; x7d; x5d; x20; x78].
Example skip_spec_ex :
  skip_ref ex_doc = Some 20 /\
  (exists s, prun 10000 skip_spec ex_doc no_handler [] [] = ODone 20 None s) /\
  skip_ref (firstn 19 ex_doc) = None /\
  obs (prun 10000 skip_spec (firstn 19 ex_doc) no_handler [] []) = ObsDone 20 (Some EUnexpectedEOF) [] [] false.
Proof. split; [vm_compute; reflexivity|]. split; [eexists; vm_compute; reflexivity|]. vm_compute. auto. Qed.
Print Assumptions skip_spec_correct_md.
Print Assumptions skip_spec_correct.
Example valid_spec_ex :
  valid_ref (firstn 21 ex_doc) = true /\ valid_ref ex_doc = false /\
  fst (Valid 10000 skip_spec (firstn 21 ex_doc) None) = Some true /\ fst (Valid 10000 skip_spec ex_doc None) = Some false.
Proof. vm_compute. auto. Qed.

(** * Continued in SpecFacts2.v and SpecFacts3.v
    The items listed as OPEN in the first version of this file are proved there:
      - the number tail of the plain automaton: [auto_tail] (SpecFacts2.v);
      - [fast_agrees_spec], [SkipValueFast_agrees] (C11, SpecFacts2.v);
      - [members_spec_correct], [members_called_once], [members_ref_values] (C07, SpecFacts2.v),
        with [prun_md_irrelevant] (machines without depth-checked calls ignore the depth limit);
      - [append_spec_correct], [unescape_spec_correct], [unescape_agrees_append],
        [ReadStringBytes_spec_correct], [ReadStringBytes_appends] (C06 / C16, SpecFacts3.v). *)
