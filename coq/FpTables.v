(** FpTables.v -- arithmetic readings of the bit operations of Fp.v, and the table checker.
    The tables are parameters of the model; [tables_okb T] is a boolean that run/TieFp.v
    evaluates to [true] on the tables regenerated from /repo (finite proof by computation);
    [tables_ok T] is the hypothesis of the static theorems; the lemmas below unpack it. *)
From Coq Require Import List ZArith Lia Bool.
From Coq Require Import Strings.Byte.
From Rjson Require Import Base Helpers Round Fp FpSpec.
Import ListNotations.
Local Open Scope Z_scope.

(** * Arithmetic readings of the bit operations *)

Lemma two64_eq : two64 = 2 ^ 64. Proof. reflexivity. Qed.

(** uint64 truncation is reduction modulo 2^64 *)
Lemma u64_mod x : u64 x = x mod two64.
Proof. unfold u64, mask64. rewrite Z.land_ones by lia. reflexivity. Qed.

(** x >> k is floor division by 2^k *)
Lemma shr_div x k : 0 <= k -> shr x k = x / 2 ^ k.
Proof. intros. unfold shr. apply Z.shiftr_div_pow2; assumption. Qed.

(** x & (1<<k - 1) is reduction modulo 2^k *)
Lemma lowbits_mod x k : 0 <= k -> lowbits x k = x mod 2 ^ k.
Proof. intros. unfold lowbits. apply Z.land_ones; assumption. Qed.

(** uint64 truncation is the identity below 2^64 *)
Lemma u64_small x : 0 <= x < two64 -> u64 x = x.
Proof. intros. rewrite u64_mod. apply Z.mod_small; assumption. Qed.

(** * The table checker *)

Lemma P10_pos k : 0 < P10 k.
Proof. unfold P10. apply Z.pow_pos_nonneg; lia. Qed.

(** row (lo, hi) is the 128-bit normalised truncation of 10^q:
      T = hi*2^64 + lo in [2^127, 2^128),  T * 2^(L-127) <= 10^q < (T+1) * 2^(L-127),
    with L = (217706*q) >> 16; all in cross-multiplied form *)
Definition pow10_row_ok (q : Z) (row : Z * Z) : bool :=
  let lo := fst row in let hi := snd row in
  let T := hi * two64 + lo in
  let L := Z.shiftr (217706 * q) 16 in
  (0 <=? lo) && (lo <? two64) && (2 ^ 63 <=? hi) && (hi <? two64)
  && (T * P2 (L - 127) * P10 (- q) <=? P10 q * P2 (127 - L))
  && (P10 q * P2 (127 - L) <? (T + 1) * P2 (L - 127) * P10 (- q)).

Fixpoint pow10_rows_ok (q : Z) (rows : list (Z * Z)) : bool :=
  match rows with
  | [] => true
  | r :: rs => pow10_row_ok q r && pow10_rows_ok (q + 1) rs
  end.

(** 217706*q >> 16 = floor (log2 (10^q)), for q of either sign *)
Definition log2_pow10_ok (q : Z) : bool :=
  Z.shiftr (217706 * q) 16 =? (if 0 <=? q then Z.log2 (10 ^ q) else - Z.log2_up (10 ^ (- q))).

Fixpoint zrange (lo : Z) (n : nat) : list Z :=
  match n with O => [] | S k => lo :: zrange (lo + 1) k end.

(** leftcheats row k >= 1: cutoff = 5^k written with clen digits, delta = number of digits of 2^k *)
Definition cheat_row_ok (k : Z) (row : Z * Z * Z) : bool :=
  let '(delta, cutoff, clen) := row in
  if k =? 0 then (delta =? 0) && (cutoff =? 0) && (clen =? 0)
  else (cutoff =? 5 ^ k) && (0 <? clen) && (10 ^ (clen - 1) <=? cutoff) && (cutoff <? 10 ^ clen)
       && (0 <? delta) && (10 ^ (delta - 1) <=? 2 ^ k) && (2 ^ k <? 10 ^ delta).

Fixpoint cheat_rows_ok (k : Z) (rows : list (Z * Z * Z)) : bool :=
  match rows with
  | [] => true
  | r :: rs => cheat_row_ok k r && cheat_rows_ok (k + 1) rs
  end.

(** powtab[i] = floor (log2 (10^i)) for i >= 1, powtab[0] = 1 *)
Definition powtab_row_ok (i p : Z) : bool :=
  if i =? 0 then p =? 1 else (2 ^ p <=? 10 ^ i) && (10 ^ i <? 2 ^ (p + 1)).

Fixpoint powtab_rows_ok (i : Z) (rows : list Z) : bool :=
  match rows with
  | [] => true
  | p :: rs => powtab_row_ok i p && powtab_rows_ok (i + 1) rs
  end.

Fixpoint zlist_eqb (a b : list Z) : bool :=
  match a, b with
  | [], [] => true
  | x :: a', y :: b' => (x =? y) && zlist_eqb a' b'
  | _, _ => false
  end.

Definition tables_okb (T : fp_tables) : bool :=
  (t_minexp10 T =? -348) && (t_maxexp10 T =? 347)
  && (len (t_pow10 T) =? t_maxexp10 T - t_minexp10 T + 1)
  && pow10_rows_ok (t_minexp10 T) (t_pow10 T)
  && forallb log2_pow10_ok (zrange (t_minexp10 T) (length (t_pow10 T)))
  && zlist_eqb (t_f64pow10 T) (zrange 0 23)
  && (len (t_powtab T) =? 9) && powtab_rows_ok 0 (t_powtab T)
  && (len (t_leftcheats T) =? 61) && cheat_rows_ok 0 (t_leftcheats T)
  && (t_mantbits T =? 52) && (t_expbits T =? 11) && (t_bias T =? -1023).

Definition tables_ok (T : fp_tables) : Prop := tables_okb T = true.

(** the row checker holds row by row (powers of ten) *)
Lemma pow10_rows_ok_nth rows : forall q0 (i : nat) d,
  pow10_rows_ok q0 rows = true -> (i < length rows)%nat ->
  pow10_row_ok (q0 + Z.of_nat i) (nth i rows d) = true.
Proof.
  induction rows as [|r rs IH]; intros q0 i d H Hi; [simpl in Hi; lia|].
  simpl in H. apply andb_true_iff in H as [H1 H2]. destruct i as [|i].
  - simpl. rewrite Z.add_0_r. exact H1.
  - simpl nth. replace (q0 + Z.of_nat (S i)) with ((q0 + 1) + Z.of_nat i) by lia.
    apply IH; [exact H2|simpl in Hi; lia].
Qed.

(** the row checker holds row by row (leftcheats) *)
Lemma cheat_rows_ok_nth rows : forall k0 (i : nat) d,
  cheat_rows_ok k0 rows = true -> (i < length rows)%nat ->
  cheat_row_ok (k0 + Z.of_nat i) (nth i rows d) = true.
Proof.
  induction rows as [|r rs IH]; intros k0 i d H Hi; [simpl in Hi; lia|].
  simpl in H. apply andb_true_iff in H as [H1 H2]. destruct i as [|i].
  - simpl. rewrite Z.add_0_r. exact H1.
  - simpl nth. replace (k0 + Z.of_nat (S i)) with ((k0 + 1) + Z.of_nat i) by lia.
    apply IH; [exact H2|simpl in Hi; lia].
Qed.

(** the row checker holds row by row (powtab) *)
Lemma powtab_rows_ok_nth rows : forall k0 (i : nat) d,
  powtab_rows_ok k0 rows = true -> (i < length rows)%nat ->
  powtab_row_ok (k0 + Z.of_nat i) (nth i rows d) = true.
Proof.
  induction rows as [|r rs IH]; intros k0 i d H Hi; [simpl in Hi; lia|].
  simpl in H. apply andb_true_iff in H as [H1 H2]. destruct i as [|i].
  - simpl. rewrite Z.add_0_r. exact H1.
  - simpl nth. replace (k0 + Z.of_nat (S i)) with ((k0 + 1) + Z.of_nat i) by lia.
    apply IH; [exact H2|simpl in Hi; lia].
Qed.

(** boolean list equality is equality *)
Lemma zlist_eqb_eq a : forall b, zlist_eqb a b = true -> a = b.
Proof.
  induction a as [|x a IH]; destruct b as [|y b]; simpl; intros H; try discriminate; [reflexivity|].
  apply andb_true_iff in H as [H1 H2]. apply Z.eqb_eq in H1. subst. f_equal. auto.
Qed.

(** the components of [tables_ok], unpacked *)
Record tables_facts (T : fp_tables) : Prop := {
  tf_min : t_minexp10 T = -348;
  tf_max : t_maxexp10 T = 347;
  tf_len : len (t_pow10 T) = 696;
  tf_rows : pow10_rows_ok (-348) (t_pow10 T) = true;
  tf_f64 : t_f64pow10 T = zrange 0 23;
  tf_ptlen : len (t_powtab T) = 9;
  tf_pt : powtab_rows_ok 0 (t_powtab T) = true;
  tf_lclen : len (t_leftcheats T) = 61;
  tf_lc : cheat_rows_ok 0 (t_leftcheats T) = true;
  tf_mb : t_mantbits T = 52;
  tf_eb : t_expbits T = 11;
  tf_bias : t_bias T = -1023
}.

(** tables_ok unpacked into its components *)
Lemma tables_ok_facts T : tables_ok T -> tables_facts T.
Proof.
  unfold tables_ok, tables_okb. intros H.
  repeat (apply andb_true_iff in H; destruct H as [H ?]).
  repeat match goal with [ E : (_ =? _) = true |- _ ] => apply Z.eqb_eq in E end.
  match goal with [ E : zlist_eqb _ _ = true |- _ ] => apply zlist_eqb_eq in E end.
  constructor; try assumption; try congruence.
  - lia.
Qed.

(** the table row of 10^q, as inequalities *)
Lemma pow10_row_spec T q :
  tables_ok T -> -348 <= q <= 347 ->
  let row := nth (Z.to_nat (q - t_minexp10 T)) (t_pow10 T) (0, 0) in
  let lo := fst row in let hi := snd row in
  let W := hi * two64 + lo in
  let L := Z.shiftr (217706 * q) 16 in
  0 <= lo < two64 /\ 2 ^ 63 <= hi < two64 /\
  W * P2 (L - 127) * P10 (- q) <= P10 q * P2 (127 - L) < (W + 1) * P2 (L - 127) * P10 (- q).
Proof.
  intros HT Hq. destruct (tables_ok_facts T HT) as [Hmin _ Hlen Hrows _ _ _ _ _ _ _ _].
  rewrite Hmin. intros row.
  pose proof (pow10_rows_ok_nth (t_pow10 T) (-348) (Z.to_nat (q - -348)) (0, 0) Hrows) as H.
  unfold len in Hlen. specialize (H ltac:(lia)).
  replace (-348 + Z.of_nat (Z.to_nat (q - -348))) with q in H by lia.
  fold row in H. unfold pow10_row_ok in H.
  repeat (apply andb_true_iff in H; destruct H as [H ?]).
  repeat match goal with
         | [ E : (_ <=? _) = true |- _ ] => apply Z.leb_le in E
         | [ E : (_ <? _) = true |- _ ] => apply Z.ltb_lt in E
         end.
  cbv zeta. lia.
Qed.

(** the cheat-sheet row of shift k, as (in)equalities *)
Lemma cheat_row_spec T k :
  tables_ok T -> 1 <= k <= 60 ->
  let '(delta, cutoff, clen) := nth (Z.to_nat k) (t_leftcheats T) (0, 0, 0) in
  cutoff = 5 ^ k /\ 0 < clen /\ 10 ^ (clen - 1) <= cutoff < 10 ^ clen /\
  0 < delta /\ 10 ^ (delta - 1) <= 2 ^ k < 10 ^ delta.
Proof.
  intros HT Hk. destruct (tables_ok_facts T HT) as [_ _ _ _ _ _ _ Hlen Hrows _ _ _].
  pose proof (cheat_rows_ok_nth (t_leftcheats T) 0 (Z.to_nat k) (0, 0, 0) Hrows) as H.
  unfold len in Hlen. specialize (H ltac:(lia)).
  replace (0 + Z.of_nat (Z.to_nat k)) with k in H by lia.
  destruct (nth (Z.to_nat k) (t_leftcheats T) (0, 0, 0)) as [[delta cutoff] clen].
  unfold cheat_row_ok in H. destruct (Z.eqb_spec k 0); [lia|].
  repeat (apply andb_true_iff in H; destruct H as [H ?]).
  repeat match goal with
         | [ E : (_ <=? _) = true |- _ ] => apply Z.leb_le in E
         | [ E : (_ <? _) = true |- _ ] => apply Z.ltb_lt in E
         | [ E : (_ =? _) = true |- _ ] => apply Z.eqb_eq in E
         end.
  repeat split; assumption.
Qed.

(** powtab entries: powtab[0] = 1, powtab[i] = floor (log2 (10^i)) for 1 <= i <= 8 *)
Lemma powtab_spec T i :
  tables_ok T -> 0 <= i <= 8 ->
  let p := nth (Z.to_nat i) (t_powtab T) 0 in
  if i =? 0 then p = 1 else 2 ^ p <= 10 ^ i < 2 ^ (p + 1).
Proof.
  intros HT Hi. destruct (tables_ok_facts T HT) as [_ _ _ _ _ Hlen Hrows _ _ _ _ _].
  pose proof (powtab_rows_ok_nth (t_powtab T) 0 (Z.to_nat i) 0 Hrows) as H.
  unfold len in Hlen. specialize (H ltac:(lia)).
  replace (0 + Z.of_nat (Z.to_nat i)) with i in H by lia.
  cbv zeta. unfold powtab_row_ok in H. destruct (Z.eqb_spec i 0).
  - apply Z.eqb_eq in H. exact H.
  - apply andb_true_iff in H as [H1 H2]. apply Z.leb_le in H1. apply Z.ltb_lt in H2. lia.
Qed.
