(** FpEL.v -- soundness of the Eisel-Lemire fast path (C04 layer 4):
      eiselLemire64_m T man q neg = Some b  ->  b = round_ne neg (man * 10^q)
    from the table lemma ([tables_ok]) by interval arithmetic in Z.  No reals: a positive
    rational x = num/den is compared with dyadic numbers I * 2^t through the three predicates
    [ge2], [le2], [lt2] below, which are stable under moving powers of two between I and t. *)
From Coq Require Import List ZArith Lia Bool.
From Coq Require Import Strings.Byte.
From Rjson Require Import Base Helpers Round Fp FpSpec FpTables FpExact.
Import ListNotations.
Local Open Scope Z_scope.

(** * Comparing num/den with I * 2^t *)
Definition ge2 (num den I t : Z) : Prop := I * P2 t * den <= num * P2 (- t).     (* I * 2^t <= x *)
Definition le2 (num den I t : Z) : Prop := num * P2 (- t) <= I * P2 t * den.     (* x <= I * 2^t *)
Definition lt2 (num den I t : Z) : Prop := num * P2 (- t) < I * P2 t * den.      (* x < I * 2^t *)

Section Dyadic.
Variables num den : Z.
Notation ge2 := (ge2 num den).
Notation le2 := (le2 num den).
Notation lt2 := (lt2 num den).

(** 2^(t+j) = 2^t * 2^j in fraction form, j >= 0 *)
Lemma P2_shift t j : 0 <= j -> P2 (t + j) * P2 (- t) = P2 (- (t + j)) * P2 t * 2 ^ j.
Proof.
  intros Hj. pose proof (P2_add t j) as H. rewrite (P2_nonneg j), (P2_nonpos (- j)) in H by lia. lia.
Qed.

(** moving 2^j between the integer and the exponent (>=) *)
Lemma ge2_shift (Hnum : 0 < num) (Hden : 0 < den) I t j : 0 <= j -> ge2 (I * 2 ^ j) t <-> ge2 I (t + j).
Proof.
  intros Hj. unfold ge2. pose proof (P2_shift t j Hj) as E.
  pose proof (P2_pos t). pose proof (P2_pos (- t)). pose proof (P2_pos (t + j)). pose proof (P2_pos (- (t + j))).
  set (a := P2 t) in *. set (a' := P2 (- t)) in *. set (b := P2 (t + j)) in *. set (b' := P2 (- (t + j))) in *.
  set (J := 2 ^ j) in *.
  (* b a' = b' a J.   (I J a den <= num a')  <->  (I b den <= num b') *)
  split; intros Hle.
  - assert (X : I * (b' * a * J) * den <= num * a' * b') by nia. rewrite <- E in X. nia.
  - assert (X : I * (b * a') * den <= num * b' * a') by nia. rewrite E in X. nia.
Qed.

(** moving 2^j between the integer and the exponent (<=) *)
Lemma le2_shift (Hnum : 0 < num) (Hden : 0 < den) I t j : 0 <= j -> le2 (I * 2 ^ j) t <-> le2 I (t + j).
Proof.
  intros Hj. unfold le2. pose proof (P2_shift t j Hj) as E.
  pose proof (P2_pos t). pose proof (P2_pos (- t)). pose proof (P2_pos (t + j)). pose proof (P2_pos (- (t + j))).
  set (a := P2 t) in *. set (a' := P2 (- t)) in *. set (b := P2 (t + j)) in *. set (b' := P2 (- (t + j))) in *.
  set (J := 2 ^ j) in *.
  split; intros Hle.
  - assert (X : num * a' * b' <= I * (b' * a * J) * den) by nia. rewrite <- E in X. nia.
  - assert (X : num * b' * a' <= I * (b * a') * den) by nia. rewrite E in X. nia.
Qed.

(** moving 2^j between the integer and the exponent (<) *)
Lemma lt2_shift (Hnum : 0 < num) (Hden : 0 < den) I t j : 0 <= j -> lt2 (I * 2 ^ j) t <-> lt2 I (t + j).
Proof.
  intros Hj. unfold lt2. pose proof (P2_shift t j Hj) as E.
  pose proof (P2_pos t). pose proof (P2_pos (- t)). pose proof (P2_pos (t + j)). pose proof (P2_pos (- (t + j))).
  set (a := P2 t) in *. set (a' := P2 (- t)) in *. set (b := P2 (t + j)) in *. set (b' := P2 (- (t + j))) in *.
  set (J := 2 ^ j) in *.
  split; intros Hlt.
  - apply (Z.mul_lt_mono_pos_r a'); [lia|].
    replace (I * b * den * a') with (I * (b * a') * den) by ring. rewrite E.
    replace (I * (b' * a * J) * den) with ((I * J * a * den) * b') by ring.
    replace (num * b' * a') with ((num * a') * b') by ring.
    apply Z.mul_lt_mono_pos_r; lia.
  - apply (Z.mul_lt_mono_pos_r b'); [lia|].
    replace (I * J * a * den * b') with (I * (b' * a * J) * den) by ring. rewrite <- E.
    replace (I * (b * a') * den) with ((I * b * den) * a') by ring.
    replace (num * a' * b') with ((num * b') * a') by ring.
    apply Z.mul_lt_mono_pos_r; lia.
Qed.

(** a smaller integer is still a lower bound *)
Lemma ge2_mono (Hnum : 0 < num) (Hden : 0 < den) I I' t : I' <= I -> ge2 I t -> ge2 I' t.
Proof.
  unfold ge2. intros HI H. pose proof (P2_pos t). assert (0 < P2 t * den) by nia.
  rewrite <- !Z.mul_assoc in *. nia.
Qed.
(** a larger integer is still a strict upper bound *)
Lemma lt2_mono (Hnum : 0 < num) (Hden : 0 < den) I I' t : I <= I' -> lt2 I t -> lt2 I' t.
Proof.
  unfold lt2. intros HI H. pose proof (P2_pos t). assert (0 < P2 t * den) by nia.
  rewrite <- !Z.mul_assoc in *. nia.
Qed.

(** x >= I 2^t and x <= I' 2^t give I <= I' *)
Lemma ge2_le2 (Hnum : 0 < num) (Hden : 0 < den) I I' t : ge2 I t -> le2 I' t -> I <= I'.
Proof.
  unfold ge2, le2. intros H1 H2. pose proof (P2_pos t). assert (0 < P2 t * den) by nia.
  rewrite <- !Z.mul_assoc in *. nia.
Qed.

(** a bracket [2^e, 2 * 2^e) gives the binary order of magnitude *)
Lemma ilog2_of_bracket (Hnum : 0 < num) (Hden : 0 < den) e : ge2 1 e -> lt2 2 e -> is_ilog2 num den e.
Proof. unfold ge2, lt2, is_ilog2. lia. Qed.

(** from the 54-bit truncation M54 of x / 2^u to the nearest-even 53-bit mantissa *)
Lemma rne_from_trunc a d M54 :
  0 < d -> M54 * d <= 2 * a < (M54 + 1) * d -> (2 * a = M54 * d -> M54 mod 4 <> 1) ->
  is_rne a d ((M54 + M54 mod 2) / 2).
Proof.
  intros Hd [Hlo Hhi] Htie. unfold is_rne.
  pose proof (Z.div_mod M54 2 ltac:(lia)) as E2. pose proof (Z.mod_pos_bound M54 2 ltac:(lia)) as B2.
  set (k := M54 / 2) in *. set (r := M54 mod 2) in *.
  assert (Hr : r = 0 \/ r = 1) by lia. destruct Hr as [Hr|Hr].
  - rewrite Hr in *. replace (M54 + 0) with (k * 2) by lia. rewrite Z.div_mul by lia.
    left. rewrite Z.abs_neq by nia. nia.
  - rewrite Hr in *. replace (M54 + 1) with ((k + 1) * 2) by lia. rewrite Z.div_mul by lia.
    rewrite Z.abs_eq by nia.
    destruct (Z.eq_dec (2 * a) (M54 * d)) as [Heq|Hne].
    + right. split; [nia|]. specialize (Htie Heq).
      (* M54 = 2k+1, M54 mod 4 <> 1 -> k odd -> k+1 even *)
      assert (Hk : k mod 2 = 1).
      { pose proof (Z.div_mod k 2 ltac:(lia)). pose proof (Z.mod_pos_bound k 2 ltac:(lia)).
        destruct (Z.eq_dec (k mod 2) 1); [assumption|exfalso]. assert (k mod 2 = 0) by lia.
        apply Htie. replace M54 with (1 + (k / 2) * 4) by lia. rewrite Z_mod_plus_full. reflexivity. }
      rewrite Z.even_add. rewrite <- Z.negb_odd. rewrite Zodd_mod, Hk. reflexivity.
    + left. nia.
Qed.

(** the mantissa of [round_pos] from the bracket  M54 * 2^u <= x < (M54+1) * 2^u  *)
Lemma rne_of_bracket (Hnum : 0 < num) (Hden : 0 < den) M54 u :
  ge2 M54 u -> lt2 (M54 + 1) u -> (le2 M54 u -> M54 mod 4 <> 1) ->
  is_rne (num * P2 (52 - (u + 53))) (den * P2 (u + 53 - 52)) ((M54 + M54 mod 2) / 2).
Proof.
  intros Hge Hlt Htie. unfold ge2, lt2, le2 in *.
  replace (52 - (u + 53)) with (- (u + 1)) by lia. replace (u + 53 - 52) with (u + 1) by lia.
  pose proof (P2_succ u) as E.
  pose proof (P2_pos u). pose proof (P2_pos (- u)). pose proof (P2_pos (u + 1)). pose proof (P2_pos (- (u + 1))).
  set (p := P2 u) in *. set (p' := P2 (- u)) in *. set (q := P2 (u + 1)) in *. set (q' := P2 (- (u + 1))) in *.
  (* q p' = 2 p q' *)
  apply rne_from_trunc; [nia| |].
  - split.
    + assert (X : M54 * (2 * p * q') * den <= 2 * num * p' * q') by nia. rewrite <- E in X. nia.
    + assert (X : 2 * num * p' * q' < (M54 + 1) * (2 * p * q') * den) by nia. rewrite <- E in X. nia.
  - intros Heq. apply Htie.
    assert (X : 2 * (num * q') * p' = M54 * den * (q * p')) by nia. rewrite E in X. nia.
Qed.
End Dyadic.

(** * The arithmetic core of Eisel-Lemire *)

(** If x / 2^s lies in [X, X + w'), X = M54 * 2^g + rem with a 54-bit M54, the interval does not
    reach the next multiple of 2^g (rem + w' <= 2^g), and the half-way test did not fire, then
    rounding x to nearest-even gives binade e = 53 + g + s and mantissa (M54 + (M54 & 1)) >> 1. *)
Lemma el_core num den X w' s g M54 rem :
  0 < num -> 0 < den ->
  ge2 num den X s -> lt2 num den (X + w') s ->
  X = M54 * 2 ^ g + rem -> 0 <= rem -> rem + w' <= 2 ^ g -> 0 <= g ->
  two53 <= M54 < 2 * two53 ->
  (rem = 0 -> M54 mod 4 <> 1) ->
  -1022 <= 53 + g + s ->
  round_pos num den = (53 + g + s + 1022) * two52 + (M54 + M54 mod 2) / 2.
Proof.
  intros Hnum Hden Hge Hlt HX Hrem Hfit Hg HM Htie He.
  assert (Pg : 0 < 2 ^ g) by (apply Z.pow_pos_nonneg; lia).
  set (u := s + g).
  assert (Hge' : ge2 num den M54 u).
  { unfold u. apply (ge2_shift num den Hnum Hden M54 s g Hg). apply (ge2_mono num den Hnum Hden X); [lia|exact Hge]. }
  assert (Hlt' : lt2 num den (M54 + 1) u).
  { unfold u. apply (lt2_shift num den Hnum Hden (M54 + 1) s g Hg).
    apply (lt2_mono num den Hnum Hden (X + w')); [nia|exact Hlt]. }
  assert (Hilog : is_ilog2 num den (u + 53)).
  { apply ilog2_of_bracket; [assumption|assumption| |].
    - apply (ge2_shift num den Hnum Hden 1 u 53 ltac:(lia)).
      apply (ge2_mono num den Hnum Hden M54); [change (1 * 2 ^ 53) with two53; lia|exact Hge'].
    - apply (lt2_shift num den Hnum Hden 2 u 53 ltac:(lia)).
      apply (lt2_mono num den Hnum Hden (M54 + 1)); [change (2 * 2 ^ 53) with (2 * two53); lia|exact Hlt']. }
  assert (Htie' : le2 num den M54 u -> M54 mod 4 <> 1).
  { intros Hle. apply Htie. unfold u in Hle.
    apply (le2_shift num den Hnum Hden M54 s g Hg) in Hle.
    pose proof (ge2_le2 num den Hnum Hden X (M54 * 2 ^ g) s Hge Hle). lia. }
  pose proof (rne_of_bracket num den Hnum Hden M54 u Hge' Hlt' Htie') as HR.
  replace (53 + g + s) with (u + 53) in * by (unfold u; lia).
  rewrite (round_pos_eq num den (u + 53) ((M54 + M54 mod 2) / 2) Hnum Hden Hilog).
  - rewrite Z.max_l by lia. reflexivity.
  - rewrite Z.max_l by lia. exact HR.
Qed.

(** The corner below the normal range: binade -1023 with an all-ones 54-bit truncation rounds up
    to the least normal number 2^-1022 (pattern 2^52). *)
Lemma el_core_sub num den X w' s g rem :
  0 < num -> 0 < den ->
  ge2 num den X s -> lt2 num den (X + w') s ->
  X = (2 * two53 - 1) * 2 ^ g + rem -> 0 <= rem -> rem + w' <= 2 ^ g -> 0 <= g ->
  53 + g + s = -1023 ->
  round_pos num den = two52.
Proof.
  intros Hnum Hden Hge Hlt HX Hrem Hfit Hg He.
  assert (Pg : 0 < 2 ^ g) by (apply Z.pow_pos_nonneg; lia).
  set (M54 := 2 * two53 - 1) in *.
  assert (Hu : s + g = -1076) by lia.
  assert (Hge' : ge2 num den M54 (-1076)).
  { rewrite <- Hu. apply (ge2_shift num den Hnum Hden M54 s g Hg). apply (ge2_mono num den Hnum Hden X); [lia|exact Hge]. }
  assert (Hlt' : lt2 num den (M54 + 1) (-1076)).
  { rewrite <- Hu. apply (lt2_shift num den Hnum Hden (M54 + 1) s g Hg).
    apply (lt2_mono num den Hnum Hden (X + w')); [nia|exact Hlt]. }
  unfold ge2, lt2 in Hge', Hlt'. change (P2 (-1076)) with 1 in *. change (P2 (- -1076)) with (2 ^ 1076) in *.
  assert (Hilog : is_ilog2 num den (-1023)).
  { unfold is_ilog2. change (P2 (-1023)) with 1. change (P2 (- -1023)) with (2 ^ 1023).
    change (2 ^ 1076) with (2 ^ 1023 * 2 ^ 53) in *. subst M54. unfold two53, two52 in *.
    change (2 ^ 53) with 9007199254740992 in *. remember (2 ^ 1023) as W. lia. }
  rewrite (round_pos_eq num den (-1023) two52 Hnum Hden Hilog).
  - reflexivity.
  - change (Z.max (-1023) (-1022)) with (-1022). change (P2 (52 - -1022)) with (2 ^ 1074).
    change (P2 (-1022 - 52)) with 1. left.
    change (2 ^ 1076) with (2 ^ 1074 * 4) in *. subst M54. unfold two53, two52 in *.
    remember (2 ^ 1074) as W. lia.
Qed.

(** * Bit-level facts *)

Lemma u64_idem_add a b : u64 (u64 a + b) = u64 (a + b).
Proof. rewrite !u64_mod. apply Zplus_mod_idemp_l. Qed.
(** uint64 truncation commutes with subtraction *)
Lemma u64_idem_sub a b : u64 (u64 a - b) = u64 (a - b).
Proof. rewrite !u64_mod. apply Zminus_mod_idemp_l. Qed.
(** 2^64 is positive *)
Lemma two64_pos : 0 < two64. Proof. reflexivity. Qed.

(** normalisation: man << clz has its top bit set *)
Lemma clz_norm man :
  0 < man < two64 ->
  let clz := clz64 man in
  0 <= clz <= 63 /\ u64 (man * 2 ^ clz) = man * 2 ^ clz /\ 2 ^ 63 <= man * 2 ^ clz < two64.
Proof.
  intros [Hm1 Hm2]. unfold clz64. destruct (Z.leb_spec man 0); [lia|].
  pose proof (Z.log2_spec man Hm1) as [L1 L2]. pose proof (Z.log2_nonneg man) as L0.
  assert (L3 : Z.log2 man < 64) by (apply Z.log2_lt_pow2; [lia|rewrite <- two64_eq; lia]).
  set (l := Z.log2 man) in *. cbv zeta.
  assert (E : 2 ^ l * 2 ^ (63 - l) = 2 ^ 63) by (rewrite <- Z.pow_add_r by lia; f_equal; lia).
  assert (P : 0 < 2 ^ (63 - l)) by (apply Z.pow_pos_nonneg; lia).
  replace (Z.succ l) with (l + 1) in L2 by lia. rewrite Z.pow_add_r in L2 by lia. change (2 ^ 1) with 2 in L2.
  assert (B : 2 ^ 63 <= man * 2 ^ (63 - l) < two64).
  { change two64 with (2 * 2 ^ 63). rewrite <- E. nia. }
  split; [lia|]. split; [apply u64_small; lia|exact B].
Qed.

(** bits.Mul64 *)
Lemma mul64_spec a b :
  0 <= a < two64 -> 0 <= b < two64 ->
  let hl := mul64 a b in
  a * b = fst hl * two64 + snd hl /\ 0 <= snd hl < two64 /\ 0 <= fst hl < two64.
Proof.
  intros Ha Hb. unfold mul64. cbn [fst snd]. pose proof two64_pos.
  pose proof (Z.div_mod (a * b) two64 ltac:(lia)). pose proof (Z.mod_pos_bound (a * b) two64 ltac:(lia)).
  split; [lia|]. split; [lia|]. split; [apply Z.div_pos; nia|].
  apply Z.div_lt_upper_bound; nia.
Qed.

(** the carry test  x + y < y  (mod 2^64)  is  x + y >= 2^64 *)
Lemma carry_test x y : 0 <= x < two64 -> 0 <= y < two64 -> (u64 (x + y) <? y) = (two64 <=? x + y).
Proof.
  intros Hx Hy. rewrite u64_mod. pose proof two64_pos.
  destruct (Z.leb_spec two64 (x + y)).
  - replace (x + y) with ((x + y - two64) + 1 * two64) by lia. rewrite Z_mod_plus_full, Z.mod_small by lia.
    apply Z.ltb_lt. lia.
  - rewrite Z.mod_small by lia. apply Z.ltb_ge. lia.
Qed.

(** 217706*q >> 16 stays small on the table's range *)
Lemma L_bounds q : -348 <= q <= 347 -> -1157 <= Z.shiftr (217706 * q) 16 <= 1153.
Proof. intros. rewrite Z.shiftr_div_pow2 by lia. change (2 ^ 16) with 65536. Z.div_mod_to_equations. lia. Qed.

(** splitting the high word into the 54-bit mantissa and the dropped bits *)
Lemma split54 H :
  2 ^ 62 <= H < two64 ->
  let msb := H / 2 ^ 63 in
  let M54 := H / 2 ^ (msb + 9) in
  let lowH := H mod 2 ^ (msb + 9) in
  (msb = 0 \/ msb = 1) /\ two53 <= M54 < 2 * two53 /\ H = M54 * 2 ^ (msb + 9) + lowH /\
  0 <= lowH < 2 ^ (msb + 9) /\
  (H mod 512 <> 511 -> lowH <= 2 ^ (msb + 9) - 2) /\
  (lowH = 0 -> H mod 512 = 0).
Proof.
  intros [H1 H2]. cbv zeta. change two64 with (2 ^ 64) in H2. unfold two53, two52.
  assert (Hm : H / 2 ^ 63 = 0 \/ H / 2 ^ 63 = 1).
  { change (2 ^ 62) with 4611686018427387904 in *. change (2 ^ 64) with 18446744073709551616 in *.
    change (2 ^ 63) with 9223372036854775808. Z.div_mod_to_equations. lia. }
  split; [exact Hm|].
  destruct Hm as [Hm|Hm]; rewrite Hm.
  - change (2 ^ (0 + 9)) with 512.
    assert (H < 2 ^ 63).
    { change (2 ^ 63) with 9223372036854775808 in *. Z.div_mod_to_equations. lia. }
    change (2 ^ 62) with 4611686018427387904 in *. change (2 ^ 63) with 9223372036854775808 in *.
    repeat split; try (Z.div_mod_to_equations; lia).
  - change (2 ^ (1 + 9)) with 1024.
    assert (2 ^ 63 <= H).
    { change (2 ^ 63) with 9223372036854775808 in *. Z.div_mod_to_equations. lia. }
    change (2 ^ 64) with 18446744073709551616 in *. change (2 ^ 63) with 9223372036854775808 in *.
    repeat split; try (Z.div_mod_to_equations; lia).
Qed.

(** * The tail of eiselLemire64: from the (possibly refined) 128-bit product to the bits *)

Definition el_tail (xHi xLo retExp2 : Z) (neg : bool) : option Z :=
  let msb := xHi / 2 ^ 63 in
  let retMantissa := xHi / 2 ^ (msb + 9) in
  let retExp2 := u64 (retExp2 - (if msb =? 1 then 0 else 1)) in
  if (xLo =? 0) && (xHi mod 512 =? 0) && (retMantissa mod 4 =? 1) then None else
  let retMantissa := u64 (retMantissa + retMantissa mod 2) in
  let retMantissa := retMantissa / 2 in
  let '(retMantissa, retExp2) :=
    if 0 <? retMantissa / 2 ^ 53 then (retMantissa / 2, u64 (retExp2 + 1)) else (retMantissa, retExp2) in
  if 2046 <=? u64 (retExp2 - 1) then None else
  let retBits := u64 (retExp2 * 2 ^ 52) + retMantissa mod 2 ^ 52 in
  Some (if neg then retBits + sign_bit else retBits).

(** If x / 2^s lies in [X, X + w') for the 128-bit X = H:Lo, the interval does not cross the next
    multiple of the dropped bits, and the tail answers, then the answer is round_ne x. *)
Lemma el_tail_sound num den neg H Lo w' s b :
  0 < num -> 0 < den ->
  2 ^ 62 <= H < two64 -> 0 <= Lo < two64 -> 0 <= w' -> -3000 <= s <= 3000 ->
  ge2 num den (H * two64 + Lo) s -> lt2 num den (H * two64 + Lo + w') s ->
  (H mod 2 ^ (H / 2 ^ 63 + 9)) * two64 + Lo + w' <= 2 ^ (H / 2 ^ 63 + 9) * two64 ->
  el_tail H Lo (u64 (s + 1150)) neg = Some b ->
  round_ne neg num den = (b, false).
Proof.
  intros Hnum Hden HH HLo Hw' Hs Hge Hlt Hfit.
  destruct (split54 H HH) as (Hmsb & HM & Hsplit & HlowB & Hlow511 & Hlow0).
  unfold el_tail.
  set (msb := H / 2 ^ 63) in *. set (M54 := H / 2 ^ (msb + 9)) in *. set (lowH := H mod 2 ^ (msb + 9)) in *.
  destruct ((Lo =? 0) && (H mod 512 =? 0) && (M54 mod 4 =? 1)) eqn:Hhalf; [discriminate|].
  (* the mantissa *)
  pose proof (Z.mod_pos_bound M54 2 ltac:(lia)) as Hb2.
  assert (HM54u : u64 (M54 + M54 mod 2) = M54 + M54 mod 2).
  { apply u64_small. unfold two53, two52 in HM. change two64 with 18446744073709551616. lia. }
  rewrite HM54u. set (M53 := (M54 + M54 mod 2) / 2).
  assert (HM53 : two52 <= M53 <= two53).
  { unfold M53, two53, two52 in *. Z.div_mod_to_equations. lia. }
  (* the exponent, as a true integer *)
  rewrite u64_idem_sub.
  set (r := s + 1150 - (if msb =? 1 then 0 else 1)).
  assert (Hr : r = s + msb + 1149).
  { unfold r. destruct (Z.eqb_spec msb 1); lia. }
  assert (Pg : 2 ^ (msb + 9 + 64) = 2 ^ (msb + 9) * two64).
  { rewrite Z.pow_add_r by lia. reflexivity. }
  (* core: round_pos *)
  assert (Hcore : -1022 <= 53 + (msb + 9 + 64) + s ->
                  round_pos num den = (53 + (msb + 9 + 64) + s + 1022) * two52 + M53).
  { pose proof two64_pos as T64.
    assert (A1 : H * two64 + Lo = M54 * 2 ^ (msb + 9 + 64) + (lowH * two64 + Lo)).
    { rewrite Pg. rewrite Hsplit at 1. ring. }
    assert (A2 : 0 <= lowH * two64 + Lo) by nia.
    assert (A3 : lowH * two64 + Lo + w' <= 2 ^ (msb + 9 + 64)) by (rewrite Pg; lia).
    assert (A4 : lowH * two64 + Lo = 0 -> M54 mod 4 <> 1).
    { intros Hrem0. assert (lowH = 0 /\ Lo = 0) as [E1 E2] by nia.
      specialize (Hlow0 E1). rewrite E2, Hlow0 in Hhalf. cbn [Z.eqb andb] in Hhalf.
      intros Hmod. rewrite Hmod in Hhalf. discriminate. }
    intros He.
    exact (el_core num den _ w' s (msb + 9 + 64) M54 _ Hnum Hden Hge Hlt A1 A2 A3 ltac:(lia) HM A4 He). }
  destruct (Z.ltb_spec 0 (M53 / 2 ^ 53)) as [Hcarry|Hnocarry].
  - (* mantissa carry: M53 = 2^53 *)
    assert (EM : M53 = two53).
    { change (2 ^ 53) with two53 in Hcarry. unfold two53, two52 in *. Z.div_mod_to_equations. lia. }
    rewrite u64_idem_add, u64_idem_sub.
    destruct (Z.leb_spec 2046 (u64 (r + 1 - 1))) as [|Hchk]; [discriminate|].
    intros Hb. injection Hb as <-.
    rewrite u64_mod in Hchk. pose proof two64_pos.
    assert (Hrange : 0 <= r + 1 - 1 < 2046).
    { destruct (Z_lt_le_dec (r + 1 - 1) 0) as [Hn|]; [exfalso|].
      - replace (r + 1 - 1) with ((r + 1 - 1 + two64) + (-1) * two64) in Hchk by lia.
        rewrite Z_mod_plus_full, Z.mod_small in Hchk by (change two64 with 18446744073709551616 in *; lia).
        change two64 with 18446744073709551616 in *. lia.
      - rewrite Z.mod_small in Hchk by (change two64 with 18446744073709551616 in *; lia). lia. }
    rewrite (u64_small (r + 1)) by (change two64 with 18446744073709551616; lia).
    rewrite EM. change (two53 / 2) with two52.
    change (Z.pow_pos 2 52) with two52. change (2 ^ 52) with two52. change (two52 mod two52) with 0.
    rewrite u64_small by (change two64 with 18446744073709551616; unfold two52; lia).
    unfold round_ne. destruct (Z.leb_spec num 0); [lia|].
    assert (Hpos : round_pos num den = (r + 1) * two52).
    { destruct (Z_le_gt_dec (-1022) (53 + (msb + 9 + 64) + s)) as [Hn|Hsubn].
      - rewrite Hcore by lia. rewrite EM. unfold two53, two52. lia.
      - (* binade -1023, all-ones truncation *)
        assert (E54 : M54 = 2 * two53 - 1).
        { unfold M53, two53, two52 in *. Z.div_mod_to_equations. lia. }
        pose proof two64_pos as T64.
        assert (A1 : H * two64 + Lo = (2 * two53 - 1) * 2 ^ (msb + 9 + 64) + (lowH * two64 + Lo)).
        { rewrite Pg, <- E54. rewrite Hsplit at 1. ring. }
        assert (A2 : 0 <= lowH * two64 + Lo) by nia.
        assert (A3 : lowH * two64 + Lo + w' <= 2 ^ (msb + 9 + 64)) by (rewrite Pg; lia).
        rewrite (el_core_sub num den _ w' s (msb + 9 + 64) _ Hnum Hden Hge Hlt A1 A2 A3 ltac:(lia) ltac:(lia)).
        unfold two52. lia. }
    rewrite Hpos.
    destruct (Z.leb_spec inf_bits ((r + 1) * two52)) as [Hinf|Hfin].
    + exfalso. unfold inf_bits, two52 in *. lia.
    + f_equal. destruct neg; unfold two52; lia.
  - (* no carry *)
    assert (HM53' : M53 < two53).
    { change (2 ^ 53) with two53 in Hnocarry. unfold two53, two52 in *. Z.div_mod_to_equations. lia. }
    rewrite u64_idem_sub.
    destruct (Z.leb_spec 2046 (u64 (r - 1))) as [|Hchk]; [discriminate|].
    intros Hb. injection Hb as <-.
    rewrite u64_mod in Hchk. pose proof two64_pos.
    assert (Hrange : 0 <= r - 1 < 2046).
    { destruct (Z_lt_le_dec (r - 1) 0) as [Hn|]; [exfalso|].
      - replace (r - 1) with ((r - 1 + two64) + (-1) * two64) in Hchk by lia.
        rewrite Z_mod_plus_full, Z.mod_small in Hchk by (change two64 with 18446744073709551616 in *; lia).
        change two64 with 18446744073709551616 in *. lia.
      - rewrite Z.mod_small in Hchk by (change two64 with 18446744073709551616 in *; lia). lia. }
    rewrite (u64_small r) by (change two64 with 18446744073709551616; lia).
    change (Z.pow_pos 2 52) with two52. change (2 ^ 52) with two52.
    rewrite u64_small by (change two64 with 18446744073709551616; unfold two52; lia).
    assert (Emod : M53 mod two52 = M53 - two52).
    { replace M53 with ((M53 - two52) + 1 * two52) at 1 by lia.
      rewrite Z_mod_plus_full, Z.mod_small; unfold two53, two52 in *; lia. }
    rewrite Emod.
    unfold round_ne. destruct (Z.leb_spec num 0); [lia|].
    rewrite Hcore by lia.
    destruct (Z.leb_spec inf_bits ((53 + (msb + 9 + 64) + s + 1022) * two52 + M53)) as [Hinf|Hfin].
    + exfalso. unfold inf_bits, two53, two52 in *. lia.
    + f_equal. destruct neg; unfold two52 in *; lia.
Qed.

(** * eiselLemire64 *)

(** soundness of the fast path: when eiselLemire64_m answers, the answer is the correctly rounded
    man * 10^q (nearest, ties to even), which is a finite normal number or a signed zero *)
Theorem eisel_lemire_sound T man q neg b :
  tables_ok T -> 0 <= man < two64 ->
  eiselLemire64_m T man q neg = Some b ->
  round_ne neg (man * P10 q) (P10 (- q)) = (b, false).
Proof.
  intros HT Hman. destruct (tables_ok_facts T HT) as [Hmin Hmax _ _ _ _ _ _ _ _ _ _].
  unfold eiselLemire64_m.
  destruct (Z.eqb_spec man 0) as [->|Hnz].
  { intros Hb. injection Hb as <-. rewrite Z.mul_0_l. unfold round_ne. cbn [Z.leb Z.compare]. reflexivity. }
  rewrite Hmin, Hmax.
  destruct ((q <? -348) || (347 <? q)) eqn:Hrange; [discriminate|].
  apply orb_false_iff in Hrange as [Hq1 Hq2]. apply Z.ltb_ge in Hq1. apply Z.ltb_ge in Hq2.
  assert (Hq : -348 <= q <= 347) by lia.
  pose proof (pow10_row_spec T q HT Hq) as Hrow. rewrite Hmin in Hrow. cbv zeta in Hrow.
  cbv zeta.
  set (row := nth (Z.to_nat (q - -348)) (t_pow10 T) (0, 0)) in *.
  set (lo := fst row) in *. set (hi := snd row) in *.
  set (L := Z.shiftr (217706 * q) 16) in *.
  destruct Hrow as (Hlo & Hhi & HT1lo & HT1hi).
  pose proof (L_bounds q Hq) as HL. fold L in HL.
  destruct (clz_norm man ltac:(lia)) as (Hclz & Hwu & Hw). rewrite Hwu.
  set (clz := clz64 man) in *. set (w := man * 2 ^ clz) in *.
  rewrite u64_idem_sub.
  set (s := L - 63 - clz).
  replace (L + 64 + 1023 - clz) with (s + 1150) by (unfold s; lia).
  (* the value and its dyadic brackets *)
  set (num := man * P10 q). set (den := P10 (- q)).
  assert (Hnum : 0 < num) by (unfold num; pose proof (P10_pos q); nia).
  assert (Hden : 0 < den) by apply P10_pos.
  set (W := hi * two64 + lo) in *.
  assert (Pclz : 0 < 2 ^ clz) by (apply Z.pow_pos_nonneg; lia).
  assert (G1 : ge2 num den (w * W) (L - 127 - clz)).
  { unfold w. replace (man * 2 ^ clz * W) with (man * W * 2 ^ clz) by ring.
    apply (ge2_shift num den Hnum Hden (man * W) (L - 127 - clz) clz ltac:(lia)).
    replace (L - 127 - clz + clz) with (L - 127) by lia.
    unfold ge2, num, den. replace (- (L - 127)) with (127 - L) by lia.
    replace (man * W * P2 (L - 127) * P10 (- q)) with (man * (W * P2 (L - 127) * P10 (- q))) by ring.
    replace (man * P10 q * P2 (127 - L)) with (man * (P10 q * P2 (127 - L))) by ring.
    apply Z.mul_le_mono_nonneg_l; lia. }
  assert (L1 : lt2 num den (w * (W + 1)) (L - 127 - clz)).
  { unfold w. replace (man * 2 ^ clz * (W + 1)) with (man * (W + 1) * 2 ^ clz) by ring.
    apply (lt2_shift num den Hnum Hden (man * (W + 1)) (L - 127 - clz) clz ltac:(lia)).
    replace (L - 127 - clz + clz) with (L - 127) by lia.
    unfold lt2, num, den. replace (- (L - 127)) with (127 - L) by lia.
    pose proof (P2_pos (L - 127)). pose proof (P2_pos (127 - L)). pose proof (P10_pos q). pose proof (P10_pos (- q)).
    replace (man * P10 q * P2 (127 - L)) with (man * (P10 q * P2 (127 - L))) by ring.
    replace (man * (W + 1) * P2 (L - 127) * P10 (- q)) with (man * ((W + 1) * P2 (L - 127) * P10 (- q))) by ring.
    apply Z.mul_lt_mono_pos_l; lia. }
  assert (Hs64 : L - 127 - clz + 64 = s) by (unfold s; lia).
  pose proof two64_pos as T64.
  assert (Hw64 : 0 <= w < two64) by (change (2 ^ 63) with 9223372036854775808 in Hw; lia).
  (* first product *)
  destruct (mul64_spec w hi Hw64 ltac:(lia)) as (HX & HxLo & HxHi).
  destruct (mul64 w hi) as [xHi xLo] eqn:Hmul. cbn [fst snd] in HX, HxLo, HxHi.
  assert (HX126 : 2 ^ 62 <= xHi).
  { assert (2 ^ 63 * 2 ^ 63 <= w * hi) by (apply Z.mul_le_mono_nonneg; lia).
    change (2 ^ 63 * 2 ^ 63) with (2 ^ 62 * two64) in H.
    destruct (Z_le_gt_dec (2 ^ 62) xHi) as [|G]; [assumption|exfalso].
    assert (xHi * two64 <= (2 ^ 62 - 1) * two64) by (apply Z.mul_le_mono_nonneg_r; lia).
    change two64 with 18446744073709551616 in *. change (2 ^ 62) with 4611686018427387904 in *. lia. }
  rewrite (carry_test xLo w HxLo Hw64).
  destruct ((xHi mod 512 =? 511) && (two64 <=? xLo + w)) eqn:Hguard1.
  - (* wider approximation *)
    apply andb_true_iff in Hguard1 as [Hg511 Hgc]. apply Z.eqb_eq in Hg511. apply Z.leb_le in Hgc.
    destruct (mul64_spec w lo Hw64 ltac:(lia)) as (HY & HyLo & HyHi).
    destruct (mul64 w lo) as [yHi yLo] eqn:Hmul2. cbn [fst snd] in HY, HyLo, HyHi.
    replace (xLo + yHi) with (yHi + xLo) by lia.
    rewrite (carry_test yHi xLo HyHi HxLo).
    rewrite (carry_test yLo w HyLo Hw64).
    (* the merged 128-bit value *)
    set (mLo := u64 (yHi + xLo)). set (mHi := if two64 <=? yHi + xLo then u64 (xHi + 1) else xHi).
    assert (HP : w * W = (xHi * two64 + xLo + yHi) * two64 + yLo).
    { unfold W. rewrite Z.mul_add_distr_l, Z.mul_assoc, HX, HY. ring. }
    assert (HP192 : w * W < two64 * (two64 * two64)).
    { assert (W < two64 * two64) by (unfold W; change two64 with 18446744073709551616 in *; lia).
      assert (0 <= W) by (unfold W; change two64 with 18446744073709551616 in *; change (2 ^ 63) with 9223372036854775808 in *; lia).
      apply Z.mul_lt_mono_nonneg; lia. }
    assert (HXm : xHi * two64 + xLo + yHi < two64 * two64).
    { change two64 with 18446744073709551616 in *. lia. }
    assert (Hm : mHi * two64 + mLo = xHi * two64 + xLo + yHi /\ 0 <= mLo < two64 /\ 2 ^ 62 <= mHi < two64).
    { unfold mLo, mHi. rewrite (u64_mod (yHi + xLo)). destruct (Z.leb_spec two64 (yHi + xLo)) as [Hc|Hc].
      - assert (Emod : (yHi + xLo) mod two64 = yHi + xLo - two64).
        { replace (yHi + xLo) with ((yHi + xLo - two64) + 1 * two64) at 1 by lia.
          rewrite Z_mod_plus_full, Z.mod_small by lia. reflexivity. }
        rewrite Emod.
        assert (xHi + 1 < two64) by (change two64 with 18446744073709551616 in *; lia). rewrite u64_small by lia.
        change two64 with 18446744073709551616 in *. change (2 ^ 62) with 4611686018427387904 in *. lia.
      - rewrite Z.mod_small by lia. change two64 with 18446744073709551616 in *. change (2 ^ 62) with 4611686018427387904 in *. lia. }
    destruct Hm as (HmX & HmLo & HmHi).
    destruct ((mHi mod 512 =? 511) && (u64 (mLo + 1) =? 0) && (two64 <=? yLo + w)) eqn:Hguard2; [discriminate|].
    intros Hb.
    set (w' := if two64 <=? yLo + w then 2 else 1).
    apply (el_tail_sound num den neg mHi mLo w' s b Hnum Hden HmHi HmLo); try exact Hb.
    + unfold w'. destruct (two64 <=? yLo + w); lia.
    + unfold s. lia.
    + rewrite <- Hs64. apply (ge2_shift num den Hnum Hden (mHi * two64 + mLo) (L - 127 - clz) 64 ltac:(lia)).
      apply (ge2_mono num den Hnum Hden (w * W)); [|exact G1].
      change (2 ^ 64) with two64. rewrite HmX, HP. lia.
    + rewrite <- Hs64. apply (lt2_shift num den Hnum Hden (mHi * two64 + mLo + w') (L - 127 - clz) 64 ltac:(lia)).
      apply (lt2_mono num den Hnum Hden (w * (W + 1))); [|exact L1].
      change (2 ^ 64) with two64. rewrite HmX. unfold w'.
      replace (w * (W + 1)) with (w * W + w) by ring. rewrite HP.
      destruct (Z.leb_spec two64 (yLo + w)); change two64 with 18446744073709551616 in *; lia.
    + (* the refined interval stays inside one step of the dropped bits *)
      destruct (split54 mHi HmHi) as (_ & _ & _ & HlowB & Hlow511 & _).
      set (msb := mHi / 2 ^ 63) in *. set (lowH := mHi mod 2 ^ (msb + 9)) in *.
      assert (Pm : 0 < 2 ^ (msb + 9)) by lia.
      unfold w'. destruct (Z.leb_spec two64 (yLo + w)) as [Hc2|Hc2].
      * rewrite andb_true_r in Hguard2. apply andb_false_iff in Hguard2 as [G|G].
        -- apply Z.eqb_neq in G. specialize (Hlow511 G).
           change two64 with 18446744073709551616 in *. lia.
        -- apply Z.eqb_neq in G. assert (mLo + 1 <> two64).
           { intros E. apply G. rewrite E. rewrite u64_mod. apply Z.mod_same. lia. }
           change two64 with 18446744073709551616 in *. lia.
      * change two64 with 18446744073709551616 in *. lia.
  - (* no refinement needed *)
    intros Hb.
    apply (el_tail_sound num den neg xHi xLo w s b Hnum Hden ltac:(lia) HxLo); try exact Hb.
    + lia.
    + unfold s. lia.
    + rewrite <- Hs64. apply (ge2_shift num den Hnum Hden (xHi * two64 + xLo) (L - 127 - clz) 64 ltac:(lia)).
      apply (ge2_mono num den Hnum Hden (w * W)); [|exact G1].
      change (2 ^ 64) with two64. unfold W. rewrite Z.mul_add_distr_l, Z.mul_assoc, HX.
      assert (0 <= w * lo) by (apply Z.mul_nonneg_nonneg; lia). lia.
    + rewrite <- Hs64. apply (lt2_shift num den Hnum Hden (xHi * two64 + xLo + w) (L - 127 - clz) 64 ltac:(lia)).
      apply (lt2_mono num den Hnum Hden (w * (W + 1))); [|exact L1].
      change (2 ^ 64) with two64. unfold W.
      replace (w * (hi * two64 + lo + 1)) with (w * hi * two64 + w * lo + w) by ring. rewrite HX.
      assert (w * lo <= w * (two64 - 1)) by (apply Z.mul_le_mono_nonneg_l; lia).
      change two64 with 18446744073709551616 in *. lia.
    + destruct (split54 xHi ltac:(lia)) as (_ & _ & _ & HlowB & Hlow511 & _).
      set (msb := xHi / 2 ^ 63) in *. set (lowH := xHi mod 2 ^ (msb + 9)) in *.
      assert (Pm : 0 < 2 ^ (msb + 9)) by lia.
      apply andb_false_iff in Hguard1 as [G|G].
      * apply Z.eqb_neq in G. specialize (Hlow511 G). change two64 with 18446744073709551616 in *. lia.
      * apply Z.leb_gt in G. change two64 with 18446744073709551616 in *. lia.
Qed.

(** the hypotheses are satisfiable: with the table row of 1e5 the literal 123e5 takes the plain branch *)
Example eisel_lemire_ex T :
  t_minexp10 T = -348 -> t_maxexp10 T = 347 ->
  nth 353 (t_pow10 T) (0, 0) = (0, 14073748835532800000) ->      (* 10^5 * 2^47 = 0xC350000000000000 *)
  eiselLemire64_m T 123 5 false = Some 4712865122819768320.
Proof.
  intros H1 H2 H3. unfold eiselLemire64_m. rewrite H1, H2.
  change (Z.to_nat (5 - -348)) with 353%nat. rewrite H3. vm_compute. reflexivity.
Qed.

Print Assumptions eisel_lemire_sound.
