(** The formal object the translator targets: Ragel -G2 machines as data
    ([rawmachine]: byte-range rows, statement-level action units, eof units) and the
    *physical* run semantics [prun], a literal rendering of the generated goto skeleton
    (DESIGN.md Appendix C): Go's stack slice with junk, bounds-checked indexing with an
    explicit [OPanic] outcome, explicit fuel, handlers as arbitrary functions of the call
    history that may also scribble over the shared stack array.  Definitions only. *)
From Coq Require Import List ZArith Bool.
From Coq Require Import Strings.Byte.
From Rjson Require Import Base Helpers.
Import ListNotations.
Local Open Scope Z_scope.

(** Statement-level action units (the translator's dictionary).  State numbers that only
    feed the dead local [cs] of a [goto _out] are kept for documentation. *)
Inductive unit_ :=
| UReturnErr (e : errk)                  (* return ..., p, ..., errX *)
| USetErr (e : errk)                     (* err = errX *)
| UBreak (cs : Z)                        (* { p++; cs = N; goto _out } *)
| UBreakIfErr (cs : Z)                   (* if err != nil { { p++; cs = N; goto _out } } *)
| UScanDec                               (* p, err = skipFloatDec(data, p+1, pe) *)
| UScanExp                               (* p, err = skipFloatExp(data, p+1, pe) *)
| UCall (depth_check : bool) (brk ret target : Z)   (* prepush; stack[top] = ret; top++; goto st<target> *)
| URet                                   (* top--; cs = stack[top]; goto _again *)
| UHandle (is_obj keep_pp : bool)        (* pp|_, err = handler.Handle...Value(...) *)
| UHandlerErrRet (add_pp : bool)         (* if err != nil { return p [+ pp], stack, err } *)
| UPPNeg (cs : Z)                        (* if pp < 0 { err = errPOutOfRange; break } *)
| UPPJump (safe : bool) (cs : Z)         (* if pp != 0 { if <range test> { err = errPOutOfRange; break }; p = (p+pp-1)-1 }
                                            safe: pp-1 >= pe-p ; unsafe (pre-fix): p+pp-1 >= pe *)
| UFieldStart | UFieldEnd                (* currentFieldStart/End = p *)
| USegStart                              (* segStart = p *)
| UAppendSeg                             (* dst = append(dst, data[segStart:p]...) *)
| UAppendByte (b : Z)                    (* dst = append(dst, 'c') *)
| UUnescapeU                             (* dst, n, ok = unescapeUnicodeChar(data[segStart:], dst) *)
| UNotOkRet                              (* if !ok { return nil, p, errUnexpectedByteInString(data[p]) } *)
| UAdvanceU                              (* if n > 6 { p += n - 6 } *)
| USetVal (v : bool)                     (* val = true|false *)
| UUnknown.                              (* a statement the dictionary does not know *)

Record rawmachine := {
  rm_start : Z;
  rm_first_final : Z;
  rm_rows : list (Z * list (Z * Z * Z * Z));   (* state -> [(lo, hi, block id, dest)] *)
  rm_blocks : list (Z * list unit_);
  rm_eof : list (Z * list unit_);
  rm_has_stack : bool;
  rm_skel_ok : bool;      (* the goto skeleton around the states has the -G2 shape *)
  rm_frame_ok : bool;     (* prologue/epilogue of the function equal the recorded basis *)
  rm_entries : list Z
}.

(** A machine as total functions (what the generic theorems are about). *)
Record machine := {
  m_start : Z;
  m_trans : Z -> byte -> list unit_ * Z;
  m_eof : Z -> list unit_;
  m_is_state : Z -> bool
}.

Fixpoint find_row (rows : list (Z * Z * Z * Z)) (b : Z) : option (Z * Z) :=
  match rows with
  | [] => None
  | (lo, hi, blk, dest) :: r => if (lo <=? b) && (b <=? hi) then Some (blk, dest) else find_row r b
  end.

Definition raw_trans (rm : rawmachine) (q : Z) (b : byte) : list unit_ * Z :=
  match assocZ q (rm_rows rm) with
  | None => ([UUnknown], 0)
  | Some rows =>
    match find_row rows (bz b) with
    | None => ([UUnknown], 0)
    | Some (blk, dest) =>
      if blk =? 0 then ([], dest)
      else match assocZ blk (rm_blocks rm) with
           | Some us => (us, dest)
           | None => ([UUnknown], 0)
           end
    end
  end.

Definition raw_eof (rm : rawmachine) (q : Z) : list unit_ :=
  match assocZ q (rm_eof rm) with Some us => us | None => [] end.

Definition raw_is_state (rm : rawmachine) (q : Z) : bool :=
  (q =? 0) || match assocZ q (rm_rows rm) with Some _ => true | None => false end.

Definition of_raw (rm : rawmachine) : machine :=
  {| m_start := rm_start rm; m_trans := raw_trans rm; m_eof := raw_eof rm; m_is_state := raw_is_state rm |}.

(** ** Handlers *)
Record call := { c_p : Z; c_key : list byte; c_obj : bool }.
Record hres := { h_pp : Z; h_err : option Z; h_havoc : list Z }.
(** a handler sees all calls so far (most recent first) and answers the most recent one *)
Definition handler := list call -> hres.

(** ** Run state.
    Go's [stack []int] with the index [top] is represented as an array split at [top]
    (a zipper): [s_live] holds stack[0..top) with the most recently pushed entry first,
    [s_junk] holds stack[top..len).  The whole array is [rev s_live ++ s_junk]; [s_top]
    and [s_cap] track [top] and [len(stack)].  Push and pop are O(1); what the initial
    contents of the caller's buffer (junk) can influence is explicit. *)
Record st := mkst {
  s_p : Z; s_err : option errk;
  s_top : Z; s_cap : Z; s_live : list Z; s_junk : list Z;
  s_pp : Z; s_fs : Z; s_fe : Z; s_seg : Z;
  s_dst : list byte; s_ub : Z; s_ok : bool; s_val : bool;
  s_calls : list call
}.

Definition set_p (s : st) v := mkst v (s_err s) (s_top s) (s_cap s) (s_live s) (s_junk s) (s_pp s) (s_fs s) (s_fe s) (s_seg s) (s_dst s) (s_ub s) (s_ok s) (s_val s) (s_calls s).
Definition set_err (s : st) v := mkst (s_p s) v (s_top s) (s_cap s) (s_live s) (s_junk s) (s_pp s) (s_fs s) (s_fe s) (s_seg s) (s_dst s) (s_ub s) (s_ok s) (s_val s) (s_calls s).
Definition set_stk (s : st) t c l j := mkst (s_p s) (s_err s) t c l j (s_pp s) (s_fs s) (s_fe s) (s_seg s) (s_dst s) (s_ub s) (s_ok s) (s_val s) (s_calls s).
Definition set_pp (s : st) v := mkst (s_p s) (s_err s) (s_top s) (s_cap s) (s_live s) (s_junk s) v (s_fs s) (s_fe s) (s_seg s) (s_dst s) (s_ub s) (s_ok s) (s_val s) (s_calls s).
Definition set_fs (s : st) v := mkst (s_p s) (s_err s) (s_top s) (s_cap s) (s_live s) (s_junk s) (s_pp s) v (s_fe s) (s_seg s) (s_dst s) (s_ub s) (s_ok s) (s_val s) (s_calls s).
Definition set_fe (s : st) v := mkst (s_p s) (s_err s) (s_top s) (s_cap s) (s_live s) (s_junk s) (s_pp s) (s_fs s) v (s_seg s) (s_dst s) (s_ub s) (s_ok s) (s_val s) (s_calls s).
Definition set_seg (s : st) v := mkst (s_p s) (s_err s) (s_top s) (s_cap s) (s_live s) (s_junk s) (s_pp s) (s_fs s) (s_fe s) v (s_dst s) (s_ub s) (s_ok s) (s_val s) (s_calls s).
Definition set_dst (s : st) v := mkst (s_p s) (s_err s) (s_top s) (s_cap s) (s_live s) (s_junk s) (s_pp s) (s_fs s) (s_fe s) (s_seg s) v (s_ub s) (s_ok s) (s_val s) (s_calls s).
Definition set_ub (s : st) d u o := mkst (s_p s) (s_err s) (s_top s) (s_cap s) (s_live s) (s_junk s) (s_pp s) (s_fs s) (s_fe s) (s_seg s) d u o (s_val s) (s_calls s).
Definition set_val (s : st) v := mkst (s_p s) (s_err s) (s_top s) (s_cap s) (s_live s) (s_junk s) (s_pp s) (s_fs s) (s_fe s) (s_seg s) (s_dst s) (s_ub s) (s_ok s) v (s_calls s).
Definition set_calls (s : st) v := mkst (s_p s) (s_err s) (s_top s) (s_cap s) (s_live s) (s_junk s) (s_pp s) (s_fs s) (s_fe s) (s_seg s) (s_dst s) (s_ub s) (s_ok s) (s_val s) v.

Definition init_st (stack : list Z) (dst : list byte) : st :=
  mkst 0 None 0 (len stack) [] stack 0 0 0 0 dst 0 false false [].

(** the Go slice [stack] as a whole (what a wrapper stores back into the Buffer) *)
Definition s_stack (s : st) : list Z := rev (s_live s) ++ s_junk s.

Inductive pank :=
| PData          (* data[p] out of range *)
| PSlice         (* slice bounds out of range *)
| PStack         (* stack[top] out of range *)
| PMake          (* make([]int, negative) *)
| PBadState      (* cs loaded from the stack is not a state of the machine *)
| PUnknown.      (* the block contains a statement the model does not know *)

Inductive ures :=
| RCont (s : st)
| RGoto (s : st) (d : Z)
| ROut (s : st)
| RRet (p : Z) (e : errk) (s : st)
| RPanic (k : pank).

Inductive outcome :=
| ODone (p : Z) (e : option errk) (s : st)
| OPanic (k : pank)
| OOutOfFuel.

Section Run.
  Variable max_depth : Z.        (* skipMaxDepth, from Gen *)
  Variable m : machine.
  Variable data : list byte.
  Variable h : handler.
  Variable pe : Z.               (* len data, computed once by [prun] *)

  Definition brk (s : st) : ures := ROut (set_p s (s_p s + 1)).

  Definition exec_unit (u : unit_) (s : st) : ures :=
    match u with
    | UReturnErr e => RRet (s_p s) e s
    | USetErr e => RCont (set_err s (Some e))
    | UBreak _ => brk s
    | UBreakIfErr _ => match s_err s with Some _ => brk s | None => RCont s end
    | UScanDec => let '(p', e) := skipFloatDec data (s_p s + 1) in RCont (set_err (set_p s p') e)
    | UScanExp => let '(p', e) := skipFloatExp data (s_p s + 1) in RCont (set_err (set_p s p') e)
    | UCall chk _ ret tgt =>
      if chk && (s_top s =? max_depth) then brk (set_err s (Some EMaxDepth))
      else
        let top := s_top s in
        (* if top+1 >= len(stack) { stack = append(stack, make([]int, 1+top-len(stack))...) } *)
        let grown :=
            if top + 1 >=? s_cap s then
              let n := 1 + top - s_cap s in
              if n <? 0 then None else Some (s_junk s ++ zrepeat (Z.to_nat n), s_cap s + n)
            else Some (s_junk s, s_cap s) in
        match grown with
        | None => RPanic PMake
        | Some (junk1, cap1) =>
          (* stack[top] = ret; top++ *)
          match junk1 with
          | [] => RPanic PStack
          | _ :: junk2 => RGoto (set_stk s (top + 1) cap1 (ret :: s_live s) junk2) tgt
          end
        end
    | URet =>
      (* top--; cs = stack[top] *)
      match s_live s with
      | [] => RPanic PStack
      | x :: l => RGoto (set_stk s (s_top s - 1) (s_cap s) l (x :: s_junk s)) x
      end
    | UHandle is_obj keep =>
      let key := if is_obj then slice data (s_fs s + 1) (s_fe s - 1) else Some [] in
      match key with
      | None => RPanic PSlice
      | Some k =>
        if (0 <=? s_p s) && (s_p s <=? pe) then
          let calls := {| c_p := s_p s; c_key := k; c_obj := is_obj |} :: s_calls s in
          let r := h calls in
          let s1 := set_calls s calls in
          let s2 := set_err s1 (option_map EHandler (h_err r)) in
          let s3 := if keep then set_pp s2 (wrap64 (h_pp r)) else s2 in
          match h_havoc r with
          | [] => RCont s3
          | hv =>
            (* a re-entrant handler may have scribbled over the shared backing array *)
            let arr := overwrite (s_stack s3) hv in
            let k := length (s_live s3) in
            RCont (set_stk s3 (s_top s3) (s_cap s3) (rev (firstn k arr)) (skipn k arr))
          end
        else RPanic PSlice
      end
    | UHandlerErrRet add =>
      match s_err s with
      | Some e => RRet (if add then wrap64 (s_p s + s_pp s) else s_p s) e s
      | None => RCont s
      end
    | UPPNeg _ => if s_pp s <? 0 then brk (set_err s (Some EPOutOfRange)) else RCont s
    | UPPJump safe _ =>
      if s_pp s =? 0 then RCont s else
        let oob := if safe then wrap64 (s_pp s - 1) >=? wrap64 (pe - s_p s)
                   else wrap64 (wrap64 (s_p s + s_pp s) - 1) >=? pe in
        if oob then brk (set_err s (Some EPOutOfRange))
        else RCont (set_p s (wrap64 (wrap64 (wrap64 (s_p s + s_pp s) - 1) - 1)))
    | UFieldStart => RCont (set_fs s (s_p s))
    | UFieldEnd => RCont (set_fe s (s_p s))
    | USegStart => RCont (set_seg s (s_p s))
    | UAppendSeg =>
      match slice data (s_seg s) (s_p s) with
      | Some seg => RCont (set_dst s (s_dst s ++ seg))
      | None => RPanic PSlice
      end
    | UAppendByte b => RCont (set_dst s (s_dst s ++ [zb b]))
    | UUnescapeU =>
      if (0 <=? s_seg s) && (s_seg s <=? pe) then
        let '(d, n, ok) := unescapeUnicodeChar (skipn (Z.to_nat (s_seg s)) data) (s_dst s) in
        RCont (set_ub s d n ok)
      else RPanic PSlice
    | UNotOkRet =>
      if s_ok s then RCont s
      else match get data (s_p s) with
           | Some _ => RRet (s_p s) EByteInString s
           | None => RPanic PData
           end
    | UAdvanceU => if s_ub s >? 6 then RCont (set_p s (s_p s + (s_ub s - 6))) else RCont s
    | USetVal v => RCont (set_val s v)
    | UUnknown => RPanic PUnknown
    end.

  Fixpoint exec_units (us : list unit_) (s : st) : ures :=
    match us with
    | [] => RCont s
    | u :: r =>
      match exec_unit u s with
      | RCont s' => exec_units r s'
      | x => x
      end
    end.

  (** _test_eof: p == eof holds whenever this is entered *)
  Definition eof_phase (cs : Z) (s : st) : outcome :=
    match exec_units (m_eof m cs) s with
    | RCont s' => ODone (s_p s') (s_err s') s'
    | ROut s' => ODone (s_p s') (s_err s') s'
    | RRet p e s' => ODone p (Some e) s'
    | RGoto _ _ => OPanic PUnknown
    | RPanic k => OPanic k
    end.

  (** DISPATCH on cs, reading data[p] *)
  Fixpoint run (fuel : nat) (cs : Z) (s : st) : outcome :=
    match fuel with
    | O => OOutOfFuel
    | S f =>
      match get data (s_p s) with
      | None => OPanic PData
      | Some b =>
        let '(us, d) := m_trans m cs b in
        let goto_ (s' : st) (d' : Z) : outcome :=
            if d' =? 0 then ODone (s_p s') (s_err s') s'          (* st0: cs = 0; goto _out *)
            else if negb (m_is_state m d') then OPanic PBadState
            else
              let s'' := set_p s' (s_p s' + 1) in                (* stN: p++ *)
              if s_p s'' =? pe then eof_phase d' s'' else run f d' s'' in
        match exec_units us s with
        | RCont s' => goto_ s' d
        | RGoto s' d' => goto_ s' d'
        | ROut s' => ODone (s_p s') (s_err s') s'
        | RRet p e s' => ODone p (Some e) s'
        | RPanic k => OPanic k
        end
      end
    end.

  (** The same loop with a cursor: [rest] is the suffix of [data] at [s_p s], so that the
      common p++ step costs O(1) instead of an O(p) list lookup.  [run_c] is what the
      extracted driver executes; [run_c_eq] (MachineFacts.v) proves it equal to [run]. *)
  Fixpoint run_c (fuel : nat) (cs : Z) (s : st) (rest : list byte) : outcome :=
    match fuel with
    | O => OOutOfFuel
    | S f =>
      match rest with
      | [] => OPanic PData
      | b :: rest1 =>
        let '(us, d) := m_trans m cs b in
        let goto_ (s' : st) (d' : Z) : outcome :=
            if d' =? 0 then ODone (s_p s') (s_err s') s'
            else if negb (m_is_state m d') then OPanic PBadState
            else
              let s'' := set_p s' (s_p s' + 1) in
              if s_p s'' =? pe then eof_phase d' s''
              else if s_p s' =? s_p s then run_c f d' s'' rest1
              else if (0 <=? s_p s'') && (s_p s'' <? pe) then run_c f d' s'' (skipn (Z.to_nat (s_p s'')) data)
              else run_c f d' s'' [] in   (* p out of range: the next DISPATCH panics (or the fuel is gone), as in [run] *)
        match exec_units us s with
        | RCont s' => goto_ s' d
        | RGoto s' d' => goto_ s' d'
        | ROut s' => ODone (s_p s') (s_err s') s'
        | RRet p e s' => ODone p (Some e) s'
        | RPanic k => OPanic k
        end
      end
    end.
End Run.

Definition fuel_for (data : list byte) : nat := S (S (2 * length data)).

Definition prun (max_depth : Z) (m : machine) (data : list byte) (h : handler)
           (stack : list Z) (dst : list byte) : outcome :=
  let pe := len data in
  let s0 := init_st stack dst in
  if 0 =? pe then eof_phase max_depth m data h pe (m_start m) s0
  else run max_depth m data h pe (fuel_for data) (m_start m) s0.

Definition prun_c (max_depth : Z) (m : machine) (data : list byte) (h : handler)
           (stack : list Z) (dst : list byte) : outcome :=
  let pe := len data in
  let s0 := init_st stack dst in
  if 0 =? pe then eof_phase max_depth m data h pe (m_start m) s0
  else run_c max_depth m data h pe (fuel_for data) (m_start m) s0 data.
